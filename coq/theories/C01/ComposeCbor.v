(* C01/ComposeCbor — the cbor wire model (Wire/Cbor.v, CborEnc.v, C10/CborConv.v) presented
   as the driver record [wire], the proof of [wire_ok] and of the documented losses
   [cbor_losses], and the composed typed round trip down to BYTES -- PARTIAL: non-zero
   times are outside (see below).

   [W_cbor Oc D]:
     wn / wnk  = CborEnc.norm Oc D = go_of D (sdata_of Oc i) / keynorm of it: what
                 Wcbor_dec_enc_partial proves DecodeNaked returns for an encoded item;
     is_nil    = the item is nil (advanceNil: null / undefined);
     rd_*      = the cborDecDriver's typed reads (cbor.go:409-470, 585-613, DecodeFloat32)
                 on the items the encoder can have produced:
                   DecodeBool    true / false only;
                   DecodeInt64   major 0 / 1 through decNegintPosintFloatNumberHelperInt64v
                                 (major 0 >= 2^63: overflow);
                   DecodeUint64  major 0; major 1 refused;
                   DecodeFloat64 half / single widened exactly, double;
                   DecodeFloat32 float32(chkOvf.Float32V(DecodeFloat64())), [unwiden];
                   DecodeStringAsBytes / DecodeBytes  majors 2 and 3 alike, chunks concatenated
                                 (ValidateUnicode not modelled);
                   DecodeTime    a time item.
                 Integer <-> float fallbacks, bignum / decimal tags, inexact float32 narrowing
                 and DecodeBytes on an array are C07's / off the round-trip path: Err EUnsupported.
     leaf_ok   = - a float32 signalling NaN comes back quiet: excluded;
                 - under SignedInteger (read by DecodeNaked only) an unsigned >= 2^63 is
                   outside [lib_supports]: excluded;
                 - a NON-ZERO time: Wire/Cbor's dec_enc lemma does not cover tags 0 / 1
                   ([lib_supports] excludes tags 0..5; what is missing there is the float /
                   calendar arithmetic time_of_float (f64_add ..) and parse_rfc3339
                   (fmt_rfc3339 ..) returning the microsecond-rounded instant), and
                   [norm] of such an item is the raw tag, not what DecodeNaked returns:
                   excluded.  The zero time (written as nil) is covered. *)
From Coq Require Import List NArith ZArith Bool Lia.
From Coq Require Import ZifyN ZifyNat ZifyBool.
From Verif Require Import Base.Outcome Gen.Consts Wire.Item Generic.Types Generic.Enc Generic.Dec.
From Verif Require Import C01.Model C01.Proofs C01.ComposeFloat.
From Verif Require Wire.CborFloat Wire.Cbor C10.CborSpec C10.CborConv Wire.CborEnc.
Import ListNotations.
Open Scope bool_scope.

Module CF := Verif.Wire.CborFloat.
Module CB := Verif.Wire.Cbor.
Module CS := Verif.C10.CborSpec.
Module CC := Verif.C10.CborConv.
Module CE := Verif.Wire.CborEnc.

Ltac Zify.zify_post_hook ::= Z.div_mod_to_equations.

(* ---- CborFloat.widen (round-to-nearest form) is the canonical exact widening ---- *)
Section Float.
Open Scope N_scope.
Lemma lor_disjoint : forall a y n, y < 2 ^ n -> N.lor (a * 2 ^ n) y = a * 2 ^ n + y.
Proof.
  intros a y n H.
  assert (L : N.land (a * 2 ^ n) y = 0).
  { apply N.bits_inj. intro i. rewrite N.land_spec, N.bits_0.
    destruct (N.ltb_spec i n).
    - rewrite N.mul_pow2_bits_low by assumption. reflexivity.
    - destruct (N.eq_dec y 0) as [->|Hy]; [rewrite N.bits_0; apply andb_false_r|].
      rewrite (N.bits_above_log2 y i); [apply andb_false_r|].
      apply N.lt_le_trans with n; [apply N.log2_lt_pow2; lia | assumption]. }
  rewrite <- (N.lxor_lor _ _ L). symmetry. apply N.add_nocarry_lxor. exact L.
Qed.

Lemma round64_normal : forall m e, m < 2 ^ 23 -> 0 < e -> e < 255 ->
  CF.round64 (m + 8388608) (Z.of_N e - 150) = (e + 896) * 2 ^ 52 + m * 2 ^ 29.
Proof.
  intros m e Hm He1 He2. unfold CF.round64, CF.round_bin.
  destruct (N.eqb_spec (m + 8388608) 0); [lia|]. cbv zeta.
  assert (HL : N.log2 (m + 8388608) = 23). { apply N.log2_unique; [lia|]. pows. lia. }
  unfold CF.bitlen. destruct (N.eqb_spec (m + 8388608) 0); [lia|]. rewrite HL.
  match goal with |- context [Z.max ?a ?b] => replace (Z.max a b) with (Z.of_N e - 179)%Z by lia end.
  replace (Z.of_N e - 179 - (Z.of_N e - 150))%Z with (-29)%Z by lia.
  change (-29 <=? 0)%Z with true. cbv iota.
  change (Z.to_N (- (-29))) with 29. change (Z.to_N (53 - 1)) with 52. change (2 ^ 11 - 1) with 2047.
  replace (Z.to_N (Z.of_N e - 179 - -1074)) with (e + 895) by lia.
  rewrite !N.shiftl_mul_pow2.
  destruct (N.leb_spec (2047 * 2 ^ 52) ((e + 895) * 2 ^ 52 + (m + 8388608) * 2 ^ 29)) as [Z|Z]; revert Z; pows; lia.
Qed.

Lemma round64_sub : forall m, 0 < m -> m < 2 ^ 23 ->
  CF.round64 m (-149) = (N.log2 m + 874) * 2 ^ 52 + (m - 2 ^ N.log2 m) * 2 ^ (52 - N.log2 m).
Proof.
  intros m Hm0 Hm. unfold CF.round64, CF.round_bin.
  destruct (N.eqb_spec m 0); [lia|]. cbv zeta.
  unfold CF.bitlen. destruct (N.eqb_spec m 0); [lia|].
  pose proof (N.log2_spec m Hm0) as [Hk1 Hk2].
  set (k := N.log2 m) in *.
  assert (Hk : k <= 22).
  { assert (k < 23); [|lia]. apply (N.pow_lt_mono_r_iff 2); [lia|]. eapply N.le_lt_trans; [exact Hk1|exact Hm]. }
  match goal with |- context [Z.max ?a ?b] => replace (Z.max a b) with (Z.of_N k - 201)%Z by lia end.
  replace (Z.of_N k - 201 - -149)%Z with (Z.of_N k - 52)%Z by lia.
  destruct (Z.leb_spec (Z.of_N k - 52) 0) as [_|Z]; [|lia].
  replace (Z.to_N (- (Z.of_N k - 52))) with (52 - k) by lia.
  change (Z.to_N (53 - 1)) with 52. change (2 ^ 11 - 1) with 2047.
  replace (Z.to_N (Z.of_N k - 201 - -1074)) with (k + 873) by lia.
  rewrite !N.shiftl_mul_pow2.
  assert (Hp : 2 ^ k * 2 ^ (52 - k) = 2 ^ 52). { rewrite <- N.pow_add_r. f_equal. lia. }
  assert (Hmk : m * 2 ^ (52 - k) = 2 ^ 52 + (m - 2 ^ k) * 2 ^ (52 - k)).
  { rewrite <- Hp. rewrite <- N.mul_add_distr_r. f_equal. lia. }
  assert (Hf : (m - 2 ^ k) * 2 ^ (52 - k) < 2 ^ 52).
  { rewrite <- Hp. apply N.mul_lt_mono_pos_r; [assert (2 ^ (52 - k) <> 0) by (apply N.pow_nonzero; lia); lia|].
    rewrite N.pow_succ_r' in Hk2. lia. }
  rewrite Hmk. set (f := (m - 2 ^ k) * 2 ^ (52 - k)) in *. clearbody f.
  destruct (N.leb_spec (2047 * 2 ^ 52) ((k + 873) * 2 ^ 52 + (2 ^ 52 + f))) as [Z|Z]; revert Z Hf; pows; lia.
Qed.

Lemma cbor_widen : forall b, b < 2 ^ 32 -> CF.widen b = widen_c b.
Proof.
  intros b Hb. unfold CF.widen, widen_c.
  rewrite !N.shiftr_div_pow2.
  assert (EL : forall x, N.land x 255 = x mod 256) by (intro x; change 255 with (N.ones 8); rewrite N.land_ones; reflexivity).
  rewrite !EL. change 8388607 with (N.ones 23). rewrite !N.land_ones. rewrite !N.shiftl_mul_pow2.
  set (s := b / 2 ^ 31). set (e := (b / 2 ^ 23) mod 256). set (m := b mod 2 ^ 23).
  assert (Hm : m < 2 ^ 23) by (unfold m; pows; lia).
  assert (He : e < 256) by (unfold e; lia).
  cbv zeta.
  destruct (N.eqb_spec e 255) as [E255|E255].
  - destruct (N.eqb_spec m 0) as [M0|M0]; [unfold CF.f64_inf; pows; lia|].
    change 2251799813685248 with (2 ^ 51). rewrite lor_quiet by exact Hm.
    replace (s * 2 ^ 63 + CF.f64_inf) with ((s * 2048 + 2047) * 2 ^ 52) by (unfold CF.f64_inf; pows; lia).
    rewrite lor_disjoint by (pows; lia). pows. lia.
  - destruct (N.eqb_spec e 0) as [E0|E0].
    + destruct (N.eqb_spec m 0) as [M0|M0].
      * rewrite M0. vm_compute (CF.round64 0 (-149)). lia.
      * rewrite round64_sub by (try exact Hm; lia). lia.
    + rewrite round64_normal by (try exact Hm; lia). lia.
Qed.
End Float.

Section W.
  Variable Oc : CB.eopts.
  Variable D : CB.dopts.

  Definition c_wn (i : item) : item := CE.norm Oc D i.
  Definition c_wnk (i : item) : item := CB.keynorm (CE.norm Oc D i).

  Definition c_rd_bool (i : item) : res bool := match i with IBool b => Ok b | _ => Err EBadDesc end.
  Definition c_rd_int (i : item) : res Z :=
    match i with
    | IInt z => Ok z
    | IUint n => if (n <? 2 ^ 63)%N then Ok (Z.of_N n) else Err EOverflow
    | IF32 _ | IF64 _ | ITag _ _ => Err EUnsupported
    | _ => Err EBadDesc
    end.
  Definition c_rd_uint (i : item) : res N :=
    match i with
    | IUint n => Ok n
    | IInt z => if (0 <=? z)%Z then Ok (Z.to_N z) else Err EOther
    | IF32 _ | IF64 _ | ITag _ _ => Err EUnsupported
    | _ => Err EBadDesc
    end.
  Definition c_rd_f64 (i : item) : res N :=
    match i with IF64 x => Ok x | IInt _ | IUint _ | ITag _ _ => Err EUnsupported | _ => Err EBadDesc end.
  Definition c_rd_f32 (i : item) : res N :=
    match i with IF64 x => unwiden x | IInt _ | IUint _ | ITag _ _ => Err EUnsupported | _ => Err EBadDesc end.
  Definition c_rd_raw (i : item) : res (list N) :=
    match i with IStr s | IBytes s => Ok s | IArr _ => Err EUnsupported | _ => Err EBadDesc end.
  Definition c_rd_time (i : item) : res (Z * N) :=
    match i with ITime s n => Ok (s, n) | ITag _ _ => Err EUnsupported | _ => Err EBadDesc end.

  Definition c_leaf_ok (i : item) : bool :=
    match i with
    | IUint n => negb (CB.do_signed D) || (n <? 2 ^ 63)%N
    | IF32 b => negb (snan32 b)
    | ITime s n => is_time_zero s n
    | _ => true
    end.

  Definition W_cbor : wire := {|
    wn := c_wn;
    wnk := c_wnk;
    is_nil := item_is_nil;
    rd_bool := c_rd_bool;
    rd_int := c_rd_int;
    rd_uint := c_rd_uint;
    rd_f32 := c_rd_f32;
    rd_f64 := c_rd_f64;
    rd_str := c_rd_raw;
    rd_bytes := c_rd_raw;
    rd_time := c_rd_time;
    fn32 := fun b : N => b;
    fn64 := fun b : N => b;
    tnorm := round_us;
    leaf_ok := c_leaf_ok
  |}.

  Lemma go_bytes_raw : forall s, c_rd_raw (CC.go_of D (CS.DBytes s)) = Ok s /\ item_is_nil (CC.go_of D (CS.DBytes s)) = false
                                 /\ c_rd_raw (CB.keynorm (CC.go_of D (CS.DBytes s))) = Ok s
                                 /\ item_is_nil (CB.keynorm (CC.go_of D (CS.DBytes s))) = false.
  Proof. intro s. cbn [CC.go_of]. destruct (CB.do_raw2str D); repeat apply conj; reflexivity. Qed.

  Lemma c_scalar : forall key : bool,
    scalar_ok W_cbor (fun i => if key then CB.keynorm (CE.norm Oc D i) else CE.norm Oc D i).
  Proof.
    intro key. unfold CE.norm.
    constructor; cbn [leaf_ok is_nil rd_bool rd_int rd_uint rd_f32 rd_f64 rd_str fn32 fn64 W_cbor c_leaf_ok].
    - destruct key; reflexivity.
    - intros b _. destruct key, b; split; reflexivity.
    - intros z _ Hz.
      assert (E : CC.go_of D (CE.sdata_of Oc (IInt z)) = IInt z \/ ((0 <= z)%Z /\ CC.go_of D (CE.sdata_of Oc (IInt z)) = IUint (Z.to_N z))).
      { cbn [CE.sdata_of]. unfold CE.int_data. destruct (Z.ltb_spec z 0).
        - left. cbn [CC.go_of]. f_equal. lia.
        - cbn [CC.go_of]. destruct (CB.do_signed D); [left; f_equal; lia|right; split; [assumption|reflexivity]]. }
      destruct E as [E|[Hz0 E]]; destruct key; rewrite E; cbn [CB.keynorm item_is_nil c_rd_int]; split; try reflexivity.
      + destruct (N.ltb_spec (Z.to_N z) (2 ^ 63)); [|lia]. rewrite Z2N.id by lia. reflexivity.
      + destruct (N.ltb_spec (Z.to_N z) (2 ^ 63)); [|lia]. rewrite Z2N.id by lia. reflexivity.
    - intros n Hl Hn. cbn [CE.sdata_of CC.go_of].
      destruct (CB.do_signed D); destruct key; cbn [CB.keynorm item_is_nil c_rd_uint]; split; try reflexivity.
      + destruct (Z.leb_spec 0 (Z.of_N n)); [|lia]. rewrite N2Z.id. reflexivity.
      + destruct (Z.leb_spec 0 (Z.of_N n)); [|lia]. rewrite N2Z.id. reflexivity.
    - intros b Hl Hb. apply negb_true_iff in Hl.
      assert (E : CC.go_of D (CE.sdata_of Oc (IF32 b)) = IF64 (widen_c b)).
      { cbn [CE.sdata_of CC.go_of]. change (32 =? 16)%N with false. change (32 =? 32)%N with true. cbv iota.
        rewrite cbor_widen by exact Hb. reflexivity. }
      destruct key; rewrite E; cbn [CB.keynorm item_is_nil c_rd_f32]; (split; [reflexivity|]); apply unwiden_widen; assumption.
    - intros b _ _. cbn [CE.sdata_of CC.go_of]. change (64 =? 16)%N with false. change (64 =? 32)%N with false. cbv iota.
      destruct key; split; reflexivity.
    - intros s _ _. cbn [CE.sdata_of]. destruct (CB.eo_str2raw Oc).
      + destruct (go_bytes_raw s) as [B1 [B2 [B3 B4]]]. destruct key; split; assumption.
      + cbn [CC.go_of]. destruct key; split; reflexivity.
  Qed.

  Lemma round_us_zero : round_us time_zero_sec 0 = (time_zero_sec, 0%N).
  Proof. vm_compute. reflexivity. Qed.

  Lemma W_cbor_ok : wire_ok W_cbor.
  Proof.
    constructor.
    - exact (c_scalar false).
    - exact (c_scalar true).
    - intros b _ _. cbn [wn is_nil rd_bytes W_cbor]. unfold c_wn, CE.norm. cbn [CE.sdata_of].
      destruct (go_bytes_raw b) as [B1 [B2 _]]. split; assumption.
    - intros s n Hl Hn. cbn [leaf_ok wn is_nil rd_time tnorm W_cbor c_leaf_ok] in *. unfold c_wn, CE.norm. cbn [CE.sdata_of].
      unfold is_time_zero in Hl. unfold CB.zero_time_sec. change time_zero_sec with (-62135596800)%Z in Hl. rewrite Hl.
      cbn [CC.go_of]. change (22 =? 20)%N with false. change (22 =? 21)%N with false. cbn [item_is_nil].
      apply andb_true_iff in Hl. destruct Hl as [E1 E2]. apply Z.eqb_eq in E1. apply N.eqb_eq in E2. subst.
      exact round_us_zero.
    - intro l. cbn [wn W_cbor]. unfold c_wn, CE.norm. cbn [CE.sdata_of CC.go_of]. rewrite map_map. reflexivity.
    - intro l. cbn [wn wnk W_cbor]. unfold c_wn, c_wnk, CE.norm. cbn [CE.sdata_of CC.go_of]. rewrite map_map. reflexivity.
    - intro l. reflexivity.
    - intro l. reflexivity.
    - reflexivity.
    - reflexivity.
    - reflexivity.
    - reflexivity.
  Qed.

  Lemma W_cbor_losses : same_losses (losses_of W_cbor) cbor_losses.
  Proof.
    repeat apply conj; intros; try reflexivity.
    cbn [losses_of l_tnil cbor_losses wn is_nil W_cbor]. unfold c_wn, CE.norm. cbn [CE.sdata_of].
    unfold is_time_zero, CB.zero_time_sec. change time_zero_sec with (-62135596800)%Z.
    destruct ((s =? -62135596800)%Z && (n =? 0)%N); [reflexivity|].
    destruct (CB.eo_rfc3339 Oc).
    - cbn [CC.go_of]. change (0 =? 55799)%N with false. cbn [orb]. destruct (CB.do_skiptags D); reflexivity.
    - destruct (CB.round_us s n) as [s1 n1]. cbn [CC.go_of]. change (1 =? 55799)%N with false. cbn [orb].
      destruct (CB.do_skiptags D); [|reflexivity].
      destruct (n1 =? 0)%N.
      + unfold CE.int_data. destruct (s1 <? 0)%Z; cbn [CC.go_of]; [reflexivity|]. destruct (CB.do_signed D); reflexivity.
      + cbn [CC.go_of]. change (64 =? 16)%N with false. change (64 =? 32)%N with false. reflexivity.
  Qed.
End W.

(* ---- the composed round trip: bytes -> DecodeNaked's item -> typed value (non-zero times excluded) ---- *)
Theorem cbor_compose_partial : forall (Oc : CB.eopts) (D : CB.dopts) (O : gopts) (pi : order) (t : ty) (v : gv) (rest : list N),
  order_ok pi -> wt t v = true -> supported t = true ->
  wf (to_item O pi v) -> CC.plain (to_item O pi v) ->
  CC.lib_supports D (CC.tree_of Oc (to_item O pi v)) ->
  (CC.tdepth D (CC.tree_of Oc (to_item O pi v)) < CB.maxdepth D)%Z ->
  leaves_ok (W_cbor Oc D) (to_item O pi v) = true ->
  (Z.of_nat (depth (to_item O pi v)) < maxdepth O)%Z ->
  CB.dec_naked D (CB.fuel_for (CB.enc Oc (to_item O pi v) ++ rest)) (CB.enc Oc (to_item O pi v) ++ rest)
    = Ok (wn (W_cbor Oc D) (to_item O pi v), rest) /\
  of_item (W_cbor Oc D) O 0 t (wn (W_cbor Oc D) (to_item O pi v)) = Ok (normL cbor_losses O (arrange O pi v)) /\
  veq (normL cbor_losses O (arrange O pi v)) (normL cbor_losses O v).
Proof.
  intros Oc D O pi t v rest Hpi Hwt Hs Hwf Hpl Hsup Htd Hl Hd. split.
  - apply CE.dec_enc_lemma; assumption.
  - apply (roundtrip_losses cbor_losses (W_cbor Oc D) O pi t v (W_cbor_ok Oc D) (W_cbor_losses Oc D) Hpi Hwt Hs Hl Hd).
Qed.

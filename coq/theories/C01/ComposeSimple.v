(* C01/ComposeSimple — the "simple" format's wire model (Wire/Simple.v) presented
   as the driver record [wire] the generic decoder reads through, the proof that
   it meets the interface [wire_ok], that its losses are the documented
   [exact_losses], and the composed typed round trip down to BYTES.

   [W_simple o D]:
     wn / wnk  = Simple.norm o D false / key_conv (Simple.norm o D true): exactly what
                 W_simple_dec_enc proves DecodeNaked returns for an encoded item in
                 value / map-key position;
     is_nil    = the item is nil (TryNil / advanceNil: descriptor simpleVdNil);
     rd_*      = the simpleDecDriver's typed reads (simple.go:342-474, 756) on the
                 items the encoder can have produced:
                   DecodeBool    bool descriptors only;
                   DecodeInt64   posint / negint through
                                 decNegintPosintFloatNumberHelperInt64v (a magnitude
                                 >= 2^63 read as a positive int64 is an overflow);
                   DecodeUint64  posint; a negint is refused;
                   DecodeFloat64 the float descriptors (a float32 was widened exactly);
                   DecodeFloat32 float32(chkOvf.Float32V(DecodeFloat64())), [unwiden];
                   DecodeStringAsBytes = DecodeBytes: string and bytearray descriptors alike;
                   DecodeTime    the time descriptor.
                 The number readers' cross-kind fallbacks (integer <-> float:
                 int64TryFloat, float64TryInteger, uint64TryFloat), inexact float32
                 narrowing and DecodeBytes on an ARRAY of uint8 are property C07's /
                 not on the round-trip path: they answer Err EUnsupported here.
     leaf_ok   = what the format does not bring back as written:
                   - under EncZeroValuesAsNil a zero scalar in value position is written
                     as nil (a pointer to it would come back as a nil pointer): excluded;
                   - a float32 signalling NaN comes back quiet (CVTSS2SD in decFloat):
                     excluded;
                   - under DecodeOptions.SignedInteger (which only DecodeNaked reads) an
                     unsigned value >= 2^63 makes DecodeNaked fail (W_simple_dec_enc_
                     signed_overflow): excluded, because the byte-level statement goes
                     through DecodeNaked's item. *)
From Coq Require Import List NArith ZArith Bool Lia.
From Coq Require Import ZifyN ZifyNat ZifyBool.
From Verif Require Import Base.Outcome Gen.Consts Wire.Item Generic.Types Generic.Enc Generic.Dec.
From Verif Require Import C01.Model C01.Proofs C01.ComposeFloat.
From Verif Require Wire.Simple Wire.SimpleProofs.
Import ListNotations.
Open Scope bool_scope.

Module S := Verif.Wire.Simple.

Section W.
  Variable o : S.eopts.
  Variable D : S.dopts.

  Definition s_wn (i : item) : item := S.norm o D false i.
  Definition s_wnk (i : item) : item := S.key_conv (S.norm o D true i).

  Definition s_rd_bool (i : item) : res bool := match i with IBool b => Ok b | _ => Err EBadDesc end.
  Definition s_rd_int (i : item) : res Z :=
    match i with
    | IInt z => Ok z
    | IUint n => if (n <? 2 ^ 63)%N then Ok (Z.of_N n) else Err EOverflow
    | IF32 _ | IF64 _ => Err EUnsupported
    | _ => Err EBadDesc
    end.
  Definition s_rd_uint (i : item) : res N :=
    match i with
    | IUint n => Ok n
    | IInt z => if (0 <=? z)%Z then Ok (Z.to_N z) else Err EOther
    | IF32 _ | IF64 _ => Err EUnsupported
    | _ => Err EBadDesc
    end.
  Definition s_rd_f64 (i : item) : res N :=
    match i with
    | IF64 x => Ok x
    | IInt _ | IUint _ => Err EUnsupported
    | _ => Err EBadDesc
    end.
  Definition s_rd_f32 (i : item) : res N :=
    match i with
    | IF64 x => unwiden x
    | IInt _ | IUint _ => Err EUnsupported
    | _ => Err EBadDesc
    end.
  Definition s_rd_raw (i : item) : res (list N) :=
    match i with
    | IStr s | IBytes s => Ok s
    | IArr _ => Err EUnsupported
    | _ => Err EBadDesc
    end.
  Definition s_rd_time (i : item) : res (Z * N) :=
    match i with ITime s n => Ok (s, n) | _ => Err EBadDesc end.

  Definition s_leaf_ok (i : item) : bool :=
    match i with
    | IBool b => negb (S.zeroAsNil o && negb b)
    | IInt z => negb (S.zeroAsNil o && (z =? 0)%Z)
    | IUint n => negb (S.zeroAsNil o && (n =? 0)%N) && (negb (S.signedInteger D) || (n <? 2 ^ 63)%N)
    | IF32 b => negb (S.zeroAsNil o && S.f32zero b) && negb (snan32 b)
    | IF64 b => negb (S.zeroAsNil o && S.f64zero b)
    | IStr s => negb (S.zeroAsNil o && S.isnil s)
    | _ => true
    end.

  Definition W_simple : wire := {|
    wn := s_wn;
    wnk := s_wnk;
    is_nil := item_is_nil;
    rd_bool := s_rd_bool;
    rd_int := s_rd_int;
    rd_uint := s_rd_uint;
    rd_f32 := s_rd_f32;
    rd_f64 := s_rd_f64;
    rd_str := s_rd_raw;
    rd_bytes := s_rd_raw;
    rd_time := s_rd_time;
    fn32 := fun b : N => b;
    fn64 := fun b : N => b;
    tnorm := fun (s : Z) (n : N) => (s, n);
    leaf_ok := s_leaf_ok
  |}.

  (* ---- the interface ---- *)
  Lemma to_i64_small : forall n, (n < 2 ^ 63)%N -> S.to_i64 n = Z.of_N n.
  Proof. intros n H. unfold S.to_i64. destruct (N.ltb_spec n (2 ^ 63)); [reflexivity|lia]. Qed.

  Lemma bytes_item_raw : forall s, s_rd_raw (S.bytes_item D s) = Ok s /\ item_is_nil (S.bytes_item D s) = false
                                   /\ s_rd_raw (S.key_conv (S.bytes_item D s)) = Ok s
                                   /\ item_is_nil (S.key_conv (S.bytes_item D s)) = false.
  Proof. intro s. unfold S.bytes_item. destruct (S.rawToString D); repeat apply conj; reflexivity. Qed.

  Lemma s_scalar : forall key : bool,
    scalar_ok W_simple (fun i => if key then S.key_conv (S.norm o D true i) else S.norm o D false i).
  Proof.
    intro key.
    assert (Hzn : forall c, S.zeroAsNil o && negb key && c = true -> key = false /\ S.zeroAsNil o && c = true).
    { intros c H. destruct key; [rewrite andb_false_r in H; discriminate|]. rewrite andb_true_r in H. auto. }
    constructor; cbn [leaf_ok is_nil rd_bool rd_int rd_uint rd_f32 rd_f64 rd_str fn32 fn64 W_simple s_leaf_ok].
    - destruct key; reflexivity.
    - intros b Hl.
      assert (E : S.norm o D key (IBool b) = IBool b).
      { cbn [S.norm]. destruct (S.zeroAsNil o && negb key && negb b) eqn:Z; [|reflexivity].
        apply Hzn in Z. destruct Z as [_ Z]. rewrite Z in Hl. discriminate. }
      destruct key; rewrite E; split; reflexivity.
    - intros z Hl Hz.
      assert (E : S.norm o D key (IInt z) = IInt z \/ ((0 <= z)%Z /\ S.norm o D key (IInt z) = IUint (Z.to_N z))).
      { cbn [S.norm]. destruct (Z.ltb_spec z 0); [left; reflexivity|]. unfold S.norm_pos.
        destruct (S.zeroAsNil o && negb key && (Z.to_N z =? 0)%N) eqn:Z.
        - apply Hzn in Z. destruct Z as [_ Z]. apply andb_true_iff in Z. destruct Z as [Z1 Z2].
          apply N.eqb_eq in Z2. assert (z = 0%Z) by lia. subst z. rewrite Z1 in Hl. discriminate.
        - destruct (S.signedInteger D).
          + left. rewrite to_i64_small by lia. rewrite Z2N.id by lia. reflexivity.
          + right. split; [assumption|reflexivity]. }
      destruct E as [E|[Hz0 E]]; destruct key; rewrite E; cbn [S.key_conv item_is_nil s_rd_int]; split; try reflexivity.
      + destruct (N.ltb_spec (Z.to_N z) (2 ^ 63)); [|lia]. rewrite Z2N.id by lia. reflexivity.
      + destruct (N.ltb_spec (Z.to_N z) (2 ^ 63)); [|lia]. rewrite Z2N.id by lia. reflexivity.
    - intros n Hl Hn. apply andb_true_iff in Hl. destruct Hl as [Hl1 Hl2].
      assert (E : S.norm o D key (IUint n) = IUint n \/ ((n < 2 ^ 63)%N /\ S.norm o D key (IUint n) = IInt (Z.of_N n))).
      { cbn [S.norm]. unfold S.norm_pos.
        destruct (S.zeroAsNil o && negb key && (n =? 0)%N) eqn:Z.
        - apply Hzn in Z. destruct Z as [_ Z]. rewrite Z in Hl1. discriminate.
        - destruct (S.signedInteger D).
          + right. cbn [negb orb] in Hl2. apply N.ltb_lt in Hl2. split; [exact Hl2|]. rewrite to_i64_small by exact Hl2. reflexivity.
          + left. reflexivity. }
      destruct E as [E|[Hn0 E]]; destruct key; rewrite E; cbn [S.key_conv item_is_nil s_rd_uint]; split; try reflexivity.
      + destruct (Z.leb_spec 0 (Z.of_N n)); [|lia]. rewrite N2Z.id. reflexivity.
      + destruct (Z.leb_spec 0 (Z.of_N n)); [|lia]. rewrite N2Z.id. reflexivity.
    - intros b Hl Hb. apply andb_true_iff in Hl. destruct Hl as [Hl1 Hl2]. apply negb_true_iff in Hl2.
      assert (E : S.norm o D key (IF32 b) = IF64 (widen_c b)).
      { cbn [S.norm]. destruct (S.zeroAsNil o && negb key && S.f32zero b) eqn:Z.
        - apply Hzn in Z. destruct Z as [_ Z]. rewrite Z in Hl1. discriminate.
        - rewrite simple_widen by exact Hb. reflexivity. }
      destruct key; rewrite E; cbn [S.key_conv item_is_nil s_rd_f32]; (split; [reflexivity|]); apply unwiden_widen; assumption.
    - intros b Hl Hb.
      assert (E : S.norm o D key (IF64 b) = IF64 b).
      { cbn [S.norm]. destruct (S.zeroAsNil o && negb key && S.f64zero b) eqn:Z; [|reflexivity].
        apply Hzn in Z. destruct Z as [_ Z]. rewrite Z in Hl. discriminate. }
      destruct key; rewrite E; split; reflexivity.
    - intros s Hl Hs.
      assert (E : S.norm o D key (IStr s) = IStr s \/ S.norm o D key (IStr s) = S.bytes_item D s).
      { cbn [S.norm]. destruct (S.zeroAsNil o && negb key && S.isnil s) eqn:Z.
        - apply Hzn in Z. destruct Z as [_ Z]. rewrite Z in Hl. discriminate.
        - destruct (S.stringToRaw o); [right|left]; reflexivity. }
      destruct (bytes_item_raw s) as [B1 [B2 [B3 B4]]].
      destruct E as [E|E]; destruct key; rewrite E; cbn [S.key_conv item_is_nil s_rd_raw]; split;
        try reflexivity; assumption.
  Qed.

  Lemma W_simple_ok : wire_ok W_simple.
  Proof.
    constructor.
    - exact (s_scalar false).
    - exact (s_scalar true).
    - intros b _ _. cbn [wn is_nil rd_bytes W_simple]. unfold s_wn. cbn [S.norm].
      destruct (bytes_item_raw b) as [B1 [B2 _]]. split; assumption.
    - intros s n _ Hn. cbn [wn is_nil rd_time tnorm W_simple]. unfold s_wn. cbn [S.norm].
      unfold S.time_zero, S.unixToInternal. destruct ((s + 62135596800 =? 0)%Z && (n =? 0)%N) eqn:E.
      + cbn [item_is_nil]. apply andb_true_iff in E. destruct E as [E1 E2].
        apply Z.eqb_eq in E1. apply N.eqb_eq in E2. subst n. f_equal. unfold time_zero_sec. lia.
      + reflexivity.
    - intro l. reflexivity.
    - intro l. reflexivity.
    - intro l. reflexivity.
    - intro l. reflexivity.
    - reflexivity.
    - reflexivity.
    - reflexivity.
    - reflexivity.
  Qed.

  Lemma W_simple_losses : same_losses (losses_of W_simple) exact_losses.
  Proof.
    repeat apply conj; intros; try reflexivity.
    cbn [losses_of l_tnil exact_losses wn is_nil W_simple]. unfold s_wn. cbn [S.norm].
    unfold S.time_zero, S.unixToInternal, is_time_zero, time_zero_sec.
    replace (s + 62135596800 =? 0)%Z with (s =? -62135596800)%Z
      by (destruct (Z.eqb_spec s (-62135596800)), (Z.eqb_spec (s + 62135596800) 0); try reflexivity; lia).
    destruct ((s =? -62135596800)%Z && (n =? 0)%N); reflexivity.
  Qed.

  (* ---- Simple.swf as a boolean ---- *)
  Fixpoint keys_freshb (seen : list item) (l : list (item * item)) : bool :=
    match l with
    | [] => true
    | kv :: r => negb (S.seen_key seen (S.nkey o D kv)) && keys_freshb (S.nkey o D kv :: seen) r
    end.

  Definition lenokb {A} (l : list A) : bool := (S.llen l <? 2 ^ 63)%N.

  Fixpoint swfb (i : item) : bool :=
    match i with
    | IInt z => ((- 2 ^ 63 <=? z) && (z <? 2 ^ 63))%Z
    | IUint n => (n <? 2 ^ 64)%N
    | IF32 b => (b <? 2 ^ 32)%N
    | IF64 b => (b <? 2 ^ 64)%N
    | IStr s => lenokb s
    | IBytes s => lenokb s
    | IArr l => lenokb l && forallb swfb l
    | IMap l => lenokb l && keys_freshb [] l &&
                forallb (fun kv => swfb (fst kv) && negb (S.unhashable (fst kv)) && swfb (snd kv)) l
    | ITag _ _ => false
    | IExt t s => (t <? 256)%N && lenokb s
    | ITime s n => ((- 2 ^ 63 <=? s) && (s <? 2 ^ 63) && (- 2 ^ 63 <=? s + S.unixToInternal) && (s + S.unixToInternal <? 2 ^ 63))%Z
                   && (n <? 2 ^ 32)%N
    | _ => true
    end.

  Lemma keys_freshb_ok : forall l seen, keys_freshb seen l = true -> S.keys_fresh o D seen l.
  Proof.
    induction l as [|kv r IH]; intros seen H; cbn [keys_freshb S.keys_fresh] in *; [exact I|].
    apply andb_true_iff in H. destruct H as [H1 H2]. apply negb_true_iff in H1. split; [exact H1|apply IH; exact H2].
  Qed.

  Lemma lenokb_ok : forall {A} (l : list A), lenokb l = true -> S.lenok l.
  Proof. intros A l H. unfold lenokb in H. apply N.ltb_lt in H. exact H. Qed.

  Lemma swfb_ok : forall i, swfb i = true -> S.swf o D i.
  Proof.
    induction i using item_ind'; intro Hb; cbn [swfb S.swf] in *; try exact I; try discriminate.
    - apply andb_true_iff in Hb. destruct Hb as [H1 H2]. apply Z.leb_le in H1. apply Z.ltb_lt in H2. lia.
    - apply N.ltb_lt in Hb. exact Hb.
    - apply N.ltb_lt in Hb. exact Hb.
    - apply N.ltb_lt in Hb. exact Hb.
    - apply lenokb_ok. exact Hb.
    - apply lenokb_ok. exact Hb.
    - apply andb_true_iff in Hb. destruct Hb as [H1 H2]. split; [apply lenokb_ok; exact H1|].
      clear H1. induction H as [|x r Hx _ IH]; [exact I|].
      cbn [forallb] in H2. apply andb_true_iff in H2. destruct H2 as [H2 H3]. split; [apply Hx; exact H2|apply IH; exact H3].
    - apply andb_true_iff in Hb. destruct Hb as [Hb H3]. apply andb_true_iff in Hb. destruct Hb as [H1 H2].
      split; [apply lenokb_ok; exact H1|]. split; [apply keys_freshb_ok; exact H2|].
      clear H1 H2. induction H as [|kv r [Hk Hv] _ IH]; [exact I|].
      cbn [forallb] in H3. apply andb_true_iff in H3. destruct H3 as [H3 H4].
      apply andb_true_iff in H3. destruct H3 as [H3 H5]. apply andb_true_iff in H3. destruct H3 as [H3 H6].
      apply negb_true_iff in H6.
      split; [split; [apply Hk; exact H3|exact H6]|]. split; [apply Hv; exact H5|apply IH; exact H4].
    - apply andb_true_iff in Hb. destruct Hb as [H1 H2]. apply N.ltb_lt in H1. split; [exact H1|apply lenokb_ok; exact H2].
    - apply andb_true_iff in Hb. destruct Hb as [Hb H5]. apply N.ltb_lt in H5.
      apply andb_true_iff in Hb. destruct Hb as [Hb H4]. apply andb_true_iff in Hb. destruct Hb as [Hb H3].
      apply andb_true_iff in Hb. destruct Hb as [H1 H2].
      apply Z.leb_le in H1, H3. apply Z.ltb_lt in H2, H4. repeat apply conj; assumption.
  Qed.

  (* the SignedInteger guard of W_simple_dec_enc follows from the leaves *)
  Lemma leaves_sint : forall i, leaves_ok W_simple i = true -> S.signedInteger D = false \/ S.sint_ok i.
  Proof.
    intros i Hl. destruct (S.signedInteger D) eqn:ES; [right|left; reflexivity].
    revert Hl. induction i using item_ind'; intro Hl; cbn [S.sint_ok leaves_ok] in *; try exact I.
    - cbn [leaf_ok W_simple s_leaf_ok] in Hl. rewrite ES in Hl. apply andb_true_iff in Hl. destruct Hl as [_ Hl].
      cbn [negb orb] in Hl. apply N.ltb_lt in Hl. exact Hl.
    - induction H as [|x r Hx _ IH]; [exact I|].
      cbn [forallb] in Hl. apply andb_true_iff in Hl. destruct Hl as [H1 H2]. split; [apply Hx; exact H1|apply IH; exact H2].
    - induction H as [|kv r [Hk Hv] _ IH]; [exact I|].
      cbn [forallb] in Hl. apply andb_true_iff in Hl. destruct Hl as [H1 H2]. apply andb_true_iff in H1. destruct H1 as [H1 H3].
      split; [apply Hk; exact H1|]. split; [apply Hv; exact H3|apply IH; exact H2].
  Qed.
End W.

(* ---- the composed round trip: bytes -> DecodeNaked's item -> typed value ---- *)
Theorem simple_compose : forall (o : S.eopts) (D : S.dopts) (O : gopts) (pi : order) (t : ty) (v : gv) (rest : list N),
  order_ok pi -> wt t v = true -> supported t = true ->
  S.maxDepthOpt D = max_depth O ->
  swfb o D (to_item O pi v) = true ->
  leaves_ok (W_simple o D) (to_item O pi v) = true ->
  (Z.of_nat (depth (to_item O pi v)) < maxdepth O)%Z ->
  S.dec_naked D (S.dec_fuel (S.enc o false (to_item O pi v) ++ rest)) (S.enc o false (to_item O pi v) ++ rest)
    = Ok (wn (W_simple o D) (to_item O pi v), rest) /\
  of_item (W_simple o D) O 0 t (wn (W_simple o D) (to_item O pi v)) = Ok (normL exact_losses O (arrange O pi v)) /\
  veq (normL exact_losses O (arrange O pi v)) (normL exact_losses O v).
Proof.
  intros o D O pi t v rest Hpi Hwt Hs HD Hswf Hl Hd. split.
  - apply SimpleProofs.W_simple_dec_naked_enc_lemma.
    + apply (swfb_ok o D). exact Hswf.
    + apply (leaves_sint o D). exact Hl.
    + unfold S.maxdepth. rewrite HD. exact Hd.
  - apply (roundtrip_losses exact_losses (W_simple o D) O pi t v (W_simple_ok o D) (W_simple_losses o D) Hpi Hwt Hs Hl Hd).
Qed.

(* C01/ComposeBinc — the binc wire model (Wire/Binc.v, stateful: symbol tables) presented
   as the driver record [wire], the proof of [wire_ok] and of the documented losses
   [binc_losses] (one code for a zero float: the sign of zero is lost; one code for NaN:
   the payload is lost), and the composed typed round trip down to BYTES, in any
   encoder / decoder symbol-table states related by BincProofs.R.

   [W_binc e d]:
     wn / wnk  = Binc.norm e d / key_norm of it: what W_binc_dec_enc proves DecodeNaked
                 returns for an encoded item;
     is_nil    = the item is nil (advanceNil: bincBdNil);
     rd_*      = the bincDecDriver's typed reads (binc.go:416-427, 576-610, 674-759, 1091)
                 on the items the encoder can have produced:
                   DecodeBool    true / false only;
                   DecodeInt64   posint / negint / small int / specials through
                                 decNegintPosintFloatNumberHelperInt64v (magnitude >= 2^63
                                 read as a positive int64: overflow);
                   DecodeUint64  non-negative integers; a negative one is refused;
                   DecodeFloat64 the float descriptors and the special float codes
                                 (zero float -> +0, NaN -> math.NaN());
                   DecodeFloat32 float32(chkOvf.Float32V(DecodeFloat64())), [unwiden];
                   DecodeStringAsBytes  string, bytearray and symbol descriptors;
                   DecodeBytes   string and bytearray descriptors (NOT symbols: an item
                                 does not say whether a string travelled as a symbol; a
                                 []byte value is never written as one; ValidateUnicode is
                                 not modelled);
                   DecodeTime    the timestamp descriptor.
                 Integer <-> float fallbacks, inexact float32 narrowing and DecodeBytes on
                 an array are C07's / off the round-trip path: Err EUnsupported.
     leaf_ok   = under SignedInteger (read by DecodeNaked only) an unsigned >= 2^63 makes
                 DecodeNaked report an overflow (since the F07-1n repair; W_binc_dec_enc_
                 signed_overflow): excluded (the byte-level statement goes through
                 DecodeNaked's item); [wfb] / [wfbb] carry the same guard.  Nothing else: every float32
                 NaN comes back as THE NaN, which is the documented loss. *)
From Coq Require Import List NArith ZArith Bool Lia.
From Coq Require Import ZifyN ZifyNat ZifyBool.
From Verif Require Import Base.Outcome Gen.Consts Wire.Item Generic.Types Generic.Enc Generic.Dec.
From Verif Require Import C01.Model C01.Proofs C01.ComposeFloat.
From Verif Require Wire.Binc Wire.BincProofs.
Import ListNotations.
Open Scope bool_scope.

Module B := Verif.Wire.Binc.
Module BP := Verif.Wire.BincProofs.

Ltac Zify.zify_post_hook ::= Z.div_mod_to_equations.

(* ---- floats ---- *)
Section Float.
Open Scope N_scope.

Lemma binc_f64_norm : forall b, b < 2 ^ 64 -> B.norm_f64 b = IF64 (binc_fn64 b).
Proof.
  intros b Hb. unfold B.norm_f64, binc_fn64, B.f64_is_zero, B.f64_canon, B.f64_is_nan, B.f64_nan, nan64.
  destruct (N.eqb_spec (b mod 2 ^ 63) 0) as [Z|Z].
  - assert (E : (b =? 0) || (b =? 2 ^ 63) = true).
    { destruct (N.eqb_spec b 0); [reflexivity|]. destruct (N.eqb_spec b (2 ^ 63)); [reflexivity|]. revert Hb Z n n0. pows. lia. }
    rewrite E. reflexivity.
  - assert (E : (b =? 0) || (b =? 2 ^ 63) = false).
    { destruct (N.eqb_spec b 0); [subst; exfalso; apply Z; reflexivity|].
      destruct (N.eqb_spec b (2 ^ 63)); [subst; exfalso; apply Z; reflexivity|]. reflexivity. }
    rewrite E.
    assert (En : ((b / 2 ^ 52) mod 2048 =? 2047) && negb (b mod 2 ^ 52 =? 0) = (2047 * 2 ^ 52 <? b mod 2 ^ 63)).
    { destruct (N.eqb_spec ((b / 2 ^ 52) mod 2048) 2047) as [A|A]; destruct (N.eqb_spec (b mod 2 ^ 52) 0) as [C|C];
        destruct (N.ltb_spec (2047 * 2 ^ 52) (b mod 2 ^ 63)) as [L|L]; try reflexivity; exfalso; revert Hb A C L; pows; lia. }
    rewrite En. destruct (2047 * 2 ^ 52 <? b mod 2 ^ 63); reflexivity.
Qed.

Lemma unwiden_nan : forall x, B.f64_is_nan x = true -> exists r, unwiden x = Ok r /\ nan32 r = true.
Proof.
  intros x H. unfold B.f64_is_nan in H. apply andb_true_iff in H. destruct H as [H1 H2].
  apply negb_true_iff in H2. unfold unwiden. rewrite H1, H2. eexists. split; [reflexivity|].
  unfold nan32. apply N.ltb_lt. pows. lia.
Qed.

(* what a float32 comes back as, and what the typed float32 read makes of it *)
Lemma binc_f32_norm : forall b, b < 2 ^ 32 ->
  exists x, B.norm_f64 (B.f32_to_f64 b) = IF64 x /\ unwiden x = Ok (binc_fn32 b).
Proof.
  intros b Hb. unfold binc_fn32.
  destruct (N.eqb_spec (b mod 2 ^ 31) 0) as [Z|Z].
  - assert (E : b = 0 \/ b = 2 ^ 31) by (revert Hb Z; pows; lia).
    destruct E as [-> | ->]; exists 0; split; vm_compute; reflexivity.
  - destruct (nan32 b) eqn:En.
    + assert (E : B.f32_to_f64 b = B.f64_nan).
      { unfold B.f32_to_f64. unfold nan32 in En. apply N.ltb_lt in En.
        destruct (N.eqb_spec ((b / 2 ^ 23) mod 256) 0) as [A|A]; [exfalso; revert Hb En A; pows; lia|].
        destruct (N.eqb_spec ((b / 2 ^ 23) mod 256) 255) as [C|C]; [|exfalso; revert Hb En A C; pows; lia].
        destruct (N.eqb_spec (b mod 2 ^ 23) 0) as [M|M]; [exfalso; revert Hb En C M; pows; lia|]. reflexivity. }
      rewrite E. exists B.f64_nan. split; vm_compute; reflexivity.
    + assert (Hs : snan32 b = false) by (unfold snan32; rewrite En; reflexivity).
      pose proof (unwiden_widen b Hb Hs) as Hu.
      assert (E : B.f32_to_f64 b = widen_c b).
      { unfold B.f32_to_f64, widen_c. unfold nan32 in En. apply N.ltb_ge in En.
        destruct (N.eqb_spec ((b / 2 ^ 23) mod 256) 0) as [A|A].
        - rewrite A. reflexivity.
        - destruct (N.eqb_spec ((b / 2 ^ 23) mod 256) 255) as [C|C]; [|reflexivity].
          destruct (N.eqb_spec (b mod 2 ^ 23) 0) as [M|M]; [reflexivity|]. exfalso. revert Hb En C M. pows. lia. }
      rewrite E. exists (widen_c b). split; [|exact Hu].
      unfold B.norm_f64.
      destruct (B.f64_is_zero (widen_c b)) eqn:Ez.
      { exfalso. unfold B.f64_is_zero in Ez. apply orb_true_iff in Ez.
        destruct Ez as [Ez|Ez]; apply N.eqb_eq in Ez; rewrite Ez in Hu; vm_compute in Hu; inversion Hu; subst b; apply Z; reflexivity. }
      unfold B.f64_canon. destruct (B.f64_is_nan (widen_c b)) eqn:Enn; [|reflexivity].
      exfalso. destruct (unwiden_nan _ Enn) as [r [Hr1 Hr2]]. rewrite Hu in Hr1. inversion Hr1; subst r. congruence.
Qed.

Lemma binc_fn32_nan : forall b, nan32 (binc_fn32 b) = nan32 b.
Proof.
  intro b. unfold binc_fn32. destruct (N.eqb_spec (b mod 2 ^ 31) 0) as [Z|Z].
  - unfold nan32. rewrite Z. reflexivity.
  - destruct (nan32 b) eqn:E; [reflexivity|exact E].
Qed.

Lemma binc_fn64_nan : forall b, nan64 (binc_fn64 b) = nan64 b.
Proof.
  intro b. unfold binc_fn64. destruct (N.eqb_spec (b mod 2 ^ 63) 0) as [Z|Z].
  - unfold nan64. rewrite Z. reflexivity.
  - destruct (nan64 b) eqn:E; [reflexivity|exact E].
Qed.

Lemma binc_fn32_eq : forall a b, nan32 a = false -> nan32 b = false -> feq32 (binc_fn32 a) (binc_fn32 b) = feq32 a b.
Proof.
  intros a b Ha Hb. unfold feq32. rewrite !binc_fn32_nan, Ha, Hb. cbn [negb andb].
  unfold binc_fn32. rewrite Ha, Hb.
  destruct (N.eqb_spec (a mod 2 ^ 31) 0) as [Za|Za]; destruct (N.eqb_spec (b mod 2 ^ 31) 0) as [Zb|Zb]; cbn [andb];
    repeat match goal with |- context [N.eqb ?x ?y] => destruct (N.eqb_spec x y) end; cbn [orb andb]; try reflexivity;
    exfalso; pows; lia.
Qed.

Lemma binc_fn64_eq : forall a b, nan64 a = false -> nan64 b = false -> feq64 (binc_fn64 a) (binc_fn64 b) = feq64 a b.
Proof.
  intros a b Ha Hb. unfold feq64. rewrite !binc_fn64_nan, Ha, Hb. cbn [negb andb].
  unfold binc_fn64. rewrite Ha, Hb.
  destruct (N.eqb_spec (a mod 2 ^ 63) 0) as [Za|Za]; destruct (N.eqb_spec (b mod 2 ^ 63) 0) as [Zb|Zb]; cbn [andb];
    repeat match goal with |- context [N.eqb ?x ?y] => destruct (N.eqb_spec x y) end; cbn [orb andb]; try reflexivity;
    exfalso; pows; lia.
Qed.
End Float.

Section W.
  Variable e : B.eopts.
  Variable d : B.dopts.

  Definition b_wn (i : item) : item := B.norm e d i.
  Definition b_wnk (i : item) : item := B.key_norm (B.norm e d i).

  Definition b_rd_bool (i : item) : res bool := match i with IBool b => Ok b | _ => Err EBadDesc end.
  Definition b_rd_int (i : item) : res Z :=
    match i with
    | IInt z => Ok z
    | IUint n => if (n <? 2 ^ 63)%N then Ok (Z.of_N n) else Err EOverflow
    | IF32 _ | IF64 _ => Err EUnsupported
    | _ => Err EBadDesc
    end.
  Definition b_rd_uint (i : item) : res N :=
    match i with
    | IUint n => Ok n
    | IInt z => if (0 <=? z)%Z then Ok (Z.to_N z) else Err EOther
    | IF32 _ | IF64 _ => Err EUnsupported
    | _ => Err EBadDesc
    end.
  Definition b_rd_f64 (i : item) : res N :=
    match i with IF64 x => Ok x | IInt _ | IUint _ => Err EUnsupported | _ => Err EBadDesc end.
  Definition b_rd_f32 (i : item) : res N :=
    match i with IF64 x => unwiden x | IInt _ | IUint _ => Err EUnsupported | _ => Err EBadDesc end.
  Definition b_rd_raw (i : item) : res (list N) :=
    match i with IStr s | IBytes s => Ok s | IArr _ => Err EUnsupported | _ => Err EBadDesc end.
  Definition b_rd_time (i : item) : res (Z * N) :=
    match i with ITime s n => Ok (s, n) | _ => Err EBadDesc end.

  Definition b_leaf_ok (i : item) : bool :=
    match i with
    | IUint n => negb (B.signedInt d) || (n <? 2 ^ 63)%N
    | _ => true
    end.

  Definition W_binc : wire := {|
    wn := b_wn;
    wnk := b_wnk;
    is_nil := item_is_nil;
    rd_bool := b_rd_bool;
    rd_int := b_rd_int;
    rd_uint := b_rd_uint;
    rd_f32 := b_rd_f32;
    rd_f64 := b_rd_f64;
    rd_str := b_rd_raw;
    rd_bytes := b_rd_raw;
    rd_time := b_rd_time;
    fn32 := binc_fn32;
    fn64 := binc_fn64;
    tnorm := fun (s : Z) (n : N) => (s, n);
    leaf_ok := b_leaf_ok
  |}.

  Lemma b_to_i64_small : forall n, (n < 2 ^ 63)%N -> B.to_i64 n = Z.of_N n.
  Proof. intros n H. unfold B.to_i64. destruct (N.ltb_spec n (2 ^ 63)); [reflexivity|lia]. Qed.

  Lemma b_scalar : forall key : bool,
    scalar_ok W_binc (fun i => if key then B.key_norm (B.norm e d i) else B.norm e d i).
  Proof.
    intro key.
    constructor; cbn [leaf_ok is_nil rd_bool rd_int rd_uint rd_f32 rd_f64 rd_str fn32 fn64 W_binc b_leaf_ok].
    - destruct key; reflexivity.
    - intros b _. destruct key; split; reflexivity.
    - intros z _ Hz.
      assert (E : B.norm e d (IInt z) = IInt z \/ ((0 <= z)%Z /\ B.norm e d (IInt z) = IUint (Z.to_N z))).
      { cbn [B.norm]. destruct (Z.leb_spec 0 z); [|left; reflexivity]. unfold B.norm_uint.
        destruct (B.signedInt d).
        - left. rewrite b_to_i64_small by lia. rewrite Z2N.id by lia. reflexivity.
        - right. split; [assumption|reflexivity]. }
      destruct E as [E|[Hz0 E]]; destruct key; rewrite E; cbn [B.key_norm item_is_nil b_rd_int]; split; try reflexivity.
      + destruct (N.ltb_spec (Z.to_N z) (2 ^ 63)); [|lia]. rewrite Z2N.id by lia. reflexivity.
      + destruct (N.ltb_spec (Z.to_N z) (2 ^ 63)); [|lia]. rewrite Z2N.id by lia. reflexivity.
    - intros n Hl Hn. cbn [B.norm]. unfold B.norm_uint.
      destruct (B.signedInt d).
      + cbn [negb orb] in Hl. apply N.ltb_lt in Hl. rewrite b_to_i64_small by exact Hl.
        destruct key; cbn [B.key_norm item_is_nil b_rd_uint]; (split; [reflexivity|]);
          (destruct (Z.leb_spec 0 (Z.of_N n)); [|lia]); rewrite N2Z.id; reflexivity.
      + destruct key; split; reflexivity.
    - intros b _ Hb. cbn [B.norm]. destruct (binc_f32_norm b Hb) as [x [E Hu]]. rewrite E.
      destruct key; cbn [B.key_norm item_is_nil b_rd_f32]; split; try reflexivity; exact Hu.
    - intros b _ Hb. cbn [B.norm]. rewrite (binc_f64_norm b Hb). destruct key; split; reflexivity.
    - intros s _ _. cbn [B.norm].
      destruct (B.stringToRaw e); [destruct (B.rawToString d)|]; destruct key; split; reflexivity.
  Qed.

  Lemma W_binc_ok : wire_ok W_binc.
  Proof.
    constructor.
    - exact (b_scalar false).
    - exact (b_scalar true).
    - intros b _ _. cbn [wn is_nil rd_bytes W_binc]. unfold b_wn. cbn [B.norm].
      destruct (B.rawToString d); split; reflexivity.
    - intros s n _ Hn. cbn [wn is_nil rd_time tnorm W_binc]. unfold b_wn. cbn [B.norm].
      unfold B.zero_time_sec. destruct ((s =? -62135596800)%Z && (n =? 0)%N) eqn:E.
      + cbn [item_is_nil]. apply andb_true_iff in E. destruct E as [E1 E2].
        apply Z.eqb_eq in E1. apply N.eqb_eq in E2. subst. reflexivity.
      + reflexivity.
    - intro l. reflexivity.
    - intro l. reflexivity.
    - intro l. reflexivity.
    - intro l. reflexivity.
    - exact binc_fn32_nan.
    - exact binc_fn64_nan.
    - exact binc_fn32_eq.
    - exact binc_fn64_eq.
  Qed.

  Lemma W_binc_losses : same_losses (losses_of W_binc) binc_losses.
  Proof.
    repeat apply conj; intros; try reflexivity.
    cbn [losses_of l_tnil binc_losses wn is_nil W_binc]. unfold b_wn. cbn [B.norm].
    unfold B.zero_time_sec, is_time_zero, time_zero_sec.
    destruct ((s =? -62135596800)%Z && (n =? 0)%N); reflexivity.
  Qed.

  (* ---- Binc.wfb as a boolean ---- *)
  Definition blenokb {A} (l : list A) : bool := (B.len l <? 2 ^ 63)%N.

  Fixpoint wfbb (i : item) : bool :=
    match i with
    | IInt z => ((- 2 ^ 63 <=? z) && (z <? 2 ^ 63))%Z
    | IUint n => (n <? 2 ^ 64)%N && (negb (B.signedInt d) || (n <? 2 ^ 63)%N)
    | IF32 b => (b <? 2 ^ 32)%N
    | IF64 b => (b <? 2 ^ 64)%N
    | IStr s => blenokb s
    | IBytes s => blenokb s
    | IExt t s => blenokb s && (t <? 256)%N
    | IArr l => blenokb l && forallb wfbb l
    | IMap l => blenokb l && B.nodup_seen [] (map (fun kv => B.key_norm (B.norm e d (fst kv))) l)
                && forallb (fun kv => wfbb (fst kv) && negb (B.unhashable (fst kv)) && wfbb (snd kv)) l
    | ITag _ _ => false
    | ITime s n => ((- 2 ^ 63 <=? s) && (s <? 2 ^ 63))%Z && (n <? 1000000000)%N
    | _ => true
    end.

  Lemma blenokb_ok : forall {A} (l : list A), blenokb l = true -> B.lenok l.
  Proof. intros A l H. unfold blenokb in H. apply N.ltb_lt in H. exact H. Qed.

  Lemma wfbb_ok : forall i, wfbb i = true -> B.wfb e d i.
  Proof.
    induction i using item_ind'; intro Hb; cbn [wfbb B.wfb] in *; try exact I; try discriminate.
    - apply andb_true_iff in Hb. destruct Hb as [H1 H2]. apply Z.leb_le in H1. apply Z.ltb_lt in H2. lia.
    - apply andb_true_iff in Hb. destruct Hb as [H1 H2]. apply N.ltb_lt in H1. split; [exact H1|].
      intro Hs. rewrite Hs in H2. cbn [negb orb] in H2. apply N.ltb_lt in H2. exact H2.
    - apply N.ltb_lt in Hb. exact Hb.
    - apply N.ltb_lt in Hb. exact Hb.
    - apply blenokb_ok. exact Hb.
    - apply blenokb_ok. exact Hb.
    - apply andb_true_iff in Hb. destruct Hb as [H1 H2]. split; [apply blenokb_ok; exact H1|].
      clear H1. induction H as [|x r Hx _ IH]; [exact I|].
      cbn [forallb] in H2. apply andb_true_iff in H2. destruct H2 as [H2 H3]. split; [apply Hx; exact H2|apply IH; exact H3].
    - apply andb_true_iff in Hb. destruct Hb as [Hb H3]. apply andb_true_iff in Hb. destruct Hb as [H1 H2].
      split; [apply blenokb_ok; exact H1|]. split; [exact H2|].
      clear H1 H2. induction H as [|[k v] r [Hk Hv] _ IH]; [exact I|].
      cbn [forallb fst snd] in *. apply andb_true_iff in H3. destruct H3 as [H3 H4].
      apply andb_true_iff in H3. destruct H3 as [H3 H5]. apply andb_true_iff in H3. destruct H3 as [H3 H6].
      apply negb_true_iff in H6.
      split; [apply Hk; exact H3|]. split; [exact H6|]. split; [apply Hv; exact H5|apply IH; exact H4].
    - apply andb_true_iff in Hb. destruct Hb as [H1 H2]. apply N.ltb_lt in H2. split; [apply blenokb_ok; exact H1|exact H2].
    - apply andb_true_iff in Hb. destruct Hb as [Hb H3]. apply N.ltb_lt in H3.
      apply andb_true_iff in Hb. destruct Hb as [H1 H2]. apply Z.leb_le in H1. apply Z.ltb_lt in H2. split; [lia|exact H3].
  Qed.
End W.

(* ---- the composed round trip: bytes -> DecodeNaked's item -> typed value, in any related
   pair of symbol-table states (fresh Encoder and Decoder: BincProofs.R_init) ---- *)
Theorem binc_compose : forall (e : B.eopts) (d : B.dopts) (O : gopts) (pi : order) (t : ty) (v : gv)
    (est : B.estate) (dst : B.dstate) (rest : list N),
  order_ok pi -> wt t v = true -> supported t = true ->
  Z.of_N (B.maxdepth d) = maxdepth O ->
  BP.R est dst ->
  wfbb e d (to_item O pi v) = true ->
  leaves_ok (W_binc e d) (to_item O pi v) = true ->
  (Z.of_nat (depth (to_item O pi v)) < maxdepth O)%Z ->
  (exists dst',
     B.dec_naked d dst (fst (B.enc e false (to_item O pi v) est) ++ rest) = Ok (wn (W_binc e d) (to_item O pi v), rest, dst')
     /\ BP.R (snd (B.enc e false (to_item O pi v) est)) dst') /\
  of_item (W_binc e d) O 0 t (wn (W_binc e d) (to_item O pi v)) = Ok (normL binc_losses O (arrange O pi v)) /\
  veq (normL binc_losses O (arrange O pi v)) (normL binc_losses O v).
Proof.
  intros e d O pi t v est dst rest Hpi Hwt Hs HD HR Hwf Hl Hd. split.
  - destruct (BP.dec_naked_enc e d (to_item O pi v) est dst rest (wfbb_ok e d _ Hwf) HR ltac:(lia)) as [dst' [H1 [_ H3]]].
    exists dst'. split; assumption.
  - apply (roundtrip_losses binc_losses (W_binc e d) O pi t v (W_binc_ok e d) (W_binc_losses e d) Hpi Hwt Hs Hl Hd).
Qed.

(* C01/TypedCbor — cbor: the typed reads [rd_*] of the composed driver record [W_cbor]
   (C01/ComposeCbor.v) agree with BYTE-LEVEL typed reader models, on the bytes the encoder
   model (Wire/Cbor.v [enc]) writes, followed by ANY trailing bytes.

   Part A (numbers; the byte-level model is C07/Model.v's [cbor] driver = DecodeInt64 /
   DecodeUint64 / DecodeFloat64 of cbor.go on descriptor byte + following bytes + the generic
   layer's narrowing, tied to the real Decoder by the C07 correspondence):
       C07.Model.decode cbor k (bytes of (enc Oc i ++ rest)) = typed (W_cbor Oc D) O k (wn i)
     - IInt / IUint x the 11 integer kinds (same value or same error class);
     - INil x all 13 kinds (zero);
     - IF64 x float64, for EVERY option vector: under OptimumSize a float64 that survives the
       trip through single (and then half) precision is written as a float32 (float16) and is
       read back widened -- exactly;
     - IF32 x float64 (the float32 widened exactly; under OptimumSize possibly through a half).
   Not covered in part A, as for msgpack / simple: float32 destinations, integer <-> float
   cross-kind reads ([rd_*] abstain: Err EUnsupported).

   Part B: see C01/TypedRd.v for the byte-level models of the remaining typed reads (DecodeBool,
   DecodeBytes / DecodeStringAsBytes incl. indefinite-length chunks, DecodeTime, ReadArrayStart /
   ReadMapStart) and the lemmas below. *)
From Coq Require Import List NArith ZArith Bool Lia.
From Coq Require Import ZifyN ZifyNat ZifyBool.
From Verif Require Import Base.Word Base.Outcome Base.FBits Gen.Consts Gen.Leaf Wire.Item Generic.Types Generic.Enc Generic.Dec.
From Verif Require Import C01.Model C01.Proofs C01.ComposeFloat C01.ComposeCbor C01.ComposeCborTime C01.ComposeTyped C01.TypedRd.
From Verif Require C07.Model Wire.Cbor Wire.CborFloat Wire.CborProofs Wire.CborEnc Wire.CborTime C10.CborSpec C10.CborConv.
Import ListNotations.
Open Scope bool_scope.

Module CP := Verif.Wire.CborProofs.

Ltac Zify.zify_post_hook ::= Z.div_mod_to_equations.

Open Scope Z_scope.

(* ---- reading the argument of a head ---- *)
Lemma c_readv : forall k v rest, (v < 256 ^ N.of_nat k)%N -> T.readv k (zb (CS.sbe k v ++ rest)) = Ok (Z.of_N v).
Proof.
  intros k v rest Hv. apply readv_zb; [apply CP.length_sbe|].
  change 0 with (Z.of_N 0). rewrite be_val_fold. f_equal. exact (CP.be_get_put k v Hv).
Qed.

Lemma c_land31 : forall mt a : N, (a < 32)%N -> Z.land (Z.of_N (mt * 32 + a)) 31 = Z.of_N a.
Proof. intros mt a Ha. change 31 with (Z.ones 5). rewrite Z.land_ones by lia. zpows. lia. Qed.

Lemma c_shr5 : forall mt a : N, (a < 32)%N -> shr (Z.of_N (mt * 32 + a)) 5 = Z.of_N mt.
Proof. intros mt a Ha. unfold shr. rewrite Z.shiftr_div_pow2 by lia. zpows. lia. Qed.

Lemma c_decUint : forall (mt : N) w v rest, CS.fits w v ->
  T.cbor_decUint (Z.of_N (mt * 32 + CS.ai_of w v)) (zb (CS.sbe (CS.wbytes w) v ++ rest)) = Ok (Z.of_N v).
Proof.
  intros mt w v rest Hf. unfold T.cbor_decUint.
  pose proof (CP.ai_of_le w v Hf) as Hai.
  rewrite c_land31 by lia. cbv zeta.
  destruct w; cbn [CS.ai_of CS.wbytes CS.fits] in *.
  - destruct (Z.leb_spec (Z.of_N v) 23); [reflexivity|lia].
  - change (Z.of_N 24) with 24. cbn [Z.leb Z.eqb Z.compare Pos.compare Pos.compare_cont Pos.eqb].
    apply c_readv. change (256 ^ N.of_nat 1)%N with 256%N. exact Hf.
  - change (Z.of_N 25) with 25. cbn [Z.leb Z.eqb Z.compare Pos.compare Pos.compare_cont Pos.eqb].
    apply c_readv. change (256 ^ N.of_nat 2)%N with 65536%N. exact Hf.
  - change (Z.of_N 26) with 26. cbn [Z.leb Z.eqb Z.compare Pos.compare Pos.compare_cont Pos.eqb].
    apply c_readv. change (256 ^ N.of_nat 4)%N with 4294967296%N. exact Hf.
  - change (Z.of_N 27) with 27. cbn [Z.leb Z.eqb Z.compare Pos.compare Pos.compare_cont Pos.eqb].
    apply c_readv. change (256 ^ N.of_nat 8)%N with 18446744073709551616%N. exact Hf.
Qed.

Lemma c_not_nil : forall (mt a : N), (mt <= 6)%N -> (a < 32)%N -> T.cbor_nil (Z.of_N (mt * 32 + a)) = false.
Proof.
  intros mt a Hm Ha. unfold T.cbor_nil, cborBdNil, cborBdUndefined.
  destruct (Z.eqb_spec (Z.of_N (mt * 32 + a)) 246); [lia|].
  destruct (Z.eqb_spec (Z.of_N (mt * 32 + a)) 247); [lia|]. reflexivity.
Qed.

(* decNegintPosintFloatNumberHelperInt64v as cbor calls it (incrIfNeg = true) *)
Lemma c_int64v_pos : forall ui, 0 <= ui < 2 ^ 64 -> decNegintPosintFloatNumberHelperInt64v ui false true = int_answer ui.
Proof. intros ui H. exact (int64v_pos ui H). Qed.

Lemma c_int64v_neg : forall ui, 0 <= ui < 2 ^ 63 -> decNegintPosintFloatNumberHelperInt64v ui true true = Ok (-1 - ui).
Proof.
  intros ui H.
  assert (E : decNegintPosintFloatNumberHelperInt64v ui true true =
              if ui =? 18446744073709551615 then Err EOverflow
              else decNegintPosintFloatNumberHelperInt64v (wrapu 64 (ui + 1)) true false) by reflexivity.
  rewrite E. destruct (Z.eqb_spec ui 18446744073709551615); [exfalso; zpows; lia|].
  rewrite wrapu_id by (unfold Word.in_u; zpows; lia).
  rewrite int64v_neg by (zpows; lia). f_equal. lia.
Qed.

(* the two integer heads *)
Lemma c_uint_head : forall w v rest, CS.fits w v ->
  answers T.cbor (zb (CS.shead 0 w v ++ rest)) (Z.of_N v).
Proof.
  intros w v rest Hf. pose proof (CP.ai_of_le w v Hf) as Hai. pose proof (CP.fits_64 w v Hf) as H64.
  rewrite CP.shead_cons. exists (Z.of_N (0 * 32 + CS.ai_of w v)), (zb (CS.sbe (CS.wbytes w) v ++ rest)).
  split; [reflexivity|]. cbn [T.dInt64 T.dUint64 T.cbor]. unfold T.cbor_Int64, T.cbor_Uint64, T.cbor_decInteger.
  rewrite c_not_nil by lia. rewrite c_shr5 by lia. cbv zeta.
  change (Z.of_N 0 =? cborMajorUint) with true. cbv iota.
  rewrite c_decUint by exact Hf. cbn [bind]. unfold T.hlp_int64, T.hlp_uint64. cbn [andb negb].
  rewrite c_int64v_pos by (zpows; lia). rewrite uint_answer_pos by lia. split; reflexivity.
Qed.

Lemma c_nint_head : forall w v rest, CS.fits w v -> (v < 2 ^ 63)%N ->
  answers T.cbor (zb (CS.shead 1 w v ++ rest)) (-1 - Z.of_N v).
Proof.
  intros w v rest Hf Hv. pose proof (CP.ai_of_le w v Hf) as Hai.
  rewrite CP.shead_cons. exists (Z.of_N (1 * 32 + CS.ai_of w v)), (zb (CS.sbe (CS.wbytes w) v ++ rest)).
  split; [reflexivity|]. cbn [T.dInt64 T.dUint64 T.cbor]. unfold T.cbor_Int64, T.cbor_Uint64, T.cbor_decInteger.
  rewrite c_not_nil by lia. rewrite c_shr5 by lia. cbv zeta.
  change (Z.of_N 1 =? cborMajorUint) with false. change (Z.of_N 1 =? cborMajorNegInt) with true. cbv iota.
  rewrite c_decUint by exact Hf. cbn [bind]. unfold T.hlp_int64, T.hlp_uint64. cbn [andb negb].
  rewrite c_int64v_neg by (change (2 ^ 63)%N with 9223372036854775808%N in Hv; zpows; lia).
  rewrite int_answer_small by (zpows; lia). rewrite uint_answer_neg by lia. split; reflexivity.
Qed.

Lemma c_uint_bytes : forall n rest, (n < 2 ^ 64)%N -> answers T.cbor (zb (CB.enc_head CB.baseUint n ++ rest)) (Z.of_N n).
Proof.
  intros n rest Hn. change CB.baseUint with (0 * 32)%N. rewrite CP.enc_head_shead by lia.
  apply c_uint_head. apply CP.minw_fits. exact Hn.
Qed.

Lemma c_int_bytes : forall z rest, - 2 ^ 63 <= z < 2 ^ 63 -> answers T.cbor (zb (CB.enc_int z ++ rest)) z.
Proof.
  intros z rest Hz. unfold CB.enc_int. destruct (Z.ltb_spec z 0) as [Hn|Hn].
  - change CB.baseNegInt with (1 * 32)%N. rewrite CP.enc_head_shead by lia.
    assert (Hv : (Z.to_N (-1 - z) < 2 ^ 63)%N) by (change (2 ^ 63)%N with 9223372036854775808%N; zpows; lia).
    pose proof (c_nint_head (CC.minw (Z.to_N (-1 - z))) (Z.to_N (-1 - z)) rest
                  (CP.minw_fits (Z.to_N (-1 - z)) ltac:(change (2 ^ 63)%N with 9223372036854775808%N in Hv; lia)) Hv) as H.
    replace (-1 - Z.of_N (Z.to_N (-1 - z))) with z in H by lia. exact H.
  - pose proof (c_uint_bytes (Z.to_N z) rest) as H. rewrite Z2N.id in H by lia. apply H.
    change (2 ^ 64)%N with 18446744073709551616%N. zpows. lia.
Qed.

(* ---- item side ---- *)
Lemma c_std_reads : forall Oc D, std_reads (W_cbor Oc D).
Proof. intros. repeat apply conj; intros; reflexivity. Qed.

Lemma c_wn_int : forall Oc D z, - 2 ^ 63 <= z < 2 ^ 63 -> int_form z (wn (W_cbor Oc D) (IInt z)).
Proof.
  intros Oc D z Hz. cbn [wn W_cbor]. unfold c_wn, CE.norm, int_form. cbn [CE.sdata_of]. unfold CE.int_data.
  destruct (Z.ltb_spec z 0).
  - cbn [CC.go_of]. left. split; [f_equal; lia|exact Hz].
  - cbn [CC.go_of]. destruct (CB.do_signed D).
    + left. split; [f_equal; lia|exact Hz].
    + right. split; [reflexivity|zpows; lia].
Qed.

Lemma c_wn_uint : forall Oc D n, (n < 2 ^ 64)%N -> leaf_ok (W_cbor Oc D) (IUint n) = true ->
  int_form (Z.of_N n) (wn (W_cbor Oc D) (IUint n)).
Proof.
  intros Oc D n Hn Hl. cbn [wn leaf_ok W_cbor c_leaf_ok] in *. unfold c_wn, CE.norm, int_form. cbn [CE.sdata_of CC.go_of].
  destruct (CB.do_signed D).
  - cbn [negb orb] in Hl. apply N.ltb_lt in Hl. left. split; [reflexivity|].
    change (2 ^ 63)%N with 9223372036854775808%N in Hl. zpows. lia.
  - right. rewrite N2Z.id. split; [reflexivity|]. change (2 ^ 64)%N with 18446744073709551616%N in Hn. zpows. lia.
Qed.

Theorem cbor_typed_int : forall Oc D O k i rest,
  T.is_int_kind k = true -> int_item i -> leaf_ok (W_cbor Oc D) i = true ->
  T.decode T.cbor k (zb (CB.enc Oc i ++ rest)) = typed (W_cbor Oc D) O k (wn (W_cbor Oc D) i).
Proof.
  intros Oc D O k i rest Hk Hi Hl. destruct i; try contradiction; cbn [int_item] in Hi.
  - destruct (c_int_bytes z rest Hi) as (bd & r & E & A & B). cbn [CB.enc]. rewrite E.
    rewrite (decode_int_spec T.cbor k bd r z ltac:(zpows; lia) Hk A B).
    symmetry. apply typed_int_spec; [apply c_std_reads|apply c_wn_int; exact Hi|exact Hk].
  - destruct (c_uint_bytes n rest Hi) as (bd & r & E & A & B). cbn [CB.enc]. rewrite E.
    rewrite (decode_int_spec T.cbor k bd r (Z.of_N n) ltac:(change (2 ^ 64)%N with 18446744073709551616%N in Hi; zpows; lia) Hk A B).
    symmetry. apply typed_int_spec; [apply c_std_reads|apply c_wn_uint; assumption|exact Hk].
Qed.

Theorem cbor_typed_nil : forall Oc D O k rest,
  T.decode T.cbor k (zb (CB.enc Oc INil ++ rest)) = typed (W_cbor Oc D) O k (wn (W_cbor Oc D) INil).
Proof. intros. destruct k; vm_compute; reflexivity. Qed.

(* ---- floats ---- *)

(* C07's halfFloatToFloatBits model (rounding form) is Wire/CborFloat's (integer code), on all 65536 halves *)
Definition f16_ok (h : N) : bool := T.f16_to_f32 (Z.of_N h) =? Z.of_N (CF.half_to_f32 h).

Lemma f16_sweep :
  forallb (fun hi => forallb (fun lo => f16_ok (N.of_nat hi * 256 + N.of_nat lo)) (seq 0 256)) (seq 0 256) = true.
Proof. vm_compute. reflexivity. Qed.

Lemma f16_all : forall h, (h < 65536)%N -> T.f16_to_f32 (Z.of_N h) = Z.of_N (CF.half_to_f32 h).
Proof.
  intros h Hh. pose proof f16_sweep as S.
  rewrite forallb_forall in S.
  specialize (S (N.to_nat (h / 256))).
  assert (Hin : In (N.to_nat (h / 256)) (seq 0 256)) by (apply in_seq; lia).
  specialize (S Hin). rewrite forallb_forall in S.
  specialize (S (N.to_nat (h mod 256))).
  assert (Hin2 : In (N.to_nat (h mod 256)) (seq 0 256)) by (apply in_seq; lia).
  specialize (S Hin2). unfold f16_ok in S.
  rewrite !N2Nat.id in S.
  replace (h / 256 * 256 + h mod 256)%N with h in S by lia.
  apply Z.eqb_eq in S. exact S.
Qed.

Lemma c_float_not_nil : forall bd, 249 <= bd <= 251 -> T.cbor_nil bd = false.
Proof.
  intros bd H. unfold T.cbor_nil, cborBdNil, cborBdUndefined.
  destruct (Z.eqb_spec bd 246); [lia|]. destruct (Z.eqb_spec bd 247); [lia|]. reflexivity.
Qed.

Lemma c_f32_bytes : forall Oc b rest, (b < 2 ^ 32)%N ->
  T.decode T.cbor T.KFloat64 (zb (CB.enc_f32 Oc b ++ rest)) = Ok (Z.of_N (widen_c b)).
Proof.
  intros Oc b rest Hb. unfold CB.enc_f32.
  destruct (CB.eo_optsize Oc && (CF.half_to_f32 (CF.f32_to_half b) =? b)%N) eqn:E.
  - apply andb_true_iff in E. destruct E as [_ E]. apply N.eqb_eq in E.
    rewrite CP.be_put_sbe.
    change (zb ((CB.bdFloat16 :: CS.sbe 2 (CF.f32_to_half b)) ++ rest)) with (249 :: zb (CS.sbe 2 (CF.f32_to_half b) ++ rest)).
    cbn [T.decode T.dFloat64 T.cbor]. unfold T.cbor_Float64. rewrite c_float_not_nil by lia.
    unfold T.cbor_decFloat. change (249 =? cborBdFloat16) with true. cbv iota.
    pose proof (CE.f32_to_half_lt b) as Hh.
    rewrite c_readv by (change (256 ^ N.of_nat 2)%N with 65536%N; exact Hh). cbn [bind T.hlp_float64].
    rewrite f16_all by exact Hh. rewrite E. rewrite fbits_widen by exact Hb. reflexivity.
  - rewrite CP.be_put_sbe.
    change (zb ((CB.bdFloat32 :: CS.sbe 4 b) ++ rest)) with (250 :: zb (CS.sbe 4 b ++ rest)).
    cbn [T.decode T.dFloat64 T.cbor]. unfold T.cbor_Float64. rewrite c_float_not_nil by lia.
    unfold T.cbor_decFloat. change (250 =? cborBdFloat16) with false. change (250 =? cborBdFloat32) with true. cbv iota.
    rewrite c_readv by (change (256 ^ N.of_nat 4)%N with 4294967296%N; change (2 ^ 32)%N with 4294967296%N in Hb; exact Hb).
    cbn [bind T.hlp_float64]. rewrite fbits_widen by exact Hb. reflexivity.
Qed.

Lemma c_f64_bytes : forall Oc b rest, (b < 2 ^ 64)%N ->
  T.decode T.cbor T.KFloat64 (zb (CB.enc_f64 Oc b ++ rest)) = Ok (Z.of_N b).
Proof.
  intros Oc b rest Hb. unfold CB.enc_f64.
  destruct (CB.eo_optsize Oc && CF.f64_eq (CF.widen (CF.narrow b)) b) eqn:E.
  - apply andb_true_iff in E. destruct E as [_ E].
    pose proof (CE.f64_eq_same b Hb E) as Hw.
    assert (Hn : (CF.narrow b < 2 ^ 32)%N) by (apply CE.narrow_lt; eapply CE.f64_eq_not_nan; exact E).
    rewrite c_f32_bytes by exact Hn. rewrite <- cbor_widen by exact Hn. rewrite Hw. reflexivity.
  - rewrite CP.be_put_sbe.
    change (zb ((CB.bdFloat64 :: CS.sbe 8 b) ++ rest)) with (251 :: zb (CS.sbe 8 b ++ rest)).
    cbn [T.decode T.dFloat64 T.cbor]. unfold T.cbor_Float64. rewrite c_float_not_nil by lia.
    unfold T.cbor_decFloat. change (251 =? cborBdFloat16) with false. change (251 =? cborBdFloat32) with false.
    change (251 =? cborBdFloat64) with true. cbv iota.
    rewrite c_readv by (change (256 ^ N.of_nat 8)%N with 18446744073709551616%N; change (2 ^ 64)%N with 18446744073709551616%N in Hb; exact Hb).
    reflexivity.
Qed.

Theorem cbor_typed_f64 : forall Oc D O b rest, (b < 2 ^ 64)%N ->
  T.decode T.cbor T.KFloat64 (zb (CB.enc Oc (IF64 b) ++ rest)) = typed (W_cbor Oc D) O T.KFloat64 (wn (W_cbor Oc D) (IF64 b)).
Proof. intros Oc D O b rest Hb. cbn [CB.enc]. rewrite c_f64_bytes by exact Hb. reflexivity. Qed.

Theorem cbor_typed_f32_f64 : forall Oc D O b rest, (b < 2 ^ 32)%N ->
  T.decode T.cbor T.KFloat64 (zb (CB.enc Oc (IF32 b) ++ rest)) = typed (W_cbor Oc D) O T.KFloat64 (wn (W_cbor Oc D) (IF32 b)).
Proof.
  intros Oc D O b rest Hb. cbn [CB.enc]. rewrite c_f32_bytes by exact Hb.
  unfold typed. cbn [wn W_cbor]. unfold c_wn, CE.norm. cbn [CE.sdata_of CC.go_of].
  change (32 =? 16)%N with false. change (32 =? 32)%N with true. cbv iota.
  rewrite cbor_widen by exact Hb. reflexivity.
Qed.

(* ---- the statement exported to Properties/C01_compose.v (numbers) ---- *)
Lemma cbor_typed_reads : forall (Oc : CB.eopts) (D : CB.dopts) (O : gopts) (rest : list N),
  (forall k i, T.is_int_kind k = true -> int_item i -> leaf_ok (W_cbor Oc D) i = true ->
     T.decode T.cbor k (zb (CB.enc Oc i ++ rest)) = typed (W_cbor Oc D) O k (wn (W_cbor Oc D) i)) /\
  (forall k, T.decode T.cbor k (zb (CB.enc Oc INil ++ rest)) = typed (W_cbor Oc D) O k (wn (W_cbor Oc D) INil)) /\
  (forall b, (b < 2 ^ 64)%N ->
     T.decode T.cbor T.KFloat64 (zb (CB.enc Oc (IF64 b) ++ rest)) = typed (W_cbor Oc D) O T.KFloat64 (wn (W_cbor Oc D) (IF64 b))) /\
  (forall b, (b < 2 ^ 32)%N ->
     T.decode T.cbor T.KFloat64 (zb (CB.enc Oc (IF32 b) ++ rest)) = typed (W_cbor Oc D) O T.KFloat64 (wn (W_cbor Oc D) (IF32 b))).
Proof.
  intros Oc D O rest. repeat apply conj.
  - intros. apply cbor_typed_int; assumption.
  - intros. apply cbor_typed_nil.
  - intros. apply cbor_typed_f64; assumption.
  - intros. apply cbor_typed_f32_f64; assumption.
Qed.

(* ================================================================== *)
(* Part B: the remaining typed reads (byte-level models: C01/TypedRd.v) *)
Open Scope N_scope.

(* the items the generic encoder produces: no tags / extensions (C17) *)
Definition gen_item (i : item) : Prop := match i with ITag _ _ | IExt _ _ => False | _ => True end.

(* ---- the first byte of an encoding ---- *)
Lemma enc_head_first : forall mt v, mt <= 7 -> exists a tl, CB.enc_head (mt * 32) v = (mt * 32 + a) :: tl /\ a <= 27.
Proof.
  intros mt v Hm. rewrite CP.enc_head_shead by exact Hm. rewrite CP.shead_cons.
  exists (CS.ai_of (CC.minw v) v), (CS.sbe (CS.wbytes (CC.minw v)) v). split; [reflexivity|].
  unfold CC.minw. repeat match goal with |- context [?a <=? ?b] => destruct (N.leb_spec a b) end; cbn [CS.ai_of]; lia.
Qed.

Definition hd_ok (bd : N) : bool := (bd <? 246) || ((248 <=? bd) && (bd <? 255)).
Definition hd_plain (l : list N) : Prop := exists bd tl, l = bd :: tl /\ hd_ok bd = true.

Lemma hd_plain_app : forall l r, hd_plain l -> hd_plain (l ++ r).
Proof. intros l r (bd & tl & -> & H). exists bd, (tl ++ r). split; [reflexivity|exact H]. Qed.

Lemma hd_plain_head : forall mt v, mt <= 6 -> hd_plain (CB.enc_head (mt * 32) v).
Proof.
  intros mt v Hm. destruct (enc_head_first mt v ltac:(lia)) as (a & tl & E & Ha). rewrite E.
  exists (mt * 32 + a), tl. split; [reflexivity|]. unfold hd_ok. apply orb_true_iff. left. apply N.ltb_lt. lia.
Qed.

Lemma hd_plain_not_nil : forall l, hd_plain l -> exists bd tl, l = bd :: tl /\ c_isnil bd = false /\ (bd =? CB.bdBreak) = false.
Proof.
  intros l (bd & tl & -> & H). exists bd, tl. split; [reflexivity|].
  unfold hd_ok in H. apply orb_true_iff in H. rewrite andb_true_iff, N.ltb_lt, N.leb_le, N.ltb_lt in H.
  unfold c_isnil. change RC.bdNil with 246. change RC.bdUndefined with 247. change CB.bdBreak with 255.
  destruct (N.eqb_spec bd 246); [lia|]. destruct (N.eqb_spec bd 247); [lia|]. destruct (N.eqb_spec bd 255); [lia|]. split; reflexivity.
Qed.

Lemma hd_plain_str : forall Oc bb s, bb = CB.baseBytes \/ bb = CB.baseString -> hd_plain (CB.enc_str Oc bb s).
Proof.
  intros Oc bb s Hb. unfold CB.enc_str. destruct (CB.eo_indef Oc).
  - destruct Hb as [-> | ->]; cbn [app]; eexists _, _; (split; [reflexivity|]); vm_compute; reflexivity.
  - destruct Hb as [-> | ->]; [change CB.baseBytes with (2 * 32)|change CB.baseString with (3 * 32)]; apply hd_plain_app, hd_plain_head; lia.
Qed.

(* every non-nil encoding of a generic item starts with a byte that is neither nil / undefined nor break *)
Definition written_nil (i : item) : bool :=
  match i with INil => true | ITime s n => is_time_zero s n | _ => false end.

Lemma enc_first : forall Oc i, gen_item i -> written_nil i = false -> hd_plain (CB.enc Oc i).
Proof.
  intros Oc i Hg Hn. destruct i as [|b|z|n|b|b|s|s|l|l|t v|t s|s n]; try contradiction; try discriminate; cbn [CB.enc].
  - destruct b; eexists _, _; (split; [reflexivity|]); vm_compute; reflexivity.
  - unfold CB.enc_int. destruct (z <? 0)%Z;
      [change CB.baseNegInt with (1 * 32)|change CB.baseUint with (0 * 32)]; apply hd_plain_head; lia.
  - change CB.baseUint with (0 * 32). apply hd_plain_head; lia.
  - unfold CB.enc_f32. destruct (CB.eo_optsize Oc && _); eexists _, _; (split; [reflexivity|]); vm_compute; reflexivity.
  - unfold CB.enc_f64, CB.enc_f32. destruct (CB.eo_optsize Oc && CF.f64_eq _ _); [destruct (CB.eo_optsize Oc && _)|];
      eexists _, _; (split; [reflexivity|]); vm_compute; reflexivity.
  - apply hd_plain_str. destruct (CB.eo_str2raw Oc); auto.
  - apply hd_plain_str. auto.
  - destruct l as [|x l].
    + destruct (CB.eo_indef Oc); eexists _, _; (split; [reflexivity|]); vm_compute; reflexivity.
    + destruct (CB.eo_indef Oc).
      * cbn [app]. eexists _, _; (split; [reflexivity|]); vm_compute; reflexivity.
      * change CB.baseArray with (4 * 32). apply hd_plain_app, hd_plain_head; lia.
  - destruct l as [|x l].
    + destruct (CB.eo_indef Oc); eexists _, _; (split; [reflexivity|]); vm_compute; reflexivity.
    + destruct (CB.eo_indef Oc).
      * cbn [app]. eexists _, _; (split; [reflexivity|]); vm_compute; reflexivity.
      * change CB.baseMap with (5 * 32). apply hd_plain_app, hd_plain_head; lia.
  - unfold CB.enc_time. cbn [written_nil] in Hn. unfold is_time_zero in Hn. unfold CB.zero_time_sec.
    change time_zero_sec with (-62135596800)%Z in Hn. rewrite Hn.
    destruct (CB.eo_rfc3339 Oc).
    + change CB.baseTag with (6 * 32). apply hd_plain_app, hd_plain_head; lia.
    + destruct (CB.round_us s n) as [s1 n1]. change CB.baseTag with (6 * 32). apply hd_plain_app, hd_plain_head; lia.
Qed.

Lemma enc_written_nil : forall Oc i, written_nil i = true -> CB.enc Oc i = [CB.bdNil].
Proof.
  intros Oc i H. destruct i as [|b|z|n|b|b|s|s|l|l|t v|t s|s n]; try discriminate; [reflexivity|].
  cbn [CB.enc written_nil] in *. unfold CB.enc_time, CB.zero_time_sec. unfold is_time_zero in H.
  change time_zero_sec with (-62135596800)%Z in H. rewrite H. reflexivity.
Qed.

(* what the wire record says about nil-ness: exactly the items written as nil *)
Lemma c_is_nil_wn : forall Oc D i, gen_item i -> is_nil (W_cbor Oc D) (wn (W_cbor Oc D) i) = written_nil i.
Proof.
  intros Oc D i Hg. destruct i as [|b|z|n|b|b|s|s|l|l|t v|t s|s n]; try contradiction; cbn [wn is_nil W_cbor written_nil]; unfold c_wn, CE.norm; cbn [CE.sdata_of CC.go_of].
  - reflexivity.
  - destruct b; reflexivity.
  - unfold CE.int_data. destruct (z <? 0)%Z; cbn [CC.go_of]; [|destruct (CB.do_signed D)]; reflexivity.
  - destruct (CB.do_signed D); reflexivity.
  - reflexivity.
  - reflexivity.
  - destruct (CB.eo_str2raw Oc); cbn [CC.go_of]; [destruct (CB.do_raw2str D)|]; reflexivity.
  - destruct (CB.do_raw2str D); reflexivity.
  - reflexivity.
  - reflexivity.
  - exact (proj2 (proj2 (proj2 (W_cbor_losses Oc D))) s n).
Qed.

Lemma c_is_nil_wn_t : forall Oc D i, gen_item i -> is_nil (W_cbor_t Oc D) (wn (W_cbor_t Oc D) i) = written_nil i.
Proof.
  intros Oc D i Hg. destruct i as [|b|z|n|b|b|s|s|l|l|t v|t s|s n]; try contradiction; try reflexivity.
  - exact (c_is_nil_wn Oc D (IBool b) I).
  - exact (c_is_nil_wn Oc D (IInt z) I).
  - exact (c_is_nil_wn Oc D (IUint n) I).
  - exact (c_is_nil_wn Oc D (IStr s) I).
  - exact (c_is_nil_wn Oc D (IBytes s) I).
  - cbn [wn is_nil W_cbor_t c_wn_t written_nil]. destruct (is_time_zero s n); reflexivity.
Qed.

(* TryNil on the bytes of any generic item = is_nil on the normalised item; the descriptor of a non-nil
   item stays unread; CheckBreak never fires on an item *)
Theorem cbor_typed_trynil : forall Oc D i rest, gen_item i ->
  c_TryNil (CB.enc Oc i ++ rest)
    = Ok (is_nil (W_cbor Oc D) (wn (W_cbor Oc D) i),
          if is_nil (W_cbor Oc D) (wn (W_cbor Oc D) i) then rest else CB.enc Oc i ++ rest)
  /\ (is_nil (W_cbor Oc D) (wn (W_cbor Oc D) i) = false ->
      c_CheckBreak (CB.enc Oc i ++ rest) = Ok (false, CB.enc Oc i ++ rest)).
Proof.
  intros Oc D i rest Hg. rewrite (c_is_nil_wn Oc D i Hg). destruct (written_nil i) eqn:E.
  - rewrite (enc_written_nil Oc i E). split; [reflexivity|discriminate].
  - destruct (hd_plain_not_nil _ (hd_plain_app _ rest (enc_first Oc i Hg E))) as (bd & tl & Eq & N1 & N2).
    rewrite Eq. cbn [c_TryNil c_CheckBreak]. rewrite N1, N2. split; [reflexivity|intros _; reflexivity].
Qed.

Theorem cbor_break : forall rest, c_CheckBreak (CB.bdBreak :: rest) = Ok (true, rest).
Proof. reflexivity. Qed.

(* ---- DecodeBool ---- *)
Lemma c_tags_plain : forall D f bd b, (1 <= f)%nat -> bd / 32 <> 6 -> c_tags D f bd b = Ok (bd, b).
Proof.
  intros D f bd b Hf Hm. unfold c_tags. destruct (CB.do_skiptags D); [|reflexivity].
  destruct f; [lia|]. cbn [RC.skip_tags]. change RC.majTag with 6.
  destruct (N.eqb_spec (bd / 32) 6); [contradiction|reflexivity].
Qed.

Theorem cbor_typed_bool : forall Oc D O f x rest, (1 <= f)%nat ->
  stored GBool (c_DecodeBool D f (CB.enc Oc (IBool x) ++ rest))
    = leaving (of_item (W_cbor Oc D) O 0 TBool (wn (W_cbor Oc D) (IBool x))) rest.
Proof.
  intros Oc D O f x rest Hf. destruct x; cbn [CB.enc app c_DecodeBool].
  - change (c_isnil CB.bdTrue) with false. cbv iota. rewrite c_tags_plain by (try exact Hf; vm_compute; discriminate). reflexivity.
  - change (c_isnil CB.bdFalse) with false. cbv iota. rewrite c_tags_plain by (try exact Hf; vm_compute; discriminate). reflexivity.
Qed.

(* ---- DecodeStringAsBytes / DecodeBytes: definite and chunked, text and byte strings ---- *)
Lemma c_str_bytes : forall Oc D (text : bool) s f rest,
  Forall (fun x => x < 256) s -> N.of_nat (length s) < 2 ^ 63 ->
  (2 * length (CB.enc_str Oc (if text then CB.baseString else CB.baseBytes) s) <= f)%nat ->
  c_DecodeBytes D f (CB.enc_str Oc (if text then CB.baseString else CB.baseBytes) s ++ rest) = Ok (s, rest).
Proof.
  intros Oc D text s f rest Hb Hl Hf. unfold c_DecodeBytes. rewrite CP.enc_str_ser in *.
  change (2 ^ 63) with 9223372036854775808 in Hl.
  apply CP.dec_bytes_fresh_str; [apply CP.str_tree_twf; [exact Hb|lia]|apply CE.str_tree_supp; exact Hl|apply CE.str_tree_text|exact Hf].
Qed.

Theorem cbor_typed_str : forall Oc D O s f rest,
  Forall (fun x => x < 256) s -> N.of_nat (length s) < 2 ^ 63 ->
  (2 * length (CB.enc Oc (IStr s)) <= f)%nat ->
  stored GStr (c_DecodeBytes D f (CB.enc Oc (IStr s) ++ rest))
    = leaving (of_item (W_cbor Oc D) O 0 TString (wn (W_cbor Oc D) (IStr s))) rest.
Proof.
  intros Oc D O s f rest Hb Hl Hf. cbn [CB.enc] in *.
  assert (E : c_DecodeBytes D f (CB.enc_str Oc (if CB.eo_str2raw Oc then CB.baseBytes else CB.baseString) s ++ rest) = Ok (s, rest)).
  { destruct (CB.eo_str2raw Oc); [apply (c_str_bytes Oc D false)|apply (c_str_bytes Oc D true)]; assumption. }
  rewrite E. cbn [wn W_cbor]. unfold c_wn, CE.norm. cbn [CE.sdata_of].
  destruct (CB.eo_str2raw Oc); cbn [CC.go_of]; [destruct (CB.do_raw2str D)|]; reflexivity.
Qed.

Theorem cbor_typed_bytes : forall Oc D O s f rest,
  Forall (fun x => x < 256) s -> N.of_nat (length s) < 2 ^ 63 ->
  (2 * length (CB.enc Oc (IBytes s)) <= f)%nat ->
  stored (fun x => GBytes (Some x)) (c_DecodeBytes D f (CB.enc Oc (IBytes s) ++ rest))
    = leaving (of_item (W_cbor Oc D) O 0 TBytes (wn (W_cbor Oc D) (IBytes s))) rest.
Proof.
  intros Oc D O s f rest Hb Hl Hf. cbn [CB.enc] in *.
  rewrite (c_str_bytes Oc D false s f rest Hb Hl Hf). cbn [wn W_cbor]. unfold c_wn, CE.norm. cbn [CE.sdata_of CC.go_of].
  destruct (CB.do_raw2str D); reflexivity.
Qed.

(* ---- ReadArrayStart / ReadMapStart: the head; what follows is the elements' bytes ---- *)
Definition c_body {A} (Oc : CB.eopts) (l : list A) (g : A -> list N) : list N :=
  flat_map g l ++ (if CB.eo_indef Oc then [CB.bdBreak] else []).

Lemma c_read_start : forall (mt indef : N) D f (n : N) (body rest : list N) (indefb : bool),
  (1 <= f)%nat -> 4 <= mt <= 5 -> indef = mt * 32 + 31 -> n < 2 ^ 63 ->
  c_ReadStart mt indef D f ((if indefb then [indef] else CB.enc_head (mt * 32) n) ++ body ++ rest)
    = Ok (if indefb then LUnknown else LKnown n, body ++ rest).
Proof.
  intros mt indef D f n body rest indefb Hf Hm Hi Hn. unfold c_ReadStart. destruct indefb.
  - cbn [app].
    assert (N1 : c_isnil indef = false).
    { unfold c_isnil. change RC.bdNil with 246. change RC.bdUndefined with 247.
      destruct (N.eqb_spec indef 246); [lia|]. destruct (N.eqb_spec indef 247); [lia|]. reflexivity. }
    rewrite N1. rewrite c_tags_plain by (try exact Hf; subst indef; lia). cbn [bind]. rewrite N.eqb_refl. reflexivity.
  - change (2 ^ 63) with 9223372036854775808 in Hn.
    rewrite CP.enc_head_shead by lia. rewrite CP.shead_cons. cbn [app].
    pose proof (CP.minw_fits n ltac:(lia)) as Hfit. pose proof (CP.ai_of_le _ _ Hfit) as Ha.
    set (a := CS.ai_of (CC.minw n) n) in *.
    assert (N1 : c_isnil (mt * 32 + a) = false).
    { unfold c_isnil. change RC.bdNil with 246. change RC.bdUndefined with 247.
      destruct (N.eqb_spec (mt * 32 + a) 246); [lia|]. destruct (N.eqb_spec (mt * 32 + a) 247); [lia|]. reflexivity. }
    rewrite N1. rewrite c_tags_plain by (try exact Hf; lia). cbn [bind].
    destruct (N.eqb_spec (mt * 32 + a) indef); [lia|].
    replace ((mt * 32 + a) / 32) with mt by lia. rewrite N.eqb_refl. cbn [negb].
    replace ((mt * 32 + a) mod 32) with a by lia. unfold a.
    rewrite CP.dec_len_head by (try exact Hfit; lia). reflexivity.
Qed.

Theorem cbor_typed_array_start : forall Oc D f l rest, (1 <= f)%nat -> N.of_nat (length l) < 2 ^ 63 ->
  c_ReadArrayStart D f (CB.enc Oc (IArr l) ++ rest)
    = Ok (if CB.eo_indef Oc then LUnknown else LKnown (N.of_nat (length l)), c_body Oc l (CB.enc Oc) ++ rest)
  /\ wn (W_cbor Oc D) (IArr l) = IArr (map (wn (W_cbor Oc D)) l).
Proof.
  intros Oc D f l rest Hf Hl. split; [|exact (w_arr _ (W_cbor_ok Oc D) l)].
  unfold c_ReadArrayStart, c_body.
  pose proof (c_read_start RC.majArray RC.bdIndefArray D f (N.of_nat (length l))
                (flat_map (CB.enc Oc) l ++ (if CB.eo_indef Oc then [CB.bdBreak] else [])) rest (CB.eo_indef Oc)
                Hf ltac:(change RC.majArray with 4; lia) eq_refl Hl) as H.
  rewrite <- H. f_equal. cbn [CB.enc]. destruct l as [|x l'].
  - destruct (CB.eo_indef Oc); reflexivity.
  - destruct (CB.eo_indef Oc); rewrite <- !app_assoc; reflexivity.
Qed.

Theorem cbor_typed_map_start : forall Oc D f l rest, (1 <= f)%nat -> N.of_nat (length l) < 2 ^ 63 ->
  c_ReadMapStart D f (CB.enc Oc (IMap l) ++ rest)
    = Ok (if CB.eo_indef Oc then LUnknown else LKnown (N.of_nat (length l)),
          c_body Oc l (fun kv => CB.enc Oc (fst kv) ++ CB.enc Oc (snd kv)) ++ rest)
  /\ wn (W_cbor Oc D) (IMap l) = IMap (map (fun kv => (wnk (W_cbor Oc D) (fst kv), wn (W_cbor Oc D) (snd kv))) l).
Proof.
  intros Oc D f l rest Hf Hl. split; [|exact (w_map _ (W_cbor_ok Oc D) l)].
  unfold c_ReadMapStart, c_body.
  pose proof (c_read_start RC.majMap RC.bdIndefMap D f (N.of_nat (length l))
                (flat_map (fun kv => CB.enc Oc (fst kv) ++ CB.enc Oc (snd kv)) l ++ (if CB.eo_indef Oc then [CB.bdBreak] else [])) rest (CB.eo_indef Oc)
                Hf ltac:(change RC.majMap with 5; lia) eq_refl Hl) as H.
  rewrite <- H. f_equal. cbn [CB.enc]. destruct l as [|x l'].
  - destruct (CB.eo_indef Oc); reflexivity.
  - destruct (CB.eo_indef Oc); rewrite <- !app_assoc; reflexivity.
Qed.

(* ---- DecodeTime ---- *)
(* the zero time is written as nil and read back as time.Time{} (both driver records) *)
Theorem cbor_typed_time_zero : forall Oc D O f rest,
  stored (fun sn : Z * N => GTime (fst sn) (snd sn)) (c_DecodeTime D f (CB.enc Oc (ITime time_zero_sec 0) ++ rest))
    = leaving (of_item (W_cbor Oc D) O 0 TTime (wn (W_cbor Oc D) (ITime time_zero_sec 0))) rest
  /\ wn (W_cbor_t Oc D) (ITime time_zero_sec 0) = wn (W_cbor Oc D) (ITime time_zero_sec 0).
Proof. intros. split; reflexivity. Qed.

(* TimeRFC3339: tag 0 + the RFC 3339 text (definite or chunked), parsed and rounded to the microsecond *)
Theorem cbor_typed_time_rfc3339 : forall Oc D O s n f rest,
  CB.eo_rfc3339 Oc = true -> CT.year_ok s = true -> n < 1000000000 ->
  (2 * length (CB.enc Oc (ITime s n)) <= f)%nat ->
  stored (fun sn : Z * N => GTime (fst sn) (snd sn)) (c_DecodeTime D f (CB.enc Oc (ITime s n) ++ rest))
    = leaving (of_item (W_cbor_t Oc D) O 0 TTime (wn (W_cbor_t Oc D) (ITime s n))) rest.
Proof.
  intros Oc D O s n f rest Hr Hy Hn Hf. cbn [CB.enc wn W_cbor_t c_wn_t] in *. unfold CB.enc_time in *.
  unfold is_time_zero. unfold CB.zero_time_sec in *. change time_zero_sec with (-62135596800)%Z.
  destruct ((s =? -62135596800)%Z && (n =? 0)) eqn:Ez; [reflexivity|].
  rewrite Hr in *. change (CB.enc_head CB.baseTag 0) with [192] in *. cbn [app] in *.
  unfold c_DecodeTime. change (c_isnil 192) with false. change (192 / 32 =? RC.majTag) with true. cbn [negb]. cbv iota.
  change (192 mod 32) with 0. change (RC.read_uint 0) with (fun b : list N => Ok (0, b)). cbn [bind]. change (0 =? 0) with true. cbv iota.
  destruct (CE.fmt_ok s n) as [Hb Hlen].
  pose proof (c_str_bytes Oc D true (CB.fmt_rfc3339 s n) f rest Hb ltac:(change (2 ^ 63) with 9223372036854775808; lia)
                ltac:(cbn [length] in Hf; lia)) as E.
  unfold c_DecodeBytes in E. rewrite E. cbn [bind].
  rewrite CT.parse_rfc3339_fmt by assumption. cbn [bind stored]. rewrite round_us_same. reflexivity.
Qed.

(* ---- the statement exported to Properties/C01_compose.v (the other reads) ---- *)
Lemma cbor_typed_reads_leaves : forall (Oc : CB.eopts) (D : CB.dopts) (O : gopts) (rest : list N),
  (* TryNil / CheckBreak on every generic item *)
  (forall i, gen_item i ->
     c_TryNil (CB.enc Oc i ++ rest)
       = Ok (is_nil (W_cbor Oc D) (wn (W_cbor Oc D) i),
             if is_nil (W_cbor Oc D) (wn (W_cbor Oc D) i) then rest else CB.enc Oc i ++ rest)
     /\ (is_nil (W_cbor Oc D) (wn (W_cbor Oc D) i) = false ->
         c_CheckBreak (CB.enc Oc i ++ rest) = Ok (false, CB.enc Oc i ++ rest))) /\
  c_CheckBreak (CB.bdBreak :: rest) = Ok (true, rest) /\
  (* DecodeBool *)
  (forall f x, (1 <= f)%nat ->
     stored GBool (c_DecodeBool D f (CB.enc Oc (IBool x) ++ rest))
       = leaving (of_item (W_cbor Oc D) O 0 TBool (wn (W_cbor Oc D) (IBool x))) rest) /\
  (* DecodeStringAsBytes, DecodeBytes *)
  (forall f s, Forall (fun x => x < 256) s -> N.of_nat (length s) < 2 ^ 63 -> (2 * length (CB.enc Oc (IStr s)) <= f)%nat ->
     stored GStr (c_DecodeBytes D f (CB.enc Oc (IStr s) ++ rest))
       = leaving (of_item (W_cbor Oc D) O 0 TString (wn (W_cbor Oc D) (IStr s))) rest) /\
  (forall f s, Forall (fun x => x < 256) s -> N.of_nat (length s) < 2 ^ 63 -> (2 * length (CB.enc Oc (IBytes s)) <= f)%nat ->
     stored (fun x => GBytes (Some x)) (c_DecodeBytes D f (CB.enc Oc (IBytes s) ++ rest))
       = leaving (of_item (W_cbor Oc D) O 0 TBytes (wn (W_cbor Oc D) (IBytes s))) rest) /\
  (* ReadArrayStart, ReadMapStart *)
  (forall f l, (1 <= f)%nat -> N.of_nat (length l) < 2 ^ 63 ->
     c_ReadArrayStart D f (CB.enc Oc (IArr l) ++ rest)
       = Ok (if CB.eo_indef Oc then LUnknown else LKnown (N.of_nat (length l)), c_body Oc l (CB.enc Oc) ++ rest)
     /\ wn (W_cbor Oc D) (IArr l) = IArr (map (wn (W_cbor Oc D)) l)) /\
  (forall f l, (1 <= f)%nat -> N.of_nat (length l) < 2 ^ 63 ->
     c_ReadMapStart D f (CB.enc Oc (IMap l) ++ rest)
       = Ok (if CB.eo_indef Oc then LUnknown else LKnown (N.of_nat (length l)),
             c_body Oc l (fun kv => CB.enc Oc (fst kv) ++ CB.enc Oc (snd kv)) ++ rest)
     /\ wn (W_cbor Oc D) (IMap l) = IMap (map (fun kv => (wnk (W_cbor Oc D) (fst kv), wn (W_cbor Oc D) (snd kv))) l)) /\
  (* DecodeTime: the zero time; under TimeRFC3339 every time of a year 0..9999 (driver record W_cbor_t) *)
  (forall f,
     stored (fun sn : Z * N => GTime (fst sn) (snd sn)) (c_DecodeTime D f (CB.enc Oc (ITime time_zero_sec 0) ++ rest))
       = leaving (of_item (W_cbor Oc D) O 0 TTime (wn (W_cbor Oc D) (ITime time_zero_sec 0))) rest) /\
  (forall f s n, CB.eo_rfc3339 Oc = true -> CT.year_ok s = true -> n < 1000000000 ->
     (2 * length (CB.enc Oc (ITime s n)) <= f)%nat ->
     stored (fun sn : Z * N => GTime (fst sn) (snd sn)) (c_DecodeTime D f (CB.enc Oc (ITime s n) ++ rest))
       = leaving (of_item (W_cbor_t Oc D) O 0 TTime (wn (W_cbor_t Oc D) (ITime s n))) rest).
Proof.
  intros Oc D O rest. repeat apply conj.
  - intros i Hg. apply cbor_typed_trynil. exact Hg.
  - reflexivity.
  - intros. apply cbor_typed_bool. assumption.
  - intros. apply cbor_typed_str; assumption.
  - intros. apply cbor_typed_bytes; assumption.
  - intros. apply cbor_typed_array_start; assumption.
  - intros. apply cbor_typed_map_start; assumption.
  - intros. apply cbor_typed_time_zero.
  - intros. apply cbor_typed_time_rfc3339; assumption.
Qed.

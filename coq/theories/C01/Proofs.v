(* C01 — proofs: the generic round trip against the abstract wire interface. *)
From Coq Require Import List NArith ZArith Bool Lia Permutation Arith.
From Verif Require Import Base.Outcome Gen.Consts Wire.Item Generic.Types Generic.Enc Generic.Dec C01.Model.
Import ListNotations.
Open Scope bool_scope.

(* ---------- small facts ---------- *)
Lemma eqbl_spec : forall a b, eqbl a b = true <-> a = b.
Proof.
  induction a as [|x a IH]; destruct b as [|y b]; simpl; split; intro H; try reflexivity; try discriminate.
  - apply andb_true_iff in H. destruct H as [H1 H2]. apply N.eqb_eq in H1. apply IH in H2. subst. reflexivity.
  - inversion H; subst. rewrite N.eqb_refl. simpl. apply IH. reflexivity.
Qed.

Lemma eqbl_refl : forall a, eqbl a a = true.
Proof. intro a. apply eqbl_spec. reflexivity. Qed.

Lemma eqbl_false : forall a b, eqbl a b = false <-> a <> b.
Proof.
  intros a b. split; intro H.
  - intro E. apply eqbl_spec in E. congruence.
  - destruct (eqbl a b) eqn:E; [|reflexivity]. apply eqbl_spec in E. contradiction.
Qed.

Lemma eqbl_sym : forall a b, eqbl a b = eqbl b a.
Proof.
  intros a b. destruct (eqbl a b) eqn:E.
  - apply eqbl_spec in E. subst. symmetry. apply eqbl_refl.
  - symmetry. apply eqbl_false. apply eqbl_false in E. congruence.
Qed.

Lemma in_s_i64 : forall w z, in_s w z = true -> (- 2 ^ 63 <= z < 2 ^ 63)%Z.
Proof.
  intros w z H. unfold in_s in H. apply andb_true_iff in H. destruct H as [H1 H2].
  apply Z.leb_le in H1. apply Z.ltb_lt in H2. destruct w; simpl in *; lia.
Qed.

Lemma in_u_u64 : forall w n, in_u w n = true -> (n < 2 ^ 64)%N.
Proof.
  intros w n H. unfold in_u in H. apply Z.ltb_lt in H.
  assert (Z.of_N n < 2 ^ 64)%Z by (destruct w; simpl in *; lia). lia.
Qed.

(* ---------- wt / supported as forallb ---------- *)
Lemma wt_list_fix : forall te l,
  (fix go (l : list gv) : bool := match l with [] => true | x :: r => wt te x && go r end) l = forallb (wt te) l.
Proof. induction l; simpl; congruence. Qed.

Lemma wt_map_fix : forall tk tv l,
  (fix go (l : list (gv * gv)) : bool :=
     match l with [] => true | kv :: r => wt tk (fst kv) && key_nonnan (fst kv) && wt tv (snd kv) && go r end) l
  = forallb (fun kv => wt tk (fst kv) && key_nonnan (fst kv) && wt tv (snd kv)) l.
Proof. induction l; simpl; congruence. Qed.

Lemma supported_struct_fix : forall fs,
  (fix go (fs : list (name * ty)) : bool := match fs with [] => true | (_, tf) :: r => supported tf && go r end) fs
  = forallb (fun nt => supported (snd nt)) fs.
Proof. induction fs as [|[n t] r IH]; simpl; congruence. Qed.

Definition wt_fields (vs : list (name * gv)) (fs : list (name * ty)) : Prop :=
  Forall2 (fun nv nt => fst nv = fst nt /\ wt (snd nt) (snd nv) = true) vs fs.

Lemma wt_struct_fix : forall vs fs,
  (fix go (vs : list (name * gv)) (fs : list (name * ty)) : bool :=
     match vs, fs with
     | [], [] => true
     | (n1, x) :: vr, (n2, tf) :: fr => eqbl n1 n2 && wt tf x && go vr fr
     | _, _ => false
     end) vs fs = true -> wt_fields vs fs.
Proof.
  induction vs as [|[n1 x] vr IH]; destruct fs as [|[n2 tf] fr]; intro H; try discriminate.
  - constructor.
  - apply andb_true_iff in H. destruct H as [H H3]. apply andb_true_iff in H. destruct H as [H1 H2].
    apply eqbl_spec in H1. constructor; [simpl; auto|]. apply IH. exact H3.
Qed.

Lemma zero_struct_fix : forall fs,
  (fix go (fs : list (name * ty)) : list (name * gv) :=
     match fs with [] => [] | (nm, tf) :: r => (nm, zero tf) :: go r end) fs = zero_fields fs.
Proof. induction fs as [|[n t] r IH]; simpl; unfold zero_fields in *; simpl; congruence. Qed.

(* ---------- depth / leaves of children ---------- *)
Lemma depth_arr_in : forall l x, In x l -> depth x < depth (IArr l).
Proof.
  intros l x H. simpl. apply Nat.lt_succ_r.
  induction l as [|y r IH]; simpl in *; [contradiction|]. destruct H as [->|H]; [lia|]. specialize (IH H). lia.
Qed.

Lemma depth_map_in : forall l kv, In kv l -> depth (fst kv) < depth (IMap l) /\ depth (snd kv) < depth (IMap l).
Proof.
  intros l kv H. simpl. rewrite !Nat.lt_succ_r.
  induction l as [|y r IH]; simpl in *; [contradiction|]. destruct H as [->|H]; [lia|]. specialize (IH H). lia.
Qed.

(* ---------- the loops of of_item, named ---------- *)
Section Loops.
  Variable W : wire.
  Variable O : gopts.

  Fixpoint dec_list (f : item -> res gv) (l : list item) : res (list gv) :=
    match l with
    | [] => Ok []
    | x :: r => do a <- f x;; do rs <- dec_list f r;; Ok (a :: rs)
    end.

  Fixpoint dec_map (f g : item -> res gv) (l : list (item * item)) (m : list (gv * gv)) : res (list (gv * gv)) :=
    match l with
    | [] => Ok m
    | kv :: r => do k <- f (fst kv);; do v <- g (snd kv);; dec_map f g r (mset m k v)
    end.

  Fixpoint dec_smap (F : ty -> item -> res gv) (fs : list (name * ty)) (l : list (item * item)) (vs : list (name * gv))
    : res (list (name * gv)) :=
    match l with
    | [] => Ok vs
    | kv :: r =>
        do nm <- rd_str W (fst kv);;
        match lookup_field nm fs with
        | Some tf => do x <- F tf (snd kv);; dec_smap F fs r (set_field nm x vs)
        | None => if error_if_no_field O then Err EOther else dec_smap F fs r vs
        end
    end.

  Fixpoint dec_sarr (F : ty -> item -> res gv) (l : list item) (fs : list (name * ty)) : res (list (name * gv)) :=
    match l, fs with
    | [], _ => Ok (zero_fields fs)
    | x :: r, (nm, tf) :: fr => do a <- F tf x;; do rs <- dec_sarr F r fr;; Ok ((nm, a) :: rs)
    | _ :: r, [] => if error_if_no_field O then Err EOther else dec_sarr F r []
    end.

  Hypothesis HW : wire_ok W.

  Ltac bind_eq :=
    match goal with |- bind ?a _ = bind ?b _ => let E := fresh "E" in assert (E : a = b); [|rewrite E; reflexivity] end.

  Lemma of_item_nil : forall d t i, is_nil W i = true -> of_item W O d t i = Ok (zero t).
  Proof. intros d t i H. destruct i; simpl; rewrite H; reflexivity. Qed.

  Lemma of_item_slice : forall d te l,
    of_item W O d (TSlice te) (IArr l) =
    if (maxdepth O <=? Z.of_nat (S d))%Z then Err EDepth
    else do vs <- dec_list (of_item W O (S d) te) l;; Ok (GList (Some vs)).
  Proof.
    intros d te l. cbn [of_item strip]. rewrite (w_arr_nn W HW).
    destruct (maxdepth O <=? Z.of_nat (S d))%Z; [reflexivity|].
    cbn [bind wrapn]. 
    assert (E : forall l, (fix go (l0 : list item) : res (list gv) :=
              match l0 with
              | [] => Ok []
              | x :: r => do a <- of_item W O (S d) te x;; do rs <- go r;; Ok (a :: rs)
              end) l = dec_list (of_item W O (S d) te) l).
    { induction l0 as [|x r IH]; simpl; [reflexivity|]. rewrite IH. reflexivity. }
    rewrite E. destruct (dec_list (of_item W O (S d) te) l); reflexivity.
  Qed.

  Lemma of_item_array : forall d n te l,
    of_item W O d (TArray n te) (IArr l) =
    if (maxdepth O <=? Z.of_nat (S d))%Z then Err EDepth
    else if n <? length l then Err EOther
    else do vs <- dec_list (of_item W O (S d) te) l;; Ok (GArr (vs ++ repeat (zero te) (n - length l))).
  Proof.
    intros d n te l. cbn [of_item strip]. rewrite (w_arr_nn W HW).
    destruct (maxdepth O <=? Z.of_nat (S d))%Z; [reflexivity|].
    destruct (n <? length l); [reflexivity|].
    cbn [bind wrapn].
    assert (E : forall l, (fix go (l0 : list item) : res (list gv) :=
              match l0 with
              | [] => Ok []
              | x :: r => do a <- of_item W O (S d) te x;; do rs <- go r;; Ok (a :: rs)
              end) l = dec_list (of_item W O (S d) te) l).
    { induction l0 as [|x r IH]; simpl; [reflexivity|]. rewrite IH. reflexivity. }
    rewrite E. destruct (dec_list (of_item W O (S d) te) l); reflexivity.
  Qed.

  Lemma of_item_map : forall d tk tv l,
    of_item W O d (TMap tk tv) (IMap l) =
    if (maxdepth O <=? Z.of_nat (S d))%Z then Err EDepth
    else do m <- dec_map (of_item W O (S d) tk) (of_item W O (S d) tv) l [];; Ok (GMap (Some m)).
  Proof.
    intros d tk tv l. cbn [of_item strip]. rewrite (w_map_nn W HW).
    destruct (maxdepth O <=? Z.of_nat (S d))%Z; [reflexivity|].
    cbn [bind wrapn].
    assert (E : forall l m, (fix go (l0 : list (item * item)) (m0 : list (gv * gv)) : res (list (gv * gv)) :=
              match l0 with
              | [] => Ok m0
              | kv :: r =>
                  do k <- of_item W O (S d) tk (fst kv);;
                  do v <- of_item W O (S d) tv (snd kv);;
                  go r (mset m0 k v)
              end) l m = dec_map (of_item W O (S d) tk) (of_item W O (S d) tv) l m).
    { induction l0 as [|x r IH]; intro m; simpl; [reflexivity|].
      destruct (of_item W O (S d) tk (fst x)); try reflexivity. simpl.
      destruct (of_item W O (S d) tv (snd x)); try reflexivity. simpl. apply IH. }
    rewrite E. destruct (dec_map _ _ l []); reflexivity.
  Qed.

  Lemma of_item_struct_map : forall d fs l,
    of_item W O d (TStruct fs) (IMap l) =
    if (maxdepth O <=? Z.of_nat (S d))%Z then Err EDepth
    else do vs <- dec_smap (of_item W O (S d)) fs l (zero_fields fs);; Ok (GStruct vs).
  Proof.
    intros d fs l. cbn [of_item strip]. rewrite (w_map_nn W HW).
    destruct (maxdepth O <=? Z.of_nat (S d))%Z; [reflexivity|].
    cbn [bind wrapn].
    assert (E : forall l vs, (fix go (l0 : list (item * item)) (vs0 : list (name * gv)) : res (list (name * gv)) :=
              match l0 with
              | [] => Ok vs0
              | kv :: r =>
                  do nm <- rd_str W (fst kv);;
                  match lookup_field nm fs with
                  | Some tf => do x <- of_item W O (S d) tf (snd kv);; go r (set_field nm x vs0)
                  | None => if error_if_no_field O then Err EOther else go r vs0
                  end
              end) l vs = dec_smap (of_item W O (S d)) fs l vs).
    { induction l0 as [|x r IH]; intro vs; simpl; [reflexivity|].
      destruct (rd_str W (fst x)); try reflexivity. simpl.
      destruct (lookup_field a fs).
      - destruct (of_item W O (S d) t (snd x)); try reflexivity. simpl. apply IH.
      - destruct (error_if_no_field O); [reflexivity|]. apply IH. }
    rewrite E. destruct (dec_smap _ fs l _); reflexivity.
  Qed.

  Lemma of_item_struct_arr : forall d fs l,
    of_item W O d (TStruct fs) (IArr l) =
    if (maxdepth O <=? Z.of_nat (S d))%Z then Err EDepth
    else do vs <- dec_sarr (of_item W O (S d)) l fs;; Ok (GStruct vs).
  Proof.
    intros d fs l. cbn [of_item strip]. rewrite (w_arr_nn W HW).
    destruct (maxdepth O <=? Z.of_nat (S d))%Z; [reflexivity|].
    cbn [bind wrapn].
    assert (E : forall l fs, (fix go (l0 : list item) (fs0 : list (name * ty)) : res (list (name * gv)) :=
              match l0, fs0 with
              | [], _ => Ok (zero_fields fs0)
              | x :: r, (nm, tf) :: fr => do a <- of_item W O (S d) tf x;; do rs <- go r fr;; Ok ((nm, a) :: rs)
              | _ :: r, [] => if error_if_no_field O then Err EOther else go r []
              end) l fs = dec_sarr (of_item W O (S d)) l fs).
    { induction l0 as [|x r IH]; intro fs0; simpl; [reflexivity|].
      destruct fs0 as [|[nm tf] fr].
      - destruct (error_if_no_field O); [reflexivity|]. apply IH.
      - destruct (of_item W O (S d) tf x); try reflexivity. simpl. rewrite IH. reflexivity. }
    rewrite E. destruct (dec_sarr _ l fs); reflexivity.
  Qed.
End Loops.

(* ---------- scalars, pointers ---------- *)
Section RT.
  Variable W : wire.
  Variable O : gopts.
  Hypothesis HW : wire_ok W.

  Lemma of_item_scalar : forall d t i, key_ty t = true ->
    of_item W O d t i =
    if is_nil W i then Ok (zero t) else
    match t with
    | TBool => do x <- rd_bool W i;; Ok (GBool x)
    | TInt w => do z <- rd_int W i;; if in_s w z then Ok (GInt z) else Err EOverflow
    | TUint w => do n <- rd_uint W i;; if in_u w n then Ok (GUint n) else Err EOverflow
    | TUintptr => do n <- rd_uint W i;; if in_u W64 n then Ok (GUint n) else Err EOverflow
    | TFloat F32 => do x <- rd_f32 W i;; Ok (GF32 x)
    | TFloat F64 => do x <- rd_f64 W i;; Ok (GF64 x)
    | TString => do s <- rd_str W i;; Ok (GStr s)
    | _ => Err EOther
    end.
  Proof.
    intros d t i H.
    destruct t; try discriminate H; destruct i; cbn [of_item strip];
      match goal with |- context [is_nil W ?x] => destruct (is_nil W x) end; try reflexivity;
      try (destruct w); cbn [bind wrapn];
      match goal with |- context [bind ?a _] => destruct a end; cbn [bind]; try reflexivity;
      match goal with |- context [if ?c then _ else _] => destruct c end; reflexivity.
  Qed.

  Lemma of_item_bytes : forall d i,
    of_item W O d TBytes i = if is_nil W i then Ok (zero TBytes) else do s <- rd_bytes W i;; Ok (GBytes (Some s)).
  Proof.
    intros d i. destruct i; cbn [of_item strip];
      match goal with |- context [is_nil W ?x] => destruct (is_nil W x) end; try reflexivity;
      cbn [bind wrapn]; match goal with |- context [bind ?a _] => destruct a end; reflexivity.
  Qed.

  Lemma of_item_bytearray : forall d n i,
    of_item W O d (TByteArray n) i = if is_nil W i then Ok (zero (TByteArray n)) else do s <- rd_bytes W i;; fit_bytes n s.
  Proof.
    intros d n i. destruct i; cbn [of_item strip];
      match goal with |- context [is_nil W ?x] => destruct (is_nil W x) end; try reflexivity;
      cbn [bind wrapn]; match goal with |- context [bind ?a _] => destruct a end; cbn [bind]; try reflexivity;
      match goal with |- context [fit_bytes ?a ?b] => destruct (fit_bytes a b) end; reflexivity.
  Qed.

  Lemma of_item_time : forall d i,
    of_item W O d TTime i = if is_nil W i then Ok (zero TTime) else do sn <- rd_time W i;; Ok (GTime (fst sn) (snd sn)).
  Proof.
    intros d i. destruct i; cbn [of_item strip];
      match goal with |- context [is_nil W ?x] => destruct (is_nil W x) end; try reflexivity;
      cbn [bind wrapn]; match goal with |- context [bind ?a _] => destruct a end; reflexivity.
  Qed.

  (* a pointer level: allocate and decode the pointee *)
  Lemma of_item_ptr : forall d te i, is_nil W i = false ->
    of_item W O d (TPtr te) i = do v <- of_item W O d te i;; Ok (GPtr (Some v)).
  Proof.
    intros d te i H.
    destruct i; cbn [of_item strip]; rewrite H; destruct (strip te) as [np bt];
      match goal with |- context [bind ?a _] => destruct a end; reflexivity.
  Qed.

  (* scalar leaves through a scalar-preserving normalisation [f] *)
  Lemma scalar_rt : forall f, scalar_ok W f -> forall d t v,
    key_ty t = true -> wt t v = true -> leaves_ok W (enc O v) = true ->
    of_item W O d t (f (enc O v)) = Ok (norm W O v).
  Proof.
    intros f Hf d t v Hk Hwt Hl. rewrite of_item_scalar by exact Hk.
    destruct t; try discriminate Hk; destruct v as [b|z|n|b|b|s|[b|]|b|sec nsec|[l|]|l|[l|]|[p|]|fs]; try discriminate Hwt; cbn [enc norm] in *.
    - destruct (s_bool W f Hf b Hl) as [-> ->]. reflexivity.
    - destruct (s_int W f Hf z Hl (in_s_i64 _ _ Hwt)) as [-> ->]. cbn [bind]. cbn [wt] in Hwt. rewrite Hwt. reflexivity.
    - destruct (s_uint W f Hf n Hl (in_u_u64 _ _ Hwt)) as [-> ->]. cbn [bind]. cbn [wt] in Hwt. rewrite Hwt. reflexivity.
    - destruct (s_uint W f Hf n Hl (in_u_u64 _ _ Hwt)) as [-> ->]. cbn [bind]. cbn [wt] in Hwt. rewrite Hwt. reflexivity.
    - destruct w; try discriminate Hwt. cbn [wt] in Hwt. apply N.ltb_lt in Hwt.
      destruct (s_f32 W f Hf b Hl Hwt) as [-> ->]. reflexivity.
    - destruct w; try discriminate Hwt. cbn [wt] in Hwt. apply N.ltb_lt in Hwt.
      destruct (s_f64 W f Hf b Hl Hwt) as [-> ->]. reflexivity.
    - cbn [wt] in Hwt. destruct (s_str W f Hf s Hl Hwt) as [-> ->]. reflexivity.
  Qed.

  (* whether the value is written as a nil *)
  Lemma nilenc_spec : forall v t, wt t v = true -> leaves_ok W (enc O v) = true ->
    is_nil W (wn W (enc O v)) = nilenc W O v.
  Proof.
    pose proof (w_val W HW) as Hv.
    induction v using gv_ind'; intros t Hwt Hl; cbn [enc nilenc] in *.
    - destruct t; try discriminate Hwt. apply (s_bool W _ Hv b Hl).
    - destruct t; try discriminate Hwt. apply (s_int W _ Hv z Hl (in_s_i64 _ _ Hwt)).
    - destruct t; try discriminate Hwt; apply (s_uint W _ Hv n Hl (in_u_u64 _ _ Hwt)).
    - destruct t; try discriminate Hwt. destruct w; try discriminate Hwt. cbn [wt] in Hwt. apply N.ltb_lt in Hwt. apply (s_f32 W _ Hv b Hl Hwt).
    - destruct t; try discriminate Hwt. destruct w; try discriminate Hwt. cbn [wt] in Hwt. apply N.ltb_lt in Hwt. apply (s_f64 W _ Hv b Hl Hwt).
    - destruct t; try discriminate Hwt. cbn [wt] in Hwt. apply (s_str W _ Hv s Hl Hwt).
    - destruct b as [b|].
      + destruct t; try discriminate Hwt. cbn [wt] in Hwt. apply (w_bytes W HW b Hl Hwt).
      + destruct (nil_to_empty O); cbn [negb].
        * apply (w_bytes W HW [] Hl eq_refl).
        * apply (s_nil W _ Hv).
    - destruct t; try discriminate Hwt. cbn [wt] in Hwt. apply andb_true_iff in Hwt. destruct Hwt as [_ Hb]. apply (w_bytes W HW b Hl Hb).
    - reflexivity.
    - destruct (nil_to_empty O); cbn [negb].
      + rewrite (w_arr W HW). apply (w_arr_nn W HW).
      + apply (s_nil W _ Hv).
    - rewrite (w_arr W HW). apply (w_arr_nn W HW).
    - rewrite (w_arr W HW). apply (w_arr_nn W HW).
    - destruct (nil_to_empty O); cbn [negb].
      + rewrite (w_map W HW). apply (w_map_nn W HW).
      + apply (s_nil W _ Hv).
    - rewrite (w_map W HW). apply (w_map_nn W HW).
    - apply (s_nil W _ Hv).
    - destruct t; try discriminate Hwt. cbn [wt] in Hwt. apply (IHv t Hwt Hl).
    - destruct (struct_to_array O).
      + rewrite (w_arr W HW). apply (w_arr_nn W HW).
      + rewrite (w_map W HW). apply (w_map_nn W HW).
  Qed.
End RT.

(* ---------- sorting ---------- *)
Section SortFacts.
  Context {A : Type} (leb : A -> A -> bool).
  Lemma insert_by_perm : forall x l, Permutation (insert_by leb x l) (x :: l).
  Proof.
    induction l as [|y r IH]; simpl; [reflexivity|]. destruct (leb x y); [reflexivity|].
    rewrite IH. apply perm_swap.
  Qed.
  Lemma sort_by_perm : forall l, Permutation (sort_by leb l) l.
  Proof. induction l as [|x r IH]; simpl; [reflexivity|]. rewrite insert_by_perm. constructor. exact IH. Qed.
  Lemma sort_by_in : forall l x, In x (sort_by leb l) <-> In x l.
  Proof. intros l x. split; apply Permutation_in; [|symmetry]; apply sort_by_perm. Qed.
End SortFacts.

(* ---------- map assignment with fresh keys ---------- *)
Lemma mset_fresh : forall m k v, existsb (fun k' => keq k' k) (map fst m) = false -> mset m k v = m ++ [(k, v)].
Proof.
  induction m as [|[k' v'] r IH]; intros k v H; simpl in *; [reflexivity|].
  apply orb_false_iff in H. destruct H as [H1 H2]. rewrite H1. rewrite IH by exact H2. reflexivity.
Qed.

Lemma keys_distinct_mid : forall a k r, keys_distinct (a ++ k :: r) = true -> existsb (fun k' => keq k' k) a = false.
Proof.
  induction a as [|k0 a IH]; intros k r H; simpl in *; [reflexivity|].
  apply andb_true_iff in H. destruct H as [H1 H2]. apply negb_true_iff in H1.
  rewrite existsb_app in H1. apply orb_false_iff in H1. destruct H1 as [_ H1]. simpl in H1.
  apply orb_false_iff in H1. destruct H1 as [H1 _]. rewrite H1. simpl. apply (IH k r H2).
Qed.

(* ---------- struct field bookkeeping ---------- *)
Definition memb (n : name) (S : list name) : bool := existsb (eqbl n) S.

Definition mix (S : list name) (zs ws : list (name * gv)) : list (name * gv) :=
  map (fun zw => (fst (fst zw), if memb (fst (fst zw)) S then snd (snd zw) else snd (fst zw))) (combine zs ws).

Lemma mix_notin : forall zs ws S n, (forall z, In z zs -> fst z <> n) -> mix (n :: S) zs ws = mix S zs ws.
Proof.
  induction zs as [|[n0 z0] zs IH]; intros ws S n H; destruct ws as [|[n1 w1] ws]; try reflexivity.
  unfold mix in *. simpl. f_equal.
  - assert (E : eqbl n0 n = false). { apply eqbl_false. apply (H (n0, z0)). left. reflexivity. }
    rewrite E. reflexivity.
  - apply IH. intros z Hz. apply H. right. exact Hz.
Qed.

Lemma names_distinct_head : forall n r, names_distinct (n :: r) = true -> ~ In n r /\ names_distinct r = true.
Proof.
  intros n r H. simpl in H. apply andb_true_iff in H. destruct H as [H1 H2]. split; [|exact H2].
  intro Hin. apply negb_true_iff in H1.
  assert (existsb (eqbl n) r = true). { apply existsb_exists. exists n. split; [exact Hin|apply eqbl_refl]. }
  congruence.
Qed.

Lemma set_mix : forall zs ws S n w,
  map fst zs = map fst ws -> names_distinct (map fst ws) = true -> In (n, w) ws ->
  set_field n w (mix S zs ws) = mix (n :: S) zs ws.
Proof.
  induction zs as [|[n0 z0] zs IH]; intros ws S n w Hn Hd Hin; destruct ws as [|[n1 w1] ws]; try discriminate Hn.
  - contradiction.
  - cbn [map fst] in Hn, Hd. inversion Hn as [[E1 E2]]. subst n1.
    apply names_distinct_head in Hd. destruct Hd as [Hni Hd].
    unfold mix. simpl. fold (mix S zs ws). fold (mix (n :: S) zs ws).
    destruct (eqbl n n0) eqn:En.
    + apply eqbl_spec in En. subst n0. rewrite eqbl_refl. simpl.
      assert (w = w1).
      { destruct Hin as [Hin|Hin]; [inversion Hin; reflexivity|].
        exfalso. apply Hni. apply (in_map fst) in Hin. exact Hin. }
      subst w1. f_equal. symmetry. apply mix_notin.
      intros z Hz Ez. apply Hni. rewrite <- E2. rewrite <- Ez. apply in_map. exact Hz.
    + rewrite eqbl_sym in En. rewrite En. simpl. f_equal.
      apply IH; [exact E2|exact Hd|].
      destruct Hin as [Hin|Hin]; [|exact Hin]. inversion Hin; subst. rewrite eqbl_refl in En. discriminate.
Qed.

Lemma mix_none : forall zs ws, map fst zs = map fst ws -> mix [] zs ws = zs.
Proof.
  induction zs as [|[n0 z0] zs IH]; intros ws H; destruct ws as [|[n1 w1] ws]; try discriminate H; [reflexivity|].
  simpl in H. inversion H. unfold mix in *. simpl. f_equal. apply IH. assumption.
Qed.

Lemma mix_all : forall zs ws S, map fst zs = map fst ws ->
  (forall nw, In nw ws -> memb (fst nw) S = true) -> mix S zs ws = ws.
Proof.
  induction zs as [|[n0 z0] zs IH]; intros ws S H Hall; destruct ws as [|[n1 w1] ws]; try discriminate H; [reflexivity|].
  simpl in H. inversion H. subst n1. unfold mix in *. simpl.
  pose proof (Hall (n0, w1) (or_introl eq_refl)) as Hm. simpl in Hm. rewrite Hm. f_equal.
  apply IH; [assumption|]. intros nw Hnw. apply Hall. right. exact Hnw.
Qed.

Lemma lookup_field_wt : forall vs fs, wt_fields vs fs -> names_distinct (map fst fs) = true ->
  forall nv, In nv vs -> exists tf, lookup_field (fst nv) fs = Some tf /\ wt tf (snd nv) = true /\ In (fst nv, tf) fs.
Proof.
  induction 1 as [|[n1 x] [n2 tf] vr fr [Hn Hw] Hrest IH]; intros Hd nv Hin; [contradiction|].
  simpl in Hn, Hw. subst n2. cbn [map fst] in Hd. apply names_distinct_head in Hd. destruct Hd as [Hni Hd].
  destruct Hin as [<-|Hin].
  - exists tf. simpl. rewrite eqbl_refl. auto.
  - destruct (IH Hd nv Hin) as [tf' [H1 [H2 H3]]]. exists tf'. simpl.
    assert (E : eqbl (fst nv) n1 = false).
    { apply eqbl_false. intro E. apply Hni. rewrite <- E. apply (in_map fst) in H3. exact H3. }
    rewrite E. auto.
Qed.

Lemma wt_fields_names : forall vs fs, wt_fields vs fs -> map fst vs = map fst fs.
Proof. induction 1 as [|nv nt vr fr [Hn _] _ IH]; simpl; congruence. Qed.

(* ---------- containers ---------- *)
Section Containers.
  Variable W : wire.
  Variable O : gopts.
  Hypothesis HW : wire_ok W.

  Lemma dec_list_rt : forall (F : item -> res gv) l,
    Forall (fun x => F (wn W (enc O x)) = Ok (norm W O x)) l ->
    dec_list F (map (wn W) (map (enc O) l)) = Ok (map (norm W O) l).
  Proof.
    induction 1 as [|x r Hx _ IH]; simpl; [reflexivity|]. rewrite Hx. simpl. rewrite IH. reflexivity.
  Qed.

  Lemma keq_norm : forall tk a b, key_ty tk = true ->
    wt tk a = true -> wt tk b = true -> key_nonnan a = true -> key_nonnan b = true ->
    keq (norm W O a) (norm W O b) = keq a b.
  Proof.
    intros tk a b Hk Ha Hb Na Nb.
    destruct tk; try discriminate Hk;
      destruct a as [?|?|?|?|?|?|[?|]|?|? ?|[?|]|?|[?|]|[?|]|?]; try discriminate Ha;
      destruct b as [?|?|?|?|?|?|[?|]|?|? ?|[?|]|?|[?|]|[?|]|?]; try discriminate Hb; try reflexivity.
    - destruct w; try discriminate Ha. simpl in Na, Nb. apply negb_true_iff in Na, Nb.
      cbn [norm keq]. apply (w_fn32_eq W HW); assumption.
    - destruct w; try discriminate Ha. simpl in Na, Nb. apply negb_true_iff in Na, Nb.
      cbn [norm keq]. apply (w_fn64_eq W HW); assumption.
  Qed.

  Definition key_fact (tk : ty) (k : gv) : Prop := wt tk k = true /\ key_nonnan k = true.

  Lemma keys_distinct_norm : forall tk ks, key_ty tk = true -> Forall (key_fact tk) ks ->
    keys_distinct (map (norm W O) ks) = keys_distinct ks.
  Proof.
    intros tk ks Hk. induction 1 as [|k r [Hw Hn] Hr IH]; simpl; [reflexivity|]. rewrite IH. f_equal. f_equal.
    clear IH. induction Hr as [|k' r' [Hw' Hn'] _ IH']; simpl; [reflexivity|]. rewrite IH'.
    rewrite (keq_norm tk) by assumption. reflexivity.
  Qed.

  Lemma dec_map_rt : forall (F G : item -> res gv) l acc,
    Forall (fun kv => F (wnk W (enc O (fst kv))) = Ok (norm W O (fst kv)) /\
                      G (wn W (enc O (snd kv))) = Ok (norm W O (snd kv))) l ->
    keys_distinct (map fst acc ++ map (fun kv => norm W O (fst kv)) l) = true ->
    dec_map F G (map (fun kv => (wnk W (fst kv), wn W (snd kv))) (map (fun kv => (enc O (fst kv), enc O (snd kv))) l)) acc
    = Ok (acc ++ map (fun kv => (norm W O (fst kv), norm W O (snd kv))) l).
  Proof.
    intros F G. induction l as [|kv r IH]; intros acc Hall Hd; simpl.
    - rewrite app_nil_r. reflexivity.
    - inversion Hall as [|? ? [Hk Hv] Hr]; subst. rewrite Hk. simpl. rewrite Hv. simpl.
      simpl in Hd. rewrite mset_fresh by (apply (keys_distinct_mid _ _ _ Hd)).
      rewrite IH.
      + rewrite <- app_assoc. reflexivity.
      + exact Hr.
      + rewrite map_app. simpl. rewrite <- app_assoc. exact Hd.
  Qed.

  Lemma dec_sarr_rt : forall (F : ty -> item -> res gv) vs fs,
    Forall2 (fun nv nt => fst nv = fst nt /\ F (snd nt) (wn W (enc O (snd nv))) = Ok (norm W O (snd nv))) vs fs ->
    dec_sarr O F (map (wn W) (map (fun nv => enc O (snd nv)) vs)) fs = Ok (map (fun nv => (fst nv, norm W O (snd nv))) vs).
  Proof.
    induction 1 as [|[n1 x] [n2 tf] vr fr [Hn Hx] _ IH]; simpl; [reflexivity|].
    simpl in Hn, Hx. subst n2. rewrite Hx. simpl. rewrite IH. reflexivity.
  Qed.

  Lemma dec_smap_rt : forall (F : ty -> item -> res gv) fs zs ws es S,
    map fst zs = map fst ws -> names_distinct (map fst ws) = true ->
    (forall e, In e es -> exists tf w,
        rd_str W (wnk W (IStr (fst e))) = Ok (fst e) /\ lookup_field (fst e) fs = Some tf /\
        F tf (wn W (snd e)) = Ok w /\ In (fst e, w) ws) ->
    dec_smap W O F fs (map (fun ne => (wnk W (IStr (fst ne)), wn W (snd ne))) es) (mix S zs ws)
    = Ok (mix (rev (map fst es) ++ S) zs ws).
  Proof.
    intros F fs zs ws es. induction es as [|e r IH]; intros S Hn Hd Hall; simpl; [reflexivity|].
    destruct (Hall e (or_introl eq_refl)) as [tf [w [H1 [H2 [H3 H4]]]]].
    rewrite H1. simpl. rewrite H2. rewrite H3. simpl.
    rewrite (set_mix zs ws S (fst e) w Hn Hd H4).
    rewrite IH; [|exact Hn|exact Hd|intros e' He'; apply Hall; right; exact He'].
    rewrite <- app_assoc. reflexivity.
  Qed.
End Containers.

Lemma Forall2_weaken_in : forall {A B} (R Q : A -> B -> Prop) l1 l2,
  Forall2 R l1 l2 -> (forall a b, In a l1 -> In b l2 -> R a b -> Q a b) -> Forall2 Q l1 l2.
Proof.
  intros A B R Q l1 l2 H. induction H as [|a b r1 r2 Hab _ IH]; intros HQ; constructor.
  - apply HQ; [left; reflexivity|left; reflexivity|exact Hab].
  - apply IH. intros a' b' Ha Hb. apply HQ; right; assumption.
Qed.

(* ---------- the generic round trip ---------- *)
Section Core.
  Variable W : wire.
  Variable O : gopts.
  Hypothesis HW : wire_ok W.

  Lemma depth_check : forall d D, (Z.of_nat d + Z.of_nat D < maxdepth O)%Z -> 1 <= D ->
    (maxdepth O <=? Z.of_nat (S d))%Z = false.
  Proof. intros d D H1 H2. apply Z.leb_gt. lia. Qed.

  Definition rt_ok (v : gv) : Prop :=
    forall t d, wt t v = true -> supported t = true -> leaves_ok W (enc O v) = true ->
      (Z.of_nat d + Z.of_nat (depth (enc O v)) < maxdepth O)%Z ->
      of_item W O d t (wn W (enc O v)) = Ok (norm W O v).

  Lemma rt_list : forall l te d,
    Forall rt_ok l -> forallb (wt te) l = true -> supported te = true ->
    leaves_ok W (IArr (map (enc O) l)) = true ->
    (Z.of_nat d + Z.of_nat (depth (IArr (map (enc O) l))) < maxdepth O)%Z ->
    dec_list (of_item W O (S d) te) (map (wn W) (map (enc O) l)) = Ok (map (norm W O) l).
  Proof.
    intros l te d IH Hwt Hs Hl Hd. apply dec_list_rt. apply Forall_forall. intros x Hx.
    rewrite Forall_forall in IH. rewrite forallb_forall in Hwt. cbn [leaves_ok] in Hl. rewrite forallb_forall in Hl.
    apply (IH x Hx); [apply Hwt; exact Hx|exact Hs|apply Hl; apply in_map; exact Hx|].
    pose proof (depth_arr_in (map (enc O) l) (enc O x) (in_map _ _ _ Hx)). lia.
  Qed.

  Theorem core_rt : forall v, rt_ok v.
  Proof.
    pose proof (w_val W HW) as Hv. pose proof (w_key W HW) as Hk.
    induction v using gv_ind'; unfold rt_ok; intros t d Hwt Hs Hl Hd.
    - (* bool *) destruct t; try discriminate Hwt. apply (scalar_rt W O _ Hv); auto.
    - destruct t; try discriminate Hwt. apply (scalar_rt W O _ Hv); auto.
    - destruct t; try discriminate Hwt; apply (scalar_rt W O _ Hv); auto.
    - destruct t; try discriminate Hwt. apply (scalar_rt W O _ Hv); auto.
    - destruct t; try discriminate Hwt. apply (scalar_rt W O _ Hv); auto.
    - destruct t; try discriminate Hwt. apply (scalar_rt W O _ Hv); auto.
    - (* []byte *)
      destruct b as [b|]; destruct t; try discriminate Hwt; rewrite of_item_bytes; cbn [enc norm] in *.
      + cbn [wt] in Hwt. destruct (w_bytes W HW b Hl Hwt) as [-> ->]. reflexivity.
      + destruct (nil_to_empty O).
        * destruct (w_bytes W HW [] Hl eq_refl) as [-> ->]. reflexivity.
        * rewrite (s_nil W _ Hv). reflexivity.
    - (* [n]byte *)
      destruct t; try discriminate Hwt. rewrite of_item_bytearray. cbn [enc norm wt] in *.
      apply andb_true_iff in Hwt. destruct Hwt as [Hn Hb]. apply Nat.eqb_eq in Hn.
      destruct (w_bytes W HW b Hl Hb) as [-> ->]. cbn [bind]. unfold fit_bytes. subst n.
      rewrite Nat.leb_refl. rewrite Nat.sub_diag. simpl. rewrite app_nil_r. reflexivity.
    - (* time *)
      destruct t; try discriminate Hwt. rewrite of_item_time. cbn [enc norm wt] in *. apply N.ltb_lt in Hwt.
      pose proof (w_time W HW s n Hl Hwt) as Ht.
      destruct (is_nil W (wn W (ITime s n))).
      + rewrite Ht. reflexivity.
      + rewrite Ht. reflexivity.
    - (* nil slice *)
      destruct t; try discriminate Hwt. cbn [enc norm] in *. destruct (nil_to_empty O).
      + rewrite (w_arr W HW). cbn [map]. rewrite (of_item_slice W O HW).
        rewrite (depth_check d _ Hd) by (simpl; lia). reflexivity.
      + apply of_item_nil. apply (s_nil W _ Hv).
    - (* slice *)
      destruct t; try discriminate Hwt. cbn [enc norm] in *. cbn [wt] in Hwt. rewrite wt_list_fix in Hwt.
      cbn [supported] in Hs. apply andb_true_iff in Hs. destruct Hs as [_ Hs].
      rewrite (w_arr W HW). rewrite (of_item_slice W O HW).
      rewrite (depth_check d _ Hd) by (simpl; lia).
      rewrite (rt_list l t d H Hwt Hs Hl Hd). reflexivity.
    - (* array *)
      destruct t; try discriminate Hwt. cbn [enc norm] in *. cbn [wt] in Hwt. rewrite wt_list_fix in Hwt.
      apply andb_true_iff in Hwt. destruct Hwt as [Hn Hwt]. apply Nat.eqb_eq in Hn.
      cbn [supported] in Hs. apply andb_true_iff in Hs. destruct Hs as [_ Hs].
      rewrite (w_arr W HW). rewrite (of_item_array W O HW).
      rewrite (depth_check d _ Hd) by (simpl; lia).
      rewrite !map_length. subst n. rewrite Nat.ltb_irrefl.
      rewrite (rt_list l t d H Hwt Hs Hl Hd). cbn [bind]. rewrite Nat.sub_diag. simpl. rewrite app_nil_r. reflexivity.
    - (* nil map *)
      destruct t; try discriminate Hwt. cbn [enc norm] in *. destruct (nil_to_empty O).
      + rewrite (w_map W HW). cbn [map]. rewrite (of_item_map W O HW).
        rewrite (depth_check d _ Hd) by (simpl; lia). reflexivity.
      + apply of_item_nil. apply (s_nil W _ Hv).
    - (* map *)
      destruct t; try discriminate Hwt. cbn [enc norm] in *. cbn [wt] in Hwt. rewrite wt_map_fix in Hwt.
      apply andb_true_iff in Hwt. destruct Hwt as [Hwt Hdist].
      cbn [supported] in Hs. apply andb_true_iff in Hs. destruct Hs as [Hkt Hs].
      rewrite (w_map W HW). rewrite (of_item_map W O HW).
      rewrite (depth_check d _ Hd) by (simpl; lia).
      rewrite forallb_forall in Hwt. rewrite Forall_forall in H.
      cbn [leaves_ok] in Hl. rewrite forallb_forall in Hl.
      rewrite (dec_map_rt W O); [reflexivity| |].
      + apply Forall_forall. intros kv Hkv.
        specialize (Hwt kv Hkv). apply andb_true_iff in Hwt. destruct Hwt as [Hwt Hwv].
        apply andb_true_iff in Hwt. destruct Hwt as [Hwk Hnn].
        specialize (Hl (enc O (fst kv), enc O (snd kv)) (in_map (fun kv => (enc O (fst kv), enc O (snd kv))) _ _ Hkv)).
        cbn [fst snd] in Hl. apply andb_true_iff in Hl. destruct Hl as [Hlk Hlv].
        split.
        * apply (scalar_rt W O _ Hk); assumption.
        * destruct (H kv Hkv) as [_ IHv]. apply IHv; try assumption.
          pose proof (depth_map_in _ _ (in_map (fun kv => (enc O (fst kv), enc O (snd kv))) _ _ Hkv)) as [_ Hdv].
          cbn [fst snd] in Hdv. lia.
      + cbn [map app]. rewrite <- (map_map fst (norm W O)).
        rewrite (keys_distinct_norm W O HW t1); [exact Hdist|exact Hkt|].
        apply Forall_forall. intros k Hin. apply in_map_iff in Hin. destruct Hin as [kv [<- Hkv]].
        specialize (Hwt kv Hkv). apply andb_true_iff in Hwt. destruct Hwt as [Hwt _].
        apply andb_true_iff in Hwt. destruct Hwt as [Hwk Hnn]. split; assumption.
    - (* nil pointer *)
      destruct t; try discriminate Hwt. cbn [enc norm] in *. apply of_item_nil. apply (s_nil W _ Hv).
    - (* pointer *)
      destruct t; try discriminate Hwt. cbn [enc norm] in *. cbn [wt supported] in Hwt, Hs.
      pose proof (nilenc_spec W O HW v t Hwt Hl) as Hn.
      destruct (nilenc W O v).
      + apply of_item_nil. exact Hn.
      + rewrite of_item_ptr by exact Hn. rewrite (IHv t d Hwt Hs Hl Hd). reflexivity.
    - (* struct *)
      destruct t as [| | | | | | | | | | | | |fts]; try discriminate Hwt.
      cbn [wt] in Hwt. apply wt_struct_fix in Hwt.
      cbn [supported] in Hs. apply andb_true_iff in Hs. destruct Hs as [Hs Hsf].
      apply andb_true_iff in Hs. destruct Hs as [Hnd Hnb]. rewrite supported_struct_fix in Hsf.
      rewrite forallb_forall in Hsf, Hnb. rewrite Forall_forall in H.
      pose proof (wt_fields_names _ _ Hwt) as Hnames.
      cbn [enc norm] in *. destruct (struct_to_array O).
      + (* as array *)
        rewrite map_map in *. cbn [snd] in *.
        rewrite (w_arr W HW). rewrite (of_item_struct_arr W O HW).
        rewrite (depth_check d _ Hd) by (simpl; lia).
        rewrite (dec_sarr_rt W O); [reflexivity|].
        cbn [leaves_ok] in Hl. rewrite forallb_forall in Hl.
        apply (Forall2_weaken_in _ _ _ _ Hwt). intros nv nt Hnv Hnt [Hn Hw]. split; [exact Hn|].
        apply (H nv Hnv); [exact Hw|apply Hsf; exact Hnt|apply Hl; apply (in_map (fun x => enc O (snd x))); exact Hnv|].
        pose proof (depth_arr_in _ _ (in_map (fun x => enc O (snd x)) _ _ Hnv)). lia.
      + (* as map *)
        remember (map (fun nv => (fst nv, enc O (snd nv))) fs) as es eqn:Ees.
        match goal with |- context [IMap (map _ ?x)] => remember x as es' eqn:Ees' in * end.
        assert (Hes : forall e, In e es' <-> In e es).
        { intro e. rewrite Ees'. destruct (canonical O); [apply sort_by_in|reflexivity]. }
        rewrite (w_map W HW). rewrite map_map. cbn [fst snd].
        rewrite (of_item_struct_map W O HW).
        rewrite (depth_check d _ Hd) by (simpl; lia).
        set (ws := map (fun nv => (fst nv, norm W O (snd nv))) fs).
        assert (Hzw : map fst (zero_fields fts) = map fst ws).
        { unfold zero_fields, ws. rewrite !map_map. cbn [fst]. change (map fst fts = map fst fs). symmetry. exact Hnames. }
        assert (Hdw : names_distinct (map fst ws) = true).
        { unfold ws. rewrite map_map. cbn [fst]. change (names_distinct (map fst fs) = true). rewrite Hnames. exact Hnd. }
        rewrite <- (mix_none (zero_fields fts) ws Hzw) at 1.
        cbn [leaves_ok] in Hl. rewrite forallb_forall in Hl.
        rewrite (dec_smap_rt W O (of_item W O (S d)) fts (zero_fields fts) ws es' [] Hzw Hdw).
        * cbn [bind]. f_equal. f_equal. apply mix_all; [exact Hzw|].
          intros nw Hnw. unfold ws in Hnw. apply in_map_iff in Hnw. destruct Hnw as [nv [<- Hnv]]. cbn [fst].
          unfold memb. apply existsb_exists. exists (fst nv). split; [|apply eqbl_refl].
          rewrite app_nil_r. rewrite <- in_rev. apply in_map_iff.
          exists (fst nv, enc O (snd nv)). split; [reflexivity|]. apply Hes. rewrite Ees. apply in_map_iff. exists nv. auto.
        * intros e He.
          pose proof (proj1 (Hes e) He) as He0. rewrite Ees in He0. apply in_map_iff in He0. destruct He0 as [nv [<- Hnv]].
          cbn [fst snd].
          destruct (lookup_field_wt _ _ Hwt Hnd nv Hnv) as [tf [Hlk [Hwf Hinf]]].
          pose proof (Hl _ (in_map (fun ne => (IStr (fst ne), snd ne)) _ _ He)) as Hle.
          cbn [fst snd] in Hle. apply andb_true_iff in Hle. destruct Hle as [Hln Hlv]. cbn [leaves_ok] in Hln.
          exists tf, (norm W O (snd nv)). split; [|split; [exact Hlk|split]].
          -- apply (s_str W _ Hk (fst nv) Hln). apply (Hnb _ Hinf).
          -- apply (H nv Hnv); [exact Hwf|apply (Hsf _ Hinf)|exact Hlv|].
             pose proof (depth_map_in _ _ (in_map (fun ne => (IStr (fst ne), snd ne)) _ _ He)) as [_ Hdv].
             cbn [fst snd] in Hdv. lia.
          -- unfold ws. apply in_map_iff. exists nv. auto.
  Qed.
End Core.

(* ---------- map iteration order ---------- *)
Lemma keq_sym : forall a b, keq a b = keq b a.
Proof.
  intros va vb.
  destruct va as [x|x|x|x|x|x|x|x|x x'|x|x|x|x|x]; destruct vb as [y|y|y|y|y|y|y|y|y y'|y|y|y|y|y]; simpl; try reflexivity.
  - destruct x, y; reflexivity.
  - apply Z.eqb_sym.
  - apply N.eqb_sym.
  - unfold feq32. rewrite (N.eqb_sym x y). destruct (nan32 x), (nan32 y); simpl; try reflexivity.
    destruct (N.eqb y x); simpl; [reflexivity|]. apply andb_comm.
  - unfold feq64. rewrite (N.eqb_sym x y). destruct (nan64 x), (nan64 y); simpl; try reflexivity.
    destruct (N.eqb y x); simpl; [reflexivity|]. apply andb_comm.
  - apply eqbl_sym.
Qed.

Lemma existsb_perm : forall {A} (f : A -> bool) l l', Permutation l l' -> existsb f l = existsb f l'.
Proof.
  intros A f l l' H. induction H; simpl; try congruence.
  destruct (f x), (f y); reflexivity.
Qed.

Lemma forallb_perm : forall {A} (f : A -> bool) l l', Permutation l l' -> forallb f l = forallb f l'.
Proof.
  intros A f l l' H. induction H; simpl; try congruence.
  destruct (f x), (f y); reflexivity.
Qed.

Lemma keys_distinct_perm : forall l l', Permutation l l' -> keys_distinct l = keys_distinct l'.
Proof.
  intros l l' H. induction H; simpl; try congruence.
  - rewrite IHPermutation. rewrite (existsb_perm _ _ _ H). reflexivity.
  - rewrite (keq_sym y x). destruct (keq x y); simpl; [reflexivity|].
    destruct (existsb (keq x) l), (existsb (keq y) l); reflexivity.
Qed.

Definition ro_list (pi : order) (p : path) : nat -> list gv -> list gv :=
  fix go (i : nat) (l : list gv) : list gv :=
    match l with [] => [] | x :: r => reorder pi (i :: p) x :: go (S i) r end.
Definition ro_map (pi : order) (p : path) : nat -> list (gv * gv) -> list (gv * gv) :=
  fix go (i : nat) (l : list (gv * gv)) : list (gv * gv) :=
    match l with [] => [] | kv :: r => (fst kv, reorder pi (i :: p) (snd kv)) :: go (S i) r end.
Definition ro_fields (pi : order) (p : path) : nat -> list (name * gv) -> list (name * gv) :=
  fix go (i : nat) (l : list (name * gv)) : list (name * gv) :=
    match l with [] => [] | nv :: r => (fst nv, reorder pi (i :: p) (snd nv)) :: go (S i) r end.

Lemma reorder_list_eq : forall pi p l, reorder pi p (GList (Some l)) = GList (Some (ro_list pi p 0 l)).
Proof. reflexivity. Qed.
Lemma reorder_arr_eq : forall pi p l, reorder pi p (GArr l) = GArr (ro_list pi p 0 l).
Proof. reflexivity. Qed.
Lemma reorder_map_eq : forall pi p l, reorder pi p (GMap (Some l)) = GMap (Some (pi p (ro_map pi p 0 l))).
Proof. reflexivity. Qed.
Lemma reorder_struct_eq : forall pi p fs, reorder pi p (GStruct fs) = GStruct (ro_fields pi p 0 fs).
Proof. reflexivity. Qed.

Section Order.
  Variable W : wire.
  Variable O : gopts.
  Variable pi : order.
  Hypothesis Hpi : order_ok pi.

  Lemma nilenc_reorder : forall v p, nilenc W O (reorder pi p v) = nilenc W O v.
  Proof.
    induction v using gv_ind'; intro p; try reflexivity.
    cbn [reorder nilenc]. apply IHv.
  Qed.

  Lemma ro_list_length : forall p l i, length (ro_list pi p i l) = length l.
  Proof. induction l as [|x r IH]; intro i; simpl; [reflexivity|]. rewrite IH. reflexivity. Qed.

  Lemma ro_list_wt : forall te p l, Forall (fun v => forall t p, wt t v = true -> wt t (reorder pi p v) = true) l ->
    forall i, forallb (wt te) l = true -> forallb (wt te) (ro_list pi p i l) = true.
  Proof.
    intros te p l H. induction H as [|x r Hx _ IH]; intros i Hwt; [reflexivity|].
    simpl in *. apply andb_true_iff in Hwt. destruct Hwt as [H1 H2]. rewrite (Hx _ _ H1). simpl. apply IH. exact H2.
  Qed.

  Lemma ro_map_fst : forall p l i, map fst (ro_map pi p i l) = map fst l.
  Proof. induction l as [|x r IH]; intro i; simpl; [reflexivity|]. rewrite IH. reflexivity. Qed.

  Lemma ro_map_wt : forall t1 t2 p l,
    Forall (fun kv : gv * gv =>
              (forall t p, wt t (fst kv) = true -> wt t (reorder pi p (fst kv)) = true) /\
              (forall t p, wt t (snd kv) = true -> wt t (reorder pi p (snd kv)) = true)) l ->
    forall i, forallb (fun kv => wt t1 (fst kv) && key_nonnan (fst kv) && wt t2 (snd kv)) l = true ->
              forallb (fun kv => wt t1 (fst kv) && key_nonnan (fst kv) && wt t2 (snd kv)) (ro_map pi p i l) = true.
  Proof.
    intros t1 t2 p l H. induction H as [|x r [_ Hx] _ IH]; intros i Hall; [reflexivity|].
    simpl in *. apply andb_true_iff in Hall. destruct Hall as [H1 H2].
    apply andb_true_iff in H1. destruct H1 as [H1 H3]. rewrite H1. rewrite (Hx _ _ H3). simpl. apply IH. exact H2.
  Qed.

  Lemma wt_reorder : forall v t p, wt t v = true -> wt t (reorder pi p v) = true.
  Proof.
    induction v using gv_ind'; intros t p Hwt; try exact Hwt.
    - (* slice *)
      destruct t; try discriminate Hwt. rewrite reorder_list_eq. cbn [wt] in *. rewrite wt_list_fix in *.
      apply ro_list_wt; assumption.
    - (* array *)
      destruct t; try discriminate Hwt. rewrite reorder_arr_eq. cbn [wt] in *. rewrite wt_list_fix in *.
      apply andb_true_iff in Hwt. destruct Hwt as [Hn Hwt]. apply andb_true_iff. split.
      + rewrite ro_list_length. exact Hn.
      + apply ro_list_wt; assumption.
    - (* map *)
      destruct t; try discriminate Hwt. rewrite reorder_map_eq. cbn [wt] in *. rewrite wt_map_fix in *.
      apply andb_true_iff in Hwt. destruct Hwt as [Hall Hd].
      rewrite (forallb_perm _ _ _ (Hpi p (ro_map pi p 0 l))). rewrite (ro_map_wt _ _ _ _ H 0 Hall). simpl.
      rewrite (keys_distinct_perm _ _ (Permutation_map fst (Hpi p (ro_map pi p 0 l)))). rewrite ro_map_fst. exact Hd.
    - (* pointer *)
      destruct t; try discriminate Hwt. cbn [reorder wt] in *. apply IHv. exact Hwt.
    - (* struct *)
      destruct t as [| | | | | | | | | | | | |fts]; try discriminate Hwt. rewrite reorder_struct_eq. cbn [wt] in *.
      revert fts Hwt. generalize 0. induction H as [|[n x] r Hx _ IH]; intros i fts Hwt; [exact Hwt|].
      destruct fts as [|[n2 tf] fr]; [discriminate Hwt|].
      cbn [fst snd ro_fields] in *. apply andb_true_iff in Hwt. destruct Hwt as [H1 H3]. apply andb_true_iff in H1. destruct H1 as [H1 H2].
      rewrite H1. rewrite (Hx _ _ H2). simpl. apply IH. exact H3.
  Qed.

  Lemma veq_norm_reorder : forall v p, veq (norm W O (reorder pi p v)) (norm W O v).
  Proof.
    induction v using gv_ind'; intro p; try apply veq_refl.
    - (* slice *)
      rewrite reorder_list_eq. cbn [norm]. apply veq_list. generalize 0.
      induction H as [|x r Hx _ IH]; intro i; simpl; constructor; [apply Hx|apply IH].
    - rewrite reorder_arr_eq. cbn [norm]. apply veq_arr. generalize 0.
      induction H as [|x r Hx _ IH]; intro i; simpl; constructor; [apply Hx|apply IH].
    - (* map *)
      rewrite reorder_map_eq. cbn [norm].
      apply veq_map with (m := map (fun kv => (norm W O (fst kv), norm W O (snd kv))) (ro_map pi p 0 l)).
      + apply Permutation_map. apply Hpi.
      + generalize 0. induction H as [|x r [_ Hx] _ IH]; intro i; simpl; constructor.
        * split; [apply veq_refl|apply Hx].
        * apply IH.
    - (* pointer *)
      cbn [reorder norm]. rewrite nilenc_reorder. destruct (nilenc W O v); [apply veq_refl|].
      apply veq_ptr. apply IHv.
    - (* struct *)
      rewrite reorder_struct_eq. cbn [norm]. apply veq_struct. generalize 0.
      induction H as [|x r Hx _ IH]; intro i; simpl; constructor; [split; [reflexivity|apply Hx]|apply IH].
  Qed.
End Order.

Lemma ksort_ok : order_ok (fun _ l => ksort l).
Proof. intros p l. apply sort_by_perm. Qed.

(* ---------- the theorem ---------- *)
Theorem generic_roundtrip : forall (W : wire) (O : gopts) (pi : order) (t : ty) (v : gv),
  wire_ok W -> order_ok pi ->
  wt t v = true -> supported t = true -> leaves_ok W (to_item O pi v) = true ->
  (Z.of_nat (depth (to_item O pi v)) < maxdepth O)%Z ->
  of_item W O 0 t (wn W (to_item O pi v)) = Ok (norm W O (arrange O pi v)) /\
  veq (norm W O (arrange O pi v)) (norm W O v).
Proof.
  intros W O pi t v HW Hpi Hwt Hs Hl Hd. unfold to_item, arrange in *.
  assert (Hpi' : order_ok (if canonical O then fun _ l => ksort l else pi)).
  { destruct (canonical O); [apply ksort_ok|exact Hpi]. }
  split.
  - apply (core_rt W O HW); [apply wt_reorder; assumption|exact Hs|exact Hl|]. simpl. exact Hd.
  - apply veq_norm_reorder. exact Hpi'.
Qed.

(* ---------- the losses, explicitly ---------- *)
Lemma nilenc_L : forall W O v, nilenc W O v = nilencL (losses_of W) O v.
Proof. reflexivity. Qed.

Lemma norm_L : forall W O v, norm W O v = normL (losses_of W) O v.
Proof. reflexivity. Qed.

Lemma nilencL_ext : forall A B O, same_losses A B -> forall v, nilencL A O v = nilencL B O v.
Proof.
  intros A B O [_ [_ [_ H4]]]. induction v using gv_ind'; try reflexivity.
  - cbn [nilencL]. apply H4.
  - cbn [nilencL]. exact IHv.
Qed.

Lemma normL_ext : forall A B O, same_losses A B -> forall v, normL A O v = normL B O v.
Proof.
  intros A B O HS. pose proof HS as [H1 [H2 [H3 H4]]]. induction v using gv_ind'; try reflexivity.
  - cbn [normL]. rewrite H1. reflexivity.
  - cbn [normL]. rewrite H2. reflexivity.
  - cbn [normL]. rewrite H3. reflexivity.
  - cbn [normL]. do 2 f_equal. induction H as [|x r Hx _ IH]; simpl; congruence.
  - cbn [normL]. f_equal. induction H as [|x r Hx _ IH]; simpl; congruence.
  - cbn [normL]. do 2 f_equal. induction H as [|x r [Hk Hx] _ IH]; simpl; congruence.
  - cbn [normL]. rewrite (nilencL_ext A B O HS). rewrite IHv. reflexivity.
  - cbn [normL]. f_equal. induction H as [|x r Hx _ IH]; simpl; congruence.
Qed.

(* the round trip with a format's documented losses spelled out *)
Theorem roundtrip_losses : forall (L : losses) (W : wire) (O : gopts) (pi : order) (t : ty) (v : gv),
  wire_ok W -> same_losses (losses_of W) L -> order_ok pi ->
  wt t v = true -> supported t = true -> leaves_ok W (to_item O pi v) = true ->
  (Z.of_nat (depth (to_item O pi v)) < maxdepth O)%Z ->
  of_item W O 0 t (wn W (to_item O pi v)) = Ok (normL L O (arrange O pi v)) /\
  veq (normL L O (arrange O pi v)) (normL L O v).
Proof.
  intros L W O pi t v HW HL Hpi Hwt Hs Hl Hd.
  destruct (generic_roundtrip W O pi t v HW Hpi Hwt Hs Hl Hd) as [H1 H2].
  split.
  - rewrite H1. rewrite norm_L. rewrite (normL_ext _ _ O HL). reflexivity.
  - rewrite <- (normL_ext _ _ O HL (arrange O pi v)). rewrite <- (normL_ext _ _ O HL v). exact H2.
Qed.

(* ---------- the interface is satisfiable ---------- *)
Lemma id_wire_ok : wire_ok id_wire.
Proof.
  assert (Hs : scalar_ok id_wire (fun i => i)).
  { constructor; intros; simpl; try (split; reflexivity); try reflexivity. }
  constructor; try exact Hs; intros; simpl; try reflexivity; try (split; reflexivity).
  - f_equal. symmetry. apply map_id.
  - f_equal. symmetry. rewrite <- (map_id l) at 2. apply map_ext. intros [a b]. reflexivity.
Qed.

Lemma cb_wire_ok : wire_ok cb_wire.
Proof.
  assert (Hs : scalar_ok cb_wire cb_wn).
  { constructor; intros; simpl; try (split; reflexivity); try reflexivity.
    destruct (0 <=? z)%Z eqn:E; simpl; [|split; reflexivity].
    apply Z.leb_le in E. split; [reflexivity|].
    assert (Hlt : (Z.to_N z <? 2 ^ 63)%N = true). { apply N.ltb_lt. change (2 ^ 63)%N with (Z.to_N (2 ^ 63)). apply Z2N.inj_lt; lia. }
    change (N.pos (2 ^ 63)) with (2 ^ 63)%N. rewrite Hlt. rewrite Z2N.id by lia. reflexivity. }
  constructor; try exact Hs; intros; simpl; try reflexivity; try (split; reflexivity).
  unfold is_time_zero. destruct (Z.eqb s time_zero_sec && N.eqb n 0) eqn:E; simpl.
  - apply andb_true_iff in E. destruct E as [E1 E2]. apply Z.eqb_eq in E1. apply N.eqb_eq in E2. subst. reflexivity.
  - destruct (round_us s n). reflexivity.
Qed.

Lemma cb_wire_losses : same_losses (losses_of cb_wire) cbor_losses.
Proof.
  repeat apply conj; intros; simpl; try reflexivity.
  destruct (is_time_zero s n); reflexivity.
Qed.

Lemma id_wire_losses : same_losses (losses_of id_wire)
                                   (mklosses (fun b => b) (fun b => b) (fun s n => (s, n)) (fun _ _ => false)).
Proof. repeat apply conj; intros; reflexivity. Qed.

Lemma cb_leaves_ok : forall i, leaves_ok cb_wire i = true.
Proof.
  induction i using item_ind'; try reflexivity.
  - cbn [leaves_ok]. apply forallb_forall. rewrite Forall_forall in H. exact H.
  - cbn [leaves_ok]. apply forallb_forall. rewrite Forall_forall in H. intros kv Hkv.
    destruct (H kv Hkv) as [H1 H2]. rewrite H1, H2. reflexivity.
  - cbn [leaves_ok]. exact IHi.
Qed.

Lemma cbwire_roundtrip : forall (O : gopts) (pi : order) (t : ty) (v : gv),
  order_ok pi -> wt t v = true -> supported t = true ->
  (Z.of_nat (depth (to_item O pi v)) < maxdepth O)%Z ->
  of_item cb_wire O 0 t (cb_wn (to_item O pi v)) = Ok (normL cbor_losses O (arrange O pi v)) /\
  veq (normL cbor_losses O (arrange O pi v)) (normL cbor_losses O v).
Proof.
  intros O pi t v Hpi Hwt Hs Hd.
  apply (roundtrip_losses cbor_losses cb_wire O pi t v cb_wire_ok cb_wire_losses Hpi Hwt Hs (cb_leaves_ok _) Hd).
Qed.

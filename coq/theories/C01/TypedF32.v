(* C01/TypedF32 — float32 DESTINATIONS: DecodeFloat32 of the four binary drivers is
       float32(chkOvf.Float32V(d.DecodeFloat64()))
   (C07/Model.v [narrow_f32]: checkOverflow.Float32V, translated from the source, then CVTSD2SS
   [FBits.f64_to_f32], round to nearest even).  On the bytes the encoder writes for a float32
   item [IF32 b] (not a signalling NaN: the leaf premise) the byte-level read returns exactly what
   the driver records' [rd_f32] = [unwiden] returns on the normalised item: the widened float32
   passes the overflow check and narrows back without rounding, bit for bit (quiet NaN payloads
   included).

   Core: [narrow_widen]  narrow_f32 (Ok (widen b)) = Ok b.  The narrowing of a non-NaN is C07's
   [f32_roundtrip] (C07/ProofsFloat.v); the overflow check and the NaN case are proved here. *)
From Coq Require Import List NArith ZArith Bool Lia.
From Coq Require Import ZifyN ZifyNat ZifyBool.
From Verif Require Import Base.Word Base.Outcome Base.FBits Gen.Consts Gen.Leaf Wire.Item Generic.Types Generic.Enc Generic.Dec.
From Verif Require Import C01.Model C01.Proofs C01.ComposeFloat C01.ComposeSimple C01.ComposeMsgpack C01.ComposeCbor C01.ComposeBinc C01.ComposeTyped.
From Verif Require Import C01.TypedCbor C01.TypedBinc.
From Verif Require C07.Model C07.ProofsFloat.
Import ListNotations.
Open Scope bool_scope.

Ltac Zify.zify_post_hook ::= Z.div_mod_to_equations.

Module PF := Verif.C07.ProofsFloat.

(* ---- the bits of a widened float32: magnitude at most MaxFloat32, or infinity, or a NaN ---- *)
Section Bits.
Open Scope N_scope.
Lemma widen_c_abs : forall b, b < 2 ^ 32 ->
  let a := widen_c b mod 2 ^ 63 in
  widen_c b < 2 ^ 64 /\ (a <= 5183643170566569984 \/ 2047 * 2 ^ 52 <= a).
Proof.
  intros b Hb. cbv zeta. unfold widen_c.
  set (s := b / 2 ^ 31). set (e := (b / 2 ^ 23) mod 256). set (m := b mod 2 ^ 23).
  assert (Hs : s <= 1) by (unfold s; pows; lia).
  assert (He : e < 256) by (unfold e; lia).
  assert (Hm : m < 2 ^ 23) by (unfold m; pows; lia).
  clearbody s e m.
  destruct (N.eqb_spec e 255) as [E255|E255].
  - destruct (N.eqb_spec m 0); pows; split; try lia; right; lia.
  - destruct (N.eqb_spec e 0) as [E0|E0].
    + destruct (N.eqb_spec m 0) as [M0|M0]; [pows; split; [lia|left; lia]|].
      cbv zeta.
      pose proof (N.log2_spec m ltac:(lia)) as [Hk1 Hk2]. set (k := N.log2 m) in *.
      assert (Hk : k <= 22).
      { assert (k < 23); [|lia]. apply (N.pow_lt_mono_r_iff 2); [lia|]. eapply N.le_lt_trans; [exact Hk1|exact Hm]. }
      assert (Hp : 2 ^ k * 2 ^ (52 - k) = 2 ^ 52) by (rewrite <- N.pow_add_r; f_equal; lia).
      assert (Hpk : 2 ^ (52 - k) <> 0) by (apply N.pow_nonzero; lia).
      set (f := (m - 2 ^ k) * 2 ^ (52 - k)).
      assert (Hf : f < 2 ^ 52).
      { unfold f. rewrite <- Hp. apply N.mul_lt_mono_pos_r; [lia|]. rewrite N.pow_succ_r' in Hk2. lia. }
      clearbody f. clear Hp Hpk Hk1 Hk2. clearbody k. revert Hf. pows. intro Hf. split; [lia|left; lia].
    + pows. split; [lia|left; lia].
Qed.
End Bits.

Open Scope Z_scope.

Ltac closed_cmp :=
  repeat match goal with
         | |- context [Z.ltb ?a ?c] =>
             let r := eval vm_compute in (Z.ltb a c) in
             match r with true => change (Z.ltb a c) with true | false => change (Z.ltb a c) with false end
         | |- context [Z.leb ?a ?c] =>
             let r := eval vm_compute in (Z.leb a c) in
             match r with true => change (Z.leb a c) with true | false => change (Z.leb a c) with false end
         end; cbv iota.

(* chkOvf.Float32: overflow iff the magnitude is finite and above MaxFloat32 *)
Lemma ovf_f32_abs : forall X, 0 <= X < 2 ^ 64 ->
  X mod 2 ^ 63 <= 5183643170566569984 \/ 2047 * 2 ^ 52 <= X mod 2 ^ 63 ->
  checkOverflow_Float32 X = false.
Proof.
  intros X HX HA. change (2 ^ 64) with 18446744073709551616 in HX. change (2 ^ 63) with 9223372036854775808 in HA.
  change (2047 * 2 ^ 52) with 9218868437227405312 in HA.
  unfold checkOverflow_Float32, f64_lt, f64_le.
  change (f64_isnan 0) with false. change (f64_key 0) with 0.
  change (f64_isnan 5183643170566569984) with false. change (f64_key 5183643170566569984) with 5183643170566569984.
  change (f64_isnan 9218868437227405311) with false. change (f64_key 9218868437227405311) with 9218868437227405311.
  cbn [negb andb].
  destruct (Z.ltb_spec X 9223372036854775808) as [P|P].
  - (* sign bit clear *)
    assert (Ek : f64_key X = X) by (unfold f64_key; change (2 ^ 63) with 9223372036854775808; destruct (Z.ltb_spec X 9223372036854775808); [reflexivity|lia]).
    assert (Ea : X mod 9223372036854775808 = X) by (apply Z.mod_small; lia).
    assert (En : f64_isnan X = (9218868437227405312 <? X)) by (unfold f64_isnan, f64_abs, f64_inf; change (2 ^ 63) with 9223372036854775808; rewrite Ea; reflexivity).
    rewrite Ek, En. rewrite Ea in HA.
    destruct (Z.ltb_spec X 0); [lia|]. rewrite andb_false_r. cbv iota. rewrite andb_true_r.
    destruct (Z.ltb_spec 9218868437227405312 X); cbn [negb andb]; [reflexivity|].
    destruct (Z.ltb_spec 5183643170566569984 X); [|reflexivity].
    destruct (Z.leb_spec X 9218868437227405311); [lia|reflexivity].
  - (* sign bit set: X = 2^63 + a *)
    set (a := X - 9223372036854775808). assert (Ha : 0 <= a < 9223372036854775808) by (unfold a; lia).
    assert (EX : X = 9223372036854775808 + a) by (unfold a; lia).
    assert (Ea : X mod 9223372036854775808 = a) by (rewrite EX; symmetry; apply (Z.mod_unique _ _ 1); lia).
    rewrite Ea in HA.
    assert (Ek : f64_key X = - a) by (unfold f64_key; change (2 ^ 63) with 9223372036854775808; destruct (Z.ltb_spec X 9223372036854775808); [lia|reflexivity]).
    assert (En : f64_isnan X = (9218868437227405312 <? a)) by (unfold f64_isnan, f64_abs, f64_inf; change (2 ^ 63) with 9223372036854775808; rewrite Ea; reflexivity).
    assert (Eg : f64_neg X = a) by (unfold f64_neg; change (2 ^ 63) with 9223372036854775808; destruct (Z.ltb_spec X 9223372036854775808); [lia|reflexivity]).
    assert (Eka : f64_key a = a) by (unfold f64_key; change (2 ^ 63) with 9223372036854775808; destruct (Z.ltb_spec a 9223372036854775808); [reflexivity|lia]).
    assert (Ena : f64_isnan a = (9218868437227405312 <? a)).
    { unfold f64_isnan, f64_abs, f64_inf. change (2 ^ 63) with 9223372036854775808. rewrite Z.mod_small by lia. reflexivity. }
    rewrite Ek, En, Eg, Eka, Ena. clearbody a. clear EX Ea Ek En Eg Eka Ena P HX.
    destruct (Z.ltb_spec 9218868437227405312 a); cbn [negb andb].
    + destruct (Z.ltb_spec 5183643170566569984 (- a)); [lia|reflexivity].
    + destruct (Z.ltb_spec (- a) 0).
      * destruct (Z.ltb_spec 5183643170566569984 a); [|reflexivity]. destruct (Z.leb_spec a 9218868437227405311); [lia|reflexivity].
      * destruct (Z.ltb_spec 5183643170566569984 (- a)); [lia|reflexivity].
Qed.

Lemma ovf_f32_widen : forall b, (b < 2 ^ 32)%N -> checkOverflow_Float32 (Z.of_N (widen_c b)) = false.
Proof.
  intros b Hb. destruct (widen_c_abs b Hb) as [Hlt Ha]. cbv zeta in Ha.
  set (x := widen_c b) in *. clearbody x.
  change (2 ^ 64)%N with 18446744073709551616%N in Hlt. change (2 ^ 63)%N with 9223372036854775808%N in Ha.
  change (2047 * 2 ^ 52)%N with 9218868437227405312%N in Ha.
  apply ovf_f32_abs.
  - change (2 ^ 64) with 18446744073709551616. lia.
  - change (2 ^ 63) with (Z.of_N 9223372036854775808). rewrite <- N2Z.inj_mod.
    set (a := (x mod 9223372036854775808)%N) in *. clearbody a. change (2047 * 2 ^ 52) with 9218868437227405312.
    destruct Ha as [Ha|Ha]; [left|right]; lia.
Qed.

(* CVTSD2SS of a widened quiet NaN: the payload comes back *)
Lemma f32_roundtrip_qnan : forall B, 0 <= B < 2 ^ 32 -> f32_isnan B = true -> (B / 2 ^ 22) mod 2 = 1 ->
  f64_to_f32 (f32_to_f64 B) = B.
Proof.
  intros B HB Hn Hq. unfold f32_to_f64. rewrite Hn.
  unfold f32_isnan, f32_abs, f32_inf in Hn. apply Z.ltb_lt in Hn.
  unfold f32_sign, f32_mant, f64_inf.
  set (s := B / 2 ^ 31). set (m := B mod 2 ^ 23).
  assert (Hdec : B = s * 2 ^ 31 + 255 * 2 ^ 23 + m /\ 0 <= s <= 1 /\ 2 ^ 22 <= m < 2 ^ 23).
  { unfold s, m. zpows. zpows. lia. }
  destruct Hdec as (Hdec & Hs & Hm).
  set (r := (m * 2 ^ 29) mod 2 ^ 51).
  assert (Hr : r = (m - 2 ^ 22) * 2 ^ 29) by (unfold r; zpows; lia).
  set (Y := s * 2 ^ 63 + 2047 * 2 ^ 52 + 2 ^ 51 + r).
  assert (HY : Y / 2 ^ 63 = s /\ Y mod 2 ^ 63 = 2047 * 2 ^ 52 + 2 ^ 51 + r /\ Y mod 2 ^ 52 = 2 ^ 51 + r).
  { unfold Y. rewrite Hr. zpows. lia. }
  destruct HY as (Y1 & Y2 & Y3).
  unfold f64_to_f32, f64_isnan, f64_abs, f64_sign, f64_mant, f64_inf, f32_inf. rewrite Y1, Y2, Y3.
  destruct (Z.ltb_spec (2047 * 2 ^ 52) (2047 * 2 ^ 52 + 2 ^ 51 + r)) as [_|C]; [|rewrite Hr in C; zpows; lia].
  rewrite Hr. clearbody s m. clear r Hr Y Y1 Y2 Y3 Hn Hq. subst B. zpows. lia.
Qed.

Lemma nan32_Z : forall b, (b < 2 ^ 32)%N -> f32_isnan (Z.of_N b) = nan32 b.
Proof.
  intros b Hb. unfold f32_isnan, f32_abs, f32_inf, nan32.
  change (2 ^ 32)%N with 4294967296%N in Hb. change (2 ^ 31)%N with 2147483648%N. change (255 * 2 ^ 23)%N with 2139095040%N.
  zpows. destruct (Z.ltb_spec 2139095040 (Z.of_N b mod 2147483648)); destruct (N.ltb_spec 2139095040 (b mod 2147483648)); try reflexivity; lia.
Qed.

(* the core: DecodeFloat32 on a widened float32 *)
Theorem narrow_widen : forall b, (b < 2 ^ 32)%N -> snan32 b = false ->
  T.narrow_f32 (Ok (f32_to_f64 (Z.of_N b))) = Ok (Z.of_N b).
Proof.
  intros b Hb Hs. unfold T.narrow_f32. cbn [bind]. unfold checkOverflow_Float32V.
  rewrite fbits_widen by exact Hb. rewrite ovf_f32_widen by exact Hb. cbn [bind]. f_equal.
  rewrite <- fbits_widen by exact Hb.
  assert (HB : 0 <= Z.of_N b < 2 ^ 32) by (change (2 ^ 32)%N with 4294967296%N in Hb; zpows; lia).
  destruct (nan32 b) eqn:En.
  - apply f32_roundtrip_qnan; [exact HB|rewrite nan32_Z by exact Hb; exact En|].
    unfold snan32 in Hs. rewrite En in Hs. cbn [andb] in Hs. apply N.eqb_neq in Hs.
    change (2 ^ 22)%N with 4194304%N in Hs. zpows. lia.
  - apply PF.f32_roundtrip; [exact HB|rewrite nan32_Z by exact Hb; exact En].
Qed.

(* DecodeFloat32 = the generic narrowing of DecodeFloat64's answer *)
Lemma decode_f32_of_f64 : forall d bs x, T.decode d T.KFloat64 bs = Ok x ->
  T.decode d T.KFloat32 bs = T.narrow_f32 (Ok x).
Proof. intros d bs x H. destruct bs as [|bd r]; [discriminate|]. cbn [T.decode] in *. rewrite H. reflexivity. Qed.

(* the item side: a driver record whose rd_f32 is [unwiden] on a float64 item *)
Lemma typed_f32_item : forall W O b, (b < 2 ^ 32)%N -> snan32 b = false ->
  is_nil W (IF64 (widen_c b)) = false -> rd_f32 W (IF64 (widen_c b)) = unwiden (widen_c b) ->
  typed W O T.KFloat32 (IF64 (widen_c b)) = Ok (Z.of_N b).
Proof.
  intros W O b Hb Hs Hn Hr. unfold typed. rewrite of_item_scalar by reflexivity. rewrite Hn.
  cbn [ty_of]. rewrite Hr. rewrite unwiden_widen by assumption. reflexivity.
Qed.

(* ---- the four formats: a float32 item into a float32 destination ---- *)
Theorem msgpack_typed_f32 : forall Of D O b rest, (b < 2 ^ 32)%N -> leaf_ok (W_msgpack Of D) (IF32 b) = true ->
  T.decode T.msgpack T.KFloat32 (zb (M.enc Of (IF32 b) ++ rest)) = typed (W_msgpack Of D) O T.KFloat32 (wn (W_msgpack Of D) (IF32 b)).
Proof.
  intros Of D O b rest Hb Hl. cbn [leaf_ok W_msgpack m_leaf_ok] in Hl. apply negb_true_iff in Hl.
  assert (E : T.decode T.msgpack T.KFloat64 (zb (M.enc Of (IF32 b) ++ rest)) = Ok (f32_to_f64 (Z.of_N b))).
  { cbn [M.enc]. change (zb ((M.bFloat :: M.be_put 4 b) ++ rest)) with (Z.of_N M.bFloat :: zb (M.be_put 4 b ++ rest)).
    cbn [T.decode T.dFloat64 T.msgpack]. unfold T.mp_Float64, T.mp_nil. closed_tests. rewrite mp_readv by exact Hb. reflexivity. }
  rewrite (decode_f32_of_f64 _ _ _ E). rewrite narrow_widen by assumption.
  cbn [wn W_msgpack]. unfold m_wn. cbn [MR.norm]. rewrite msgpack_widen by exact Hb.
  symmetry. apply typed_f32_item; try assumption; reflexivity.
Qed.

Theorem simple_typed_f32 : forall o D O key b rest, (b < 2 ^ 32)%N -> leaf_ok (W_simple o D) (IF32 b) = true ->
  T.decode T.simple T.KFloat32 (zb (S.enc o key (IF32 b) ++ rest)) = typed (W_simple o D) O T.KFloat32 (wn (W_simple o D) (IF32 b)).
Proof.
  intros o D O key b rest Hb Hl. cbn [leaf_ok W_simple s_leaf_ok] in Hl. apply andb_true_iff in Hl. destruct Hl as [Hz Hs].
  apply negb_true_iff in Hz. apply negb_true_iff in Hs.
  assert (Ez : S.zeroAsNil o && negb key && S.f32zero b = false) by (destruct (S.zeroAsNil o); [cbn [andb] in *; rewrite Hz; apply andb_false_r|reflexivity]).
  assert (E : T.decode T.simple T.KFloat64 (zb (S.enc o key (IF32 b) ++ rest)) = Ok (f32_to_f64 (Z.of_N b))).
  { cbn [S.enc]. rewrite Ez.
    change (zb ((S.vd simpleVdFloat32 :: S.be_put 4 b) ++ rest)) with (Z.of_N (S.vd simpleVdFloat32) :: zb (S.be_put 4 b ++ rest)).
    cbn [T.decode T.dFloat64 T.simple]. unfold T.simple_Float64, T.simple_nil, T.simple_decFloat. closed_tests.
    rewrite s_readv by exact Hb. reflexivity. }
  rewrite (decode_f32_of_f64 _ _ _ E). rewrite narrow_widen by assumption.
  cbn [wn W_simple]. unfold s_wn. cbn [S.norm negb]. rewrite andb_true_r. rewrite Hz. rewrite simple_widen by exact Hb.
  symmetry. apply typed_f32_item; try assumption; reflexivity.
Qed.

Theorem cbor_typed_f32 : forall Oc D O b rest, (b < 2 ^ 32)%N -> leaf_ok (W_cbor Oc D) (IF32 b) = true ->
  T.decode T.cbor T.KFloat32 (zb (CB.enc Oc (IF32 b) ++ rest)) = typed (W_cbor Oc D) O T.KFloat32 (wn (W_cbor Oc D) (IF32 b)).
Proof.
  intros Oc D O b rest Hb Hl. cbn [leaf_ok W_cbor c_leaf_ok] in Hl. apply negb_true_iff in Hl.
  pose proof (c_f32_bytes Oc b rest Hb) as E. cbn [CB.enc]. rewrite <- fbits_widen in E by exact Hb.
  rewrite (decode_f32_of_f64 _ _ _ E). rewrite narrow_widen by assumption.
  cbn [wn W_cbor]. unfold c_wn, CE.norm. cbn [CE.sdata_of CC.go_of].
  change (32 =? 16)%N with false. change (32 =? 32)%N with true. cbv iota. rewrite cbor_widen by exact Hb.
  symmetry. apply typed_f32_item; try assumption; reflexivity.
Qed.

(* binc: the float32 comes back as [binc_fn32 b] (one zero, one NaN: binc_losses); no leaf premise *)
Theorem binc_typed_f32 : forall e d O key est b rest, (b < 2 ^ 32)%N ->
  T.decode T.binc T.KFloat32 (zb (fst (B.enc e key (IF32 b) est) ++ rest)) = typed (W_binc e d) O T.KFloat32 (wn (W_binc e d) (IF32 b)).
Proof.
  intros e d O key est b rest Hb. cbn [B.enc fst wn W_binc]. unfold b_wn. cbn [B.norm].
  destruct (b_f32_bytes b rest Hb) as (y & Hy & Hd). rewrite (decode_f32_of_f64 _ _ _ Hd). rewrite Hy.
  destruct (binc_f32_norm b Hb) as (x & Hx & Hu). rewrite Hx in Hy. inversion Hy; subst y.
  unfold typed. rewrite of_item_scalar by reflexivity. cbn [is_nil W_binc item_is_nil ty_of rd_f32 b_rd_f32]. rewrite Hu. cbn [bind zval].
  (* the byte side: x is the widening of binc_fn32 b, or the canonical zero / NaN *)
  destruct (N.eqb_spec (b mod 2 ^ 31) 0) as [Z|Z].
  - assert (Eb : b = 0%N \/ b = (2 ^ 31)%N) by (revert Hb Z; pows; lia).
    assert (Ex : x = 0%N) by (destruct Eb as [-> | ->]; vm_compute in Hx; inversion Hx; reflexivity).
    subst x. unfold binc_fn32. destruct (N.eqb_spec (b mod 2 ^ 31) 0); [|contradiction]. vm_compute. reflexivity.
  - destruct (nan32 b) eqn:En.
    + rewrite (proj2 (binc_f32_widen b Hb) En) in Hx. vm_compute in Hx. inversion Hx; subst x.
      unfold binc_fn32. destruct (N.eqb_spec (b mod 2 ^ 31) 0); [contradiction|]. rewrite En. vm_compute. reflexivity.
    + rewrite (proj1 (binc_f32_widen b Hb) En) in Hx.
      assert (Hs : snan32 b = false) by (unfold snan32; rewrite En; reflexivity).
      assert (Ex : x = widen_c b).
      { unfold B.norm_f64 in Hx. destruct (B.f64_is_zero (widen_c b)) eqn:Ez.
        - exfalso. pose proof (unwiden_widen b Hb Hs) as Hw. unfold B.f64_is_zero in Ez. apply orb_true_iff in Ez.
          destruct Ez as [Ez|Ez]; apply N.eqb_eq in Ez; rewrite Ez in Hw; vm_compute in Hw; inversion Hw; subst b; apply Z; reflexivity.
        - unfold B.f64_canon in Hx. destruct (B.f64_is_nan (widen_c b)) eqn:Enn; [|inversion Hx; reflexivity].
          exfalso. destruct (unwiden_nan _ Enn) as [r [Hr1 Hr2]]. rewrite (unwiden_widen b Hb Hs) in Hr1. inversion Hr1; subst r. congruence. }
      subst x. rewrite <- fbits_widen by exact Hb. rewrite narrow_widen by assumption.
      unfold binc_fn32. destruct (N.eqb_spec (b mod 2 ^ 31) 0); [contradiction|]. rewrite En. reflexivity.
Qed.

(* ---- the statement exported to Properties/C01_compose.v ---- *)
Lemma typed_reads_f32 :
  (forall Of D O b rest, (b < 2 ^ 32)%N -> leaf_ok (W_msgpack Of D) (IF32 b) = true ->
     T.decode T.msgpack T.KFloat32 (zb (M.enc Of (IF32 b) ++ rest)) = typed (W_msgpack Of D) O T.KFloat32 (wn (W_msgpack Of D) (IF32 b))) /\
  (forall o D O key b rest, (b < 2 ^ 32)%N -> leaf_ok (W_simple o D) (IF32 b) = true ->
     T.decode T.simple T.KFloat32 (zb (S.enc o key (IF32 b) ++ rest)) = typed (W_simple o D) O T.KFloat32 (wn (W_simple o D) (IF32 b))) /\
  (forall Oc D O b rest, (b < 2 ^ 32)%N -> leaf_ok (W_cbor Oc D) (IF32 b) = true ->
     T.decode T.cbor T.KFloat32 (zb (CB.enc Oc (IF32 b) ++ rest)) = typed (W_cbor Oc D) O T.KFloat32 (wn (W_cbor Oc D) (IF32 b))) /\
  (forall e d O key est b rest, (b < 2 ^ 32)%N ->
     T.decode T.binc T.KFloat32 (zb (fst (B.enc e key (IF32 b) est) ++ rest)) = typed (W_binc e d) O T.KFloat32 (wn (W_binc e d) (IF32 b))).
Proof.
  repeat apply conj.
  - exact msgpack_typed_f32.
  - exact simple_typed_f32.
  - exact cbor_typed_f32.
  - exact binc_typed_f32.
Qed.

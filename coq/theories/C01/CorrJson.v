(* C01 -- correspondence of the json driver record [W_json]'s typed reads with the real
   json Decoder, on the cases harness/cmd/c01json ran.

   For each case (generic options, static type) the harness encoded a random value with the
   real json Encoder under a random JsonHandle option vector, decoded that TEXT with the real
   Decoder into new(T) ([jdec]), and recorded what the real parseFloat64 makes of every number
   token / quoted number in the text ([jtab], the only leaf the typed side reads from a table;
   strings go through the C09 model of dblQuoteStringAsBytes, integers through
   parseUint64_simple).  The model must reproduce [jdec]:
       text --Json.dec_naked (all naked options off)--> item --of_item (W_json ..)--> value.
   This ties the hand-transcribed [j_rd_*] (C01/ComposeJson.v) -- DecodeBool / Int64 / Uint64 /
   Float64 / Float32 (narrowing of the float64 reading against the real parseFloat32) /
   StringAsBytes / Bytes (base64) / Time (RFC 3339) -- and the container walk to the
   implementation by evaluation.  The typed reads do not depend on the encoder options, so
   the record is taken at a fixed [eopts]. *)
From Coq Require Import List NArith ZArith Bool.
From Verif Require Import Base.Outcome Wire.Item Generic.Types Generic.Enc Generic.Dec C01.Model C01.ComposeJson.
From Verif Require Wire.Json.
Import ListNotations.
Open Scope bool_scope.

Record jcase := mkjcase {
  jid : N;
  jopts : gopts;
  jty : ty;
  jtext : list N;             (* what the real encoder wrote *)
  jtab : Json.tables;         (* t_pf: number text -> bits the real parseFloat64 returned *)
  jdec : gv }.                (* what the real decoder produced from that text *)

Definition jD0 (O : gopts) : Json.dopts := Json.mkdopts false false false false (max_depth O).
Definition jo0 : Json.eopts := Json.mkeopts 0 0 false false false false false.

Definition jmodel (c : jcase) : res gv :=
  let L := Json.c09_leaf (jtab c) in
  match Json.dec_naked L (jD0 (jopts c)) (Json.dec_fuel (Json.st0 (jtext c))) (jtext c) with
  | Ok (i, _) => of_item (W_json L jo0 (jD0 (jopts c))) (jopts c) 0 (jty c) i
  | Err e => Err e
  | OutOfFuel => OutOfFuel
  end.

Definition jcheck_case (c : jcase) : bool :=
  supported (jty c) && wt (jty c) (jdec c) &&
  match jmodel c with Ok w => veqb w (jdec c) | _ => false end.

Definition jmismatches (cs : list jcase) : list N :=
  map jid (filter (fun c => negb (jcheck_case c)) cs).

(* for debugging a mismatch: 1 = typing, 2 = the model answered an error, 4 = a different value *)
Definition jwhy (c : jcase) : N :=
  ((if supported (jty c) && wt (jty c) (jdec c) then 0 else 1)
   + match jmodel c with Ok w => if veqb w (jdec c) then 0 else 4 | _ => 2 end)%N.

(* C01/TypedRd — byte-level models of the TYPED driver reads of cbor and binc that C07/Model.v
   does not have (C07 owns DecodeInt64 / DecodeUint64 / DecodeFloat64 / DecodeFloat32):

     TryNil / advanceNil, CheckBreak (cbor), DecodeBool, DecodeStringAsBytes, DecodeBytes,
     DecodeTime, ReadArrayStart, ReadMapStart.

   Each is a function of the remaining input (the byte at its head is the descriptor the driver
   reads or has read: bdRead is modelled by NOT consuming the byte) returning the Go value the
   driver hands to the generic layer and the remaining input.  Transcribed from cbor.go:296-640
   and binc.go:384-430, 611-762 (tree after the repairs the wire models list).  They are glue
   around the pieces of the wire models Wire/Cbor.v and Wire/Binc.v (read_uint, dec_len,
   dec_str_body / dec_chunks, skip_tags, dec_bytes_fresh, dec_float64, parse_rfc3339,
   time_of_float; dec_len, take, rd_symbol, dec_time), each of which is tied to the
   implementation by the Wcbor / Wbinc correspondence checks; the glue itself (nil test, major
   type / vd test, tag skipping) is hand written and NOT separately correspondence-checked.

   Not modelled (answer Err EUnsupported): DecodeBytes on an array of small integers (both
   formats; cbor also the indefinite-length array form); ValidateUnicode.

   No proofs here. *)
From Coq Require Import List NArith ZArith Bool.
From Verif Require Import Base.Outcome Wire.Item Gen.Consts Generic.Types.
From Verif Require Wire.Cbor Wire.Binc.
Import ListNotations.
Open Scope bool_scope.
Open Scope N_scope.

Module RC := Verif.Wire.Cbor.
Module RB := Verif.Wire.Binc.

(* what ReadArrayStart / ReadMapStart return: containerLenNil, containerLenUnknown, or a length *)
Inductive clen := LNil | LUnknown | LKnown (n : N).

(* time.Time{} as Unix seconds / nanoseconds *)
Definition zero_time : Z * N := ((-62135596800)%Z, 0).

(* ================= cbor ================= *)
Definition c_isnil (bd : N) : bool := (bd =? RC.bdNil) || (bd =? RC.bdUndefined).

(* TryNil = advanceNil: a nil / undefined descriptor is consumed; anything else stays read *)
Definition c_TryNil (b : list N) : res (bool * list N) :=
  match b with
  | [] => Err EEof
  | bd :: b1 => if c_isnil bd then Ok (true, b1) else Ok (false, b)
  end.

(* CheckBreak: the break byte is consumed; anything else stays read *)
Definition c_CheckBreak (b : list N) : res (bool * list N) :=
  match b with
  | [] => Err EEof
  | bd :: b1 => if bd =? RC.bdBreak then Ok (true, b1) else Ok (false, b)
  end.

(* if d.h.SkipUnexpectedTags { d.skipTags() } *)
Definition c_tags (D : RC.dopts) (f : nat) (bd : N) (b : list N) : res (N * list N) :=
  if RC.do_skiptags D then RC.skip_tags f bd b else Ok (bd, b).

(* DecodeBool: nil -> false; true / false only *)
Definition c_DecodeBool (D : RC.dopts) (f : nat) (b : list N) : res (bool * list N) :=
  match b with
  | [] => Err EEof
  | bd0 :: b0 =>
      if c_isnil bd0 then Ok (false, b0)
      else do (bd, b1) <- c_tags D f bd0 b0 ;;
           if bd =? RC.bdTrue then Ok (true, b1)
           else if bd =? RC.bdFalse then Ok (false, b1)
           else Err EBadDesc
  end.

(* DecodeBytes (and DecodeStringAsBytes = DecodeBytes + ValidateUnicode, not modelled): nil -> empty;
   definite and indefinite (chunked) byte / text strings; arrays of small integers not modelled.
   This is Wire/Cbor.v's [dec_bytes_fresh] (DecodeBytes as the bignum tags and decodeTime(0) call it) *)
Definition c_DecodeBytes (D : RC.dopts) (f : nat) (b : list N) : res (list N * list N) := RC.dec_bytes_fresh D f b.

(* DecodeTime: nil -> time.Time{}; major type 6 (no tag skipping here), tag 0 / 1 through decodeTime *)
Definition c_DecodeTime (D : RC.dopts) (f : nat) (b : list N) : res (Z * N * list N) :=
  match b with
  | [] => Err EEof
  | bd :: b1 =>
      if c_isnil bd then Ok (fst zero_time, snd zero_time, b1)
      else if negb (bd / 32 =? RC.majTag) then Err EBadDesc
      else
        do (t, b2) <- RC.read_uint (bd mod 32) b1 ;;
        do (i, b3) <-
           (if t =? 0 then do (s, b3) <- RC.dec_bytes_fresh D f b2 ;; do i <- RC.parse_rfc3339 s ;; Ok (i, b3)
            else if t =? 1 then do (x, b3) <- RC.dec_float64 D f b2 ;; do i <- RC.time_of_float x ;; Ok (i, b3)
            else Err EBadDesc) ;;
        match i with ITime s n => Ok (s, n, b3) | _ => Err EOther end
  end.

(* ReadArrayStart / ReadMapStart: nil -> containerLenNil; the indefinite head -> containerLenUnknown;
   else the major type is checked and decLen is returned *)
Definition c_ReadStart (mt indef : N) (D : RC.dopts) (f : nat) (b : list N) : res (clen * list N) :=
  match b with
  | [] => Err EEof
  | bd0 :: b0 =>
      if c_isnil bd0 then Ok (LNil, b0)
      else do (bd, b1) <- c_tags D f bd0 b0 ;;
           if bd =? indef then Ok (LUnknown, b1)
           else if negb (bd / 32 =? mt) then Err EBadDesc
           else do (n, b2) <- RC.dec_len (bd mod 32) b1 ;; Ok (LKnown n, b2)
  end.
Definition c_ReadArrayStart := c_ReadStart RC.majArray RC.bdIndefArray.
Definition c_ReadMapStart := c_ReadStart RC.majMap RC.bdIndefMap.

(* ================= binc ================= *)
Definition b_bdNil : N := Z.to_N bincBdNil.

Definition b_TryNil (b : list N) : res (bool * list N) :=
  match b with
  | [] => Err EEof
  | bd :: b1 => if bd =? b_bdNil then Ok (true, b1) else Ok (false, b)
  end.

Definition b_DecodeBool (b : list N) : res (bool * list N) :=
  match b with
  | [] => Err EEof
  | bd :: b1 =>
      if bd =? b_bdNil then Ok (false, b1)
      else if bd =? RB.mkbd RB.vdSpecial RB.spFalse then Ok (false, b1)
      else if bd =? RB.mkbd RB.vdSpecial RB.spTrue then Ok (true, b1)
      else Err EBadDesc
  end.

(* DecodeStringAsBytes: string and bytearray descriptors, and symbols (stateful: the Decoder's table) *)
Definition b_DecodeStringAsBytes (st : RB.dstate) (b : list N) : res (list N * list N * RB.dstate) :=
  match b with
  | [] => Err EEof
  | bd :: r =>
      if bd =? b_bdNil then Ok ([], r, st)
      else
        let vd := bd / 16 in
        let vs := bd mod 16 in
        if (vd =? RB.vdString) || (vd =? RB.vdByteArray) then
          do (l, r1) <- RB.dec_len vs r ;; do (s, r2) <- RB.take l r1 ;; Ok (s, r2, st)
        else if vd =? RB.vdSymbol then RB.rd_symbol vs st r
        else Err EBadDesc
  end.

(* DecodeBytes: string and bytearray descriptors (not symbols); an array of small integers is not modelled *)
Definition b_DecodeBytes (b : list N) : res (list N * list N) :=
  match b with
  | [] => Err EEof
  | bd :: r =>
      if bd =? b_bdNil then Ok ([], r)
      else
        let vd := bd / 16 in
        let vs := bd mod 16 in
        if vd =? RB.vdArray then Err EUnsupported
        else if (vd =? RB.vdString) || (vd =? RB.vdByteArray) then
          do (l, r1) <- RB.dec_len vs r ;; RB.take l r1
        else Err EBadDesc
  end.

(* DecodeTime: nil -> time.Time{}; the timestamp descriptor, vs = number of bytes *)
Definition b_DecodeTime (b : list N) : res (Z * N * list N) :=
  match b with
  | [] => Err EEof
  | bd :: r =>
      if bd =? b_bdNil then Ok (fst zero_time, snd zero_time, r)
      else
        let vd := bd / 16 in
        let vs := bd mod 16 in
        if negb (vd =? RB.vdTimestamp) then Err EBadDesc
        else do (bs, r1) <- RB.take vs r ;; do (sn) <- RB.dec_time bs ;; Ok (fst sn, snd sn, r1)
  end.

Definition b_ReadStart (vdc : N) (b : list N) : res (clen * list N) :=
  match b with
  | [] => Err EEof
  | bd :: r =>
      if bd =? b_bdNil then Ok (LNil, r)
      else
        let vd := bd / 16 in
        let vs := bd mod 16 in
        if negb (vd =? vdc) then Err EBadDesc
        else do (n, r1) <- RB.dec_len vs r ;; Ok (LKnown n, r1)
  end.
Definition b_ReadArrayStart := b_ReadStart RB.vdArray.
Definition b_ReadMapStart := b_ReadStart RB.vdMap.

(* ================= presentation ================= *)
(* a typed read's answer as the generic layer stores it, next to the remaining input *)
Definition stored {A : Type} (g : A -> gv) (r : res (A * list N)) : res (gv * list N) :=
  do (a, b) <- r ;; Ok (g a, b).
(* the item-level answer, leaving [rest] *)
Definition leaving (r : res gv) (rest : list N) : res (gv * list N) :=
  do v <- r ;; Ok (v, rest).

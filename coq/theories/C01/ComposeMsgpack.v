(* C01/ComposeMsgpack — the msgpack wire model (Wire/Msgpack.v, MsgpackRT.v) presented
   as the driver record [wire], the proof of [wire_ok] and of the documented losses
   [exact_losses], and the composed typed round trip down to BYTES.

   [W_msgpack O D]:
     wn / wnk  = MsgpackRT.norm O D / key_fix (norm O D): what Wmsgpack_dec_enc proves
                 DecodeNaked returns for an encoded item (the generic layer stores a
                 []byte map key as a string: key_fix);
     is_nil    = the item is nil (advanceNil: mpNil);
     rd_*      = the msgpackDecDriver's typed reads (msgpack.go:582-762, 869-914, 1039)
                 on the items the encoder can have produced:
                   DecodeBool    mpTrue / mpFalse (the driver also takes the fixnums 0 / 1:
                                 an integer item does not say which descriptor carried it,
                                 Err EUnsupported);
                   DecodeInt64   the int family as is; the uint family through
                                 chkOvf.SignedIntV (>= 2^63: overflow);
                   DecodeUint64  the uint family as is; a negative int is refused;
                   DecodeFloat64 mpFloat widened exactly / mpDouble;
                   DecodeFloat32 float32(chkOvf.Float32V(DecodeFloat64())), [unwiden];
                   DecodeStringAsBytes / DecodeBytes  the str and bin families alike
                                 (ValidateUnicode is not modelled: off, or the strings are
                                 valid UTF-8);
                   DecodeTime    the timestamp extension (-1), or -- WriteExt off, the
                                 legacy layout -- a str/bin of 4, 8 or 12 bytes through
                                 decodeTime, which is Msgpack.dec_time.
                 Integer <-> float conversions (decFloat4Int*, float64(DecodeInt64())),
                 inexact float32 narrowing and DecodeBytes on an array of uint8 are
                 C07's / off the round-trip path: Err EUnsupported.
     leaf_ok   = what does not come back as written:
                   - a float32 signalling NaN comes back quiet (CVTSS2SD);
                   - under DecodeOptions.SignedInteger (read by DecodeNaked only) an
                     unsigned value >= 2^63 makes DecodeNaked report an overflow (since the
                     F07-1n repair): excluded, the byte-level statement goes through
                     DecodeNaked's item ([sint_ok] of the wire lemma follows from it);
                   - a time whose seconds do not fit int64 (time.Time.Unix() cannot
                     return one). *)
From Coq Require Import List NArith ZArith Bool Lia.
From Coq Require Import ZifyN ZifyNat ZifyBool.
From Verif Require Import Base.Outcome Gen.Consts Wire.Item Generic.Types Generic.Enc Generic.Dec.
From Verif Require Import C01.Model C01.Proofs C01.ComposeFloat.
From Verif Require Wire.Msgpack Wire.MsgpackProofs Wire.MsgpackRT.
Import ListNotations.
Open Scope bool_scope.

Module M := Verif.Wire.Msgpack.
Module MP := Verif.Wire.MsgpackProofs.
Module MR := Verif.Wire.MsgpackRT.

Section W.
  Variable O : M.eopts.
  Variable D : M.dopts.

  Definition m_wn (i : item) : item := MR.norm O D i.
  Definition m_wnk (i : item) : item := M.key_fix (MR.norm O D i).

  Definition m_rd_bool (i : item) : res bool :=
    match i with IBool b => Ok b | IInt _ | IUint _ => Err EUnsupported | _ => Err EBadDesc end.
  Definition m_rd_int (i : item) : res Z :=
    match i with
    | IInt z => Ok z
    | IUint n => if (n <? 2 ^ 63)%N then Ok (Z.of_N n) else Err EOverflow
    | IF32 _ | IF64 _ => Err EUnsupported
    | _ => Err EBadDesc
    end.
  Definition m_rd_uint (i : item) : res N :=
    match i with
    | IUint n => Ok n
    | IInt z => if (0 <=? z)%Z then Ok (Z.to_N z) else Err EOther
    | IF32 _ | IF64 _ => Err EUnsupported
    | _ => Err EBadDesc
    end.
  Definition m_rd_f64 (i : item) : res N :=
    match i with IF64 x => Ok x | IInt _ | IUint _ => Err EUnsupported | _ => Err EBadDesc end.
  Definition m_rd_f32 (i : item) : res N :=
    match i with IF64 x => unwiden x | IInt _ | IUint _ => Err EUnsupported | _ => Err EBadDesc end.
  Definition m_rd_raw (i : item) : res (list N) :=
    match i with IStr s | IBytes s => Ok s | IArr _ => Err EUnsupported | _ => Err EBadDesc end.
  (* decodeTime(clen) on a str / bin payload *)
  Definition m_time_of_body (b : list N) : res (Z * N) :=
    match M.dec_time (M.len b) b with
    | Ok (ITime s n, _) => Ok (s, n)
    | Ok _ => Err EOther
    | Err e => Err e
    | OutOfFuel => OutOfFuel
    end.
  Definition m_rd_time (i : item) : res (Z * N) :=
    match i with
    | ITime s n => Ok (s, n)
    | IStr b | IBytes b => m_time_of_body b
    | _ => Err EBadDesc
    end.

  Definition m_leaf_ok (i : item) : bool :=
    match i with
    | IUint n => negb (M.d_signedinteger D) || (n <? 2 ^ 63)%N
    | IF32 b => negb (snan32 b)
    | ITime s _ => ((- 2 ^ 63 <=? s) && (s <? 2 ^ 63))%Z
    | _ => true
    end.

  Definition W_msgpack : wire := {|
    wn := m_wn;
    wnk := m_wnk;
    is_nil := item_is_nil;
    rd_bool := m_rd_bool;
    rd_int := m_rd_int;
    rd_uint := m_rd_uint;
    rd_f32 := m_rd_f32;
    rd_f64 := m_rd_f64;
    rd_str := m_rd_raw;
    rd_bytes := m_rd_raw;
    rd_time := m_rd_time;
    fn32 := fun b : N => b;
    fn64 := fun b : N => b;
    tnorm := fun (s : Z) (n : N) => (s, n);
    leaf_ok := m_leaf_ok
  |}.

  (* ---- the interface ---- *)
  Lemma signed_small : forall n, (n < 2 ^ 63)%N -> M.signed 64 n = Z.of_N n.
  Proof.
    intros n H. unfold M.signed. change (2 ^ (64 - 1))%N with (2 ^ 63)%N.
    destruct (N.ltb_spec n (2 ^ 63)); [reflexivity|lia].
  Qed.

  Lemma mkraw_raw : forall a s, m_rd_raw (M.mkraw a s) = Ok s /\ item_is_nil (M.mkraw a s) = false
                                /\ m_rd_raw (M.key_fix (M.mkraw a s)) = Ok s
                                /\ item_is_nil (M.key_fix (M.mkraw a s)) = false.
  Proof. intros a s. unfold M.mkraw. destruct a; repeat apply conj; reflexivity. Qed.

  (* what a non-negative integer < 2^63 written unsigned comes back as *)
  Lemma norm_uint_cases : forall n, (n < 2 ^ 63)%N ->
    MR.norm_uint O D n = IInt (Z.of_N n) \/ MR.norm_uint O D n = IUint n.
  Proof.
    intros n H. unfold MR.norm_uint, M.mkuint.
    destruct ((n <=? 127)%N && negb (M.e_nofixednum O)); [left; reflexivity|].
    destruct (M.d_signedinteger D); [left; rewrite signed_small by exact H; reflexivity|right; reflexivity].
  Qed.

  Lemma m_scalar : forall key : bool,
    scalar_ok W_msgpack (fun i => if key then M.key_fix (MR.norm O D i) else MR.norm O D i).
  Proof.
    intro key.
    constructor; cbn [leaf_ok is_nil rd_bool rd_int rd_uint rd_f32 rd_f64 rd_str fn32 fn64 W_msgpack m_leaf_ok].
    - destruct key; reflexivity.
    - intros b _. destruct key; split; reflexivity.
    - intros z _ Hz.
      assert (E : MR.norm O D (IInt z) = IInt z \/ ((0 <= z)%Z /\ MR.norm O D (IInt z) = IUint (Z.to_N z))).
      { cbn [MR.norm]. destruct (M.e_posintunsigned O && (0 <=? z)%Z) eqn:E; [|left; reflexivity].
        apply andb_true_iff in E. destruct E as [_ E]. apply Z.leb_le in E.
        destruct (norm_uint_cases (Z.to_N z) ltac:(lia)) as [H|H]; rewrite H.
        - left. rewrite Z2N.id by lia. reflexivity.
        - right. split; [exact E|reflexivity]. }
      destruct E as [E|[Hz0 E]]; destruct key; rewrite E; cbn [M.key_fix item_is_nil m_rd_int]; split; try reflexivity.
      + destruct (N.ltb_spec (Z.to_N z) (2 ^ 63)); [|lia]. rewrite Z2N.id by lia. reflexivity.
      + destruct (N.ltb_spec (Z.to_N z) (2 ^ 63)); [|lia]. rewrite Z2N.id by lia. reflexivity.
    - intros n Hl Hn.
      assert (E : MR.norm O D (IUint n) = IUint n \/ ((n < 2 ^ 63)%N /\ MR.norm O D (IUint n) = IInt (Z.of_N n))).
      { cbn [MR.norm]. unfold MR.norm_uint, M.mkuint.
        destruct ((n <=? 127)%N && negb (M.e_nofixednum O)) eqn:E.
        - right. apply andb_true_iff in E. destruct E as [E _]. apply N.leb_le in E. split; [lia|reflexivity].
        - destruct (M.d_signedinteger D); [|left; reflexivity].
          cbn [negb orb] in Hl. apply N.ltb_lt in Hl. right. split; [exact Hl|]. rewrite signed_small by exact Hl. reflexivity. }
      destruct E as [E|[Hn0 E]]; destruct key; rewrite E; cbn [M.key_fix item_is_nil m_rd_uint]; split; try reflexivity.
      + destruct (Z.leb_spec 0 (Z.of_N n)); [|lia]. rewrite N2Z.id. reflexivity.
      + destruct (Z.leb_spec 0 (Z.of_N n)); [|lia]. rewrite N2Z.id. reflexivity.
    - intros b Hl Hb. apply negb_true_iff in Hl.
      assert (E : MR.norm O D (IF32 b) = IF64 (widen_c b)).
      { cbn [MR.norm]. rewrite msgpack_widen by exact Hb. reflexivity. }
      destruct key; rewrite E; cbn [M.key_fix item_is_nil m_rd_f32]; (split; [reflexivity|]); apply unwiden_widen; assumption.
    - intros b _ _. destruct key; split; reflexivity.
    - intros s _ _. cbn [MR.norm].
      destruct (M.e_writeext O && M.e_stringtoraw O);
        match goal with |- context [M.mkraw ?a s] => destruct (mkraw_raw a s) as [B1 [B2 [B3 B4]]] end;
        destruct key; split; assumption.
  Qed.

  Lemma time_of_body_rt : forall s n, (n < 1000000000)%N -> (- 2 ^ 63 <= s < 2 ^ 63)%Z ->
    m_time_of_body (M.time_body s n) = Ok (s, n).
  Proof.
    intros s n Hn Hs. unfold m_time_of_body. rewrite (MR.time_body_len s n Hn).
    pose proof (MR.dec_time_rt s n [] Hn Hs) as H. rewrite app_nil_r in H. rewrite H. reflexivity.
  Qed.

  Lemma W_msgpack_ok : wire_ok W_msgpack.
  Proof.
    constructor.
    - exact (m_scalar false).
    - exact (m_scalar true).
    - intros b _ _. cbn [wn is_nil rd_bytes W_msgpack]. unfold m_wn. cbn [MR.norm].
      destruct (M.e_writeext O);
        match goal with |- context [M.mkraw ?a b] => destruct (mkraw_raw a b) as [B1 [B2 _]] end; split; assumption.
    - intros s n Hl Hn. cbn [leaf_ok wn is_nil rd_time tnorm W_msgpack m_leaf_ok] in *. unfold m_wn. cbn [MR.norm].
      apply andb_true_iff in Hl. destruct Hl as [H1 H2]. apply Z.leb_le in H1. apply Z.ltb_lt in H2.
      unfold M.is_zero_time, M.zeroTimeSec. destruct ((s =? -62135596800)%Z && (n =? 0)%N) eqn:E.
      + cbn [item_is_nil]. apply andb_true_iff in E. destruct E as [E1 E2].
        apply Z.eqb_eq in E1. apply N.eqb_eq in E2. subst. reflexivity.
      + destruct (M.e_writeext O); [reflexivity|].
        unfold M.mkraw. destruct (M.d_writeext D || M.d_rawtostring D); cbn [item_is_nil m_rd_time];
          apply time_of_body_rt; (exact Hn || lia).
    - intro l. reflexivity.
    - intro l. reflexivity.
    - intro l. reflexivity.
    - intro l. reflexivity.
    - reflexivity.
    - reflexivity.
    - reflexivity.
    - reflexivity.
  Qed.

  Lemma W_msgpack_losses : same_losses (losses_of W_msgpack) exact_losses.
  Proof.
    repeat apply conj; intros; try reflexivity.
    cbn [losses_of l_tnil exact_losses wn is_nil W_msgpack]. unfold m_wn. cbn [MR.norm].
    unfold M.is_zero_time, M.zeroTimeSec, is_time_zero, time_zero_sec.
    destruct ((s =? -62135596800)%Z && (n =? 0)%N); [reflexivity|].
    destruct (M.e_writeext O); [reflexivity|]. unfold M.mkraw. destruct (M.d_writeext D || M.d_rawtostring D); reflexivity.
  Qed.

  (* ---- MsgpackRT.supported as a boolean ---- *)
  Definition len32b {A} (l : list A) : bool := (M.len l <? 2 ^ 32)%N.

  Fixpoint supportedb (i : item) : bool :=
    match i with
    | IInt z => ((- 2 ^ 63 <=? z) && (z <? 2 ^ 63))%Z
    | IUint n => (n <? 2 ^ 64)%N
    | IF32 b => (b <? 2 ^ 32)%N
    | IF64 b => (b <? 2 ^ 64)%N
    | IStr s => len32b s
    | IBytes s => len32b s
    | IExt t s => (t <? 255)%N && len32b s
    | IArr l => len32b l && forallb supportedb l
    | IMap l => len32b l && forallb (fun kv => supportedb (fst kv) && M.hashable (fst kv) && supportedb (snd kv)) l
    | ITag _ _ => false
    | ITime s n => (n <? 1000000000)%N && ((- 2 ^ 63 <=? s) && (s <? 2 ^ 63))%Z
    | _ => true
    end.

  Lemma len32b_ok : forall {A} (l : list A), len32b l = true -> (M.len l < 2 ^ 32)%N.
  Proof. intros A l H. unfold len32b in H. apply N.ltb_lt in H. exact H. Qed.

  Lemma supportedb_ok : forall i, supportedb i = true -> MR.supported i.
  Proof.
    induction i using item_ind'; intro Hb; cbn [supportedb MR.supported] in *; try exact I; try discriminate.
    - apply andb_true_iff in Hb. destruct Hb as [H1 H2]. apply Z.leb_le in H1. apply Z.ltb_lt in H2. lia.
    - apply N.ltb_lt in Hb. exact Hb.
    - apply N.ltb_lt in Hb. exact Hb.
    - apply N.ltb_lt in Hb. exact Hb.
    - apply len32b_ok. exact Hb.
    - apply len32b_ok. exact Hb.
    - apply andb_true_iff in Hb. destruct Hb as [H1 H2]. split; [apply len32b_ok; exact H1|].
      clear H1. induction H as [|x r Hx _ IH]; [exact I|].
      cbn [forallb] in H2. apply andb_true_iff in H2. destruct H2 as [H2 H3]. split; [apply Hx; exact H2|apply IH; exact H3].
    - apply andb_true_iff in Hb. destruct Hb as [H1 H3]. split; [apply len32b_ok; exact H1|].
      clear H1. induction H as [|kv r [Hk Hv] _ IH]; [exact I|].
      cbn [forallb] in H3. apply andb_true_iff in H3. destruct H3 as [H3 H4].
      apply andb_true_iff in H3. destruct H3 as [H3 H5]. apply andb_true_iff in H3. destruct H3 as [H3 H6].
      split; [apply Hk; exact H3|]. split; [exact H6|]. split; [apply Hv; exact H5|apply IH; exact H4].
    - apply andb_true_iff in Hb. destruct Hb as [H1 H2]. apply N.ltb_lt in H1. split; [exact H1|apply len32b_ok; exact H2].
    - apply andb_true_iff in Hb. destruct Hb as [H1 H2]. apply N.ltb_lt in H1.
      apply andb_true_iff in H2. destruct H2 as [H2 H3]. apply Z.leb_le in H2. apply Z.ltb_lt in H3. split; [exact H1|lia].
  Qed.

  (* the SignedInteger guard of Wmsgpack_dec_enc follows from the leaves *)
  Lemma leaves_sint : forall i, leaves_ok W_msgpack i = true -> MR.sint_ok D i.
  Proof.
    induction i using item_ind'; intro Hl; cbn [MR.sint_ok leaves_ok] in *; try exact I.
    - cbn [leaf_ok W_msgpack m_leaf_ok] in Hl. unfold MR.uint_fits. intro Hs. rewrite Hs in Hl.
      cbn [negb orb] in Hl. apply N.ltb_lt in Hl. exact Hl.
    - induction H as [|x r Hx _ IH]; [exact I|].
      cbn [forallb] in Hl. apply andb_true_iff in Hl. destruct Hl as [H1 H2]. split; [apply Hx; exact H1|apply IH; exact H2].
    - induction H as [|kv r [Hk Hv] _ IH]; [exact I|].
      cbn [forallb] in Hl. apply andb_true_iff in Hl. destruct Hl as [H1 H2]. apply andb_true_iff in H1. destruct H1 as [H1 H3].
      split; [apply Hk; exact H1|]. split; [apply Hv; exact H3|apply IH; exact H2].
  Qed.
End W.

(* ---- the composed round trip: bytes -> DecodeNaked's item -> typed value ---- *)
Theorem msgpack_compose : forall (Of : M.eopts) (D : M.dopts) (O : gopts) (pi : order) (t : ty) (v : gv) (rest : list N),
  order_ok pi -> wt t v = true -> supported t = true ->
  M.d_maxdepth D = max_depth O ->
  supportedb (to_item O pi v) = true ->
  leaves_ok (W_msgpack Of D) (to_item O pi v) = true ->
  (Z.of_nat (depth (to_item O pi v)) < maxdepth O)%Z ->
  (M.len (M.enc Of (to_item O pi v) ++ rest) < 2 ^ 63)%N ->
  M.dec_naked D (M.dec_fuel (M.enc Of (to_item O pi v) ++ rest)) (M.enc Of (to_item O pi v) ++ rest)
    = Ok (wn (W_msgpack Of D) (to_item O pi v), rest) /\
  of_item (W_msgpack Of D) O 0 t (wn (W_msgpack Of D) (to_item O pi v)) = Ok (normL exact_losses O (arrange O pi v)) /\
  veq (normL exact_losses O (arrange O pi v)) (normL exact_losses O v).
Proof.
  intros Of D O pi t v rest Hpi Hwt Hs HD Hsup Hl Hd Hlen. split.
  - apply MR.dec_enc.
    + apply supportedb_ok. exact Hsup.
    + apply (leaves_sint Of D). exact Hl.
    + unfold M.maxdepth. rewrite HD. exact Hd.
    + exact Hlen.
  - apply (roundtrip_losses exact_losses (W_msgpack Of D) O pi t v (W_msgpack_ok Of D) (W_msgpack_losses Of D) Hpi Hwt Hs Hl Hd).
Qed.

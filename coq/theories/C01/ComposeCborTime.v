(* C01/ComposeCborTime — cbor with CborHandle.TimeRFC3339 = true: non-zero times included.

   Wire/CborEnc.v's extended lemma dec_enc_t_lemma (Properties/C10_cbor.v: Wcbor_dec_enc) covers
   tag 0: a time.Time written as the RFC 3339 text of its UTC instant decodes (DecodeNaked) to the
   instant rounded to the microsecond, for UTC years 0..9999 ([CborTime.year_ok], the range Go's
   formatter accepts).  This file presents that as a driver record [W_cbor_t Oc D]:

     wn        = [c_wn_t]: CborEnc.norm on scalars (as in W_cbor), element-wise on containers, and on
                 a time: nil for the zero time, else the microsecond-rounded instant -- spelled out
                 for EVERY time so that the losses are exactly [cbor_losses]; that this is what the
                 bytes decode to ([c_wn_t i = CborEnc.norm_t Oc D i]) is proved for the items
                 [leaves_ok] admits (year 0..9999, nsec < 10^9), lemma [wn_t_norm_t];
     rd_*      = W_cbor's typed reads (cbor.go); DecodeTime on a time item;
     leaf_ok   = W_cbor's, with a time admitted when year_ok and nsec < 10^9.

   TimeRFC3339 = false (tag 1, epoch seconds as integer or float64) stays with W_cbor /
   cbor_compose_partial: non-zero times outside. *)
From Coq Require Import List NArith ZArith Bool Lia.
From Coq Require Import ZifyN ZifyNat ZifyBool.
From Verif Require Import Base.Outcome Gen.Consts Wire.Item Generic.Types Generic.Enc Generic.Dec.
From Verif Require Import C01.Model C01.Proofs C01.ComposeFloat C01.ComposeCbor.
From Verif Require Wire.CborFloat Wire.Cbor C10.CborSpec C10.CborConv Wire.CborTime Wire.CborEnc.
Import ListNotations.
Open Scope bool_scope.

Module CT := Verif.Wire.CborTime.

Ltac Zify.zify_post_hook ::= Z.div_mod_to_equations.

(* the two spellings of t.Round(time.Microsecond) *)
Lemma round_us_same : forall s n, CB.round_us s n = round_us s n.
Proof.
  intros s n. unfold CB.round_us, round_us.
  destruct (N.ltb_spec (n mod 1000 + n mod 1000) 1000) as [H|H].
  - assert (E : ((n + 500) / 1000 * 1000 = n - n mod 1000)%N) by lia. rewrite <- E.
    destruct (N.eqb_spec ((n + 500) / 1000 * 1000) 1000000000); destruct (N.eqb_spec ((n + 500) / 1000) 1000000);
      try reflexivity; exfalso; lia.
  - assert (E : ((n + 500) / 1000 * 1000 = n + 1000 - n mod 1000)%N) by lia. rewrite <- E.
    destruct (N.eqb_spec ((n + 500) / 1000 * 1000) 1000000000); destruct (N.eqb_spec ((n + 500) / 1000) 1000000);
      try reflexivity; exfalso; lia.
Qed.

Section W.
  Variable Oc : CB.eopts.
  Variable D : CB.dopts.

  Fixpoint c_wn_t (i : item) : item :=
    match i with
    | ITime s n => if is_time_zero s n then INil else let sn := round_us s n in ITime (fst sn) (snd sn)
    | IArr l => IArr (map c_wn_t l)
    | IMap l => IMap (map (fun kv => (CB.keynorm (c_wn_t (fst kv)), c_wn_t (snd kv))) l)
    | ITag _ _ | IExt _ _ => CE.norm_t Oc D i
    | _ => CE.norm Oc D i
    end.
  Definition c_wnk_t (i : item) : item := CB.keynorm (c_wn_t i).

  Definition c_leaf_ok_t (i : item) : bool :=
    match i with
    | ITime s n => CT.year_ok s && (n <? 1000000000)%N
    | _ => c_leaf_ok D i
    end.

  Definition W_cbor_t : wire := {|
    wn := c_wn_t;
    wnk := c_wnk_t;
    is_nil := item_is_nil;
    rd_bool := c_rd_bool;
    rd_int := c_rd_int;
    rd_uint := c_rd_uint;
    rd_f32 := c_rd_f32;
    rd_f64 := c_rd_f64;
    rd_str := c_rd_raw;
    rd_bytes := c_rd_raw;
    rd_time := c_rd_time;
    fn32 := fun b : N => b;
    fn64 := fun b : N => b;
    tnorm := round_us;
    leaf_ok := c_leaf_ok_t
  |}.

  Lemma c_scalar_t : forall key : bool, scalar_ok W_cbor_t (fun i => if key then CB.keynorm (c_wn_t i) else c_wn_t i).
  Proof.
    intro key. pose proof (c_scalar Oc D key) as S. constructor.
    - exact (s_nil _ _ S).
    - exact (s_bool _ _ S).
    - exact (s_int _ _ S).
    - exact (s_uint _ _ S).
    - exact (s_f32 _ _ S).
    - exact (s_f64 _ _ S).
    - exact (s_str _ _ S).
  Qed.

  Lemma W_cbor_t_ok : wire_ok W_cbor_t.
  Proof.
    constructor.
    - exact (c_scalar_t false).
    - exact (c_scalar_t true).
    - exact (w_bytes _ (W_cbor_ok Oc D)).
    - intros s n _ Hn. cbn [wn is_nil rd_time tnorm W_cbor_t c_wn_t].
      destruct (is_time_zero s n) eqn:E.
      + cbn [item_is_nil]. unfold is_time_zero in E. apply andb_true_iff in E. destruct E as [E1 E2].
        apply Z.eqb_eq in E1. apply N.eqb_eq in E2. subst. vm_compute. reflexivity.
      + cbv zeta. cbn [item_is_nil c_rd_time]. destruct (round_us s n). reflexivity.
    - intro l. reflexivity.
    - intro l. reflexivity.
    - intro l. reflexivity.
    - intro l. reflexivity.
    - reflexivity.
    - reflexivity.
    - reflexivity.
    - reflexivity.
  Qed.

  Lemma W_cbor_t_losses : same_losses (losses_of W_cbor_t) cbor_losses.
  Proof.
    repeat apply conj; intros; try reflexivity.
    cbn [losses_of l_tnil cbor_losses wn is_nil W_cbor_t c_wn_t]. destruct (is_time_zero s n); reflexivity.
  Qed.

  (* ---- [c_wn_t] is what the bytes decode to, on the items the leaf premise admits ---- *)
  Hypothesis Hrfc : CB.eo_rfc3339 Oc = true.

  Lemma wn_t_norm_t : forall i, leaves_ok W_cbor_t i = true -> c_wn_t i = CE.norm_t Oc D i.
  Proof.
    induction i using item_ind'; intro Hl; try reflexivity;
      try solve [cbn [c_wn_t]; unfold CE.norm, CE.norm_t; cbn [CE.sdata_of]; unfold CE.int_data;
                 repeat match goal with |- context [if ?c then _ else _] => destruct c end; reflexivity].
    - (* arr *)
      cbn [c_wn_t]. unfold CE.norm_t. cbn [CE.sdata_of CC.go_of_t]. rewrite map_map. f_equal.
      cbn [leaves_ok] in Hl. rewrite forallb_forall in Hl. rewrite Forall_forall in H.
      apply map_ext_in. intros x Hx. apply (H x Hx). apply Hl. exact Hx.
    - (* map *)
      cbn [c_wn_t]. unfold CE.norm_t. cbn [CE.sdata_of CC.go_of_t]. rewrite map_map. f_equal.
      cbn [leaves_ok] in Hl. rewrite forallb_forall in Hl. rewrite Forall_forall in H.
      apply map_ext_in. intros kv Hkv. cbn [fst snd]. destruct (H kv Hkv) as [Hk Hv].
      specialize (Hl kv Hkv). apply andb_true_iff in Hl. destruct Hl as [L1 L2].
      fold (CE.norm_t Oc D (fst kv)). fold (CE.norm_t Oc D (snd kv)). rewrite (Hk L1), (Hv L2). reflexivity.
    - (* time *)
      cbn [leaves_ok leaf_ok W_cbor_t c_leaf_ok_t] in Hl. apply andb_true_iff in Hl. destruct Hl as [Hy Hn].
      apply N.ltb_lt in Hn.
      destruct (CE.time_rfc3339_lemma Oc D s n Hrfc Hy Hn) as [_ [_ E]]. rewrite E.
      cbn [c_wn_t]. unfold is_time_zero, CB.zero_time_sec. change time_zero_sec with (-62135596800)%Z.
      rewrite round_us_same. reflexivity.
  Qed.
End W.

Theorem cbor_rfc3339_compose : forall (Oc : CB.eopts) (D : CB.dopts) (O : gopts) (pi : order) (t : ty) (v : gv) (rest : list N),
  CB.eo_rfc3339 Oc = true ->
  order_ok pi -> wt t v = true -> supported t = true ->
  wf (to_item O pi v) -> CC.plain (to_item O pi v) ->
  CC.lib_supports_t D (CC.tree_of Oc (to_item O pi v)) ->
  (CC.tdepth_t D (CC.tree_of Oc (to_item O pi v)) < CB.maxdepth D)%Z ->
  leaves_ok (W_cbor_t Oc D) (to_item O pi v) = true ->
  (Z.of_nat (depth (to_item O pi v)) < maxdepth O)%Z ->
  CB.dec_naked D (CB.fuel_for (CB.enc Oc (to_item O pi v) ++ rest)) (CB.enc Oc (to_item O pi v) ++ rest)
    = Ok (wn (W_cbor_t Oc D) (to_item O pi v), rest) /\
  of_item (W_cbor_t Oc D) O 0 t (wn (W_cbor_t Oc D) (to_item O pi v)) = Ok (normL cbor_losses O (arrange O pi v)) /\
  veq (normL cbor_losses O (arrange O pi v)) (normL cbor_losses O v).
Proof.
  intros Oc D O pi t v rest Hr Hpi Hwt Hs Hwf Hpl Hsup Htd Hl Hd. split.
  - cbn [wn W_cbor_t]. rewrite (wn_t_norm_t Oc D Hr _ Hl). apply CE.dec_enc_t_lemma; assumption.
  - apply (roundtrip_losses cbor_losses (W_cbor_t Oc D) O pi t v (W_cbor_t_ok Oc D) (W_cbor_t_losses Oc D) Hpi Hwt Hs Hl Hd).
Qed.

(* C01/ComposeJsonToy -- the hypotheses of the json composition (Wire/JsonLeaf.float_time_laws and
   C01/ComposeJson.json_rt_laws) are jointly SATISFIABLE: a toy oracle for the part that is not modelled
   (strconv, time) meets all of them, so the conditional theorems of Properties/C01_json.v are not
   vacuous.  This is not a claim about strconv.

   The toy oracle writes a float64 as the decimal digits of its bit pattern followed by '.', a float32
   as the digits of its bit pattern followed by 'e' (both are number tokens that are never bare decimal
   integers, so the law about integer-looking float texts holds emptily), reads them back accordingly (a float32 pattern widened exactly: FBits.f32_to_f64, so the
   narrowing law is C07's f32_roundtrip), and writes a time with Wire/Cbor's model of
   AppendFormat(RFC3339Nano). *)
From Coq Require Import List NArith ZArith Bool Lia.
From Coq Require Import ZifyN ZifyNat ZifyBool.
From Verif Require Import Base.Outcome Gen.Consts Wire.Item Generic.Types.
From Verif Require Import C01.ComposeJson.
From Verif Require Base.FBits Wire.Json Wire.JsonRT Wire.JsonLeaf Wire.Cbor Wire.CborTime C09.Model C07.ProofsFloat.
Import ListNotations.
Open Scope bool_scope.
Open Scope N_scope.

Module PF := Verif.C07.ProofsFloat.

Ltac Zify.zify_post_hook ::= Z.div_mod_to_equations.

Definition toy_pf (t : list N) : option N :=
  match rev t with
  | [] => Some 0
  | c :: r =>
      let '(f, ok) := CM.parseUint64_simple (rev r) in
      if c =? 46 then (if ok then Some (Z.to_N f) else Some 0)
      else if c =? 101 then (if ok then Some (Z.to_N (FB.f32_to_f64 f)) else Some 0)
      else Some 0
  end.

Definition toy_rt_oracle : JL.oracle :=
  JL.mkoracle (fun b => J.udigits (b mod 2 ^ 64) ++ [46]) (fun b => J.udigits (b mod 2 ^ 32) ++ [101]) toy_pf CB.fmt_rfc3339.

Definition toyL : J.leaf := JL.c09_leaf_of toy_rt_oracle.

(* ---- a text with a byte that is not a digit is not a bare decimal integer ---- *)
Lemma pus_loop_nondigit : forall t n, existsb (fun c => negb (CM.isdig c)) t = true -> snd (CM.pus_loop t n) = false.
Proof.
  induction t as [|c r IH]; intros n H; [discriminate|]. cbn [existsb] in H. cbn [CM.pus_loop].
  destruct ((fUint64Cutoff <=? n)%Z || negb (CM.isdig c)) eqn:E; [reflexivity|].
  apply orb_false_iff in E. destruct E as [_ E]. rewrite E in H. cbn [orb] in H.
  destruct (c =? 48); [apply IH; exact H|].
  destruct (_ <? _)%Z; [reflexivity|apply IH; exact H].
Qed.

Lemma pus_nondigit : forall t, existsb (fun c => negb (CM.isdig c)) t = true -> snd (CM.parseUint64_simple t) = false.
Proof.
  intros t H. unfold CM.parseUint64_simple. destruct t as [|z [|y r]]; try (apply pus_loop_nondigit; exact H).
  destruct (z =? 48); [reflexivity|apply pus_loop_nondigit; exact H].
Qed.

Lemma tail_nondigit : forall ds c, CM.isdig c = false -> existsb (fun c => negb (CM.isdig c)) (ds ++ [c]) = true.
Proof. intros ds c H. rewrite existsb_app. cbn. rewrite H. cbn. apply orb_true_r. Qed.

Lemma unsign_udigits_app : forall u tl, u < 2 ^ 64 -> unsign (J.udigits u ++ tl) = J.udigits u ++ tl.
Proof.
  intros u tl Hu. destruct (JL.udigits_hd u Hu) as (c & r & Hc & Hn). rewrite Hc. unfold unsign. cbn [app is_neg].
  rewrite Hn. reflexivity.
Qed.

Lemma udigits_app_numtext : forall u c, u < 2 ^ 64 -> J.isnumc c = true -> JR.numtext (J.udigits u ++ [c]).
Proof.
  intros u c Hu Hc. destruct (JL.c09_udig_num u Hu) as [Hne Hd]. split.
  - destruct (J.udigits u); [congruence|discriminate].
  - rewrite forallb_app. cbn. rewrite Hc. rewrite andb_true_r.
    eapply JR.forallb_impl; [|exact Hd]. apply JR.dig_numc.
Qed.

Lemma toy_pf_dot : forall u, u < 2 ^ 64 -> toy_pf (J.udigits u ++ [46]) = Some u.
Proof.
  intros u Hu. unfold toy_pf. rewrite rev_app_distr. cbn [rev app]. rewrite rev_involutive.
  rewrite JL.c09_udig_parse by exact Hu. rewrite N2Z.id. reflexivity.
Qed.

Lemma toy_pf_e : forall u, u < 2 ^ 64 -> toy_pf (J.udigits u ++ [101]) = Some (Z.to_N (FB.f32_to_f64 (Z.of_N u))).
Proof.
  intros u Hu. unfold toy_pf. rewrite rev_app_distr. cbn [rev app]. rewrite rev_involutive.
  rewrite JL.c09_udig_parse by exact Hu. reflexivity.
Qed.

Lemma toy_pf_some : forall t, exists v, toy_pf t = Some v.
Proof.
  intro t. unfold toy_pf. destruct (rev t) as [|c r]; [eauto|].
  destruct (CM.parseUint64_simple (rev r)) as [f ok]. destruct (c =? 46), (c =? 101), ok; eauto.
Qed.

(* accepted by DecodeNaked's number reader, whatever the options *)
Lemma toy_naked_ok : forall D t, JR.numtext t -> snd (CM.parseUint64_simple (unsign t)) = false ->
  exists i, J.naked_num toyL D t = Ok i.
Proof.
  intros D t _ Hf. unfold J.naked_num. cbn [toyL JL.c09_leaf_of J.pfloat toy_rt_oracle JL.o_pf].
  destruct (toy_pf_some t) as [v Hv]. rewrite Hv.
  destruct (J.preferFloat D); [eauto|]. unfold unsign, is_neg in Hf.
  destruct (CM.parseUint64_simple _) as [f ok]. cbn [snd] in Hf. subst ok. eauto.
Qed.

(* ---- the time text has no quote or backslash ---- *)
Lemma digits_plain : forall k v, forallb JR.plain (CB.digits k v) = true.
Proof.
  induction k as [|k IH]; intro v; [reflexivity|]. cbn [CB.digits]. rewrite forallb_app. rewrite IH. cbn [forallb andb].
  rewrite andb_true_r. unfold JR.plain.
  assert (v mod 10 < 10) by (apply N.mod_lt; discriminate).
  destruct (N.eqb_spec (48 + v mod 10) 34); [lia|]. destruct (N.eqb_spec (48 + v mod 10) 92); [lia|]. reflexivity.
Qed.

Lemma rfc3339_plain : forall s n, forallb JR.plain (CB.fmt_rfc3339 s n) = true.
Proof.
  intros s n. unfold CB.fmt_rfc3339. destruct (CB.civil (s / 86400)) as [[y m] d].
  destruct (CB.trim0 9 n) as [k v].
  repeat (rewrite forallb_app || rewrite digits_plain || cbn [forallb andb app]).
  destruct k; cbn [forallb]; rewrite ?digits_plain; reflexivity.
Qed.

(* ---- float32 patterns: Json.f32special against FBits' predicates ---- *)
Lemma f32special_fbits : forall b, b < 2 ^ 32 -> J.f32special b = false ->
  FB.f32_isnan (Z.of_N b) = false /\ FB.f32_finite (Z.of_N b) = true.
Proof.
  intros b Hb Hs. unfold J.f32special in Hs. apply N.eqb_neq in Hs.
  rewrite N.shiftr_div_pow2 in Hs. change 255 with (N.ones 8) in Hs. rewrite N.land_ones in Hs.
  change (N.ones 8) with 255 in Hs. change (2 ^ 8) with 256 in Hs. change (2 ^ 23) with 8388608 in Hs.
  change (2 ^ 32) with 4294967296 in Hb.
  unfold FB.f32_isnan, FB.f32_finite, FB.f32_abs, FB.f32_inf.
  change (2 ^ 31)%Z with 2147483648%Z. change (2 ^ 23)%Z with 8388608%Z.
  split; [apply Z.ltb_ge|apply Z.ltb_lt]; lia.
Qed.

Lemma toy_narrow : forall b, b < 2 ^ 32 -> J.f32special b = false ->
  narrow32 (Z.to_N (FB.f32_to_f64 (Z.of_N b))) = Ok b.
Proof.
  intros b Hb Hs. destruct (f32special_fbits b Hb Hs) as [Hn Hf].
  assert (Hr : (0 <= Z.of_N b < 2 ^ 32)%Z).
  { change (2 ^ 32) with 4294967296 in Hb. change (2 ^ 32)%Z with 4294967296%Z. lia. }
  destruct (PF.f32_to_f64_finite (Z.of_N b) Hr Hf) as [[H0 _] _].
  unfold narrow32. rewrite Z2N.id by exact H0.
  rewrite PF.f32_roundtrip; [|exact Hr|exact Hn].
  rewrite Hf. rewrite N2Z.id. reflexivity.
Qed.

(* ---- the laws ---- *)
Lemma mod64_lt : forall b, b mod 2 ^ 64 < 2 ^ 64.
Proof. intro b. apply N.mod_lt. discriminate. Qed.
Lemma mod32_lt64 : forall b, b mod 2 ^ 32 < 2 ^ 64.
Proof. intro b. pose proof (N.mod_lt b (2 ^ 32) ltac:(discriminate)). change (2 ^ 32) with 4294967296 in *. change (2 ^ 64) with 18446744073709551616. lia. Qed.

Lemma toy_frac : forall u c, u < 2 ^ 64 -> CM.isdig c = false ->
  snd (CM.parseUint64_simple (unsign (J.udigits u ++ [c]))) = false.
Proof. intros u c Hu Hc. rewrite unsign_udigits_app by exact Hu. apply pus_nondigit. apply tail_nondigit. exact Hc. Qed.

Lemma toy_float_time_laws : JL.float_time_laws toyL.
Proof.
  constructor; cbn [toyL JL.c09_leaf_of toy_rt_oracle J.fmt_time J.fmt_f64 J.fmt_f32 J.pfloat JL.o_f64 JL.o_f32 JL.o_pf JL.o_time].
  - apply rfc3339_plain.
  - intros b _. apply udigits_app_numtext; [apply mod64_lt|reflexivity].
  - intros b _. apply udigits_app_numtext; [apply mod32_lt64|reflexivity].
  - intros D b _ _ _. apply toy_naked_ok; [apply udigits_app_numtext; [apply mod64_lt|reflexivity]|].
    apply toy_frac; [apply mod64_lt|reflexivity].
  - intros D b _ _ _. apply toy_naked_ok; [apply udigits_app_numtext; [apply mod32_lt64|reflexivity]|].
    apply toy_frac; [apply mod32_lt64|reflexivity].
  - intros z _. apply toy_pf_some.
  - intros u _. apply toy_pf_some.
Qed.

Lemma toy_json_rt_laws : json_rt_laws toyL.
Proof.
  constructor; cbn [toyL JL.c09_leaf_of toy_rt_oracle J.fmt_time J.fmt_f64 J.fmt_f32 J.pfloat JL.o_f64 JL.o_f32 JL.o_pf JL.o_time].
  - intros b _ Hb. rewrite N.mod_small by exact Hb. apply toy_pf_dot. exact Hb.
  - intros b _ _ f H. pose proof (toy_frac (b mod 2 ^ 64) 46 (mod64_lt b) eq_refl) as F. rewrite H in F. discriminate F.
  - intros b Hs Hb. rewrite N.mod_small by exact Hb. eexists. split.
    + apply toy_pf_e. change (2 ^ 32) with 4294967296 in Hb. change (2 ^ 64) with 18446744073709551616. lia.
    + apply toy_narrow; assumption.
  - intros b _ _ f H. pose proof (toy_frac (b mod 2 ^ 32) 101 (mod32_lt64 b) eq_refl) as F. rewrite H in F. discriminate F.
  - intros s n Hy Hn. apply CT.parse_fmt; assumption.
Qed.

Lemma toy_laws : JL.float_time_laws toyL /\ JR.leaf_laws toyL /\ json_rt_laws toyL.
Proof.
  split; [exact toy_float_time_laws|]. split; [exact (JL.c09_leaf_laws toy_rt_oracle toy_float_time_laws)|exact toy_json_rt_laws].
Qed.

(* hence, with no hypothesis left on the leaf: the composed round trip through the toy leaf *)
Theorem json_compose_toy :
  forall (o : J.eopts) (D : J.dopts) (O : Generic.Enc.gopts) (pi : Generic.Enc.order) (t : ty) (v : gv) (rest : list N),
  Generic.Enc.order_ok pi -> wt t v = true -> supported t = true ->
  J.maxDepthOpt D = Generic.Enc.max_depth O ->
  jwfb toyL o D false (Generic.Enc.to_item O pi v) = true ->
  Generic.Dec.leaves_ok (W_json toyL o D) (Generic.Enc.to_item O pi v) = true ->
  (Z.of_nat (depth (Generic.Enc.to_item O pi v)) < Generic.Dec.maxdepth O)%Z ->
  (J.termWs o = true \/ JR.delim_ok (JR.isnum toyL o false (Generic.Enc.to_item O pi v)) rest) ->
  J.dec_naked toyL D (J.dec_fuel (J.st0 (J.enc_top toyL o (Generic.Enc.to_item O pi v) ++ rest)))
              (J.enc_top toyL o (Generic.Enc.to_item O pi v) ++ rest)
    = Ok (Generic.Dec.wn (W_json toyL o D) (Generic.Enc.to_item O pi v),
          J.inp (JR.after (JR.isnum toyL o false (Generic.Enc.to_item O pi v)) (JR.term o ++ rest))) /\
  Generic.Dec.of_item (W_json toyL o D) O 0 t (Generic.Dec.wn (W_json toyL o D) (Generic.Enc.to_item O pi v))
    = Ok (Generic.Dec.normL Generic.Dec.exact_losses O (Generic.Enc.arrange O pi v)) /\
  veq (Generic.Dec.normL Generic.Dec.exact_losses O (Generic.Enc.arrange O pi v)) (Generic.Dec.normL Generic.Dec.exact_losses O v).
Proof.
  exact (json_compose toyL (JL.c09_leaf_laws toy_rt_oracle toy_float_time_laws) toy_json_rt_laws).
Qed.

(* C01 — correspondence: the generic model against the real generic encoder /
   decoder (cbor driver), on the cases harness/cmd/c01 ran.

   For each case (options, static type, value) the harness encoded the value with
   the real Encoder (cbor), parsed the bytes with its own cbor parser into
   [cobs], and decoded the bytes with the real Decoder into new(T) ([cdec]).
   (a) the model's [to_item] must match [cobs] (exactly under Canonical, up to
       the order of map entries otherwise; integer sign class, float width,
       StringToRaw and time layout being the cbor driver's business);
   (b) the model's [of_item] on [cobs] must give the value the real Decoder gave. *)
From Coq Require Import List NArith ZArith Bool.
From Verif Require Import Base.Outcome Wire.Item Generic.Types Generic.Enc Generic.Dec C01.Model.
Import ListNotations.
Open Scope bool_scope.

Record case := mkcase {
  cid : N;
  copts : gopts;
  cs2r : bool;              (* StringToRaw *)
  cty : ty;
  cval : gv;                (* the value encoded *)
  cobs : item;              (* parsed from the bytes the real encoder wrote *)
  cdec : gv }.              (* what the real decoder produced from those bytes *)

Definition id_order : order := fun _ l => l.

Definition check_enc (c : case) : bool :=
  cbor_match (cs2r c) (canonical (copts c)) (to_item (copts c) id_order (cval c)) (cobs c).

Definition check_dec (c : case) : bool :=
  match of_item cbor_rd (copts c) 0 (cty c) (cobs c) with
  | Ok w => veqb w (cdec c)
  | _ => false
  end.

(* One place where two paths of the generic encoder make different driver calls for
   the same value: a nil []byte under NilCollectionToZeroLength is written by the
   builtin path (encodeBuiltin, encode.go:1137-1138 -> EncodeBytes(nil) ->
   writeNilBytes) as empty BYTES, which is what [enc] says, but when the []byte is
   reached by reflection (Encode(&b) at top level, encodeValue :1193-1201) as an
   empty ARRAY.  Both decode to the empty []byte.  The harness passes a third of
   its values through a pointer, so the top-level case is observed; it is accepted
   here explicitly rather than silently. *)
Definition nil_bytes_by_reflection (c : case) : bool :=
  nil_to_empty (copts c) &&
  match cty c, cval c, cobs c, cdec c with
  | TBytes, GBytes None, IArr [], GBytes (Some []) => true
  | _, _, _, _ => false
  end.

Definition check_case (c : case) : bool :=
  wt (cty c) (cval c) && supported (cty c) && wt (cty c) (cdec c) &&
  ((check_enc c && check_dec c) || nil_bytes_by_reflection c).

Definition mismatches (cs : list case) : list N :=
  map cid (filter (fun c => negb (check_case c)) cs).

(* for debugging a mismatch: which half failed (1 = typing, 2 = encode, 4 = decode) *)
Definition why (c : case) : N :=
  ((if wt (cty c) (cval c) && supported (cty c) && wt (cty c) (cdec c) then 0 else 1)
   + (if check_enc c then 0 else 2) + (if check_dec c then 0 else 4))%N.

(* C01/TypedBinc — binc: the typed reads [rd_*] of the composed driver record [W_binc]
   (C01/ComposeBinc.v) agree with BYTE-LEVEL typed reader models, on the bytes the encoder
   model (Wire/Binc.v [enc]) writes, followed by ANY trailing bytes.

   Part A (numbers; the byte-level model is C07/Model.v's [binc] driver = DecodeInt64 /
   DecodeUint64 / DecodeFloat64 of binc.go on descriptor byte + following bytes + the generic
   layer's narrowing, tied to the real Decoder by the C07 correspondence).  Numbers never touch
   the symbol tables: the encoder state is returned unchanged ([enc_num_state]) and the bytes do
   not depend on it.
       C07.Model.decode binc k (bytes of (fst (enc e key i est) ++ rest)) = typed (W_binc e d) O k (wn i)
     - IInt / IUint x the 11 integer kinds: special zero / -1, small ints, 1..8 byte pruned
       magnitudes (same value or same error class);
     - INil x all 13 kinds (zero);
     - IF64 x float64: the special codes (one zero, one NaN, the infinities), the pruned form
       (trailing zero bytes dropped) and the full form -- the value comes back as [binc_fn64] says
       (sign of zero and NaN payload lost: binc_losses);
     - IF32 x float64 (special codes or 4 bytes, widened exactly).
   Not covered in part A, as for msgpack / simple: float32 destinations, integer <-> float
   cross-kind reads ([rd_*] abstain: Err EUnsupported). *)
From Coq Require Import List NArith ZArith Bool Lia.
From Coq Require Import ZifyN ZifyNat ZifyBool.
From Verif Require Import Base.Word Base.Outcome Base.FBits Gen.Consts Gen.Leaf Wire.Item Generic.Types Generic.Enc Generic.Dec.
From Verif Require Import C01.Model C01.Proofs C01.ComposeFloat C01.ComposeBinc C01.ComposeTyped C01.TypedRd.
From Verif Require C07.Model Wire.Binc Wire.BincProofs.
Import ListNotations.
Open Scope bool_scope.

Ltac Zify.zify_post_hook ::= Z.div_mod_to_equations.

Ltac bconsts := rewrite ?BP.vdSpecial_v, ?BP.vdPosInt_v, ?BP.vdNegInt_v, ?BP.vdFloat_v, ?BP.vdString_v, ?BP.vdByteArray_v, ?BP.vdArray_v,
    ?BP.vdMap_v, ?BP.vdTimestamp_v, ?BP.vdSmallInt_v, ?BP.vdSymbol_v, ?BP.vdCustomExt_v, ?BP.spNil_v, ?BP.spFalse_v, ?BP.spTrue_v,
    ?BP.spNan_v, ?BP.spPosInf_v, ?BP.spNegInf_v, ?BP.spZeroFloat_v, ?BP.spZero_v, ?BP.spNegOne_v, ?BP.flBin32_v, ?BP.flBin64_v in *.

Open Scope Z_scope.

Lemma b_readv : forall k v rest, (v < 256 ^ N.of_nat k)%N -> T.readv k (zb (B.be_put k v ++ rest)) = Ok (Z.of_N v).
Proof.
  intros k v rest Hv. apply readv_zb; [apply BP.be_put_length|].
  change 0 with (Z.of_N 0). rewrite be_val_fold. f_equal. exact (BP.be_get_put k v Hv).
Qed.

(* descriptor byte vd<<4 | vs *)
Lemma b_shr4 : forall vd vs : N, (vs < 16)%N -> shr (Z.of_N (B.mkbd vd vs)) 4 = Z.of_N vd.
Proof. intros vd vs H. unfold shr, B.mkbd. rewrite Z.shiftr_div_pow2 by lia. zpows. lia. Qed.

Lemma b_land15 : forall vd vs : N, (vs < 16)%N -> Z.land (Z.of_N (B.mkbd vd vs)) 15 = Z.of_N vs.
Proof. intros vd vs H. unfold B.mkbd. change 15 with (Z.ones 4). rewrite Z.land_ones by lia. zpows. lia. Qed.

Lemma b_not_nil : forall vd vs : N, (vs < 16)%N -> (0 < vd \/ 0 < vs)%N -> T.binc_nil (Z.of_N (B.mkbd vd vs)) = false.
Proof.
  intros vd vs H1 H2. unfold T.binc_nil, bincBdNil, B.mkbd.
  destruct (Z.eqb_spec (Z.of_N (vd * 16 + vs)) 0); [lia|reflexivity].
Qed.

(* decUint on k = vs + 1 bytes *)
Lemma b_decUint : forall (k : nat) v rest, (1 <= k <= 8)%nat -> (v < 256 ^ N.of_nat k)%N ->
  T.binc_decUint (Z.of_N (N.of_nat k - 1)) (zb (B.be_put k v ++ rest)) = Ok (Z.of_N v).
Proof.
  intros k v rest Hk Hv. unfold T.binc_decUint.
  assert (C : (k = 1 \/ k = 2 \/ k = 3 \/ k = 4 \/ k = 5 \/ k = 6 \/ k = 7 \/ k = 8)%nat) by lia.
  destruct C as [-> | [-> | [-> | [-> | [-> | [-> | [-> | ->]]]]]]];
    cbn [N.of_nat Pos.of_succ_nat Pos.succ N.sub Pos.sub_mask Pos.sub_mask_carry Pos.double_mask Pos.succ_double_mask Pos.pred_double Pos.double_pred_mask
         Z.of_N Z.eqb Pos.eqb]; apply b_readv; exact Hv.
Qed.

(* an integer head with vd in {posint, negint}: the magnitude and the sign flag *)
Lemma b_mag_head : forall (neg : bool) (k : nat) v rest, (1 <= k <= 8)%nat -> (v < 256 ^ N.of_nat k)%N ->
  let bd := Z.of_N (B.mkbd (if neg then 2 else 1) (N.of_nat k - 1)) in
  let r := zb (B.be_put k v ++ rest) in
  T.binc_Int64 bd r = decNegintPosintFloatNumberHelperInt64v (Z.of_N v) neg false /\
  T.binc_Uint64 bd r = (if neg then Err EOther else Ok (Z.of_N v)).
Proof.
  intros neg k v rest Hk Hv bd r. subst bd r. unfold T.binc_Int64, T.binc_Uint64, T.binc_decInteger.
  rewrite b_not_nil by (destruct neg; lia). rewrite b_shr4, b_land15 by lia. cbv zeta.
  destruct neg.
  - change (Z.of_N 2 =? bincVdPosInt) with false. change (Z.of_N 2 =? bincVdNegInt) with true. cbv iota.
    rewrite b_decUint by assumption. cbn [bind]. split; reflexivity.
  - change (Z.of_N 1 =? bincVdPosInt) with true. cbv iota.
    rewrite b_decUint by assumption. cbn [bind]. split; reflexivity.
Qed.

Lemma b_int64v_neg1 : decNegintPosintFloatNumberHelperInt64v 1 true false = Ok (-1).
Proof. reflexivity. Qed.

(* encUint: vd = posint (pos) or negint *)
Lemma b_enc_uint_bytes : forall (pos : bool) v rest, (v < 2 ^ 64)%N ->
  (if pos then True else (2 <= v <= 2 ^ 63)%N) ->
  answers T.binc (zb (B.enc_uint (if pos then B.vdPosInt else B.vdNegInt) pos v ++ rest))
          (if pos then Z.of_N v else - Z.of_N v).
Proof.
  intros pos v rest Hv Hc. unfold B.enc_uint, answers. cbn [T.dInt64 T.dUint64 T.binc].
  change (2 ^ 64)%N with 18446744073709551616%N in Hv.
  destruct (N.eqb_spec v 0) as [E0|E0].
  { destruct pos; [|change (2 ^ 63)%N with 9223372036854775808%N in Hc; lia]. subst v.
    bconsts. exists 7, (zb rest). split; [reflexivity|]. split; vm_compute; reflexivity. }
  destruct (pos && (v <=? 16)%N) eqn:E1.
  { apply andb_true_iff in E1. destruct E1 as [-> E1]. apply N.leb_le in E1. bconsts.
    exists (Z.of_N (B.mkbd 9 (v - 1))), (zb rest). split; [reflexivity|].
    unfold T.binc_Int64, T.binc_Uint64, T.binc_decInteger.
    rewrite b_not_nil by lia. rewrite b_shr4, b_land15 by lia. cbv zeta.
    change (Z.of_N 9 =? bincVdPosInt) with false. change (Z.of_N 9 =? bincVdNegInt) with false.
    change (Z.of_N 9 =? bincVdSmallInt) with true. cbv iota. cbn [bind]. unfold T.hlp_int64, T.hlp_uint64. cbn [andb negb].
    replace (Z.of_N (v - 1) + 1) with (Z.of_N v) by lia.
    rewrite int64v_pos by (zpows; lia). rewrite int_answer_small by (zpows; lia). rewrite uint_answer_pos by lia. split; reflexivity. }
  assert (Hres : forall (k : nat), (1 <= k <= 8)%nat -> (v < 256 ^ N.of_nat k)%N ->
     exists bd r, zb ((B.mkbd (if pos then B.vdPosInt else B.vdNegInt) (N.of_nat k - 1) :: B.be_put k v) ++ rest) = bd :: r /\
       T.binc_Int64 bd r = int_answer (if pos then Z.of_N v else - Z.of_N v) /\
       T.binc_Uint64 bd r = uint_answer (if pos then Z.of_N v else - Z.of_N v)).
  { intros k Hk Hb.
    exists (Z.of_N (B.mkbd (if pos then B.vdPosInt else B.vdNegInt) (N.of_nat k - 1))), (zb (B.be_put k v ++ rest)).
    split; [reflexivity|].
    destruct (b_mag_head (negb pos) k v rest Hk Hb) as [A C]. cbv zeta in A, C.
    destruct pos; cbn [negb] in A, C; bconsts; rewrite A, C.
    - rewrite int64v_pos by (zpows; lia). rewrite uint_answer_pos by lia. split; reflexivity.
    - change (2 ^ 63)%N with 9223372036854775808%N in Hc.
      rewrite int64v_neg by (zpows; lia). rewrite int_answer_small by (zpows; lia). rewrite uint_answer_neg by lia. split; reflexivity. }
  destruct (N.leb_spec v 255) as [E2|E2].
  { assert (Eb : [v] = B.be_put 1 v).
    { cbn [B.be_put app]. rewrite N.mod_small by lia. reflexivity. }
    change (B.mkbd (if pos then B.vdPosInt else B.vdNegInt) 0 :: [v]) with
           (B.mkbd (if pos then B.vdPosInt else B.vdNegInt) (N.of_nat 1 - 1) :: [v]).
    rewrite Eb. apply Hres; [lia|]. change (256 ^ N.of_nat 1)%N with 256%N. lia. }
  destruct (N.leb_spec v 65535) as [E3|E3].
  { change (B.mkbd (if pos then B.vdPosInt else B.vdNegInt) 1) with (B.mkbd (if pos then B.vdPosInt else B.vdNegInt) (N.of_nat 2 - 1)).
    apply Hres; [lia|]. change (256 ^ N.of_nat 2)%N with 65536%N. lia. }
  destruct (BP.int_width_bound v ltac:(change (2 ^ 64)%N with 18446744073709551616%N; exact Hv)) as [Hb Hw].
  apply Hres; [lia|exact Hb].
Qed.

Lemma b_uint_bytes : forall n rest, (n < 2 ^ 64)%N -> answers T.binc (zb (B.enc_uint B.vdPosInt true n ++ rest)) (Z.of_N n).
Proof. intros n rest Hn. exact (b_enc_uint_bytes true n rest Hn I). Qed.

Lemma b_int_bytes : forall z rest, - 2 ^ 63 <= z < 2 ^ 63 -> answers T.binc (zb (B.enc_int z ++ rest)) z.
Proof.
  intros z rest Hz. unfold B.enc_int. destruct (Z.leb_spec 0 z) as [Hp|Hn].
  - pose proof (b_uint_bytes (Z.to_N z) rest) as H. rewrite Z2N.id in H by lia. apply H.
    change (2 ^ 64)%N with 18446744073709551616%N. zpows. lia.
  - destruct (Z.eqb_spec z (-1)) as [->|Hne].
    + bconsts. exists 8, (zb rest). split; [reflexivity|]. split; vm_compute; reflexivity.
    + pose proof (b_enc_uint_bytes false (Z.to_N (- z)) rest) as H. cbv iota in H.
      replace (- Z.of_N (Z.to_N (- z))) with z in H by lia. apply H.
      * change (2 ^ 64)%N with 18446744073709551616%N. zpows. lia.
      * change (2 ^ 63)%N with 9223372036854775808%N. zpows. lia.
Qed.

(* ---- item side ---- *)
Lemma b_std_reads : forall e d, std_reads (W_binc e d).
Proof. intros. repeat apply conj; intros; reflexivity. Qed.

Lemma b_wn_uint : forall e d n, (n < 2 ^ 64)%N -> leaf_ok (W_binc e d) (IUint n) = true ->
  int_form (Z.of_N n) (wn (W_binc e d) (IUint n)).
Proof.
  intros e d n Hn Hl. cbn [wn leaf_ok W_binc b_leaf_ok] in *. unfold b_wn, int_form. cbn [B.norm]. unfold B.norm_uint.
  destruct (B.signedInt d).
  - cbn [negb orb] in Hl. apply N.ltb_lt in Hl. rewrite b_to_i64_small by exact Hl. left. split; [reflexivity|].
    change (2 ^ 63)%N with 9223372036854775808%N in Hl. zpows. lia.
  - right. rewrite N2Z.id. split; [reflexivity|]. change (2 ^ 64)%N with 18446744073709551616%N in Hn. zpows. lia.
Qed.

Lemma b_wn_int : forall e d z, - 2 ^ 63 <= z < 2 ^ 63 -> int_form z (wn (W_binc e d) (IInt z)).
Proof.
  intros e d z Hz. cbn [wn W_binc]. unfold b_wn, int_form. cbn [B.norm].
  destruct (Z.leb_spec 0 z); [|left; split; [reflexivity|exact Hz]]. unfold B.norm_uint.
  destruct (B.signedInt d).
  - left. rewrite b_to_i64_small by (change (2 ^ 63)%N with 9223372036854775808%N; zpows; lia).
    rewrite Z2N.id by lia. split; [reflexivity|exact Hz].
  - right. split; [reflexivity|zpows; lia].
Qed.

Theorem binc_typed_int : forall e d O key est k i rest,
  T.is_int_kind k = true -> int_item i -> leaf_ok (W_binc e d) i = true ->
  T.decode T.binc k (zb (fst (B.enc e key i est) ++ rest)) = typed (W_binc e d) O k (wn (W_binc e d) i).
Proof.
  intros e d O key est k i rest Hk Hi Hl. destruct i; try contradiction; cbn [int_item] in Hi.
  - destruct (b_int_bytes z rest Hi) as (bd & r & E & A & C). cbn [B.enc fst]. rewrite E.
    rewrite (decode_int_spec T.binc k bd r z ltac:(zpows; lia) Hk A C).
    symmetry. apply typed_int_spec; [apply b_std_reads|apply b_wn_int; exact Hi|exact Hk].
  - destruct (b_uint_bytes n rest Hi) as (bd & r & E & A & C). cbn [B.enc fst]. rewrite E.
    rewrite (decode_int_spec T.binc k bd r (Z.of_N n) ltac:(change (2 ^ 64)%N with 18446744073709551616%N in Hi; zpows; lia) Hk A C).
    symmetry. apply typed_int_spec; [apply b_std_reads|apply b_wn_uint; assumption|exact Hk].
Qed.

Theorem binc_typed_nil : forall e d O key est k rest,
  T.decode T.binc k (zb (fst (B.enc e key INil est) ++ rest)) = typed (W_binc e d) O k (wn (W_binc e d) INil).
Proof. intros. destruct k; vm_compute; reflexivity. Qed.

(* numbers, nil and floats leave the encoder's symbol table alone *)
Lemma enc_num_state : forall e key i est,
  match i with INil | IBool _ | IInt _ | IUint _ | IF32 _ | IF64 _ | IBytes _ | ITime _ _ => True | _ => False end ->
  snd (B.enc e key i est) = est.
Proof. intros e key i est H. destruct i; try contradiction; reflexivity. Qed.

(* ---- floats ---- *)
Lemma typed_f64_item : forall W O y, is_nil W (IF64 y) = false -> rd_f64 W (IF64 y) = Ok y ->
  typed W O T.KFloat64 (IF64 y) = Ok (Z.of_N y).
Proof.
  intros W O y Hn Hr. unfold typed. rewrite of_item_scalar by reflexivity. rewrite Hn.
  cbn [ty_of]. rewrite Hr. reflexivity.
Qed.

Lemma b_typed_f64 : forall e d O y, typed (W_binc e d) O T.KFloat64 (IF64 y) = Ok (Z.of_N y).
Proof. intros. apply typed_f64_item; reflexivity. Qed.

(* the special float codes: one byte *)
Lemma b_spfloat_bytes : forall x l rest, B.enc_spfloat x = Some l ->
  exists y, B.norm_f64 x = IF64 y /\ T.decode T.binc T.KFloat64 (zb (l ++ rest)) = Ok (Z.of_N y).
Proof.
  intros x l rest. unfold B.enc_spfloat, B.norm_f64.
  destruct (B.f64_is_zero x) eqn:Ez.
  { intros H; inversion H; subst. exists 0%N. split; [reflexivity|]. bconsts. vm_compute. reflexivity. }
  destruct (B.f64_is_nan x) eqn:En.
  { intros H; inversion H; subst. exists B.f64_nan. split; [unfold B.f64_canon; rewrite En; reflexivity|].
    bconsts. vm_compute. reflexivity. }
  destruct (N.eqb_spec x B.f64_posinf) as [Ep|Ep].
  { intros H; inversion H; subst. exists B.f64_posinf. split; [unfold B.f64_canon; rewrite En; reflexivity|].
    bconsts. vm_compute. reflexivity. }
  destruct (N.eqb_spec x B.f64_neginf) as [Eq|Eq].
  { intros H; inversion H; subst. exists B.f64_neginf. split; [unfold B.f64_canon; rewrite En; reflexivity|].
    bconsts. vm_compute. reflexivity. }
  discriminate.
Qed.

Lemma b_spfloat_none_canon : forall x, B.enc_spfloat x = None -> B.norm_f64 x = IF64 x.
Proof.
  intros x H. rewrite (BP.enc_spfloat_none x H). unfold B.f64_canon.
  unfold B.enc_spfloat in H. destruct (B.f64_is_zero x); [discriminate|]. destruct (B.f64_is_nan x); [discriminate|reflexivity].
Qed.

Lemma be_get_zeros : forall n l, B.be_get (l ++ repeat 0%N n) = (B.be_get l * 256 ^ N.of_nat n)%N.
Proof.
  induction n as [|n IH]; intro l.
  - cbn [repeat]. rewrite app_nil_r. change (256 ^ N.of_nat 0)%N with 1%N. lia.
  - cbn [repeat]. change (l ++ 0%N :: repeat 0%N n) with (l ++ [0%N] ++ repeat 0%N n). rewrite app_assoc, IH, BP.be_get_app1.
    rewrite Nat2N.inj_succ, N.pow_succ_r'. lia.
Qed.

Lemma be_val_zb : forall l, be_val 0 (zb l) = Z.of_N (B.be_get l).
Proof. intro l. change 0 with (Z.of_N 0). rewrite be_val_fold. reflexivity. Qed.

Lemma b_f64_bytes : forall b rest, (b < 2 ^ 64)%N ->
  exists y, B.norm_f64 b = IF64 y /\ T.decode T.binc T.KFloat64 (zb (B.enc_f64 b ++ rest)) = Ok (Z.of_N y).
Proof.
  intros b rest Hb. unfold B.enc_f64. destruct (B.enc_spfloat b) eqn:E.
  { exact (b_spfloat_bytes b l rest E). }
  exists b. split; [exact (b_spfloat_none_canon b E)|].
  set (kept := rev (B.strip0 (rev (B.be_put 8 b)))).
  destruct (Nat.leb_spec (length kept) 6) as [E6|E6].
  - bconsts.
    change (zb ((B.mkbd 3 (8 + 3) :: B.len kept :: kept) ++ rest)) with (59 :: Z.of_N (B.len kept) :: zb (kept ++ rest)).
    cbn [T.decode T.dFloat64 T.binc]. unfold T.binc_Float64. change (T.binc_nil 59) with false. cbv iota.
    unfold T.binc_decFloat. change (shr 59 4) with 3. change (Z.land 59 15) with 11. cbv zeta.
    change (3 =? bincVdSpecial) with false. change (3 =? bincVdFloat) with true. cbv iota.
    unfold T.binc_decFloatVal. change (Z.land 11 7) with 3. cbv zeta.
    change (3 =? bincFlBin32) with false. change (3 =? bincFlBin64) with true. cbv iota.
    unfold T.binc_floatPre. change (Z.land 11 8 =? 0) with false. cbv iota.
    unfold T.readn at 1. cbn [length]. change (Nat.ltb (S (length (zb (kept ++ rest)))) 1) with false. cbv iota. cbn [bind firstn skipn be_val].
    change (0 * 256 + Z.of_N (B.len kept)) with (Z.of_N (B.len kept)).
    unfold B.len. destruct (Z.ltb_spec (Z.of_nat 8) (Z.of_N (N.of_nat (length kept)))) as [A|A]; [lia|].
    replace (Z.to_nat (Z.of_N (N.of_nat (length kept)))) with (length kept) by lia.
    rewrite (readv_zb kept rest (length kept) (B.be_get kept) eq_refl (be_val_zb kept)). cbn [bind T.hlp_float64].
    f_equal.
    pose proof (BP.pad0_strip (B.be_put 8 b)) as P. fold kept in P. rewrite BP.be_put_length in P.
    pose proof (BP.be_get_put 8 b ltac:(change (256 ^ N.of_nat 8)%N with 18446744073709551616%N; change (2 ^ 64)%N with 18446744073709551616%N in Hb; exact Hb)) as G.
    rewrite <- P in G. unfold B.pad0 in G. rewrite be_get_zeros in G.
    rewrite <- G. rewrite N2Z.inj_mul, N2Z.inj_pow. f_equal. f_equal. lia.
  - bconsts.
    change (zb ((B.mkbd 3 3 :: B.be_put 8 b) ++ rest)) with (51 :: zb (B.be_put 8 b ++ rest)).
    cbn [T.decode T.dFloat64 T.binc]. unfold T.binc_Float64. change (T.binc_nil 51) with false. cbv iota.
    unfold T.binc_decFloat. change (shr 51 4) with 3. change (Z.land 51 15) with 3. cbv zeta.
    change (3 =? bincVdSpecial) with false. change (3 =? bincVdFloat) with true. cbv iota.
    unfold T.binc_decFloatVal. change (Z.land 3 7) with 3. cbv zeta.
    change (3 =? bincFlBin32) with false. change (3 =? bincFlBin64) with true. cbv iota.
    unfold T.binc_floatPre. change (Z.land 3 8 =? 0) with true. cbv iota.
    rewrite b_readv by (change (256 ^ N.of_nat 8)%N with 18446744073709551616%N; change (2 ^ 64)%N with 18446744073709551616%N in Hb; exact Hb).
    reflexivity.
Qed.

Theorem binc_typed_f64 : forall e d O key est b rest, (b < 2 ^ 64)%N ->
  T.decode T.binc T.KFloat64 (zb (fst (B.enc e key (IF64 b) est) ++ rest)) = typed (W_binc e d) O T.KFloat64 (wn (W_binc e d) (IF64 b)).
Proof.
  intros e d O key est b rest Hb. cbn [B.enc fst wn W_binc]. unfold b_wn. cbn [B.norm].
  destruct (b_f64_bytes b rest Hb) as (y & Hy & Hd). rewrite Hd, Hy. symmetry. apply b_typed_f64.
Qed.

(* float32: Wire/Binc's widening is the canonical one off the NaNs, THE NaN on them *)
Lemma binc_f32_widen : forall b, (b < 2 ^ 32)%N ->
  (nan32 b = false -> B.f32_to_f64 b = widen_c b) /\ (nan32 b = true -> B.f32_to_f64 b = B.f64_nan).
Proof.
  intros b Hb. unfold B.f32_to_f64, widen_c, nan32. split; intro En.
  - apply N.ltb_ge in En.
    destruct (N.eqb_spec ((b / 2 ^ 23) mod 256) 0) as [A|A].
    + rewrite A. reflexivity.
    + destruct (N.eqb_spec ((b / 2 ^ 23) mod 256) 255) as [C|C]; [|reflexivity].
      destruct (N.eqb_spec (b mod 2 ^ 23) 0) as [M|M]; [reflexivity|]. exfalso. revert Hb En C M. pows. lia.
  - apply N.ltb_lt in En.
    destruct (N.eqb_spec ((b / 2 ^ 23) mod 256) 0) as [A|A]; [exfalso; revert Hb En A; pows; lia|].
    destruct (N.eqb_spec ((b / 2 ^ 23) mod 256) 255) as [C|C]; [|exfalso; revert Hb En A C; pows; lia].
    destruct (N.eqb_spec (b mod 2 ^ 23) 0) as [M|M]; [exfalso; revert Hb En C M; pows; lia|]. reflexivity.
Qed.

Lemma b_f32_bytes : forall b rest, (b < 2 ^ 32)%N ->
  exists y, B.norm_f64 (B.f32_to_f64 b) = IF64 y /\ T.decode T.binc T.KFloat64 (zb (B.enc_f32 b ++ rest)) = Ok (Z.of_N y).
Proof.
  intros b rest Hb. unfold B.enc_f32. destruct (B.enc_spfloat (B.f32_to_f64 b)) eqn:E.
  { exact (b_spfloat_bytes _ l rest E). }
  exists (B.f32_to_f64 b). split; [exact (b_spfloat_none_canon _ E)|].
  assert (En : nan32 b = false).
  { destruct (nan32 b) eqn:En; [|reflexivity]. exfalso.
    rewrite (proj2 (binc_f32_widen b Hb) En) in E. vm_compute in E. discriminate. }
  rewrite (proj1 (binc_f32_widen b Hb) En).
  bconsts.
  change (zb ((B.mkbd 3 1 :: B.be_put 4 b) ++ rest)) with (49 :: zb (B.be_put 4 b ++ rest)).
  cbn [T.decode T.dFloat64 T.binc]. unfold T.binc_Float64. change (T.binc_nil 49) with false. cbv iota.
  unfold T.binc_decFloat. change (shr 49 4) with 3. change (Z.land 49 15) with 1. cbv zeta.
  change (3 =? bincVdSpecial) with false. change (3 =? bincVdFloat) with true. cbv iota.
  unfold T.binc_decFloatVal. change (Z.land 1 7) with 1. cbv zeta.
  change (1 =? bincFlBin32) with true. cbv iota.
  unfold T.binc_floatPre. change (Z.land 1 8 =? 0) with true. cbv iota.
  rewrite b_readv by (change (256 ^ N.of_nat 4)%N with 4294967296%N; change (2 ^ 32)%N with 4294967296%N in Hb; exact Hb).
  cbn [bind T.hlp_float64]. rewrite fbits_widen by exact Hb. reflexivity.
Qed.

Theorem binc_typed_f32_f64 : forall e d O key est b rest, (b < 2 ^ 32)%N ->
  T.decode T.binc T.KFloat64 (zb (fst (B.enc e key (IF32 b) est) ++ rest)) = typed (W_binc e d) O T.KFloat64 (wn (W_binc e d) (IF32 b)).
Proof.
  intros e d O key est b rest Hb. cbn [B.enc fst wn W_binc]. unfold b_wn. cbn [B.norm].
  destruct (b_f32_bytes b rest Hb) as (y & Hy & Hd). rewrite Hd, Hy. symmetry. apply b_typed_f64.
Qed.

(* ---- the statement exported to Properties/C01_compose.v (numbers) ---- *)
Lemma binc_typed_reads_num : forall (e : B.eopts) (d : B.dopts) (O : gopts) (key : bool) (est : B.estate) (rest : list N),
  (forall k i, T.is_int_kind k = true -> int_item i -> leaf_ok (W_binc e d) i = true ->
     T.decode T.binc k (zb (fst (B.enc e key i est) ++ rest)) = typed (W_binc e d) O k (wn (W_binc e d) i)
     /\ snd (B.enc e key i est) = est) /\
  (forall k, T.decode T.binc k (zb (fst (B.enc e key INil est) ++ rest)) = typed (W_binc e d) O k (wn (W_binc e d) INil)
     /\ snd (B.enc e key INil est) = est) /\
  (forall b, (b < 2 ^ 64)%N ->
     T.decode T.binc T.KFloat64 (zb (fst (B.enc e key (IF64 b) est) ++ rest)) = typed (W_binc e d) O T.KFloat64 (wn (W_binc e d) (IF64 b))
     /\ snd (B.enc e key (IF64 b) est) = est) /\
  (forall b, (b < 2 ^ 32)%N ->
     T.decode T.binc T.KFloat64 (zb (fst (B.enc e key (IF32 b) est) ++ rest)) = typed (W_binc e d) O T.KFloat64 (wn (W_binc e d) (IF32 b))
     /\ snd (B.enc e key (IF32 b) est) = est).
Proof.
  intros e d O key est rest. repeat apply conj.
  - intros k i Hk Hi Hl. split; [apply binc_typed_int; assumption|]. destruct i; try contradiction; reflexivity.
  - intros. split; [apply binc_typed_nil|reflexivity].
  - intros. split; [apply binc_typed_f64; assumption|reflexivity].
  - intros. split; [apply binc_typed_f32_f64; assumption|reflexivity].
Qed.

(* ================================================================== *)
(* Part B: the remaining typed reads (byte-level models: C01/TypedRd.v); strings go through the
   symbol tables: stateful, in any related pair of Encoder / Decoder tables (BincProofs.R) *)
Open Scope N_scope.

Definition gen_item (i : item) : Prop := match i with ITag _ _ | IExt _ _ => False | _ => True end.
Definition written_nil (i : item) : bool :=
  match i with INil => true | ITime s n => is_time_zero s n | _ => false end.

(* ---- the first byte ---- *)
Definition hd_vd (l : list N) (vd : N) : Prop := exists vs tl, l = B.mkbd vd vs :: tl /\ vs < 16.

Lemma hd_vd_app : forall l r vd, hd_vd l vd -> hd_vd (l ++ r) vd.
Proof. intros l r vd (vs & tl & -> & H). exists vs, (tl ++ r). split; [reflexivity|exact H]. Qed.

Lemma enc_len_hd : forall vd l, hd_vd (B.enc_len vd l) vd.
Proof.
  intros vd l. unfold B.enc_len, hd_vd.
  destruct (N.ltb_spec l 12); [exists (l + 4), []; split; [reflexivity|lia]|].
  destruct (l <=? 255); [exists 0, [l]; split; [reflexivity|lia]|].
  destruct (l <=? 65535); [eexists 1, _; split; [reflexivity|lia]|].
  destruct (l <=? 4294967295); [eexists 2, _; split; [reflexivity|lia]|].
  eexists 3, _; split; [reflexivity|lia].
Qed.

Definition hd_nz (l : list N) : Prop := exists bd tl, l = bd :: tl /\ bd <> 0.

Lemma hd_vd_nz : forall l vd, hd_vd l vd -> 0 < vd -> hd_nz l.
Proof. intros l vd (vs & tl & -> & H) Hv. exists (B.mkbd vd vs), tl. split; [reflexivity|unfold B.mkbd; lia]. Qed.

Lemma enc_uint_nz : forall vd pos v, 0 < vd -> hd_nz (B.enc_uint vd pos v).
Proof.
  intros vd pos v Hvd. unfold B.enc_uint.
  destruct (v =? 0); [bconsts; eexists _, _; split; [reflexivity|vm_compute; discriminate]|].
  destruct (pos && (v <=? 16)); [bconsts; eexists _, _; split; [reflexivity|unfold B.mkbd; lia]|].
  destruct (v <=? 255); [eexists _, _; split; [reflexivity|unfold B.mkbd; lia]|].
  destruct (v <=? 65535); eexists _, _; (split; [reflexivity|unfold B.mkbd; lia]).
Qed.

Lemma enc_spfloat_nz : forall x l, B.enc_spfloat x = Some l -> hd_nz l.
Proof.
  intros x l. unfold B.enc_spfloat.
  repeat match goal with |- context [if ?c then _ else _] => destruct c end; intro H; inversion H; subst;
    bconsts; eexists _, _; (split; [reflexivity|vm_compute; discriminate]).
Qed.

Lemma enc_str_hd : forall e key s est,
  hd_vd (fst (B.enc_str e key s est)) 4 \/ hd_vd (fst (B.enc_str e key s est)) 5 \/ hd_vd (fst (B.enc_str e key s est)) 11.
Proof.
  intros e key s est. unfold B.enc_str.
  destruct (B.stringToRaw e); [right; left; cbn [fst]; bconsts; apply hd_vd_app, enc_len_hd|].
  destruct (key && B.asSymbols e); [|left; cbn [fst]; bconsts; apply hd_vd_app, enc_len_hd].
  unfold B.enc_symbol.
  destruct (B.len s <? 2); [left; cbn [fst]; bconsts; apply hd_vd_app, enc_len_hd|].
  destruct (B.emap_get (B.emap est) s).
  { right; right. cbn [fst]. bconsts. destruct (n <=? 255); eexists _, _; (split; [reflexivity|lia]). }
  destruct (B.eseq est =? 65535); [left; cbn [fst]; bconsts; apply hd_vd_app, enc_len_hd|].
  right; right. cbn [fst]. bconsts.
  destruct (B.eseq est + 1 <=? 255); cbn [app]; eexists _, _; (split; [reflexivity|]);
    repeat match goal with |- context [?a <=? ?b] => destruct (a <=? b) end; lia.
Qed.

Lemma b_enc_first : forall e key i est, gen_item i -> written_nil i = false -> hd_nz (fst (B.enc e key i est)).
Proof.
  intros e key i est Hg Hn. destruct i as [|b|z|n|b|b|s|s|l|l|t v|t s|s n]; try contradiction; try discriminate;
    try rewrite BP.enc_arr_eq; try rewrite BP.enc_map_eq; cbn [B.enc fst].
  - bconsts. destruct b; eexists _, _; (split; [reflexivity|vm_compute; discriminate]).
  - unfold B.enc_int. destruct (0 <=? z)%Z; [bconsts; apply enc_uint_nz; lia|].
    destruct (z =? -1)%Z; [bconsts; eexists _, _; split; [reflexivity|vm_compute; discriminate]|bconsts; apply enc_uint_nz; lia].
  - bconsts. apply enc_uint_nz. lia.
  - unfold B.enc_f32. destruct (B.enc_spfloat (B.f32_to_f64 b)) eqn:E; [exact (enc_spfloat_nz _ _ E)|].
    bconsts. eexists _, _; split; [reflexivity|vm_compute; discriminate].
  - unfold B.enc_f64. destruct (B.enc_spfloat b) eqn:E; [exact (enc_spfloat_nz _ _ E)|].
    bconsts. destruct (_ <=? 6)%nat; eexists _, _; (split; [reflexivity|vm_compute; discriminate]).
  - destruct (enc_str_hd e key s est) as [H|[H|H]]; eapply hd_vd_nz; try exact H; lia.
  - bconsts. eapply hd_vd_nz; [apply hd_vd_app, enc_len_hd|lia].
  - destruct (BP.enc_list e l est) as [bs st']. cbn [fst]. bconsts.
    eapply hd_vd_nz; [apply hd_vd_app, enc_len_hd|lia].
  - destruct (BP.enc_pairs e l est) as [bs st']. cbn [fst]. bconsts.
    eapply hd_vd_nz; [apply hd_vd_app, enc_len_hd|lia].
  - unfold B.enc_time. cbn [written_nil] in Hn. unfold is_time_zero in Hn. unfold B.zero_time_sec.
    change time_zero_sec with (-62135596800)%Z in Hn. rewrite Hn. bconsts.
    eexists _, _; split; [reflexivity|unfold B.mkbd; lia].
Qed.

Lemma b_enc_written_nil : forall e key i est, gen_item i -> written_nil i = true -> fst (B.enc e key i est) = [0].
Proof.
  intros e key i est Hg H. destruct i as [|b|z|n|b|b|s|s|l|l|t v|t s|s n]; try discriminate; try contradiction; [reflexivity|].
  cbn [B.enc written_nil fst] in *. unfold B.enc_time, B.zero_time_sec. unfold is_time_zero in H.
  change time_zero_sec with (-62135596800)%Z in H. rewrite H. reflexivity.
Qed.

Lemma b_is_nil_wn : forall e d i, gen_item i -> is_nil (W_binc e d) (wn (W_binc e d) i) = written_nil i.
Proof.
  intros e d i Hg. destruct i as [|b|z|n|b|b|s|s|l|l|t v|t s|s n]; try contradiction; cbn [wn is_nil W_binc written_nil]; unfold b_wn; cbn [B.norm].
  - reflexivity.
  - reflexivity.
  - destruct (0 <=? z)%Z; [unfold B.norm_uint; destruct (B.signedInt d)|]; reflexivity.
  - unfold B.norm_uint; destruct (B.signedInt d); reflexivity.
  - unfold B.norm_f64. destruct (B.f64_is_zero _); reflexivity.
  - unfold B.norm_f64. destruct (B.f64_is_zero _); reflexivity.
  - destruct (B.stringToRaw e); [destruct (B.rawToString d)|]; reflexivity.
  - destruct (B.rawToString d); reflexivity.
  - reflexivity.
  - reflexivity.
  - exact (proj2 (proj2 (proj2 (W_binc_losses e d))) s n).
Qed.

(* TryNil on the bytes of any generic item = is_nil on the normalised item *)
Theorem binc_typed_trynil : forall e d key i est rest, gen_item i ->
  b_TryNil (fst (B.enc e key i est) ++ rest)
    = Ok (is_nil (W_binc e d) (wn (W_binc e d) i),
          if is_nil (W_binc e d) (wn (W_binc e d) i) then rest else fst (B.enc e key i est) ++ rest).
Proof.
  intros e d key i est rest Hg. rewrite (b_is_nil_wn e d i Hg). destruct (written_nil i) eqn:E.
  - rewrite (b_enc_written_nil e key i est Hg E). reflexivity.
  - destruct (b_enc_first e key i est Hg E) as (bd & tl & Eq & Hnz). rewrite Eq. cbn [app b_TryNil].
    change b_bdNil with 0. destruct (N.eqb_spec bd 0); [contradiction|reflexivity].
Qed.

(* ---- DecodeBool ---- *)
Theorem binc_typed_bool : forall e d O key est x rest,
  stored GBool (b_DecodeBool (fst (B.enc e key (IBool x) est) ++ rest))
    = leaving (of_item (W_binc e d) O 0 TBool (wn (W_binc e d) (IBool x))) rest.
Proof. intros e d O key est x rest. destruct x; reflexivity. Qed.

(* ---- DecodeStringAsBytes: the typed read IS the naked decoder's string case, on any input ---- *)
Lemma b_str_naked : forall o bd r st,
  bd / 16 = 4 \/ bd / 16 = 5 \/ bd / 16 = 11 ->
  B.dec_scalar o (bd / 16) (bd mod 16) st r
  = (do (sr, st') <- b_DecodeStringAsBytes st (bd :: r) ;;
     Ok ((if bd / 16 =? 5 then (if B.rawToString o then IStr (fst sr) else IBytes (fst sr)) else IStr (fst sr)), snd sr, st')).
Proof.
  intros o bd r st Hvd. unfold b_DecodeStringAsBytes. change b_bdNil with 0.
  destruct (N.eqb_spec bd 0) as [E0|E0]; [subst bd; destruct Hvd as [H|[H|H]]; vm_compute in H; discriminate|].
  cbv zeta. unfold B.dec_scalar. bconsts.
  destruct Hvd as [H|[H|H]]; rewrite H; cbn [N.eqb Pos.eqb orb].
  - destruct (B.dec_len (bd mod 16) r) as [[l r1]| |]; cbn [bind]; try reflexivity.
    destruct (B.take l r1) as [[s r2]| |]; reflexivity.
  - destruct (B.dec_len (bd mod 16) r) as [[l r1]| |]; cbn [bind]; try reflexivity.
    destruct (B.take l r1) as [[s r2]| |]; reflexivity.
  - destruct (B.rd_symbol (bd mod 16) st r) as [[[s r'] st']| |]; reflexivity.
Qed.

Lemma b_dec_head : forall o rf lf dep st bd r, bd / 16 <> 6 -> bd / 16 <> 7 ->
  B.dec o (S rf) lf dep st (bd :: r) = B.dec_scalar o (bd / 16) (bd mod 16) st r.
Proof.
  intros. cbn [B.dec]. bconsts.
  destruct (N.eqb_spec (bd / 16) 6); [contradiction|]. destruct (N.eqb_spec (bd / 16) 7); [contradiction|]. reflexivity.
Qed.

Theorem binc_typed_str : forall e d O key s est dst rest,
  B.lenok s -> BP.R est dst ->
  exists dst',
    b_DecodeStringAsBytes dst (fst (B.enc e key (IStr s) est) ++ rest) = Ok (s, rest, dst')
    /\ BP.R (snd (B.enc e key (IStr s) est)) dst'
    /\ of_item (W_binc e d) O 0 TString (wn (W_binc e d) (IStr s)) = Ok (GStr s).
Proof.
  intros e d O key s est dst rest Hs HR. cbn [B.enc].
  destruct (BP.enc_str_dec e d 0 0 0 est dst rest key s Hs HR) as (dst' & Hd & HR').
  exists dst'. split; [|split; [exact HR'|]].
  - assert (Hh : exists bd tl, fst (B.enc_str e key s est) = bd :: tl /\ (bd / 16 = 4 \/ bd / 16 = 5 \/ bd / 16 = 11)).
    { destruct (enc_str_hd e key s est) as [(vs & tl & E & Hv)|[(vs & tl & E & Hv)|(vs & tl & E & Hv)]];
        eexists _, tl; (split; [exact E|]); rewrite BP.mkbd_div by exact Hv; auto. }
    destruct Hh as (bd & tl & E & Hvd). rewrite E in *. cbn [app] in *.
    rewrite b_dec_head in Hd by (destruct Hvd as [H|[H|H]]; rewrite H; discriminate).
    rewrite (b_str_naked d bd (tl ++ rest) dst Hvd) in Hd.
    destruct (b_DecodeStringAsBytes dst (bd :: tl ++ rest)) as [[[s' r'] st']| |]; cbn [bind fst snd] in Hd; try discriminate.
    cbn [B.norm] in Hd.
    assert (s' = s /\ r' = rest /\ st' = dst').
    { destruct (bd / 16 =? 5); destruct (B.stringToRaw e); destruct (B.rawToString d); inversion Hd; auto. }
    destruct H as (-> & -> & ->). reflexivity.
  - cbn [wn W_binc]. unfold b_wn. cbn [B.norm].
    destruct (B.stringToRaw e); [destruct (B.rawToString d)|]; reflexivity.
Qed.

(* ---- DecodeBytes ---- *)
Theorem binc_typed_bytes : forall e d O key s est rest, B.lenok s ->
  stored (fun x => GBytes (Some x)) (b_DecodeBytes (fst (B.enc e key (IBytes s) est) ++ rest))
    = leaving (of_item (W_binc e d) O 0 TBytes (wn (W_binc e d) (IBytes s))) rest.
Proof.
  intros e d O key s est rest Hs. cbn [B.enc fst]. unfold B.lenok in Hs.
  destruct (BP.enc_len_spec B.vdByteArray (B.len s) Hs) as (vs & tl & E & Hvs & Hfn). rewrite E.
  rewrite <- !app_assoc. cbn [app b_DecodeBytes]. change b_bdNil with 0. bconsts.
  destruct (N.eqb_spec (B.mkbd 5 vs) 0) as [Z|_]; [unfold B.mkbd in Z; lia|].
  cbv zeta. rewrite BP.mkbd_div, BP.mkbd_mod by exact Hvs. cbn [N.eqb Pos.eqb orb].
  rewrite (BP.dec_len_fn _ _ _ _ (Hfn _) Hs). cbn [bind]. rewrite BP.take_app by reflexivity.
  cbn [wn W_binc]. unfold b_wn. cbn [B.norm]. destruct (B.rawToString d); reflexivity.
Qed.

(* ---- DecodeTime ---- *)
Theorem binc_typed_time : forall e d O key est s n rest, (- 2 ^ 63 <= s < 2 ^ 63)%Z -> n < 1000000000 ->
  stored (fun sn : Z * N => GTime (fst sn) (snd sn)) (b_DecodeTime (fst (B.enc e key (ITime s n) est) ++ rest))
    = leaving (of_item (W_binc e d) O 0 TTime (wn (W_binc e d) (ITime s n))) rest.
Proof.
  intros e d O key est s n rest Hs Hn. cbn [B.enc fst wn W_binc]. unfold b_wn. cbn [B.norm]. unfold B.enc_time.
  destruct ((s =? B.zero_time_sec)%Z && (n =? 0)) eqn:Ez; [reflexivity|].
  pose proof (BP.time_bytes_len s n) as Hl. cbn [app b_DecodeTime]. change b_bdNil with 0. bconsts.
  destruct (N.eqb_spec (B.mkbd 8 (B.len (B.time_bytes s n))) 0) as [Z|_]; [unfold B.mkbd in Z; lia|].
  cbv zeta. rewrite BP.mkbd_div, BP.mkbd_mod by exact Hl. cbn [N.eqb Pos.eqb negb].
  rewrite BP.take_app by reflexivity. cbn [bind]. rewrite BP.dec_time_bytes by assumption. reflexivity.
Qed.

(* ---- ReadArrayStart / ReadMapStart ---- *)
Lemma b_read_start : forall vd l body rest, 0 < vd -> l < 2 ^ 63 ->
  b_ReadStart vd ((B.enc_len vd l ++ body) ++ rest) = Ok (LKnown l, body ++ rest).
Proof.
  intros vd l body rest Hvd Hl. destruct (BP.enc_len_spec vd l Hl) as (vs & tl & E & Hvs & Hfn). rewrite E.
  rewrite <- !app_assoc. cbn [app b_ReadStart]. change b_bdNil with 0.
  destruct (N.eqb_spec (B.mkbd vd vs) 0) as [Z|_]; [unfold B.mkbd in Z; lia|].
  cbv zeta. rewrite BP.mkbd_div, BP.mkbd_mod by exact Hvs. rewrite N.eqb_refl. cbn [negb].
  rewrite (BP.dec_len_fn _ _ _ _ (Hfn _) Hl). reflexivity.
Qed.

Theorem binc_typed_array_start : forall e d key l est rest, B.lenok l ->
  b_ReadArrayStart (fst (B.enc e key (IArr l) est) ++ rest) = Ok (LKnown (B.len l), fst (BP.enc_list e l est) ++ rest)
  /\ snd (B.enc e key (IArr l) est) = snd (BP.enc_list e l est)
  /\ wn (W_binc e d) (IArr l) = IArr (map (wn (W_binc e d)) l).
Proof.
  intros e d key l est rest Hl. rewrite BP.enc_arr_eq. destruct (BP.enc_list e l est) as [bs st']. cbn [fst snd].
  split; [|split; reflexivity]. unfold b_ReadArrayStart. bconsts. apply b_read_start; [lia|exact Hl].
Qed.

Theorem binc_typed_map_start : forall e d key l est rest, B.lenok l ->
  b_ReadMapStart (fst (B.enc e key (IMap l) est) ++ rest) = Ok (LKnown (B.len l), fst (BP.enc_pairs e l est) ++ rest)
  /\ snd (B.enc e key (IMap l) est) = snd (BP.enc_pairs e l est)
  /\ wn (W_binc e d) (IMap l) = IMap (map (fun kv => (wnk (W_binc e d) (fst kv), wn (W_binc e d) (snd kv))) l).
Proof.
  intros e d key l est rest Hl. rewrite BP.enc_map_eq. destruct (BP.enc_pairs e l est) as [bs st']. cbn [fst snd].
  split; [|split; reflexivity]. unfold b_ReadMapStart. bconsts. apply b_read_start; [lia|exact Hl].
Qed.

(* ---- the statement exported to Properties/C01_compose.v (the other reads) ---- *)
Lemma binc_typed_reads_leaves : forall (e : B.eopts) (d : B.dopts) (O : gopts) (key : bool)
    (est : B.estate) (dst : B.dstate) (rest : list N),
  BP.R est dst ->
  (* TryNil on every generic item *)
  (forall i, gen_item i ->
     b_TryNil (fst (B.enc e key i est) ++ rest)
       = Ok (is_nil (W_binc e d) (wn (W_binc e d) i),
             if is_nil (W_binc e d) (wn (W_binc e d) i) then rest else fst (B.enc e key i est) ++ rest)) /\
  (* DecodeBool *)
  (forall x, stored GBool (b_DecodeBool (fst (B.enc e key (IBool x) est) ++ rest))
               = leaving (of_item (W_binc e d) O 0 TBool (wn (W_binc e d) (IBool x))) rest) /\
  (* DecodeStringAsBytes: plain, raw, symbol definition, symbol reference; the tables stay related *)
  (forall s, B.lenok s ->
     exists dst',
       b_DecodeStringAsBytes dst (fst (B.enc e key (IStr s) est) ++ rest) = Ok (s, rest, dst')
       /\ BP.R (snd (B.enc e key (IStr s) est)) dst'
       /\ of_item (W_binc e d) O 0 TString (wn (W_binc e d) (IStr s)) = Ok (GStr s)) /\
  (* DecodeBytes *)
  (forall s, B.lenok s ->
     stored (fun x => GBytes (Some x)) (b_DecodeBytes (fst (B.enc e key (IBytes s) est) ++ rest))
       = leaving (of_item (W_binc e d) O 0 TBytes (wn (W_binc e d) (IBytes s))) rest) /\
  (* DecodeTime *)
  (forall s n, (- 2 ^ 63 <= s < 2 ^ 63)%Z -> n < 1000000000 ->
     stored (fun sn : Z * N => GTime (fst sn) (snd sn)) (b_DecodeTime (fst (B.enc e key (ITime s n) est) ++ rest))
       = leaving (of_item (W_binc e d) O 0 TTime (wn (W_binc e d) (ITime s n))) rest) /\
  (* ReadArrayStart, ReadMapStart: the length, then the elements' bytes in the threaded state *)
  (forall l, B.lenok l ->
     b_ReadArrayStart (fst (B.enc e key (IArr l) est) ++ rest) = Ok (LKnown (B.len l), fst (BP.enc_list e l est) ++ rest)
     /\ snd (B.enc e key (IArr l) est) = snd (BP.enc_list e l est)
     /\ wn (W_binc e d) (IArr l) = IArr (map (wn (W_binc e d)) l)) /\
  (forall l, B.lenok l ->
     b_ReadMapStart (fst (B.enc e key (IMap l) est) ++ rest) = Ok (LKnown (B.len l), fst (BP.enc_pairs e l est) ++ rest)
     /\ snd (B.enc e key (IMap l) est) = snd (BP.enc_pairs e l est)
     /\ wn (W_binc e d) (IMap l) = IMap (map (fun kv => (wnk (W_binc e d) (fst kv), wn (W_binc e d) (snd kv))) l)).
Proof.
  intros e d O key est dst rest HR. repeat apply conj.
  - intros i Hg. apply binc_typed_trynil. exact Hg.
  - intros. apply binc_typed_bool.
  - intros s Hs. apply binc_typed_str; assumption.
  - intros. apply binc_typed_bytes; assumption.
  - intros. apply binc_typed_time; assumption.
  - intros. apply binc_typed_array_start; assumption.
  - intros. apply binc_typed_map_start; assumption.
Qed.

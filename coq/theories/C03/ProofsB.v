(* C03 — lemmas, buffered mode (ReaderBufferSize > 0): fillbuf and the BUFIO loops. *)
From Coq Require Import List NArith ZArith Arith Lia Bool.
From Verif Require Import Gen.Consts C03.Model C03.Proofs.
Import ListNotations.

Lemma flcap_loop_ge : forall fuel c k, 1 <= c -> k <= c + fuel -> k <= flcap_loop fuel c k.
Proof.
  induction fuel as [|fuel IH]; intros c k Hc Hk; cbn [flcap_loop]; [lia|].
  destruct (c <? k) eqn:E.
  - apply IH; lia.
  - apply Nat.ltb_ge in E. exact E.
Qed.

Lemma flcap_ge : forall k, k <= flcap k.
Proof. intros k. unfold flcap. apply flcap_loop_ge; lia. Qed.

(* the read loop of fillbuf *)
Lemma fill_loop_spec : forall i bl b r, fin_ok r -> length b < bl ->
  match fill_loop i bl b r with
  | (b', e, dn, r') =>
      exists d, b' = b ++ d /\ data r = d ++ data r' /\ length b' <= bl /\ fin r' = fin r /\
        sfx (script r') (script r) /\ drawn r' = drawn r + length d /\
        ((e = KNone /\ d <> [] /\ dn = false) \/
         (e = fin r /\ data r' = [] /\ (dn = true <-> e = KEof)) \/
         (e = KNoProgress /\ d = [] /\ dn = false /\ forall c, c + i = tries -> ~ abides_from c (script r)))
  end.
Proof.
  induction i as [|i IH]; intros bl b r Hf Hlt.
  - cbn [fill_loop]. exists []. rewrite app_nil_r. repeat apply conj; auto using sfx_refl; try lia.
    right. right. repeat apply conj; auto. intros c Hc Hab. apply abides_lt in Hab. lia.
  - cbn [fill_loop]. destruct (rd_read (bl - length b) r) as [[d e] r1] eqn:E.
    destruct (rd_read_spec _ _ _ _ _ E ltac:(lia) Hf) as (Hfin & Hd & Hlen & Hdr & He & Hm & Hs & Hz).
    pose proof (rd_read_sfx _ _ _ _ _ E ltac:(lia) Hf) as Hsf.
    assert (Hfe : e = KNone \/ e = KEof \/ e = KHard).
    { destruct He as [He|[He _]]; [auto|]. destruct Hf as [F|F]; rewrite F in He; auto. }
    destruct Hfe as [-> | [-> | ->]].
    + destruct (0 <? length d) eqn:El.
      * apply Nat.ltb_lt in El. exists d. rewrite app_length. repeat apply conj; auto; try lia.
        left. repeat apply conj; auto. intros Ed. rewrite Ed in El. cbn in El. lia.
      * apply Nat.ltb_ge in El. assert (d = []) by (destruct d; [reflexivity|cbn in El; lia]). subst d.
        specialize (Hz eq_refl eq_refl). destruct Hz as [x [Hx Hk]].
        assert (Hf1 : fin_ok r1) by (unfold fin_ok; rewrite Hfin; exact Hf).
        rewrite app_nil_r. specialize (IH bl b r1 Hf1 Hlt).
        destruct (fill_loop i bl b r1) as [[[b' e'] dn] r2].
        destruct IH as (d & I1 & I2 & I3 & I4 & I5 & I6 & I7). exists d. cbn in Hd, Hdr.
        repeat apply conj; try congruence.
        -- eapply sfx_trans; eassumption.
        -- lia.
        -- destruct I7 as [I7|[I7|(J1 & J2 & J3 & J4)]]; [left; exact I7|right; left; rewrite <- Hfin; exact I7|].
           right. right. repeat apply conj; auto. intros c Hc Hab. rewrite Hx in Hab.
           destruct Hab as [_ Hab]. rewrite Hk in Hab. cbn in Hab. apply (J4 (S c)); [lia|assumption].
    + destruct He as [He|[He Hd']]; [discriminate|].
      exists d. rewrite app_length. repeat apply conj; auto; try lia.
      right. left. repeat apply conj; auto; reflexivity.
    + destruct He as [He|[He Hd']]; [discriminate|].
      exists d. rewrite app_length. repeat apply conj; auto; try lia.
      right. left. repeat apply conj; auto; discriminate.
Qed.

(* ---------- the relation ---------- *)
Record Rb (sc0 : list resp) (f0 : ek) (s : st) (p : sp) : Prop := mkRb {
  rb_rest : rest p = skipn (rc s) (buf s) ++ data (rd s);
  rb_pre : exists X, pre p = X ++ firstn (rc s) (buf s);
  rb_n : n s = length (pre p);
  rb_rc0 : 0 < n s -> 0 < rc s;
  rb_rc : rc s <= length (buf s);
  rb_len : length (buf s) <= blen s;
  rb_rec : recording s = srec p;
  rb_recc : recording s = true -> recc s <= rc s /\ recpos p + (rc s - recc s) = length (pre p);
  rb_perr : perr s = KNone \/ (perr s = KNoProgress /\ ~ abides sc0) \/ (perr s = fin (rd s) /\ data (rd s) = []);
  rb_done : done s = true -> perr s = KEof;
  rb_done2 : perr s = KEof -> done s = true;
  rb_fin : fin_ok (rd s);
  rb_fin0 : fin (rd s) = f0;
  rb_sfx : sfx (script (rd s)) sc0 }.

Lemma skipn_skipn' : forall (A : Type) (x : list A) a b, skipn a (skipn b x) = skipn (b + a) x.
Proof.
  intros A x a b. revert x. induction b as [|b IH]; intros x; [reflexivity|].
  destruct x; [rewrite !skipn_nil; reflexivity|]. cbn. apply IH.
Qed.

Lemma firstn_skipn_comm' : forall (A : Type) (x : list A) a b, firstn a (skipn b x) = skipn b (firstn (b + a) x).
Proof.
  intros A x a b. revert x. induction b as [|b IH]; intros x; [reflexivity|].
  destruct x; [rewrite firstn_nil; reflexivity|]. cbn. apply IH.
Qed.

(* fillbuf keeps the relation; what it adds to the unread bytes comes off the data *)
Lemma fillbuf_Rb : forall sc0 f0 c req s p, 0 < bufsize c -> Rb sc0 f0 s p ->
  match fillbuf c req s with
  | FErr e => e = perr s /\ e <> KNone
  | FOk sh nr s' =>
      Rb sc0 f0 s' p /\ perr s = KNone /\ sh <= Nat.pred (rc s) /\ rc s' = rc s - sh /\
      (exists d, skipn (rc s') (buf s') = skipn (rc s) (buf s) ++ d /\ length d = nr /\
                 buf s' = skipn sh (buf s) ++ d /\ data (rd s) = d ++ data (rd s')) /\
      (nr = 0 -> perr s' <> KNone) /\ (done s' = true -> done s = true \/ perr s' = KEof)
  end.
Proof.
  intros sc0 f0 c req s p Hbs [R1 R2 R3 R4 R5 R6 R7 R8 R9 R10 R14 R11 R12 R13].
  unfold fillbuf. destruct (perr s) eqn:Ep; try (split; [reflexivity|discriminate]).
  set (sh := Nat.pred (if recording s then recc s else rc s)).
  assert (Hsh : sh <= rc s /\ (0 < rc s -> sh < rc s) /\ (recording s = true -> sh <= recc s)).
  { unfold sh. destruct (recording s) eqn:Er.
    - destruct (R8 eq_refl) as [A _]. repeat apply conj; intros; lia.
    - repeat apply conj; intros; try lia; try congruence. }
  destruct Hsh as (Hsh1 & Hsh2 & Hsh3).
  set (b1 := skipn sh (buf s)).
  assert (Hb1 : length b1 = length (buf s) - sh) by (unfold b1; apply skipn_length).
  destruct (if blen s =? length b1
            then if Nat.max req (bufsize c) + length b1 <? bcap s then (bcap s, bcap s)
                 else (flcap (Nat.max (bcap s * 3 / 2) (Nat.max req (bufsize c) + length b1)),
                       flcap (Nat.max (bcap s * 3 / 2) (Nat.max req (bufsize c) + length b1)))
            else (blen s, bcap s)) as [bl bc] eqn:Ebl.
  assert (Hbl : length b1 < bl).
  { revert Ebl. generalize (bcap s * 3 / 2). intros z Ebl.
    destruct (blen s =? length b1) eqn:E1.
    - destruct (Nat.max req (bufsize c) + length b1 <? bcap s) eqn:E2.
      + apply Nat.ltb_lt in E2. injection Ebl as <- <-. lia.
      + injection Ebl as <- <-.
        pose proof (flcap_ge (Nat.max z (Nat.max req (bufsize c) + length b1))) as G.
        pose proof (Nat.le_max_r z (Nat.max req (bufsize c) + length b1)).
        pose proof (Nat.le_max_r req (bufsize c)). lia.
    - apply Nat.eqb_neq in E1. injection Ebl as <- <-. lia. }
  pose proof (fill_loop_spec tries bl b1 (rd s) R11 Hbl) as FL.
  destruct (fill_loop tries bl b1 (rd s)) as [[[b2 e] dn] r'].
  destruct FL as (d & F1 & F2 & F3 & F4 & F5 & F6 & F7).
  cbn [rc buf rd perr done].
  assert (Hd : length b2 - length b1 = length d) by (rewrite F1, app_length; lia).
  assert (Hskip : skipn (rc s - sh) b2 = skipn (rc s) (buf s) ++ d).
  { rewrite F1. rewrite skipn_app_le by lia. f_equal. unfold b1. rewrite skipn_skipn'. f_equal. lia. }
  split; [|split; [reflexivity|split; [pose proof (Hsh2); lia|split; [reflexivity|split; [|split]]]]].
  - constructor; cbn [rc buf rd perr done n recording recc blen].
    + rewrite Hskip, R1, F2, <- app_assoc. reflexivity.
    + destruct R2 as [X R2]. exists (X ++ firstn sh (firstn (rc s) (buf s))). rewrite R2, <- app_assoc. f_equal.
      rewrite F1. rewrite firstn_app_le by lia. unfold b1.
      rewrite firstn_skipn_comm'. replace (sh + (rc s - sh)) with (rc s) by lia.
      symmetry. apply firstn_skipn.
    + assumption.
    + intros H. specialize (R4 H). specialize (Hsh2 R4). lia.
    + rewrite F1, app_length. lia.
    + assumption.
    + assumption.
    + intros Hr. rewrite Hr. destruct (R8 Hr) as [A B]. specialize (Hsh3 Hr). split; [lia|]. rewrite <- B. lia.
    + destruct F7 as [(A & _)|[(A & B & _)|(A & B & C & D)]].
      * left. exact A.
      * right. right. split; [congruence|exact B].
      * right. left. split; [exact A|]. intros Hab. apply (D 0); [reflexivity|].
        apply (abides_sfx _ _ R13 Hab).
    + intros Hd'. apply orb_prop in Hd'. destruct Hd' as [Hd'|Hd'].
      * specialize (R10 Hd'). congruence.
      * destruct F7 as [(A & B & C)|[(A & B & C)|(A & B & C & D)]]; try congruence. apply C. exact Hd'.
    + intros He. destruct F7 as [(A & B & C)|[(A & B & C)|(A & B & C & D)]]; try congruence.
      apply orb_true_intro. right. apply C. exact He.
    + unfold fin_ok. rewrite F4. exact R11.
    + congruence.
    + eapply sfx_trans; eassumption.
  - exists d. repeat apply conj; auto; lia.
  - intros Hz. rewrite Hd in Hz. destruct F7 as [(A & B & C)|[(A & B & C)|(A & B & C & D)]].
    + destruct d; [congruence|discriminate].
    + rewrite A. apply fin_ok_none. exact R11.
    + rewrite A. discriminate.
  - intros Hd'. apply orb_prop in Hd'. destruct Hd' as [Hd'|Hd']; [left; exact Hd'|right].
    destruct F7 as [(A & B & C)|[(A & B & C)|(A & B & C & D)]]; try congruence. apply C. exact Hd'.
Qed.

(* ---------- consuming bytes that are in the buffer ---------- *)
Lemma firstn_plus : forall (A : Type) (x : list A) a b, firstn (a + b) x = firstn a x ++ firstn b (skipn a x).
Proof.
  intros A x a b. revert x. induction a as [|a IH]; intros x; [reflexivity|].
  destruct x; [cbn; rewrite firstn_nil; reflexivity|]. cbn. f_equal. apply IH.
Qed.

Lemma Rb_adv : forall sc0 f0 s p k, Rb sc0 f0 s p -> k <= length (buf s) - rc s ->
  Rb sc0 f0 (adv s k) (stake k p) /\ firstn k (rest p) = slice (rc s) (rc s + k) (buf s) /\ k <= length (rest p).
Proof.
  intros sc0 f0 s p k [R1 R2 R3 R4 R5 R6 R7 R8 R9 R10 R14 R11 R12 R13] Hk.
  assert (Hav : length (skipn (rc s) (buf s)) = length (buf s) - rc s) by apply skipn_length.
  assert (Hf : firstn k (rest p) = slice (rc s) (rc s + k) (buf s)).
  { rewrite R1. rewrite firstn_app_le by lia. unfold slice. f_equal. lia. }
  split; [|split; [exact Hf|rewrite R1, app_length; lia]].
  unfold stake, adv. constructor; cbn [rc buf rd perr done n recording recc blen pre rest srec recpos].
  - rewrite R1. rewrite skipn_app_le by lia. rewrite skipn_skipn'. reflexivity.
  - destruct R2 as [X R2]. exists X. rewrite R2, <- app_assoc. f_equal. rewrite Hf. unfold slice.
    replace (rc s + k - rc s) with k by lia. symmetry. apply firstn_plus.
  - rewrite app_length, Hf. unfold slice. rewrite firstn_length, skipn_length. lia.
  - intros H. destruct (Nat.eq_dec (n s) 0) as [E|E]; [lia|]. specialize (R4 ltac:(lia)). lia.
  - lia.
  - assumption.
  - assumption.
  - intros Hr. destruct (R8 Hr) as [A B]. split; [lia|]. rewrite app_length, Hf. unfold slice.
    rewrite firstn_length, skipn_length. lia.
  - assumption.
  - assumption.
  - assumption.
  - assumption.
  - assumption.
  - assumption.
Qed.

Lemma stake_stake : forall p a b, a <= length (rest p) -> stake b (stake a p) = stake (a + b) p.
Proof.
  intros p a b H. unfold stake. cbn [pre rest srec recpos]. f_equal.
  - rewrite <- app_assoc. f_equal. symmetry. apply firstn_plus.
  - apply skipn_skipn'.
Qed.

Lemma slice1 : forall (x : list N) i, i < length x -> slice i (i + 1) x = [nth i x 0%N].
Proof.
  intros x i H. unfold slice. replace (i + 1 - i) with 1 by lia.
  revert i H. induction x as [|b x IH]; intros i H; [cbn in H; lia|].
  destruct i; [reflexivity|]. cbn [skipn nth]. apply IH. cbn in H. lia.
Qed.

(* an error from a pending z.err: either the script broke the contract or the data is exhausted *)
Lemma perr_cases : forall sc0 f0 s p e, Rb sc0 f0 s p -> e = perr s -> e <> KNone ->
  ~ bad e /\ (data (rd s) = [] \/ ~ abides sc0).
Proof.
  intros sc0 f0 s p e HR -> Hne. destruct (rb_perr _ _ _ _ HR) as [A|[[A B]|[A B]]]; [congruence| |].
  - rewrite A. split; [apply noprog_not_bad|right; exact B].
  - rewrite A. split; [apply fin_not_bad, (rb_fin _ _ _ _ HR)|left; exact B].
Qed.

(* for z.rc == z.wc { z.fillbuf(0) } *)
Lemma fwe_spec : forall sc0 f0 c s p, 0 < bufsize c -> Rb sc0 f0 s p ->
  match fill_while_empty 3 c s with
  | (Some s', _) => Rb sc0 f0 s' p /\ rc s' < length (buf s')
  | (None, e) => ~ bad e /\ (rest p = [] \/ ~ abides sc0)
  end.
Proof.
  intros sc0 f0 c s p Hb HR.
  assert (Hstep : forall s0, Rb sc0 f0 s0 p -> (rc s0 =? wc s0) = true ->
    match fillbuf c 0 s0 with
    | FErr e => ~ bad e /\ (rest p = [] \/ ~ abides sc0)
    | FOk _ nr s1 => Rb sc0 f0 s1 p /\ ((rc s1 =? wc s1) = true -> perr s1 <> KNone)
    end).
  { intros s0 HR0 E0. apply Nat.eqb_eq in E0. unfold wc in E0.
    pose proof (fillbuf_Rb sc0 f0 c 0 s0 p Hb HR0) as F. destruct (fillbuf c 0 s0) as [sh nr s1|e].
    - destruct F as (F1 & F2 & F3 & F4 & (d & F5 & F6 & F7 & F8) & F9 & F10). split; [exact F1|].
      intros E1. apply Nat.eqb_eq in E1. unfold wc in E1. apply F9.
      rewrite E1, E0 in F5. rewrite !skipn_all in F5. destruct d; [cbn in F6; lia|discriminate].
    - destruct F as [F1 F2]. destruct (perr_cases _ _ _ _ _ HR0 F1 F2) as [A [B|B]]; split; auto.
      left. rewrite (rb_rest _ _ _ _ HR0), E0, skipn_all, B. reflexivity. }
  cbn [fill_while_empty]. destruct (rc s =? wc s) eqn:E0.
  2:{ split; [exact HR|]. apply Nat.eqb_neq in E0. pose proof (rb_rc _ _ _ _ HR). unfold wc in E0. lia. }
  pose proof (Hstep s HR E0) as H1. destruct (fillbuf c 0 s) as [sh nr s1|e]; [|exact H1].
  destruct H1 as [HR1 P1]. destruct (rc s1 =? wc s1) eqn:E1.
  2:{ split; [exact HR1|]. apply Nat.eqb_neq in E1. pose proof (rb_rc _ _ _ _ HR1). unfold wc in E1. lia. }
  pose proof (Hstep s1 HR1 E1) as H2. pose proof (fillbuf_Rb sc0 f0 c 0 s1 p Hb HR1) as F.
  destruct (fillbuf c 0 s1) as [sh2 nr2 s2|e]; [|exact H2].
  exfalso. destruct F as (_ & F2 & _). apply (P1 eq_refl). exact F2.
Qed.

Lemma b_readn1_sim : forall sc0 f0 c s p, 0 < bufsize c -> Rb sc0 f0 s p ->
  sim sc0 (Rb sc0 f0) s (b_readn1 c s) (sstep p Readn1).
Proof.
  intros sc0 f0 c s p Hb HR. unfold b_readn1. pose proof (fwe_spec sc0 f0 c s p Hb HR) as H.
  destruct (fill_while_empty 3 c s) as [[s'|] e]; cbn [sstep].
  - destruct H as [HR' Hlt]. destruct (Rb_adv sc0 f0 s' p 1 HR' ltac:(lia)) as (A & B & C).
    unfold sp_take. destruct (1 <=? length (rest p)) eqn:E; [|apply Nat.leb_gt in E; lia].
    cbn [sim]. split; [|split; [reflexivity|exact A]]. rewrite B. symmetry. apply slice1. exact Hlt.
  - destruct H as [A [B|B]].
    + unfold sp_take. rewrite B. cbn. exact A.
    + destruct (sp_take 1 true p); cbn [sim]; [split; [exact A|]|exact A]. intros [_ C]. auto.
Qed.

(* BUFIO: fillbuf until n bytes are available *)
Lemma b_ensure_spec : forall sc0 f0 c k fuel s p, 0 < bufsize c -> Rb sc0 f0 s p ->
  (if is_none (perr s) then k - (length (buf s) - rc s) + 2 else 1) <= fuel ->
  match b_ensure fuel c k s with
  | (Some s', _) => Rb sc0 f0 s' p /\ k <= length (buf s') - rc s'
  | (None, e) => ~ bad e /\ (length (rest p) < k \/ ~ abides sc0)
  end.
Proof.
  intros sc0 f0 c k. induction fuel as [|fuel IH]; intros s p Hb HR Hfuel.
  - destruct (is_none (perr s)); lia.
  - cbn [b_ensure]. unfold wc. destruct (k <=? length (buf s) - rc s) eqn:E.
    + apply Nat.leb_le in E. split; assumption.
    + apply Nat.leb_gt in E.
      pose proof (fillbuf_Rb sc0 f0 c (inferLen (k - (length (buf s) - rc s)) (mil c)) s p Hb HR) as F.
      destruct (fillbuf c (inferLen (k - (length (buf s) - rc s)) (mil c)) s) as [sh nr s1|e].
      * destruct F as (F1 & F2 & F3 & F4 & (d & F5 & F6 & F7 & F8) & F9 & F10).
        rewrite F2 in Hfuel. cbn [is_none] in Hfuel.
        assert (Hav : length (buf s1) - rc s1 = length (buf s) - rc s + nr).
        { apply (f_equal (@length N)) in F5. rewrite app_length, !skipn_length in F5. lia. }
        apply IH; auto. destruct (is_none (perr s1)) eqn:En.
        -- destruct nr; [|lia]. exfalso. apply F9; [reflexivity|]. destruct (perr s1); try discriminate. reflexivity.
        -- lia.
      * destruct F as [F1 F2]. destruct (perr_cases _ _ _ _ _ HR F1 F2) as [A [B|B]]; split; auto.
        left. rewrite (rb_rest _ _ _ _ HR), B, app_nil_r, skipn_length. lia.
Qed.

Lemma b_readxb_sim : forall sc0 f0 c s p k, 0 < bufsize c -> Rb sc0 f0 s p ->
  sim sc0 (Rb sc0 f0) s (b_readxb c k s) (sstep p (Readx k)).
Proof.
  intros sc0 f0 c s p k Hb HR. unfold b_readxb. cbn [sstep]. destruct (k =? 0) eqn:E0.
  - apply Nat.eqb_eq in E0. subst k. unfold sp_take. cbn [Nat.leb firstn sim].
    split; [reflexivity|]. split; [reflexivity|].
    destruct (Rb_adv sc0 f0 s p 0 HR ltac:(lia)) as (A & _). unfold adv in A.
    replace (n s + 0) with (n s) in A by lia. replace (rc s + 0) with (rc s) in A by lia.
    destruct s; exact A.
  - pose proof (b_ensure_spec sc0 f0 c k (k + 2) s p Hb HR ltac:(destruct (is_none (perr s)); lia)) as H.
    destruct (b_ensure (k + 2) c k s) as [[s'|] e].
    + destruct H as [HR' Hk]. destruct (Rb_adv sc0 f0 s' p k HR' Hk) as (A & B & C).
      unfold sp_take. destruct (k <=? length (rest p)) eqn:E; [|apply Nat.leb_gt in E; lia].
      cbn [sim]. split; [rewrite B; reflexivity|]. split; [reflexivity|exact A].
    + destruct H as [A [B|B]]; unfold sp_take.
      * destruct (k <=? length (rest p)) eqn:E; [apply Nat.leb_le in E; lia|]. exact A.
      * destruct (k <=? length (rest p)); cbn [sim]; [split; [exact A|]|exact A]. intros [_ C]. auto.
Qed.

Lemma b_readb_loop_spec : forall sc0 f0 c fuel want acc s p, 0 < bufsize c -> Rb sc0 f0 s p ->
  0 < want -> want <= fuel ->
  match b_readb_loop fuel c want acc s with
  | Ok out tok s' => tok = 0%N /\ want <= length (rest p) /\ out = acc ++ firstn want (rest p) /\ Rb sc0 f0 s' (stake want p)
  | Err e => ~ bad e /\ (length (rest p) < want \/ ~ abides sc0)
  end.
Proof.
  intros sc0 f0 c. induction fuel as [|fuel IH]; intros want acc s p Hb HR Hw Hf; [lia|].
  cbn [b_readb_loop]. pose proof (fwe_spec sc0 f0 c s p Hb HR) as H.
  destruct (fill_while_empty 3 c s) as [[s1|] e].
  - destruct H as [HR1 Hlt]. unfold wc.
    set (k := Nat.min want (length (buf s1) - rc s1)).
    assert (Hk : 0 < k <= want /\ k <= length (buf s1) - rc s1) by (unfold k; lia).
    destruct (Rb_adv sc0 f0 s1 p k HR1 ltac:(lia)) as (A & B & C).
    destruct (k =? want) eqn:E.
    + apply Nat.eqb_eq in E. rewrite <- B. rewrite E in *. repeat apply conj; auto.
    + apply Nat.eqb_neq in E.
      specialize (IH (want - k) (acc ++ slice (rc s1) (rc s1 + k) (buf s1)) (adv s1 k) (stake k p) Hb A ltac:(lia) ltac:(lia)).
      destruct (b_readb_loop fuel c (want - k) (acc ++ slice (rc s1) (rc s1 + k) (buf s1)) (adv s1 k)) as [out tok s2|e2].
      * destruct IH as (I1 & I2 & I3 & I4). cbn [stake rest] in I2, I3. rewrite skipn_length in I2.
        repeat apply conj; auto; try lia.
        -- rewrite I3, <- B, <- app_assoc. f_equal. replace want with (k + (want - k)) at 2 by lia.
           symmetry. apply firstn_plus.
        -- rewrite stake_stake in I4 by lia. replace (k + (want - k)) with want in I4 by lia. exact I4.
      * destruct IH as [I1 [I2|I2]]; split; auto. left. cbn [stake rest] in I2. rewrite skipn_length in I2. lia.
  - destruct H as [A [B|B]]; split; auto. left. rewrite B. cbn. lia.
Qed.

Lemma Rb_noadv : forall sc0 f0 s p, Rb sc0 f0 s p -> Rb sc0 f0 s (stake 0 p).
Proof.
  intros sc0 f0 s p HR. destruct (Rb_adv sc0 f0 s p 0 HR ltac:(lia)) as (A & _). unfold adv in A.
  replace (n s + 0) with (n s) in A by lia. replace (rc s + 0) with (rc s) in A by lia.
  destruct s; exact A.
Qed.

Lemma err_sim : forall sc0 (R : st -> sp -> Prop) s e spr (P : Prop),
  ~ bad e -> (P \/ ~ abides sc0) -> (P -> spr = SErr) -> sim sc0 R s (Err e) spr.
Proof.
  intros sc0 R s e spr P Hb [HP|Hab] Himp.
  - rewrite (Himp HP). exact Hb.
  - destruct spr; cbn [sim]; [split; [exact Hb|]|exact Hb]. intros [_ C]. auto.
Qed.

Lemma b_readb_sim : forall sc0 f0 c s p k, 0 < bufsize c -> Rb sc0 f0 s p ->
  sim sc0 (Rb sc0 f0) s (b_readb c k s) (sstep p (Readb k)).
Proof.
  intros sc0 f0 c s p k Hb HR. unfold b_readb. cbn [sstep]. destruct (k =? 0) eqn:E0.
  - apply Nat.eqb_eq in E0. subst k. unfold sp_take. cbn [Nat.leb firstn sim].
    split; [reflexivity|]. split; [reflexivity|]. apply Rb_noadv, HR.
  - apply Nat.eqb_neq in E0.
    pose proof (b_readb_loop_spec sc0 f0 c (S k) k [] s p Hb HR ltac:(lia) ltac:(lia)) as H.
    destruct (b_readb_loop (S k) c k [] s) as [out tok s'|e].
    + destruct H as (H1 & H2 & H3 & H4). unfold sp_take.
      destruct (k <=? length (rest p)) eqn:E; [|apply Nat.leb_gt in E; lia]. cbn [sim]. auto.
    + destruct H as [H1 H2]. apply (err_sim _ _ _ _ _ _ H1 H2). intros Hlt. unfold sp_take.
      destruct (k <=? length (rest p)) eqn:E; [apply Nat.leb_le in E; lia|reflexivity].
Qed.

Lemma b_skip_loop_spec : forall sc0 f0 c fuel k s p, 0 < bufsize c -> Rb sc0 f0 s p ->
  (length (buf s) - rc s < k -> (if is_none (perr s) then k - (length (buf s) - rc s) + 2 else 1) <= fuel) ->
  match b_skip_loop fuel c k s with
  | Ok out tok s' => out = [] /\ tok = 0%N /\ k <= length (rest p) /\ Rb sc0 f0 s' (stake k p)
  | Err e => ~ bad e /\ (length (rest p) < k \/ ~ abides sc0)
  end.
Proof.
  intros sc0 f0 c. induction fuel as [|fuel IH]; intros k s p Hb HR Hf.
  - cbn [b_skip_loop]. unfold wc. set (k2 := Nat.min k (length (buf s) - rc s)).
    destruct (Rb_adv sc0 f0 s p k2 HR ltac:(unfold k2; lia)) as (A & B & C).
    destruct (k - k2 =? 0) eqn:E.
    + apply Nat.eqb_eq in E. assert (k2 = k) by (unfold k2 in *; lia). rewrite H in *. repeat apply conj; auto.
    + apply Nat.eqb_neq in E. exfalso. assert (Hlt : length (buf s) - rc s < k) by (unfold k2 in E; lia).
      specialize (Hf Hlt). destruct (is_none (perr s)); lia.
  - cbn [b_skip_loop]. unfold wc. set (k2 := Nat.min k (length (buf s) - rc s)).
    destruct (Rb_adv sc0 f0 s p k2 HR ltac:(unfold k2; lia)) as (A & B & C).
    destruct (k - k2 =? 0) eqn:E.
    + apply Nat.eqb_eq in E. assert (k2 = k) by (unfold k2 in *; lia). rewrite H in *. repeat apply conj; auto.
    + apply Nat.eqb_neq in E. assert (Hlt : length (buf s) - rc s < k) by (unfold k2 in E; lia).
      assert (Hk2 : k2 = length (buf s) - rc s) by (unfold k2; lia).
      specialize (Hf Hlt). set (s1 := adv s k2) in *.
      assert (Hrc1 : rc s1 = length (buf s1)).
      { unfold s1, adv. cbn [rc buf]. pose proof (rb_rc _ _ _ _ HR). lia. }
      pose proof (fillbuf_Rb sc0 f0 c (inferLen (k - k2 + rc s1 - length (buf s1)) (mil c)) s1 (stake k2 p) Hb A) as F.
      destruct (fillbuf c (inferLen (k - k2 + rc s1 - length (buf s1)) (mil c)) s1) as [sh nr s2|e].
      * destruct F as (F1 & F2 & F3 & F4 & (d & F5 & F6 & F7 & F8) & F9 & F10).
        assert (Hav : length (buf s2) - rc s2 = nr).
        { apply (f_equal (@length N)) in F5. rewrite app_length, !skipn_length in F5. lia. }
        assert (Hp1 : perr s1 = perr s) by reflexivity. rewrite Hp1 in F2. rewrite F2 in Hf. cbn [is_none] in Hf.
        specialize (IH (k - k2) s2 (stake k2 p) Hb F1).
        assert (Hfu : length (buf s2) - rc s2 < k - k2 ->
                (if is_none (perr s2) then k - k2 - (length (buf s2) - rc s2) + 2 else 1) <= fuel).
        { intros _. destruct (is_none (perr s2)) eqn:En; [|lia].
          destruct nr; [|lia]. exfalso. apply F9; [reflexivity|]. destruct (perr s2); try discriminate. reflexivity. }
        specialize (IH Hfu). destruct (b_skip_loop fuel c (k - k2) s2) as [out tok s3|e3].
        -- destruct IH as (I1 & I2 & I3 & I4). cbn [stake rest] in I3. rewrite skipn_length in I3.
           repeat apply conj; auto; try lia.
           rewrite stake_stake in I4 by lia. replace (k2 + (k - k2)) with k in I4 by lia. exact I4.
        -- destruct IH as [I1 [I2|I2]]; split; auto. left. cbn [stake rest] in I2. rewrite skipn_length in I2. lia.
      * destruct F as [F1 F2]. destruct (perr_cases _ _ _ _ _ A F1 F2) as [P1 [P2|P2]]; split; auto.
        left. rewrite (rb_rest _ _ _ _ HR). change (data (rd s1)) with (data (rd s)) in P2.
        rewrite P2, app_nil_r, skipn_length. lia.
Qed.

Lemma b_skip_sim : forall sc0 f0 c s p k, 0 < bufsize c -> Rb sc0 f0 s p ->
  sim sc0 (Rb sc0 f0) s (b_skip c k s) (sstep p (Skip k)).
Proof.
  intros sc0 f0 c s p k Hb HR. unfold b_skip. cbn [sstep]. destruct (k =? 0) eqn:E0.
  - apply Nat.eqb_eq in E0. subst k. unfold sp_take. cbn [Nat.leb firstn sim].
    split; [reflexivity|]. split; [reflexivity|]. apply Rb_noadv, HR.
  - pose proof (b_skip_loop_spec sc0 f0 c (k + 2) k s p Hb HR ltac:(intros _; destruct (is_none (perr s)); lia)) as H.
    destruct (b_skip_loop (k + 2) c k s) as [out tok s'|e].
    + destruct H as (H1 & H2 & H3 & H4). unfold sp_take.
      destruct (k <=? length (rest p)) eqn:E; [|apply Nat.leb_gt in E; lia]. cbn [sim]. auto.
    + destruct H as [H1 H2]. apply (err_sim _ _ _ _ _ _ H1 H2). intros Hlt. unfold sp_take.
      destruct (k <=? length (rest p)) eqn:E; [apply Nat.leb_le in E; lia|reflexivity].
Qed.

(* ---------- the scanning loops (under the contract) ---------- *)
Lemma nth_rest : forall sc0 f0 s p j, Rb sc0 f0 s p -> j < length (buf s) - rc s ->
  skipn j (rest p) = nth (rc s + j) (buf s) 0%N :: skipn (S j) (rest p).
Proof.
  intros sc0 f0 s p j HR Hj. rewrite (rb_rest _ _ _ _ HR).
  assert (Hl : length (skipn (rc s) (buf s)) = length (buf s) - rc s) by apply skipn_length.
  rewrite !skipn_app_le by lia. rewrite !skipn_skipn'. rewrite app_comm_cons. f_equal.
  assert (Hi : rc s + j < length (buf s)) by lia.
  replace (rc s + S j) with (S (rc s + j)) by lia.
  revert Hi. generalize (buf s) (rc s + j). clear.
  induction l as [|b x IH]; intros i H; [cbn in H; lia|]. destruct i; [reflexivity|].
  cbn [skipn nth]. apply IH. cbn in H. lia.
Qed.

Lemma perr_data : forall sc0 f0 s p, abides sc0 -> Rb sc0 f0 s p -> perr s <> KNone ->
  data (rd s) = [] /\ perr s = fin (rd s).
Proof.
  intros sc0 f0 s p Hab HR Hne. destruct (rb_perr _ _ _ _ HR) as [A|[[A B]|[A B]]]; [congruence|contradiction|auto].
Qed.

Lemma bpeek_spec : forall sc0 f0 c s p j, 0 < bufsize c -> abides sc0 -> Rb sc0 f0 s p ->
  j <= length (buf s) - rc s ->
  match bpeek c (rc s + j) s with
  | PByte b sh s' => Rb sc0 f0 s' p /\ sh <= Nat.pred (rc s) /\ rc s' = rc s - sh /\ j < length (buf s') - rc s' /\
                     b = nth (rc s' + j) (buf s') 0%N /\ rc s + j - sh = rc s' + j
  | PEof sh s' => Rb sc0 f0 s' p /\ sh <= Nat.pred (rc s) /\ rc s' = rc s - sh /\ j = length (buf s') - rc s' /\
                  data (rd s') = [] /\ rc s + j - sh = rc s' + j
  | PErr k => ~ bad k /\ fin (rd s) <> KEof /\ skipn j (rest p) = []
  end.
Proof.
  intros sc0 f0 c s p j Hb Hab HR Hj. unfold bpeek, wc. pose proof (rb_rc _ _ _ _ HR) as Hrc.
  destruct (rc s + j =? length (buf s)) eqn:E.
  - apply Nat.eqb_eq in E. destruct (done s) eqn:Ed.
    + pose proof (rb_done _ _ _ _ HR Ed) as Hp.
      destruct (perr_data _ _ _ _ Hab HR ltac:(rewrite Hp; discriminate)) as [D1 D2].
      repeat apply conj; auto; lia.
    + pose proof (fillbuf_Rb sc0 f0 c 0 s p Hb HR) as F. destruct (fillbuf c 0 s) as [sh nr s1|e].
      * destruct F as (F1 & F2 & F3 & F4 & (d & F5 & F6 & F7 & F8) & F9 & F10).
        assert (Hav : length (buf s1) - rc s1 = length (buf s) - rc s + nr).
        { apply (f_equal (@length N)) in F5. rewrite app_length, !skipn_length in F5. lia. }
        destruct (nr =? 0) eqn:En.
        -- apply Nat.eqb_eq in En. destruct (perr_data _ _ _ _ Hab F1 (F9 En)) as [D1 D2].
           repeat apply conj; auto; lia.
        -- apply Nat.eqb_neq in En. repeat apply conj; auto; try lia. f_equal; lia.
      * destruct F as [F1 F2]. destruct (perr_data _ _ _ _ Hab HR ltac:(congruence)) as [D1 D2].
        split; [rewrite F1, D2; apply fin_not_bad, (rb_fin _ _ _ _ HR)|]. split.
        -- intros Hf. assert (perr s = KEof) by congruence. rewrite (rb_done2 _ _ _ _ HR H) in Ed. discriminate.
        -- rewrite (rb_rest _ _ _ _ HR), D1, app_nil_r. apply skipn_all2. rewrite skipn_length. lia.
  - apply Nat.eqb_neq in E. repeat apply conj; auto; lia.
Qed.

Lemma b_scan_spec : forall sc0 f0 c cont fuel s p j start, 0 < bufsize c -> abides sc0 -> Rb sc0 f0 s p ->
  j <= length (buf s) - rc s -> start <= rc s <= start + 1 -> length (rest p) - j < fuel ->
  match b_scan fuel c cont start (rc s + j) s with
  | BTok t start' pos' s' => exists a r', span cont (skipn j (rest p)) = (a, t :: r') /\
        Rb sc0 f0 s' p /\ pos' = rc s' + j + length a + 1 /\ pos' <= length (buf s') /\
        start' + (rc s - start) = rc s'
  | BEof start' pos' s' => exists a, span cont (skipn j (rest p)) = (a, []) /\
        Rb sc0 f0 s' p /\ pos' = rc s' + j + length a /\ pos' = length (buf s') /\ data (rd s') = [] /\
        start' + (rc s - start) = rc s'
  | BErr k => ~ bad k /\ fin (rd s) <> KEof /\ exists a, span cont (skipn j (rest p)) = (a, [])
  end.
Proof.
  intros sc0 f0 c cont. induction fuel as [|fuel IH]; intros s p j start Hb Hab HR Hj Hst Hf; [lia|].
  cbn [b_scan]. pose proof (bpeek_spec sc0 f0 c s p j Hb Hab HR Hj) as P.
  destruct (bpeek c (rc s + j) s) as [b sh s1|sh s1|k].
  - destruct P as (P1 & P2 & P3 & P4 & P5 & P6). rewrite P6.
    pose proof (nth_rest _ _ _ _ j P1 P4) as Hn. rewrite <- P5 in Hn. rewrite Hn. cbn [span].
    destruct (cont b) eqn:Ec.
    + assert (Hlen : S j <= length (rest p)).
      { rewrite (rb_rest _ _ _ _ P1), app_length, skipn_length. lia. }
      specialize (IH s1 p (S j) (start - sh) Hb Hab P1 ltac:(lia) ltac:(lia) ltac:(lia)).
      replace (rc s1 + S j) with (S (rc s1 + j)) in IH by lia.
      destruct (b_scan fuel c cont (start - sh) (S (rc s1 + j)) s1) as [t st' ps' s2|st' ps' s2|k].
      * destruct IH as (a & r' & I1 & I2 & I3 & I4 & I5). rewrite I1. exists (b :: a), r'.
        simpl length. repeat apply conj; auto; lia.
      * destruct IH as (a & I1 & I2 & I3 & I4 & I5 & I6). rewrite I1. exists (b :: a).
        simpl length. repeat apply conj; auto; lia.
      * destruct IH as (I1 & I2 & (a & I3)). rewrite I3. split; [exact I1|]. split; [|exists (b :: a); reflexivity].
        rewrite (rb_fin0 _ _ _ _ HR). rewrite (rb_fin0 _ _ _ _ P1) in I2. exact I2.
    + exists [], (skipn (S j) (rest p)). simpl length. repeat apply conj; auto; lia.
  - destruct P as (P1 & P2 & P3 & P4 & P5 & P6). rewrite P6.
    assert (Hs : skipn j (rest p) = []).
    { rewrite (rb_rest _ _ _ _ P1), P5, app_nil_r. apply skipn_all2. rewrite skipn_length. lia. }
    rewrite Hs. exists []. cbn [span]. simpl length. pose proof (rb_rc _ _ _ _ P1). repeat apply conj; auto; lia.
  - destruct P as (P1 & P2 & P3). rewrite P3. split; [exact P1|]. split; [exact P2|]. exists []. reflexivity.
Qed.

Lemma unexp_not_bad : forall sc0 f0 s p, Rb sc0 f0 s p -> ~ bad (unexp s).
Proof.
  intros sc0 f0 s p HR. unfold unexp. destruct (rb_perr _ _ _ _ HR) as [A|[[A B]|[A B]]]; rewrite A.
  - intros [B|[B|B]]; discriminate.
  - apply noprog_not_bad.
  - pose proof (fin_not_bad _ (rb_fin _ _ _ _ HR)) as F. destruct (fin (rd s)); auto; intros [B'|[B'|B']]; discriminate.
Qed.

Lemma sfuel_ok : forall sc0 f0 s p, Rb sc0 f0 s p -> length (rest p) < sfuel s.
Proof.
  intros sc0 f0 s p HR. unfold sfuel. rewrite (rb_rest _ _ _ _ HR), app_length, skipn_length. lia.
Qed.

Lemma consume_adv : forall s pos k, pos = rc s + k -> consume_to s pos = adv s k.
Proof. intros s pos k ->. unfold consume_to. f_equal. lia. Qed.

Lemma b_ws_sim : forall sc0 f0 c s p, 0 < bufsize c -> abides sc0 -> Rb sc0 f0 s p ->
  sim sc0 (Rb sc0 f0) s (b_ws c s) (sstep p SkipWs).
Proof.
  intros sc0 f0 c s p Hb Hab HR. unfold b_ws. cbn [sstep]. unfold sp_scan.
  pose proof (b_scan_spec sc0 f0 c isWs (sfuel s) s p 0 (rc s) Hb Hab HR ltac:(lia) ltac:(lia)
                ltac:(pose proof (sfuel_ok _ _ _ _ HR); lia)) as H.
  replace (rc s + 0) with (rc s) in H by lia. cbn [skipn] in H.
  destruct (b_scan (sfuel s) c isWs (rc s) (rc s) s) as [t st' ps' s'|st' ps' s'|k].
  - destruct H as (a & r' & I1 & I2 & I3 & I4 & I5). rewrite I1. cbn [sim].
    split; [reflexivity|]. split; [reflexivity|].
    rewrite (consume_adv s' ps' (S (length a))) by lia.
    apply (Rb_adv sc0 f0 s' p (S (length a)) I2). lia.
  - destruct H as (a & I1 & I2 & _). rewrite I1. cbn [sim]. apply (unexp_not_bad _ _ _ _ I2).
  - destruct H as (I1 & I2 & (a & I3)). rewrite I3. cbn [sim]. exact I1.
Qed.

Lemma b_until_sim : forall sc0 f0 c s p st1 st2 q, 0 < bufsize c -> abides sc0 -> Rb sc0 f0 s p ->
  (forall b, q b = negb ((b =? st1)%N || (b =? st2)%N)) ->
  match b_until c st1 st2 s, span q (rest p) with
  | Ok out tok s', (a, t :: _) => out = a /\ tok = t /\ Rb sc0 f0 s' (stake (S (length a)) p)
  | Ok _ _ _, (_, []) => False
  | Err k, (_, []) => ~ bad k
  | Err k, (_, _ :: _) => ~ bad k /\ ~ (fin (rd s) = KEof /\ abides sc0)
  end.
Proof.
  intros sc0 f0 c s p st1 st2 q Hb Hab HR Hq. unfold b_until.
  assert (Hext : forall x, span (fun b => negb ((b =? st1)%N || (b =? st2)%N)) x = span q x).
  { induction x as [|b x IH]; [reflexivity|]. cbn. rewrite Hq, IH. reflexivity. }
  pose proof (b_scan_spec sc0 f0 c (fun b => negb ((b =? st1)%N || (b =? st2)%N)) (sfuel s) s p 0 (rc s) Hb Hab HR
                ltac:(lia) ltac:(lia) ltac:(pose proof (sfuel_ok _ _ _ _ HR); lia)) as H.
  replace (rc s + 0) with (rc s) in H by lia. cbn [skipn] in H. rewrite Hext in H.
  destruct (b_scan (sfuel s) c (fun b => negb ((b =? st1)%N || (b =? st2)%N)) (rc s) (rc s) s) as [t st' ps' s'|st' ps' s'|k].
  - destruct H as (a & r' & I1 & I2 & I3 & I4 & I5). rewrite I1.
    destruct (Rb_adv sc0 f0 s' p (length a) I2 ltac:(lia)) as (_ & B & _).
    split; [|split; [reflexivity|]].
    + replace st' with (rc s') by lia. replace (ps' - 1) with (rc s' + length a) by lia. rewrite <- B.
      rewrite (span_app _ _ _ _ I1). rewrite firstn_app_le by lia. apply firstn_all.
    + rewrite (consume_adv s' ps' (S (length a))) by lia.
      apply (Rb_adv sc0 f0 s' p (S (length a)) I2). lia.
  - destruct H as (a & I1 & I2 & _). rewrite I1. apply (unexp_not_bad _ _ _ _ I2).
  - destruct H as (I1 & I2 & (a & I3)). rewrite I3. exact I1.
Qed.

Lemma last_firstn_nth : forall (x : list N) k d, 0 < k <= length x -> last (firstn k x) d = nth (k - 1) x d.
Proof.
  induction x as [|b x IH]; intros k d Hk; [cbn in Hk; lia|].
  destruct k; [lia|]. cbn [firstn]. destruct k.
  - cbn. reflexivity.
  - replace (S (S k) - 1) with (S k) by lia. cbn [nth].
    change (last (b :: firstn (S k) x) d) with (last (b :: firstn (S k) x) d).
    cbn [firstn] in *. destruct x as [|b' x]; [cbn in Hk; lia|].
    specialize (IH (S k) d ltac:(cbn in Hk |- *; lia)). replace (S k - 1) with k in IH by lia.
    cbn [firstn] in IH. cbn [last]. cbn [last] in IH. destruct k; exact IH.
Qed.

Lemma lastb_nth : forall sc0 f0 s p, Rb sc0 f0 s p -> 0 < rc s -> nth (rc s - 1) (buf s) 0%N = last (pre p) 0%N.
Proof.
  intros sc0 f0 s p HR Hrc. destruct (rb_pre _ _ _ _ HR) as [X E]. rewrite E.
  pose proof (rb_rc _ _ _ _ HR).
  rewrite last_app_ne.
  - symmetry. apply last_firstn_nth. lia.
  - intros E'. apply (f_equal (@length N)) in E'. rewrite firstn_length in E'. cbn in E'. lia.
Qed.

Lemma skipn_nth_cons : forall (x : list N) k, k < length x -> skipn k x = nth k x 0%N :: skipn (S k) x.
Proof.
  induction x as [|b x IH]; intros k H; [cbn in H; lia|]. destruct k; [reflexivity|].
  cbn [skipn nth]. apply IH. cbn in H. lia.
Qed.

Lemma slice_cons : forall (x : list N) i e, 0 < i -> i <= e -> i <= length x ->
  slice (i - 1) e x = nth (i - 1) x 0%N :: slice i e x.
Proof.
  intros x i e Hi He Hl. unfold slice.
  replace (e - (i - 1)) with (S (e - i)) by lia.
  rewrite (skipn_nth_cons x (i - 1)) by lia. replace (S (i - 1)) with i by lia. reflexivity.
Qed.

Lemma b_num_sim : forall sc0 f0 c s p, 0 < bufsize c -> abides sc0 -> Rb sc0 f0 s p ->
  pre_ok true p ReadNum = true -> sim sc0 (Rb sc0 f0) s (b_num c s) (sstep p ReadNum).
Proof.
  intros sc0 f0 c s p Hb Hab HR Hpre. cbn [pre_ok] in Hpre. apply andb_prop in Hpre. destruct Hpre as [Hp1 Hp2].
  apply Nat.ltb_lt in Hp1. unfold last_or in Hp2.
  assert (Hrc : 0 < rc s) by (apply (rb_rc0 _ _ _ _ HR); rewrite (rb_n _ _ _ _ HR); exact Hp1).
  pose proof (rb_rc _ _ _ _ HR) as Hrc2.
  unfold b_num. cbn [sstep]. unfold last_or. rewrite Hp2.
  (* the first iteration looks at the last byte read again *)
  unfold sfuel. replace (length (buf s) + length (data (rd s)) + 3) with (S (length (buf s) + length (data (rd s)) + 2)) by lia.
  cbn [b_scan]. unfold bpeek, wc.
  destruct (rc s - 1 =? length (buf s)) eqn:E; [apply Nat.eqb_eq in E; lia|].
  rewrite (lastb_nth _ _ _ _ HR Hrc), Hp2.
  replace (S (rc s - 1 - 0)) with (rc s + 0) by lia. replace (rc s - 1 - 0) with (rc s - 1) by lia.
  pose proof (b_scan_spec sc0 f0 c isNum (length (buf s) + length (data (rd s)) + 2) s p 0 (rc s - 1) Hb Hab HR
                ltac:(lia) ltac:(lia)
                ltac:(rewrite (rb_rest _ _ _ _ HR), app_length, skipn_length; lia)) as H.
  cbn [skipn] in H.
  destruct (b_scan (length (buf s) + length (data (rd s)) + 2) c isNum (rc s - 1) (rc s + 0) s) as [t st' ps' s'|st' ps' s'|k].
  - destruct H as (a & r' & I1 & I2 & I3 & I4 & I5). rewrite I1. cbn [sim].
    assert (Hrc' : 0 < rc s') by lia.
    destruct (Rb_adv sc0 f0 s' p (length a) I2 ltac:(lia)) as (_ & B & _).
    split; [|split; [reflexivity|]].
    + replace st' with (rc s' - 1) by lia. replace (ps' - 1) with (rc s' + length a) by lia.
      pose proof (rb_rc _ _ _ _ I2).
      rewrite slice_cons by lia. rewrite (lastb_nth _ _ _ _ I2 Hrc'). f_equal. rewrite <- B.
      rewrite (span_app _ _ _ _ I1). rewrite firstn_app_le by lia. apply firstn_all.
    + rewrite (consume_adv s' ps' (S (length a))) by lia.
      apply (Rb_adv sc0 f0 s' p (S (length a)) I2). lia.
  - destruct H as (a & I1 & I2 & I3 & I4 & I5 & I6). rewrite I1.
    assert (Hok : sim sc0 (Rb sc0 f0) s (Ok (slice st' ps' (buf s')) 0%N (consume_to s' ps'))
                      (SOk (last (pre p) 0%N :: a) 0%N (stake (length a) p))).
    { cbn [sim].
      assert (Hrc' : 0 < rc s') by lia.
      destruct (Rb_adv sc0 f0 s' p (length a) I2 ltac:(lia)) as (A & B & _).
      split; [|split; [reflexivity|]].
      + replace st' with (rc s' - 1) by lia. replace ps' with (rc s' + length a) by lia.
        pose proof (rb_rc _ _ _ _ I2).
        rewrite slice_cons by lia. rewrite (lastb_nth _ _ _ _ I2 Hrc'). f_equal. rewrite <- B.
        pose proof (span_app _ _ _ _ I1) as Hsp. rewrite app_nil_r in Hsp. rewrite Hsp. apply firstn_all.
      + rewrite (consume_adv s' ps' (length a)) by lia. exact A. }
    destruct (done s') eqn:Ed; [exact Hok|].
    destruct (perr s') eqn:Ep; try exact Hok;
      (destruct (perr_data _ _ _ _ Hab I2 ltac:(rewrite Ep; discriminate)) as [_ D2];
       cbn [sim]; split;
       [ rewrite <- Ep, D2; apply fin_not_bad, (rb_fin _ _ _ _ I2)
       | intros [F _]; rewrite (rb_fin0 _ _ _ _ HR) in F; rewrite (rb_fin0 _ _ _ _ I2) in D2;
         assert (Hk : perr s' = KEof) by congruence;
         rewrite (rb_done2 _ _ _ _ I2 Hk) in Ed; discriminate ]).
  - destruct H as (I1 & I2 & (a & I3)). rewrite I3. cbn [sim]. split; [exact I1|]. intros [F _]. contradiction.
Qed.

Lemma b_startrec_sim : forall sc0 f0 s p, Rb sc0 f0 s p -> pre_ok true p StartRec = true ->
  Rb sc0 f0 (set_rec s true (rc s - 1) (buf s)) (mksp (pre p) (rest p) true (length (pre p) - 1)).
Proof.
  intros sc0 f0 s p HR Hpre. cbn [pre_ok] in Hpre. apply Nat.ltb_lt in Hpre.
  assert (Hrc : 0 < rc s) by (apply (rb_rc0 _ _ _ _ HR); rewrite (rb_n _ _ _ _ HR); exact Hpre).
  destruct HR as [R1 R2 R3 R4 R5 R6 R7 R8 R9 R10 R14 R11 R12 R13].
  constructor; cbn; auto. intros _. split; lia.
Qed.

Lemma b_stoprec_sim : forall sc0 f0 s p, Rb sc0 f0 s p ->
  Rb sc0 f0 (set_rec s false 0 (buf s)) (mksp (pre p) (rest p) false 0).
Proof.
  intros sc0 f0 s p [R1 R2 R3 R4 R5 R6 R7 R8 R9 R10 R14 R11 R12 R13].
  constructor; cbn; auto. intros E. discriminate.
Qed.

Lemma b_stoprec_out : forall sc0 f0 s p, Rb sc0 f0 s p -> recording s = true ->
  slice (recc s) (rc s) (buf s) = skipn (recpos p) (pre p).
Proof.
  intros sc0 f0 s p HR Hr. destruct (rb_recc _ _ _ _ HR Hr) as [A B]. destruct (rb_pre _ _ _ _ HR) as [X E].
  pose proof (rb_rc _ _ _ _ HR) as Hrc.
  assert (HlX : length (pre p) = length X + rc s).
  { rewrite E, app_length, firstn_length. lia. }
  rewrite E. rewrite skipn_app. rewrite skipn_all2 by lia. cbn [app].
  replace (recpos p - length X) with (recc s) by lia. unfold slice.
  rewrite firstn_skipn_comm'. f_equal. f_equal. lia.
Qed.

Lemma bstep_sim : forall sc0 f0 c s p o, bufio c = true -> abides sc0 -> Rb sc0 f0 s p ->
  pre_ok true p o = true -> sim sc0 (Rb sc0 f0) s (step c s o) (sstep p o).
Proof.
  intros sc0 f0 c s p o Hbio Hab HR Hpre. unfold step. rewrite Hbio.
  assert (Hb : 0 < bufsize c) by (unfold bufio in Hbio; apply Nat.ltb_lt in Hbio; exact Hbio).
  destruct o.
  - apply b_readn1_sim; assumption.
  - apply b_readxb_sim; assumption.
  - apply b_readb_sim; assumption.
  - apply b_skip_sim; assumption.
  - apply b_ws_sim; assumption.
  - apply b_num_sim; assumption.
  - cbn [sstep]. unfold sp_scan.
    pose proof (b_until_sim sc0 f0 c s p dquote bslash (fun b => negb ((b =? dquote)%N || (b =? bslash)%N)) Hb Hab HR ltac:(reflexivity)) as H.
    destruct (b_until c dquote bslash s) as [out tok s'|k];
      destruct (span (fun b => negb ((b =? dquote)%N || (b =? bslash)%N)) (rest p)) as [a [|t r]]; cbn [sim]; auto.
  - cbn [sstep]. unfold sp_scan.
    pose proof (b_until_sim sc0 f0 c s p dquote 0%N q_dq0 Hb Hab HR ltac:(reflexivity)) as H.
    cbn [pre_ok] in Hpre. fold q_dq0 in Hpre. fold q_dq.
    destruct (span q_dq0 (rest p)) as [a r] eqn:Es. cbn [snd] in Hpre.
    assert (Hs : span q_dq (rest p) = (a, r)).
    { apply span_dq; [exact Es|]. destruct r; [exact I|exact Hpre]. }
    rewrite Hs. destruct (b_until c dquote 0%N s) as [out tok s'|k]; destruct r as [|t r]; cbn [sim]; auto.
    destruct H as (H1 & H2 & H3). auto.
  - cbn [sstep sim]. split; [reflexivity|]. split; [reflexivity|]. apply b_startrec_sim; assumption.
  - cbn [sstep sim]. cbn [pre_ok] in Hpre. split; [|split; [reflexivity|apply b_stoprec_sim, HR]].
    apply (b_stoprec_out _ _ _ _ HR). rewrite (rb_rec _ _ _ _ HR). exact Hpre.
Qed.

Lemma Rb_init : forall c d sc f, bufio c = true -> f = KEof \/ f = KHard -> Rb sc f (init c d sc f) (sinit d).
Proof.
  intros c d sc f Hb Hf. unfold init, sinit. rewrite Hb.
  constructor; cbn; auto using sfx_refl; try (intros H; congruence); try lia.
  - exists []. reflexivity.
Qed.

(* buffered mode, under the contract *)
Lemma buf_agree : forall c d sc f ops, bufio c = true -> f = KEof \/ f = KHard -> abides sc ->
  respects true (sinit d) ops = true -> agree (run_io c (init c d sc f) ops) (run_spec (sinit d) ops).
Proof.
  intros c d sc f ops Hb Hf Hab Hr.
  apply (run_agree c sc f (Rb sc f)).
  - intros s p o HR Hpre. rewrite Hb in Hpre. apply bstep_sim; assumption.
  - intros s p HR. split; [apply (rb_n _ _ _ _ HR)|apply (rb_fin0 _ _ _ _ HR)].
  - apply Rb_init; assumption.
  - rewrite Hb. exact Hr.
Qed.

Lemma buf_refines : forall c d sc ops, bufio c = true -> abides sc ->
  respects true (sinit d) ops = true ->
  map erase (run_io c (init c d sc KEof) ops) = run_spec (sinit d) ops.
Proof.
  intros c d sc ops Hb Hab Hr.
  apply (run_refines c sc KEof (Rb sc KEof)); auto.
  - intros s p o HR Hpre. rewrite Hb in Hpre. apply bstep_sim; assumption.
  - intros s p HR. split; [apply (rb_n _ _ _ _ HR)|apply (rb_fin0 _ _ _ _ HR)].
  - apply Rb_init; auto.
  - rewrite Hb. exact Hr.
Qed.

(* both modes *)
Lemma all_refines : forall c d sc ops, abides sc -> respects (bufio c) (sinit d) ops = true ->
  map erase (run_io c (init c d sc KEof) ops) = run_spec (sinit d) ops.
Proof.
  intros c d sc ops Hab Hr. destruct (bufio c) eqn:E.
  - apply buf_refines; assumption.
  - apply unbuf_refines; assumption.
Qed.

Lemma all_agree : forall c d sc f ops, f = KEof \/ f = KHard -> abides sc ->
  respects (bufio c) (sinit d) ops = true -> agree (run_io c (init c d sc f) ops) (run_spec (sinit d) ops).
Proof.
  intros c d sc f ops Hf Hab Hr. destruct (bufio c) eqn:E.
  - apply buf_agree; assumption.
  - apply unbuf_agree; assumption.
Qed.

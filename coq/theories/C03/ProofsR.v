(* C03 — lemmas: resetIO from ANY previous state re-establishes the simulation
   relations (nothing of the previous Reader survives: cursors, last byte, sticky
   error, recording, EOF-seen), so every theorem about a fresh reader holds for a
   reused one. *)
From Coq Require Import List NArith ZArith Arith Lia Bool.
From Verif Require Import Gen.Consts C03.Model C03.ModelR C03.Proofs C03.ProofsB.
Import ListNotations.

Lemma init_is_reset : forall c d sc f, init c d sc f = resetIO c (st0 0) d sc f.
Proof.
  intros c d sc f. unfold init, resetIO, reset_cap, st0. cbn [bcap].
  destruct (Nat.max 256 (bufsize c) <=? 0) eqn:E; [|reflexivity].
  apply Nat.leb_le in E. pose proof (Nat.le_max_l 256 (bufsize c)). lia.
Qed.

Lemma Ru_reset : forall c s0 d sc f, bufio c = false -> f = KEof \/ f = KHard ->
  Ru sc f (resetIO c s0 d sc f) (sinit d).
Proof.
  intros c s0 d sc f Hb Hf. unfold resetIO, sinit. constructor; cbn; auto using sfx_refl; intros H; congruence.
Qed.

Lemma Rb_reset : forall c s0 d sc f, bufio c = true -> f = KEof \/ f = KHard ->
  Rb sc f (resetIO c s0 d sc f) (sinit d).
Proof.
  intros c s0 d sc f Hb Hf. unfold resetIO, sinit. rewrite Hb.
  constructor; cbn; auto using sfx_refl; try (intros H; congruence); try lia.
  - exists []. reflexivity.
Qed.

Lemma reset_refines : forall c s0 d sc ops, abides sc -> respects (bufio c) (sinit d) ops = true ->
  map erase (run_io c (resetIO c s0 d sc KEof) ops) = run_spec (sinit d) ops.
Proof.
  intros c s0 d sc ops Hab Hr. destruct (bufio c) eqn:Hb.
  - apply (run_refines c sc KEof (Rb sc KEof)); auto.
    + intros s p o HR Hpre. rewrite Hb in Hpre. apply bstep_sim; assumption.
    + intros s p HR. split; [apply (rb_n _ _ _ _ HR)|apply (rb_fin0 _ _ _ _ HR)].
    + apply Rb_reset; auto.
    + rewrite Hb. exact Hr.
  - apply (run_refines c sc KEof (Ru sc KEof)); auto.
    + intros s p o HR Hpre. rewrite Hb in Hpre. apply ustep_sim; assumption.
    + intros s p HR. split; [apply (ru_n _ _ _ _ HR)|apply (ru_fin0 _ _ _ _ HR)].
    + apply Ru_reset; auto.
    + rewrite Hb. exact Hr.
Qed.

Lemma reset_agree : forall c s0 d sc f ops, f = KEof \/ f = KHard -> abides sc ->
  respects (bufio c) (sinit d) ops = true ->
  agree (run_io c (resetIO c s0 d sc f) ops) (run_spec (sinit d) ops).
Proof.
  intros c s0 d sc f ops Hf Hab Hr. destruct (bufio c) eqn:Hb.
  - apply (run_agree c sc f (Rb sc f)).
    + intros s p o HR Hpre. rewrite Hb in Hpre. apply bstep_sim; assumption.
    + intros s p HR. split; [apply (rb_n _ _ _ _ HR)|apply (rb_fin0 _ _ _ _ HR)].
    + apply Rb_reset; assumption.
    + rewrite Hb. exact Hr.
  - apply (run_agree c sc f (Ru sc f)).
    + intros s p o HR Hpre. rewrite Hb in Hpre. apply ustep_sim; assumption.
    + intros s p HR. split; [apply (ru_n _ _ _ _ HR)|apply (ru_fin0 _ _ _ _ HR)].
    + apply Ru_reset; assumption.
    + rewrite Hb. exact Hr.
Qed.

(* a whole life of a Decoder: whatever the earlier segments were (also scripts that
   break the contract, operation lists outside the protocol, failed runs) *)
Lemma sess_refines : forall c sfail hist s0 d sc ops, abides sc -> respects (bufio c) (sinit d) ops = true ->
  map erase (run_sess c sfail s0 hist d sc KEof ops) = run_spec (sinit d) ops.
Proof.
  intros c sfail hist. induction hist as [|g hist IH]; intros s0 d sc ops Hab Hr; cbn [run_sess].
  - apply reset_refines; assumption.
  - apply IH; assumption.
Qed.

Lemma sess_agree : forall c sfail hist s0 d sc f ops, f = KEof \/ f = KHard -> abides sc ->
  respects (bufio c) (sinit d) ops = true ->
  agree (run_sess c sfail s0 hist d sc f ops) (run_spec (sinit d) ops).
Proof.
  intros c sfail hist. induction hist as [|g hist IH]; intros s0 d sc f ops Hf Hab Hr; cbn [run_sess].
  - apply reset_agree; assumption.
  - apply IH; assumption.
Qed.

Lemma reset_truncated : forall c s0 d sc f ops, f = KEof \/ f = KHard -> abides sc ->
  respects (bufio c) (sinit d) ops = true -> In TErr (run_spec (sinit d) ops) ->
  exists k, In (EErr k) (run_io c (resetIO c s0 d sc f) ops) /\ k <> KFuel /\ k <> KUnmodelled /\ k <> KNone.
Proof.
  intros c s0 d sc f ops Hf Hab Hr Hin.
  destruct (agree_truncated _ _ (reset_agree c s0 d sc f ops Hf Hab Hr) Hin) as [k [A B]].
  exists k. split; [exact A|]. unfold bad in B. repeat apply conj; intros E; apply B; auto.
Qed.

(* C03 — lemmas. *)
From Coq Require Import List NArith ZArith Arith Lia Bool.
From Verif Require Import Gen.Consts C03.Model.
Import ListNotations.

Lemma tries_eq : tries = 16.
Proof. reflexivity. Qed.

(* C03 — lemmas: the scripted reader, the relation between ioDecReader states and
   specification states, simulation of every operation (unbuffered part). *)
From Coq Require Import List NArith ZArith Arith Lia Bool.
From Verif Require Import Gen.Consts C03.Model.
Import ListNotations.

Lemma tries_eq : tries = 16.
Proof. reflexivity. Qed.

(* ---------- lists ---------- *)
Lemma skipn_app_le : forall (A : Type) k (a b : list A), k <= length a -> skipn k (a ++ b) = skipn k a ++ b.
Proof.
  intros A k a b H. rewrite skipn_app. replace (k - length a) with 0 by lia. reflexivity.
Qed.

Lemma firstn_app_le : forall (A : Type) k (a b : list A), k <= length a -> firstn k (a ++ b) = firstn k a.
Proof.
  intros A k a b H. rewrite firstn_app. replace (k - length a) with 0 by lia.
  rewrite firstn_O, app_nil_r. reflexivity.
Qed.

Lemma last_app_ne : forall (a b : list N) d, b <> [] -> last (a ++ b) d = last b d.
Proof.
  induction a as [|x a IH]; intros b d Hb; [reflexivity|].
  simpl. destruct (a ++ b) eqn:E.
  - destruct a, b; simpl in E; congruence.
  - rewrite <- E. apply IH, Hb.
Qed.

Lemma last_indep : forall (a : list N) d d', a <> [] -> last a d = last a d'.
Proof.
  induction a as [|x a IH]; intros d d' H; [congruence|].
  destruct a; [reflexivity|]. simpl in *. apply IH. congruence.
Qed.

Lemma skipn_pred_last : forall (a : list N) d, a <> [] -> skipn (length a - 1) a = [last a d].
Proof.
  induction a as [|x a IH]; intros d H; [congruence|].
  destruct a as [|y a]; [reflexivity|].
  replace (length (x :: y :: a) - 1) with (S (length (y :: a) - 1)) by (simpl; lia).
  rewrite skipn_cons. rewrite (IH d) by congruence. reflexivity.
Qed.

Lemma app_removelast_last' : forall (a : list N) d, a <> [] -> a = removelast a ++ [last a d].
Proof. intros. apply app_removelast_last. assumption. Qed.

(* ---------- suffixes of scripts, the contract ---------- *)
Definition sfx (a b : list resp) : Prop := exists p, b = p ++ a.

Lemma sfx_refl : forall a, sfx a a.
Proof. intros a. exists []. reflexivity. Qed.

Lemma sfx_trans : forall a b c, sfx a b -> sfx b c -> sfx a c.
Proof. intros a b c [p ->] [q ->]. exists (q ++ p). rewrite app_assoc. reflexivity. Qed.

Lemma sfx_cons : forall x a, sfx a (x :: a).
Proof. intros x a. exists [x]. reflexivity. Qed.

Lemma abides_lt : forall sc c, abides_from c sc -> c < tries.
Proof. destruct sc; intros c [H _]; exact H. Qed.

Lemma abides_weaken : forall sc c c', abides_from c sc -> c' <= c -> abides_from c' sc.
Proof.
  induction sc as [|x sc IH]; intros c c' [H1 H2] Hle; simpl; split; try lia; auto.
  destruct (rk x =? 0); [apply (IH (S c)); [assumption|lia]|assumption].
Qed.

Lemma abides_tail : forall x sc c, abides_from c (x :: sc) -> abides_from 0 sc.
Proof.
  intros x sc c [_ H]. destruct (rk x =? 0); [apply (abides_weaken _ _ _ H); lia|assumption].
Qed.

Lemma abides_sfx : forall a b, sfx a b -> abides b -> abides a.
Proof.
  intros a b [p ->]. unfold abides. induction p as [|x p IH]; intros H; [assumption|].
  apply IH. eapply abides_tail. exact H.
Qed.

(* ---------- the scripted reader ---------- *)
Definition fin_ok (r : rdr) : Prop := fin r = KEof \/ fin r = KHard.

Lemma fin_ok_none : forall r, fin_ok r -> fin r <> KNone.
Proof. intros r [H|H]; rewrite H; discriminate. Qed.

Lemma rd_read_spec : forall m r d e r', rd_read m r = (d, e, r') -> 0 < m -> fin_ok r ->
  fin r' = fin r /\ data r = d ++ data r' /\ length d <= m /\ drawn r' = drawn r + length d /\
  (e = KNone \/ (e = fin r /\ data r' = [])) /\
  (e = KNone -> rmsr r' < rmsr r) /\
  ((script r = [] /\ script r' = []) \/ exists x, script r = x :: script r' /\ (rk x = 0 -> d = [] /\ e = KNone)) /\
  (e = KNone -> d = [] -> exists x, script r = x :: script r' /\ rk x = 0).
Proof.
  intros m r d e r' H Hm Hf. unfold rd_read in H. pose proof (fin_ok_none r Hf) as Hfn.
  destruct (script r) as [|x rest] eqn:Es.
  - destruct (data r) as [|b dd] eqn:Ed.
    + inversion H; subst; clear H. cbn. unfold rmsr; cbn. repeat apply conj; auto; try lia.
      * intros E. congruence.
      * intros E. congruence.
    + inversion H; subst; clear H. cbn [fin data drawn script]. rewrite <- Ed.
      repeat apply conj; auto.
      * symmetry. apply firstn_skipn.
      * rewrite firstn_length. lia.
      * intros _. unfold rmsr; cbn [script data]. rewrite Es. cbn [length].
        rewrite skipn_length. rewrite Ed. cbn [length]. lia.
      * intros _ E. destruct m; [lia|]. rewrite Ed in E. discriminate.
  - destruct (rk x =? 0) eqn:Ek.
    + inversion H; subst; clear H. cbn [fin data drawn script]. apply Nat.eqb_eq in Ek.
      repeat apply conj; auto; try (cbn; lia).
      * intros _. unfold rmsr; cbn [script data]. rewrite Es. cbn. lia.
      * right. exists x. auto.
      * intros _ _. exists x. auto.
    + apply Nat.eqb_neq in Ek. destruct (data r) as [|b dd] eqn:Ed.
      * inversion H; subst; clear H. cbn [fin data drawn script]. repeat apply conj; auto; try (cbn; lia).
        -- intros E. congruence.
        -- right. exists x. split; [reflexivity|]. intros; lia.
        -- intros E. congruence.
      * inversion H; subst; clear H. cbn [fin data drawn script]. rewrite <- Ed.
        repeat apply conj; auto.
        -- symmetry. apply firstn_skipn.
        -- rewrite firstn_length. lia.
        -- destruct (rlast x && (length (skipn (Nat.min (rk x) m) (data r)) =? 0)) eqn:El; [|left; reflexivity].
           right. split; [reflexivity|]. apply andb_prop in El. destruct El as [_ El].
           apply Nat.eqb_eq in El. apply length_zero_iff_nil. exact El.
        -- intros _. unfold rmsr; cbn [script data]. rewrite Es. cbn [length].
           rewrite skipn_length. lia.
        -- right. exists x. split; [reflexivity|]. intros; lia.
        -- intros _ E. exfalso. rewrite Ed in E.
           destruct (Nat.min (rk x) m) eqn:Emin; [lia|]. discriminate.
Qed.

Lemma rd_read_sfx : forall m r d e r', rd_read m r = (d, e, r') -> 0 < m -> fin_ok r -> sfx (script r') (script r).
Proof.
  intros m r d e r' H Hm Hf. destruct (rd_read_spec _ _ _ _ _ H Hm Hf) as (_ & _ & _ & _ & _ & _ & [[-> ->]|[x [-> _]]] & _).
  - apply sfx_refl.
  - apply sfx_cons.
Qed.

(* readOne *)
Lemma readOne_spec : forall i r, fin_ok r ->
  match readOne i r with
  | (Some b, _, r') => data r = b :: data r' /\ drawn r' = S (drawn r) /\ fin r' = fin r /\ sfx (script r') (script r)
  | (None, e, r') => fin r' = fin r /\ sfx (script r') (script r) /\ drawn r' = drawn r /\
                     ((e = fin r /\ data r = [] /\ data r' = []) \/
                      (e = KNoProgress /\ forall c, c + i = tries -> ~ abides_from c (script r)))
  end.
Proof.
  induction i as [|i IH]; intros r Hf.
  - cbn [readOne]. repeat apply conj; auto using sfx_refl. right. split; [reflexivity|].
    intros c Hc Hab. apply abides_lt in Hab. lia.
  - cbn [readOne]. destruct (rd_read 1 r) as [[d e] r1] eqn:E.
    destruct (rd_read_spec _ _ _ _ _ E ltac:(lia) Hf) as (Hfin & Hd & Hlen & Hdr & He & Hm & Hs & Hz).
    pose proof (rd_read_sfx _ _ _ _ _ E ltac:(lia) Hf) as Hsf.
    destruct d as [|b d].
    + destruct (is_none e) eqn:En.
      * destruct e; try discriminate. specialize (Hz eq_refl eq_refl). destruct Hz as [x [Hx Hk]].
        assert (Hf1 : fin_ok r1) by (unfold fin_ok; rewrite Hfin; exact Hf).
        specialize (IH r1 Hf1). destruct (readOne i r1) as [[ob e'] r2].
        cbn in Hd. destruct ob as [b|].
        -- destruct IH as (A & B & C & D). repeat apply conj; try congruence.
           ++ cbn in Hdr. lia.
           ++ eapply sfx_trans; eassumption.
        -- destruct IH as (A & B & C & D). repeat apply conj; try congruence.
           ++ eapply sfx_trans; eassumption.
           ++ cbn in Hdr. lia.
           ++ destruct D as [(D1 & D2 & D3)|(D1 & D2)].
              ** left. repeat apply conj; congruence.
              ** right. split; [assumption|]. intros c Hc Hab. rewrite Hx in Hab.
                 destruct Hab as [_ Hab]. rewrite Hk in Hab. cbn in Hab. apply (D2 (S c)); [lia|assumption].
      * destruct He as [He|[He Hd']]; [subst e; discriminate|].
        cbn in Hd, Hdr. split; [assumption|]. split; [assumption|]. split; [lia|].
        left. repeat apply conj; congruence.
    + cbn in Hlen. destruct d; [|cbn in Hlen; lia]. cbn in Hd, Hdr. repeat apply conj; auto. lia.
Qed.

(* ReadByte *)
Lemma readbyte_sc_spec : forall sc d f,
  match readbyte_sc sc d f with
  | (Some b, _, d', sc') => d = b :: d' /\ sfx sc' sc
  | (None, e, d', sc') => e = f /\ d = [] /\ d' = [] /\ sfx sc' sc
  end.
Proof.
  induction sc as [|x sc IH]; intros d f; cbn.
  - destruct d; repeat apply conj; auto using sfx_refl.
  - destruct (rk x =? 0).
    + specialize (IH d f). destruct (readbyte_sc sc d f) as [[[ob e] d'] sc'].
      destruct ob; intuition auto; eapply sfx_trans; eauto using sfx_cons.
    + destruct d; repeat apply conj; auto using sfx_cons.
Qed.

(* one byte, either way *)
Lemma get1_spec : forall c r, fin_ok r ->
  match get1 c r with
  | (Some b, _, r') => data r = b :: data r' /\ drawn r' = S (drawn r) /\ fin r' = fin r /\ sfx (script r') (script r)
  | (None, e, r') => fin r' = fin r /\ sfx (script r') (script r) /\ drawn r' = drawn r /\
                     ((e = fin r /\ data r = [] /\ data r' = []) \/
                      (e = KNoProgress /\ ~ abides (script r)))
  end.
Proof.
  intros c r Hf. unfold get1. destruct (rbr c).
  - unfold rd_readbyte. pose proof (readbyte_sc_spec (script r) (data r) (fin r)) as H.
    destruct (readbyte_sc (script r) (data r) (fin r)) as [[[ob e] d'] sc'].
    destruct ob; cbn [fin data drawn script].
    + destruct H. split; [assumption|]. split; [lia|]. split; [reflexivity|assumption].
    + destruct H as (A & B & C & D). split; [reflexivity|]. split; [assumption|]. split; [lia|].
      left. auto.
  - pose proof (readOne_spec tries r Hf) as H. destruct (readOne tries r) as [[ob e] r'].
    destruct ob; [exact H|]. destruct H as (A & B & C & D). repeat apply conj; auto.
    destruct D as [D|[D1 D2]]; [left; exact D|right]. split; [exact D1|]. apply (D2 0). reflexivity.
Qed.

(* the READER loop *)
Lemma uread_spec : forall fuel reqf want acc r,
  (forall w, 0 < w -> 0 < reqf w <= w) -> fin_ok r -> 0 < want -> rmsr r < fuel ->
  match uread fuel reqf want acc r with
  | (Some out, _, r') => want <= length (data r) /\ out = acc ++ firstn want (data r) /\
                         data r' = skipn want (data r) /\ drawn r' = drawn r + want /\
                         fin r' = fin r /\ sfx (script r') (script r)
  | (None, e, _) => length (data r) < want /\ e = fin r
  end.
Proof.
  induction fuel as [|fuel IH]; intros reqf want acc r Hreq Hf Hw Hfuel; [lia|].
  cbn [uread]. destruct (rd_read (reqf want) r) as [[d e] r1] eqn:E.
  destruct (Hreq want Hw) as [Hr1 Hr2].
  destruct (rd_read_spec _ _ _ _ _ E Hr1 Hf) as (Hfin & Hd & Hlen & Hdr & He & Hm & Hs & Hz).
  pose proof (rd_read_sfx _ _ _ _ _ E Hr1 Hf) as Hsf.
  destruct (want - length d =? 0) eqn:Ew.
  - apply Nat.eqb_eq in Ew. assert (length d = want) by lia.
    repeat apply conj; auto.
    + rewrite Hd, app_length. lia.
    + rewrite Hd. rewrite firstn_app_le by lia. rewrite firstn_all2 by lia. reflexivity.
    + rewrite Hd. rewrite skipn_app. rewrite skipn_all2 by lia. replace (want - length d) with 0 by lia. reflexivity.
    + lia.
  - apply Nat.eqb_neq in Ew. destruct (is_none e) eqn:En.
    + destruct e; try discriminate. specialize (Hm eq_refl).
      assert (Hf1 : fin_ok r1) by (unfold fin_ok; rewrite Hfin; exact Hf).
      specialize (IH reqf (want - length d) (acc ++ d) r1 Hreq Hf1 ltac:(lia) ltac:(lia)).
      destruct (uread fuel reqf (want - length d) (acc ++ d) r1) as [[oo e'] r2].
      destruct oo as [out|].
      * destruct IH as (A & B & C & D & F & G). repeat apply conj.
        -- rewrite Hd, app_length. lia.
        -- rewrite B, Hd. rewrite <- app_assoc. f_equal.
           rewrite firstn_app. rewrite (@firstn_all2 _ want d) by lia. reflexivity.
        -- rewrite C, Hd. rewrite skipn_app. rewrite (@skipn_all2 _ want d) by lia. reflexivity.
        -- lia.
        -- congruence.
        -- eapply sfx_trans; eassumption.
      * destruct IH as [A B]. split; [rewrite Hd, app_length; lia|congruence].
    + destruct He as [He|[He Hd']]; [subst e; discriminate|].
      split; [|exact He]. rewrite Hd, Hd', app_nil_r. lia.
Qed.

Lemma sfx_length : forall a b, sfx a b -> length a <= length b.
Proof. intros a b [p ->]. rewrite app_length. lia. Qed.

(* ---------- unbuffered mode: the relation ---------- *)
Record Ru (sc0 : list resp) (f0 : ek) (s : st) (p : sp) : Prop := mkRu {
  ru_data : data (rd s) = rest p;
  ru_n : n s = length (pre p);
  ru_drawn : drawn (rd s) = n s;
  ru_l : pre p <> [] -> l s = last (pre p) 0%N;
  ru_rec : recording s = srec p;
  ru_buf : recording s = true -> buf s = skipn (recpos p) (pre p) /\ recpos p < length (pre p);
  ru_fin : fin_ok (rd s);
  ru_fin0 : fin (rd s) = f0;
  ru_sfx : sfx (script (rd s)) sc0 }.

(* the state after [d] more bytes have been consumed *)
Lemma Ru_adv : forall sc0 f0 s p s' d rest',
  Ru sc0 f0 s p -> rest p = d ++ rest' ->
  data (rd s') = rest' -> n s' = n s + length d -> drawn (rd s') = drawn (rd s) + length d ->
  l s' = last d (l s) -> recording s' = recording s ->
  (recording s = true -> buf s' = buf s ++ d) ->
  fin (rd s') = fin (rd s) -> sfx (script (rd s')) (script (rd s)) ->
  Ru sc0 f0 s' (mksp (pre p ++ d) rest' (srec p) (recpos p)).
Proof.
  intros sc0 f0 s p s' d rest' [R1 R2 R3 R4 R5 R6 R7 R9 R8] Hrest H1 H2 H3 H4 H5 H6 H7 H8.
  constructor; cbn [pre rest srec recpos].
  - assumption.
  - rewrite H2, R2, app_length. reflexivity.
  - lia.
  - intros Hne. rewrite H4. destruct d as [|x d].
    + rewrite app_nil_r in *. cbn. apply R4. exact Hne.
    + rewrite last_app_ne by discriminate. apply last_indep. discriminate.
  - congruence.
  - rewrite H5. intros Hr. destruct (R6 Hr) as [B1 B2]. split.
    + rewrite (H6 Hr), B1. rewrite skipn_app_le by lia. reflexivity.
    + rewrite app_length. lia.
  - unfold fin_ok. rewrite H7. exact R7.
  - congruence.
  - eapply sfx_trans; eassumption.
Qed.

(* ---------- what a step must satisfy ---------- *)
Definition bad (k : ek) : Prop := k = KFuel \/ k = KUnmodelled \/ k = KNone.

Definition sim (sc0 : list resp) (R : st -> sp -> Prop) (s : st) (io : res) (spr : sres) : Prop :=
  match io, spr with
  | Ok out tok s', SOk out' tok' p' => out = out' /\ tok = tok' /\ R s' p'
  | Ok _ _ _, SErr => False
  | Err k, SErr => ~ bad k
  | Err k, SOk _ _ _ => ~ bad k /\ ~ (fin (rd s) = KEof /\ abides sc0)
  end.

Lemma fin_not_bad : forall r, fin_ok r -> ~ bad (fin r).
Proof. intros r [H|H] [B|[B|B]]; congruence. Qed.

Lemma noprog_not_bad : ~ bad KNoProgress.
Proof. intros [B|[B|B]]; discriminate. Qed.

Lemma inferLen_ok : forall m, 0 < m -> forall w, 0 < w -> 0 < inferLen w m <= w.
Proof.
  intros m Hm w Hw. unfold inferLen. destruct (w =? 0) eqn:E; [apply Nat.eqb_eq in E; lia|]. lia.
Qed.

Lemma mil_pos : forall c, 0 < mil c.
Proof. intros c. unfold mil. lia. Qed.

Lemma u_take_sim : forall sc0 f0 s p k reqf (ap keep : bool),
  Ru sc0 f0 s p -> (forall w, 0 < w -> 0 < reqf w <= w) -> 0 < k -> (recording s = true -> ap = true) ->
  sim sc0 (Ru sc0 f0) s
    (match uread (rmsr (rd s) + 2) reqf k [] (rd s) with
     | (Some d, _, r') => Ok (if keep then d else []) 0%N (ugotn s r' d ap)
     | (None, e, _) => Err e
     end)
    (sp_take k keep p).
Proof.
  intros sc0 f0 s p k reqf ap keep HR Hreq Hk Happ.
  pose proof (uread_spec (rmsr (rd s) + 2) reqf k [] (rd s) Hreq (ru_fin _ _ _ _ HR) Hk ltac:(lia)) as H.
  destruct (uread (rmsr (rd s) + 2) reqf k [] (rd s)) as [[od e] r'].
  unfold sp_take. rewrite <- (ru_data _ _ _ _ HR).
  destruct od as [d|].
  - destruct H as (A & B & C & D & F & G). cbn [app] in B.
    destruct (k <=? length (data (rd s))) eqn:E; [|apply Nat.leb_gt in E; lia].
    cbn [sim]. split; [rewrite B; reflexivity|]. split; [reflexivity|].
    unfold stake. rewrite <- (ru_data _ _ _ _ HR). rewrite <- B, <- C.
    assert (Hlen : length d = k) by (rewrite B, firstn_length; lia).
    eapply Ru_adv; try exact HR; cbn [ugotn rd n l recording buf].
    + rewrite <- (ru_data _ _ _ _ HR). rewrite B, C. symmetry. apply firstn_skipn.
    + reflexivity.
    + reflexivity.
    + lia.
    + reflexivity.
    + reflexivity.
    + intros Hr. rewrite (Happ Hr). reflexivity.
    + assumption.
    + assumption.
  - destruct H as [A B]. subst e.
    destruct (k <=? length (data (rd s))) eqn:E; [apply Nat.leb_le in E; lia|].
    cbn [sim]. apply fin_not_bad, (ru_fin _ _ _ _ HR).
Qed.

Lemma last_cons_d : forall (a : list N) b d, last (b :: a) d = last a b.
Proof. intros a b d. destruct a as [|x a]; [reflexivity|]. change (last (b :: x :: a) d) with (last (x :: a) d). apply last_indep. discriminate. Qed.

(* the unbuffered scanning loop *)
Lemma u_scan_spec : forall fuel c cont (ap : bool) s, fin_ok (rd s) -> rmsr (rd s) < fuel ->
  match u_scan fuel c cont ap s with
  | UTok t s' => exists a r', span cont (data (rd s)) = (a, t :: r') /\ cont t = false /\ data (rd s') = r' /\
       n s' = n s + S (length a) /\ drawn (rd s') = drawn (rd s) + S (length a) /\
       buf s' = (if ap then buf s ++ a ++ [t] else buf s) /\ l s' = t /\ recording s' = recording s /\
       fin (rd s') = fin (rd s) /\ sfx (script (rd s')) (script (rd s))
  | UEnd e s' => (exists a, span cont (data (rd s)) = (a, []) /\ e = fin (rd s) /\ data (rd s') = [] /\
       n s' = n s + length a /\ drawn (rd s') = drawn (rd s) + length a /\
       buf s' = (if ap then buf s ++ a else buf s) /\ l s' = last a (l s) /\ recording s' = recording s /\
       fin (rd s') = fin (rd s) /\ sfx (script (rd s')) (script (rd s)))
      \/ (e = KNoProgress /\ ~ abides (script (rd s)))
  end.
Proof.
  induction fuel as [|fuel IH]; intros c cont ap s Hf Hfuel; [lia|].
  cbn [u_scan]. pose proof (get1_spec c (rd s) Hf) as G.
  destruct (get1 c (rd s)) as [[ob e] r'].
  destruct ob as [b|].
  - destruct G as (G1 & G2 & G3 & G4).
    set (s1 := ugot s r' b ap).
    assert (Hf1 : fin_ok (rd s1)) by (unfold fin_ok; cbn; rewrite G3; exact Hf).
    assert (Hm : rmsr (rd s1) < fuel).
    { cbn. unfold rmsr in *. apply sfx_length in G4. rewrite G1 in Hfuel. cbn [length] in Hfuel. lia. }
    rewrite G1. cbn [span]. destruct (cont b) eqn:Ec.
    + specialize (IH c cont ap s1 Hf1 Hm). destruct (u_scan fuel c cont ap s1) as [t s'|e' s'].
      * destruct IH as (a & rr & I1 & I0 & I2 & I3 & I4 & I5 & I6 & I7 & I8 & I9).
        cbn [s1 ugot rd n buf l recording] in *. rewrite I1.
        exists (b :: a), rr. repeat apply conj; auto; cbn [length]; try lia.
        -- rewrite I5. destruct ap; [|reflexivity]. rewrite <- app_assoc. reflexivity.
        -- congruence.
        -- eapply sfx_trans; eassumption.
      * destruct IH as [(a & I1 & I2 & I3 & I4 & I5 & I6 & I7 & I8 & I9 & I10)|[I1 I2]].
        -- left. cbn [s1 ugot rd n buf l recording] in *. rewrite I1. exists (b :: a).
           repeat apply conj; auto; cbn [length]; try lia.
           ++ congruence.
           ++ rewrite I6. destruct ap; [|reflexivity]. rewrite <- app_assoc. reflexivity.
           ++ rewrite I7. symmetry. apply last_cons_d.
           ++ congruence.
           ++ eapply sfx_trans; eassumption.
        -- right. split; [assumption|]. intros Hab. apply I2. cbn [s1 ugot rd].
           eapply abides_sfx; eassumption.
    + exists [], (data r'). cbn [s1 ugot rd n buf l recording length]. repeat apply conj; auto; try lia.
  - destruct G as (G1 & G2 & G3 & [(G4 & G5 & G6)|[G4 G5]]).
    + left. exists []. rewrite G5. cbn [span set_rd rd n buf l recording length last].
      repeat apply conj; auto; try lia. destruct ap; [rewrite app_nil_r|]; reflexivity.
    + right. split; assumption.
Qed.

(* ---------- span ---------- *)
Lemma span_app : forall p x a r, span p x = (a, r) -> x = a ++ r.
Proof.
  induction x as [|b x IH]; intros a r H; cbn in H.
  - inversion H. reflexivity.
  - destruct (p b).
    + destruct (span p x) as [a' r']. inversion H; subst. cbn. f_equal. apply IH. reflexivity.
    + inversion H. reflexivity.
Qed.

Definition q_dq0 (b : N) : bool := negb ((b =? dquote)%N || (b =? 0)%N).
Definition q_dq (b : N) : bool := negb (b =? dquote)%N.

Lemma span_dq : forall x a r, span q_dq0 x = (a, r) ->
  match r with t :: _ => (t =? dquote)%N = true | [] => True end ->
  span q_dq x = (a, r).
Proof.
  induction x as [|b x IH]; intros a r H Ht; cbn in H |- *.
  - exact H.
  - unfold q_dq0 in H at 1. unfold q_dq at 1.
    destruct (b =? dquote)%N eqn:E1; cbn in H |- *.
    + exact H.
    + destruct (b =? 0)%N eqn:E2; cbn in H.
      * inversion H; subst. rewrite E1 in Ht. discriminate.
      * fold q_dq0 in H. destruct (span q_dq0 x) as [a' r'] eqn:E.
        inversion H; subst. rewrite (IH a' r eq_refl Ht). reflexivity.
Qed.

Lemma last_skipn : forall (a : list N) k d, k < length a -> last (skipn k a) d = last a d.
Proof.
  intros a k d H. rewrite <- (firstn_skipn k a) at 2. symmetry. apply last_app_ne.
  intros E. apply (f_equal (@length N)) in E. rewrite skipn_length in E. cbn in E. lia.
Qed.

Lemma slice_mid : forall (x y z : list N) i j, i = length x -> j = length x + length y ->
  slice i j (x ++ y ++ z) = y.
Proof.
  intros x y z i j -> ->. unfold slice. rewrite skipn_app. rewrite skipn_all2 by lia.
  replace (length x - length x) with 0 by lia. cbn [skipn app].
  replace (length x + length y - length x) with (length y) by lia.
  rewrite firstn_app_le by lia. apply firstn_all2. lia.
Qed.

Lemma skipn_exact : forall (x y : list N) i, i = length x -> skipn i (x ++ y) = y.
Proof. intros x y i ->. rewrite skipn_app. rewrite skipn_all2 by lia. replace (length x - length x) with 0 by lia. reflexivity. Qed.

Lemma Ru_set_buf : forall sc0 f0 s p b, recording s = false -> Ru sc0 f0 s p -> Ru sc0 f0 (set_buf s b) p.
Proof.
  intros sc0 f0 s p b Hr [R1 R2 R3 R4 R5 R6 R7 R9 R8]. constructor; cbn; auto. intros E. congruence.
Qed.

Lemma Ru_noadv : forall sc0 f0 s p, Ru sc0 f0 s p -> Ru sc0 f0 s (stake 0 p).
Proof.
  intros sc0 f0 s p HR. unfold stake. cbn [firstn skipn].
  eapply Ru_adv with (d := []); try exact HR; cbn; auto using sfx_refl.
  - apply (ru_data _ _ _ _ HR).
  - intros _. rewrite app_nil_r. reflexivity.
Qed.

(* ---------- unbuffered mode: every operation ---------- *)
Lemma noprog_sim : forall sc0 (R : st -> sp -> Prop) s spr,
  sfx (script (rd s)) sc0 -> ~ abides (script (rd s)) -> sim sc0 R s (Err KNoProgress) spr.
Proof.
  intros sc0 R s spr Hs Hab. destruct spr; cbn [sim].
  - split; [apply noprog_not_bad|]. intros [_ A]. apply Hab. eapply abides_sfx; eassumption.
  - apply noprog_not_bad.
Qed.

Lemma u_readn1_sim : forall sc0 f0 c s p, Ru sc0 f0 s p -> sim sc0 (Ru sc0 f0) s (u_readn1 c s) (sstep p Readn1).
Proof.
  intros sc0 f0 c s p HR. unfold u_readn1. pose proof (get1_spec c (rd s) (ru_fin _ _ _ _ HR)) as G.
  destruct (get1 c (rd s)) as [[ob e] r']. cbn [sstep]. unfold sp_take.
  rewrite <- (ru_data _ _ _ _ HR). destruct ob as [b|].
  - destruct G as (G1 & G2 & G3 & G4). rewrite G1. cbn [length Nat.leb firstn sim].
    split; [reflexivity|]. split; [reflexivity|]. unfold stake. rewrite <- (ru_data _ _ _ _ HR), G1. cbn [firstn skipn].
    eapply Ru_adv; try exact HR; cbn [ugot rd n l recording buf length last]; auto.
    + rewrite <- (ru_data _ _ _ _ HR). exact G1.
    + lia.
    + lia.
    + intros Hr. rewrite Hr. reflexivity.
  - destruct G as (G1 & G2 & G3 & [(G4 & G5 & G6)|[G4 G5]]).
    + rewrite G5. cbn [length Nat.leb sim]. subst e. apply fin_not_bad, (ru_fin _ _ _ _ HR).
    + subst e. apply noprog_sim; [apply (ru_sfx _ _ _ _ HR)|assumption].
Qed.

Lemma take0_sim : forall sc0 f0 s p keep, Ru sc0 f0 s p -> sim sc0 (Ru sc0 f0) s (Ok [] 0%N s) (sp_take 0 keep p).
Proof.
  intros sc0 f0 s p keep HR. unfold sp_take. cbn [Nat.leb firstn sim].
  split; [destruct keep; reflexivity|]. split; [reflexivity|]. apply Ru_noadv, HR.
Qed.

Lemma u_readxb_sim : forall sc0 f0 c s p k, Ru sc0 f0 s p -> sim sc0 (Ru sc0 f0) s (u_readxb c k s) (sstep p (Readx k)).
Proof.
  intros sc0 f0 c s p k HR. unfold u_readxb. cbn [sstep]. destruct (k =? 0) eqn:E.
  - apply Nat.eqb_eq in E. subst k. apply take0_sim, HR.
  - apply Nat.eqb_neq in E.
    apply (u_take_sim sc0 f0 s p k (fun w => inferLen w (mil c)) true true HR); auto; try lia.
    apply inferLen_ok, mil_pos.
Qed.

Lemma u_readb_sim : forall sc0 f0 c s p k, Ru sc0 f0 s p -> sim sc0 (Ru sc0 f0) s (u_readb c k s) (sstep p (Readb k)).
Proof.
  intros sc0 f0 c s p k HR. unfold u_readb. cbn [sstep]. destruct (k =? 0) eqn:E.
  - apply Nat.eqb_eq in E. subst k. apply take0_sim, HR.
  - apply Nat.eqb_neq in E.
    apply (u_take_sim sc0 f0 s p k (fun w => w) (recording s) true HR); auto; try lia.
Qed.

Lemma u_skip_sim : forall sc0 f0 c s p k, Ru sc0 f0 s p -> pre_ok false p (Skip k) = true ->
  sim sc0 (Ru sc0 f0) s (u_skip c k s) (sstep p (Skip k)).
Proof.
  intros sc0 f0 c s p k HR Hpre. unfold u_skip. cbn [sstep]. destruct (k =? 0) eqn:E.
  - apply Nat.eqb_eq in E. subst k. apply take0_sim, HR.
  - cbn [pre_ok orb] in Hpre. rewrite E, orb_false_r in Hpre. rewrite (ru_rec _ _ _ _ HR), Hpre.
    apply Nat.eqb_neq in E.
    apply (u_take_sim sc0 f0 s p k (fun w => inferLen w (mil c)) true false HR); auto; try lia.
    apply inferLen_ok, mil_pos.
Qed.

Lemma firstn_span : forall (a r : list N) t, firstn (S (length a)) (a ++ t :: r) = a ++ [t].
Proof.
  intros a r t. replace (a ++ t :: r) with ((a ++ [t]) ++ r) by (rewrite <- app_assoc; reflexivity).
  rewrite firstn_app_le by (rewrite app_length; cbn; lia). apply firstn_all2. rewrite app_length. cbn. lia.
Qed.

Lemma skipn_span : forall (a r : list N) t, skipn (S (length a)) (a ++ t :: r) = r.
Proof.
  intros a r t. replace (a ++ t :: r) with ((a ++ [t]) ++ r) by (rewrite <- app_assoc; reflexivity).
  apply skipn_exact. rewrite app_length. cbn. lia.
Qed.

(* the state after a scan that consumed [a ++ [t]] *)
Lemma Ru_scan_tok : forall sc0 f0 s p s' a t r',
  Ru sc0 f0 s p -> rest p = a ++ t :: r' -> data (rd s') = r' ->
  n s' = n s + S (length a) -> drawn (rd s') = drawn (rd s) + S (length a) ->
  (recording s = true -> buf s' = buf s ++ a ++ [t]) -> l s' = t -> recording s' = recording s ->
  fin (rd s') = fin (rd s) -> sfx (script (rd s')) (script (rd s)) ->
  Ru sc0 f0 s' (stake (S (length a)) p).
Proof.
  intros sc0 f0 s p s' a t r' HR Hrest H1 H2 H3 H4 H5 H6 H7 H8.
  unfold stake. rewrite Hrest, firstn_span, skipn_span.
  eapply Ru_adv; try exact HR; auto.
  - rewrite Hrest, <- app_assoc. reflexivity.
  - rewrite app_length. cbn. lia.
  - rewrite app_length. cbn. lia.
  - rewrite last_last. assumption.
Qed.

Lemma u_ws_sim : forall sc0 f0 c s p, Ru sc0 f0 s p -> sim sc0 (Ru sc0 f0) s (u_ws c s) (sstep p SkipWs).
Proof.
  intros sc0 f0 c s p HR. unfold u_ws. cbn [sstep]. unfold sp_scan.
  pose proof (u_scan_spec (ufuel s) c isWs (recording s) s (ru_fin _ _ _ _ HR) ltac:(unfold ufuel; lia)) as H.
  destruct (u_scan (ufuel s) c isWs (recording s) s) as [t s'|e s'].
  - destruct H as (a & r' & I1 & I0 & I2 & I3 & I4 & I5 & I6 & I7 & I8 & I9).
    rewrite <- (ru_data _ _ _ _ HR), I1. cbn [sim]. split; [reflexivity|]. split; [reflexivity|].
    eapply Ru_scan_tok; try exact HR; eauto.
    + rewrite <- (ru_data _ _ _ _ HR). apply (span_app _ _ _ _ I1).
    + intros Hr. rewrite I5, Hr. reflexivity.
  - destruct H as [(a & I1 & I2 & _)|[I1 I2]].
    + rewrite <- (ru_data _ _ _ _ HR), I1. cbn [sim]. subst e. apply fin_not_bad, (ru_fin _ _ _ _ HR).
    + subst e. apply noprog_sim; [apply (ru_sfx _ _ _ _ HR)|assumption].
Qed.

(* z.buf ends with the last byte read when jsonReadNum starts *)
Lemma u_num_buf : forall sc0 f0 s p, Ru sc0 f0 s p -> pre p <> [] ->
  let s1 := if recording s then s else set_buf s [l s] in
  Ru sc0 f0 s1 p /\ exists X, buf s1 = X ++ [last (pre p) 0%N] /\ length (buf s1) - 1 = length X /\
  rd s1 = rd s /\ n s1 = n s /\ l s1 = l s /\ recording s1 = recording s.
Proof.
  intros sc0 f0 s p HR Hne. cbv zeta. destruct (recording s) eqn:Er.
  - split; [exact HR|]. destruct (ru_buf _ _ _ _ HR Er) as [B1 B2].
    exists (removelast (buf s)). repeat apply conj; auto.
    + assert (Hb : buf s <> []).
      { rewrite B1. intros E. apply (f_equal (@length N)) in E. rewrite skipn_length in E. cbn in E. lia. }
      rewrite (app_removelast_last 0%N Hb) at 1. f_equal. f_equal.
      rewrite B1. apply last_skipn. exact B2.
    + assert (Hb : buf s <> []).
      { rewrite B1. intros E. apply (f_equal (@length N)) in E. rewrite skipn_length in E. cbn in E. lia. }
      rewrite (app_removelast_last 0%N Hb) at 1. rewrite app_length. cbn. lia.
  - split; [apply Ru_set_buf; assumption|]. exists []. cbn. repeat apply conj; auto.
    rewrite (ru_l _ _ _ _ HR Hne). reflexivity.
Qed.

Lemma u_num_sim : forall sc0 f0 c s p, Ru sc0 f0 s p -> pre_ok false p ReadNum = true ->
  sim sc0 (Ru sc0 f0) s (u_num c s) (sstep p ReadNum).
Proof.
  intros sc0 f0 c s p HR Hpre. cbn [pre_ok] in Hpre. apply andb_prop in Hpre. destruct Hpre as [Hp1 Hp2].
  apply Nat.ltb_lt in Hp1. assert (Hne : pre p <> []) by (intros E; rewrite E in Hp1; cbn in Hp1; lia).
  unfold u_num. destruct (u_num_buf sc0 f0 s p HR Hne) as [HR1 (X & B1 & B2 & B3 & B4 & B5 & B6)].
  set (s1 := if recording s then s else set_buf s [l s]) in *.
  cbn [sstep]. unfold last_or in *. rewrite Hp2. rewrite B2.
  pose proof (u_scan_spec (ufuel s) c isNum true s1 (ru_fin _ _ _ _ HR1) ltac:(unfold ufuel; rewrite B3; lia)) as H.
  destruct (u_scan (ufuel s) c isNum true s1) as [t s'|e s'].
  - destruct H as (a & r' & I1 & I0 & I2 & I3 & I4 & I5 & I6 & I7 & I8 & I9).
    rewrite <- (ru_data _ _ _ _ HR1), I1. cbn [sim]. split; [|split; [reflexivity|]].
    + rewrite I5, B1. rewrite <- !app_assoc. rewrite !app_length. cbn [length].
      replace (X ++ [last (pre p) 0%N] ++ a ++ [t]) with (X ++ (last (pre p) 0%N :: a) ++ [t]) by reflexivity.
      apply slice_mid; cbn [length]; lia.
    + eapply Ru_scan_tok; try exact HR1; eauto.
      rewrite <- (ru_data _ _ _ _ HR1). apply (span_app _ _ _ _ I1).
  - destruct H as [(a & I1 & I2 & I3 & I4 & I5 & I6 & I7 & I8 & I9 & I10)|[I1 I2]].
    + rewrite <- (ru_data _ _ _ _ HR1), I1.
      assert (HRs : Ru sc0 f0 s' (stake (length a) p)).
      { unfold stake. pose proof (span_app _ _ _ _ I1) as Hd. rewrite (ru_data _ _ _ _ HR1) in Hd.
        rewrite app_nil_r in Hd. rewrite Hd. rewrite firstn_all, skipn_all.
        eapply Ru_adv; try exact HR1; auto.
        - rewrite Hd, app_nil_r. reflexivity. }
      subst e. destruct (ru_fin _ _ _ _ HR1) as [F|F]; rewrite F; cbn [sim].
      * split; [|split; [reflexivity|exact HRs]].
        rewrite I6, B1. rewrite <- app_assoc. apply skipn_exact. reflexivity.
      * split; [intros [B|[B|B]]; discriminate|]. intros [F' _]. rewrite <- B3 in F'. congruence.
    + subst e. change (Err KNoProgress) with (Err KNoProgress).
      apply (noprog_sim sc0 (Ru sc0 f0) s).
      * apply (ru_sfx _ _ _ _ HR).
      * rewrite <- B3. assumption.
Qed.

Lemma u_until_sim : forall sc0 f0 c s p st1 st2 q,
  Ru sc0 f0 s p -> (forall b, q b = negb ((b =? st1)%N || (b =? st2)%N)) ->
  match u_until c st1 st2 s, span q (rest p) with
  | Ok out tok s', (a, t :: _) => out = a /\ tok = t /\ Ru sc0 f0 s' (stake (S (length a)) p)
  | Ok _ _ _, (_, []) => False
  | Err k, (_, []) => ~ bad k
  | Err k, (_, _ :: _) => ~ bad k /\ ~ (fin (rd s) = KEof /\ abides sc0)
  end.
Proof.
  intros sc0 f0 c s p st1 st2 q HR Hq. unfold u_until.
  set (s1 := if recording s then s else set_buf s []).
  assert (HR1 : Ru sc0 f0 s1 p) by (unfold s1; destruct (recording s) eqn:Er; [exact HR|apply Ru_set_buf; assumption]).
  assert (B3 : rd s1 = rd s) by (unfold s1; destruct (recording s); reflexivity).
  assert (Hext : forall x, span (fun b => negb ((b =? st1)%N || (b =? st2)%N)) x = span q x).
  { induction x as [|b x IH]; [reflexivity|]. cbn. rewrite Hq, IH. reflexivity. }
  pose proof (u_scan_spec (ufuel s) c (fun b => negb ((b =? st1)%N || (b =? st2)%N)) true s1 (ru_fin _ _ _ _ HR1)
                ltac:(unfold ufuel; rewrite B3; lia)) as H.
  destruct (u_scan (ufuel s) c (fun b => negb ((b =? st1)%N || (b =? st2)%N)) true s1) as [t s'|e s'].
  - destruct H as (a & r' & I1 & I0 & I2 & I3 & I4 & I5 & I6 & I7 & I8 & I9).
    rewrite Hext in I1. rewrite <- (ru_data _ _ _ _ HR1), I1. split; [|split; [reflexivity|]].
    + rewrite I5. rewrite !app_length. cbn [length]. apply slice_mid; lia.
    + eapply Ru_scan_tok; try exact HR1; eauto.
      rewrite <- (ru_data _ _ _ _ HR1). apply (span_app _ _ _ _ I1).
  - destruct H as [(a & I1 & I2 & _)|[I1 I2]].
    + rewrite Hext in I1. rewrite <- (ru_data _ _ _ _ HR1), I1. subst e. apply fin_not_bad, (ru_fin _ _ _ _ HR1).
    + subst e. pose proof (noprog_sim sc0 (Ru sc0 f0) s) as NP.
      assert (A1 : sfx (script (rd s)) sc0) by apply (ru_sfx _ _ _ _ HR).
      assert (A2 : ~ abides (script (rd s))) by (rewrite <- B3; assumption).
      destruct (span q (rest p)) as [a [|t r]].
      * apply (NP SErr A1 A2).
      * apply (NP (SOk [] 0%N p) A1 A2).
Qed.

Lemma u_startrec_sim : forall sc0 f0 s p, Ru sc0 f0 s p -> pre_ok false p StartRec = true ->
  Ru sc0 f0 (set_rec s true (recc s) [l s]) (mksp (pre p) (rest p) true (length (pre p) - 1)).
Proof.
  intros sc0 f0 s p [R1 R2 R3 R4 R5 R6 R7 R9 R8] Hpre. cbn [pre_ok] in Hpre. apply Nat.ltb_lt in Hpre.
  assert (Hne : pre p <> []) by (intros E; rewrite E in Hpre; cbn in Hpre; lia).
  constructor; cbn; auto. intros _. split; [|lia].
  rewrite (skipn_pred_last _ 0%N Hne). rewrite (R4 Hne). reflexivity.
Qed.

Lemma u_stoprec_sim : forall sc0 f0 s p, Ru sc0 f0 s p ->
  Ru sc0 f0 (set_rec s false (recc s) []) (mksp (pre p) (rest p) false 0).
Proof.
  intros sc0 f0 s p [R1 R2 R3 R4 R5 R6 R7 R9 R8]. constructor; cbn; auto. intros E. discriminate.
Qed.

Lemma ustep_sim : forall sc0 f0 c s p o, bufio c = false -> Ru sc0 f0 s p -> pre_ok false p o = true ->
  sim sc0 (Ru sc0 f0) s (step c s o) (sstep p o).
Proof.
  intros sc0 f0 c s p o Hb HR Hpre. unfold step. rewrite Hb. destruct o.
  - apply u_readn1_sim, HR.
  - apply u_readxb_sim, HR.
  - apply u_readb_sim, HR.
  - apply u_skip_sim; assumption.
  - apply u_ws_sim, HR.
  - apply u_num_sim; assumption.
  - cbn [sstep]. unfold sp_scan.
    pose proof (u_until_sim sc0 f0 c s p dquote bslash (fun b => negb ((b =? dquote)%N || (b =? bslash)%N)) HR ltac:(reflexivity)) as H.
    destruct (u_until c dquote bslash s) as [out tok s'|k];
      destruct (span (fun b => negb ((b =? dquote)%N || (b =? bslash)%N)) (rest p)) as [a [|t r]]; cbn [sim]; auto.
  - cbn [sstep]. unfold sp_scan.
    pose proof (u_until_sim sc0 f0 c s p dquote 0%N q_dq0 HR ltac:(reflexivity)) as H.
    cbn [pre_ok] in Hpre. fold q_dq0 in Hpre. fold q_dq.
    destruct (span q_dq0 (rest p)) as [a r] eqn:Es. cbn [snd] in Hpre.
    assert (Hs : span q_dq (rest p) = (a, r)).
    { apply span_dq; [exact Es|]. destruct r; [exact I|exact Hpre]. }
    rewrite Hs. destruct (u_until c dquote 0%N s) as [out tok s'|k]; destruct r as [|t r]; cbn [sim]; auto.
    destruct H as (H1 & H2 & H3). auto.
  - cbn [sstep sim]. split; [reflexivity|]. split; [reflexivity|]. apply u_startrec_sim; assumption.
  - cbn [sstep sim]. cbn [pre_ok] in Hpre. split; [|split; [reflexivity|apply u_stoprec_sim, HR]].
    apply (ru_buf _ _ _ _ HR). rewrite (ru_rec _ _ _ _ HR). exact Hpre.
Qed.

(* ---------- runs ---------- *)
(* the io trace follows the specification trace until it stops with an error
   (which is never one of the model's internal failure classes) *)
Inductive agree : list ev -> list tr -> Prop :=
| ag_nil : agree [] []
| ag_ok : forall o t nr d c q io sp, agree io sp -> agree (EOk o t nr d c q :: io) (TOk o t nr :: sp)
| ag_err : forall k x sp, ~ bad k -> agree [EErr k] (x :: sp).

Definition no_overread_ev (e : ev) : Prop :=
  match e with EOk _ _ nr d _ _ => d = nr | EErr _ => True end.

Section Run.
Variables (c : cfg) (sc0 : list resp) (f0 : ek) (R : st -> sp -> Prop).
Hypothesis Hstep : forall s p o, R s p -> pre_ok (bufio c) p o = true -> sim sc0 R s (step c s o) (sstep p o).
Hypothesis Hn : forall s p, R s p -> n s = length (pre p) /\ fin (rd s) = f0.

Lemma run_agree : forall ops s p, R s p -> respects (bufio c) p ops = true ->
  agree (run_io c s ops) (run_spec p ops).
Proof.
  induction ops as [|o ops IH]; intros s p HR Hresp; [constructor|].
  cbn [respects] in Hresp. apply andb_prop in Hresp. destruct Hresp as [Hpre Hresp].
  pose proof (Hstep s p o HR Hpre) as H. cbn [run_io run_spec].
  destruct (step c s o) as [out tok s'|k]; destruct (sstep p o) as [out' tok' p'|]; cbn [sim] in H.
  - destruct H as (-> & -> & HR'). destruct (Hn _ _ HR') as [-> _]. constructor. apply IH; assumption.
  - contradiction.
  - destruct H as [H _]. constructor. exact H.
  - constructor. exact H.
Qed.

Lemma run_refines : f0 = KEof -> abides sc0 -> forall ops s p, R s p -> respects (bufio c) p ops = true ->
  map erase (run_io c s ops) = run_spec p ops.
Proof.
  intros Hf Hab. induction ops as [|o ops IH]; intros s p HR Hresp; [reflexivity|].
  cbn [respects] in Hresp. apply andb_prop in Hresp. destruct Hresp as [Hpre Hresp].
  pose proof (Hstep s p o HR Hpre) as H. cbn [run_io run_spec].
  destruct (step c s o) as [out tok s'|k]; destruct (sstep p o) as [out' tok' p'|]; cbn [sim] in H.
  - destruct H as (-> & -> & HR'). destruct (Hn _ _ HR') as [E _]. cbn [map erase]. rewrite E. f_equal.
    apply IH; assumption.
  - contradiction.
  - exfalso. destruct H as [_ H]. apply H. split; [|exact Hab]. destruct (Hn _ _ HR) as [_ E]. congruence.
  - reflexivity.
Qed.

Lemma run_forall : forall (P : st -> Prop), (forall s p, R s p -> P s) ->
  forall ops s p, R s p -> respects (bufio c) p ops = true ->
  Forall (fun e => match e with EOk _ _ nr d _ _ => exists s', P s' /\ nr = n s' /\ d = drawn (rd s') | EErr _ => True end)
         (run_io c s ops).
Proof.
  intros P HP. induction ops as [|o ops IH]; intros s p HR Hresp; [constructor|].
  cbn [respects] in Hresp. apply andb_prop in Hresp. destruct Hresp as [Hpre Hresp].
  pose proof (Hstep s p o HR Hpre) as H. cbn [run_io].
  destruct (step c s o) as [out tok s'|k]; destruct (sstep p o) as [out' tok' p'|]; cbn [sim] in H.
  - destruct H as (-> & -> & HR'). constructor; [exists s'; split; [eapply HP; eassumption|split; reflexivity]|]. apply (IH s' p'); assumption.
  - contradiction.
  - constructor; [exact I|constructor].
  - constructor; [exact I|constructor].
Qed.
End Run.

Lemma Ru_init : forall c d sc f, bufio c = false -> f = KEof \/ f = KHard -> Ru sc f (init c d sc f) (sinit d).
Proof.
  intros c d sc f Hb Hf. unfold init, sinit. constructor; cbn; auto using sfx_refl; intros H; congruence.
Qed.

Lemma agree_truncated : forall io sp, agree io sp -> In TErr sp -> exists k, In (EErr k) io /\ ~ bad k.
Proof.
  induction 1 as [|o t nr d c q io sp H IH|k x sp Hk]; intros Hin.
  - destruct Hin.
  - destruct Hin as [E|Hin]; [discriminate|]. destruct (IH Hin) as [k [A B]]. exists k. split; [right; exact A|exact B].
  - exists k. split; [left; reflexivity|exact Hk].
Qed.

Lemma agree_total : forall io sp, agree io sp -> forall k, In (EErr k) io -> ~ bad k.
Proof.
  induction 1 as [|o t nr d c q io sp H IH|k x sp Hk]; intros k' Hin.
  - destruct Hin.
  - destruct Hin as [E|Hin]; [discriminate|]. apply IH, Hin.
  - destruct Hin as [E|[]]. inversion E; subst. exact Hk.
Qed.

(* unbuffered mode, all three statements *)
Lemma unbuf_agree : forall c d sc f ops, bufio c = false -> f = KEof \/ f = KHard ->
  respects false (sinit d) ops = true -> agree (run_io c (init c d sc f) ops) (run_spec (sinit d) ops).
Proof.
  intros c d sc f ops Hb Hf Hr.
  apply (run_agree c sc f (Ru sc f)).
  - intros s p o HR Hpre. rewrite Hb in Hpre. apply ustep_sim; assumption.
  - intros s p HR. split; [apply (ru_n _ _ _ _ HR)|apply (ru_fin0 _ _ _ _ HR)].
  - apply Ru_init; assumption.
  - rewrite Hb. exact Hr.
Qed.

Lemma unbuf_refines : forall c d sc ops, bufio c = false -> abides sc ->
  respects false (sinit d) ops = true ->
  map erase (run_io c (init c d sc KEof) ops) = run_spec (sinit d) ops.
Proof.
  intros c d sc ops Hb Hab Hr.
  apply (run_refines c sc KEof (Ru sc KEof)); auto.
  - intros s p o HR Hpre. rewrite Hb in Hpre. apply ustep_sim; assumption.
  - intros s p HR. split; [apply (ru_n _ _ _ _ HR)|apply (ru_fin0 _ _ _ _ HR)].
  - apply Ru_init; auto.
  - rewrite Hb. exact Hr.
Qed.

Lemma unbuf_no_overread : forall c d sc f ops, bufio c = false -> f = KEof \/ f = KHard ->
  respects false (sinit d) ops = true ->
  Forall no_overread_ev (run_io c (init c d sc f) ops).
Proof.
  intros c d sc f ops Hb Hf Hr.
  pose proof (run_forall c sc (Ru sc f)
    ltac:(intros s p o HR Hpre; rewrite Hb in Hpre; apply ustep_sim; assumption)
    (fun s => drawn (rd s) = n s) ltac:(intros s p HR; apply (ru_drawn _ _ _ _ HR))
    ops (init c d sc f) (sinit d) (Ru_init c d sc f Hb Hf) ltac:(rewrite Hb; exact Hr)) as H.
  eapply Forall_impl; [|exact H]. intros [o t nr dd cc q|k]; cbn; auto.
  intros [s' [A [B C]]]. congruence.
Qed.

(* C03 — resetIO on a USED ioDecReader (reader.go: ioDecReader.resetIO), i.e. what
   Decoder.Reset(newReader) does to the reader of a Decoder that has already read
   from another Reader.

       buf := z.buf
       *z = ioDecReader{}                       // every field forgotten: n, cursors, l, the
                                                // sticky err, recording, and done (EOF seen)
       z.buf = blist.check(buf, max(256, bufsize))   // only the buffer's CAPACITY survives
       z.buf = z.buf[:cap] (buffered) / z.buf[:0] (unbuffered)
       z.r, z.br, z.rbr = the new reader

   No proofs here. Tied to the code by the correspondence check: harness/cmd/c03
   (reset.go) drives a real ioDecReader through an operation list, calls resetIO
   again (hook verif_hooks_c03r.go) onto a new scripted reader and runs a second
   operation list; the second segment is a case whose [c_prevcap] is cap(z.buf)
   observed just before the reset (C03/Corr.v).

   [bcap] is cap(z.buf) in buffered mode (Model.fillbuf keeps it up to date); in
   unbuffered mode nothing depends on it. The free list is not modelled: with an
   unchanged ReaderBufferSize the kept buffer is always large enough (its capacity
   never shrinks), so blist.check returns it. *)
From Coq Require Import List NArith ZArith Arith Bool.
From Verif Require Import Gen.Consts C03.Model.
Import ListNotations.

(* cap(blist.check(buf, max(256,bufsize))) for cap(buf) = prevcap, fresh free list *)
Definition reset_cap (c : cfg) (prevcap : nat) : nat :=
  let want := Nat.max 256 (bufsize c) in
  if want <=? prevcap then prevcap else flcap want.

(* the reader state after z.resetIO(r, bufsize, maxInitLen, blist) called in state [s0] *)
Definition resetIO (c : cfg) (s0 : st) (d : list N) (sc : list resp) (f : ek) : st :=
  let cap0 := reset_cap c (bcap s0) in
  mkst (mkrdr d sc f 0 0 0%N) 0 false false 0%N 0 KNone 0 [] (if bufio c then cap0 else 0) cap0.

(* the zero value of ioDecReader with a buffer of capacity [cap] (cap = 0: a new Decoder) *)
Definition st0 (cap : nat) : st :=
  mkst (mkrdr [] [] KEof 0 0 0%N) 0 false false 0%N 0 KNone 0 [] 0 cap.

(* the state an operation list leaves behind (None: an operation failed, the state
   in which the panic left the reader is some [st], not computed here) *)
Fixpoint final_st (c : cfg) (s : st) (ops : list rop) : option st :=
  match ops with
  | [] => Some s
  | o :: ops' =>
      match step c s o with
      | Ok _ _ s' => final_st c s' ops'
      | Err _ => None
      end
  end.

(* a Decoder's life: segments (data, script, terminal error, operations), each
   entered through resetIO from whatever the previous one left. The trace of the
   last segment is what is observed; a failed earlier segment leaves [sfail]. *)
Record seg := mkseg { g_data : list N; g_script : list resp; g_fin : ek; g_ops : list rop }.

Fixpoint run_sess (c : cfg) (sfail : st) (s0 : st) (hist : list seg) (d : list N) (sc : list resp) (f : ek) (ops : list rop) : list ev :=
  match hist with
  | [] => run_io c (resetIO c s0 d sc f) ops
  | g :: hist' =>
      let s1 := resetIO c s0 (g_data g) (g_script g) (g_fin g) in
      let s2 := match final_st c s1 (g_ops g) with Some s => s | None => sfail end in
      run_sess c sfail s2 hist' d sc f ops
  end.

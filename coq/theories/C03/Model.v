(* C03 — executable model of ioDecReader (codec/reader.go:112-668) over a scripted
   io.Reader, and the specification reader SpecRd over the delivered bytes
   (what bytesDecReader does, reader.go:682-825).

   Hand written, no proofs here; tied to the code by the correspondence check:
   harness/cmd/c03 drives the real ioDecReader / bytesDecReader through
   /repo/codec/verif_hooks_c03.go one operation at a time over the same scripted
   reader and the functions below are evaluated on the same inputs (Corr.v).
   The model mirrors the code after the repairs F03-1..F03-5 (known_findings.json).

   Lengths, cursors and counts are [nat]; bytes are [N]. *)
From Coq Require Import List NArith ZArith Arith Bool.
From Verif Require Import Gen.Consts.
Import ListNotations.

(* ---------- character classes (helper.go: isWhitespaceChar, numCharBitset) ---------- *)
Definition isWs (b : N) : bool := (b <? 33)%N.
Definition isNum (b : N) : bool :=
  ((48 <=? b) && (b <=? 57) || (b =? 46) || (b =? 43) || (b =? 45) || (b =? 101) || (b =? 69))%N.
Definition dquote : N := 34%N.
Definition bslash : N := 92%N.

(* ---------- errors ---------- *)
Inductive ek :=
| KNone          (* nil *)
| KEof           (* io.EOF *)
| KHard          (* an error of the wrapped reader other than EOF *)
| KNoProgress    (* io.ErrNoProgress *)
| KUnexpEof      (* io.ErrUnexpectedEOF *)
| KBounds        (* a Go bounds panic (recovered by Decode) *)
| KFuel          (* model only: out of fuel; theorems show it is never returned *)
| KUnmodelled.   (* model only: operation outside the modelled protocol *)

Definition ek_eqb (a b : ek) : bool :=
  match a, b with
  | KNone, KNone | KEof, KEof | KHard, KHard | KNoProgress, KNoProgress
  | KUnexpEof, KUnexpEof | KBounds, KBounds | KFuel, KFuel | KUnmodelled, KUnmodelled => true
  | _, _ => false
  end.

Definition is_none (e : ek) : bool := match e with KNone => true | _ => false end.

(* ---------- the scripted io.Reader ---------- *)
(* One response: deliver at most [rk] bytes ([rk] = 0: a zero-length read (0,nil));
   [rlast]: when this delivery exhausts the data, return the terminal error
   together with it (the (n, io.EOF) shape of iotest.DataErrReader). *)
Record resp := mkresp { rk : nat; rlast : bool }.

Record rdr := mkrdr {
  data : list N;        (* bytes not yet delivered *)
  script : list resp;   (* responses still to give; [] = deliver whatever is asked *)
  fin : ek;             (* what a read returns once the data is exhausted: KEof or KHard *)
  drawn : nat;          (* bytes delivered so far *)
  calls : nat;          (* Read/ReadByte calls so far *)
  reqs : N }.           (* sum of len(p) over the calls so far *)

(* r.Read(p) with len(p) = m *)
Definition rd_read (m : nat) (r : rdr) : list N * ek * rdr :=
  let c := S (calls r) in
  let q := (reqs r + N.of_nat m)%N in
  match script r with
  | [] =>
      match data r with
      | [] => ([], fin r, mkrdr [] [] (fin r) (drawn r) c q)
      | _ => let d := firstn m (data r) in
             (d, KNone, mkrdr (skipn m (data r)) [] (fin r) (drawn r + length d) c q)
      end
  | x :: rest =>
      if rk x =? 0 then ([], KNone, mkrdr (data r) rest (fin r) (drawn r) c q)
      else
        match data r with
        | [] => ([], fin r, mkrdr [] rest (fin r) (drawn r) c q)
        | _ => let k := Nat.min (rk x) m in
               let d := firstn k (data r) in
               let rem := skipn k (data r) in
               let e := if rlast x && (length rem =? 0) then fin r else KNone in
               (d, e, mkrdr rem rest (fin r) (drawn r + length d) c q)
        end
  end.

(* r.ReadByte() of the scripted ByteReader: zero-length responses are skipped,
   a byte is returned with a nil error (the terminal error comes with the next call) *)
Fixpoint readbyte_sc (sc : list resp) (d : list N) (f : ek) : option N * ek * list N * list resp :=
  match sc with
  | [] => match d with
          | [] => (None, f, [], [])
          | b :: d' => (Some b, KNone, d', [])
          end
  | x :: rest =>
      if rk x =? 0 then readbyte_sc rest d f
      else match d with
           | [] => (None, f, [], rest)
           | b :: d' => (Some b, KNone, d', rest)
           end
  end.

Definition rd_readbyte (r : rdr) : option N * ek * rdr :=
  let '(ob, e, d', sc') := readbyte_sc (script r) (data r) (fin r) in
  (ob, e, mkrdr d' sc' (fin r) (drawn r + match ob with Some _ => 1 | None => 0 end) (S (calls r)) (reqs r + 1)%N).

(* ---------- ioDecReader ---------- *)
Record cfg := mkcfg {
  bufsize : nat;     (* ReaderBufferSize (<= 0 given as 0) *)
  maxinit : nat;     (* MaxInitLen as passed to resetIO *)
  rbr : bool }.      (* the reader implements io.ByteReader *)

Definition bufio (c : cfg) : bool := 0 <? bufsize c.
Definition mil (c : cfg) : nat := Nat.max 1024 (maxinit c).      (* z.maxInitLen *)
Definition tries : nat := Z.to_nat maxConsecutiveEmptyReads.

(* decInferLen(clen, maxlen, 1) for clen >= 0 and maxlen > 0 (decode.base.go) *)
Definition inferLen (clen maxlen : nat) : nat := if clen =? 0 then 0 else Nat.min clen maxlen.

(* freelistCapacity (helper.go): 8 doubled until >= n *)
Fixpoint flcap_loop (fuel c n : nat) : nat :=
  match fuel with
  | 0 => c
  | S f => if c <? n then flcap_loop f (2 * c) n else c
  end.
Definition flcap (n : nat) : nat := flcap_loop n 8 n.

Record st := mkst {
  rd : rdr;
  n : nat;             (* z.n *)
  recording : bool;
  done : bool;
  l : N;               (* z.l, last byte read (unbuffered) *)
  rc : nat;            (* read cursor (buffered) *)
  perr : ek;           (* z.err (buffered) *)
  recc : nat;          (* start-recording cursor (buffered) *)
  buf : list N;        (* buffered: z.buf[:z.wc]; unbuffered: z.buf[:len] *)
  blen : nat;          (* buffered: len(z.buf) *)
  bcap : nat }.        (* buffered: cap(z.buf) *)

Definition wc (s : st) : nat := length (buf s).

Definition init (c : cfg) (d : list N) (sc : list resp) (f : ek) : st :=
  let cap0 := flcap (Nat.max 256 (bufsize c)) in
  mkst (mkrdr d sc f 0 0 0%N) 0 false false 0%N 0 KNone 0 [] (if bufio c then cap0 else 0) cap0.

Inductive res :=
| Ok (out : list N) (tok : N) (s : st)
| Err (k : ek).

Definition slice (a b : nat) (x : list N) : list N := firstn (b - a) (skipn a x).

(* ----- unbuffered mode (bufsize = 0) ----- *)

(* readOne (after F03-1): retry (0,nil) reads up to maxConsecutiveEmptyReads times *)
Fixpoint readOne (i : nat) (r : rdr) : option N * ek * rdr :=
  match i with
  | 0 => (None, KNoProgress, r)
  | S i' =>
      let '(d, e, r') := rd_read 1 r in
      match d with
      | b :: _ => (Some b, KNone, r')
      | [] => if is_none e then readOne i' r' else (None, e, r')
      end
  end.

Definition get1 (c : cfg) (r : rdr) : option N * ek * rdr :=
  if rbr c then rd_readbyte r else readOne tries r.

Definition set_rd (s : st) (r : rdr) : st :=
  mkst r (n s) (recording s) (done s) (l s) (rc s) (perr s) (recc s) (buf s) (blen s) (bcap s).

(* one byte has been read in unbuffered mode: z.l = b; z.n++; record it if [app] *)
Definition ugot (s : st) (r : rdr) (b : N) (app : bool) : st :=
  mkst r (S (n s)) (recording s) (done s) b (rc s) (perr s) (recc s)
       (if app then buf s ++ [b] else buf s) (blen s) (bcap s).

Definition last_or (x : list N) (d : N) : N := List.last x d.

(* the READER loops of readb / readxb / skip: Read(reqf(remaining)) until complete;
   an error is reported only if the request is still incomplete (readb always did
   this; readxb and skip since F03-2) *)
Fixpoint uread (fuel : nat) (reqf : nat -> nat) (want : nat) (acc : list N) (r : rdr)
  : option (list N) * ek * rdr :=
  match fuel with
  | 0 => (None, KFuel, r)
  | S f =>
      let '(d, e, r') := rd_read (reqf want) r in
      let acc' := acc ++ d in
      let want' := want - length d in
      if want' =? 0 then (Some acc', KNone, r')
      else if is_none e then uread f reqf want' acc' r' else (None, e, r')
  end.

Definition rmsr (r : rdr) : nat := length (script r) + length (data r).

(* bytes [d] (non-empty) have been read by readb/readxb/skip *)
Definition ugotn (s : st) (r : rdr) (d : list N) (app : bool) : st :=
  mkst r (n s + length d) (recording s) (done s) (last_or d (l s)) (rc s) (perr s) (recc s)
       (if app then buf s ++ d else buf s) (blen s) (bcap s).

Definition u_readb (c : cfg) (k : nat) (s : st) : res :=
  if k =? 0 then Ok [] 0%N s
  else match uread (rmsr (rd s) + 2) (fun w => w) k [] (rd s) with
       | (Some d, _, r') => Ok d 0%N (ugotn s r' d (recording s))
       | (None, e, _) => Err e
       end.

(* readxb: z.buf = out[:r0+n] whether recording or not *)
Definition u_readxb (c : cfg) (k : nat) (s : st) : res :=
  if k =? 0 then Ok [] 0%N s
  else match uread (rmsr (rd s) + 2) (fun w => inferLen w (mil c)) k [] (rd s) with
       | (Some d, _, r') => Ok d 0%N (ugotn s r' d true)
       | (None, e, _) => Err e
       end.

(* skip while recording (after F03-2, F03-5); the non-recording path reads into a
   scratch window whose size depends on cap(z.buf): not modelled, never used by the
   decoders (every d.r.skip is inside nextValueBytes, i.e. recording) *)
Definition u_skip (c : cfg) (k : nat) (s : st) : res :=
  if k =? 0 then Ok [] 0%N s
  else if recording s then
    match uread (rmsr (rd s) + 2) (fun w => inferLen w (mil c)) k [] (rd s) with
    | (Some d, _, r') => Ok [] 0%N (ugotn s r' d true)
    | (None, e, _) => Err e
    end
  else Err KUnmodelled.

Definition u_readn1 (c : cfg) (s : st) : res :=
  match get1 c (rd s) with
  | (Some b, _, r') => Ok [b] 0%N (ugot s r' b (recording s))
  | (None, e, _) => Err e
  end.

Definition set_buf (s : st) (b : list N) : st :=
  mkst (rd s) (n s) (recording s) (done s) (l s) (rc s) (perr s) (recc s) b (blen s) (bcap s).

(* the READER loops of jsonReadNum / skipWhitespace / readUntil: read one byte at a
   time while [cont] holds of it; every byte read is counted (z.n++, z.l) and
   appended to z.buf if [app] *)
Inductive ures := UTok (t : N) (s : st) | UEnd (e : ek) (s : st).

Fixpoint u_scan (fuel : nat) (c : cfg) (cont : N -> bool) (app : bool) (s : st) : ures :=
  match fuel with
  | 0 => UEnd KFuel s
  | S f =>
      match get1 c (rd s) with
      | (Some b, _, r') =>
          let s' := ugot s r' b app in
          if cont b then u_scan f c cont app s' else UTok b s'
      | (None, e, r') => UEnd e (set_rd s r')
      end
  end.

Definition ufuel (s : st) : nat := rmsr (rd s) + 2.

(* jsonReadNum, unbuffered: the last byte read (re-inserted unless recording) and
   the number characters that follow; io.EOF ends the number, the byte after it is the token *)
Definition u_num (c : cfg) (s : st) : res :=
  let s1 := if recording s then s else set_buf s [l s] in
  let start := length (buf s1) - 1 in
  match u_scan (ufuel s) c isNum true s1 with
  | UTok t s' => Ok (slice start (length (buf s') - 1) (buf s')) t s'
  | UEnd KEof s' => Ok (skipn start (buf s')) 0%N s'
  | UEnd e _ => Err e
  end.

Definition u_ws (c : cfg) (s : st) : res :=
  match u_scan (ufuel s) c isWs (recording s) s with
  | UTok t s' => Ok [] t s'
  | UEnd e _ => Err e
  end.

Definition u_until (c : cfg) (stop1 stop2 : N) (s : st) : res :=
  let s1 := if recording s then s else set_buf s [] in
  let start := length (buf s1) in
  match u_scan (ufuel s) c (fun b => negb ((b =? stop1)%N || (b =? stop2)%N)) true s1 with
  | UTok t s' => Ok (slice start (length (buf s') - 1) (buf s')) t s'
  | UEnd e _ => Err e
  end.

(* ----- buffered mode (bufsize > 0) ----- *)

(* the read loop of fillbuf; [b] is z.buf[:z.wc], [bl] is len(z.buf).
   returns the new z.buf[:z.wc], z.err, z.done *)
Fixpoint fill_loop (i : nat) (bl : nat) (b : list N) (r : rdr) : list N * ek * bool * rdr :=
  match i with
  | 0 => (b, KNoProgress, false, r)
  | S i' =>
      let '(d, e, r') := rd_read (bl - length b) r in
      let b' := b ++ d in
      match e with
      | KNone => if 0 <? length d then (b', KNone, false, r') else fill_loop i' bl b' r'
      | KEof => (b', KEof, true, r')
      | _ => (b', e, false, r')
      end
  end.

Inductive fres := FOk (numshift numread : nat) (s : st) | FErr (k : ek).

Definition fillbuf (c : cfg) (req : nat) (s : st) : fres :=
  match perr s with
  | KNone =>
      let bs := Nat.max req (bufsize c) in
      let sh0 := if recording s then recc s else rc s in
      let sh := Nat.pred sh0 in
      let b1 := skipn sh (buf s) in
      let w := length b1 in
      let '(bl, bc) :=
        if blen s =? w then
          if bs + w <? bcap s then (bcap s, bcap s)
          else let nb := flcap (Nat.max (bcap s * 3 / 2) (bs + w)) in (nb, nb)
        else (blen s, bcap s) in
      let '(b2, e, dn, r') := fill_loop tries bl b1 (rd s) in
      FOk sh (length b2 - w)
          (mkst r' (n s) (recording s) (done s || dn) (l s) (rc s - sh) e
                (if recording s then recc s - sh else recc s) b2 bl bc)
  | e => FErr e       (* checkErr *)
  end.

(* z.rc += k; z.n += k *)
Definition adv (s : st) (k : nat) : st :=
  mkst (rd s) (n s + k) (recording s) (done s) (l s) (rc s + k) (perr s) (recc s) (buf s) (blen s) (bcap s).

(* for z.rc == z.wc { z.fillbuf(0) } *)
Fixpoint fill_while_empty (fuel : nat) (c : cfg) (s : st) : option st * ek :=
  if rc s =? wc s then
    match fuel with
    | 0 => (None, KFuel)
    | S f => match fillbuf c 0 s with
             | FErr e => (None, e)
             | FOk _ _ s' => fill_while_empty f c s'
             end
    end
  else (Some s, KNone).

Definition b_readn1 (c : cfg) (s : st) : res :=
  match fill_while_empty 3 c s with
  | (Some s', _) => Ok [nth (rc s') (buf s') 0%N] 0%N (adv s' 1)
  | (None, e) => Err e
  end.

Fixpoint b_readb_loop (fuel : nat) (c : cfg) (want : nat) (acc : list N) (s : st) : res :=
  match fuel with
  | 0 => Err KFuel
  | S f =>
      match fill_while_empty 3 c s with
      | (Some s', _) =>
          let k := Nat.min want (wc s' - rc s') in
          let acc' := acc ++ slice (rc s') (rc s' + k) (buf s') in
          let s2 := adv s' k in
          if k =? want then Ok acc' 0%N s2 else b_readb_loop f c (want - k) acc' s2
      | (None, e) => Err e
      end
  end.

Definition b_readb (c : cfg) (k : nat) (s : st) : res :=
  if k =? 0 then Ok [] 0%N s else b_readb_loop (S k) c k [] s.

(* BUFIO: nn := n+rc-wc; if nn > 0 { fillbuf(decInferLen(nn)); goto BUFIO } *)
Fixpoint b_ensure (fuel : nat) (c : cfg) (k : nat) (s : st) : option st * ek :=
  let avail := wc s - rc s in
  if k <=? avail then (Some s, KNone)
  else match fuel with
       | 0 => (None, KFuel)
       | S f => match fillbuf c (inferLen (k - avail) (mil c)) s with
                | FErr e => (None, e)
                | FOk _ _ s' => b_ensure f c k s'
                end
       end.

Definition b_readxb (c : cfg) (k : nat) (s : st) : res :=
  if k =? 0 then Ok [] 0%N s
  else match b_ensure (k + 2) c k s with
       | (Some s', _) => Ok (slice (rc s') (rc s' + k) (buf s')) 0%N (adv s' k)
       | (None, e) => Err e
       end.

Fixpoint b_skip_loop (fuel : nat) (c : cfg) (k : nat) (s : st) : res :=
  let k2 := Nat.min k (wc s - rc s) in
  let s1 := adv s k2 in
  let k' := k - k2 in
  if k' =? 0 then Ok [] 0%N s1
  else match fuel with
       | 0 => Err KFuel
       | S f => match fillbuf c (inferLen (k' + rc s1 - wc s1) (mil c)) s1 with
                | FErr e => Err e
                | FOk _ _ s' => b_skip_loop f c k' s'
                end
       end.

Definition b_skip (c : cfg) (k : nat) (s : st) : res :=
  if k =? 0 then Ok [] 0%N s else b_skip_loop (k + 2) c k s.

(* the shared head of the scanning loops:
     if pos == z.wc { if z.done {EOF}; numshift, numread := z.fillbuf(0); if numread == 0 {EOF} } ; tok = z.buf[pos] *)
Inductive pk := PByte (b : N) (numshift : nat) (s : st) | PEof (numshift : nat) (s : st) | PErr (k : ek).

Definition bpeek (c : cfg) (pos : nat) (s : st) : pk :=
  if pos =? wc s then
    if done s then PEof 0 s
    else match fillbuf c 0 s with
         | FErr k => PErr k
         | FOk nsh nrd s' => if nrd =? 0 then PEof nsh s' else PByte (nth (pos - nsh) (buf s') 0%N) nsh s'
         end
  else PByte (nth pos (buf s) 0%N) 0 s.

(* z.n += pos - z.rc; z.rc = pos *)
Definition consume_to (s : st) (pos : nat) : st := adv s (pos - rc s).

(* unexpectedEOF: checkErr, else io.ErrUnexpectedEOF *)
Definition unexp (s : st) : ek := match perr s with KNone => KUnexpEof | e => e end.

(* the BUFIO loops of jsonReadNum / skipWhitespace / readUntil: look at z.buf[pos],
   pos++, while [cont] holds; [start] and [pos] move with the buffer (numshift) *)
Inductive bres :=
| BTok (t : N) (start pos : nat) (s : st)      (* pos is already past the token *)
| BEof (start pos : nat) (s : st)
| BErr (k : ek).

Fixpoint b_scan (fuel : nat) (c : cfg) (cont : N -> bool) (start pos : nat) (s : st) : bres :=
  match fuel with
  | 0 => BErr KFuel
  | S f =>
      match bpeek c pos s with
      | PErr k => BErr k
      | PEof nsh s' => BEof (start - nsh) (pos - nsh) s'
      | PByte b nsh s' =>
          let start' := start - nsh in
          let pos' := S (pos - nsh) in
          if cont b then b_scan f c cont start' pos' s' else BTok b start' pos' s'
      end
  end.

Definition sfuel (s : st) : nat := length (buf s) + length (data (rd s)) + 3.

(* jsonReadNum: start = pos = z.rc - 1 (the last byte read is looked at again) *)
Definition b_num (c : cfg) (s : st) : res :=
  match b_scan (sfuel s) c isNum (rc s - 1) (rc s - 1) s with
  | BErr k => Err k
  | BEof start pos s' =>
      (* since F03-7: a refill that brought nothing because the reader FAILED (not EOF) is that error
         (if !z.done { z.checkErr() }); only the end of the input ends the number *)
      if done s' then Ok (slice start pos (buf s')) 0%N (consume_to s' pos)
      else match perr s' with
           | KNone => Ok (slice start pos (buf s')) 0%N (consume_to s' pos)
           | e => Err e
           end
  | BTok t start pos s' => Ok (slice start (pos - 1) (buf s')) t (consume_to s' pos)
  end.

Definition b_ws (c : cfg) (s : st) : res :=
  match b_scan (sfuel s) c isWs (rc s) (rc s) s with
  | BErr k => Err k
  | BEof _ _ s' => Err (unexp s')
  | BTok t _ pos s' => Ok [] t (consume_to s' pos)
  end.

Definition b_until (c : cfg) (stop1 stop2 : N) (s : st) : res :=
  match b_scan (sfuel s) c (fun b => negb ((b =? stop1)%N || (b =? stop2)%N)) (rc s) (rc s) s with
  | BErr k => Err k
  | BEof _ _ s' => Err (unexp s')
  | BTok t start pos s' => Ok (slice start (pos - 1) (buf s')) t (consume_to s' pos)
  end.

(* ----- operations of decReaderI ----- *)
Inductive rop :=
| Readn1
| Readx (k : nat)       (* readn2/3/4/8, readx, readxb *)
| Readb (k : nat)
| Skip (k : nat)
| SkipWs
| ReadNum
| ReadAsis
| ReadUntilDQ
| StartRec
| StopRec.

Definition set_rec (s : st) (r : bool) (rcc : nat) (b : list N) : st :=
  mkst (rd s) (n s) r (done s) (l s) (rc s) (perr s) rcc b (blen s) (bcap s).

Definition step (c : cfg) (s : st) (o : rop) : res :=
  if bufio c then
    match o with
    | Readn1 => b_readn1 c s
    | Readx k => b_readxb c k s
    | Readb k => b_readb c k s
    | Skip k => b_skip c k s
    | SkipWs => b_ws c s
    | ReadNum => b_num c s
    | ReadAsis => b_until c dquote bslash s
    | ReadUntilDQ => match b_until c dquote 0%N s with Ok o _ s' => Ok o 0%N s' | e => e end
    | StartRec => Ok [] 0%N (set_rec s true (rc s - 1) (buf s))
    | StopRec => Ok (slice (recc s) (rc s) (buf s)) 0%N (set_rec s false 0 (buf s))
    end
  else
    match o with
    | Readn1 => u_readn1 c s
    | Readx k => u_readxb c k s
    | Readb k => u_readb c k s
    | Skip k => u_skip c k s
    | SkipWs => u_ws c s
    | ReadNum => u_num c s
    | ReadAsis => u_until c dquote bslash s
    | ReadUntilDQ => match u_until c dquote 0%N s with Ok o _ s' => Ok o 0%N s' | e => e end
    | StartRec => Ok [] 0%N (set_rec s true (recc s) [l s])
    | StopRec => Ok (buf s) 0%N (set_rec s false (recc s) [])
    end.

(* what is observed after an operation: its output, numread(), and the reader's counters *)
Inductive ev :=
| EOk (out : list N) (tok : N) (nread : nat) (drawn calls : nat) (reqs : N)
| EErr (k : ek).

(* the run stops at the first error (the panic unwinds Decode) *)
Fixpoint run_io (c : cfg) (s : st) (ops : list rop) : list ev :=
  match ops with
  | [] => []
  | o :: ops' =>
      match step c s o with
      | Ok out tok s' => EOk out tok (n s') (drawn (rd s')) (calls (rd s')) (reqs (rd s')) :: run_io c s' ops'
      | Err k => [EErr k]
      end
  end.

(* ---------- SpecRd: the obvious reader over the remaining suffix ---------- *)
Record sp := mksp {
  pre : list N;        (* consumed so far *)
  rest : list N;       (* still to read *)
  srec : bool;         (* recording *)
  recpos : nat }.      (* recording started at this offset of [pre] *)

Definition sinit (d : list N) : sp := mksp [] d false 0.

Inductive sres := SOk (out : list N) (tok : N) (s : sp) | SErr.

Fixpoint span (p : N -> bool) (x : list N) : list N * list N :=
  match x with
  | [] => ([], [])
  | b :: x' => if p b then let '(a, r) := span p x' in (b :: a, r) else ([], x)
  end.

Definition stake (k : nat) (s : sp) : sp :=
  mksp (pre s ++ firstn k (rest s)) (skipn k (rest s)) (srec s) (recpos s).

Definition sp_take (k : nat) (keep : bool) (s : sp) : sres :=
  if k <=? length (rest s)
  then SOk (if keep then firstn k (rest s) else []) 0%N (stake k s)
  else SErr.

(* read bytes satisfying [p], then one more byte (the token) *)
Definition sp_scan (p : N -> bool) (s : sp) : option (list N * N * sp) :=
  let '(a, r) := span p (rest s) in
  match r with
  | [] => None
  | t :: _ => Some (a, t, stake (S (length a)) s)
  end.

Definition sstep (s : sp) (o : rop) : sres :=
  match o with
  | Readn1 => sp_take 1 true s
  | Readx k => sp_take k true s
  | Readb k => sp_take k true s
  | Skip k => sp_take k false s
  | SkipWs => match sp_scan isWs s with Some (_, t, s') => SOk [] t s' | None => SErr end
  | ReadNum =>
      let lastb := last_or (pre s) 0%N in
      let '(a, r) := span isNum (rest s) in
      if isNum lastb then
        match r with
        | [] => SOk (lastb :: a) 0%N (stake (length a) s)           (* the number ends with the input *)
        | t :: _ => SOk (lastb :: a) t (stake (S (length a)) s)
        end
      else SOk [] lastb s      (* bytesDecReader: the last byte is the token; outside the protocol *)
  | ReadAsis =>
      match sp_scan (fun b => negb ((b =? dquote)%N || (b =? bslash)%N)) s with
      | Some (a, t, s') => SOk a t s' | None => SErr end
  | ReadUntilDQ =>
      match sp_scan (fun b => negb (b =? dquote)%N) s with
      | Some (a, _, s') => SOk a 0%N s' | None => SErr end
  | StartRec => SOk [] 0%N (mksp (pre s) (rest s) true (length (pre s) - 1))
  | StopRec => SOk (skipn (recpos s) (pre s)) 0%N (mksp (pre s) (rest s) false 0)
  end.

(* The protocol the decoders follow (and outside of which ioDecReader and
   bytesDecReader are not meant to agree):
   - startRecording / jsonReadNum only after a byte has been read ("includes the last byte read");
   - jsonReadNum only when that last byte is a number character;
   - stopRecording only while recording;
   - skip only while recording when unbuffered (see u_skip);
   - jsonReadUntilDblQuote only on text with no NUL byte before the closing quote
     (ioDecReader.readUntil(dquote, 0) also stops at a NUL). *)
Definition pre_ok (bio : bool) (s : sp) (o : rop) : bool :=
  match o with
  | StartRec => 0 <? length (pre s)
  | StopRec => srec s
  | ReadNum => (0 <? length (pre s)) && isNum (last_or (pre s) 0%N)
  | Skip k => bio || srec s || (k =? 0)
  | ReadUntilDQ =>
      match snd (span (fun b => negb ((b =? dquote)%N || (b =? 0)%N)) (rest s)) with
      | t :: _ => (t =? dquote)%N
      | [] => true
      end
  | _ => true
  end.

(* what is compared between the two readers *)
Inductive tr := TOk (out : list N) (tok : N) (nread : nat) | TErr.

Fixpoint run_spec (s : sp) (ops : list rop) : list tr :=
  match ops with
  | [] => []
  | o :: ops' =>
      match sstep s o with
      | SOk out tok s' => TOk out tok (length (pre s')) :: run_spec s' ops'
      | SErr => [TErr]
      end
  end.

Fixpoint respects (bio : bool) (s : sp) (ops : list rop) : bool :=
  match ops with
  | [] => true
  | o :: ops' =>
      pre_ok bio s o &&
      match sstep s o with
      | SOk _ _ s' => respects bio s' ops'
      | SErr => true
      end
  end.

Definition erase (e : ev) : tr :=
  match e with EOk out tok nr _ _ _ => TOk out tok nr | EErr _ => TErr end.

(* the io.Reader contract as far as the property relies on it: fewer than
   maxConsecutiveEmptyReads zero-length reads in a row; [c] = zero-length
   responses immediately before [sc] *)
Fixpoint abides_from (c : nat) (sc : list resp) : Prop :=
  c < tries /\
  match sc with
  | [] => True
  | x :: rest => if rk x =? 0 then abides_from (S c) rest else abides_from 0 rest
  end.
Definition abides (sc : list resp) : Prop := abides_from 0 sc.

Fixpoint abides_fromb (c : nat) (sc : list resp) : bool :=
  (c <? tries) &&
  match sc with
  | [] => true
  | x :: rest => if rk x =? 0 then abides_fromb (S c) rest else abides_fromb 0 rest
  end.

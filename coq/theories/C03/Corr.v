(* C03 — correspondence: evaluate the model of ioDecReader and the specification
   reader on the cases the harness ran against the real ioDecReader and the real
   bytesDecReader (through verif_hooks_c03.go) and report the ids that differ. *)
From Coq Require Import List NArith ZArith Arith Bool.
From Verif Require Import Gen.Consts C03.Model C03.ModelR.
Import ListNotations.

(* A case is one SEGMENT of a reader's life: resetIO (from a buffer of capacity
   [c_prevcap]; 0 = a new reader) onto a scripted reader, then an operation list.
   The segments after the first are written by the harness's reset stream with the
   capacity observed just before the reset (ModelR.resetIO depends on nothing else
   of the previous state, as the code does). *)
Record case := mkrcase {
  cid : N;
  c_bufsize : nat;
  c_maxinit : nat;
  c_rbr : bool;
  c_data : list N;
  c_script : list resp;
  c_fin : ek;                  (* KEof or KHard *)
  c_ops : list rop;
  c_prevcap : nat;             (* cap(z.buf) just before resetIO; 0 for a new reader *)
  o_cap : nat;                 (* cap(z.buf) observed after resetIO *)
  o_io : list ev;              (* observed on the real ioDecReader, one per op up to the first error *)
  o_bytes : list tr }.         (* observed on the real bytesDecReader over c_data *)

(* a first segment (new reader): the case format of the unit stream *)
Definition mkcase (i : N) (b m : nat) (r : bool) (d : list N) (sc : list resp) (f : ek) (ops : list rop)
  (ocap : nat) (io : list ev) (bs : list tr) : case := mkrcase i b m r d sc f ops 0 ocap io bs.

Fixpoint eqbl (a b : list N) : bool :=
  match a, b with
  | [], [] => true
  | x :: a', y :: b' => N.eqb x y && eqbl a' b'
  | _, _ => false
  end.

Definition ev_eqb (a b : ev) : bool :=
  match a, b with
  | EOk o1 t1 n1 d1 c1 q1, EOk o2 t2 n2 d2 c2 q2 =>
      eqbl o1 o2 && N.eqb t1 t2 && Nat.eqb n1 n2 && Nat.eqb d1 d2 && Nat.eqb c1 c2 && N.eqb q1 q2
  | EErr k1, EErr k2 => ek_eqb k1 k2
  | _, _ => false
  end.

Definition tr_eqb (a b : tr) : bool :=
  match a, b with
  | TOk o1 t1 n1, TOk o2 t2 n2 => eqbl o1 o2 && N.eqb t1 t2 && Nat.eqb n1 n2
  | TErr, TErr => true
  | _, _ => false
  end.

Fixpoint all2 {A} (f : A -> A -> bool) (a b : list A) : bool :=
  match a, b with
  | [], [] => true
  | x :: a', y :: b' => f x y && all2 f a' b'
  | _, _ => false
  end.

Definition case_cfg (c : case) : cfg := mkcfg (c_bufsize c) (c_maxinit c) (c_rbr c).

Definition check_case (c : case) : bool :=
  let g := case_cfg c in
  let s0 := resetIO g (st0 (c_prevcap c)) (c_data c) (c_script c) (c_fin c) in   (* = init when c_prevcap = 0 (ProofsR.init_is_reset) *)
  Nat.eqb (bcap s0) (o_cap c)
  && all2 ev_eqb (run_io g s0 (c_ops c)) (o_io c)
  && all2 tr_eqb (run_spec (sinit (c_data c)) (c_ops c)) (o_bytes c).

Definition mismatches (cs : list case) : list N :=
  map cid (filter (fun c => negb (check_case c)) cs).

(* Wire/CborProofs — lemmas about the cbor model (Wire/Cbor.v). *)
From Coq Require Import List NArith ZArith Lia Bool Arith.
From Coq Require Import ZifyN ZifyNat ZifyBool.
From Verif Require Import Base.Outcome Wire.Item Gen.Consts Wire.CborFloat Wire.Cbor C10.CborSpec.
Import ListNotations.
Open Scope N_scope.

(* ------------------------------------------------------------------ *)
(* all 65536 half floats *)
Definition half_ok (h : N) : bool := half_to_f32 h =? spec_half h.

Lemma half_sweep :
  forallb (fun hi => forallb (fun lo => half_ok (N.of_nat hi * 256 + N.of_nat lo)) (seq 0 256)) (seq 0 256) = true.
Proof. vm_compute. reflexivity. Qed.

Lemma half_all : forall h, h < 65536 -> half_to_f32 h = spec_half h.
Proof.
  intros h Hh. pose proof half_sweep as S.
  rewrite forallb_forall in S.
  specialize (S (N.to_nat (h / 256))).
  assert (Hin : In (N.to_nat (h / 256)) (seq 0 256)).
  { apply in_seq. assert (h / 256 < 256) by (apply N.div_lt_upper_bound; lia). lia. }
  specialize (S Hin). rewrite forallb_forall in S.
  specialize (S (N.to_nat (h mod 256))).
  assert (Hin2 : In (N.to_nat (h mod 256)) (seq 0 256)).
  { apply in_seq. assert (h mod 256 < 256) by (apply N.mod_lt; lia). lia. }
  specialize (S Hin2). unfold half_ok in S.
  rewrite !N2Nat.id in S.
  replace (h / 256 * 256 + h mod 256) with h in S.
  - apply N.eqb_eq in S. exact S.
  - rewrite N.mul_comm. apply N.div_mod. lia.
Qed.

(* ------------------------------------------------------------------ *)
(* basic facts *)
From Verif Require Import C10.CborConv.

Lemma be_put_sbe : forall k v, be_put k v = sbe k v.
Proof. induction k; intros; simpl; [reflexivity | rewrite IHk; reflexivity]. Qed.

Lemma be_get_sget : forall l, be_get l = sget l.
Proof. reflexivity. Qed.

Lemma be_get_snoc : forall l x, be_get (l ++ [x]) = be_get l * 256 + x.
Proof. intros. unfold be_get. rewrite fold_left_app. reflexivity. Qed.

Lemma be_get_put : forall k v, v < 256 ^ N.of_nat k -> be_get (sbe k v) = v.
Proof.
  induction k; intros v Hv.
  - simpl in *. unfold be_get. simpl. lia.
  - cbn [sbe]. rewrite be_get_snoc. rewrite IHk.
    + pose proof (N.div_mod' v 256). lia.
    + rewrite Nat2N.inj_succ, N.pow_succ_r' in Hv. apply N.div_lt_upper_bound; lia.
Qed.

Lemma length_sbe : forall k v, length (sbe k v) = k.
Proof. induction k; intros; cbn [sbe]; [reflexivity | rewrite app_length, IHk; simpl; lia]. Qed.

Lemma firstn_app_len {A} : forall (x r : list A), firstn (length x) (x ++ r) = x.
Proof. induction x; intros; simpl; [reflexivity | rewrite IHx; reflexivity]. Qed.
Lemma skipn_app_len {A} : forall (x r : list A), skipn (length x) (x ++ r) = r.
Proof. induction x; intros; simpl; [reflexivity | apply IHx]. Qed.

Lemma take_app : forall x rest, take (N.of_nat (length x)) (x ++ rest) = Ok (x, rest).
Proof.
  intros. unfold take. rewrite app_length.
  replace (N.of_nat (length x + length rest) <? N.of_nat (length x)) with false by (symmetry; apply N.ltb_ge; lia).
  rewrite Nat2N.id, firstn_app_len, skipn_app_len. reflexivity.
Qed.

Lemma rskip_app : forall x rest, rskip (N.of_nat (length x)) (x ++ rest) = Ok rest.
Proof.
  intros. unfold rskip. rewrite app_length.
  replace (N.of_nat (length x + length rest) <? N.of_nat (length x)) with false by (symmetry; apply N.ltb_ge; lia).
  rewrite Nat2N.id, skipn_app_len. reflexivity.
Qed.

Lemma take_sbe : forall k v rest, take (N.of_nat k) (sbe k v ++ rest) = Ok (sbe k v, rest).
Proof. intros. rewrite <- (length_sbe k v) at 1. apply take_app. Qed.

Lemma rskip_sbe : forall k v rest, rskip (N.of_nat k) (sbe k v ++ rest) = Ok rest.
Proof. intros. rewrite <- (length_sbe k v) at 1. apply rskip_app. Qed.

Lemma hd_div : forall mt a, a < 32 -> (mt * 32 + a) / 32 = mt.
Proof. intros. rewrite N.div_add_l by lia. rewrite N.div_small by lia. lia. Qed.
Lemma hd_mod : forall mt a, a < 32 -> (mt * 32 + a) mod 32 = a.
Proof. intros. rewrite N.add_comm, N.mod_add by lia. apply N.mod_small; lia. Qed.

Lemma ai_of_le : forall w v, fits w v -> ai_of w v <= 27.
Proof. destruct w; simpl; intros; lia. Qed.

Lemma fits_pow : forall w v, fits w v -> w <> W0 -> v < 256 ^ N.of_nat (wbytes w).
Proof. destruct w; simpl; intros; try congruence; lia. Qed.

(* decUint / uintBytes read back the argument of a head of any width *)
Lemma read_uint_head : forall w v rest, fits w v ->
  read_uint (ai_of w v) (sbe (wbytes w) v ++ rest) = Ok (v, rest).
Proof.
  intros w v rest H. unfold read_uint.
  destruct w; cbn [ai_of wbytes].
  - simpl in H. replace (v <=? 23) with true by (symmetry; apply N.leb_le; lia). reflexivity.
  - change (24 <=? 23) with false. change (24 =? 24) with true. cbv iota.
    rewrite (take_sbe 1). cbn [bind]. rewrite be_get_put by (simpl in *; lia). reflexivity.
  - change (25 <=? 23) with false. change (25 =? 24) with false. change (25 =? 25) with true. cbv iota.
    rewrite (take_sbe 2). cbn [bind]. rewrite be_get_put by (simpl in *; lia). reflexivity.
  - change (26 <=? 23) with false. change (26 =? 24) with false. change (26 =? 25) with false. change (26 =? 26) with true. cbv iota.
    rewrite (take_sbe 4). cbn [bind]. rewrite be_get_put by (simpl in *; lia). reflexivity.
  - change (27 <=? 23) with false. change (27 =? 24) with false. change (27 =? 25) with false. change (27 =? 26) with false.
    change (27 =? 27) with true. cbv iota.
    rewrite (take_sbe 8). cbn [bind]. rewrite be_get_put by (simpl in *; lia). reflexivity.
Qed.

Lemma uint_bytes_head : forall w v rest, fits w v ->
  uint_bytes (ai_of w v) (sbe (wbytes w) v ++ rest) = Ok (v, rest).
Proof.
  intros w v rest H. unfold uint_bytes.
  destruct w; cbn [ai_of wbytes].
  - simpl in H.
    replace (v =? 24) with false by (symmetry; apply N.eqb_neq; lia).
    replace (v =? 25) with false by (symmetry; apply N.eqb_neq; lia).
    replace (v =? 26) with false by (symmetry; apply N.eqb_neq; lia).
    replace (v =? 27) with false by (symmetry; apply N.eqb_neq; lia).
    replace (27 <? v) with false by (symmetry; apply N.ltb_ge; lia). reflexivity.
  - change (24 =? 24) with true. cbv iota.
    rewrite (take_sbe 1). cbn [bind]. rewrite be_get_put by (simpl in *; lia). reflexivity.
  - change (25 =? 24) with false. change (25 =? 25) with true. cbv iota.
    rewrite (take_sbe 2). cbn [bind]. rewrite be_get_put by (simpl in *; lia). reflexivity.
  - change (26 =? 24) with false. change (26 =? 25) with false. change (26 =? 26) with true. cbv iota.
    rewrite (take_sbe 4). cbn [bind]. rewrite be_get_put by (simpl in *; lia). reflexivity.
  - change (27 =? 24) with false. change (27 =? 25) with false. change (27 =? 26) with false.
    change (27 =? 27) with true. cbv iota.
    rewrite (take_sbe 8). cbn [bind]. rewrite be_get_put by (simpl in *; lia). reflexivity.
Qed.

Lemma fits_64 : forall w v, fits w v -> v < 18446744073709551616.
Proof. destruct w; simpl; lia. Qed.

Lemma dec_len_head : forall w v rest, fits w v -> v < 9223372036854775808 ->
  dec_len (ai_of w v) (sbe (wbytes w) v ++ rest) = Ok (v, rest).
Proof.
  intros. unfold dec_len. rewrite read_uint_head by assumption. cbn [bind].
  replace (9223372036854775808 <=? v) with false by (symmetry; apply N.leb_gt; lia). reflexivity.
Qed.

(* resI plumbing *)
Lemma fst_bindI {A B} : forall (m : resI A) (k : A -> resI B) a, fst m = Ok a -> fst (bindI m k) = fst (k a).
Proof. intros. unfold bindI. rewrite H. reflexivity. Qed.
Lemma fst_liftI {A} : forall r (x : res A), fst (liftI r x) = x.
Proof. reflexivity. Qed.

Lemma kind_head : forall mt a, a < 32 -> kind_of (mt * 32 + a) = kind_of_mt mt.
Proof. intros. unfold kind_of. rewrite hd_div by assumption. reflexivity. Qed.

Lemma dec_S : forall D f' d r bd b1,
  dec D (S f') d r (bd :: b1) =
  dec_body D f' (dec D f') (arr_def D f') (arr_indef D f') (map_def D f') (map_indef D f') d r bd b1.
Proof. reflexivity. Qed.

(* ------------------------------------------------------------------ *)
(* integers *)
Lemma int64v_pos : forall n, n < 9223372036854775808 -> int64v n false = Ok (Z.of_N n).
Proof.
  intros n H. unfold int64v. cbn [andb negb orb].
  replace (9223372036854775808 <=? n) with false by (symmetry; apply N.leb_gt; assumption).
  replace (n <? 9223372036854775808) with true by (symmetry; apply N.ltb_lt; assumption). reflexivity.
Qed.

Lemma int64v_neg : forall n, n < 9223372036854775808 -> int64v n true = Ok (-1 - Z.of_N n)%Z.
Proof.
  intros n H. unfold int64v.
  replace (n =? 18446744073709551615) with false by (symmetry; apply N.eqb_neq; lia).
  rewrite (N.mod_small (n + 1)) by lia. cbn [andb negb orb].
  replace (9223372036854775808 <? n + 1) with false by (symmetry; apply N.ltb_ge; lia).
  rewrite orb_false_r.
  assert (C : n + 1 = 9223372036854775808 \/ n + 1 < 9223372036854775808) by lia.
  destruct C as [C | C].
  - rewrite C. replace (Z.of_N n) with 9223372036854775807%Z by lia. vm_compute. reflexivity.
  - replace (n + 1 <? 9223372036854775808) with true by (symmetry; apply N.ltb_lt; assumption).
    unfold wrap_int64.
    replace ((- Z.of_N (n + 1)) mod 18446744073709551616)%Z with (18446744073709551616 - Z.of_N (n + 1))%Z.
    + replace (18446744073709551616 - Z.of_N (n + 1) <? 9223372036854775808)%Z with false by (symmetry; apply Z.ltb_ge; lia).
      f_equal. lia.
    + apply Z.mod_unique with (q := (-1)%Z); lia.
Qed.

(* first byte of a serialisation: never the break code *)
Lemma shead_cons : forall mt w v, shead mt w v = (mt * 32 + ai_of w v) :: sbe (wbytes w) v.
Proof. reflexivity. Qed.

Lemma ser_hd : forall t, twf t -> exists bd tl, ser t = bd :: tl /\ bd <> 255.
Proof.
  destruct t; intros H; cbn [ser twf] in *;
    try (rewrite shead_cons; cbn [app]; eexists; eexists; split; [reflexivity |];
         match goal with H : _ |- _ => idtac end).
  all: try (match goal with
            | H : fits ?w ?v |- _ => pose proof (ai_of_le w v H)
            | H : fits ?w ?v /\ _ |- _ => pose proof (ai_of_le w v (proj1 H))
            end; lia).
  all: try (eexists; eexists; split; [reflexivity | lia]).
Qed.

Lemma tdepth_nonneg : forall D t, (0 <= tdepth_t D t)%Z.
Proof.
  intros D t. induction t using wtree_ind'; cbn [tdepth_t]; try lia.
  - assert (0 <= fold_right (fun x m => Z.max (tdepth_t D x) m) 0 l)%Z by (clear; induction l; simpl; lia). lia.
  - assert (0 <= fold_right (fun x m => Z.max (tdepth_t D x) m) 0 l)%Z by (clear; induction l; simpl; lia). lia.
  - assert (0 <= fold_right (fun kv m => Z.max (Z.max (tdepth_t D (fst kv)) (tdepth_t D (snd kv))) m) 0 l)%Z by (clear; induction l; simpl; lia). lia.
  - assert (0 <= fold_right (fun kv m => Z.max (Z.max (tdepth_t D (fst kv)) (tdepth_t D (snd kv))) m) 0 l)%Z by (clear; induction l; simpl; lia). lia.
  - destruct (t =? 0); [lia |]. destruct ((t =? 55799) || do_skiptags D); lia.
Qed.

(* ------------------------------------------------------------------ *)
(* the decoder on every well-formed serialisation (any width, any length form) *)
Lemma fix_Forall {A} (P : A -> Prop) : forall l,
  (fix go (l : list A) : Prop := match l with [] => True | x :: r => P x /\ go r end) l <-> Forall P l.
Proof. induction l; split; intros H; [constructor | exact I | destruct H; constructor; tauto | inversion H; subst; tauto]. Qed.

Lemma fix_Forall2 {A} (P Q : A -> Prop) : forall l,
  (fix go (l : list A) : Prop := match l with [] => True | x :: r => P x /\ Q x /\ go r end) l
  <-> Forall (fun x => P x /\ Q x) l.
Proof. induction l; split; intros H; [constructor | exact I | destruct H as (?&?&?); constructor; tauto | inversion H; subst; tauto]. Qed.

Lemma ser_len_pos : forall t, (1 <= length (ser t))%nat.
Proof. destruct t; cbn [ser app]; unfold shead; cbn [app length]; lia. Qed.

Definition dec_ok (D : dopts) (t : wtree) : Prop :=
  forall f d r rest, (2 * length (ser t) + 1 <= f)%nat -> (d + tdepth_t D t < maxdepth D)%Z ->
  fst (dec D f d r (ser t ++ rest)) = Ok (go_of_t D (data_of t), rest).

Lemma arr_def_S : forall D f' d r n b,
  arr_def D (S f') d r n b =
  if n =? 0 then (Ok ([], b), r)
  else doI (x, b1) <- dec D f' d r b ;; doI (xs, b2) <- arr_def D f' d r (n - 1) b1 ;; (Ok (x :: xs, b2), r).
Proof. reflexivity. Qed.

Lemma arr_indef_S : forall D f' d r bd b1,
  arr_indef D (S f') d r (bd :: b1) =
  if bd =? bdBreak then (Ok ([], b1), r)
  else doI (x, b2) <- dec D f' d r (bd :: b1) ;; doI (xs, b3) <- arr_indef D f' d r b2 ;; (Ok (x :: xs, b3), r).
Proof. reflexivity. Qed.

Lemma arr_def_ser : forall D l, Forall (dec_ok D) l ->
  forall f d r rest, (2 * length (flat_map ser l) + 2 <= f)%nat ->
  (d + fold_right (fun x m => Z.max (tdepth_t D x) m) 0 l < maxdepth D)%Z ->
  fst (arr_def D f d r (N.of_nat (length l)) (flat_map ser l ++ rest))
  = Ok (map (fun t => go_of_t D (data_of t)) l, rest).
Proof.
  intros D l H. induction H as [| x l Hx Hl IH]; intros f d r rest Hf Hd.
  - destruct f; [simpl in Hf; lia |]. rewrite arr_def_S. reflexivity.
  - destruct f; [simpl in Hf; lia |]. rewrite arr_def_S.
    replace (N.of_nat (length (x :: l)) =? 0) with false by (symmetry; apply N.eqb_neq; cbn [length]; lia).
    cbn [flat_map] in *. rewrite app_length in Hf. rewrite <- app_assoc. cbn [fold_right] in Hd.
    pose proof (ser_len_pos x) as Hp.
    erewrite fst_bindI by (apply Hx; lia). cbv beta iota.
    replace (N.of_nat (length (x :: l)) - 1) with (N.of_nat (length l)) by (cbn [length]; lia).
    erewrite fst_bindI by (apply IH; lia). reflexivity.
Qed.

Lemma arr_indef_ser : forall D l, Forall (dec_ok D) l -> Forall twf l ->
  forall f d r rest, (2 * length (flat_map ser l) + 2 <= f)%nat ->
  (d + fold_right (fun x m => Z.max (tdepth_t D x) m) 0 l < maxdepth D)%Z ->
  fst (arr_indef D f d r (flat_map ser l ++ 255 :: rest))
  = Ok (map (fun t => go_of_t D (data_of t)) l, rest).
Proof.
  intros D l H. induction H as [| x l Hx Hl IH]; intros Hw f d r rest Hf Hd.
  - destruct f; [simpl in Hf; lia |]. cbn [flat_map app]. rewrite arr_indef_S. reflexivity.
  - inversion Hw as [| ? ? Hwx Hwl]; subst.
    destruct f; [simpl in Hf; lia |].
    cbn [flat_map] in *. rewrite app_length in Hf. rewrite <- app_assoc. cbn [fold_right] in Hd.
    destruct (ser_hd x Hwx) as (bd & tl & E & Hne).
    assert (E2 : ser x ++ flat_map ser l ++ 255 :: rest = bd :: (tl ++ flat_map ser l ++ 255 :: rest)) by (rewrite E; reflexivity).
    pose proof (ser_len_pos x) as Hp.
    rewrite E2. rewrite arr_indef_S.
    replace (bd =? bdBreak) with false by (symmetry; apply N.eqb_neq; exact Hne).
    rewrite <- E2.
    erewrite fst_bindI by (apply Hx; lia). cbv beta iota.
    erewrite fst_bindI by (apply IH; [assumption | lia | lia]). reflexivity.
Qed.

Lemma map_def_S : forall D f' d r n seen b,
  map_def D (S f') d r n seen b =
  if n =? 0 then (Ok ([], b), r)
  else doI (kv, b2) <- map_entry (dec D f') d r seen b ;;
       doI (kvs, b3) <- map_def D f' d r (n - 1) (fst kv :: seen) b2 ;; (Ok (kv :: kvs, b3), r).
Proof. reflexivity. Qed.

Lemma map_indef_S : forall D f' d r seen bd b0,
  map_indef D (S f') d r seen (bd :: b0) =
  if bd =? bdBreak then (Ok ([], b0), r)
  else doI (kv, b2) <- map_entry (dec D f') d r seen (bd :: b0) ;;
       doI (kvs, b3) <- map_indef D f' d r (fst kv :: seen) b2 ;; (Ok (kv :: kvs, b3), r).
Proof. reflexivity. Qed.

Lemma map_entry_ser : forall D k v, dec_ok D k -> dec_ok D v -> twf v ->
  forall f' d r seen rest,
  (2 * length (ser k) + 1 <= f')%nat -> (2 * length (ser v) + 1 <= f')%nat ->
  (d + tdepth_t D k < maxdepth D)%Z -> (d + tdepth_t D v < maxdepth D)%Z ->
  hashable (keynorm (go_of_t D (data_of k))) = true ->
  existsb (key_eqb (keynorm (go_of_t D (data_of k)))) seen = false ->
  fst (map_entry (dec D f') d r seen (ser k ++ ser v ++ rest))
  = Ok (keynorm (go_of_t D (data_of k)), go_of_t D (data_of v), rest).
Proof.
  intros D k v Hk Hv Hwv f' d r seen rest Hfk Hfv Hdk Hdv Hh Hs.
  unfold map_entry.
  erewrite fst_bindI by (apply Hk; assumption). cbv beta iota.
  destruct (ser_hd v Hwv) as (bd & tl & E & _).
  assert (E2 : ser v ++ rest = bd :: (tl ++ rest)) by (rewrite E; reflexivity).
  rewrite E2. rewrite Hh. cbn [negb]. rewrite Hs. rewrite <- E2.
  erewrite fst_bindI by (apply Hv; assumption). reflexivity.
Qed.

Definition pair_ser (kv : wtree * wtree) : list N := ser (fst kv) ++ ser (snd kv).
Definition pair_go (D : dopts) (kv : wtree * wtree) : item * item :=
  (keynorm (go_of_t D (data_of (fst kv))), go_of_t D (data_of (snd kv))).
Definition pair_depth (D : dopts) (kv : wtree * wtree) (m : Z) : Z :=
  Z.max (Z.max (tdepth_t D (fst kv)) (tdepth_t D (snd kv))) m.

Lemma map_def_ser : forall D l,
  Forall (fun kv => dec_ok D (fst kv) /\ dec_ok D (snd kv)) l ->
  Forall (fun kv => twf (fst kv) /\ twf (snd kv)) l ->
  forall f d r seen rest, (2 * length (flat_map pair_ser l) + 2 <= f)%nat ->
  (d + fold_right (pair_depth D) 0 l < maxdepth D)%Z ->
  keys_ok_t D seen l ->
  fst (map_def D f d r (N.of_nat (length l)) seen (flat_map pair_ser l ++ rest))
  = Ok (map (pair_go D) l, rest).
Proof.
  intros D l H. induction H as [| kv l [Hk Hv] Hl IH]; intros Hw f d r seen rest Hf Hd Hkeys.
  - destruct f; [simpl in Hf; lia |]. rewrite map_def_S. reflexivity.
  - inversion Hw as [| ? ? [Hwk Hwv] Hwl]; subst.
    destruct f; [simpl in Hf; lia |]. rewrite map_def_S.
    replace (N.of_nat (length (kv :: l)) =? 0) with false by (symmetry; apply N.eqb_neq; cbn [length]; lia).
    cbn [flat_map] in *. unfold pair_ser at 1 in Hf. unfold pair_ser at 1.
    rewrite !app_length in Hf. rewrite <- !app_assoc. cbn [fold_right] in Hd. unfold pair_depth at 1 in Hd.
    pose proof (ser_len_pos (fst kv)) as Hp1. pose proof (ser_len_pos (snd kv)) as Hp2.
    cbn [keys_ok_t] in Hkeys. destruct Hkeys as (Hh & Hs & Hkeys).
    erewrite fst_bindI by (apply map_entry_ser; try assumption; lia). cbv beta iota. cbn [fst].
    replace (N.of_nat (length (kv :: l)) - 1) with (N.of_nat (length l)) by (cbn [length]; lia).
    erewrite fst_bindI by (apply IH; [assumption | lia | lia | exact Hkeys]). reflexivity.
Qed.

Lemma map_indef_ser : forall D l,
  Forall (fun kv => dec_ok D (fst kv) /\ dec_ok D (snd kv)) l ->
  Forall (fun kv => twf (fst kv) /\ twf (snd kv)) l ->
  forall f d r seen rest, (2 * length (flat_map pair_ser l) + 2 <= f)%nat ->
  (d + fold_right (pair_depth D) 0 l < maxdepth D)%Z ->
  keys_ok_t D seen l ->
  fst (map_indef D f d r seen (flat_map pair_ser l ++ 255 :: rest))
  = Ok (map (pair_go D) l, rest).
Proof.
  intros D l H. induction H as [| kv l [Hk Hv] Hl IH]; intros Hw f d r seen rest Hf Hd Hkeys.
  - destruct f; [simpl in Hf; lia |]. cbn [flat_map app]. rewrite map_indef_S. reflexivity.
  - inversion Hw as [| ? ? [Hwk Hwv] Hwl]; subst.
    destruct f; [simpl in Hf; lia |].
    cbn [flat_map] in *. unfold pair_ser at 1 in Hf. unfold pair_ser at 1.
    rewrite !app_length in Hf. rewrite <- !app_assoc. cbn [fold_right] in Hd. unfold pair_depth at 1 in Hd.
    pose proof (ser_len_pos (fst kv)) as Hp1. pose proof (ser_len_pos (snd kv)) as Hp2.
    cbn [keys_ok_t] in Hkeys. destruct Hkeys as (Hh & Hs & Hkeys).
    destruct (ser_hd (fst kv) Hwk) as (bd & tl & E & Hne).
    assert (E2 : ser (fst kv) ++ ser (snd kv) ++ flat_map pair_ser l ++ 255 :: rest
                 = bd :: (tl ++ ser (snd kv) ++ flat_map pair_ser l ++ 255 :: rest)) by (rewrite E; reflexivity).
    rewrite E2. rewrite map_indef_S.
    replace (bd =? bdBreak) with false by (symmetry; apply N.eqb_neq; exact Hne).
    rewrite <- E2.
    erewrite fst_bindI by (apply map_entry_ser; try assumption; lia). cbv beta iota. cbn [fst].
    erewrite fst_bindI by (apply IH; [assumption | lia | lia | exact Hkeys]). reflexivity.
Qed.

(* indefinite-length strings *)
Definition chunk_ser (mt : N) (c : width * list N) : list N := shead mt (fst c) (N.of_nat (length (snd c))) ++ snd c.

Lemma dec_chunks_ser : forall mt cs,
  Forall (fun c => fits (fst c) (N.of_nat (length (snd c))) /\ bytes_ok (snd c)) cs ->
  Forall (fun c => N.of_nat (length (snd c)) < 9223372036854775808) cs ->
  forall f rest, (length cs + 1 <= f)%nat ->
  dec_chunks f mt (flat_map (chunk_ser mt) cs ++ 255 :: rest) = Ok (flat_map snd cs, rest).
Proof.
  intros mt cs H. induction H as [| c cs [Hfit _] Hcs IH]; intros Hl f rest Hf.
  - destruct f; [simpl in Hf; lia |]. reflexivity.
  - inversion Hl as [| ? ? Hlc Hlcs]; subst.
    destruct f; [simpl in Hf; lia |].
    cbn [flat_map]. unfold chunk_ser at 1. rewrite shead_cons. rewrite <- !app_assoc. cbn [app dec_chunks].
    pose proof (ai_of_le _ _ Hfit) as Hai.
    replace (mt * 32 + ai_of (fst c) (N.of_nat (length (snd c))) =? bdBreak) with false.
    2:{ symmetry. apply N.eqb_neq. change bdBreak with 255. intro E.
        assert ((mt * 32 + ai_of (fst c) (N.of_nat (length (snd c)))) mod 32 = 255 mod 32) by (rewrite E; reflexivity).
        rewrite hd_mod in H by lia. change (255 mod 32) with 31 in H. lia. }
    rewrite hd_div, hd_mod by lia. rewrite N.eqb_refl. cbn [negb].
    rewrite dec_len_head by assumption. cbn [bind].
    rewrite take_app. cbn [bind].
    rewrite IH by (try assumption; simpl in Hf; lia). reflexivity.
Qed.

Lemma kind_vals : kind_of_mt 0 = KUint /\ kind_of_mt 1 = KNint /\ kind_of_mt 2 = KBytes /\ kind_of_mt 3 = KText
  /\ kind_of_mt 4 = KArr /\ kind_of_mt 5 = KMap /\ kind_of_mt 6 = KTag /\ kind_of_mt 7 = KSimple.
Proof. repeat apply conj; reflexivity. Qed.

Lemma head_neq : forall mt a c, a <= 27 -> c mod 32 = 31 -> (mt * 32 + a =? c) = false.
Proof.
  intros. apply N.eqb_neq. intro E.
  assert ((mt * 32 + a) mod 32 = c mod 32) by (rewrite E; reflexivity).
  rewrite hd_mod in H1 by lia. lia.
Qed.

Lemma flat_len_ge {A} (g : A -> list N) : forall l, (forall x, 1 <= length (g x))%nat -> (length l <= length (flat_map g l))%nat.
Proof. induction l; intros; cbn [flat_map length]; [lia |]. rewrite app_length. specialize (H a) as Ha. specialize (IHl H). lia. Qed.

Lemma dec_tag_plain : forall D f' self d r t b2, 5 < t ->
  dec_tag D f' self d r t b2 =
  if (t =? 55799) || do_skiptags D then self d r b2
  else if depth_ok D d then doI (v, b3) <- self (d + 1)%Z (S r) b2 ;; (Ok (ITag t v, b3), r)
  else (Err EDepth, r).
Proof.
  intros. unfold dec_tag.
  replace (t =? 0) with false by (symmetry; apply N.eqb_neq; lia).
  replace (t =? 1) with false by (symmetry; apply N.eqb_neq; lia).
  replace (t =? 2) with false by (symmetry; apply N.eqb_neq; lia).
  replace (t =? 3) with false by (symmetry; apply N.eqb_neq; lia).
  replace (t =? 4) with false by (symmetry; apply N.eqb_neq; lia).
  replace (t =? 5) with false by (symmetry; apply N.eqb_neq; lia).
  reflexivity.
Qed.

(* tag 0 content: DecodeStringAsBytes on a byte / text string of any form *)
Lemma text_of_data : forall t s, text_of t = Some s ->
  match data_of t with DText s' | DBytes s' => time_item s' | _ => INil end = time_item s.
Proof. intros t s H. destruct t; cbn [text_of] in H; try discriminate; inversion H; subst; reflexivity. Qed.

Lemma dec_bytes_fresh_head : forall D f hd b1, (1 <= f)%nat -> hd / 32 = 2 \/ hd / 32 = 3 ->
  dec_bytes_fresh D f (hd :: b1) = dec_str_body f hd b1.
Proof.
  intros D f hd b1 Hf Hm. unfold dec_bytes_fresh.
  assert (N1 : (hd =? bdNil) = false) by (apply N.eqb_neq; intro E; rewrite E in Hm; destruct Hm as [Hm | Hm]; vm_compute in Hm; discriminate).
  assert (N2 : (hd =? bdUndefined) = false) by (apply N.eqb_neq; intro E; rewrite E in Hm; destruct Hm as [Hm | Hm]; vm_compute in Hm; discriminate).
  rewrite N1, N2. cbn [orb].
  assert (E : (if do_skiptags D then skip_tags f hd b1 else Ok (hd, b1)) = Ok (hd, b1)).
  { destruct (do_skiptags D); [| reflexivity]. destruct f; [lia |]. cbn [skip_tags].
    replace (hd / 32 =? majTag) with false; [reflexivity |].
    symmetry. apply N.eqb_neq. change majTag with 6. lia. }
  rewrite E. cbn [bind].
  replace ((hd / 32 =? majBytes) || (hd / 32 =? majString)) with true; [reflexivity |].
  symmetry. change majBytes with 2. change majString with 3. destruct Hm as [-> | ->]; reflexivity.
Qed.

Lemma dec_bytes_fresh_str : forall D t s f rest, twf t -> lib_supports_t D t -> text_of t = Some s ->
  (2 * length (ser t) <= f)%nat -> dec_bytes_fresh D f (ser t ++ rest) = Ok (s, rest).
Proof.
  intros D t s f rest Hw Hs Ht Hf. pose proof (ser_len_pos t) as Hp.
  destruct t; cbn [text_of] in Ht; try discriminate; inversion Ht; subst; clear Ht;
    cbn [ser twf lib_supports_t] in *.
  - destruct Hw as [Hw _]. rewrite shead_cons. rewrite <- app_assoc. cbn [app].
    pose proof (ai_of_le _ _ Hw).
    rewrite dec_bytes_fresh_head by (try lia; left; apply hd_div; lia).
    unfold dec_str_body.
    rewrite (head_neq 2 _ bdIndefBytes), (head_neq 2 _ bdIndefString) by (assumption || reflexivity). cbn [orb].
    rewrite hd_mod by lia. rewrite dec_len_head by assumption. cbn [bind]. apply take_app.
  - cbn [app]. rewrite dec_bytes_fresh_head by (try lia; left; reflexivity).
    unfold dec_str_body. change ((95 =? bdIndefBytes) || (95 =? bdIndefString)) with true. cbv iota. change (95 / 32) with 2.
    change (flat_map (fun c => shead 2 (fst c) (N.of_nat (length (snd c))) ++ snd c) cs) with (flat_map (chunk_ser 2) cs) in *.
    rewrite <- app_assoc. cbn [app]. apply dec_chunks_ser; [assumption | assumption |].
    cbn [length] in Hf. rewrite !app_length in Hf. cbn [length] in Hf.
    assert (length cs <= length (flat_map (chunk_ser 2) cs))%nat
      by (apply flat_len_ge; intros; unfold chunk_ser; rewrite shead_cons; cbn [app length]; lia).
    lia.
  - destruct Hw as [Hw _]. rewrite shead_cons. rewrite <- app_assoc. cbn [app].
    pose proof (ai_of_le _ _ Hw).
    rewrite dec_bytes_fresh_head by (try lia; right; apply hd_div; lia).
    unfold dec_str_body.
    rewrite (head_neq 3 _ bdIndefBytes), (head_neq 3 _ bdIndefString) by (assumption || reflexivity). cbn [orb].
    rewrite hd_mod by lia. rewrite dec_len_head by assumption. cbn [bind]. apply take_app.
  - cbn [app]. rewrite dec_bytes_fresh_head by (try lia; right; reflexivity).
    unfold dec_str_body. change ((127 =? bdIndefBytes) || (127 =? bdIndefString)) with true. cbv iota. change (127 / 32) with 3.
    change (flat_map (fun c => shead 3 (fst c) (N.of_nat (length (snd c))) ++ snd c) cs) with (flat_map (chunk_ser 3) cs) in *.
    rewrite <- app_assoc. cbn [app]. apply dec_chunks_ser; [assumption | assumption |].
    cbn [length] in Hf. rewrite !app_length in Hf. cbn [length] in Hf.
    assert (length cs <= length (flat_map (chunk_ser 3) cs))%nat
      by (apply flat_len_ge; intros; unfold chunk_ser; rewrite shead_cons; cbn [app length]; lia).
    lia.
Qed.

Lemma fold_max_nonneg {A} (g : A -> Z) : forall l, (0 <= fold_right (fun x m => Z.max (g x) m) 0 l)%Z.
Proof. induction l; simpl; lia. Qed.

Theorem dec_ser : forall D t, twf t -> lib_supports_t D t -> dec_ok D t.
Proof.
  intros D t. induction t using wtree_ind'; intros Hw Hs f d r rest Hf Hd;
    (destruct f as [| f']; [exfalso; lia |]).
  - (* TUint *)
    cbn [ser twf lib_supports_t data_of go_of_t] in *. rewrite shead_cons. cbn [app]. rewrite dec_S. unfold dec_body.
    pose proof (ai_of_le _ _ Hw). rewrite kind_head, hd_mod by lia. rewrite (proj1 kind_vals). cbv iota.
    rewrite fst_liftI, read_uint_head by assumption. cbn [bind].
    destruct (do_signed D); [| reflexivity].
    rewrite int64v_pos by (apply Hs; reflexivity). reflexivity.
  - (* TNint *)
    cbn [ser twf lib_supports_t data_of go_of_t] in *. rewrite shead_cons. cbn [app]. rewrite dec_S. unfold dec_body.
    pose proof (ai_of_le _ _ Hw). rewrite kind_head, hd_mod by lia. rewrite (proj1 (proj2 kind_vals)). cbv iota.
    rewrite fst_liftI, read_uint_head by assumption. cbn [bind].
    rewrite int64v_neg by assumption. reflexivity.
  - (* TBytes *)
    cbn [ser twf lib_supports_t data_of go_of_t] in *. destruct Hw as [Hw _]. rewrite shead_cons. rewrite <- app_assoc. cbn [app].
    rewrite dec_S. unfold dec_body.
    pose proof (ai_of_le _ _ Hw). rewrite kind_head by lia. rewrite (proj1 (proj2 (proj2 kind_vals))). cbv iota.
    rewrite fst_liftI. unfold dec_str_body.
    rewrite (head_neq 2 _ bdIndefBytes), (head_neq 2 _ bdIndefString) by (assumption || reflexivity). cbn [orb].
    rewrite hd_mod by lia. rewrite dec_len_head by assumption. cbn [bind]. rewrite take_app. reflexivity.
  - (* TBytesI *)
    cbn [ser twf lib_supports_t data_of go_of_t] in *. cbn [app]. rewrite dec_S. unfold dec_body.
    change (kind_of 95) with KBytes. cbv iota. rewrite fst_liftI. unfold dec_str_body.
    change ((95 =? bdIndefBytes) || (95 =? bdIndefString)) with true. cbv iota. change (95 / 32) with 2.
    change (flat_map (fun c => shead 2 (fst c) (N.of_nat (length (snd c))) ++ snd c) cs) with (flat_map (chunk_ser 2) cs).
    rewrite <- app_assoc. cbn [app].
    rewrite dec_chunks_ser; [reflexivity | assumption | assumption |].
    rewrite !app_length in Hf. cbn [length] in Hf.
    assert (length cs <= length (flat_map (fun c => shead 2 (fst c) (N.of_nat (length (snd c))) ++ snd c) cs))%nat
      by (apply flat_len_ge; intros; rewrite shead_cons; cbn [app length]; lia).
    lia.
  - (* TText *)
    cbn [ser twf lib_supports_t data_of go_of_t] in *. destruct Hw as [Hw _]. rewrite shead_cons. rewrite <- app_assoc. cbn [app].
    rewrite dec_S. unfold dec_body.
    pose proof (ai_of_le _ _ Hw). rewrite kind_head by lia. rewrite (proj1 (proj2 (proj2 (proj2 kind_vals)))). cbv iota.
    rewrite fst_liftI. unfold dec_str_body.
    rewrite (head_neq 3 _ bdIndefBytes), (head_neq 3 _ bdIndefString) by (assumption || reflexivity). cbn [orb].
    rewrite hd_mod by lia. rewrite dec_len_head by assumption. cbn [bind]. rewrite take_app. reflexivity.
  - (* TTextI *)
    cbn [ser twf lib_supports_t data_of go_of_t] in *. cbn [app]. rewrite dec_S. unfold dec_body.
    change (kind_of 127) with KText. cbv iota. rewrite fst_liftI. unfold dec_str_body.
    change ((127 =? bdIndefBytes) || (127 =? bdIndefString)) with true. cbv iota. change (127 / 32) with 3.
    change (flat_map (fun c => shead 3 (fst c) (N.of_nat (length (snd c))) ++ snd c) cs) with (flat_map (chunk_ser 3) cs).
    rewrite <- app_assoc. cbn [app].
    rewrite dec_chunks_ser; [reflexivity | assumption | assumption |].
    rewrite !app_length in Hf. cbn [length] in Hf.
    assert (length cs <= length (flat_map (fun c => shead 3 (fst c) (N.of_nat (length (snd c))) ++ snd c) cs))%nat
      by (apply flat_len_ge; intros; rewrite shead_cons; cbn [app length]; lia).
    lia.
  - (* TArr *)
    cbn [ser twf lib_supports_t data_of go_of_t tdepth_t] in *. destruct Hw as [Hw Hwl]. destruct Hs as [Hsl Hlen].
    apply fix_Forall in Hwl. apply fix_Forall in Hsl.
    assert (Hok : Forall (dec_ok D) l).
    { rewrite Forall_forall in *. intros x Hx. apply H; auto. }
    rewrite shead_cons. rewrite <- app_assoc. cbn [app]. rewrite dec_S. unfold dec_body.
    pose proof (ai_of_le _ _ Hw). rewrite kind_head by lia. rewrite (proj1 (proj2 (proj2 (proj2 (proj2 kind_vals))))). cbv iota.
    rewrite (head_neq 4 _ bdIndefArray) by (assumption || reflexivity).
    rewrite hd_mod by lia.
    erewrite fst_bindI by (rewrite fst_liftI; apply dec_len_head; assumption). cbv beta iota.
    pose proof (fold_max_nonneg (tdepth_t D) l) as Hnn.
    replace (depth_ok D d) with true by (symmetry; unfold depth_ok; apply Z.ltb_lt; lia).
    rewrite app_length, shead_cons in Hf. cbn [length] in Hf.
    erewrite fst_bindI by (apply arr_def_ser; [assumption | lia | lia]). cbv beta iota.
    rewrite map_map. reflexivity.
  - (* TArrI *)
    cbn [ser twf lib_supports_t data_of go_of_t tdepth_t] in *. destruct Hs as [Hsl Hlen].
    apply fix_Forall in Hw. apply fix_Forall in Hsl.
    assert (Hok : Forall (dec_ok D) l).
    { rewrite Forall_forall in *. intros x Hx. apply H; auto. }
    cbn [app]. rewrite dec_S. unfold dec_body.
    change (kind_of 159) with KArr. cbv iota. change (159 =? bdIndefArray) with true. cbv iota.
    pose proof (fold_max_nonneg (tdepth_t D) l) as Hnn.
    replace (depth_ok D d) with true by (symmetry; unfold depth_ok; apply Z.ltb_lt; lia).
    rewrite !app_length in Hf. cbn [length] in Hf. rewrite <- app_assoc. cbn [app].
    erewrite fst_bindI by (apply arr_indef_ser; [assumption | assumption | lia | lia]). cbv beta iota.
    rewrite map_map. reflexivity.
  - (* TMap *)
    cbn [ser twf lib_supports_t data_of go_of_t tdepth_t] in *. destruct Hw as [Hw Hwl]. destruct Hs as (Hsl & Hkeys & Hlen).
    apply fix_Forall2 in Hwl. apply fix_Forall2 in Hsl.
    assert (Hok : Forall (fun kv => dec_ok D (fst kv) /\ dec_ok D (snd kv)) l).
    { rewrite Forall_forall in *. intros x Hx. specialize (H x Hx). specialize (Hwl x Hx). specialize (Hsl x Hx). split; [apply (proj1 H) | apply (proj2 H)]; tauto. }
    rewrite shead_cons. rewrite <- app_assoc. cbn [app]. rewrite dec_S. unfold dec_body.
    pose proof (ai_of_le _ _ Hw). rewrite kind_head by lia. rewrite (proj1 (proj2 (proj2 (proj2 (proj2 (proj2 kind_vals)))))). cbv iota.
    rewrite (head_neq 5 _ bdIndefMap) by (assumption || reflexivity).
    rewrite hd_mod by lia.
    erewrite fst_bindI by (rewrite fst_liftI; apply dec_len_head; assumption). cbv beta iota.
    pose proof (fold_max_nonneg (fun kv => Z.max (tdepth_t D (fst kv)) (tdepth_t D (snd kv))) l) as Hnn.
    replace (depth_ok D d) with true by (symmetry; unfold depth_ok; apply Z.ltb_lt; lia).
    rewrite app_length, shead_cons in Hf. cbn [length] in Hf.
    change (flat_map (fun kv => ser (fst kv) ++ ser (snd kv)) l) with (flat_map pair_ser l) in *.
    erewrite fst_bindI by (apply map_def_ser; [assumption | assumption | lia | exact ltac:(unfold pair_depth; lia) | assumption]).
    cbv beta iota. rewrite map_map. reflexivity.
  - (* TMapI *)
    cbn [ser twf lib_supports_t data_of go_of_t tdepth_t] in *. destruct Hs as (Hsl & Hkeys & Hlen).
    apply fix_Forall2 in Hw. apply fix_Forall2 in Hsl.
    assert (Hok : Forall (fun kv => dec_ok D (fst kv) /\ dec_ok D (snd kv)) l).
    { rewrite Forall_forall in *. intros x Hx. specialize (H x Hx). specialize (Hw x Hx). specialize (Hsl x Hx). split; [apply (proj1 H) | apply (proj2 H)]; tauto. }
    cbn [app]. rewrite dec_S. unfold dec_body.
    change (kind_of 191) with KMap. cbv iota. change (191 =? bdIndefMap) with true. cbv iota.
    pose proof (fold_max_nonneg (fun kv => Z.max (tdepth_t D (fst kv)) (tdepth_t D (snd kv))) l) as Hnn.
    replace (depth_ok D d) with true by (symmetry; unfold depth_ok; apply Z.ltb_lt; lia).
    rewrite !app_length in Hf. cbn [length] in Hf. rewrite <- app_assoc. cbn [app].
    change (flat_map (fun kv => ser (fst kv) ++ ser (snd kv)) l) with (flat_map pair_ser l) in *.
    erewrite fst_bindI by (apply map_indef_ser; [assumption | assumption | lia | exact ltac:(unfold pair_depth; lia) | assumption]).
    cbv beta iota. rewrite map_map. reflexivity.
  - (* TTag *)
    cbn [ser twf lib_supports_t data_of go_of_t tdepth_t] in *. destruct Hw as [Hw Hwv].
    rewrite shead_cons. rewrite <- app_assoc. cbn [app]. rewrite dec_S. unfold dec_body.
    pose proof (ai_of_le _ _ Hw). rewrite kind_head by lia.
    rewrite (proj1 (proj2 (proj2 (proj2 (proj2 (proj2 (proj2 kind_vals))))))). cbv iota.
    rewrite hd_mod by lia.
    erewrite fst_bindI by (rewrite fst_liftI; apply read_uint_head; assumption). cbv beta iota.
    rewrite app_length, shead_cons in Hf. cbn [length] in Hf.
    destruct Hs as [[Ht Hsv] | (Ht & Hsv & Htx)].
    + replace (t =? 0) with false in * by (symmetry; apply N.eqb_neq; lia).
      rewrite dec_tag_plain by assumption.
      pose proof (tdepth_nonneg D t0) as Hnn.
      destruct ((t =? 55799) || do_skiptags D).
      * apply IHt; [assumption | assumption | lia | lia].
      * replace (depth_ok D d) with true by (symmetry; unfold depth_ok; apply Z.ltb_lt; lia).
        erewrite fst_bindI by (apply IHt; [assumption | assumption | lia | lia]). reflexivity.
    + subst t. unfold dec_tag. cbn [N.eqb]. rewrite fst_liftI.
      destruct (text_of t0) as [s |] eqn:Etx; [| contradiction]. destruct Htx as [i Hi].
      rewrite (dec_bytes_fresh_str D t0 s f' rest Hwv Hsv Etx) by lia. cbn [bind].
      rewrite Hi. cbn [bind].
      rewrite (text_of_data t0 s Etx). unfold time_item. rewrite Hi. reflexivity.
  - (* TSimple *)
    cbn [ser twf lib_supports_t data_of go_of_t] in *. cbn [app]. rewrite dec_S. unfold dec_body.
    assert (C : v = 20 \/ v = 21 \/ v = 22 \/ v = 23) by lia.
    destruct C as [C | [C | [C | C]]]; subst v; reflexivity.
  - (* TSimple1 *)
    cbn [lib_supports_t] in Hs. contradiction.
  - (* THalf *)
    cbn [ser twf lib_supports_t data_of go_of_t] in *. cbn [app]. rewrite dec_S. unfold dec_body.
    change (kind_of 249) with KSimple. cbv iota. unfold dec_simple.
    change ((249 =? bdNil) || (249 =? bdUndefined)) with false. change (249 =? bdFalse) with false.
    change (249 =? bdTrue) with false. change (249 =? bdFloat16) with true. cbv iota.
    rewrite fst_liftI. rewrite (take_sbe 2). cbn [bind]. rewrite be_get_put by (simpl; lia).
    rewrite half_all by assumption. reflexivity.
  - (* TSingle *)
    cbn [ser twf lib_supports_t data_of go_of_t] in *. cbn [app]. rewrite dec_S. unfold dec_body.
    change (kind_of 250) with KSimple. cbv iota. unfold dec_simple.
    change ((250 =? bdNil) || (250 =? bdUndefined)) with false. change (250 =? bdFalse) with false.
    change (250 =? bdTrue) with false. change (250 =? bdFloat16) with false. change (250 =? bdFloat32) with true. cbv iota.
    rewrite fst_liftI. rewrite (take_sbe 4). cbn [bind]. rewrite be_get_put by (simpl; lia). reflexivity.
  - (* TDouble *)
    cbn [ser twf lib_supports_t data_of go_of_t] in *. cbn [app]. rewrite dec_S. unfold dec_body.
    change (kind_of 251) with KSimple. cbv iota. unfold dec_simple.
    change ((251 =? bdNil) || (251 =? bdUndefined)) with false. change (251 =? bdFalse) with false.
    change (251 =? bdTrue) with false. change (251 =? bdFloat16) with false. change (251 =? bdFloat32) with false.
    change (251 =? bdFloat64) with true. cbv iota.
    rewrite fst_liftI. rewrite (take_sbe 8). cbn [bind]. rewrite be_get_put by (simpl; lia). reflexivity.
Qed.

(* ------------------------------------------------------------------ *)
(* the encoder's output is one of the well-formed serialisations: enc O i = ser (tree_of O i) *)
Lemma minw_fits : forall v, v < 18446744073709551616 -> fits (minw v) v.
Proof.
  intros v H. unfold minw.
  destruct (v <=? 23) eqn:E1; [apply N.leb_le in E1; simpl; lia |].
  destruct (v <=? 255) eqn:E2; [apply N.leb_le in E2; simpl; lia |].
  destruct (v <=? 65535) eqn:E3; [apply N.leb_le in E3; simpl; lia |].
  destruct (v <=? 4294967295) eqn:E4; [apply N.leb_le in E4; simpl; lia |].
  simpl. assumption.
Qed.

Lemma enc_head_shead : forall mt v, mt <= 7 -> enc_head (mt * 32) v = shead mt (minw v) v.
Proof.
  intros mt v Hm. unfold enc_head, minw.
  destruct (v <=? 23) eqn:E1.
  { apply N.leb_le in E1. rewrite shead_cons. cbn [ai_of wbytes sbe]. rewrite N.mod_small by lia. f_equal. lia. }
  destruct (v <=? 255) eqn:E2.
  { apply N.leb_le in E2. apply N.leb_gt in E1. rewrite shead_cons. cbn [ai_of wbytes sbe app]. rewrite N.mod_small by lia.
    rewrite (N.mod_small v) by lia. reflexivity. }
  destruct (v <=? 65535) eqn:E3.
  { rewrite shead_cons. cbn [ai_of wbytes]. rewrite N.mod_small by lia. rewrite be_put_sbe. reflexivity. }
  destruct (v <=? 4294967295) eqn:E4.
  { rewrite shead_cons. cbn [ai_of wbytes]. rewrite N.mod_small by lia. rewrite be_put_sbe. reflexivity. }
  rewrite shead_cons. cbn [ai_of wbytes]. rewrite N.mod_small by lia. rewrite be_put_sbe. reflexivity.
Qed.

Lemma flat_map_map {A B C} (g : A -> B) (h : B -> list C) : forall l, flat_map h (map g l) = flat_map (fun x => h (g x)) l.
Proof. induction l; simpl; [reflexivity | rewrite IHl; reflexivity]. Qed.

Lemma flat_map_ext_in {A B} (g h : A -> list B) : forall l, (forall x, In x l -> g x = h x) -> flat_map g l = flat_map h l.
Proof. induction l; simpl; intros; [reflexivity |]. rewrite H by auto. rewrite IHl by auto. reflexivity. Qed.

Lemma enc_str_ser : forall (O : eopts) (text : bool) (s : list N),
  enc_str O (if text then baseString else baseBytes) s = ser (str_tree O text s).
Proof.
  intros O text s. unfold enc_str, str_tree.
  destruct (eo_indef O).
  - destruct text; cbn [ser]; rewrite flat_map_map; cbn [fst snd].
    + change (baseString =? baseBytes) with false. cbv iota. change bdIndefString with 127. change bdBreak with 255.
      do 2 f_equal. apply flat_map_ext_in. intros c _. change baseString with (3 * 32). rewrite enc_head_shead by lia. reflexivity.
    + change (baseBytes =? baseBytes) with true. cbv iota. change bdIndefBytes with 95. change bdBreak with 255.
      do 2 f_equal. apply flat_map_ext_in. intros c _. change baseBytes with (2 * 32). rewrite enc_head_shead by lia. reflexivity.
  - destruct text; cbn [ser].
    + change baseString with (3 * 32). rewrite enc_head_shead by lia. reflexivity.
    + change baseBytes with (2 * 32). rewrite enc_head_shead by lia. reflexivity.
Qed.



(* ------------------------------------------------------------------ *)
(* the specification's decoder reads back every well-formed serialisation *)
Lemma stake_app : forall x rest, stake (N.of_nat (length x)) (x ++ rest) = Some (x, rest).
Proof.
  intros. unfold stake. rewrite app_length.
  replace (N.of_nat (length x + length rest) <? N.of_nat (length x)) with false by (symmetry; apply N.ltb_ge; lia).
  rewrite Nat2N.id, firstn_app_len, skipn_app_len. reflexivity.
Qed.
Lemma stake_sbe : forall k v rest, stake (N.of_nat k) (sbe k v ++ rest) = Some (sbe k v, rest).
Proof. intros. rewrite <- (length_sbe k v) at 1. apply stake_app. Qed.

Lemma sarg_head : forall w v rest, fits w v -> sarg (ai_of w v) (sbe (wbytes w) v ++ rest) = Some (v, rest).
Proof.
  intros w v rest H. unfold sarg. destruct w; cbn [ai_of wbytes].
  - simpl in H. replace (v <? 24) with true by (symmetry; apply N.ltb_lt; lia). reflexivity.
  - change (24 <? 24) with false. change (24 =? 24) with true. cbv iota.
    rewrite (stake_sbe 1). rewrite <- be_get_sget, be_get_put by (simpl in *; lia). reflexivity.
  - change (25 <? 24) with false. change (25 =? 24) with false. change (25 =? 25) with true. cbv iota.
    rewrite (stake_sbe 2). rewrite <- be_get_sget, be_get_put by (simpl in *; lia). reflexivity.
  - change (26 <? 24) with false. change (26 =? 24) with false. change (26 =? 25) with false. change (26 =? 26) with true. cbv iota.
    rewrite (stake_sbe 4). rewrite <- be_get_sget, be_get_put by (simpl in *; lia). reflexivity.
  - change (27 <? 24) with false. change (27 =? 24) with false. change (27 =? 25) with false. change (27 =? 26) with false.
    change (27 =? 27) with true. cbv iota.
    rewrite (stake_sbe 8). rewrite <- be_get_sget, be_get_put by (simpl in *; lia). reflexivity.
Qed.

Definition spec_ok (t : wtree) : Prop :=
  forall f rest, (2 * length (ser t) + 1 <= f)%nat -> spec_dec f (ser t ++ rest) = Some (data_of t, rest).

Lemma spec_dec_S : forall f' ib b1,
  spec_dec (S f') (ib :: b1) =
  spec_body f' (spec_dec f') (spec_n f') (spec_until f') (spec_pairs_n f') (spec_pairs_until f') ib b1.
Proof. reflexivity. Qed.
Lemma spec_n_S : forall f' n b,
  spec_n (S f') n b =
  if n =? 0 then Some ([], b)
  else match spec_dec f' b with
       | Some (x, b1) => match spec_n f' (n - 1) b1 with Some (xs, b2) => Some (x :: xs, b2) | None => None end
       | None => None
       end.
Proof. reflexivity. Qed.
Lemma spec_until_S : forall f' ib b1,
  spec_until (S f') (ib :: b1) =
  if ib =? 255 then Some ([], b1)
  else match spec_dec f' (ib :: b1) with
       | Some (x, b2) => match spec_until f' b2 with Some (xs, b3) => Some (x :: xs, b3) | None => None end
       | None => None
       end.
Proof. reflexivity. Qed.
Lemma spec_pairs_n_S : forall f' n b,
  spec_pairs_n (S f') n b =
  if n =? 0 then Some ([], b)
  else match spec_dec f' b with
       | Some (k, b1) =>
           match spec_dec f' b1 with
           | Some (v, b2) => match spec_pairs_n f' (n - 1) b2 with Some (xs, b3) => Some ((k, v) :: xs, b3) | None => None end
           | None => None
           end
       | None => None
       end.
Proof. reflexivity. Qed.
Lemma spec_pairs_until_S : forall f' ib b1,
  spec_pairs_until (S f') (ib :: b1) =
  if ib =? 255 then Some ([], b1)
  else match spec_dec f' (ib :: b1) with
       | Some (k, b2) =>
           match spec_dec f' b2 with
           | Some (v, b3) => match spec_pairs_until f' b3 with Some (xs, b4) => Some ((k, v) :: xs, b4) | None => None end
           | None => None
           end
       | None => None
       end.
Proof. reflexivity. Qed.

Lemma spec_n_ser : forall l, Forall spec_ok l ->
  forall f rest, (2 * length (flat_map ser l) + 2 <= f)%nat ->
  spec_n f (N.of_nat (length l)) (flat_map ser l ++ rest) = Some (map data_of l, rest).
Proof.
  intros l H. induction H as [| x l Hx Hl IH]; intros f rest Hf.
  - destruct f; [simpl in Hf; lia |]. reflexivity.
  - destruct f; [simpl in Hf; lia |]. rewrite spec_n_S.
    replace (N.of_nat (length (x :: l)) =? 0) with false by (symmetry; apply N.eqb_neq; cbn [length]; lia).
    cbn [flat_map] in *. rewrite app_length in Hf. rewrite <- app_assoc. pose proof (ser_len_pos x).
    rewrite Hx by lia.
    replace (N.of_nat (length (x :: l)) - 1) with (N.of_nat (length l)) by (cbn [length]; lia).
    rewrite IH by lia. reflexivity.
Qed.

Lemma spec_until_ser : forall l, Forall spec_ok l -> Forall twf l ->
  forall f rest, (2 * length (flat_map ser l) + 2 <= f)%nat ->
  spec_until f (flat_map ser l ++ 255 :: rest) = Some (map data_of l, rest).
Proof.
  intros l H. induction H as [| x l Hx Hl IH]; intros Hw f rest Hf.
  - destruct f; [simpl in Hf; lia |]. reflexivity.
  - inversion Hw as [| ? ? Hwx Hwl]; subst.
    destruct f; [simpl in Hf; lia |].
    cbn [flat_map] in *. rewrite app_length in Hf. rewrite <- app_assoc. pose proof (ser_len_pos x).
    destruct (ser_hd x Hwx) as (bd & tl & E & Hne).
    assert (E2 : ser x ++ flat_map ser l ++ 255 :: rest = bd :: (tl ++ flat_map ser l ++ 255 :: rest)) by (rewrite E; reflexivity).
    rewrite E2. rewrite spec_until_S.
    replace (bd =? 255) with false by (symmetry; apply N.eqb_neq; exact Hne).
    rewrite <- E2. rewrite Hx by lia. rewrite IH by (assumption || lia). reflexivity.
Qed.

Lemma spec_pairs_n_ser : forall l, Forall (fun kv => spec_ok (fst kv) /\ spec_ok (snd kv)) l ->
  forall f rest, (2 * length (flat_map pair_ser l) + 2 <= f)%nat ->
  spec_pairs_n f (N.of_nat (length l)) (flat_map pair_ser l ++ rest)
  = Some (map (fun kv => (data_of (fst kv), data_of (snd kv))) l, rest).
Proof.
  intros l H. induction H as [| kv l [Hk Hv] Hl IH]; intros f rest Hf.
  - destruct f; [simpl in Hf; lia |]. reflexivity.
  - destruct f; [simpl in Hf; lia |]. rewrite spec_pairs_n_S.
    replace (N.of_nat (length (kv :: l)) =? 0) with false by (symmetry; apply N.eqb_neq; cbn [length]; lia).
    cbn [flat_map] in *. unfold pair_ser at 1 in Hf. unfold pair_ser at 1.
    rewrite !app_length in Hf. rewrite <- !app_assoc.
    pose proof (ser_len_pos (fst kv)). pose proof (ser_len_pos (snd kv)).
    rewrite Hk by lia. rewrite Hv by lia.
    replace (N.of_nat (length (kv :: l)) - 1) with (N.of_nat (length l)) by (cbn [length]; lia).
    rewrite IH by lia. reflexivity.
Qed.

Lemma spec_pairs_until_ser : forall l, Forall (fun kv => spec_ok (fst kv) /\ spec_ok (snd kv)) l ->
  Forall (fun kv => twf (fst kv) /\ twf (snd kv)) l ->
  forall f rest, (2 * length (flat_map pair_ser l) + 2 <= f)%nat ->
  spec_pairs_until f (flat_map pair_ser l ++ 255 :: rest)
  = Some (map (fun kv => (data_of (fst kv), data_of (snd kv))) l, rest).
Proof.
  intros l H. induction H as [| kv l [Hk Hv] Hl IH]; intros Hw f rest Hf.
  - destruct f; [simpl in Hf; lia |]. reflexivity.
  - inversion Hw as [| ? ? [Hwk Hwv] Hwl]; subst.
    destruct f; [simpl in Hf; lia |].
    cbn [flat_map] in *. unfold pair_ser at 1 in Hf. unfold pair_ser at 1.
    rewrite !app_length in Hf. rewrite <- !app_assoc.
    pose proof (ser_len_pos (fst kv)). pose proof (ser_len_pos (snd kv)).
    destruct (ser_hd (fst kv) Hwk) as (bd & tl & E & Hne).
    assert (E2 : ser (fst kv) ++ ser (snd kv) ++ flat_map pair_ser l ++ 255 :: rest
                 = bd :: (tl ++ ser (snd kv) ++ flat_map pair_ser l ++ 255 :: rest)) by (rewrite E; reflexivity).
    rewrite E2. rewrite spec_pairs_until_S.
    replace (bd =? 255) with false by (symmetry; apply N.eqb_neq; exact Hne).
    rewrite <- E2. rewrite Hk by lia. rewrite Hv by lia. rewrite IH by (assumption || lia). reflexivity.
Qed.

Lemma schunks_ser : forall mt cs,
  Forall (fun c => fits (fst c) (N.of_nat (length (snd c))) /\ bytes_ok (snd c)) cs ->
  forall f rest, (length cs + 1 <= f)%nat ->
  schunks f mt (flat_map (chunk_ser mt) cs ++ 255 :: rest) = Some (flat_map snd cs, rest).
Proof.
  intros mt cs H. induction H as [| c cs [Hfit _] Hcs IH]; intros f rest Hf.
  - destruct f; [simpl in Hf; lia |]. reflexivity.
  - destruct f; [simpl in Hf; lia |].
    cbn [flat_map]. unfold chunk_ser at 1. rewrite shead_cons. rewrite <- !app_assoc. cbn [app schunks].
    pose proof (ai_of_le _ _ Hfit) as Hai.
    rewrite (head_neq mt _ 255) by (assumption || reflexivity).
    rewrite hd_div, hd_mod by lia. rewrite N.eqb_refl.
    replace (ai_of (fst c) (N.of_nat (length (snd c))) =? 31) with false by (symmetry; apply N.eqb_neq; lia).
    cbn [negb andb].
    rewrite sarg_head by assumption. rewrite stake_app.
    rewrite IH by (simpl in Hf; lia). reflexivity.
Qed.

Lemma spec_resv : forall a, a <= 27 -> (28 <=? a) && (a <=? 30) = false.
Proof. intros. replace (28 <=? a) with false by (symmetry; apply N.leb_gt; lia). reflexivity. Qed.

Theorem spec_ser : forall t, twf t -> spec_ok t.
Proof.
  intros t. induction t using wtree_ind'; intros Hw f rest Hf; (destruct f as [| f']; [exfalso; lia |]).
  - cbn [ser twf data_of] in *. rewrite shead_cons. cbn [app]. rewrite spec_dec_S. unfold spec_body.
    pose proof (ai_of_le _ _ Hw). rewrite hd_div, hd_mod by lia. rewrite spec_resv by assumption.
    cbn [N.eqb]. rewrite sarg_head by assumption. reflexivity.
  - cbn [ser twf data_of] in *. rewrite shead_cons. cbn [app]. rewrite spec_dec_S. unfold spec_body.
    pose proof (ai_of_le _ _ Hw). rewrite hd_div, hd_mod by lia. rewrite spec_resv by assumption.
    change (1 =? 0) with false. change (1 =? 1) with true. cbv iota. rewrite sarg_head by assumption. reflexivity.
  - cbn [ser twf data_of] in *. destruct Hw as [Hw _]. rewrite shead_cons. rewrite <- app_assoc. cbn [app].
    rewrite spec_dec_S. unfold spec_body.
    pose proof (ai_of_le _ _ Hw). rewrite hd_div, hd_mod by lia. rewrite spec_resv by assumption.
    change (2 =? 0) with false. change (2 =? 1) with false. change ((2 =? 2) || (2 =? 3)) with true. cbv iota.
    replace (ai_of w (N.of_nat (length s)) =? 31) with false by (symmetry; apply N.eqb_neq; lia).
    rewrite sarg_head by assumption. rewrite stake_app. reflexivity.
  - cbn [ser twf data_of] in *. cbn [app]. rewrite spec_dec_S. unfold spec_body.
    change (95 / 32) with 2. change (95 mod 32) with 31. change ((28 <=? 31) && (31 <=? 30)) with false.
    change (2 =? 0) with false. change (2 =? 1) with false. change ((2 =? 2) || (2 =? 3)) with true.
    change (31 =? 31) with true. cbv iota.
    change (flat_map (fun c => shead 2 (fst c) (N.of_nat (length (snd c))) ++ snd c) cs) with (flat_map (chunk_ser 2) cs).
    rewrite <- app_assoc. cbn [app]. rewrite schunks_ser; [reflexivity | assumption |].
    rewrite !app_length in Hf. cbn [length] in Hf.
    assert (length cs <= length (flat_map (fun c => shead 2 (fst c) (N.of_nat (length (snd c))) ++ snd c) cs))%nat
      by (apply flat_len_ge; intros; rewrite shead_cons; cbn [app length]; lia).
    lia.
  - cbn [ser twf data_of] in *. destruct Hw as [Hw _]. rewrite shead_cons. rewrite <- app_assoc. cbn [app].
    rewrite spec_dec_S. unfold spec_body.
    pose proof (ai_of_le _ _ Hw). rewrite hd_div, hd_mod by lia. rewrite spec_resv by assumption.
    change (3 =? 0) with false. change (3 =? 1) with false. change ((3 =? 2) || (3 =? 3)) with true. cbv iota.
    replace (ai_of w (N.of_nat (length s)) =? 31) with false by (symmetry; apply N.eqb_neq; lia).
    rewrite sarg_head by assumption. rewrite stake_app. reflexivity.
  - cbn [ser twf data_of] in *. cbn [app]. rewrite spec_dec_S. unfold spec_body.
    change (127 / 32) with 3. change (127 mod 32) with 31. change ((28 <=? 31) && (31 <=? 30)) with false.
    change (3 =? 0) with false. change (3 =? 1) with false. change ((3 =? 2) || (3 =? 3)) with true.
    change (31 =? 31) with true. cbv iota.
    change (flat_map (fun c => shead 3 (fst c) (N.of_nat (length (snd c))) ++ snd c) cs) with (flat_map (chunk_ser 3) cs).
    rewrite <- app_assoc. cbn [app]. rewrite schunks_ser; [reflexivity | assumption |].
    rewrite !app_length in Hf. cbn [length] in Hf.
    assert (length cs <= length (flat_map (fun c => shead 3 (fst c) (N.of_nat (length (snd c))) ++ snd c) cs))%nat
      by (apply flat_len_ge; intros; rewrite shead_cons; cbn [app length]; lia).
    lia.
  - cbn [ser twf data_of] in *. destruct Hw as [Hw Hwl]. apply fix_Forall in Hwl.
    assert (Hok : Forall spec_ok l) by (rewrite Forall_forall in *; intros x Hx; apply H; auto).
    rewrite shead_cons. rewrite <- app_assoc. cbn [app]. rewrite spec_dec_S. unfold spec_body.
    pose proof (ai_of_le _ _ Hw). rewrite hd_div, hd_mod by lia. rewrite spec_resv by assumption.
    change (4 =? 0) with false. change (4 =? 1) with false. change ((4 =? 2) || (4 =? 3)) with false. change (4 =? 4) with true. cbv iota.
    replace (ai_of w (N.of_nat (length l)) =? 31) with false by (symmetry; apply N.eqb_neq; lia).
    rewrite sarg_head by assumption.
    rewrite app_length, shead_cons in Hf. cbn [length] in Hf.
    rewrite spec_n_ser by (assumption || lia). reflexivity.
  - cbn [ser twf data_of] in *. apply fix_Forall in Hw.
    assert (Hok : Forall spec_ok l) by (rewrite Forall_forall in *; intros x Hx; apply H; auto).
    cbn [app]. rewrite spec_dec_S. unfold spec_body.
    change (159 / 32) with 4. change (159 mod 32) with 31. change ((28 <=? 31) && (31 <=? 30)) with false.
    change (4 =? 0) with false. change (4 =? 1) with false. change ((4 =? 2) || (4 =? 3)) with false. change (4 =? 4) with true.
    change (31 =? 31) with true. cbv iota.
    rewrite !app_length in Hf. cbn [length] in Hf. rewrite <- app_assoc. cbn [app].
    rewrite spec_until_ser by (assumption || lia). reflexivity.
  - cbn [ser twf data_of] in *. destruct Hw as [Hw Hwl]. apply fix_Forall2 in Hwl.
    assert (Hok : Forall (fun kv => spec_ok (fst kv) /\ spec_ok (snd kv)) l).
    { rewrite Forall_forall in *. intros x Hx. specialize (H x Hx). specialize (Hwl x Hx). split; [apply (proj1 H) | apply (proj2 H)]; tauto. }
    rewrite shead_cons. rewrite <- app_assoc. cbn [app]. rewrite spec_dec_S. unfold spec_body.
    pose proof (ai_of_le _ _ Hw). rewrite hd_div, hd_mod by lia. rewrite spec_resv by assumption.
    change (5 =? 0) with false. change (5 =? 1) with false. change ((5 =? 2) || (5 =? 3)) with false. change (5 =? 4) with false.
    change (5 =? 5) with true. cbv iota.
    replace (ai_of w (N.of_nat (length l)) =? 31) with false by (symmetry; apply N.eqb_neq; lia).
    rewrite sarg_head by assumption.
    rewrite app_length, shead_cons in Hf. cbn [length] in Hf.
    change (flat_map (fun kv => ser (fst kv) ++ ser (snd kv)) l) with (flat_map pair_ser l) in *.
    rewrite spec_pairs_n_ser by (assumption || lia). reflexivity.
  - cbn [ser twf data_of] in *. apply fix_Forall2 in Hw.
    assert (Hok : Forall (fun kv => spec_ok (fst kv) /\ spec_ok (snd kv)) l).
    { rewrite Forall_forall in *. intros x Hx. specialize (H x Hx). specialize (Hw x Hx). split; [apply (proj1 H) | apply (proj2 H)]; tauto. }
    cbn [app]. rewrite spec_dec_S. unfold spec_body.
    change (191 / 32) with 5. change (191 mod 32) with 31. change ((28 <=? 31) && (31 <=? 30)) with false.
    change (5 =? 0) with false. change (5 =? 1) with false. change ((5 =? 2) || (5 =? 3)) with false. change (5 =? 4) with false.
    change (5 =? 5) with true. change (31 =? 31) with true. cbv iota.
    rewrite !app_length in Hf. cbn [length] in Hf. rewrite <- app_assoc. cbn [app].
    change (flat_map (fun kv => ser (fst kv) ++ ser (snd kv)) l) with (flat_map pair_ser l) in *.
    rewrite spec_pairs_until_ser by (assumption || lia). reflexivity.
  - cbn [ser twf data_of] in *. destruct Hw as [Hw Hwv].
    rewrite shead_cons. rewrite <- app_assoc. cbn [app]. rewrite spec_dec_S. unfold spec_body.
    pose proof (ai_of_le _ _ Hw). rewrite hd_div, hd_mod by lia. rewrite spec_resv by assumption.
    change (6 =? 0) with false. change (6 =? 1) with false. change ((6 =? 2) || (6 =? 3)) with false. change (6 =? 4) with false.
    change (6 =? 5) with false. change (6 =? 6) with true. cbv iota.
    replace (ai_of w t =? 31) with false by (symmetry; apply N.eqb_neq; lia).
    rewrite sarg_head by assumption.
    rewrite app_length, shead_cons in Hf. cbn [length] in Hf.
    rewrite IHt by (assumption || lia). reflexivity.
  - cbn [ser twf data_of] in *. cbn [app]. rewrite spec_dec_S. unfold spec_body.
    replace (224 + v) with (7 * 32 + v) by lia. rewrite hd_div, hd_mod by lia. rewrite spec_resv by lia.
    change (7 =? 0) with false. change (7 =? 1) with false. change ((7 =? 2) || (7 =? 3)) with false. change (7 =? 4) with false.
    change (7 =? 5) with false. change (7 =? 6) with false. cbv iota.
    replace (v <? 24) with true by (symmetry; apply N.ltb_lt; assumption). reflexivity.
  - cbn [ser twf data_of] in *. cbn [app]. rewrite spec_dec_S. unfold spec_body.
    change (248 / 32) with 7. change (248 mod 32) with 24. cbn [N.leb N.eqb N.ltb andb orb].
    replace (v <? 32) with false by (symmetry; apply N.ltb_ge; lia). reflexivity.
  - cbn [ser twf data_of] in *. cbn [app]. rewrite spec_dec_S. unfold spec_body.
    change (249 / 32) with 7. change (249 mod 32) with 25. cbn [N.leb N.eqb N.ltb andb orb].
    rewrite (stake_sbe 2). rewrite <- be_get_sget, be_get_put by (simpl; lia). reflexivity.
  - cbn [ser twf data_of] in *. cbn [app]. rewrite spec_dec_S. unfold spec_body.
    change (250 / 32) with 7. change (250 mod 32) with 26. cbn [N.leb N.eqb N.ltb andb orb].
    rewrite (stake_sbe 4). rewrite <- be_get_sget, be_get_put by (simpl; lia). reflexivity.
  - cbn [ser twf data_of] in *. cbn [app]. rewrite spec_dec_S. unfold spec_body.
    change (251 / 32) with 7. change (251 mod 32) with 27. cbn [N.leb N.eqb N.ltb andb orb].
    rewrite (stake_sbe 8). rewrite <- be_get_sget, be_get_put by (simpl; lia). reflexivity.
Qed.

(* ------------------------------------------------------------------ *)
Lemma Forall_firstn' {A} (P : A -> Prop) : forall n l, Forall P l -> Forall P (firstn n l).
Proof. induction n; intros; simpl; [constructor |]. destruct l; [constructor |]. inversion H; subst. constructor; auto. Qed.
Lemma Forall_skipn' {A} (P : A -> Prop) : forall n l, Forall P l -> Forall P (skipn n l).
Proof. induction n; intros; simpl; [assumption |]. destruct l; [constructor |]. inversion H; subst. auto. Qed.

Lemma cut_back_pos : forall j s k, cut_back j s = Some k -> (1 <= k <= j)%nat.
Proof. induction j; intros s k H; cbn [cut_back] in H; [discriminate |]. destruct (rune_start (nth (S j) s 0)); [inversion H; lia | apply IHj in H; lia]. Qed.

Lemma cut_pos : forall text n s, (0 < n)%nat -> (1 <= cut text n s <= n)%nat.
Proof.
  intros text n s Hn. unfold cut. destruct (text && (n <? length s)%nat); [| lia].
  destruct (cut_back n s) as [k |] eqn:E; [apply cut_back_pos in E; lia | lia].
Qed.

Lemma chunks_concat : forall text f n s, (0 < n)%nat -> (length s <= f)%nat -> flat_map (fun c => c) (chunks text f n s) = s.
Proof.
  intros text. induction f; intros n s Hn Hl.
  - destruct s; [reflexivity | simpl in Hl; lia].
  - destruct s as [| x s']; [reflexivity |].
    cbn [chunks flat_map]. rewrite IHf.
    + apply firstn_skipn.
    + assumption.
    + rewrite skipn_length. pose proof (cut_pos text n (x :: s') Hn). cbn [length] in *. lia.
Qed.

Lemma chunks_Forall (P Q : list N -> Prop) :
  (forall l n, Q l -> Q (skipn n l)) -> (forall l k, Q l -> P (firstn k l)) ->
  forall text f n s, Q s -> Forall P (chunks text f n s).
Proof.
  intros Hs Hf text. induction f; intros n s H; [constructor |].
  destruct s as [| x s']; [constructor |].
  cbn [chunks]. constructor; [apply Hf; assumption | apply IHf; apply Hs; assumption].
Qed.

Lemma chunk_len_pos : forall k, (0 < chunk_len k)%nat.
Proof. intros. unfold chunk_len. lia. Qed.

Lemma str_tree_data : forall (O : eopts) (text : bool) (s : list N),
  data_of (str_tree O text s) = if text then DText s else DBytes s.
Proof.
  intros. unfold str_tree. destruct (eo_indef O); destruct text; cbn [data_of]; try reflexivity.
  - rewrite flat_map_map. cbn [snd]. rewrite chunks_concat by (apply chunk_len_pos || lia). reflexivity.
  - rewrite flat_map_map. cbn [snd]. rewrite chunks_concat by (apply chunk_len_pos || lia). reflexivity.
Qed.

Lemma str_tree_twf : forall (O : eopts) (text : bool) (s : list N),
  bytes_ok s -> N.of_nat (length s) < 18446744073709551616 -> twf (str_tree O text s).
Proof.
  intros O text s Hb Hl. unfold str_tree.
  assert (Hc : Forall (fun c => fits (fst c) (N.of_nat (length (snd c))) /\ bytes_ok (snd c))
                 (map (fun c => (minw (N.of_nat (length c)), c)) (chunks text (length s) (chunk_len (length s)) s))).
  { apply Forall_map. cbn [fst snd].
    apply (chunks_Forall _ (fun l => bytes_ok l /\ (length l <= length s)%nat)).
    - intros l n [H1 H2]. split; [apply Forall_skipn'; assumption | rewrite skipn_length; lia].
    - intros l k [H1 H2]. split.
      + apply minw_fits. rewrite firstn_length. lia.
      + apply Forall_firstn'; assumption.
    - split; [assumption | lia]. }
  destruct (eo_indef O); destruct text; cbn [twf]; try assumption; (split; [apply minw_fits; assumption | assumption]).
Qed.

Lemma wf_pairs_Forall : forall l,
  (fix go (l : list (item * item)) : Prop := match l with [] => True | (k, v) :: r => wf k /\ wf v /\ go r end) l
  <-> Forall (fun kv => wf (fst kv) /\ wf (snd kv)) l.
Proof.
  induction l as [| [k v] l IH]; split; intros H; [constructor | exact I | |].
  - destruct H as (?&?&?). constructor; [split; assumption | apply IH; assumption].
  - inversion H as [| ? ? [? ?] ?]; subst. cbn [fst snd] in *. repeat split; try assumption. apply IH; assumption.
Qed.





(* ------------------------------------------------------------------ *)
(* statements used by Properties/C10_cbor.v *)

(* the extended vocabulary agrees with the original one wherever the original applies *)
Lemma fold_max_ext {A} (g h : A -> Z) : forall l, (forall x, In x l -> g x = h x) ->
  fold_right (fun x m => Z.max (g x) m) 0%Z l = fold_right (fun x m => Z.max (h x) m) 0%Z l.
Proof. induction l; intros H; cbn [fold_right]; [reflexivity |]. rewrite H by (left; reflexivity). rewrite IHl by (intros; apply H; right; assumption). reflexivity. Qed.

Lemma keys_compat : forall D l,
  (forall kv, In kv l -> go_of_t D (data_of (fst kv)) = go_of D (data_of (fst kv))) ->
  forall seen, keys_ok D seen l -> keys_ok_t D seen l.
Proof.
  intros D l. induction l as [| kv l IH]; intros He seen H; [exact I |].
  cbn [keys_ok keys_ok_t] in *. rewrite He by (left; reflexivity). destruct H as (H1 & H2 & H3).
  repeat split; try assumption. apply IH; [intros; apply He; right; assumption | assumption].
Qed.

Theorem compat_t : forall D t, lib_supports D t ->
  lib_supports_t D t /\ go_of_t D (data_of t) = go_of D (data_of t) /\ tdepth_t D t = tdepth D t.
Proof.
  intros D t. induction t using wtree_ind'; intros Hs;
    try (cbn [lib_supports lib_supports_t data_of go_of go_of_t tdepth tdepth_t] in *; repeat split; (assumption || reflexivity)).
  - (* TArr *)
    cbn [lib_supports] in Hs. destruct Hs as [Hsl Hlen]. apply fix_Forall in Hsl.
    assert (A : forall x, In x l -> lib_supports_t D x /\ go_of_t D (data_of x) = go_of D (data_of x) /\ tdepth_t D x = tdepth D x).
    { rewrite Forall_forall in *. intros x Hx. apply H; auto. }
    cbn [lib_supports_t data_of go_of go_of_t tdepth tdepth_t]. repeat split.
    + apply fix_Forall. apply Forall_forall. intros x Hx. apply A; assumption.
    + assumption.
    + f_equal. rewrite !map_map. apply map_ext_in. intros x Hx. apply A; assumption.
    + f_equal. apply fold_max_ext. intros x Hx. apply A; assumption.
  - (* TArrI *)
    cbn [lib_supports] in Hs. destruct Hs as [Hsl Hlen]. apply fix_Forall in Hsl.
    assert (A : forall x, In x l -> lib_supports_t D x /\ go_of_t D (data_of x) = go_of D (data_of x) /\ tdepth_t D x = tdepth D x).
    { rewrite Forall_forall in *. intros x Hx. apply H; auto. }
    cbn [lib_supports_t data_of go_of go_of_t tdepth tdepth_t]. repeat split.
    + apply fix_Forall. apply Forall_forall. intros x Hx. apply A; assumption.
    + assumption.
    + f_equal. rewrite !map_map. apply map_ext_in. intros x Hx. apply A; assumption.
    + f_equal. apply fold_max_ext. intros x Hx. apply A; assumption.
  - (* TMap *)
    cbn [lib_supports] in Hs. destruct Hs as (Hsl & Hkeys & Hlen). apply fix_Forall2 in Hsl.
    assert (A : forall kv, In kv l ->
      (lib_supports_t D (fst kv) /\ go_of_t D (data_of (fst kv)) = go_of D (data_of (fst kv)) /\ tdepth_t D (fst kv) = tdepth D (fst kv)) /\
      (lib_supports_t D (snd kv) /\ go_of_t D (data_of (snd kv)) = go_of D (data_of (snd kv)) /\ tdepth_t D (snd kv) = tdepth D (snd kv))).
    { rewrite Forall_forall in *. intros kv Hkv. destruct (H kv Hkv) as [H1 H2]. destruct (Hsl kv Hkv). split; auto. }
    cbn [lib_supports_t data_of go_of go_of_t tdepth tdepth_t]. repeat split.
    + apply fix_Forall2. apply Forall_forall. intros kv Hkv. destruct (A kv Hkv) as [(? & _) (? & _)]. split; assumption.
    + apply keys_compat; [intros kv Hkv; apply (A kv Hkv) | assumption].
    + assumption.
    + f_equal. rewrite !map_map. apply map_ext_in. intros kv Hkv. cbn [fst snd].
      destruct (A kv Hkv) as [(_ & E1 & _) (_ & E2 & _)]. rewrite E1, E2. reflexivity.
    + f_equal. apply (fold_max_ext (fun kv => Z.max (tdepth_t D (fst kv)) (tdepth_t D (snd kv))) (fun kv => Z.max (tdepth D (fst kv)) (tdepth D (snd kv)))).
      intros kv Hkv. destruct (A kv Hkv) as [(_ & _ & E1) (_ & _ & E2)]. rewrite E1, E2. reflexivity.
  - (* TMapI *)
    cbn [lib_supports] in Hs. destruct Hs as (Hsl & Hkeys & Hlen). apply fix_Forall2 in Hsl.
    assert (A : forall kv, In kv l ->
      (lib_supports_t D (fst kv) /\ go_of_t D (data_of (fst kv)) = go_of D (data_of (fst kv)) /\ tdepth_t D (fst kv) = tdepth D (fst kv)) /\
      (lib_supports_t D (snd kv) /\ go_of_t D (data_of (snd kv)) = go_of D (data_of (snd kv)) /\ tdepth_t D (snd kv) = tdepth D (snd kv))).
    { rewrite Forall_forall in *. intros kv Hkv. destruct (H kv Hkv) as [H1 H2]. destruct (Hsl kv Hkv). split; auto. }
    cbn [lib_supports_t data_of go_of go_of_t tdepth tdepth_t]. repeat split.
    + apply fix_Forall2. apply Forall_forall. intros kv Hkv. destruct (A kv Hkv) as [(? & _) (? & _)]. split; assumption.
    + apply keys_compat; [intros kv Hkv; apply (A kv Hkv) | assumption].
    + assumption.
    + f_equal. rewrite !map_map. apply map_ext_in. intros kv Hkv. cbn [fst snd].
      destruct (A kv Hkv) as [(_ & E1 & _) (_ & E2 & _)]. rewrite E1, E2. reflexivity.
    + f_equal. apply (fold_max_ext (fun kv => Z.max (tdepth_t D (fst kv)) (tdepth_t D (snd kv))) (fun kv => Z.max (tdepth D (fst kv)) (tdepth D (snd kv)))).
      intros kv Hkv. destruct (A kv Hkv) as [(_ & _ & E1) (_ & _ & E2)]. rewrite E1, E2. reflexivity.
  - (* TTag *)
    cbn [lib_supports] in Hs. destruct Hs as [Ht Hsv]. destruct (IHt Hsv) as (I1 & I2 & I3).
    cbn [lib_supports_t data_of go_of go_of_t tdepth tdepth_t].
    replace (t =? 0) with false by (symmetry; apply N.eqb_neq; lia).
    rewrite I2, I3. repeat split. left. split; assumption.
Qed.

Lemma cbor_in_t_lemma : forall (D : dopts) (t : wtree) (rest : list N),
  twf t -> lib_supports_t D t -> (tdepth_t D t < maxdepth D)%Z ->
  dec_naked D (fuel_for (ser t ++ rest)) (ser t ++ rest) = Ok (go_of_t D (data_of t), rest).
Proof.
  intros. unfold dec_naked. apply dec_ser; try assumption.
  all: try (unfold fuel_for; rewrite app_length; lia).
  all: lia.
Qed.

Lemma cbor_in_lemma : forall (D : dopts) (t : wtree) (rest : list N),
  twf t -> lib_supports D t -> (tdepth D t < maxdepth D)%Z ->
  dec_naked D (fuel_for (ser t ++ rest)) (ser t ++ rest) = Ok (go_of D (data_of t), rest).
Proof.
  intros D t rest Hw Hs Hd. destruct (compat_t D t Hs) as (C1 & C2 & C3).
  rewrite <- C2. apply cbor_in_t_lemma; [assumption | assumption | lia].
Qed.





Lemma spec_consistent_lemma : forall (t : wtree) (rest : list N),
  twf t -> spec_dec (spec_fuel (ser t ++ rest)) (ser t ++ rest) = Some (data_of t, rest).
Proof. intros t rest H. apply spec_ser; [assumption |]. unfold spec_fuel. rewrite app_length. lia. Qed.



(* ------------------------------------------------------------------ *)
(* the second parser (nextValueBytes) walks exactly one well-formed item *)
Definition skip_ok (D : dopts) (t : wtree) : Prop :=
  forall f d r rest, (2 * length (ser t) + 1 <= f)%nat -> (d + sdepth t < maxdepth D)%Z ->
  fst (skipw D f d r (ser t ++ rest)) = Ok rest.

Lemma skipw_S : forall D f' d r bd b1,
  skipw D (S f') d r (bd :: b1) = skip_body D f' (skipw D f') (skip_n D f') (skip_indef D f') d r bd b1.
Proof. reflexivity. Qed.
Lemma skip_n_S : forall D f' d r n b,
  skip_n D (S f') d r n b = if n =? 0 then (Ok b, r) else doI b1 <- skipw D f' d r b ;; skip_n D f' d r (n - 1) b1.
Proof. reflexivity. Qed.
Lemma skip_indef_S : forall D f' d r pairs bd b0,
  skip_indef D (S f') d r pairs (bd :: b0) =
  if bd =? bdBreak then (Ok b0, r)
  else doI b1 <- skipw D f' d r (bd :: b0) ;;
       doI b2 <- (if pairs then skipw D f' d r b1 else (Ok b1, r)) ;;
       skip_indef D f' d r pairs b2.
Proof. reflexivity. Qed.

Lemma fold_max_Forall {A} (g : A -> Z) : forall l d M,
  (d + fold_right (fun x m => Z.max (g x) m) 0 l < M)%Z -> Forall (fun x => (d + g x < M)%Z) l.
Proof. induction l; intros; constructor; simpl in H; [lia | apply IHl; lia]. Qed.

Lemma skip_n_ser : forall D l, Forall (skip_ok D) l ->
  forall f d r rest, (2 * length (flat_map ser l) + 2 <= f)%nat ->
  Forall (fun x => (d + sdepth x < maxdepth D)%Z) l ->
  fst (skip_n D f d r (N.of_nat (length l)) (flat_map ser l ++ rest)) = Ok rest.
Proof.
  intros D l H. induction H as [| x l Hx Hl IH]; intros f d r rest Hf Hd.
  - destruct f; [simpl in Hf; lia |]. reflexivity.
  - inversion Hd; subst. destruct f; [simpl in Hf; lia |]. rewrite skip_n_S.
    replace (N.of_nat (length (x :: l)) =? 0) with false by (symmetry; apply N.eqb_neq; cbn [length]; lia).
    cbn [flat_map] in *. rewrite app_length in Hf. rewrite <- app_assoc. pose proof (ser_len_pos x).
    erewrite fst_bindI by (apply Hx; [lia | assumption]).
    replace (N.of_nat (length (x :: l)) - 1) with (N.of_nat (length l)) by (cbn [length]; lia).
    apply IH; [lia | assumption].
Qed.

Lemma skip_indef_arr_ser : forall D l, Forall (skip_ok D) l -> Forall twf l ->
  forall f d r rest, (2 * length (flat_map ser l) + 2 <= f)%nat ->
  Forall (fun x => (d + sdepth x < maxdepth D)%Z) l ->
  fst (skip_indef D f d r false (flat_map ser l ++ 255 :: rest)) = Ok rest.
Proof.
  intros D l H. induction H as [| x l Hx Hl IH]; intros Hw f d r rest Hf Hd.
  - destruct f; [simpl in Hf; lia |]. reflexivity.
  - inversion Hd; subst. inversion Hw as [| ? ? Hwx Hwl]; subst.
    destruct f; [simpl in Hf; lia |].
    cbn [flat_map] in *. rewrite app_length in Hf. rewrite <- app_assoc. pose proof (ser_len_pos x).
    destruct (ser_hd x Hwx) as (bd & tl & E & Hne).
    assert (E2 : ser x ++ flat_map ser l ++ 255 :: rest = bd :: (tl ++ flat_map ser l ++ 255 :: rest)) by (rewrite E; reflexivity).
    rewrite E2. rewrite skip_indef_S.
    replace (bd =? bdBreak) with false by (symmetry; apply N.eqb_neq; exact Hne).
    rewrite <- E2.
    erewrite fst_bindI by (apply Hx; [lia | assumption]).
    erewrite fst_bindI by reflexivity.
    apply IH; [assumption | lia | assumption].
Qed.

Lemma skip_indef_map_ser : forall D l, Forall (fun kv => skip_ok D (fst kv) /\ skip_ok D (snd kv)) l ->
  Forall (fun kv => twf (fst kv) /\ twf (snd kv)) l ->
  forall f d r rest, (2 * length (flat_map pair_ser l) + 2 <= f)%nat ->
  Forall (fun kv => (d + sdepth (fst kv) < maxdepth D)%Z /\ (d + sdepth (snd kv) < maxdepth D)%Z) l ->
  fst (skip_indef D f d r true (flat_map pair_ser l ++ 255 :: rest)) = Ok rest.
Proof.
  intros D l H. induction H as [| kv l [Hk Hv] Hl IH]; intros Hw f d r rest Hf Hd.
  - destruct f; [simpl in Hf; lia |]. reflexivity.
  - inversion Hd as [| ? ? [Hd1 Hd2] Hd']; subst. inversion Hw as [| ? ? [Hwk Hwv] Hwl]; subst.
    destruct f; [simpl in Hf; lia |].
    cbn [flat_map] in *. unfold pair_ser at 1 in Hf. unfold pair_ser at 1.
    rewrite !app_length in Hf. rewrite <- !app_assoc.
    pose proof (ser_len_pos (fst kv)). pose proof (ser_len_pos (snd kv)).
    destruct (ser_hd (fst kv) Hwk) as (bd & tl & E & Hne).
    assert (E2 : ser (fst kv) ++ ser (snd kv) ++ flat_map pair_ser l ++ 255 :: rest
                 = bd :: (tl ++ ser (snd kv) ++ flat_map pair_ser l ++ 255 :: rest)) by (rewrite E; reflexivity).
    rewrite E2. rewrite skip_indef_S.
    replace (bd =? bdBreak) with false by (symmetry; apply N.eqb_neq; exact Hne).
    rewrite <- E2.
    erewrite fst_bindI by (apply Hk; [lia | assumption]).
    erewrite fst_bindI by (apply Hv; [lia | assumption]).
    apply IH; [assumption | lia | assumption].
Qed.

Lemma skip_chunks_ser : forall mt cs,
  Forall (fun c => fits (fst c) (N.of_nat (length (snd c))) /\ bytes_ok (snd c)) cs ->
  forall f rest, (length cs + 1 <= f)%nat ->
  skip_chunks f (flat_map (chunk_ser mt) cs ++ 255 :: rest) = Ok rest.
Proof.
  intros mt cs H. induction H as [| c cs [Hfit _] Hcs IH]; intros f rest Hf.
  - destruct f; [simpl in Hf; lia |]. reflexivity.
  - destruct f; [simpl in Hf; lia |].
    cbn [flat_map]. unfold chunk_ser at 1. rewrite shead_cons. rewrite <- !app_assoc. cbn [app skip_chunks].
    pose proof (ai_of_le _ _ Hfit) as Hai.
    rewrite (head_neq mt _ bdBreak) by (assumption || reflexivity).
    rewrite hd_mod by lia. rewrite uint_bytes_head by assumption. cbn [bind].
    rewrite rskip_app. cbn [bind].
    apply IH. simpl in Hf. lia.
Qed.

Lemma pairs_flat : forall l : list (wtree * wtree),
  flat_map pair_ser l = flat_map ser (flat_map (fun kv => [fst kv; snd kv]) l).
Proof. induction l; cbn [flat_map app]; [reflexivity |]. unfold pair_ser at 1. rewrite IHl, <- app_assoc. reflexivity. Qed.

Lemma pairs_flat_len : forall l : list (wtree * wtree), length (flat_map (fun kv => [fst kv; snd kv]) l) = (2 * length l)%nat.
Proof. induction l; cbn [flat_map app length]; [reflexivity | rewrite IHl; lia]. Qed.

Theorem skip_ser : forall D t, twf t -> skippable t -> skip_ok D t.
Proof.
  intros D t. induction t using wtree_ind'; intros Hw Hs f d r rest Hf Hd; (destruct f as [| f']; [exfalso; lia |]).
  - cbn [ser twf] in *. rewrite shead_cons. cbn [app]. rewrite skipw_S. unfold skip_body.
    pose proof (ai_of_le _ _ Hw). rewrite kind_head, hd_mod by lia. rewrite (proj1 kind_vals). cbv iota.
    rewrite fst_liftI, uint_bytes_head by assumption. reflexivity.
  - cbn [ser twf] in *. rewrite shead_cons. cbn [app]. rewrite skipw_S. unfold skip_body.
    pose proof (ai_of_le _ _ Hw). rewrite kind_head, hd_mod by lia. rewrite (proj1 (proj2 kind_vals)). cbv iota.
    rewrite fst_liftI, uint_bytes_head by assumption. reflexivity.
  - cbn [ser twf] in *. destruct Hw as [Hw _]. rewrite shead_cons. rewrite <- app_assoc. cbn [app]. rewrite skipw_S. unfold skip_body.
    pose proof (ai_of_le _ _ Hw). rewrite kind_head by lia. rewrite (proj1 (proj2 (proj2 kind_vals))). cbv iota.
    rewrite (head_neq 2 _ bdIndefBytes), (head_neq 2 _ bdIndefString) by (assumption || reflexivity). cbn [orb].
    rewrite hd_mod by lia. rewrite fst_liftI, uint_bytes_head by assumption. cbn [bind]. apply rskip_app.
  - cbn [ser twf] in *. cbn [app]. rewrite skipw_S. unfold skip_body.
    change (kind_of 95) with KBytes. cbv iota. change ((95 =? bdIndefBytes) || (95 =? bdIndefString)) with true. cbv iota.
    rewrite fst_liftI.
    change (flat_map (fun c => shead 2 (fst c) (N.of_nat (length (snd c))) ++ snd c) cs) with (flat_map (chunk_ser 2) cs).
    rewrite <- app_assoc. cbn [app]. apply skip_chunks_ser; [assumption |].
    rewrite !app_length in Hf. cbn [length] in Hf.
    assert (length cs <= length (flat_map (fun c => shead 2 (fst c) (N.of_nat (length (snd c))) ++ snd c) cs))%nat
      by (apply flat_len_ge; intros; rewrite shead_cons; cbn [app length]; lia).
    lia.
  - cbn [ser twf] in *. destruct Hw as [Hw _]. rewrite shead_cons. rewrite <- app_assoc. cbn [app]. rewrite skipw_S. unfold skip_body.
    pose proof (ai_of_le _ _ Hw). rewrite kind_head by lia. rewrite (proj1 (proj2 (proj2 (proj2 kind_vals)))). cbv iota.
    rewrite (head_neq 3 _ bdIndefBytes), (head_neq 3 _ bdIndefString) by (assumption || reflexivity). cbn [orb].
    rewrite hd_mod by lia. rewrite fst_liftI, uint_bytes_head by assumption. cbn [bind]. apply rskip_app.
  - cbn [ser twf] in *. cbn [app]. rewrite skipw_S. unfold skip_body.
    change (kind_of 127) with KText. cbv iota. change ((127 =? bdIndefBytes) || (127 =? bdIndefString)) with true. cbv iota.
    rewrite fst_liftI.
    change (flat_map (fun c => shead 3 (fst c) (N.of_nat (length (snd c))) ++ snd c) cs) with (flat_map (chunk_ser 3) cs).
    rewrite <- app_assoc. cbn [app]. apply skip_chunks_ser; [assumption |].
    rewrite !app_length in Hf. cbn [length] in Hf.
    assert (length cs <= length (flat_map (fun c => shead 3 (fst c) (N.of_nat (length (snd c))) ++ snd c) cs))%nat
      by (apply flat_len_ge; intros; rewrite shead_cons; cbn [app length]; lia).
    lia.
  - (* TArr *)
    cbn [ser twf skippable sdepth] in *. destruct Hw as [Hw Hwl]. apply fix_Forall in Hwl. apply fix_Forall in Hs.
    assert (Hok : Forall (skip_ok D) l) by (rewrite Forall_forall in *; intros x Hx; apply H; auto).
    rewrite shead_cons. rewrite <- app_assoc. cbn [app]. rewrite skipw_S. unfold skip_body.
    pose proof (ai_of_le _ _ Hw). rewrite kind_head by lia. rewrite (proj1 (proj2 (proj2 (proj2 (proj2 kind_vals))))). cbv iota.
    pose proof (fold_max_nonneg sdepth l) as Hnn.
    replace (depth_ok D d) with true by (symmetry; unfold depth_ok; apply Z.ltb_lt; lia). cbn [negb].
    rewrite (head_neq 4 _ bdIndefArray) by (assumption || reflexivity).
    rewrite hd_mod by lia.
    erewrite fst_bindI by (rewrite fst_liftI; apply uint_bytes_head; assumption). cbv beta iota.
    rewrite app_length, shead_cons in Hf. cbn [length] in Hf.
    apply skip_n_ser; [assumption | lia | apply fold_max_Forall; lia].
  - (* TArrI *)
    cbn [ser twf skippable sdepth] in *. apply fix_Forall in Hw. apply fix_Forall in Hs.
    assert (Hok : Forall (skip_ok D) l) by (rewrite Forall_forall in *; intros x Hx; apply H; auto).
    cbn [app]. rewrite skipw_S. unfold skip_body.
    change (kind_of 159) with KArr. cbv iota.
    pose proof (fold_max_nonneg sdepth l) as Hnn.
    replace (depth_ok D d) with true by (symmetry; unfold depth_ok; apply Z.ltb_lt; lia). cbn [negb].
    change (159 =? bdIndefArray) with true. cbv iota.
    rewrite !app_length in Hf. cbn [length] in Hf. rewrite <- app_assoc. cbn [app].
    apply skip_indef_arr_ser; [assumption | assumption | lia | apply fold_max_Forall; lia].
  - (* TMap *)
    cbn [ser twf skippable sdepth] in *. destruct Hw as [Hw Hwl]. apply fix_Forall2 in Hwl. apply fix_Forall2 in Hs.
    assert (Hok : Forall (skip_ok D) (flat_map (fun kv => [fst kv; snd kv]) l)).
    { rewrite Forall_forall in *. intros x Hx. apply in_flat_map in Hx. destruct Hx as (kv & Hkv & Hx).
      specialize (H kv Hkv). specialize (Hwl kv Hkv). specialize (Hs kv Hkv).
      destruct Hx as [Hx | [Hx | []]]; subst x; [apply (proj1 H) | apply (proj2 H)]; tauto. }
    rewrite shead_cons. rewrite <- app_assoc. cbn [app]. rewrite skipw_S. unfold skip_body.
    pose proof (ai_of_le _ _ Hw). rewrite kind_head by lia. rewrite (proj1 (proj2 (proj2 (proj2 (proj2 (proj2 kind_vals)))))). cbv iota.
    pose proof (fold_max_nonneg (fun kv => Z.max (sdepth (fst kv)) (sdepth (snd kv))) l) as Hnn.
    replace (depth_ok D d) with true by (symmetry; unfold depth_ok; apply Z.ltb_lt; lia). cbn [negb].
    rewrite (head_neq 5 _ bdIndefMap) by (assumption || reflexivity).
    rewrite hd_mod by lia.
    erewrite fst_bindI by (rewrite fst_liftI; apply uint_bytes_head; assumption). cbv beta iota.
    rewrite app_length, shead_cons in Hf. cbn [length] in Hf.
    change (flat_map (fun kv => ser (fst kv) ++ ser (snd kv)) l) with (flat_map pair_ser l) in *.
    rewrite pairs_flat in *.
    replace (2 * N.of_nat (length l)) with (N.of_nat (length (flat_map (fun kv => [fst kv; snd kv]) l))) by (rewrite pairs_flat_len; lia).
    apply skip_n_ser; [assumption | lia |].
    assert (Hd' : Forall (fun kv => ((d + 1) + Z.max (sdepth (fst kv)) (sdepth (snd kv)) < maxdepth D)%Z) l)
      by (apply fold_max_Forall; lia).
    rewrite Forall_forall in *. intros x Hx. apply in_flat_map in Hx. destruct Hx as (kv & Hkv & Hx).
    specialize (Hd' kv Hkv). destruct Hx as [Hx | [Hx | []]]; subst x; lia.
  - (* TMapI *)
    cbn [ser twf skippable sdepth] in *. apply fix_Forall2 in Hw. apply fix_Forall2 in Hs.
    assert (Hok : Forall (fun kv => skip_ok D (fst kv) /\ skip_ok D (snd kv)) l).
    { rewrite Forall_forall in *. intros x Hx. specialize (H x Hx). specialize (Hw x Hx). specialize (Hs x Hx). split; [apply (proj1 H) | apply (proj2 H)]; tauto. }
    cbn [app]. rewrite skipw_S. unfold skip_body.
    change (kind_of 191) with KMap. cbv iota.
    pose proof (fold_max_nonneg (fun kv => Z.max (sdepth (fst kv)) (sdepth (snd kv))) l) as Hnn.
    replace (depth_ok D d) with true by (symmetry; unfold depth_ok; apply Z.ltb_lt; lia). cbn [negb].
    change (191 =? bdIndefMap) with true. cbv iota.
    rewrite !app_length in Hf. cbn [length] in Hf. rewrite <- app_assoc. cbn [app].
    change (flat_map (fun kv => ser (fst kv) ++ ser (snd kv)) l) with (flat_map pair_ser l) in *.
    apply skip_indef_map_ser; [assumption | assumption | lia |].
    assert (Hd' : Forall (fun kv => ((d + 1) + Z.max (sdepth (fst kv)) (sdepth (snd kv)) < maxdepth D)%Z) l)
      by (apply fold_max_Forall; lia).
    rewrite Forall_forall in *. intros x Hx. specialize (Hd' x Hx). lia.
  - (* TTag *)
    cbn [ser twf skippable sdepth] in *. destruct Hw as [Hw Hwv].
    rewrite shead_cons. rewrite <- app_assoc. cbn [app]. rewrite skipw_S. unfold skip_body.
    pose proof (ai_of_le _ _ Hw). rewrite kind_head by lia.
    rewrite (proj1 (proj2 (proj2 (proj2 (proj2 (proj2 (proj2 kind_vals))))))). cbv iota.
    rewrite hd_mod by lia.
    erewrite fst_bindI by (rewrite fst_liftI; apply uint_bytes_head; assumption). cbv beta iota.
    assert (Hnn : (0 <= sdepth t0)%Z).
    { clear. induction t0 using wtree_ind'; cbn [sdepth]; try lia.
      - pose proof (fold_max_nonneg sdepth l). lia.
      - pose proof (fold_max_nonneg sdepth l). lia.
      - pose proof (fold_max_nonneg (fun kv => Z.max (sdepth (fst kv)) (sdepth (snd kv))) l). lia.
      - pose proof (fold_max_nonneg (fun kv => Z.max (sdepth (fst kv)) (sdepth (snd kv))) l). lia. }
    replace (depth_ok D d) with true by (symmetry; unfold depth_ok; apply Z.ltb_lt; lia). cbn [negb].
    rewrite app_length, shead_cons in Hf. cbn [length] in Hf.
    apply IHt; [assumption | assumption | lia | lia].
  - (* TSimple *)
    cbn [ser twf skippable] in *. cbn [app]. rewrite skipw_S. unfold skip_body.
    assert (C : v = 20 \/ v = 21 \/ v = 22 \/ v = 23) by lia.
    destruct C as [C | [C | [C | C]]]; subst v; reflexivity.
  - cbn [skippable] in Hs. contradiction.
  - cbn [ser twf] in *. cbn [app]. rewrite skipw_S. unfold skip_body.
    change (kind_of 249) with KSimple. cbv iota. unfold skip_simple.
    change ((249 =? bdNil) || (249 =? bdUndefined) || (249 =? bdFalse) || (249 =? bdTrue)) with false.
    change (249 =? bdFloat16) with true. cbv iota. rewrite fst_liftI. apply (rskip_sbe 2).
  - cbn [ser twf] in *. cbn [app]. rewrite skipw_S. unfold skip_body.
    change (kind_of 250) with KSimple. cbv iota. unfold skip_simple.
    change ((250 =? bdNil) || (250 =? bdUndefined) || (250 =? bdFalse) || (250 =? bdTrue)) with false.
    change (250 =? bdFloat16) with false. change (250 =? bdFloat32) with true. cbv iota. rewrite fst_liftI. apply (rskip_sbe 4).
  - cbn [ser twf] in *. cbn [app]. rewrite skipw_S. unfold skip_body.
    change (kind_of 251) with KSimple. cbv iota. unfold skip_simple.
    change ((251 =? bdNil) || (251 =? bdUndefined) || (251 =? bdFalse) || (251 =? bdTrue)) with false.
    change (251 =? bdFloat16) with false. change (251 =? bdFloat32) with false. change (251 =? bdFloat64) with true. cbv iota.
    rewrite fst_liftI. apply (rskip_sbe 8).
Qed.



Lemma skip_ser_lemma : forall (D : dopts) (t : wtree) (d : Z) (rest : list N),
  twf t -> skippable t -> (d + sdepth t < maxdepth D)%Z ->
  skip D (fuel_for (ser t ++ rest)) d (ser t ++ rest) = Ok rest.
Proof.
  intros. unfold skip. apply skip_ser; try assumption.
  unfold fuel_for. rewrite app_length. lia.
Qed.



(* Wire/CborProofs — lemmas about the cbor model (Wire/Cbor.v). *)
From Coq Require Import List NArith ZArith Lia Bool Arith.
From Coq Require Import ZifyN ZifyNat ZifyBool.
From Verif Require Import Base.Outcome Wire.Item Gen.Consts Wire.CborFloat Wire.Cbor C10.CborSpec.
Import ListNotations.
Open Scope N_scope.

(* ------------------------------------------------------------------ *)
(* all 65536 half floats *)
Definition half_ok (h : N) : bool := half_to_f32 h =? spec_half h.

Lemma half_sweep :
  forallb (fun hi => forallb (fun lo => half_ok (N.of_nat hi * 256 + N.of_nat lo)) (seq 0 256)) (seq 0 256) = true.
Proof. vm_compute. reflexivity. Qed.

Lemma half_all : forall h, h < 65536 -> half_to_f32 h = spec_half h.
Proof.
  intros h Hh. pose proof half_sweep as S.
  rewrite forallb_forall in S.
  specialize (S (N.to_nat (h / 256))).
  assert (Hin : In (N.to_nat (h / 256)) (seq 0 256)).
  { apply in_seq. assert (h / 256 < 256) by (apply N.div_lt_upper_bound; lia). lia. }
  specialize (S Hin). rewrite forallb_forall in S.
  specialize (S (N.to_nat (h mod 256))).
  assert (Hin2 : In (N.to_nat (h mod 256)) (seq 0 256)).
  { apply in_seq. assert (h mod 256 < 256) by (apply N.mod_lt; lia). lia. }
  specialize (S Hin2). unfold half_ok in S.
  rewrite !N2Nat.id in S.
  replace (h / 256 * 256 + h mod 256) with h in S.
  - apply N.eqb_eq in S. exact S.
  - rewrite N.mul_comm. apply N.div_mod. lia.
Qed.

(* Wire/CborEnc — the encoder side: every encoding is one of the well-formed serialisations
   (enc O i = ser (tree_of O i)), including OptimumSize float narrowing and both time forms;
   consequences for the spec decoder, the library decoder and the skip walker. *)
From Coq Require Import List NArith ZArith Lia Bool Arith.
From Coq Require Import ZifyN ZifyNat ZifyBool.
From Verif Require Import Base.Outcome Wire.Item Gen.Consts Wire.CborFloat Wire.Cbor C10.CborSpec C10.CborConv Wire.CborProofs Wire.CborTime.
Import ListNotations.
Open Scope N_scope.

(* ---- the data an item carries, read off the item alone ---- *)
Definition int_data (z : Z) : sdata := if (z <? 0)%Z then DNint (Z.to_N (-1 - z)) else DUint (Z.to_N z).

Fixpoint sdata_of (O : eopts) (i : item) : sdata :=
  match i with
  | INil => DSimple 22
  | IBool b => DSimple (if b then 21 else 20)
  | IInt z => int_data z
  | IUint n => DUint n
  | IF32 b => DFloat 32 b
  | IF64 b => DFloat 64 b
  | IStr s => if eo_str2raw O then DBytes s else DText s      (* StringToRaw: documented *)
  | IBytes s => DBytes s
  | IArr l => DArr (map (sdata_of O) l)
  | IMap l => DMap (map (fun kv => (sdata_of O (fst kv), sdata_of O (snd kv))) l)
  | ITag t v => DTag t (sdata_of O v)
  | IExt _ _ => DSimple 22
  | ITime s n =>
      (* the zero time is null; otherwise tag 0 with the RFC 3339 text, or tag 1 with the epoch seconds of
         the instant rounded to the microsecond (an integer, or sec + nsec/1e9 evaluated in binary64) *)
      if (s =? zero_time_sec)%Z && (n =? 0) then DSimple 22
      else if eo_rfc3339 O then DTag 0 (DText (fmt_rfc3339 s n))
      else let '(s1, n1) := round_us s n in
           DTag 1 (if n1 =? 0 then int_data s1
                   else DFloat 64 (f64_add (f64_of_Z s1) (f64_div (f64_of_Z (Z.of_N n1)) f64_1e9)))
  end.

Definition norm (O : eopts) (D : dopts) (i : item) : item := go_of D (sdata_of O i).

(* ---- floats ---- *)
Lemma round_bin_le : forall p qmin ebits sig ex,
  round_bin p qmin ebits sig ex <= N.shiftl (2 ^ ebits - 1) (Z.to_N (p - 1)).
Proof.
  intros. unfold round_bin. destruct (sig =? 0); [lia |]. cbv zeta.
  match goal with |- (if ?c then _ else _) <= _ => destruct c eqn:E end; [lia | apply N.leb_gt in E; lia].
Qed.
Lemma round64_le : forall sig ex, round64 sig ex <= 9218868437227405312.
Proof. intros. exact (round_bin_le 53 (-1074) 11 sig ex). Qed.
Lemma round32_le : forall sig ex, round32 sig ex <= 2139095040.
Proof. intros. exact (round_bin_le 24 (-149) 8 sig ex). Qed.

Lemma f64_eq_not_nan : forall a b, f64_eq a b = true -> f64_is_nan b = false.
Proof.
  intros a b H. unfold f64_eq in H. apply andb_prop in H. destruct H as [H _].
  apply andb_prop in H. destruct H as [_ H]. destruct (f64_is_nan b); [discriminate | reflexivity].
Qed.

Lemma narrow_lt : forall b, f64_is_nan b = false -> narrow b < 4294967296.
Proof.
  intros b H. unfold narrow. rewrite H.
  destruct (f64_is_inf b); destruct (f64_sign b); try lia;
    pose proof (round32_le (f64_sig b) (f64_ex b)); lia.
Qed.

Lemma sign64_le : forall n, sign64 n <= 9223372036854775808.
Proof. destruct n; cbn; lia. Qed.

Lemma f64_add_lt : forall a b, f64_add a b < 18446744073709551616.
Proof.
  intros. unfold f64_add. cbv zeta.
  match goal with |- (if ?c then _ else _) < _ => destruct c end.
  - destruct (f64_sign a && f64_sign b); cbn; lia.
  - match goal with |- sign64 ?n + round64 ?s ?e < _ => pose proof (sign64_le n); pose proof (round64_le s e) end. lia.
Qed.

Lemma zero_bits : forall b, b < 18446744073709551616 -> f64_exp b = 0 -> f64_sig b = 0 ->
  b = 0 \/ b = 9223372036854775808.
Proof.
  intros b Hb He Hs. unfold f64_sig in Hs. rewrite He in Hs. cbn [N.eqb] in Hs.
  unfold f64_man in Hs. change 4503599627370495 with (N.ones 52) in Hs. rewrite N.land_ones in Hs.
  unfold f64_exp in He. change 2047 with (N.ones 11) in He. rewrite N.land_ones, N.shiftr_div_pow2 in He.
  change (2 ^ 52) with 4503599627370496 in *. change (2 ^ 11) with 2048 in He.
  pose proof (N.div_mod' b 4503599627370496).
  pose proof (N.div_mod' (b / 4503599627370496) 2048).
  assert (b / 4503599627370496 < 4096) by (apply N.div_lt_upper_bound; lia).
  assert (b / 4503599627370496 / 2048 < 2) by (apply N.div_lt_upper_bound; lia).
  lia.
Qed.

Lemma f64_eq_same : forall b, b < 18446744073709551616 -> f64_eq (widen (narrow b)) b = true -> widen (narrow b) = b.
Proof.
  intros b Hb H. unfold f64_eq in H. apply andb_prop in H. destruct H as [_ H].
  apply orb_prop in H. destruct H as [H | H]; [apply N.eqb_eq in H; exact H |].
  apply andb_prop in H. destruct H as [H He]. apply andb_prop in H. destruct H as [H _].
  apply andb_prop in H. destruct H as [_ Hs].
  apply N.eqb_eq in He. apply N.eqb_eq in Hs.
  destruct (zero_bits b Hb He Hs) as [-> | ->]; vm_compute; reflexivity.
Qed.

Lemma enc_f32_ser : forall (O : eopts) (b : N), enc_f32 O b = ser (f32_tree O b).
Proof.
  intros. unfold enc_f32, f32_tree. destruct (eo_optsize O && (half_to_f32 (f32_to_half b) =? b));
    cbn [ser]; rewrite be_put_sbe; reflexivity.
Qed.
Lemma enc_f64_ser : forall (O : eopts) (b : N), enc_f64 O b = ser (f64_tree O b).
Proof.
  intros. unfold enc_f64, f64_tree. destruct (eo_optsize O && f64_eq (widen (narrow b)) b).
  - apply enc_f32_ser.
  - cbn [ser]. rewrite be_put_sbe. reflexivity.
Qed.

Lemma f32_to_half_lt : forall b, f32_to_half b < 65536.
Proof. intros. unfold f32_to_half. cbv zeta. apply N.mod_lt. lia. Qed.

Lemma f32_tree_twf : forall (O : eopts) (b : N), b < 4294967296 -> twf (f32_tree O b).
Proof. intros. unfold f32_tree. destruct (eo_optsize O && _); cbn [twf]; [apply f32_to_half_lt | assumption]. Qed.
Lemma f64_tree_twf : forall (O : eopts) (b : N), b < 18446744073709551616 -> twf (f64_tree O b).
Proof.
  intros O b Hb. unfold f64_tree. destruct (eo_optsize O && f64_eq (widen (narrow b)) b) eqn:E.
  - apply andb_prop in E. destruct E as [_ E]. apply f32_tree_twf. apply narrow_lt. eapply f64_eq_not_nan; eassumption.
  - cbn [twf]. assumption.
Qed.

Lemma f32_tree_data : forall (O : eopts) (b : N), fnorm (data_of (f32_tree O b)) = DFloat 64 (widen b).
Proof.
  intros. unfold f32_tree. destruct (eo_optsize O && (half_to_f32 (f32_to_half b) =? b)) eqn:E; cbn [data_of fnorm N.eqb Pos.eqb].
  - apply andb_prop in E. destruct E as [_ E]. apply N.eqb_eq in E.
    rewrite <- half_all by apply f32_to_half_lt. rewrite E. reflexivity.
  - reflexivity.
Qed.
Lemma f64_tree_data : forall (O : eopts) (b : N), b < 18446744073709551616 -> fnorm (data_of (f64_tree O b)) = DFloat 64 b.
Proof.
  intros O b Hb. unfold f64_tree. destruct (eo_optsize O && f64_eq (widen (narrow b)) b) eqn:E.
  - apply andb_prop in E. destruct E as [_ E]. rewrite f32_tree_data. rewrite f64_eq_same by assumption. reflexivity.
  - reflexivity.
Qed.

(* ---- times ---- *)
Lemma length_digits : forall k v, length (digits k v) = k.
Proof. induction k; intros; cbn [digits]; [reflexivity | rewrite app_length, IHk; simpl; lia]. Qed.
Lemma digits_ok : forall k v, bytes_ok (digits k v).
Proof.
  induction k; intros; cbn [digits]; [constructor |]. apply Forall_app. split; [apply IHk |].
  constructor; [| constructor]. pose proof (N.mod_lt v 10). lia.
Qed.
Lemma trim0_le : forall k v, (fst (trim0 k v) <= k)%nat.
Proof. induction k; intros; cbn [trim0]; [simpl; lia |]. destruct (v mod 10 =? 0); [specialize (IHk (v / 10)); lia | simpl; lia]. Qed.

Lemma fmt_ok : forall sec nsec, bytes_ok (fmt_rfc3339 sec nsec) /\ (length (fmt_rfc3339 sec nsec) <= 40)%nat.
Proof.
  intros. unfold fmt_rfc3339. destruct (civil (sec / 86400)) as [[y m] d].
  pose proof (trim0_le 9 nsec) as Ht. destruct (trim0 9 nsec) as [k v]. cbn [fst] in Ht.
  set (frac := match k with O => [] | S _ => 46 :: digits k v end).
  assert (Hf : bytes_ok frac /\ (length frac <= 10)%nat).
  { subst frac. destruct k; [split; [constructor | simpl; lia] |].
    split; [constructor; [lia | apply digits_ok] | cbn [length]; rewrite length_digits; lia]. }
  destruct Hf as [Hf1 Hf2].
  split.
  - unfold bytes_ok. repeat (apply Forall_app; split); try apply digits_ok; try assumption;
      try (constructor; [lia | constructor]); try constructor.
  - rewrite !app_length, !length_digits. cbn [length]. lia.
Qed.

Lemma round_us_range : forall sec nsec s1 n1,
  (- 9223372036854775808 <= sec < 9223372036854775807)%Z -> round_us sec nsec = (s1, n1) ->
  (- 9223372036854775808 <= s1 < 9223372036854775808)%Z.
Proof.
  intros sec nsec s1 n1 H E. unfold round_us in E. cbv zeta in E.
  match type of E with (if ?c then _ else _) = _ => destruct c end; inversion E; subst; lia.
Qed.

Lemma int_tree_twf : forall z, (- 9223372036854775808 <= z < 9223372036854775808)%Z -> twf (int_tree z).
Proof. intros. unfold int_tree. destruct (z <? 0)%Z; cbn [twf]; apply minw_fits; lia. Qed.
Lemma enc_int_ser : forall z, enc_int z = ser (int_tree z).
Proof.
  intros. unfold enc_int, int_tree. destruct (z <? 0)%Z; cbn [ser].
  - change baseNegInt with (1 * 32). apply enc_head_shead. lia.
  - change baseUint with (0 * 32). apply enc_head_shead. lia.
Qed.
Lemma int_tree_data : forall z, data_of (int_tree z) = int_data z.
Proof. intros. unfold int_tree, int_data. destruct (z <? 0)%Z; reflexivity. Qed.

Lemma enc_time_ser : forall (O : eopts) sec nsec, enc_time O sec nsec = ser (time_tree O sec nsec).
Proof.
  intros. unfold enc_time, time_tree.
  destruct ((sec =? zero_time_sec)%Z && (nsec =? 0)); [reflexivity |].
  destruct (eo_rfc3339 O).
  - cbn [ser]. rewrite <- (enc_str_ser O true). reflexivity.
  - destruct (round_us sec nsec) as [s1 n1]. cbn [ser].
    destruct (n1 =? 0); [rewrite enc_int_ser | rewrite enc_f64_ser]; reflexivity.
Qed.

Lemma time_tree_twf : forall (O : eopts) sec nsec,
  (- 9223372036854775808 <= sec < 9223372036854775807)%Z -> twf (time_tree O sec nsec).
Proof.
  intros O sec nsec H. unfold time_tree.
  destruct ((sec =? zero_time_sec)%Z && (nsec =? 0)); [cbn; lia |].
  destruct (eo_rfc3339 O).
  - cbn [twf]. split; [cbn; lia |]. destruct (fmt_ok sec nsec) as [H1 H2]. apply str_tree_twf; [assumption | lia].
  - destruct (round_us sec nsec) as [s1 n1] eqn:E. cbn [twf]. split; [cbn; lia |].
    destruct (n1 =? 0).
    + apply int_tree_twf. eapply round_us_range; eassumption.
    + apply f64_tree_twf. apply f64_add_lt.
Qed.

Lemma time_tree_data : forall (O : eopts) sec nsec,
  fnorm (data_of (time_tree O sec nsec)) = fnorm (sdata_of O (ITime sec nsec)).
Proof.
  intros. unfold time_tree. cbn [sdata_of].
  destruct ((sec =? zero_time_sec)%Z && (nsec =? 0)); [reflexivity |].
  destruct (eo_rfc3339 O).
  - cbn [data_of]. rewrite str_tree_data. reflexivity.
  - destruct (round_us sec nsec) as [s1 n1]. cbn [data_of fnorm]. f_equal.
    destruct (n1 =? 0).
    + rewrite int_tree_data. unfold int_data. destruct (s1 <? 0)%Z; reflexivity.
    + rewrite f64_tree_data by apply f64_add_lt. reflexivity.
Qed.

(* ------------------------------------------------------------------ *)
Theorem enc_ser : forall (O : eopts) (i : item), plain i -> enc O i = ser (tree_of O i).
Proof.
  intros O i. induction i using item_ind'; intros Hp; cbn [enc tree_of plain] in *.
  - reflexivity.
  - destruct b; reflexivity.
  - apply enc_int_ser.
  - cbn [ser]. change baseUint with (0 * 32). apply enc_head_shead. lia.
  - apply enc_f32_ser.
  - apply enc_f64_ser.
  - destruct (eo_str2raw O); cbn [negb]; [apply (enc_str_ser O false) | apply (enc_str_ser O true)].
  - apply (enc_str_ser O false).
  - destruct Hp as [Hp Hlen]. apply fix_Forall in Hp.
    assert (E : flat_map (enc O) l = flat_map ser (map (tree_of O) l)).
    { rewrite flat_map_map. apply flat_map_ext_in. intros x Hx. rewrite Forall_forall in H, Hp. apply H; auto. }
    destruct l as [| x l'].
    + destruct (eo_indef O); reflexivity.
    + rewrite E. destruct (eo_indef O); cbn [ser].
      * reflexivity.
      * rewrite app_nil_r. change baseArray with (4 * 32). rewrite enc_head_shead by lia. rewrite map_length. reflexivity.
  - destruct Hp as [Hp Hlen]. apply fix_Forall2 in Hp.
    assert (E : flat_map (fun kv => enc O (fst kv) ++ enc O (snd kv)) l
                = flat_map (fun kv => ser (fst kv) ++ ser (snd kv)) (map (fun kv => (tree_of O (fst kv), tree_of O (snd kv))) l)).
    { rewrite flat_map_map. cbn [fst snd]. apply flat_map_ext_in. intros x Hx. rewrite Forall_forall in H, Hp.
      destruct (H x Hx) as [H1 H2]. destruct (Hp x Hx) as [P1 P2]. rewrite H1, H2 by assumption. reflexivity. }
    destruct l as [| x l'].
    + destruct (eo_indef O); reflexivity.
    + rewrite E. destruct (eo_indef O); cbn [ser].
      * reflexivity.
      * rewrite app_nil_r. change baseMap with (5 * 32). rewrite enc_head_shead by lia. rewrite map_length. reflexivity.
  - destruct Hp as [Ht Hp]. cbn [ser]. rewrite IHi by assumption. change baseTag with (6 * 32). rewrite enc_head_shead by lia. reflexivity.
  - contradiction.
  - apply enc_time_ser.
Qed.

Theorem tree_of_twf : forall (O : eopts) (i : item), wf i -> plain i -> twf (tree_of O i).
Proof.
  intros O i. induction i using item_ind'; intros Hw Hp; cbn [tree_of wf plain] in *.
  - cbn. lia.
  - destruct b; cbn; lia.
  - apply int_tree_twf. lia.
  - cbn [twf]. apply minw_fits; assumption.
  - apply f32_tree_twf. assumption.
  - apply f64_tree_twf. assumption.
  - apply str_tree_twf; assumption.
  - apply str_tree_twf; assumption.
  - destruct Hp as [Hp Hlen]. apply fix_Forall in Hp. apply fix_Forall in Hw.
    assert (Ht : Forall twf (map (tree_of O) l)).
    { apply Forall_map. rewrite Forall_forall in *. intros x Hx. apply H; auto. }
    destruct (eo_indef O); cbn [twf].
    + apply fix_Forall. assumption.
    + split; [rewrite map_length; apply minw_fits; assumption | apply fix_Forall; assumption].
  - destruct Hp as [Hp Hlen]. apply fix_Forall2 in Hp. apply wf_pairs_Forall in Hw.
    assert (Ht : Forall (fun kv => twf (fst kv) /\ twf (snd kv)) (map (fun kv => (tree_of O (fst kv), tree_of O (snd kv))) l)).
    { apply Forall_map. cbn [fst snd]. rewrite Forall_forall in *. intros x Hx.
      destruct (H x Hx), (Hw x Hx), (Hp x Hx). split; auto. }
    destruct (eo_indef O); cbn [twf].
    + apply fix_Forall2. assumption.
    + split; [rewrite map_length; apply minw_fits; assumption | apply fix_Forall2; assumption].
  - destruct Hp as [Ht Hp]. cbn [twf]. split; [apply minw_fits; assumption | apply IHi; assumption].
  - contradiction.
  - apply time_tree_twf. assumption.
Qed.

(* the data of the chosen form is the item's data, floats compared as values *)
Theorem tree_of_data : forall (O : eopts) (i : item), wf i -> plain i ->
  fnorm (data_of (tree_of O i)) = fnorm (sdata_of O i).
Proof.
  intros O i. induction i using item_ind'; intros Hw Hp; cbn [tree_of sdata_of plain wf] in *; try reflexivity.
  - rewrite int_tree_data. unfold int_data. destruct (z <? 0)%Z; reflexivity.
  - rewrite f32_tree_data. reflexivity.
  - rewrite f64_tree_data by assumption. reflexivity.
  - rewrite str_tree_data. destruct (eo_str2raw O); reflexivity.
  - rewrite str_tree_data. reflexivity.
  - destruct Hp as [Hp _]. apply fix_Forall in Hp. apply fix_Forall in Hw.
    assert (E : map fnorm (map data_of (map (tree_of O) l)) = map fnorm (map (sdata_of O) l)).
    { rewrite !map_map. apply map_ext_in. intros x Hx. rewrite Forall_forall in *. apply H; auto. }
    destruct (eo_indef O); cbn [data_of fnorm]; rewrite E; reflexivity.
  - destruct Hp as [Hp _]. apply fix_Forall2 in Hp. apply wf_pairs_Forall in Hw.
    assert (E : map (fun kv => (fnorm (fst kv), fnorm (snd kv)))
                  (map (fun kv => (data_of (fst kv), data_of (snd kv))) (map (fun kv => (tree_of O (fst kv), tree_of O (snd kv))) l))
                = map (fun kv => (fnorm (fst kv), fnorm (snd kv))) (map (fun kv => (sdata_of O (fst kv), sdata_of O (snd kv))) l)).
    { rewrite !map_map. cbn [fst snd]. apply map_ext_in. intros x Hx. rewrite Forall_forall in *.
      destruct (H x Hx) as [H1 H2], (Hp x Hx) as [P1 P2], (Hw x Hx) as [W1 W2]. rewrite H1, H2 by assumption. reflexivity. }
    destruct (eo_indef O); cbn [data_of fnorm]; rewrite E; reflexivity.
  - destruct Hp as [_ Hp]. cbn [data_of fnorm]. rewrite IHi by assumption. reflexivity.
  - apply time_tree_data.
Qed.

(* ---- go_of sees floats as values ---- *)
Section SdataInd.
  Variable P : sdata -> Prop.
  Hypothesis Hleaf : forall x, (match x with DArr _ | DMap _ | DTag _ _ => False | _ => True end) -> P x.
  Hypothesis Harr : forall l, Forall P l -> P (DArr l).
  Hypothesis Hmap : forall l, Forall (fun kv => P (fst kv) /\ P (snd kv)) l -> P (DMap l).
  Hypothesis Htag : forall t v, P v -> P (DTag t v).
  Fixpoint sdata_ind' (x : sdata) : P x :=
    match x with
    | DArr l => Harr l ((fix go (l : list sdata) : Forall P l :=
                           match l with [] => Forall_nil _ | y :: r => Forall_cons _ (sdata_ind' y) (go r) end) l)
    | DMap l => Hmap l ((fix go (l : list (sdata * sdata)) : Forall (fun kv => P (fst kv) /\ P (snd kv)) l :=
                           match l with
                           | [] => Forall_nil _
                           | kv :: r => Forall_cons kv (conj (sdata_ind' (fst kv)) (sdata_ind' (snd kv))) (go r)
                           end) l)
    | DTag t v => Htag t v (sdata_ind' v)
    | DUint n => Hleaf (DUint n) I
    | DNint n => Hleaf (DNint n) I
    | DBytes s => Hleaf (DBytes s) I
    | DText s => Hleaf (DText s) I
    | DSimple v => Hleaf (DSimple v) I
    | DFloat p b => Hleaf (DFloat p b) I
    end.
End SdataInd.

Lemma go_of_fnorm : forall D x, go_of D (fnorm x) = go_of D x.
Proof.
  intros D x. induction x using sdata_ind'.
  - destruct x; try contradiction; try reflexivity.
    cbn [fnorm]. destruct (prec =? 16) eqn:E1; [cbn [go_of]; rewrite E1; reflexivity |].
    destruct (prec =? 32) eqn:E2; [cbn [go_of]; rewrite E1, E2; reflexivity | reflexivity].
  - cbn [fnorm go_of]. rewrite map_map. f_equal. apply map_ext_in. intros y Hy. rewrite Forall_forall in H. apply H; assumption.
  - cbn [fnorm go_of]. rewrite map_map. f_equal. apply map_ext_in. intros kv Hkv. rewrite Forall_forall in H.
    destruct (H kv Hkv) as [H1 H2]. cbn [fst snd]. rewrite H1, H2. reflexivity.
  - cbn [fnorm go_of]. rewrite IHx. reflexivity.
Qed.

Theorem tree_of_skippable : forall (O : eopts) (i : item), plain i -> skippable (tree_of O i).
Proof.
  intros O i. induction i using item_ind'; intros Hp; cbn [tree_of plain] in *.
  - cbn. lia.
  - destruct b; cbn; lia.
  - unfold int_tree. destruct (z <? 0)%Z; exact I.
  - exact I.
  - unfold f32_tree. destruct (eo_optsize O && _); exact I.
  - unfold f64_tree, f32_tree. destruct (eo_optsize O && f64_eq _ _); [destruct (eo_optsize O && _) |]; exact I.
  - unfold str_tree. destruct (eo_indef O); destruct (negb (eo_str2raw O)); exact I.
  - unfold str_tree. destruct (eo_indef O); exact I.
  - destruct Hp as [Hp _]. apply fix_Forall in Hp.
    assert (Ht : Forall skippable (map (tree_of O) l)).
    { apply Forall_map. rewrite Forall_forall in *. intros x Hx. apply H; auto. }
    destruct (eo_indef O); cbn [skippable]; apply fix_Forall; assumption.
  - destruct Hp as [Hp _]. apply fix_Forall2 in Hp.
    assert (Ht : Forall (fun kv => skippable (fst kv) /\ skippable (snd kv)) (map (fun kv => (tree_of O (fst kv), tree_of O (snd kv))) l)).
    { apply Forall_map. cbn [fst snd]. rewrite Forall_forall in *. intros x Hx. destruct (H x Hx), (Hp x Hx). split; auto. }
    destruct (eo_indef O); cbn [skippable]; apply fix_Forall2; assumption.
  - destruct Hp as [_ Hp]. cbn [skippable]. apply IHi; assumption.
  - contradiction.
  - unfold time_tree. destruct ((s =? zero_time_sec)%Z && (n =? 0)); [cbn; lia |].
    destruct (eo_rfc3339 O).
    + cbn [skippable]. unfold str_tree. destruct (eo_indef O); exact I.
    + destruct (round_us s n) as [s1 n1]. cbn [skippable]. destruct (n1 =? 0).
      * unfold int_tree. destruct (s1 <? 0)%Z; exact I.
      * unfold f64_tree, f32_tree. destruct (eo_optsize O && f64_eq _ _); [destruct (eo_optsize O && _) |]; exact I.
Qed.

(* ------------------------------------------------------------------ *)
(* statements used by Properties/C10_cbor.v *)
Lemma cbor_out_lemma : forall (O : eopts) (i : item), wf i -> plain i ->
  exists d, spec_dec (spec_fuel (enc O i)) (enc O i) = Some (d, []) /\ fnorm d = fnorm (sdata_of O i).
Proof.
  intros O i Hw Hp. exists (data_of (tree_of O i)). split.
  - rewrite enc_ser by assumption.
    rewrite <- (app_nil_r (ser (tree_of O i))) at 2.
    apply spec_ser; [apply tree_of_twf; assumption | unfold spec_fuel; lia].
  - apply tree_of_data; assumption.
Qed.

Lemma enc_wellformed_lemma : forall (O : eopts) (i : item),
  wf i -> plain i -> enc O i = ser (tree_of O i) /\ twf (tree_of O i).
Proof. intros O i Hw Hp. split; [apply enc_ser; assumption | apply tree_of_twf; assumption]. Qed.

Lemma dec_enc_lemma : forall (O : eopts) (D : dopts) (i : item) (rest : list N),
  wf i -> plain i -> lib_supports D (tree_of O i) -> (tdepth D (tree_of O i) < maxdepth D)%Z ->
  dec_naked D (fuel_for (enc O i ++ rest)) (enc O i ++ rest) = Ok (norm O D i, rest).
Proof.
  intros O D i rest Hw Hp Hs Hd. rewrite enc_ser by assumption. unfold norm.
  rewrite <- (go_of_fnorm D (sdata_of O i)), <- tree_of_data by assumption. rewrite go_of_fnorm.
  apply cbor_in_lemma; try assumption. apply tree_of_twf; assumption.
Qed.

Lemma skip_enc_lemma : forall (O : eopts) (D : dopts) (i : item) (d : Z) (rest : list N),
  wf i -> plain i -> (d + sdepth (tree_of O i) < maxdepth D)%Z ->
  skip D (fuel_for (enc O i ++ rest)) d (enc O i ++ rest) = Ok rest.
Proof.
  intros O D i d rest Hw Hp Hd. rewrite enc_ser by assumption.
  apply skip_ser_lemma; [apply tree_of_twf | apply tree_of_skippable |]; assumption.
Qed.

(* a RawExt carrying Data is written as the tag followed by Data verbatim: well-formed iff Data is *)
Lemma ext_lemma : forall (O : eopts) (t : N) (t' : wtree),
  t < 18446744073709551616 -> enc O (IExt t (ser t')) = ser (TTag (minw t) t t').
Proof. intros. cbn [enc ser]. change baseTag with (6 * 32). rewrite enc_head_shead by lia. reflexivity. Qed.

(* ------------------------------------------------------------------ *)
(* the extended vocabulary (tag 0 = time): dec_enc including times written under TimeRFC3339 *)
Definition norm_t (O : eopts) (D : dopts) (i : item) : item := go_of_t D (sdata_of O i).

Lemma go_of_t_fnorm : forall D x, go_of_t D (fnorm x) = go_of_t D x.
Proof.
  intros D x. induction x using sdata_ind'.
  - destruct x; try contradiction; try reflexivity.
    cbn [fnorm]. destruct (prec =? 16) eqn:E1; [cbn [go_of_t]; rewrite E1; reflexivity |].
    destruct (prec =? 32) eqn:E2; [cbn [go_of_t]; rewrite E1, E2; reflexivity | reflexivity].
  - cbn [fnorm go_of_t]. rewrite map_map. f_equal. apply map_ext_in. intros y Hy. rewrite Forall_forall in H. apply H; assumption.
  - cbn [fnorm go_of_t]. rewrite map_map. f_equal. apply map_ext_in. intros kv Hkv. rewrite Forall_forall in H.
    destruct (H kv Hkv) as [H1 H2]. cbn [fst snd]. rewrite H1, H2. reflexivity.
  - cbn [fnorm go_of_t]. rewrite IHx. destruct (t =? 0); [| reflexivity].
    destruct x; try reflexivity. cbn [fnorm].
    destruct (prec =? 16); [reflexivity |]. destruct (prec =? 32); reflexivity.
Qed.

Lemma dec_enc_t_lemma : forall (O : eopts) (D : dopts) (i : item) (rest : list N),
  wf i -> plain i -> lib_supports_t D (tree_of O i) -> (tdepth_t D (tree_of O i) < maxdepth D)%Z ->
  dec_naked D (fuel_for (enc O i ++ rest)) (enc O i ++ rest) = Ok (norm_t O D i, rest).
Proof.
  intros O D i rest Hw Hp Hs Hd. rewrite enc_ser by assumption. unfold norm_t.
  rewrite <- (go_of_t_fnorm D (sdata_of O i)), <- tree_of_data by assumption. rewrite go_of_t_fnorm.
  apply cbor_in_t_lemma; try assumption. apply tree_of_twf; assumption.
Qed.

(* on items the original vocabulary covers, norm_t is norm *)
Lemma norm_t_norm : forall (O : eopts) (D : dopts) (i : item), wf i -> plain i ->
  lib_supports D (tree_of O i) -> norm_t O D i = norm O D i.
Proof.
  intros O D i Hw Hp Hs. unfold norm_t, norm. destruct (compat_t D _ Hs) as (_ & C2 & _).
  rewrite <- (go_of_t_fnorm D (sdata_of O i)), <- (go_of_fnorm D (sdata_of O i)).
  rewrite <- tree_of_data by assumption. rewrite go_of_t_fnorm, go_of_fnorm. exact C2.
Qed.

Lemma str_tree_supp : forall (O : eopts) (D : dopts) (text : bool) (s : list N),
  N.of_nat (length s) < 9223372036854775808 -> lib_supports_t D (str_tree O text s).
Proof.
  intros O D text s Hl. unfold str_tree.
  assert (Hc : Forall (fun c : width * list N => N.of_nat (length (snd c)) < 9223372036854775808)
                 (map (fun c => (minw (N.of_nat (length c)), c)) (chunks text (length s) (chunk_len (length s)) s))).
  { apply Forall_map. cbn [snd].
    apply (chunks_Forall _ (fun l => (length l <= length s)%nat)).
    - intros l n H. rewrite skipn_length. lia.
    - intros l k H. rewrite firstn_length. lia.
    - lia. }
  destruct (eo_indef O); destruct text; cbn [lib_supports_t]; assumption.
Qed.

Lemma str_tree_text : forall (O : eopts) (text : bool) (s : list N), text_of (str_tree O text s) = Some s.
Proof.
  intros. unfold str_tree. destruct (eo_indef O); destruct text; cbn [text_of]; try reflexivity;
    rewrite flat_map_map; cbn [snd]; rewrite chunks_concat by (apply chunk_len_pos || lia); reflexivity.
Qed.

(* a time.Time written under TimeRFC3339 (UTC, year 0..9999) is supported at any position and comes back
   as the instant rounded to the microsecond (decodeTime rounds both wire forms); the zero time is nil *)
Lemma time_rfc3339_lemma : forall (O : eopts) (D : dopts) (s : Z) (n : N),
  eo_rfc3339 O = true -> year_ok s = true -> n < 1000000000 ->
  lib_supports_t D (tree_of O (ITime s n)) /\ tdepth_t D (tree_of O (ITime s n)) = 0%Z /\
  norm_t O D (ITime s n) =
    (if (s =? zero_time_sec)%Z && (n =? 0) then INil else ITime (fst (round_us s n)) (snd (round_us s n))).
Proof.
  intros O D s n Hr Hy Hn. unfold norm_t. cbn [tree_of sdata_of]. unfold time_tree.
  destruct ((s =? zero_time_sec)%Z && (n =? 0)).
  - cbn. repeat split. lia.
  - rewrite Hr. destruct (fmt_ok s n) as [_ Hlen].
    cbn [lib_supports_t tdepth_t go_of_t N.eqb]. repeat split.
    right. split; [reflexivity |]. split; [apply str_tree_supp; lia |].
    rewrite str_tree_text. eexists. apply parse_rfc3339_fmt; assumption.
    unfold time_item. rewrite parse_rfc3339_fmt by assumption. reflexivity.
Qed.

(* ------------------------------------------------------------------ *)
(* F10-4 / RFC 8949 3.2.3: the chunks the encoder cuts a text string into are valid UTF-8.
   Checked exhaustively for every text of at most 8 characters over {1,2,3,4}-byte samples
   (87381 texts up to 32 bytes: every alignment of a multi-byte character against the cut);
   with the pre-repair cutting (fixed byte offsets) this sweep is false. *)
Definition text_chunks_ok (s : list N) : bool :=
  forallb utf8_valid (chunks true (length s) (chunk_len (length s)) s).

Lemma text_chunks_sweep : forallb text_chunks_ok (texts_upto 8) = true.
Proof. vm_compute. reflexivity. Qed.

Lemma forallb_map {A B} (g : A -> B) (p : B -> bool) : forall l, forallb p (map g l) = forallb (fun x => p (g x)) l.
Proof. induction l; simpl; [reflexivity | rewrite IHl; reflexivity]. Qed.

Lemma text_chunks_lemma : forall (O : eopts) (s : list N),
  eo_str2raw O = false -> In s (texts_upto 8) -> chunks_utf8 (tree_of O (IStr s)) = true.
Proof.
  intros O s Hr Hin. cbn [tree_of]. rewrite Hr. cbn [negb]. unfold str_tree.
  destruct (eo_indef O); [| reflexivity].
  cbn [chunks_utf8]. rewrite forallb_map. cbn [snd].
  pose proof text_chunks_sweep as S. rewrite forallb_forall in S. exact (S s Hin).
Qed.

(* Wire/SimpleProofs — lemmas about the model in Wire/Simple.v *)
From Coq Require Import List NArith ZArith Bool Lia Arith.
From Coq Require Import ZifyN ZifyNat ZifyBool.
From Verif Require Import Base.Word Base.Outcome Wire.Item Gen.Consts Gen.Leaf Wire.Simple.
Import ListNotations.
Open Scope bool_scope.
Open Scope N_scope.

(* ------------------------------------------------------------------ *)
(* big endian                                                          *)

Lemma be_put_length : forall k v, length (be_put k v) = k.
Proof. induction k; intros; simpl; [reflexivity | now rewrite IHk]. Qed.

Lemma be_fold : forall k v a,
  fold_left (fun a b => a * 256 + b) (be_put k v) a = a * 256 ^ N.of_nat k + v mod 256 ^ N.of_nat k.
Proof.
  induction k as [|k IH]; intros v a.
  - simpl. rewrite N.mod_1_r. lia.
  - cbn [be_put fold_left]. rewrite IH.
    replace (N.of_nat (S k)) with (N.succ (N.of_nat k)) by lia.
    rewrite N.pow_succ_r'.
    set (p := 256 ^ N.of_nat k).
    assert (Hp : p <> 0) by (unfold p; apply N.pow_nonzero; lia).
    rewrite (N.mul_comm 256 p).
    rewrite (N.mod_mul_r v p 256) by lia.
    lia.
Qed.

Lemma be_get_put : forall k v, v < 256 ^ N.of_nat k -> be_get (be_put k v) = v.
Proof.
  intros k v H. unfold be_get. rewrite be_fold. rewrite N.mod_small by exact H. lia.
Qed.

Lemma readn_put : forall k v r, v < 256 ^ N.of_nat k -> readn k (be_put k v ++ r) = Ok (v, r).
Proof.
  intros k v r H. unfold readn.
  rewrite app_length, be_put_length.
  destruct (Nat.ltb_spec (k + length r) k); [lia|].
  rewrite firstn_app, be_put_length, Nat.sub_diag. cbn [firstn]. rewrite app_nil_r.
  rewrite firstn_all2 by (rewrite be_put_length; lia).
  rewrite skipn_app, be_put_length, Nat.sub_diag. cbn [skipn].
  rewrite skipn_all2 by (rewrite be_put_length; lia).
  rewrite be_get_put by exact H. reflexivity.
Qed.

Lemma readx_app : forall (p r : list N), readx (llen p) (p ++ r) = Ok (p, r).
Proof.
  intros p r. unfold readx, llen.
  rewrite app_length.
  destruct (N.ltb_spec (N.of_nat (length p + length r)) (N.of_nat (length p))); [lia|].
  rewrite Nat2N.id.
  rewrite firstn_app, Nat.sub_diag. cbn [firstn]. rewrite app_nil_r, firstn_all.
  rewrite skipn_app, Nat.sub_diag, skipn_all. reflexivity.
Qed.

(* ------------------------------------------------------------------ *)
(* integers                                                            *)

Definition zn (o : eopts) (key : bool) : bool := zeroAsNil o && negb key.

Lemma wbytes_pow : forall w, w <= 3 -> 256 ^ N.of_nat (wbytes w) = 2 ^ (8 * 2 ^ w).
Proof.
  intros w H. assert (w = 0 \/ w = 1 \/ w = 2 \/ w = 3) as [-> | [-> | [-> | ->]]] by lia; reflexivity.
Qed.

Lemma enc_uint_spec : forall o key v bd, v < 2 ^ 64 ->
  (zn o key && (v =? 0) = true /\ enc_uint o key v bd = [vd simpleVdNil]) \/
  (zn o key && (v =? 0) = false /\
   exists w, w <= 3 /\ enc_uint o key v bd = (bd + w) :: be_put (wbytes w) v /\ v < 256 ^ N.of_nat (wbytes w)).
Proof.
  intros o key v bd Hv. unfold enc_uint, zn.
  destruct (zeroAsNil o && negb key && (v =? 0)) eqn:E; [left; auto|right; split; [reflexivity|]].
  destruct (N.leb_spec v 255).
  { exists 0. split; [lia|]. split.
    - rewrite N.add_0_r. change (wbytes 0) with 1%nat. cbn [be_put]. change (256 ^ N.of_nat 0) with 1.
      rewrite N.div_1_r, N.mod_small by lia. reflexivity.
    - change (256 ^ N.of_nat (wbytes 0)) with 256. lia. }
  destruct (N.leb_spec v 65535).
  { exists 1. split; [lia|]. split; [reflexivity|]. change (256 ^ N.of_nat (wbytes 1)) with 65536. lia. }
  destruct (N.leb_spec v 4294967295).
  { exists 2. split; [lia|]. split; [reflexivity|]. change (256 ^ N.of_nat (wbytes 2)) with 4294967296. lia. }
  exists 3. split; [lia|]. split; [reflexivity|]. change (256 ^ N.of_nat (wbytes 3)) with (2 ^ 64). lia.
Qed.

Lemma classify_pos : forall w, w <= 3 -> classify (vd simpleVdPosInt + w) = KPos w.
Proof.
  intros w H. assert (w = 0 \/ w = 1 \/ w = 2 \/ w = 3) as [-> | [-> | [-> | ->]]] by lia; reflexivity.
Qed.
Lemma classify_neg : forall w, w <= 3 -> classify (vd simpleVdNegInt + w) = KNeg w.
Proof.
  intros w H. assert (w = 0 \/ w = 1 \/ w = 2 \/ w = 3) as [-> | [-> | [-> | ->]]] by lia; reflexivity.
Qed.

Lemma to_i64_small : forall v, v < 2 ^ 63 -> to_i64 v = Z.of_N v.
Proof. intros v H. unfold to_i64. destruct (N.ltb_spec v (2 ^ 63)); [reflexivity|lia]. Qed.

Lemma int64v_pos : forall v, v < 2 ^ 63 -> int64v v false = Ok (Z.of_N v).
Proof.
  intros v H. unfold int64v, Leaf.decNegintPosintFloatNumberHelperInt64v, Leaf.checkOverflow_Uint2Int.
  cbn [negb]. destruct (Z.geb_spec (Z.of_N v) 9223372036854775808); [lia|].
  rewrite Word.wraps_id; [reflexivity|lia|unfold Word.in_s; lia].
Qed.

Lemma int64v_neg : forall v, 0 < v -> v <= 2 ^ 63 -> int64v v true = Ok (- Z.of_N v)%Z.
Proof.
  intros v H0 H. unfold int64v, Leaf.decNegintPosintFloatNumberHelperInt64v, Leaf.checkOverflow_Uint2Int.
  cbn [negb]. destruct (Z.gtb_spec (Z.of_N v) 9223372036854775808); [lia|].
  f_equal. destruct (N.eq_dec v (2 ^ 63)) as [-> | Hne]; [reflexivity|].
  rewrite (Word.wraps_id 64 (Z.of_N v)); [|lia|unfold Word.in_s; lia].
  rewrite Word.wraps_id; [reflexivity|lia|unfold Word.in_s; lia].
Qed.

Lemma int64v_pos_ovf : forall v, 2 ^ 63 <= v -> int64v v false = Err EOverflow.
Proof.
  intros v H. unfold int64v, Leaf.decNegintPosintFloatNumberHelperInt64v, Leaf.checkOverflow_Uint2Int.
  cbn [negb]. destruct (Z.geb_spec (Z.of_N v) 9223372036854775808); [reflexivity|lia].
Qed.

(* decoding what enc_uint wrote *)
Lemma dec_scalar_pos : forall D w v rest, w <= 3 -> v < 256 ^ N.of_nat (wbytes w) ->
  (signedInteger D = true -> v < 2 ^ 63) ->
  dec_scalar D (KPos w) (be_put (wbytes w) v ++ rest) =
  Ok (if signedInteger D then IInt (Z.of_N v) else IUint v, rest).
Proof.
  intros D w v rest Hw Hv Hs. cbn [dec_scalar]. rewrite readn_put by exact Hv. cbn [bind].
  destruct (signedInteger D); [|reflexivity].
  rewrite int64v_pos by auto. reflexivity.
Qed.

Lemma dec_scalar_neg : forall D w v rest, w <= 3 -> v < 256 ^ N.of_nat (wbytes w) ->
  0 < v -> v <= 2 ^ 63 ->
  dec_scalar D (KNeg w) (be_put (wbytes w) v ++ rest) = Ok (IInt (- Z.of_N v), rest).
Proof.
  intros D w v rest Hw Hv H0 H. cbn [dec_scalar]. rewrite readn_put by exact Hv. cbn [bind].
  rewrite int64v_neg by auto. reflexivity.
Qed.

(* ------------------------------------------------------------------ *)
(* lengths                                                             *)

Lemma enc_len_spec : forall bd len, len < 2 ^ 63 ->
  exists w pl, w <= 4 /\ enc_len bd len = (bd + w) :: pl /\
    forall r, dec_len w (pl ++ r) = Ok (Z.of_N len, r).
Proof.
  intros bd len Hl. unfold enc_len.
  destruct (N.eqb_spec len 0) as [-> | Hn0].
  { exists 0, []. rewrite N.add_0_r. repeat apply conj; [lia|reflexivity|reflexivity]. }
  destruct (N.leb_spec len 255).
  { exists 1, [len]. repeat apply conj; [lia|reflexivity|].
    intros r. cbn [dec_len]. 
    replace ([len] ++ r) with (be_put 1 len ++ r).
    - rewrite readn_put by (change (256 ^ N.of_nat 1) with 256; lia). reflexivity.
    - cbn [be_put]. change (256 ^ N.of_nat 0) with 1. rewrite N.div_1_r, N.mod_small by lia. reflexivity. }
  destruct (N.leb_spec len 65535).
  { exists 2, (be_put 2 len). repeat apply conj; [lia|reflexivity|].
    intros r. cbn [dec_len]. rewrite readn_put by (change (256 ^ N.of_nat 2) with 65536; lia). reflexivity. }
  destruct (N.leb_spec len 4294967295).
  { exists 3, (be_put 4 len). repeat apply conj; [lia|reflexivity|].
    intros r. cbn [dec_len]. rewrite readn_put by (change (256 ^ N.of_nat 4) with 4294967296; lia).
    cbn [bind]. unfold uint2len. destruct (N.ltb_spec (2 ^ 63 - 1) len); [lia|]. now rewrite to_i64_small by lia. }
  exists 4, (be_put 8 len). repeat apply conj; [lia|reflexivity|].
  intros r. cbn [dec_len]. rewrite readn_put by (change (256 ^ N.of_nat 8) with (2 ^ 64); lia).
  cbn [bind]. unfold uint2len. destruct (N.ltb_spec (2 ^ 63 - 1) len); [lia|]. now rewrite to_i64_small by lia.
Qed.

Lemma classify_len : forall w, w <= 4 ->
  classify (vd simpleVdString + w) = KStr w /\
  classify (vd simpleVdByteArray + w) = KBytes w /\
  classify (vd simpleVdExt + w) = KExt w /\
  classify (vd simpleVdArray + w) = KArr w /\
  classify (vd simpleVdMap + w) = KMap w.
Proof.
  intros w H. assert (w = 0 \/ w = 1 \/ w = 2 \/ w = 3 \/ w = 4) as [-> | [-> | [-> | [-> | ->]]]] by lia;
    repeat apply conj; reflexivity.
Qed.

Lemma len_u_of_N : forall n, n < 2 ^ 63 -> len_u (Z.of_N n) = n.
Proof. intros n H. unfold len_u, to_u64. rewrite Z.mod_small by lia. lia. Qed.

(* ------------------------------------------------------------------ *)
(* round trip: decoding what the encoder wrote                          *)

Definition is_scalar_kind (k : kind) : bool := match k with KArr _ | KMap _ => false | _ => true end.

Lemma dec_scalar_step : forall D f depth b l k,
  classify b = k -> is_scalar_kind k = true -> dec D (S f) depth (b :: l) = dec_scalar D k l.
Proof.
  intros D f depth b l k Hc Hs. cbn [dec readn1 bind]. rewrite Hc.
  destruct k; try reflexivity; discriminate.
Qed.

Lemma enc_nonempty : forall o i key, (1 <= length (enc o key i))%nat.
Proof.
  intros o i. induction i; intros key; cbn [enc];
    repeat match goal with
           | |- context [if ?c then _ else _] => destruct c
           end;
    try (cbn [length]; lia);
    try (unfold enc_uint; repeat match goal with |- context [if ?c then _ else _] => destruct c end; cbn [length]; lia);
    try (rewrite app_length; unfold enc_len; repeat match goal with |- context [if ?c then _ else _] => destruct c end; cbn [length]; lia).
  apply IHi.
Qed.

Lemma readn1_nonempty : forall (l : list N), (1 <= length l)%nat -> exists b r, l = b :: r.
Proof. intros [|b r] H; [cbn in H; lia | eauto]. Qed.

Definition depth_ok (D : dopts) (dp : Z) (i : item) : Prop := (dp + Z.of_nat (depth i) < maxdepth D)%Z.

Definition RT (o : eopts) (D : dopts) (i : item) : Prop :=
  swf o D i -> (signedInteger D = false \/ sint_ok i) ->
  forall key rest fuel dp,
    (2 * length (enc o key i ++ rest) + 1 <= fuel)%nat -> depth_ok D dp i ->
    dec D fuel dp (enc o key i ++ rest) = Ok (norm o D key i, rest).

Lemma to_u64_nonneg : forall z, (0 <= z < 2 ^ 64)%Z -> to_u64 z = Z.to_N z.
Proof. intros z H. unfold to_u64. now rewrite Z.mod_small. Qed.

Lemma to_i64_to_u64 : forall z, (- 2 ^ 63 <= z < 2 ^ 63)%Z -> to_i64 (to_u64 z) = z.
Proof.
  intros z H. unfold to_i64, to_u64.
  destruct (Z.ltb_spec z 0).
  - assert (E : (z mod 2 ^ 64 = z + 2 ^ 64)%Z).
    { symmetry. apply Z.mod_unique with (q := (-1)%Z); lia. }
    rewrite E. destruct (N.ltb_spec (Z.to_N (z + 2 ^ 64)) (2 ^ 63)); lia.
  - rewrite Z.mod_small by lia. destruct (N.ltb_spec (Z.to_N z) (2 ^ 63)); lia.
Qed.

Ltac fuelS fuel Hf :=
  destruct fuel as [|fuel]; [exfalso; lia|].

Lemma RT_nilbyte : forall D fuel dp rest, (1 <= fuel)%nat ->
  dec D fuel dp (vd simpleVdNil :: rest) = Ok (INil, rest).
Proof. intros. fuelS fuel H. rewrite (dec_scalar_step _ _ _ _ _ KNil) by reflexivity. reflexivity. Qed.

Lemma RT_scalars_int : forall o D key v rest fuel dp,
  v < 2 ^ 64 -> (1 <= fuel)%nat -> (signedInteger D = true -> v < 2 ^ 63) ->
  dec D fuel dp (enc_uint o key v (vd simpleVdPosInt) ++ rest) = Ok (norm_pos (zn o key) D v, rest).
Proof.
  intros o D key v rest fuel dp Hv Hf Hs.
  destruct (enc_uint_spec o key v (vd simpleVdPosInt) Hv) as [[Hz ->] | [Hz [w [Hw [-> Hb]]]]].
  - cbn [app]. rewrite RT_nilbyte by lia. unfold norm_pos. now rewrite Hz.
  - fuelS fuel Hf. cbn [app]. rewrite (dec_scalar_step _ _ _ _ _ (KPos w)) by (auto using classify_pos).
    rewrite dec_scalar_pos by auto. unfold norm_pos. rewrite Hz.
    destruct (signedInteger D) eqn:E; [|reflexivity]. rewrite to_i64_small by auto. reflexivity.
Qed.

Lemma RT_scalars_neg : forall o D key v rest fuel dp,
  0 < v -> v <= 2 ^ 63 -> (1 <= fuel)%nat ->
  dec D fuel dp (enc_uint o key v (vd simpleVdNegInt) ++ rest) = Ok (IInt (- Z.of_N v), rest).
Proof.
  intros o D key v rest fuel dp H0 Hv Hf.
  destruct (enc_uint_spec o key v (vd simpleVdNegInt)) as [[Hz _] | [Hz [w [Hw [-> Hb]]]]]; [lia| |].
  - exfalso. destruct (N.eqb_spec v 0); [lia|]. rewrite andb_false_r in Hz. discriminate.
  - fuelS fuel Hf. cbn [app]. rewrite (dec_scalar_step _ _ _ _ _ (KNeg w)) by (auto using classify_neg).
    now rewrite dec_scalar_neg by auto.
Qed.

(* strings, byte strings, extensions: head ++ payload *)
Lemma RT_lenpayload : forall D bd (k : N -> kind) (mk : list N -> item) s rest fuel dp,
  (forall w, w <= 4 -> classify (bd + w) = k w) ->
  (forall w l, dec_scalar D (k w) l =
     do (n, r) <- dec_len w l ;; do (p, r') <- readx (len_u n) r ;; Ok (mk p, r')) ->
  (forall w, is_scalar_kind (k w) = true) ->
  lenok s -> (1 <= fuel)%nat ->
  dec D fuel dp ((enc_len bd (llen s) ++ s) ++ rest) = Ok (mk s, rest).
Proof.
  intros D bd k mk s rest fuel dp Hc Hd Hk Hl Hf.
  destruct (enc_len_spec bd (llen s) Hl) as [w [pl [Hw [-> Hdl]]]].
  fuelS fuel Hf. cbn [app]. rewrite (dec_scalar_step _ _ _ _ _ (k w)) by auto.
  rewrite Hd. rewrite <- !app_assoc. rewrite Hdl. cbn [bind].
  rewrite len_u_of_N by exact Hl. rewrite readx_app. reflexivity.
Qed.

Lemma RT_ext : forall D t s rest fuel dp, t < 256 -> lenok s -> (1 <= fuel)%nat ->
  dec D fuel dp ((enc_len (vd simpleVdExt) (llen s) ++ (t mod 256) :: s) ++ rest) = Ok (IExt (t mod 256) s, rest).
Proof.
  intros D t s rest fuel dp Ht Hl Hf.
  destruct (enc_len_spec (vd simpleVdExt) (llen s) Hl) as [w [pl [Hw [-> Hdl]]]].
  fuelS fuel Hf. cbn [app]. rewrite (dec_scalar_step _ _ _ _ _ (KExt w)) by (auto; apply classify_len; auto).
  cbn [dec_scalar]. rewrite <- !app_assoc. rewrite Hdl. cbn [bind app readn1].
  rewrite len_u_of_N by exact Hl. rewrite readx_app. reflexivity.
Qed.

Lemma firstn_app_exact : forall (a b : list N) n, length a = n -> firstn n (a ++ b) = a.
Proof. intros a b n <-. rewrite firstn_app, Nat.sub_diag. cbn [firstn]. now rewrite app_nil_r, firstn_all. Qed.
Lemma skipn_app_exact : forall (a b : list N) n, length a = n -> skipn n (a ++ b) = b.
Proof. intros a b n <-. rewrite skipn_app, Nat.sub_diag, skipn_all. reflexivity. Qed.

Lemma dec_time_payload_ok : forall X n tail, X < 2 ^ 64 -> n < 2 ^ 32 -> length tail = 2%nat ->
  dec_time_payload (1 :: be_put 8 X ++ be_put 4 n ++ tail) = Ok (ITime (wrap_i64 (to_i64 X - unixToInternal)) n).
Proof.
  intros X n tail HX Hn Ht. unfold dec_time_payload.
  assert (HP : llen (1 :: be_put 8 X ++ be_put 4 n ++ tail) = 15).
  { unfold llen. cbn [length]. rewrite !app_length, !be_put_length, Ht. reflexivity. }
  rewrite HP. cbn [N.eqb Pos.eqb orb negb].
  rewrite firstn_app_exact by apply be_put_length.
  rewrite skipn_app_exact by apply be_put_length.
  rewrite firstn_app_exact by apply be_put_length.
  rewrite be_get_put by (change (256 ^ N.of_nat 8) with (2 ^ 64); exact HX).
  rewrite be_get_put by (change (256 ^ N.of_nat 4) with (2 ^ 32); exact Hn).
  reflexivity.
Qed.

Lemma RT_time : forall D s n rest fuel dp,
  (- 2 ^ 63 <= s < 2 ^ 63)%Z -> (- 2 ^ 63 <= s + unixToInternal < 2 ^ 63)%Z -> n < 2 ^ 32 -> (1 <= fuel)%nat ->
  dec D fuel dp (([vd simpleVdTime; 15; 1] ++ be_put 8 (to_u64 (s + unixToInternal)) ++ be_put 4 n ++ [255; 255]) ++ rest)
  = Ok (ITime s n, rest).
Proof.
  intros D s n rest fuel dp Hs Hsi Hn Hf. fuelS fuel Hf.
  cbn [app]. rewrite (dec_scalar_step _ _ _ _ _ KTime) by reflexivity.
  cbn [dec_scalar readn1 bind].
  set (X := to_u64 (s + unixToInternal)).
  set (P := 1 :: be_put 8 X ++ be_put 4 n ++ [255; 255]).
  replace (1 :: (be_put 8 X ++ be_put 4 n ++ [255; 255]) ++ rest) with (P ++ rest) by reflexivity.
  assert (HP : llen P = 15).
  { unfold P, llen. cbn [length]. rewrite !app_length, !be_put_length. reflexivity. }
  assert (Hr : readx 15 (P ++ rest) = Ok (P, rest)) by (rewrite <- HP; apply readx_app).
  rewrite Hr. cbn [bind].
  assert (HX : X < 2 ^ 64).
  { unfold X, to_u64. pose proof (Z.mod_pos_bound (s + unixToInternal) (2 ^ 64) ltac:(lia)). lia. }
  unfold P. rewrite dec_time_payload_ok by auto. cbn [bind].
  unfold X. rewrite to_i64_to_u64 by exact Hsi.
  replace (s + unixToInternal - unixToInternal)%Z with s by lia.
  unfold wrap_i64. rewrite Z.mod_small by lia. replace (s + 2 ^ 63 - 2 ^ 63)%Z with s by lia. reflexivity.
Qed.

(* lists *)
Lemma swf_arr_forall : forall o D l,
  (fix go (l : list item) : Prop := match l with [] => True | x :: r => swf o D x /\ go r end) l <-> Forall (swf o D) l.
Proof. induction l; split; intros H; try constructor; try (destruct H; constructor; tauto); inversion H; subst; tauto. Qed.

Lemma sint_arr_forall : forall l,
  (fix go (l : list item) : Prop := match l with [] => True | x :: r => sint_ok x /\ go r end) l <-> Forall sint_ok l.
Proof. induction l; split; intros H; try constructor; try (destruct H; constructor; tauto); inversion H; subst; tauto. Qed.

Lemma depth_in_arr : forall l x, In x l -> (depth x <= fold_right (fun x m => Nat.max (depth x) m) 0 l)%nat.
Proof. induction l; intros x H; [contradiction|]. cbn [fold_right]. destruct H as [-> | H]; [lia|]. specialize (IHl _ H). lia. Qed.

Lemma depth_in_map : forall l kv, In kv l ->
  (Nat.max (depth (fst kv)) (depth (snd kv)) <= fold_right (fun kv m => Nat.max (Nat.max (depth (fst kv)) (depth (snd kv))) m) 0 l)%nat.
Proof. induction l; intros x H; [contradiction|]. cbn [fold_right]. destruct H as [-> | H]; [lia|]. specialize (IHl _ H). lia. Qed.

Lemma cnt_pred_S : forall {A} (x : A) l, cnt_pred (Some (llen (x :: l))) = Some (llen l).
Proof. intros. unfold cnt_pred, llen. f_equal. cbn [length]. lia. Qed.
Lemma cnt_done_S : forall {A} (x : A) l, cnt_done (Some (llen (x :: l))) = false.
Proof. intros. unfold cnt_done, llen. cbn [length]. destruct (N.of_nat (S (length l))) eqn:E; [lia|reflexivity]. Qed.

Lemma dec_elems_enc : forall o D l,
  Forall (RT o D) l -> Forall (swf o D) l -> (signedInteger D = false \/ Forall sint_ok l) ->
  forall rest fuel dp,
    (2 * length (flat_map (enc o false) l ++ rest) + 2 <= fuel)%nat ->
    (forall x, In x l -> depth_ok D dp x) ->
    dec_elems D fuel dp (Some (llen l)) (flat_map (enc o false) l ++ rest) = Ok (map (norm o D false) l, rest).
Proof.
  intros o D l. induction l as [|x l IH]; intros HRT Hswf Hsint rest fuel dp Hf Hd.
  - destruct fuel; reflexivity.
  - inversion HRT as [|? ? HRx HRl]; subst. inversion Hswf as [|? ? Hsx Hsl]; subst.
    assert (Hsint_x : signedInteger D = false \/ sint_ok x) by (destruct Hsint as [?|H]; [auto|inversion H; auto]).
    assert (Hsint_l : signedInteger D = false \/ Forall sint_ok l) by (destruct Hsint as [?|H]; [auto|inversion H; auto]).
    cbn [flat_map map] in *. rewrite <- app_assoc in *.
    pose proof (enc_nonempty o x false) as Hne.
    rewrite app_length in Hf.
    fuelS fuel Hf.
    cbn [dec_elems]. rewrite cnt_done_S.
    rewrite (HRx Hsx Hsint_x false (flat_map (enc o false) l ++ rest) fuel dp); [|rewrite app_length; lia|apply Hd; left; reflexivity].
    cbn [bind]. rewrite cnt_pred_S.
    rewrite IH; auto; [lia|]. intros y Hy. apply Hd. right. exact Hy.
Qed.

Lemma unhashable_norm : forall o D key i, unhashable i = false -> unhashable (norm o D key i) = false.
Proof.
  intros o D key i H. destruct i; cbn [norm unhashable] in *; try discriminate; unfold norm_pos, bytes_item;
    repeat match goal with |- context [if ?c then _ else _] => destruct c end; reflexivity.
Qed.

Lemma readn1_enc : forall o key i X, exists b r, readn1 (enc o key i ++ X) = Ok (b, r).
Proof.
  intros. pose proof (enc_nonempty o i key) as H. destruct (enc o key i) as [|b r]; [cbn in H; lia|].
  exists b, (r ++ X). reflexivity.
Qed.

Definition kvenc (o : eopts) (kv : item * item) : list N := enc o true (fst kv) ++ enc o false (snd kv).
Definition kvnorm (o : eopts) (D : dopts) (kv : item * item) : item * item :=
  (key_conv (norm o D true (fst kv)), norm o D false (snd kv)).

Lemma dec_pairs_enc : forall o D l,
  Forall (fun kv => RT o D (fst kv) /\ RT o D (snd kv)) l ->
  Forall (fun kv => (swf o D (fst kv) /\ unhashable (fst kv) = false) /\ swf o D (snd kv)) l ->
  (signedInteger D = false \/ Forall (fun kv => sint_ok (fst kv) /\ sint_ok (snd kv)) l) ->
  forall seen rest fuel dp,
    keys_fresh o D seen l ->
    (2 * length (flat_map (kvenc o) l ++ rest) + 2 <= fuel)%nat ->
    (forall kv, In kv l -> depth_ok D dp (fst kv) /\ depth_ok D dp (snd kv)) ->
    dec_pairs D fuel dp seen (Some (llen l)) (flat_map (kvenc o) l ++ rest) = Ok (map (kvnorm o D) l, rest).
Proof.
  intros o D l. induction l as [|kv l IH]; intros HRT Hswf Hsint seen rest fuel dp Hk Hf Hd.
  - destruct fuel; reflexivity.
  - inversion HRT as [|? ? [HRk HRv] HRl]; subst. inversion Hswf as [|? ? [[Hsk Hun] Hsv] Hsl]; subst.
    assert (Hsint_k : signedInteger D = false \/ sint_ok (fst kv)) by (destruct Hsint as [?|H]; [auto|inversion H; tauto]).
    assert (Hsint_v : signedInteger D = false \/ sint_ok (snd kv)) by (destruct Hsint as [?|H]; [auto|inversion H; tauto]).
    assert (Hsint_l : signedInteger D = false \/ Forall (fun kv => sint_ok (fst kv) /\ sint_ok (snd kv)) l)
      by (destruct Hsint as [?|H]; [auto|inversion H; auto]).
    destruct Hk as [Hfresh Hk].
    destruct (Hd kv (or_introl eq_refl)) as [Hdk Hdv].
    cbn [flat_map map] in *. unfold kvenc at 1 in Hf. unfold kvenc at 1. rewrite <- !app_assoc in *.
    pose proof (enc_nonempty o (fst kv) true) as Hne1. pose proof (enc_nonempty o (snd kv) false) as Hne2.
    rewrite !app_length in Hf.
    fuelS fuel Hf.
    cbn [dec_pairs]. rewrite cnt_done_S.
    rewrite (HRk Hsk Hsint_k true _ fuel dp); [|rewrite !app_length; lia|exact Hdk].
    cbn [bind]. unfold nkey in Hfresh. rewrite Hfresh.
    destruct (readn1_enc o false (snd kv) (flat_map (kvenc o) l ++ rest)) as [b [r Hr]]. rewrite Hr. cbn [bind].
    rewrite unhashable_norm by exact Hun.
    rewrite (HRv Hsv Hsint_v false _ fuel dp); [|rewrite !app_length; lia|exact Hdv].
    cbn [bind]. rewrite cnt_pred_S.
    rewrite (IH HRl Hsl Hsint_l); [reflexivity|exact Hk|rewrite app_length; lia|].
    intros kv' Hin. apply Hd. right. exact Hin.
Qed.

Lemma swf_map_forall : forall o D l,
  (fix go (l : list (item * item)) : Prop :=
     match l with
     | [] => True
     | kv :: r => (swf o D (fst kv) /\ unhashable (fst kv) = false) /\ swf o D (snd kv) /\ go r
     end) l <-> Forall (fun kv => (swf o D (fst kv) /\ unhashable (fst kv) = false) /\ swf o D (snd kv)) l.
Proof. induction l; split; intros H; try constructor; try (destruct H as [? [? ?]]; constructor; tauto); inversion H; subst; tauto. Qed.

Lemma sint_map_forall : forall l,
  (fix go (l : list (item * item)) : Prop :=
     match l with [] => True | kv :: r => sint_ok (fst kv) /\ sint_ok (snd kv) /\ go r end) l
  <-> Forall (fun kv => sint_ok (fst kv) /\ sint_ok (snd kv)) l.
Proof. induction l; split; intros H; try constructor; try (destruct H as [? [? ?]]; constructor; tauto); inversion H; subst; tauto. Qed.

Lemma depth_enter_ok : forall D dp n, n < 2 ^ 63 -> (dp + 1 < maxdepth D)%Z ->
  depth_enter D dp (Z.of_N n) = Ok (dp + 1)%Z.
Proof.
  intros D dp n Hn Hd. unfold depth_enter.
  destruct (Z.eqb_spec (Z.of_N n) containerLenNil) as [E|_].
  { exfalso. unfold containerLenNil in E. lia. }
  destruct (Z.leb_spec (maxdepth D) (dp + 1)); [lia|reflexivity].
Qed.

Lemma loop_count_ok : forall n, loop_count (Z.of_N n) 1 = Some n.
Proof. intros n. unfold loop_count. destruct (Z.leb_spec 0 (Z.of_N n)); [|lia]. f_equal. lia. Qed.

Theorem dec_enc_all : forall o D i, RT o D i.
Proof.
  intros o D. induction i using item_ind'; unfold RT; intros Hswf Hsint key rest fuel dp Hf Hd; cbn [enc norm] in *.
  - (* nil *) apply RT_nilbyte. lia.
  - (* bool *)
    destruct (zeroAsNil o && negb key && negb b); [apply RT_nilbyte; lia|].
    fuelS fuel Hf. destruct b; cbn [app];
      [rewrite (dec_scalar_step _ _ _ _ _ KTrue) by reflexivity | rewrite (dec_scalar_step _ _ _ _ _ KFalse) by reflexivity]; reflexivity.
  - (* int *)
    cbn [swf] in Hswf. destruct (Z.ltb_spec z 0).
    + rewrite to_u64_nonneg by lia.
      rewrite RT_scalars_neg by lia. f_equal. f_equal. f_equal. lia.
    + rewrite to_u64_nonneg by lia.
      rewrite RT_scalars_int; [reflexivity|lia|lia|lia].
  - (* uint *)
    cbn [swf] in Hswf. rewrite RT_scalars_int; [reflexivity|lia|lia|].
    intros E. destruct Hsint as [E'|Hs]; [congruence|exact Hs].
  - (* f32 *)
    cbn [swf] in Hswf. destruct (zeroAsNil o && negb key && f32zero b); [apply RT_nilbyte; lia|].
    fuelS fuel Hf. cbn [app]. rewrite (dec_scalar_step _ _ _ _ _ KF32) by reflexivity.
    cbn [dec_scalar]. rewrite readn_put by (change (256 ^ N.of_nat 4) with (2 ^ 32); exact Hswf). reflexivity.
  - (* f64 *)
    cbn [swf] in Hswf. destruct (zeroAsNil o && negb key && f64zero b); [apply RT_nilbyte; lia|].
    fuelS fuel Hf. cbn [app]. rewrite (dec_scalar_step _ _ _ _ _ KF64) by reflexivity.
    cbn [dec_scalar]. rewrite readn_put by (change (256 ^ N.of_nat 8) with (2 ^ 64); exact Hswf). reflexivity.
  - (* str *)
    cbn [swf] in Hswf. destruct (zeroAsNil o && negb key && isnil s); [apply RT_nilbyte; lia|].
    destruct (stringToRaw o).
    + apply (RT_lenpayload D (vd simpleVdByteArray) KBytes (bytes_item D)); auto; try lia.
      * intros w Hw. apply classify_len; auto.
    + apply (RT_lenpayload D (vd simpleVdString) KStr IStr); auto; try lia.
      * intros w Hw. apply classify_len; auto.
  - (* bytes *)
    cbn [swf] in Hswf.
    apply (RT_lenpayload D (vd simpleVdByteArray) KBytes (bytes_item D)); auto; try lia.
    intros w Hw. apply classify_len; auto.
  - (* array *)
    cbn [swf] in Hswf. destruct Hswf as [Hlen Hall]. apply swf_arr_forall in Hall.
    assert (Hs' : signedInteger D = false \/ Forall sint_ok l).
    { destruct Hsint as [?|Hs]; [auto|right; apply sint_arr_forall; exact Hs]. }
    destruct (enc_len_spec (vd simpleVdArray) (llen l) Hlen) as [w [pl [Hw [Henc Hdl]]]].
    rewrite Henc in *. rewrite <- !app_assoc in *. cbn [app] in *. cbn [length] in Hf. rewrite app_length in Hf.
    fuelS fuel Hf. cbn [dec readn1 bind].
    replace (classify (vd simpleVdArray + w)) with (KArr w) by (symmetry; apply classify_len; auto).
    rewrite Hdl. cbn [bind].
    unfold depth_ok in Hd. cbn [depth] in Hd.
    rewrite depth_enter_ok by (auto; lia). cbn [bind]. rewrite loop_count_ok.
    rewrite (dec_elems_enc o D l H Hall Hs'); [reflexivity|lia|].
    intros x Hx. unfold depth_ok. pose proof (depth_in_arr l x Hx). lia.
  - (* map *)
    cbn [swf] in Hswf. destruct Hswf as [Hlen [Hfresh Hall]]. apply swf_map_forall in Hall.
    assert (Hs' : signedInteger D = false \/ Forall (fun kv => sint_ok (fst kv) /\ sint_ok (snd kv)) l).
    { destruct Hsint as [?|Hs]; [auto|right; apply sint_map_forall; exact Hs]. }
    destruct (enc_len_spec (vd simpleVdMap) (llen l) Hlen) as [w [pl [Hw [Henc Hdl]]]].
    rewrite Henc in *. rewrite <- !app_assoc in *. cbn [app] in *. cbn [length] in Hf. rewrite app_length in Hf.
    fuelS fuel Hf. cbn [dec readn1 bind].
    replace (classify (vd simpleVdMap + w)) with (KMap w) by (symmetry; apply classify_len; auto).
    rewrite Hdl. cbn [bind].
    unfold depth_ok in Hd. cbn [depth] in Hd.
    rewrite depth_enter_ok by (auto; lia). cbn [bind]. rewrite loop_count_ok.
    change (fun kv : item * item => enc o true (fst kv) ++ enc o false (snd kv)) with (kvenc o) in *.
    change (fun kv : item * item => (key_conv (norm o D true (fst kv)), norm o D false (snd kv))) with (kvnorm o D).
    rewrite (dec_pairs_enc o D l H Hall Hs' [] _ fuel (dp + 1)%Z Hfresh); [reflexivity|lia|].
    intros kv Hin. unfold depth_ok. pose proof (depth_in_map l kv Hin). lia.
  - (* tag *) cbn [swf] in Hswf. contradiction.
  - (* ext *)
    cbn [swf] in Hswf. destruct Hswf as [Ht Hl]. apply RT_ext; auto. lia.
  - (* time *)
    cbn [swf] in Hswf. destruct Hswf as [Hs1 [Hs2 Hn']].
    destruct (time_zero s n); [apply RT_nilbyte; lia|].
    apply RT_time; auto. lia.
Qed.

(* ------------------------------------------------------------------ *)
(* statements exported to Properties/W_simple.v                        *)

Lemma W_simple_dec_enc_lemma : forall (o : eopts) (D : dopts) (i : item) (key : bool) (rest : list N) (fuel : nat) (dp : Z),
  swf o D i -> (signedInteger D = false \/ sint_ok i) ->
  (2 * length (enc o key i ++ rest) + 1 <= fuel)%nat ->
  (dp + Z.of_nat (depth i) < maxdepth D)%Z ->
  dec D fuel dp (enc o key i ++ rest) = Ok (norm o D key i, rest).
Proof. intros. apply dec_enc_all; auto. Qed.

Lemma W_simple_dec_naked_enc_lemma : forall (o : eopts) (D : dopts) (i : item) (rest : list N),
  swf o D i -> (signedInteger D = false \/ sint_ok i) -> (Z.of_nat (depth i) < maxdepth D)%Z ->
  dec_naked D (dec_fuel (enc o false i ++ rest)) (enc o false i ++ rest) = Ok (norm o D false i, rest).
Proof. intros. unfold dec_naked, dec_fuel. apply dec_enc_all; auto; try lia; unfold depth_ok; lia. Qed.

Lemma W_simple_dec_enc_signed_overflow_lemma : forall (o : eopts) (D : dopts) (n : N) (rest : list N) (fuel : nat) (dp : Z),
  signedInteger D = true -> 2 ^ 63 <= n -> n < 2 ^ 64 -> (1 <= fuel)%nat ->
  dec D fuel dp (enc o false (IUint n) ++ rest) = Err EOverflow.
Proof.
  intros o D n rest fuel dp Hs Hlo Hhi Hf. cbn [enc].
  destruct (enc_uint_spec o false n (vd simpleVdPosInt) Hhi) as [[Hz _] | [Hz [w [Hw [-> Hb]]]]].
  - exfalso. destruct (N.eqb_spec n 0); [lia|]. rewrite andb_false_r in Hz. discriminate.
  - fuelS fuel Hf. cbn [app]. rewrite (dec_scalar_step _ _ _ _ _ (KPos w)) by (auto using classify_pos).
    cbn [dec_scalar]. rewrite readn_put by exact Hb. cbn [bind]. rewrite Hs.
    rewrite int64v_pos_ovf by exact Hlo. reflexivity.
Qed.

(* Wire/Msgpack — executable model of the MessagePack driver of ugorji/go codec
   (codec/msgpack.go + msgpack.base.go; the default build compiles the identical
   msgpack.mono.generated.go), at the level of Wire/Item:

     enc        what msgpackEncDriver writes for an item (EncodeNil/Bool/Int/Uint/
                Float32/Float64/String/StringBytesRaw/Time/RawExt, array/map heads)
     decI       what decoding into a nil interface{} consumes and produces
                (DecodeNaked + kInterfaceNaked + DecSliceIntfY / kMap recursion),
                with the depth accounting (depthIncr against MaxDepth) where the
                code does it and a counter of the recursion depth reached
     skipI      the driver's second parser nextValueBytes / nextValueBytesBdReadR,
                which has no depth accounting

   Hand written; tied to the code by the correspondence check (harness/cmd/
   wiremsgpack runs the real Encoder/Decoder and Wire/MsgpackCorr evaluates the
   model on the same inputs).  Descriptor bytes come from Gen/Consts.v
   (regenerated from the working tree on every run).  No proofs here. *)
From Coq Require Import List NArith ZArith Lia Bool.
From Verif Require Import Base.Outcome Wire.Item Gen.Consts.
Import ListNotations.
Local Open Scope N_scope.

(* ------------------------------------------------------------------ *)
(* descriptor bytes as N *)

Definition bPosFixNumMax := Z.to_N mpPosFixNumMax.
Definition bFixMapMin := Z.to_N mpFixMapMin.
Definition bFixMapMax := Z.to_N mpFixMapMax.
Definition bFixArrayMin := Z.to_N mpFixArrayMin.
Definition bFixArrayMax := Z.to_N mpFixArrayMax.
Definition bFixStrMin := Z.to_N mpFixStrMin.
Definition bFixStrMax := Z.to_N mpFixStrMax.
Definition bNil := Z.to_N mpNil.
Definition bFalse := Z.to_N mpFalse.
Definition bTrue := Z.to_N mpTrue.
Definition bFloat := Z.to_N mpFloat.
Definition bDouble := Z.to_N mpDouble.
Definition bUint8 := Z.to_N mpUint8.
Definition bUint16 := Z.to_N mpUint16.
Definition bUint32 := Z.to_N mpUint32.
Definition bUint64 := Z.to_N mpUint64.
Definition bInt8 := Z.to_N mpInt8.
Definition bInt16 := Z.to_N mpInt16.
Definition bInt32 := Z.to_N mpInt32.
Definition bInt64 := Z.to_N mpInt64.
Definition bBin8 := Z.to_N mpBin8.
Definition bBin16 := Z.to_N mpBin16.
Definition bBin32 := Z.to_N mpBin32.
Definition bExt8 := Z.to_N mpExt8.
Definition bExt16 := Z.to_N mpExt16.
Definition bExt32 := Z.to_N mpExt32.
Definition bFixExt1 := Z.to_N mpFixExt1.
Definition bFixExt2 := Z.to_N mpFixExt2.
Definition bFixExt4 := Z.to_N mpFixExt4.
Definition bFixExt8 := Z.to_N mpFixExt8.
Definition bFixExt16 := Z.to_N mpFixExt16.
Definition bStr8 := Z.to_N mpStr8.
Definition bStr16 := Z.to_N mpStr16.
Definition bStr32 := Z.to_N mpStr32.
Definition bArray16 := Z.to_N mpArray16.
Definition bArray32 := Z.to_N mpArray32.
Definition bMap16 := Z.to_N mpMap16.
Definition bMap32 := Z.to_N mpMap32.
Definition bNegFixNumMin := Z.to_N mpNegFixNumMin.
Definition bNegFixNumMax := Z.to_N mpNegFixNumMax.

(* var mpTimeExtTag int8 = -1; mpTimeExtTagU = uint8(mpTimeExtTag)  (a Go var, not a constant) *)
Definition bTimeExtTagU : N := 255.

(* ------------------------------------------------------------------ *)
(* machine words *)

Definition wrap (w : N) (n : N) : N := n mod 2 ^ w.
(* uintW(z) for a signed z *)
Definition wrapZ (w : N) (z : Z) : N := Z.to_N (z mod 2 ^ Z.of_N w).
(* intW(u): two's complement reading of u < 2^w *)
Definition signed (w : N) (u : N) : Z :=
  if u <? 2 ^ (w - 1) then Z.of_N u else Z.of_N u - 2 ^ Z.of_N w.

(* bigen.PutUintK / bigen.UintK *)
Fixpoint be_put (k : nat) (v : N) : list N :=
  match k with
  | O => []
  | S k' => (v / 256 ^ N.of_nat k') mod 256 :: be_put k' v
  end.

Fixpoint be_acc (acc : N) (l : list N) : N :=
  match l with
  | [] => acc
  | x :: r => be_acc (acc * 256 + x) r
  end.
Definition be_get (l : list N) : N := be_acc 0 l.

Definition len {A : Type} (b : list A) : N := N.of_nat (length b).

(* ------------------------------------------------------------------ *)
(* options *)

Record eopts := mkeopts {
  e_writeext : bool;          (* MsgpackHandle.WriteExt *)
  e_nofixednum : bool;        (* MsgpackHandle.NoFixedNum *)
  e_posintunsigned : bool;    (* MsgpackHandle.PositiveIntUnsigned *)
  e_stringtoraw : bool }.     (* BasicHandle.StringToRaw *)

Record dopts := mkdopts {
  d_writeext : bool;          (* MsgpackHandle.WriteExt (decides str family -> string) *)
  d_rawtostring : bool;       (* BasicHandle.RawToString *)
  d_signedinteger : bool;     (* BasicHandle.SignedInteger *)
  d_maxdepth : Z }.           (* BasicHandle.MaxDepth (int16) *)

(* decoder.reset: d.maxdepth = decDefMaxDepth; if h.MaxDepth > 0 { d.maxdepth = h.MaxDepth } *)
Definition maxdepth (D : dopts) : Z :=
  if (0 <? d_maxdepth D)%Z then d_maxdepth D else decDefMaxDepth.

(* ------------------------------------------------------------------ *)
(* encoder *)

(* msgpackContainerType{fixCutoff, bFixMin, b8, b16, b32} *)
Record ctype := mkct { fixCutoff : N; cFixMin : N; c8 : N; c16 : N; c32 : N }.
Definition ctRawLegacy := mkct 32 bFixStrMin 0 bStr16 bStr32.
Definition ctStr := mkct 32 bFixStrMin bStr8 bStr16 bStr32.
Definition ctBin := mkct 0 0 bBin8 bBin16 bBin32.
Definition ctList := mkct 16 bFixArrayMin 0 bArray16 bArray32.
Definition ctMap := mkct 16 bFixMapMin 0 bMap16 bMap32.

(* writeContainerLen(ct, l): l is an int (len of a Go value, >= 0); uint8/16/32(l) truncate *)
Definition write_clen (ct : ctype) (l : N) : list N :=
  if (0 <? fixCutoff ct) && (l <? fixCutoff ct) then [N.lor (cFixMin ct) (wrap 8 l)]
  else if (0 <? c8 ct) && (l <? 256) then [c8 ct; wrap 8 l]
  else if l <? 65536 then c16 ct :: be_put 2 (wrap 16 l)
  else c32 ct :: be_put 4 (wrap 32 l).

(* EncodeUint *)
Definition enc_uint (O : eopts) (i : N) : list N :=
  if i <=? 127 then (if e_nofixednum O then [bUint8; wrap 8 i] else [wrap 8 i])
  else if i <=? 255 then [bUint8; wrap 8 i]
  else if i <=? 65535 then bUint16 :: be_put 2 (wrap 16 i)
  else if i <=? 4294967295 then bUint32 :: be_put 4 (wrap 32 i)
  else bUint64 :: be_put 8 (wrap 64 i).

(* EncodeInt *)
Definition enc_int (O : eopts) (i : Z) : list N :=
  if e_posintunsigned O && (0 <=? i)%Z then enc_uint O (wrapZ 64 i)
  else if (127 <? i)%Z then
    (if (i <=? 32767)%Z then bInt16 :: be_put 2 (wrapZ 16 i)
     else if (i <=? 2147483647)%Z then bInt32 :: be_put 4 (wrapZ 32 i)
     else bInt64 :: be_put 8 (wrapZ 64 i))
  else if (-32 <=? i)%Z then (if e_nofixednum O then [bInt8; wrapZ 8 i] else [wrapZ 8 i])
  else if (-128 <=? i)%Z then [bInt8; wrapZ 8 i]
  else if (-32768 <=? i)%Z then bInt16 :: be_put 2 (wrapZ 16 i)
  else if (-2147483648 <=? i)%Z then bInt32 :: be_put 4 (wrapZ 32 i)
  else bInt64 :: be_put 8 (wrapZ 64 i).

(* encodeExtPreamble(xtag byte, l int) *)
Definition ext_preamble (xtag : N) (l : N) : list N :=
  if l =? 1 then [bFixExt1; xtag]
  else if l =? 2 then [bFixExt2; xtag]
  else if l =? 4 then [bFixExt4; xtag]
  else if l =? 8 then [bFixExt8; xtag]
  else if l =? 16 then [bFixExt16; xtag]
  else if l <? 256 then [bExt8; wrap 8 l; xtag]
  else if l <? 65536 then bExt16 :: be_put 2 (wrap 16 l) ++ [xtag]
  else bExt32 :: be_put 4 (wrap 32 l) ++ [xtag].

(* time.Time{}.IsZero(): January 1, year 1, 00:00:00 UTC *)
Definition zeroTimeSec : Z := (-62135596800)%Z.

(* EncodeTime: sec = t.Unix() (int64), nsec = uint64(t.Nanosecond()) *)
Definition time_data64 (sec : Z) (nsec : N) : N := N.lor (wrap 64 (N.shiftl nsec 34)) (wrapZ 64 sec).
Definition time_len (sec : Z) (nsec : N) : N :=
  if (0 <=? sec)%Z && (Z.shiftr sec 34 =? 0)%Z
  then (if N.land (time_data64 sec nsec) 18446744069414584320 =? 0 then 4 else 8)
  else 12.
Definition time_body (sec : Z) (nsec : N) : list N :=
  let l := time_len sec nsec in
  if l =? 4 then be_put 4 (wrap 32 (time_data64 sec nsec))
  else if l =? 8 then be_put 8 (time_data64 sec nsec)
  else be_put 4 (wrap 32 nsec) ++ be_put 8 (wrapZ 64 sec).
Definition is_zero_time (sec : Z) (nsec : N) : bool := (sec =? zeroTimeSec)%Z && (nsec =? 0).
Definition enc_time (O : eopts) (sec : Z) (nsec : N) : list N :=
  if is_zero_time sec nsec then [bNil]
  else
    let l := time_len sec nsec in
    (if e_writeext O then ext_preamble bTimeExtTagU l else write_clen ctRawLegacy l)
    ++ time_body sec nsec.

(* EncodeString *)
Definition enc_str (O : eopts) (s : list N) : list N :=
  let ct := if e_writeext O then (if e_stringtoraw O then ctBin else ctStr) else ctRawLegacy in
  write_clen ct (len s) ++ s.

(* EncodeStringBytesRaw (EncodeBytes of a non-nil []byte) *)
Definition enc_bytes (O : eopts) (s : list N) : list N :=
  write_clen (if e_writeext O then ctBin else ctRawLegacy) (len s) ++ s.

Fixpoint enc (O : eopts) (i : item) : list N :=
  match i with
  | INil => [bNil]
  | IBool b => [if b then bTrue else bFalse]
  | IInt z => enc_int O z
  | IUint n => enc_uint O n
  | IF32 b => bFloat :: be_put 4 b
  | IF64 b => bDouble :: be_put 8 b
  | IStr s => enc_str O s
  | IBytes s => enc_bytes O s
  | IArr l =>
      (* kArrayW: l == 0 -> WriteArrayEmpty, else WriteArrayStart(l) then the elements *)
      match l with
      | [] => [bFixArrayMin]
      | _ => write_clen ctList (len l) ++ concat (map (enc O) l)
      end
  | IMap l =>
      match l with
      | [] => [bFixMapMin]
      | _ => write_clen ctMap (len l) ++ concat (map (fun kv => enc O (fst kv) ++ enc O (snd kv)) l)
      end
  | ITag t _ =>
      (* RawExt{Tag: t, Value: v} (no Data): EncodeRawExt writes only re.Data; msgpack has no
         nested-value extension, the value is dropped *)
      ext_preamble (wrap 8 t) 0
  | IExt t b =>
      (* EncodeRawExt: encodeExtPreamble(uint8(re.Tag), len(re.Data)); writeb(re.Data) -- WriteExt is not consulted *)
      ext_preamble (wrap 8 t) (len b) ++ b
  | ITime s n => enc_time O s n
  end.

(* ------------------------------------------------------------------ *)
(* reader: bytesDecReader over the remaining suffix [b] of a buffer of capacity [cap];
   the cursor is z.c = cap - len b.  readx slices z.b[z.c : z.c+n] (bounds panic ->
   io.ErrUnexpectedEOF), skip compares z.c+n with cap; both sums are computed in uint
   (64 bit) and wrap. *)

Definition rd_n1 (b : list N) : res (N * list N) :=
  match b with
  | [] => Err EEof
  | x :: r => Ok (x, r)
  end.

(* readn2/4/8: [k]byte(z.b[z.c:]) *)
Definition rd_nk (k : nat) (b : list N) : res (list N * list N) :=
  let x := firstn k b in
  if (length x <? k)%nat then Err EEof else Ok (x, skipn k b).

Definition cursor (cap : N) (b : list N) : N := cap - len b.

(* the first n elements and the rest, None when there are fewer than n (cost O(min n (len b))) *)
Fixpoint split_at (n : N) (b : list N) {struct b} : option (list N * list N) :=
  if n =? 0 then Some ([], b)
  else match b with
       | [] => None
       | x :: r => match split_at (n - 1) r with
                   | Some (p, q) => Some (x :: p, q)
                   | None => None
                   end
       end.

(* readx, literally: bs = z.b[z.c : z.c+n]; z.c += n *)
Definition rd_readx_lit (cap : N) (n : N) (b : list N) : res (list N * list N) :=
  let c := cursor cap b in
  let s := wrap 64 (c + n) in
  if (s <? c) || (cap <? s) then Err EEof
  else Ok (firstn (N.to_nat n) b, skipn (N.to_nat n) b).

(* skip, literally (after fix 9c7e1f6): if l := cap; z.c > l || n > l-z.c { halt }; z.c += n.
   The sum z.c+n is no longer formed, nothing wraps. *)
Definition rd_skip_lit (cap : N) (n : N) (b : list N) : res (list N) :=
  let c := cursor cap b in
  if (cap <? c) || (cap - c <? n) then Err EEof
  else Ok (skipn (N.to_nat n) b).

(* What the parsers use.  readx: when cap + n < 2^64 the sum cannot wrap (z.c <= cap) and the
   test is "fewer than n bytes remain", decided without measuring the whole suffix; otherwise
   the literal arithmetic.  skip: "fewer than n bytes remain".
   MsgpackProofs.rd_readx_lit_eq / rd_skip_lit_eq: equal to the literal versions whenever
   len b <= cap. *)
Definition rd_readx (cap : N) (n : N) (b : list N) : res (list N * list N) :=
  if cap + n <? 2 ^ 64 then
    match split_at n b with Some pq => Ok pq | None => Err EEof end
  else rd_readx_lit cap n b.

Definition rd_skip (n : N) (b : list N) : res (list N) :=
  match split_at n b with Some pq => Ok (snd pq) | None => Err EEof end.

(* ------------------------------------------------------------------ *)
(* descriptor classes: the partition of the first byte both parsers switch on *)

Inductive desc :=
| DNil | DFalse | DTrue | DF32 | DF64
| DUint (k : nat) | DInt (k : nat)      (* payload width 1,2,4,8 *)
| DFixNum                               (* positive or negative fixnum *)
| DStr (w : nat) | DBin (w : nat)       (* width of the length field; 0 = fixstr *)
| DArr (w : nat) | DMap (w : nat)       (* 0 = fix, 2, 4 *)
| DFixExt (n : N) | DExt (w : nat)
| DBad.

Definition classify (bd : N) : desc :=
  if bd =? bNil then DNil
  else if bd =? bFalse then DFalse
  else if bd =? bTrue then DTrue
  else if bd =? bFloat then DF32
  else if bd =? bDouble then DF64
  else if bd =? bUint8 then DUint 1
  else if bd =? bUint16 then DUint 2
  else if bd =? bUint32 then DUint 4
  else if bd =? bUint64 then DUint 8
  else if bd =? bInt8 then DInt 1
  else if bd =? bInt16 then DInt 2
  else if bd =? bInt32 then DInt 4
  else if bd =? bInt64 then DInt 8
  else if bd <=? bPosFixNumMax then DFixNum
  else if (bNegFixNumMin <=? bd) && (bd <=? bNegFixNumMax) then DFixNum
  else if bd =? bStr8 then DStr 1
  else if bd =? bStr16 then DStr 2
  else if bd =? bStr32 then DStr 4
  else if (bFixStrMin <=? bd) && (bd <=? bFixStrMax) then DStr 0
  else if bd =? bBin8 then DBin 1
  else if bd =? bBin16 then DBin 2
  else if bd =? bBin32 then DBin 4
  else if bd =? bArray16 then DArr 2
  else if bd =? bArray32 then DArr 4
  else if (bFixArrayMin <=? bd) && (bd <=? bFixArrayMax) then DArr 0
  else if bd =? bMap16 then DMap 2
  else if bd =? bMap32 then DMap 4
  else if (bFixMapMin <=? bd) && (bd <=? bFixMapMax) then DMap 0
  else if bd =? bFixExt1 then DFixExt 1
  else if bd =? bFixExt2 then DFixExt 2
  else if bd =? bFixExt4 then DFixExt 4
  else if bd =? bFixExt8 then DFixExt 8
  else if bd =? bFixExt16 then DFixExt 16
  else if bd =? bExt8 then DExt 1
  else if bd =? bExt16 then DExt 2
  else if bd =? bExt32 then DExt 4
  else DBad.

(* readContainerLen / readExtLen: width 0 = length in the descriptor (bFixMin ^ bd).
   clen = int(uintW) on a 64-bit platform: never negative, so it can never equal the
   containerLenNil sentinel (math.MinInt32). *)
Definition rd_len (fixmin : N) (bd : N) (w : nat) (b : list N) : res (N * list N) :=
  match w with
  | O => Ok (N.lxor fixmin bd, b)
  | _ => do (x, r) <- rd_nk w b ;; Ok (be_get x, r)
  end.

(* ------------------------------------------------------------------ *)
(* instrumented results: (outcome, recursion depth reached below this point) *)

Definition ires (A : Type) : Type := (res A * nat)%type.
Definition iret {A} (a : A) : ires A := (Ok a, O).
Definition ierr {A} (e : eclass) : ires A := (Err e, O).
Definition ilift {A} (r : res A) : ires A := (r, O).
Definition ibind {A B} (r : ires A) (f : A -> ires B) : ires B :=
  match fst r with
  | Ok a => let q := f a in (fst q, Nat.max (snd r) (snd q))
  | Err e => (Err e, snd r)
  | OutOfFuel => (OutOfFuel, snd r)
  end.
(* one more frame of the recursive function *)
Definition iframe {A} (r : ires A) : ires A := (fst r, S (snd r)).

Notation "'ido' x <- r ;; k" := (ibind r (fun x => k)) (at level 200, x pattern, r at level 100, k at level 200, right associativity).

(* ------------------------------------------------------------------ *)
(* DecodeNaked and what kInterfaceNaked builds from it *)

(* float64(math.Float32frombits(b)) as bits: exact widening; a signalling NaN comes out quiet *)
Definition f32_to_f64 (b : N) : N :=
  let s := (b / 2 ^ 31) mod 2 in
  let e := (b / 2 ^ 23) mod 256 in
  let m := b mod 2 ^ 23 in
  let sign := s * 2 ^ 63 in
  if e =? 255 then
    (if m =? 0 then sign + 2047 * 2 ^ 52
     else sign + 2047 * 2 ^ 52 + N.lor (m * 2 ^ 29) (2 ^ 51))
  else if e =? 0 then
    (if m =? 0 then sign
     else
       let k := N.log2 m in                      (* m = 2^k + f, value m * 2^-149 *)
       sign + (k + 874) * 2 ^ 52 + (m - 2 ^ k) * 2 ^ (52 - k))
  else sign + (e + 896) * 2 ^ 52 + m * 2 ^ 29.

(* n.v == valueTypeUint && SignedInteger: n.i = int64(chkOvf.SignedIntV(n.u))  (after fix 3c4765d).
   mkuint is the item when the conversion does not overflow; mkuint_r is what the code does:
   the last statement of DecodeNaked, after the value has been read completely, halts with
   "uint64 to int64 overflow" when n.u > math.MaxInt64. *)
Definition mkuint (D : dopts) (u : N) : item :=
  if d_signedinteger D then IInt (signed 64 u) else IUint u.
Definition mkuint_r (D : dopts) (u : N) : res item :=
  if d_signedinteger D && (2 ^ 63 <=? u) then Err EOverflow else Ok (mkuint D u).

(* fauxUnionReadRawBytes(asString, rawToString) *)
Definition mkraw (asString : bool) (s : list N) : item :=
  if asString then IStr s else IBytes s.

(* time.Unix(sec, nsec) for 0 <= nsec: carries whole seconds into sec (int64 arithmetic);
   observed as (t.Unix(), t.Nanosecond()) *)
Definition unix_time (sec : Z) (nsec : N) : item :=
  ITime (signed 64 (wrapZ 64 (sec + Z.of_N (nsec / 1000000000)))) (nsec mod 1000000000).

(* decodeTime(clen) *)
Definition dec_time (clen : N) (b : list N) : res (item * list N) :=
  if clen =? 4 then
    do (x, r) <- rd_nk 4 b ;; Ok (unix_time (Z.of_N (be_get x)) 0, r)
  else if clen =? 8 then
    do (x, r) <- rd_nk 8 b ;;
    let tv := be_get x in
    Ok (unix_time (Z.of_N (N.land tv 17179869183)) (N.shiftr tv 34), r)
  else if clen =? 12 then
    do (x, r) <- rd_nk 4 b ;;
    do (y, r') <- rd_nk 8 r ;;
    Ok (unix_time (signed 64 (be_get y)) (be_get x), r')
  else Err EOther.

(* kMap into map[interface{}]interface{}: a []byte key is stored as a string; a key whose
   dynamic type is not hashable ([]interface{}, map, RawExt) makes mapassign panic
   (a runtime error, recovered by Decode as an error) *)
Definition key_fix (k : item) : item :=
  match k with IBytes s => IStr s | _ => k end.
Definition hashable (k : item) : bool :=
  match k with IArr _ | IMap _ | IExt _ _ | ITag _ _ => false | _ => true end.

(* depthIncr: d.depth++; if d.depth >= d.maxdepth { halt } *)
Definition depth_incr (D : dopts) (depth : Z) : res Z :=
  if (maxdepth D <=? depth + 1)%Z then Err EDepth else Ok (depth + 1)%Z.

Section Dec.
  Variable D : dopts.
  Variable cap : N.

  (* decI: one value into a nil interface{}.
     dec_seq: the element loop of DecSliceIntfY (for j < containerLen).
     dec_pairs: the entry loop of kMap. Entries are returned in stream order, as read;
     Go's map keeps the last entry of equal keys (MsgpackCorr.go_map_view). *)
  Fixpoint decI (fuel : nat) (depth : Z) (b : list N) {struct fuel} : ires (item * list N) :=
    match fuel with
    | O => (OutOfFuel, O)
    | S f =>
      iframe
      match b with
      | [] => ierr EEof                                   (* readNextBd *)
      | bd :: r =>
        match classify bd with
        | DNil => iret (INil, r)
        | DFalse => iret (IBool false, r)
        | DTrue => iret (IBool true, r)
        | DF32 => ilift (do (x, r') <- rd_nk 4 r ;; Ok (IF64 (f32_to_f64 (be_get x)), r'))
        | DF64 => ilift (do (x, r') <- rd_nk 8 r ;; Ok (IF64 (be_get x), r'))
        | DUint k => ilift (do (x, r') <- rd_nk k r ;; do it <- mkuint_r D (be_get x) ;; Ok (it, r'))
        | DInt k => ilift (do (x, r') <- rd_nk k r ;; Ok (IInt (signed (8 * N.of_nat k) (be_get x)), r'))
        | DFixNum => iret (IInt (signed 8 bd), r)
        | DStr w =>
            ilift (do (n, r1) <- rd_len bFixStrMin bd w r ;;
                   do (s, r2) <- rd_readx cap n r1 ;;
                   Ok (mkraw (d_writeext D || d_rawtostring D) s, r2))
        | DBin w =>
            ilift (do (n, r1) <- rd_len 0 bd w r ;;
                   do (s, r2) <- rd_readx cap n r1 ;;
                   Ok (mkraw (d_rawtostring D) s, r2))
        | DArr w =>
            ido (n, r1) <- ilift (rd_len bFixArrayMin bd w r) ;;
            ido d' <- ilift (depth_incr D depth) ;;
            ido (l, r2) <- dec_seq f d' n r1 ;;
            iret (IArr l, r2)
        | DMap w =>
            ido (n, r1) <- ilift (rd_len bFixMapMin bd w r) ;;
            ido d' <- ilift (depth_incr D depth) ;;
            ido (l, r2) <- dec_pairs f d' n r1 ;;
            iret (IMap l, r2)
        | DFixExt n =>
            ilift (do (tag, r1) <- rd_n1 r ;;
                   if tag =? bTimeExtTagU then dec_time n r1
                   else do (s, r2) <- rd_readx cap n r1 ;; Ok (IExt tag s, r2))
        | DExt w =>
            ilift (do (n, r0) <- rd_len 0 bd w r ;;
                   do (tag, r1) <- rd_n1 r0 ;;
                   if tag =? bTimeExtTagU then dec_time n r1
                   else do (s, r2) <- rd_readx cap n r1 ;; Ok (IExt tag s, r2))
        | DBad => ierr EBadDesc
        end
      end
    end
  with dec_seq (fuel : nat) (depth : Z) (n : N) (b : list N) {struct fuel} : ires (list item * list N) :=
    if n =? 0 then iret ([], b)
    else
      match fuel with
      | O => (OutOfFuel, O)
      | S f =>
        ido (x, r) <- decI f depth b ;;
        ido (xs, r') <- dec_seq f depth (n - 1) r ;;
        iret (x :: xs, r')
      end
  with dec_pairs (fuel : nat) (depth : Z) (n : N) (b : list N) {struct fuel} : ires (list (item * item) * list N) :=
    if n =? 0 then iret ([], b)
    else
      match fuel with
      | O => (OutOfFuel, O)
      | S f =>
        ido (k, r) <- decI f depth b ;;
        ido (v, r') <- decI f depth r ;;
        if hashable (key_fix k) then
          ido (xs, r'') <- dec_pairs f depth (n - 1) r' ;;
          iret ((key_fix k, v) :: xs, r'')
        else ierr EOther
      end.

  (* nextValueBytesBdReadR (after the F14-1 repair): containers do depthIncr after their
     length is read and depthDecr after their last element *)
  Fixpoint skipI (fuel : nat) (depth : Z) (b : list N) {struct fuel} : ires (list N) :=
    match fuel with
    | O => (OutOfFuel, O)
    | S f =>
      iframe
      match b with
      | [] => ierr EEof
      | bd :: r =>
        match classify bd with
        | DNil | DFalse | DTrue | DFixNum => iret r
        | DF32 => ilift (rd_skip 4 r)
        | DF64 => ilift (rd_skip 8 r)
        | DUint k | DInt k =>
            match k with
            | 1%nat => ilift (do (_, r') <- rd_n1 r ;; Ok r')
            | _ => ilift (rd_skip (N.of_nat k) r)
            end
        | DStr w => ilift (do (n, r1) <- rd_len bFixStrMin bd w r ;; rd_skip n r1)
        | DBin w => ilift (do (n, r1) <- rd_len 0 bd w r ;; rd_skip n r1)
        | DArr w =>
            ido (n, r1) <- ilift (rd_len bFixArrayMin bd w r) ;;
            ido d' <- ilift (depth_incr D depth) ;;
            skip_seq f d' n r1
        | DMap w =>
            ido (n, r1) <- ilift (rd_len bFixMapMin bd w r) ;;
            ido d' <- ilift (depth_incr D depth) ;;
            skip_pairs f d' n r1
        | DFixExt n =>
            ilift (do (_, r1) <- rd_n1 r ;;
                   if n =? 1 then (do (_, r2) <- rd_n1 r1 ;; Ok r2) else rd_skip n r1)
        | DExt w =>
            ilift (do (n, r0) <- rd_len 0 bd w r ;;
                   do (_, r1) <- rd_n1 r0 ;;
                   rd_skip n r1)
        | DBad => ierr EBadDesc
        end
      end
    end
  with skip_seq (fuel : nat) (depth : Z) (n : N) (b : list N) {struct fuel} : ires (list N) :=
    if n =? 0 then iret b
    else
      match fuel with
      | O => (OutOfFuel, O)
      | S f =>
        ido r <- skipI f depth b ;;
        skip_seq f depth (n - 1) r
      end
  with skip_pairs (fuel : nat) (depth : Z) (n : N) (b : list N) {struct fuel} : ires (list N) :=
    if n =? 0 then iret b
    else
      match fuel with
      | O => (OutOfFuel, O)
      | S f =>
        ido r <- skipI f depth b ;;
        ido r' <- skipI f depth r ;;
        skip_pairs f depth (n - 1) r'
      end.
End Dec.

(* ------------------------------------------------------------------ *)
(* entry points: Decode(&v) with v a nil interface{} on NewDecoderBytes(b), and
   nextValueBytes on the same reader *)

Definition dec_fuel (b : list N) : nat := 2 * length b + 1.

Definition dec_naked (D : dopts) (fuel : nat) (b : list N) : res (item * list N) :=
  fst (decI D (len b) fuel 0%Z b).
Definition dec_maxrec (D : dopts) (fuel : nat) (b : list N) : nat :=
  snd (decI D (len b) fuel 0%Z b).

(* nextValueBytes with d.depth = depth0 on entry: 0 for Decode(&Raw) at the top level, 1 when
   swallowing the value of an unknown field of a struct decoded from a map (kStruct's mapStart
   has taken one level; with MaxDepth = 1 that mapStart already fails) *)
Definition skip_at (D : dopts) (depth0 : Z) (fuel : nat) (b : list N) : res (list N) :=
  fst (skipI D fuel depth0 b).
Definition skip (D : dopts) (fuel : nat) (b : list N) : res (list N) := skip_at D 0 fuel b.
Definition skip_maxrec (D : dopts) (fuel : nat) (b : list N) : nat :=
  snd (skipI D fuel 0%Z b).
Definition skip_in_struct (D : dopts) (fuel : nat) (b : list N) : res (list N) :=
  do d' <- depth_incr D 0 ;; skip_at D d' fuel b.

(* NumBytesRead after a successful call that left [rest] of [b] *)
Definition numread (b rest : list N) : N := len b - len rest.

(* Wire/CborTime — the TimeRFC3339 form round-trips: parsing what fmt_rfc3339 printed gives back the
   instant, for every instant whose (proleptic Gregorian, UTC) year is 0..9999 — the range Go's
   RFC 3339 formatter accepts.  Calendar part: Hinnant's civil_from_days / days_from_civil are mutual
   inverses; the day-of-era facts are checked exhaustively over the 146097 days of an era (two nested
   ranges, vm_compute) and lifted to every era arithmetically. *)
From Coq Require Import List NArith ZArith Lia Bool Arith.
From Coq Require Import ZifyN ZifyNat ZifyBool.
From Verif Require Import Base.Outcome Wire.Item Gen.Consts Wire.CborFloat Wire.Cbor.
Import ListNotations.
Open Scope N_scope.

(* ---- decimal digits ---- *)
Lemma dig_digit : forall d, d < 10 -> dig (48 + d) = Some d.
Proof.
  intros d H. unfold dig.
  replace (48 <=? 48 + d) with true by (symmetry; apply N.leb_le; lia).
  replace (48 + d <=? 57) with true by (symmetry; apply N.leb_le; lia).
  cbn [andb]. f_equal. lia.
Qed.

Lemma num_app : forall l x acc,
  num (l ++ [x]) acc =
  match num l acc with
  | Some a => match dig x with Some d => Some (a * 10 + d) | None => None end
  | None => None
  end.
Proof.
  induction l; intros x acc; cbn [app num].
  - destruct (dig x); reflexivity.
  - destruct (dig a); [apply IHl | reflexivity].
Qed.

Lemma num_digits : forall k v acc, v < 10 ^ N.of_nat k -> num (digits k v) acc = Some (acc * 10 ^ N.of_nat k + v).
Proof.
  induction k; intros v acc H.
  - cbn in H. cbn [digits num]. f_equal. cbn. lia.
  - cbn [digits]. rewrite num_app.
    rewrite Nat2N.inj_succ, N.pow_succ_r' in *.
    rewrite IHk by (apply N.div_lt_upper_bound; lia).
    rewrite dig_digit by (apply N.mod_lt; lia). f_equal.
    pose proof (N.div_mod' v 10). lia.
Qed.

Lemma digits_length : forall k v, length (digits k v) = k.
Proof. induction k; intros; cbn [digits]; [reflexivity | rewrite app_length, IHk; simpl; lia]. Qed.

Lemma pad9_pow : forall k v, pad9 k v = v * 10 ^ N.of_nat k.
Proof.
  induction k; intros v; cbn [pad9]; [cbn; lia |].
  rewrite IHk. rewrite Nat2N.inj_succ, N.pow_succ_r'. lia.
Qed.

Lemma trim0_spec : forall k v k' v', trim0 k v = (k', v') -> v < 10 ^ N.of_nat k ->
  (k' <= k)%nat /\ v' * 10 ^ N.of_nat (k - k') = v /\ v' < 10 ^ N.of_nat k'.
Proof.
  induction k; intros v k' v' E H.
  - cbn [trim0] in E. inversion E; subst. cbn in *. repeat split; lia.
  - cbn [trim0] in E. destruct (v mod 10 =? 0) eqn:Em.
    + apply N.eqb_eq in Em.
      rewrite Nat2N.inj_succ, N.pow_succ_r' in H.
      destruct (IHk _ _ _ E) as (H1 & H2 & H3); [apply N.div_lt_upper_bound; lia |].
      repeat split; [lia | | assumption].
      replace (S k - k')%nat with (S (k - k')) by lia.
      rewrite Nat2N.inj_succ, N.pow_succ_r'. pose proof (N.div_mod' v 10). lia.
    + inversion E; subst. repeat split; [lia | | assumption].
      replace (S k - S k)%nat with O by lia. cbn. lia.
Qed.

(* ---- the shape parse_core accepts ---- *)
Definition parse_fields (Y M D H I S tl : list N) : option (Z * Z) :=
  match num Y 0, num M 0, num D 0, num H 0, num I 0, num S 0 with
  | Some y, Some m, Some d, Some h, Some mi, Some sc =>
      let fr := match tl with
                | 46 :: r => let ds := removelast r in
                             if (Nat.leb 1 (length ds)) && (Nat.leb (length ds) 9) && (last r 0 =? 90)
                             then match num ds 0 with Some v => Some (pad9 (9 - length ds) v) | None => None end
                             else None
                | [90] => Some 0
                | _ => None
                end in
      match fr with
      | Some ns =>
          if (1 <=? m) && (m <=? 12) && (1 <=? d) && (Z.of_N d <=? days_in_month (Z.of_N y) (Z.of_N m))%Z
             && (h <=? 23) && (mi <=? 59) && (sc <=? 59)
          then Some ((days_from_civil (Z.of_N y) (Z.of_N m) (Z.of_N d) * 86400 + Z.of_N (h * 3600 + mi * 60 + sc))%Z, Z.of_N ns)
          else None
      | None => None
      end
  | _, _, _, _, _, _ => None
  end.

Lemma parse_core_fields : forall Y M D H I S tl,
  length Y = 4%nat -> length M = 2%nat -> length D = 2%nat -> length H = 2%nat -> length I = 2%nat -> length S = 2%nat ->
  parse_core (Y ++ [45] ++ M ++ [45] ++ D ++ [84] ++ H ++ [58] ++ I ++ [58] ++ S ++ tl) = parse_fields Y M D H I S tl.
Proof.
  intros Y M D H I S tl HY HM HD HH HI HS.
  destruct Y as [| y1 [| y2 [| y3 [| y4 [| ? ?]]]]]; try discriminate.
  destruct M as [| m1 [| m2 [| ? ?]]]; try discriminate.
  destruct D as [| d1 [| d2 [| ? ?]]]; try discriminate.
  destruct H as [| h1 [| h2 [| ? ?]]]; try discriminate.
  destruct I as [| i1 [| i2 [| ? ?]]]; try discriminate.
  destruct S as [| s1 [| s2 [| ? ?]]]; try discriminate.
  reflexivity.
Qed.

(* ---- calendar: one era, exhaustively ---- *)
Definition leap (y : Z) : bool := ((y mod 4 =? 0) && (negb (y mod 100 =? 0) || (y mod 400 =? 0)))%Z.

Definition era_ok (doe : Z) : bool :=
  let yoe := ((doe - doe / 1460 + doe / 36524 - doe / 146096) / 365)%Z in
  let doy := (doe - (365 * yoe + yoe / 4 - yoe / 100))%Z in
  let mp := ((5 * doy + 2) / 153)%Z in
  let d := (doy - (153 * mp + 2) / 5 + 1)%Z in
  let m := (if mp <? 10 then mp + 3 else mp - 9)%Z in
  let y0 := (yoe + (if m <=? 2 then 1 else 0))%Z in
  ((0 <=? yoe) && (yoe <=? 399) && (0 <=? mp) && (mp <=? 11) && (1 <=? d) && (d <=? days_in_month y0 m)
   && ((153 * mp + 2) / 5 + d - 1 =? doy) && (yoe * 365 + yoe / 4 - yoe / 100 + doy =? doe))%Z.

Lemma era_sweep :
  forallb (fun i => forallb (fun j => let doe := (Z.of_nat i * 383 + Z.of_nat j)%Z in
                                      (146097 <=? doe)%Z || era_ok doe) (seq 0 383)) (seq 0 383) = true.
Proof. vm_compute. reflexivity. Qed.

Lemma era_all : forall doe, (0 <= doe < 146097)%Z -> era_ok doe = true.
Proof.
  intros doe H. pose proof era_sweep as S. rewrite forallb_forall in S.
  specialize (S (Z.to_nat (doe / 383))).
  assert (Hin : In (Z.to_nat (doe / 383)) (seq 0 383)).
  { apply in_seq. assert (0 <= doe / 383 < 383)%Z by (split; [apply Z.div_pos; lia | apply Z.div_lt_upper_bound; lia]). lia. }
  specialize (S Hin). rewrite forallb_forall in S.
  specialize (S (Z.to_nat (doe mod 383))).
  assert (Hin2 : In (Z.to_nat (doe mod 383)) (seq 0 383)).
  { apply in_seq. pose proof (Z.mod_pos_bound doe 383). lia. }
  specialize (S Hin2). cbv zeta in S.
  assert (0 <= doe / 383)%Z by (apply Z.div_pos; lia).
  pose proof (Z.mod_pos_bound doe 383 ltac:(lia)).
  rewrite !Z2Nat.id in S by lia.
  replace (doe / 383 * 383 + doe mod 383)%Z with doe in S by (pose proof (Z.div_mod doe 383); lia).
  apply orb_prop in S. destruct S as [S | S]; [apply Z.leb_le in S; lia | exact S].
Qed.

Lemma dim_shift : forall y0 e m, days_in_month (y0 + e * 400) m = days_in_month y0 m.
Proof.
  intros. unfold days_in_month.
  replace ((y0 + e * 400) mod 4)%Z with (y0 mod 4)%Z by (replace (e * 400)%Z with (e * 100 * 4)%Z by lia; rewrite Z.mod_add by lia; reflexivity).
  replace ((y0 + e * 400) mod 100)%Z with (y0 mod 100)%Z by (replace (e * 400)%Z with (e * 4 * 100)%Z by lia; rewrite Z.mod_add by lia; reflexivity).
  replace ((y0 + e * 400) mod 400)%Z with (y0 mod 400)%Z by (rewrite Z.mod_add by lia; reflexivity).
  reflexivity.
Qed.

(* civil_from_days is inverted by days_from_civil and yields a valid date, for every day number *)
Theorem civil_inverse : forall days y m d, civil days = (y, m, d) ->
  (1 <= m <= 12)%Z /\ (1 <= d <= days_in_month y m)%Z /\ days_from_civil y m d = days
  /\ (y - 400 <= (days + 719468) / 146097 * 400 <= y)%Z.
Proof.
  intros days y m d E. unfold civil in E. cbv zeta in E.
  set (z := (days + 719468)%Z) in *.
  set (era := (z / 146097)%Z) in *.
  set (doe := (z mod 146097)%Z) in *.
  assert (Hdoe : (0 <= doe < 146097)%Z) by (apply Z.mod_pos_bound; lia).
  pose proof (era_all doe Hdoe) as Hok. unfold era_ok in Hok. cbv zeta in Hok.
  set (yoe := ((doe - doe / 1460 + doe / 36524 - doe / 146096) / 365)%Z) in *.
  set (doy := (doe - (365 * yoe + yoe / 4 - yoe / 100))%Z) in *.
  set (mp := ((5 * doy + 2) / 153)%Z) in *.
  set (d0 := (doy - (153 * mp + 2) / 5 + 1)%Z) in *.
  set (m0 := (if (mp <? 10)%Z then (mp + 3)%Z else (mp - 9)%Z)) in *.
  inversion E as [[Ey Em Ed]]. clear E.
  repeat (apply andb_prop in Hok; destruct Hok as [Hok ?]).
  repeat match goal with
         | H : (_ <=? _)%Z = true |- _ => apply Z.leb_le in H
         | H : (_ =? _)%Z = true |- _ => apply Z.eqb_eq in H
         end.
  assert (Hz : z = (era * 146097 + doe)%Z) by (subst era doe; pose proof (Z.div_mod z 146097); lia).
  assert (Hm0 : (1 <= m0 <= 12)%Z) by (subst m0; destruct (mp <? 10)%Z eqn:Q; [apply Z.ltb_lt in Q | apply Z.ltb_ge in Q]; lia).
  set (c := (if (m0 <=? 2)%Z then 1%Z else 0%Z)) in *.
  assert (Hc : (c = 0 \/ c = 1)%Z) by (subst c; destruct (m0 <=? 2)%Z; lia).
  split; [exact Hm0 |]. split.
  - replace (yoe + era * 400 + c)%Z with ((yoe + c) + era * 400)%Z by lia. rewrite dim_shift. lia.
  - split.
    + unfold days_from_civil. cbv zeta.
      assert (Ey1 : (if (m0 <=? 2)%Z then (yoe + era * 400 + c - 1)%Z else (yoe + era * 400 + c)%Z) = (yoe + era * 400)%Z).
      { subst c. destruct (m0 <=? 2)%Z; lia. }
      rewrite Ey1.
      assert (Eera : ((yoe + era * 400) / 400 = era)%Z).
      { rewrite Z.div_add by lia. rewrite Z.div_small by lia. lia. }
      rewrite Eera.
      replace (yoe + era * 400 - era * 400)%Z with yoe by lia.
      assert (Emp : (if (m0 >? 2)%Z then (m0 - 3)%Z else (m0 + 9)%Z) = mp).
      { subst m0. destruct (mp <? 10)%Z eqn:Q; [apply Z.ltb_lt in Q | apply Z.ltb_ge in Q].
        - replace (mp + 3 >? 2)%Z with true by (symmetry; apply Z.gtb_lt; lia). lia.
        - replace (mp - 9 >? 2)%Z with false by (symmetry; rewrite Z.gtb_ltb; apply Z.ltb_ge; lia). lia. }
      rewrite Emp. lia.
    + fold z. fold era. lia.
Qed.

Definition year_ok (sec : Z) : bool :=
  let '(y, _, _) := civil (sec / 86400) in ((0 <=? y) && (y <=? 9999))%Z.

(* parsing what the formatter printed gives back the instant *)
Theorem parse_fmt : forall sec nsec, year_ok sec = true -> nsec < 1000000000 ->
  parse_core (fmt_rfc3339 sec nsec) = Some (sec, Z.of_N nsec).
Proof.
  intros sec nsec Hy Hn. unfold fmt_rfc3339, year_ok in *.
  destruct (civil (sec / 86400)) as [[y m] d] eqn:Ec.
  destruct (civil_inverse _ _ _ _ Ec) as (Hm & Hd & Hdays & _).
  apply andb_prop in Hy. destruct Hy as [Hy0 Hy1]. apply Z.leb_le in Hy0. apply Z.leb_le in Hy1.
  set (rem := Z.to_N (sec mod 86400)).
  assert (Hrem : rem < 86400) by (subst rem; pose proof (Z.mod_pos_bound sec 86400); lia).
  destruct (trim0 9 nsec) as [k v] eqn:Et.
  destruct (trim0_spec 9 nsec k v Et ltac:(cbn; lia)) as (Hk & Hv & Hvk).
  assert (Hdim : (days_in_month y m <= 31)%Z).
  { unfold days_in_month. repeat match goal with |- context [if ?c then _ else _] => destruct c end; lia. }
  cbv beta iota zeta. fold rem.
  rewrite parse_core_fields by apply digits_length.
  unfold parse_fields.
  rewrite !num_digits; try (cbn; lia).
  rewrite !N.mul_0_l, !N.add_0_l.
  assert (Efr : match (match k with O => [] | S _ => 46 :: digits k v end) ++ [90] with
                | 46 :: r => let ds := removelast r in
                             if (Nat.leb 1 (length ds)) && (Nat.leb (length ds) 9) && (last r 0 =? 90)
                             then match num ds 0 with Some v0 => Some (pad9 (9 - length ds) v0) | None => None end
                             else None
                | [90] => Some 0
                | _ => None
                end = Some nsec).
  { destruct k as [| k'].
    - cbn [app]. f_equal. cbn in Hv, Hvk. lia.
    - cbn [app]. cbv zeta. rewrite removelast_last, last_last, digits_length.
      replace (Nat.leb 1 (S k')) with true by reflexivity.
      replace (Nat.leb (S k') 9) with true by (symmetry; apply Nat.leb_le; lia).
      cbn [andb N.eqb Pos.eqb]. rewrite num_digits by assumption. rewrite pad9_pow. f_equal. lia. }
  cbv zeta in Efr. rewrite Efr.
  assert (Hh : rem / 3600 < 24) by (apply N.div_lt_upper_bound; lia).
  assert (Hmi : rem / 60 mod 60 < 60) by (apply N.mod_lt; lia).
  assert (Hsc : rem mod 60 < 60) by (apply N.mod_lt; lia).
  rewrite !Z2N.id by lia.
  replace (1 <=? Z.to_N m) with true by (symmetry; apply N.leb_le; lia).
  replace (Z.to_N m <=? 12) with true by (symmetry; apply N.leb_le; lia).
  replace (1 <=? Z.to_N d) with true by (symmetry; apply N.leb_le; lia).
  replace (d <=? days_in_month y m)%Z with true by (symmetry; apply Z.leb_le; lia).
  replace (rem / 3600 <=? 23) with true by (symmetry; apply N.leb_le; lia).
  replace (rem / 60 mod 60 <=? 59) with true by (symmetry; apply N.leb_le; lia).
  replace (rem mod 60 <=? 59) with true by (symmetry; apply N.leb_le; lia).
  cbn [andb]. rewrite Hdays. f_equal. f_equal.
  assert (E1 : rem / 3600 * 3600 + rem / 60 mod 60 * 60 + rem mod 60 = rem).
  { pose proof (N.div_mod' rem 60). pose proof (N.div_mod' (rem / 60) 60).
    replace (rem / 3600) with (rem / 60 / 60) by (rewrite N.div_div by lia; reflexivity). lia. }
  rewrite E1. subst rem. pose proof (Z.mod_pos_bound sec 86400). rewrite Z2N.id by lia.
  pose proof (Z.div_mod sec 86400). lia.
Qed.

Lemma year_ok_range : forall sec, year_ok sec = true -> (-100000000000 <= sec <= 400000000000)%Z.
Proof.
  intros sec H. unfold year_ok in H. destruct (civil (sec / 86400)) as [[y m] d] eqn:Ec.
  destruct (civil_inverse _ _ _ _ Ec) as (_ & _ & _ & He).
  apply andb_prop in H. destruct H as [H0 H1]. apply Z.leb_le in H0. apply Z.leb_le in H1.
  pose proof (Z.div_mod (sec / 86400 + 719468) 146097 ltac:(lia)).
  pose proof (Z.mod_pos_bound (sec / 86400 + 719468) 146097 ltac:(lia)).
  pose proof (Z.div_mod sec 86400 ltac:(lia)).
  pose proof (Z.mod_pos_bound sec 86400 ltac:(lia)).
  lia.
Qed.

(* tag 0: time.Parse(RFC3339) of what AppendFormat(RFC3339Nano) printed, then .UTC().Round(Microsecond)
   (decodeTime rounds BOTH forms to the microsecond) *)
Theorem parse_rfc3339_fmt : forall sec nsec, year_ok sec = true -> nsec < 1000000000 ->
  parse_rfc3339 (fmt_rfc3339 sec nsec) = Ok (ITime (fst (round_us sec nsec)) (snd (round_us sec nsec))).
Proof.
  intros sec nsec Hy Hn. unfold parse_rfc3339. rewrite parse_fmt by assumption.
  pose proof (year_ok_range sec Hy) as Hr. unfold time_of_unix.
  replace ((sec <? -4611686018427387904) || (4611686018427387904 <? sec))%Z with false
    by (symmetry; apply orb_false_iff; split; apply Z.ltb_ge; lia).
  replace (Z.of_N nsec <? 0)%Z with false by (symmetry; apply Z.ltb_ge; lia).
  rewrite N2Z.id. destruct (round_us sec nsec); reflexivity.
Qed.

Example year_ok_examples :
  year_ok (-62167219200) = true /\ year_ok 253402300799 = true /\ year_ok 0 = true
  /\ year_ok (-62167219201) = false /\ year_ok 253402300800 = false.
Proof. vm_compute. repeat split. Qed.

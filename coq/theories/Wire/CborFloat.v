(* Wire/CborFloat — floats as IEEE-754 bit patterns (N), the operations the cbor
   driver performs on them.  No proofs here.

   half_to_f32 / f32_to_half are hand models of helper.go halfFloatToFloatBits /
   floatToHalfFloatBits (integer code).  widen / narrow / the arithmetic used by
   the time paths model what the hardware does (CVTSS2SD, CVTSD2SS, CVTSI2SD,
   MULSD, DIVSD, ADDSD, CVTTSD2SQ; round-to-nearest-even): they are tied to the
   implementation by the correspondence check (leaf cases), not proved. *)
From Coq Require Import List NArith ZArith Lia Bool.
Import ListNotations.
Open Scope N_scope.

(* ---- helper.go:2809 halfFloatToFloatBits(h uint16) uint32 ---- *)
Fixpoint half_renorm (k : nat) (m : N) (e : Z) : N * Z :=
  match k with
  | O => (m, e)
  | S k' => if N.land m 1024 =? 0 then half_renorm k' (m * 2) (e - 1)%Z else (m, e)
  end.

Definition half_to_f32 (h : N) : N :=
  let s := N.shiftr h 15 in
  let m := N.land h 1023 in
  let e := Z.of_N (N.land (N.shiftr h 10) 31) in
  if (e =? 0)%Z then
    if m =? 0 then N.shiftl s 31
    else
      let '(m1, e1) := half_renorm 11 m e in
      let e2 := (e1 + 1)%Z in
      let m2 := N.land m1 (N.lnot 1024 32) in
      N.lor (N.lor (N.shiftl s 31) (N.shiftl (Z.to_N (e2 + 112)) 23)) (N.shiftl m2 13)
  else if (e =? 31)%Z then
    if m =? 0 then N.lor (N.shiftl s 31) 2139095040
    else N.lor (N.lor (N.shiftl s 31) 2139095040) (N.shiftl m 13)
  else N.lor (N.lor (N.shiftl s 31) (N.shiftl (Z.to_N (e + 112)) 23)) (N.shiftl m 13).

(* ---- helper.go:2840 floatToHalfFloatBits(i uint32) uint16 ---- *)
Definition f32_to_half (i : N) : N :=
  let s := N.land (N.shiftr i 16) 32768 in
  let e := (Z.of_N (N.land (N.shiftr i 23) 255) - 112)%Z in   (* int32 of a uint32 difference: same value *)
  let m := N.land i 8388607 in
  let h32 :=
    if (e <=? 0)%Z then
      if (e <? -10)%Z then s
      else let m1 := N.shiftr (N.lor m 8388608) (Z.to_N (1 - e)) in N.lor s (N.shiftr m1 13)
    else if (e =? 143)%Z then
      if m =? 0 then N.lor s 31744
      else let m1 := N.shiftr m 13 in
           let me := if m1 =? 0 then 1 else 0 in
           N.lor (N.lor (N.lor s 31744) m1) me
    else if (30 <? e)%Z then N.lor s 31744
    else N.lor (N.lor s (N.shiftl (Z.to_N e) 10)) (N.shiftr m 13) in
  h32 mod 65536.

(* ---- generic round-to-nearest-even of sig * 2^ex (sig > 0) into a binary format
   with p significand bits (hidden bit included), smallest quantum 2^qmin and
   ebits exponent bits.  Result without the sign bit; overflow gives infinity. *)
Definition bitlen (n : N) : Z := if n =? 0 then 0%Z else (Z.of_N (N.log2 n) + 1)%Z.

Definition round_bin (p : Z) (qmin : Z) (ebits : N) (sig : N) (ex : Z) : N :=
  if sig =? 0 then 0 else
  let nb := bitlen sig in
  let q := Z.max (nb + ex - p) qmin in            (* quantum of the result *)
  let sh := (q - ex)%Z in
  let r :=
    if (sh <=? 0)%Z then N.shiftl sig (Z.to_N (- sh))
    else
      let k := Z.to_N sh in
      let r0 := N.shiftr sig k in
      let rem := sig mod (2 ^ k) in
      let half := 2 ^ (k - 1) in
      if (half <? rem) || ((rem =? half) && N.odd r0) then r0 + 1 else r0 in
  let bits := N.shiftl (Z.to_N (q - qmin)) (Z.to_N (p - 1)) + r in
  let inf := N.shiftl (2 ^ ebits - 1) (Z.to_N (p - 1)) in
  if inf <=? bits then inf else bits.

Definition round64 := round_bin 53 (-1074) 11.
Definition round32 := round_bin 24 (-149) 8.

(* decomposition of a finite double: (negative, significand, exponent) with value = sig * 2^ex *)
Definition f64_sign (b : N) : bool := N.testbit b 63.
Definition f64_exp (b : N) : N := N.land (N.shiftr b 52) 2047.
Definition f64_man (b : N) : N := N.land b 4503599627370495.
Definition f64_is_nan (b : N) : bool := (f64_exp b =? 2047) && negb (f64_man b =? 0).
Definition f64_is_inf (b : N) : bool := (f64_exp b =? 2047) && (f64_man b =? 0).
Definition f64_sig (b : N) : N := if f64_exp b =? 0 then f64_man b else f64_man b + 4503599627370496.
Definition f64_ex (b : N) : Z := (Z.of_N (if (f64_exp b =? 0)%N then 1%N else f64_exp b) - 1075)%Z.
Definition sign64 (neg : bool) : N := if neg then 9223372036854775808 else 0.
Definition f64_nan : N := 9221120237041090560.    (* 0x7ff8000000000000 *)
Definition f64_inf : N := 9218868437227405312.    (* 0x7ff0000000000000 *)

(* float64(float32frombits(b)) : CVTSS2SD (exact; a signalling NaN is quietened) *)
Definition widen (b : N) : N :=
  let s := N.shiftr b 31 in
  let e := N.land (N.shiftr b 23) 255 in
  let m := N.land b 8388607 in
  let sg := N.shiftl s 63 in
  if e =? 255 then
    if m =? 0 then sg + f64_inf
    else N.lor (sg + f64_inf) (N.lor (N.shiftl m 29) 2251799813685248)
  else if e =? 0 then sg + round64 m (-149)
  else sg + round64 (m + 8388608) (Z.of_N e - 150).

(* float32(float64frombits(b)) : CVTSD2SS *)
Definition narrow (b : N) : N :=
  let sg := if f64_sign b then 2147483648 else 0 in
  if f64_is_nan b then N.lor (sg + 2143289344) (N.shiftr (f64_man b) 29)
  else if f64_is_inf b then sg + 2139095040
  else sg + round32 (f64_sig b) (f64_ex b).

(* float64(int64) : CVTSI2SD *)
Definition f64_of_Z (z : Z) : N :=
  sign64 (z <? 0)%Z + round64 (Z.to_N (Z.abs z)) 0.

(* num/den * 2^ex rounded (num, den > 0): quotient with 70 extra bits and a sticky bit *)
Definition round64_ratio (num den : N) (ex : Z) : N :=
  let k := Z.to_N (Z.max 0 (bitlen den - bitlen num + 70)) in
  let qn := N.shiftl num k in
  let q := qn / den in
  let sticky := if qn mod den =? 0 then 0 else 1 in
  round64 (2 * q + sticky) (ex - Z.of_N k - 1).

(* a * b, a / b, a + b for finite operands (the callers never pass NaN/Inf) *)
Definition f64_mul (a b : N) : N :=
  sign64 (xorb (f64_sign a) (f64_sign b)) + round64 (f64_sig a * f64_sig b) (f64_ex a + f64_ex b).

Definition f64_div (a b : N) : N :=
  if f64_sig a =? 0 then sign64 (xorb (f64_sign a) (f64_sign b))
  else sign64 (xorb (f64_sign a) (f64_sign b)) + round64_ratio (f64_sig a) (f64_sig b) (f64_ex a - f64_ex b).

Definition f64_val2 (b : N) (ex : Z) : Z :=      (* value / 2^ex, for ex <= f64_ex b *)
  let v := (Z.of_N (f64_sig b) * 2 ^ (f64_ex b - ex))%Z in if f64_sign b then (- v)%Z else v.

Definition f64_add (a b : N) : N :=
  let ex := Z.min (f64_ex a) (f64_ex b) in
  let v := (f64_val2 a ex + f64_val2 b ex)%Z in
  if (v =? 0)%Z then (if f64_sign a && f64_sign b then sign64 true else 0)
  else sign64 (v <? 0)%Z + round64 (Z.to_N (Z.abs v)) ex.

(* math.Modf: integer part (as a double) and fraction; finite input *)
Definition f64_trunc (b : N) : N :=
  let e := f64_exp b in
  if e <? 1023 then sign64 (f64_sign b)
  else if 1075 <=? e then b
  else let k := 1075 - e in N.shiftl (N.shiftr b k) k.

Definition f64_neg (b : N) : N := N.lxor b 9223372036854775808.
Definition f64_sub (a b : N) : N := f64_add a (f64_neg b).

(* int64(f) : CVTTSD2SQ — out of range or NaN gives MinInt64 *)
Definition f64_to_int64 (b : N) : Z :=
  if (f64_exp b =? 2047) then (- 2 ^ 63)%Z
  else
    let t := f64_trunc b in
    let ex := f64_ex t in
    let mag := if (0 <=? ex)%Z then (Z.of_N (f64_sig t) * 2 ^ ex)%Z else (Z.of_N (f64_sig t) / 2 ^ (- ex))%Z in
    let v := if f64_sign t then (- mag)%Z else mag in
    if ((v <? - 2 ^ 63) || (2 ^ 63 <=? v))%Z then (- 2 ^ 63)%Z else v.

(* a float compares equal to itself unless NaN; +0 == -0 *)
Definition f64_eq (a b : N) : bool :=
  negb (f64_is_nan a) && negb (f64_is_nan b) &&
  ((a =? b) || ((f64_sig a =? 0) && (f64_sig b =? 0) && (f64_exp a =? 0) && (f64_exp b =? 0))).

Definition f64_1e9 : N := 4741671816366391296.   (* 0x41cdcd6500000000 *)

(* Wire/CborDepth — the recursion of the decode-into-interface{} model is bounded by MaxDepth
   for EVERY input and every fuel (second half of dec_depth). *)
From Coq Require Import List NArith ZArith Lia Bool Arith.
From Coq Require Import ZifyN ZifyNat ZifyBool.
From Verif Require Import Base.Outcome Wire.Item Gen.Consts Wire.CborFloat Wire.Cbor.
Import ListNotations.
Open Scope N_scope.

(* the deepest level a call made at depth d, level r may reach *)
Definition bnd (D : dopts) (d : Z) (r : nat) : nat := (r + Z.to_nat (maxdepth D - 1 - d))%nat.

Lemma bnd_ge : forall D d r, (r <= bnd D d r)%nat.
Proof. intros. unfold bnd. lia. Qed.

Lemma bnd_step : forall D d r, depth_ok D d = true -> bnd D (d + 1) (S r) = bnd D d r.
Proof. intros D d r H. unfold depth_ok in H. apply Z.ltb_lt in H. unfold bnd. lia. Qed.

Lemma snd_bindI_le {A B} : forall (m : resI A) (k : A -> resI B) X,
  (snd m <= X)%nat -> (forall a, (snd (k a) <= X)%nat) -> (snd (bindI m k) <= X)%nat.
Proof.
  intros m k X Hm Hk. unfold bindI. destruct (fst m); cbn [snd]; [| assumption | assumption].
  specialize (Hk a). lia.
Qed.

Lemma snd_liftI {A} : forall r (x : res A), snd (liftI r x) = r.
Proof. reflexivity. Qed.

Section Body.
  Variable D : dopts.
  Variable f' : nat.
  Variable self : Z -> nat -> list N -> resI (item * list N).
  Variable arrd : Z -> nat -> N -> list N -> resI (list item * list N).
  Variable arri : Z -> nat -> list N -> resI (list item * list N).
  Variable mapd : Z -> nat -> N -> list item -> list N -> resI (list (item * item) * list N).
  Variable mapi : Z -> nat -> list item -> list N -> resI (list (item * item) * list N).
  Hypothesis Hself : forall d r b, (snd (self d r b) <= bnd D d r)%nat.
  Hypothesis Harrd : forall d r n b, (snd (arrd d r n b) <= bnd D d r)%nat.
  Hypothesis Harri : forall d r b, (snd (arri d r b) <= bnd D d r)%nat.
  Hypothesis Hmapd : forall d r n s b, (snd (mapd d r n s b) <= bnd D d r)%nat.
  Hypothesis Hmapi : forall d r s b, (snd (mapi d r s b) <= bnd D d r)%nat.

  Lemma dec_tag_bnd : forall d r t b2, (snd (dec_tag D f' self d r t b2) <= bnd D d r)%nat.
  Proof.
    intros. unfold dec_tag. pose proof (bnd_ge D d r).
    repeat match goal with |- context [if ?c then _ else _] => destruct c eqn:? end;
      rewrite ?snd_liftI; cbn [snd]; try lia; try apply Hself.
    apply snd_bindI_le.
    - rewrite <- (bnd_step D d r) by assumption. apply Hself.
    - intros [v b3]. cbn [snd]. lia.
  Qed.

  Lemma dec_body_bnd : forall d r bd b1,
    (snd (dec_body D f' self arrd arri mapd mapi d r bd b1) <= bnd D d r)%nat.
  Proof.
    intros. unfold dec_body. pose proof (bnd_ge D d r).
    destruct (kind_of bd); rewrite ?snd_liftI; try lia.
    - destruct (bd =? bdIndefArray).
      + destruct (depth_ok D d) eqn:E; cbn [snd]; [| lia].
        apply snd_bindI_le; [rewrite <- (bnd_step D d r) by assumption; apply Harri | intros [l b2]; cbn [snd]; lia].
      + apply snd_bindI_le; [rewrite snd_liftI; lia |]. intros [n b2].
        destruct (depth_ok D d) eqn:E; cbn [snd]; [| lia].
        apply snd_bindI_le; [rewrite <- (bnd_step D d r) by assumption; apply Harrd | intros [l b3]; cbn [snd]; lia].
    - destruct (bd =? bdIndefMap).
      + destruct (depth_ok D d) eqn:E; cbn [snd]; [| lia].
        apply snd_bindI_le; [rewrite <- (bnd_step D d r) by assumption; apply Hmapi | intros [l b2]; cbn [snd]; lia].
      + apply snd_bindI_le; [rewrite snd_liftI; lia |]. intros [n b2].
        destruct (depth_ok D d) eqn:E; cbn [snd]; [| lia].
        apply snd_bindI_le; [rewrite <- (bnd_step D d r) by assumption; apply Hmapd | intros [l b3]; cbn [snd]; lia].
    - apply snd_bindI_le; [rewrite snd_liftI; lia |]. intros [t b2]. apply dec_tag_bnd.
    - unfold dec_simple.
      repeat match goal with |- context [if ?c then _ else _] => destruct c end; rewrite ?snd_liftI; cbn [snd]; lia.
  Qed.

  Lemma map_entry_bnd : forall d r seen b, (snd (map_entry self d r seen b) <= bnd D d r)%nat.
  Proof.
    intros. unfold map_entry. pose proof (bnd_ge D d r).
    apply snd_bindI_le; [apply Hself |]. intros [k0 b1].
    destruct b1; cbn [snd]; [lia |].
    repeat match goal with |- context [if ?c then _ else _] => destruct c end; cbn [snd]; try lia.
    apply snd_bindI_le; [apply Hself | intros [v b2]; cbn [snd]; lia].
  Qed.
End Body.

Theorem dec_bnd : forall D f,
  (forall d r b, (snd (dec D f d r b) <= bnd D d r)%nat) /\
  (forall d r n b, (snd (arr_def D f d r n b) <= bnd D d r)%nat) /\
  (forall d r b, (snd (arr_indef D f d r b) <= bnd D d r)%nat) /\
  (forall d r n s b, (snd (map_def D f d r n s b) <= bnd D d r)%nat) /\
  (forall d r s b, (snd (map_indef D f d r s b) <= bnd D d r)%nat).
Proof.
  intros D. induction f as [| f' (IH1 & IH2 & IH3 & IH4 & IH5)].
  - repeat apply conj; intros; cbn [dec arr_def arr_indef map_def map_indef snd]; apply bnd_ge.
  - repeat apply conj; intros.
    + cbn [dec]. destruct b as [| bd b1]; [cbn [snd]; apply bnd_ge |]. apply dec_body_bnd; assumption.
    + cbn [arr_def]. destruct (n =? 0); [cbn [snd]; apply bnd_ge |].
      apply snd_bindI_le; [apply IH1 |]. intros [x b1].
      apply snd_bindI_le; [apply IH2 |]. intros [xs b2]. cbn [snd]. apply bnd_ge.
    + cbn [arr_indef]. destruct b as [| bd b1]; [cbn [snd]; apply bnd_ge |].
      destruct (bd =? bdBreak); [cbn [snd]; apply bnd_ge |].
      apply snd_bindI_le; [apply IH1 |]. intros [x b2].
      apply snd_bindI_le; [apply IH3 |]. intros [xs b3]. cbn [snd]. apply bnd_ge.
    + cbn [map_def]. destruct (n =? 0); [cbn [snd]; apply bnd_ge |].
      apply snd_bindI_le; [apply map_entry_bnd with (arrd := arr_def D f') (arri := arr_indef D f') (mapd := map_def D f') (mapi := map_indef D f'); assumption |]. intros [kv b2].
      apply snd_bindI_le; [apply IH4 |]. intros [kvs b3]. cbn [snd]. apply bnd_ge.
    + cbn [map_indef]. destruct b as [| bd b0]; [cbn [snd]; apply bnd_ge |].
      destruct (bd =? bdBreak); [cbn [snd]; apply bnd_ge |].
      apply snd_bindI_le; [apply map_entry_bnd with (arrd := arr_def D f') (arri := arr_indef D f') (mapd := map_def D f') (mapi := map_indef D f'); assumption |]. intros [kv b2].
      apply snd_bindI_le; [apply IH5 |]. intros [kvs b3]. cbn [snd]. apply bnd_ge.
Qed.

(* for every byte string, every option vector and every fuel: the recursion level reached while
   decoding into interface{} never exceeds MaxDepth - 1 *)
Lemma dec_maxrec_lemma : forall (D : dopts) (f : nat) (b : list N),
  (dec_maxrec D f b <= Z.to_nat (maxdepth D - 1))%nat.
Proof.
  intros. unfold dec_maxrec. pose proof (proj1 (dec_bnd D f) 0%Z 0%nat b) as H.
  unfold bnd in H. replace (maxdepth D - 1 - 0)%Z with (maxdepth D - 1)%Z in H by lia. lia.
Qed.

(* ---- the skip walker (after F14-1) ---- *)
Section SkipBodyB.
  Variable D : dopts.
  Variable f' : nat.
  Variable self : Z -> nat -> list N -> resI (list N).
  Variable skn : Z -> nat -> N -> list N -> resI (list N).
  Variable ski : Z -> nat -> bool -> list N -> resI (list N).
  Hypothesis Hself : forall d r b, (snd (self d r b) <= bnd D d r)%nat.
  Hypothesis Hskn : forall d r n b, (snd (skn d r n b) <= bnd D d r)%nat.
  Hypothesis Hski : forall d r p b, (snd (ski d r p b) <= bnd D d r)%nat.

  Lemma skip_body_bnd : forall d r bd b1,
    (snd (skip_body D f' self skn ski d r bd b1) <= bnd D d r)%nat.
  Proof.
    intros. unfold skip_body. pose proof (bnd_ge D d r).
    destruct (kind_of bd); rewrite ?snd_liftI; try lia.
    - destruct ((bd =? bdIndefBytes) || (bd =? bdIndefString)); rewrite snd_liftI; lia.
    - destruct ((bd =? bdIndefBytes) || (bd =? bdIndefString)); rewrite snd_liftI; lia.
    - destruct (depth_ok D d) eqn:E; cbn [negb snd]; [| lia].
      destruct (bd =? bdIndefArray).
      + rewrite <- (bnd_step D d r) by assumption. apply Hski.
      + apply snd_bindI_le; [rewrite snd_liftI; lia |]. intros [u b2].
        rewrite <- (bnd_step D d r) by assumption. apply Hskn.
    - destruct (depth_ok D d) eqn:E; cbn [negb snd]; [| lia].
      destruct (bd =? bdIndefMap).
      + rewrite <- (bnd_step D d r) by assumption. apply Hski.
      + apply snd_bindI_le; [rewrite snd_liftI; lia |]. intros [u b2].
        rewrite <- (bnd_step D d r) by assumption. apply Hskn.
    - apply snd_bindI_le; [rewrite snd_liftI; lia |]. intros [u b2].
      destruct (depth_ok D d) eqn:E; cbn [negb snd]; [| lia].
      rewrite <- (bnd_step D d r) by assumption. apply Hself.
    - unfold skip_simple.
      repeat match goal with |- context [if ?c then _ else _] => destruct c end; rewrite ?snd_liftI; cbn [snd]; lia.
  Qed.
End SkipBodyB.

Theorem skip_bnd : forall D f,
  (forall d r b, (snd (skipw D f d r b) <= bnd D d r)%nat) /\
  (forall d r n b, (snd (skip_n D f d r n b) <= bnd D d r)%nat) /\
  (forall d r p b, (snd (skip_indef D f d r p b) <= bnd D d r)%nat).
Proof.
  intros D. induction f as [| f' (IH1 & IH2 & IH3)].
  - repeat apply conj; intros; cbn [skipw skip_n skip_indef snd]; apply bnd_ge.
  - repeat apply conj; intros.
    + cbn [skipw]. destruct b as [| bd b1]; [cbn [snd]; apply bnd_ge |]. apply skip_body_bnd; assumption.
    + cbn [skip_n]. destruct (n =? 0); [cbn [snd]; apply bnd_ge |].
      apply snd_bindI_le; [apply IH1 |]. intros b1. apply IH2.
    + cbn [skip_indef]. destruct b as [| bd b0]; [cbn [snd]; apply bnd_ge |].
      destruct (bd =? bdBreak); [cbn [snd]; apply bnd_ge |].
      apply snd_bindI_le; [apply IH1 |]. intros b1.
      apply snd_bindI_le; [destruct p; [apply IH1 | cbn [snd]; apply bnd_ge] |]. intros b2. apply IH3.
Qed.

Lemma skip_maxrec_lemma : forall (D : dopts) (f : nat) (d : Z) (b : list N),
  (0 <= d)%Z -> (skip_maxrec D f d b <= Z.to_nat (maxdepth D - 1))%nat.
Proof.
  intros D f d b Hd. unfold skip_maxrec. pose proof (proj1 (skip_bnd D f) d 0%nat b) as H.
  unfold bnd in H. lia.
Qed.

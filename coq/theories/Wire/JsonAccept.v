(* Wire/JsonAccept — the READING direction at document level: on EVERY text the reference parser of
   Wire/JsonDoc.v accepts (RFC 8259: any white space between tokens, any nesting, any number / string
   literal), Decode(&interface{}) of the model Wire/Json.v computes exactly [jdec] of the reference
   parse: the item denoting the same data, or the first error a left-to-right reading meets
   (nesting >= MaxDepth: EDepth; a number literal the number reader refuses, e.g. 1e999; a repeated member
   name: EUnsupported = not modelled).

   The proof is a simulation between the position of the reference parser (a suffix [s] of the text) and
   the tokenizer state [st] (one byte of look-ahead): the invariant is  advance st = skipws s, which is all
   dec / dec_elems / dec_pairs / check_sep / dec_strkey ever ask of their state.  Induction on the fuel of
   the reference parser.  The string leaf enters through [str_law] (decoder = Spec.unescape on what
   Spec.unescape accepts, outside F09-2r = [pinfree]); it is proved for the C09 string model in
   C09/ProofsRead.v.  Numbers need no law: the reference parser hands the literal text to the same
   [naked_num] the decoder applies to the maximal run of number characters, and both texts coincide
   because a value is followed by white space, a separator or the end. *)
From Coq Require Import List NArith ZArith Bool Lia.
From Verif Require Import Base.Outcome Wire.Item Gen.Consts Wire.Json Wire.JsonProofs Wire.JsonRT Wire.JsonTotal Wire.JsonLeaf Wire.JsonDoc Wire.JsonDocProofs.
From Verif Require C09.Spec C09.Model C09.ProofsStr C09.ProofsRead.
Import ListNotations.
Open Scope N_scope.

Module PR := Verif.C09.ProofsRead.

(* ------------------------------------------------------------------ *)
(* definitions                                                         *)

Definition pinfree : list N -> bool := PR.pinfree.

(* the string literals the reference parser reads (values and member names), each as the suffix of the
   text that starts at its opening quote; same traversal as std_value / std_elems / std_members *)
Fixpoint strs_value (fuel : nat) (s : list N) {struct fuel} : list (list N) :=
  match fuel with
  | O => []
  | S f =>
    match sws s with
    | [] => []
    | c :: r =>
      if c =? 34 then [c :: r]
      else if c =? 91 then strs_elems f r
      else if c =? 123 then strs_members f r
      else []
    end
  end
with strs_elems (fuel : nat) (s : list N) {struct fuel} : list (list N) :=
  match fuel with
  | O => []
  | S f =>
    strs_value f s ++
    match std_value f s with
    | Some (_, r) => match sws r with c :: r' => if c =? 44 then strs_elems f r' else [] | [] => [] end
    | None => []
    end
  end
with strs_members (fuel : nat) (s : list N) {struct fuel} : list (list N) :=
  match fuel with
  | O => []
  | S f =>
    match sws s with
    | c :: r0 =>
      if c =? 34 then
        (c :: r0) ::
        match Verif.C09.Spec.unescape (c :: r0) with
        | Some (_, r) =>
          match sws r with
          | c2 :: r2 =>
            if c2 =? 58 then
              strs_value f r2 ++
              match std_value f r2 with
              | Some (_, r3) => match sws r3 with c3 :: r4 => if c3 =? 44 then strs_members f r4 else [] | [] => [] end
              | None => []
              end
            else []
          | [] => []
          end
        | None => []
        end
      else []
    | [] => []
    end
  end.

Definition doc_strings (s : list N) : list (list N) := strs_value (2 * length s + 2) s.

(* no string literal of the document is in the class F09-2r *)
Definition doc_pinfree (s : list N) : bool := forallb pinfree (doc_strings s).

Definition isnumv (v : jvalue) : bool := match v with JNum _ => true | _ => false end.

(* what the decoder leaves unread behind the value: a bare number's delimiter byte is consumed as the
   pending token *)
Definition unread (v : jvalue) (r : list N) : list N := inp (after (isnumv v) r).

(* induction over the nested lists of a jvalue *)
Section JInd.
  Variable P : jvalue -> Prop.
  Hypothesis Hnull : P JNull.
  Hypothesis Hbool : forall b, P (JBool b).
  Hypothesis Hnum : forall t, P (JNum t).
  Hypothesis Hstr : forall d, P (JStr d).
  Hypothesis Harr : forall l, Forall P l -> P (JArr l).
  Hypothesis Hobj : forall l, Forall (fun kv => P (snd kv)) l -> P (JObj l).
  Fixpoint jvalue_ind' (v : jvalue) : P v :=
    match v with
    | JNull => Hnull
    | JBool b => Hbool b
    | JNum t => Hnum t
    | JStr d => Hstr d
    | JArr l => Harr l ((fix go (l : list jvalue) : Forall P l :=
                           match l with [] => Forall_nil _ | x :: r => Forall_cons _ (jvalue_ind' x) (go r) end) l)
    | JObj l => Hobj l ((fix go (l : list (list N * jvalue)) : Forall (fun kv => P (snd kv)) l :=
                           match l with
                           | [] => Forall_nil _
                           | kv :: r => Forall_cons kv (jvalue_ind' (snd kv)) (go r)
                           end) l)
    end.
End JInd.

(* nesting depth of a document: arrays and objects each add one level *)
Fixpoint jdepth (v : jvalue) : nat :=
  match v with
  | JArr l => S (fold_right (fun x m => Nat.max (jdepth x) m) 0%nat l)
  | JObj l => S (fold_right (fun kv m => Nat.max (jdepth (snd kv)) m) 0%nat l)
  | _ => 0%nat
  end.

Section Acc.
Variable L : leaf.

(* a member name as the decoder hands it back: map[string]interface{} keeps the string; under MapKeyAsString
   with map[interface{}]interface{} a name that reads as true / false / a number becomes that value *)
Definition jkey (D : dopts) (k : list N) : item := if smap D then IStr k else rd_quoted L D true k.

(* Decode(&interface{}) as a function of the reference parse, read left to right:
   [depth] = decoderBase.depth, [key] = map-key position *)
Fixpoint jdec (D : dopts) (depth : Z) (key : bool) (v : jvalue) {struct v} : res item :=
  match v with
  | JNull => Ok INil
  | JBool b => Ok (IBool b)
  | JNum t => naked_num L D t
  | JStr d => Ok (rd_quoted L D key d)
  | JArr l =>
    do d' <- depth_enter D depth ;;
    do xs <- (fix go (l : list jvalue) : res (list item) :=
                match l with
                | [] => Ok []
                | x :: r => do i <- jdec D d' false x ;; do xs <- go r ;; Ok (i :: xs)
                end) l ;;
    Ok (IArr xs)
  | JObj l =>
    do d' <- depth_enter D depth ;;
    do kvs <- (fix go (seen : list item) (l : list (list N * jvalue)) : res (list (item * item)) :=
                 match l with
                 | [] => Ok []
                 | kv :: r =>
                   if seen_key seen (jkey D (fst kv)) then Err EUnsupported else
                   do vi <- jdec D d' false (snd kv) ;;
                   do kvs <- go (jkey D (fst kv) :: seen) r ;;
                   Ok ((jkey D (fst kv), vi) :: kvs)
                 end) [] l ;;
    Ok (IMap kvs)
  end.

Definition jdec_list (D : dopts) (d' : Z) : list jvalue -> res (list item) :=
  fix go (l : list jvalue) : res (list item) :=
    match l with
    | [] => Ok []
    | x :: r => do i <- jdec D d' false x ;; do xs <- go r ;; Ok (i :: xs)
    end.

Definition jdec_pairs (D : dopts) (d' : Z) : list item -> list (list N * jvalue) -> res (list (item * item)) :=
  fix go (seen : list item) (l : list (list N * jvalue)) : res (list (item * item)) :=
    match l with
    | [] => Ok []
    | kv :: r =>
      if seen_key seen (jkey D (fst kv)) then Err EUnsupported else
      do vi <- jdec D d' false (snd kv) ;;
      do kvs <- go (jkey D (fst kv) :: seen) r ;;
      Ok ((jkey D (fst kv), vi) :: kvs)
    end.

Lemma jdec_arr : forall D dp key l,
  jdec D dp key (JArr l) = (do d' <- depth_enter D dp ;; do xs <- jdec_list D d' l ;; Ok (IArr xs)).
Proof. reflexivity. Qed.

Lemma jdec_obj : forall D dp key l,
  jdec D dp key (JObj l) = (do d' <- depth_enter D dp ;; do kvs <- jdec_pairs D d' [] l ;; Ok (IMap kvs)).
Proof. reflexivity. Qed.

Lemma jdec_list_cons : forall D d x r,
  jdec_list D d (x :: r) = (do i <- jdec D d false x ;; do xs <- jdec_list D d r ;; Ok (i :: xs)).
Proof. reflexivity. Qed.

Lemma jdec_pairs_cons : forall D d seen k v r,
  jdec_pairs D d seen ((k, v) :: r) =
    (if seen_key seen (jkey D k) then Err EUnsupported else
     do vi <- jdec D d false v ;;
     do kvs <- jdec_pairs D d (jkey D k :: seen) r ;;
     Ok ((jkey D k, vi) :: kvs)).
Proof. reflexivity. Qed.

(* the item a document denotes for the decoder, when nothing stands in the way ... *)
Fixpoint jitem (D : dopts) (key : bool) (v : jvalue) {struct v} : item :=
  match v with
  | JNull => INil
  | JBool b => IBool b
  | JNum t => nn_or_nil L D t
  | JStr d => rd_quoted L D key d
  | JArr l => IArr (map (jitem D false) l)
  | JObj l => IMap (map (fun kv => (jkey D (fst kv), jitem D false (snd kv))) l)
  end.

(* ... that is: every number literal is one the number reader takes (1e999 is not: out of range for
   float64; 18446744073709551616 under SignedInteger is not), and the member names of each object are
   pairwise different as the keys the decoder makes of them *)
Fixpoint names_fresh (D : dopts) (seen : list item) (ks : list (list N)) : Prop :=
  match ks with
  | [] => True
  | k :: r => seen_key seen (jkey D k) = false /\ names_fresh D (jkey D k :: seen) r
  end.

Fixpoint jsupp (D : dopts) (v : jvalue) {struct v} : Prop :=
  match v with
  | JNum t => exists i, naked_num L D t = Ok i
  | JArr l => (fix go (l : list jvalue) : Prop := match l with [] => True | x :: r => jsupp D x /\ go r end) l
  | JObj l => names_fresh D [] (map fst l) /\
              (fix go (l : list (list N * jvalue)) : Prop :=
                 match l with [] => True | kv :: r => jsupp D (snd kv) /\ go r end) l
  | _ => True
  end.

Lemma jdec_ok : forall v D dp key, jsupp D v -> (dp + Z.of_nat (jdepth v) < maxdepth D)%Z ->
  jdec D dp key v = Ok (jitem D key v).
Proof.
  induction v as [|b|t|d|l IH|l IH] using jvalue_ind'; intros D dp key Hs Hd; try reflexivity.
  - destruct Hs as [i Hi]. cbn [jdec jitem]. unfold nn_or_nil. rewrite Hi. reflexivity.
  - rewrite jdec_arr. cbn [jdepth] in Hd. rewrite depth_enter_ok by lia. cbn [bind jitem].
    assert (G : jdec_list D (dp + 1)%Z l = Ok (map (jitem D false) l)).
    { cbn [jsupp] in Hs. revert Hs Hd. induction IH as [|x q Hx Hq IHq]; intros Hs Hd; [reflexivity|].
      destruct Hs as [Hs1 Hs2]. cbn [fold_right] in Hd. rewrite jdec_list_cons.
      rewrite Hx by (auto; lia). cbn [bind]. rewrite IHq by (auto; lia). reflexivity. }
    rewrite G. reflexivity.
  - rewrite jdec_obj. cbn [jdepth] in Hd. rewrite depth_enter_ok by lia. cbn [bind jitem].
    destruct Hs as [Hn Hs].
    assert (G : forall seen, names_fresh D seen (map fst l) ->
                jdec_pairs D (dp + 1)%Z seen l = Ok (map (fun kv => (jkey D (fst kv), jitem D false (snd kv))) l)).
    { revert Hs Hd. clear Hn. induction IH as [|[k x] q Hx Hq IHq]; intros Hs Hd seen Hn; [reflexivity|].
      destruct Hs as [Hs1 Hs2]. cbn [fold_right snd fst map names_fresh] in *. destruct Hn as [Hn1 Hn2].
      rewrite jdec_pairs_cons, Hn1. rewrite Hx by (auto; lia). cbn [bind]. rewrite IHq by (auto; lia). reflexivity. }
    rewrite (G [] Hn). reflexivity.
Qed.

(* ------------------------------------------------------------------ *)
(* fuel: more of it never changes an outcome other than OutOfFuel      *)

Lemma bind_mono : forall A B (x y : res A) (k k' : A -> res B),
  (x <> OutOfFuel -> y = x) ->
  (forall a, x = Ok a -> k a <> OutOfFuel -> k' a = k a) ->
  bind x k <> OutOfFuel -> bind y k' = bind x k.
Proof.
  intros A B x y k k' Hx Hk H. destruct x as [a|e|]; cbn in H.
  - rewrite Hx by discriminate. cbn. apply Hk; [reflexivity|exact H].
  - rewrite Hx by discriminate. reflexivity.
  - congruence.
Qed.

Lemma mono_all : forall D f,
  (forall dp key s, dec L D f dp key s <> OutOfFuel -> dec L D (S f) dp key s = dec L D f dp key s) /\
  (forall dp first s, dec_elems L D f dp first s <> OutOfFuel -> dec_elems L D (S f) dp first s = dec_elems L D f dp first s) /\
  (forall dp first seen s, dec_pairs L D f dp first seen s <> OutOfFuel ->
                           dec_pairs L D (S f) dp first seen s = dec_pairs L D f dp first seen s).
Proof.
  intros D. induction f as [|f (IH1 & IH2 & IH3)].
  { repeat split; intros; cbn in *; congruence. }
  split; [|split].
  - intros dp key s. rewrite (dec_S L D (S f)), (dec_S L D f).
    apply bind_mono; [auto|]. intros s1 _. cbv zeta.
    destruct (tok s1 =? 110); [auto|]. destruct (tok s1 =? 102); [auto|]. destruct (tok s1 =? 116); [auto|].
    destruct (tok s1 =? 123).
    { apply bind_mono; [auto|]. intros d' _. apply bind_mono; [apply IH3|]. intros [kvs s2] _ _. reflexivity. }
    destruct (tok s1 =? 91).
    { apply bind_mono; [auto|]. intros d' _. apply bind_mono; [apply IH2|]. intros [xs s2] _ _. reflexivity. }
    auto.
  - intros dp first s. rewrite (dec_elems_S L D (S f)), (dec_elems_S L D f).
    apply bind_mono; [auto|]. intros s1 _.
    destruct ((tok s1 =? 125) || (tok s1 =? 93)); [auto|].
    apply bind_mono; [auto|]. intros s2 _.
    apply bind_mono; [apply IH1|]. intros [x s3] _.
    apply bind_mono; [apply IH2|]. intros [xs s4] _ _. reflexivity.
  - intros dp first seen s. rewrite (dec_pairs_S L D (S f)), (dec_pairs_S L D f).
    apply bind_mono; [auto|]. intros s1 _.
    destruct ((tok s1 =? 125) || (tok s1 =? 93)); [auto|].
    apply bind_mono; [auto|]. intros s2 _.
    destruct (smap D).
    + apply bind_mono; [auto|]. intros [k s3] _.
      apply bind_mono; [auto|]. intros s4 _.
      destruct (seen_key seen k); [auto|].
      apply bind_mono; [apply IH1|]. intros [v s5] _.
      apply bind_mono; [apply IH3|]. intros [kvs s6] _ _. reflexivity.
    + apply bind_mono; [apply IH1|]. intros [k s3] _.
      apply bind_mono; [auto|]. intros s4 _.
      apply bind_mono; [auto|]. intros s5 _.
      destruct (unhashable k); [auto|]. destruct (seen_key seen k); [auto|].
      apply bind_mono; [apply IH1|]. intros [v s6] _.
      apply bind_mono; [apply IH3|]. intros [kvs s7] _ _. reflexivity.
Qed.

Lemma dec_mono : forall D f f' dp key s, (f <= f')%nat ->
  dec L D f dp key s <> OutOfFuel -> dec L D f' dp key s = dec L D f dp key s.
Proof.
  intros D f f' dp key s Hle H. induction Hle as [|m Hle IH]; [reflexivity|].
  rewrite <- IH. apply (proj1 (mono_all D m)). rewrite IH. exact H.
Qed.

(* ------------------------------------------------------------------ *)
(* white space and tokens                                              *)

Lemma stdws_isws : forall b, stdws b = true -> isws b = true.
Proof.
  intros b H. unfold stdws in H. unfold isws.
  repeat (apply orb_prop in H as [H|H]); apply N.eqb_eq in H; subst; reflexivity.
Qed.

Lemma stdws_nonum : forall b, stdws b = true -> isnumc b = false.
Proof.
  intros b H. unfold stdws in H.
  repeat (apply orb_prop in H as [H|H]); apply N.eqb_eq in H; subst; reflexivity.
Qed.

Lemma sws_skipws : forall s c r, sws s = c :: r -> isws c = false -> skipws s = Ok (mkst c r).
Proof.
  induction s as [|b q IH]; intros c r H Hc; cbn in H; [discriminate|].
  destruct (stdws b) eqn:E.
  - cbn. rewrite (stdws_isws b E). apply IH; assumption.
  - inversion H; subst. cbn. rewrite Hc. reflexivity.
Qed.

Lemma sws_delim : forall r c r' b, sws r = c :: r' -> isnumc c = false -> delim_ok b r.
Proof.
  intros r c r' b H Hc _. destruct r as [|x q]; [exact I|]. cbn in H.
  destruct (stdws x) eqn:E; [apply stdws_nonum; exact E|]. inversion H; subst. exact Hc.
Qed.

Lemma sws_ws : forall r, sws r = [] -> forallb stdws r = true.
Proof.
  induction r as [|x q IH]; intros H; [reflexivity|]. cbn in H. destruct (stdws x) eqn:E; [|discriminate].
  cbn. rewrite E. apply IH. exact H.
Qed.

Lemma sws_nows : forall r c r', sws r = c :: r' -> stdws c = false.
Proof.
  induction r as [|x q IH]; intros c r' H; cbn in H; [discriminate|].
  destruct (stdws x) eqn:E; [eapply IH; eauto|]. inversion H; subst. exact E.
Qed.

Lemma eqbl_length : forall a b, eqbl a b = true -> length a = length b.
Proof.
  induction a as [|x a IH]; intros [|y b] H; cbn in H; try discriminate; [reflexivity|].
  apply andb_prop in H as [_ H]. cbn. f_equal. apply IH. exact H.
Qed.

Lemma lit_starts : forall p t r, starts p r = true -> lit p (mkst t r) = Ok (mkst 0 (skipn (length p) r)).
Proof.
  intros p t r H. unfold starts in H. unfold lit. cbn [inp]. pose proof (eqbl_length _ _ H) as Hl.
  rewrite firstn_length in Hl.
  replace (length r <? length p)%nat with false by (symmetry; apply Nat.ltb_ge; lia).
  rewrite H. reflexivity.
Qed.

Lemma check_sep_sws : forall st r c r', advance st = skipws r -> sws r = c :: r' -> isws c = false ->
  check_sep c st = Ok (mkst 0 r').
Proof.
  intros st r c r' Ha Hs Hc. unfold check_sep. rewrite Ha, (sws_skipws _ _ _ Hs Hc). cbn. rewrite N.eqb_refl. reflexivity.
Qed.

Lemma adv_self : forall c r, isws c = false -> advance (mkst c r) = Ok (mkst c r).
Proof. intros c r H. unfold advance. cbn [tok]. rewrite H. reflexivity. Qed.

(* entering an element / a member: the separator, then the first token of what follows *)
Lemma entry : forall (first : bool) st s c0 s0,
  advance st = skipws ((if first then [] else [44]) ++ s) -> sws s = c0 :: s0 ->
  isws c0 = false -> (c0 =? 125) = false -> (c0 =? 93) = false ->
  exists s1 s2, advance st = Ok s1 /\ ((tok s1 =? 125) || (tok s1 =? 93)) = false /\
                (if first then Ok s1 else check_sep 44 s1) = Ok s2 /\ advance s2 = Ok (mkst c0 s0).
Proof.
  intros first st s c0 s0 Ha Hs Hw H125 H93. destruct first; cbn [app] in Ha.
  - rewrite (sws_skipws _ _ _ Hs Hw) in Ha. exists (mkst c0 s0), (mkst c0 s0). cbn [tok]. rewrite H125, H93.
    repeat split; auto. apply adv_self. exact Hw.
  - change (skipws (44 :: s)) with (Ok (mkst 44 s)) in Ha. exists (mkst 44 s), (mkst 0 s).
    repeat split; auto. rewrite adv0. apply sws_skipws; assumption.
Qed.

(* ------------------------------------------------------------------ *)
(* numbers: what std_number accepts is a prefix made of number characters *)

Lemma isd_numc : forall c, isd c = true -> isnumc c = true.
Proof. intros c H. apply dig_numc. exact H. Qed.

Lemma dspan_sound : forall l a t, dspan l = (a, t) -> l = a ++ t /\ forallb isnumc a = true.
Proof.
  induction l as [|c r IH]; intros a t H; cbn in H.
  - inversion H; subst. split; reflexivity.
  - destruct (isd c) eqn:E.
    + destruct (dspan r) as [a' t'] eqn:E'. inversion H; subst. destruct (IH _ _ eq_refl) as [-> Hn].
      split; [reflexivity|]. cbn. rewrite (isd_numc c E), Hn. reflexivity.
    + inversion H; subst. split; reflexivity.
Qed.

Lemma p_int_sound : forall s a r, p_int s = Some (a, r) ->
  s = a ++ r /\ forallb isnumc a = true /\ exists c a', a = c :: a'.
Proof.
  intros [|d q] a r H; cbn in H; [discriminate|]. destruct (isd d) eqn:E; [|discriminate].
  destruct (N.eqb_spec d 48) as [->|].
  - inversion H; subst. repeat split. eauto.
  - destruct (dspan q) as [ds r'] eqn:E'. inversion H; subst. destruct (dspan_sound _ _ _ E') as [-> Hn].
    repeat split; [cbn; rewrite (isd_numc d E), Hn; reflexivity|eauto].
Qed.

Lemma p_frac_sound : forall s a r, p_frac s = Some (a, r) -> s = a ++ r /\ forallb isnumc a = true.
Proof.
  intros [|c q] a r H; cbn in H; [inversion H; subst; split; reflexivity|].
  destruct (N.eqb_spec c 46) as [->|].
  - destruct (dspan q) as [fs r'] eqn:E'. destruct (isnil fs); [discriminate|]. inversion H; subst.
    destruct (dspan_sound _ _ _ E') as [-> Hn]. split; [reflexivity|]. cbn [forallb]. rewrite Hn. reflexivity.
  - inversion H; subst. split; reflexivity.
Qed.

Lemma p_exp_sound : forall s a r, p_exp s = Some (a, r) -> s = a ++ r /\ forallb isnumc a = true.
Proof.
  intros [|e q] a r H; cbn [p_exp] in H; [inversion H; subst; split; reflexivity|].
  destruct ((e =? 101) || (e =? 69)) eqn:Ee.
  - assert (He : isnumc e = true).
    { unfold isnumc. apply orb_prop in Ee as [Ee|Ee]; rewrite Ee; rewrite ?orb_true_r; reflexivity. }
    destruct q as [|c q'].
    + cbn in H. discriminate.
    + destruct ((c =? 43) || (c =? 45)) eqn:Ec.
      * destruct (dspan q') as [es r2] eqn:E'. destruct (isnil es); [discriminate|]. inversion H; subst.
        destruct (dspan_sound _ _ _ E') as [-> Hn]. split; [reflexivity|]. cbn [forallb app]. rewrite He, Hn.
        assert (Hc : isnumc c = true).
        { unfold isnumc. apply orb_prop in Ec as [Ec|Ec]; rewrite Ec; rewrite ?orb_true_r; reflexivity. }
        rewrite Hc. reflexivity.
      * destruct (dspan (c :: q')) as [es r2] eqn:E'. destruct (isnil es); [discriminate|]. inversion H; subst.
        destruct (dspan_sound _ _ _ E') as [-> Hn]. split; [reflexivity|]. cbn [forallb app]. rewrite He, Hn. reflexivity.
  - inversion H; subst. split; reflexivity.
Qed.

Lemma std_number_sound : forall s t r, std_number s = Some (t, r) ->
  s = t ++ r /\ forallb isnumc t = true /\ exists c t', t = c :: t'.
Proof.
  intros s t r H. unfold std_number in H.
  set (sg := match s with c :: r0 => if c =? 45 then ([45], r0) else ([], s) | [] => ([], s) end) in H.
  assert (Hsg : s = fst sg ++ snd sg /\ forallb isnumc (fst sg) = true).
  { unfold sg. destruct s as [|c r0]; [split; reflexivity|]. destruct (N.eqb_spec c 45) as [->|]; split; reflexivity. }
  destruct sg as [g s1]. cbn [fst snd] in Hsg. destruct Hsg as [-> Hg].
  destruct (p_int s1) as [[it r1]|] eqn:Ei; [|discriminate].
  destruct (p_frac r1) as [[ft r2]|] eqn:Ef; [|discriminate].
  destruct (p_exp r2) as [[et r3]|] eqn:Ee; [|discriminate]. inversion H; subst.
  destruct (p_int_sound _ _ _ Ei) as (-> & Hi & c & a' & ->).
  destruct (p_frac_sound _ _ _ Ef) as (-> & Hf). destruct (p_exp_sound _ _ _ Ee) as (-> & He).
  repeat split.
  - rewrite <- !app_assoc. reflexivity.
  - rewrite !forallb_app, Hg, Hi, Hf, He. reflexivity.
  - destruct g; cbn; eauto.
Qed.

(* ------------------------------------------------------------------ *)
(* the first token of a value                                          *)

Lemma value_start : forall f s v r, std_value f s = Some (v, r) ->
  exists c r0, sws s = c :: r0 /\ isws c = false /\ (c =? 125) = false /\ (c =? 93) = false.
Proof.
  intros f s v r H. destruct f as [|f]; [discriminate|]. rewrite std_value_S in H.
  destruct (sws s) as [|c r0]; [discriminate|]. exists c, r0. split; [reflexivity|].
  destruct (N.eqb_spec c 110) as [->|]; [repeat split|].
  destruct (N.eqb_spec c 116) as [->|]; [repeat split|].
  destruct (N.eqb_spec c 102) as [->|]; [repeat split|].
  destruct (N.eqb_spec c 34) as [->|]; [repeat split|].
  destruct (N.eqb_spec c 91) as [->|]; [repeat split|].
  destruct (N.eqb_spec c 123) as [->|]; [repeat split|].
  destruct (std_number (c :: r0)) as [[t r']|] eqn:En; [|discriminate].
  destruct (std_number_sound _ _ _ En) as (Hs & Hn & c' & t' & ->). cbn [app] in Hs. inversion Hs; subst c'.
  cbn [forallb] in Hn. apply andb_prop in Hn as [Hc _].
  pose proof (numc_cases c Hc) as (Hw & _ & _ & _ & _ & _ & _ & H125 & H93 & _). auto.
Qed.

Lemma rd_quoted_hashable : forall D key bs, unhashable (rd_quoted L D key bs) = false.
Proof.
  intros D key bs. unfold rd_quoted. destruct (_ && _); [|reflexivity]. unfold quoted_key.
  destruct (eqbl bs t_true); [reflexivity|]. destruct (eqbl bs t_false); [reflexivity|].
  destruct (Verif.C09.Model.jsonIsNumberLiteral bs); [|reflexivity].
  destruct (naked_num L D bs) as [i| |] eqn:E; try reflexivity. eapply naked_num_scalar; eauto.
Qed.

(* ------------------------------------------------------------------ *)
(* the simulation                                                      *)

Definition str_law : Prop :=
  forall t d r, Verif.C09.Spec.unescape (34 :: t) = Some (d, r) -> pinfree (34 :: t) = true -> unquote L t = Ok (d, r).

Hypothesis STR : str_law.

Lemma dec_str : forall D f dp key st r0 d r1, (0 < f)%nat ->
  advance st = Ok (mkst 34 r0) -> unquote L r0 = Ok (d, r1) ->
  dec L D f dp key st = Ok (rd_quoted L D key d, mkst 0 r1).
Proof.
  intros D f dp key st r0 d r1 Hf Ha Hu. destruct f as [|f]; [lia|]. rewrite dec_S, Ha. cbn [bind tok inp]. cbv zeta.
  cbn [N.eqb Pos.eqb]. rewrite Hu. reflexivity.
Qed.

Lemma strs_value_S : forall f s, strs_value (S f) s =
    match sws s with
    | [] => []
    | c :: r =>
      if c =? 34 then [c :: r]
      else if c =? 91 then strs_elems f r
      else if c =? 123 then strs_members f r
      else []
    end.
Proof. reflexivity. Qed.

Lemma strs_elems_S : forall f s, strs_elems (S f) s =
    strs_value f s ++
    match std_value f s with
    | Some (_, r) => match sws r with c :: r' => if c =? 44 then strs_elems f r' else [] | [] => [] end
    | None => []
    end.
Proof. reflexivity. Qed.

Lemma strs_members_S : forall f s, strs_members (S f) s =
    match sws s with
    | c :: r0 =>
      if c =? 34 then
        (c :: r0) ::
        match Verif.C09.Spec.unescape (c :: r0) with
        | Some (_, r) =>
          match sws r with
          | c2 :: r2 =>
            if c2 =? 58 then
              strs_value f r2 ++
              match std_value f r2 with
              | Some (_, r3) => match sws r3 with c3 :: r4 => if c3 =? 44 then strs_members f r4 else [] | [] => [] end
              | None => []
              end
            else []
          | [] => []
          end
        | None => []
        end
      else []
    | [] => []
    end.
Proof. reflexivity. Qed.

Definition PA (f : nat) : Prop :=
  forall s v r, std_value f s = Some (v, r) -> forallb pinfree (strs_value f s) = true -> delim_ok (isnumv v) r ->
  forall D dp key st f', (f < f')%nat -> advance st = skipws s ->
  dec L D f' dp key st = (do i <- jdec D dp key v ;; Ok (i, after (isnumv v) r)).

Definition PB (f : nat) : Prop :=
  forall s vs r, std_elems f s = Some (vs, r) -> forallb pinfree (strs_elems f s) = true ->
  forall D dp (first : bool) st f', (f < f')%nat -> advance st = skipws ((if first then [] else [44]) ++ s) ->
  dec_elems L D f' dp first st = (do xs <- jdec_list D dp vs ;; Ok (xs, mkst 0 r)).

Definition PC (f : nat) : Prop :=
  forall s ms r, std_members f s = Some (ms, r) -> forallb pinfree (strs_members f s) = true ->
  forall D dp (first : bool) seen st f', (f < f')%nat -> advance st = skipws ((if first then [] else [44]) ++ s) ->
  dec_pairs L D f' dp first seen st = (do kvs <- jdec_pairs D dp seen ms ;; Ok (kvs, mkst 0 r)).

Lemma stepA : forall f, PA f -> PB f -> PC f -> PA (S f).
Proof.
  intros f IHA IHB IHC s v r Hv Hp Hd D dp key st f' Hf Hadv.
  destruct f' as [|f'']; [lia|]. assert (Hf'' : (f < f'')%nat) by lia.
  rewrite std_value_S in Hv. rewrite strs_value_S in Hp.
  destruct (sws s) as [|c r0] eqn:Es; [discriminate|].
  destruct (N.eqb_spec c 110) as [->|N110].
  { destruct (starts _ r0) eqn:St; [|discriminate]. inversion Hv; subst.
    rewrite dec_S, Hadv, (sws_skipws _ _ _ Es eq_refl). cbn [bind tok]. cbv zeta. cbn [N.eqb Pos.eqb].
    rewrite (lit_starts _ _ _ St). reflexivity. }
  destruct (N.eqb_spec c 116) as [->|N116].
  { destruct (starts _ r0) eqn:St; [|discriminate]. inversion Hv; subst.
    rewrite dec_S, Hadv, (sws_skipws _ _ _ Es eq_refl). cbn [bind tok]. cbv zeta. cbn [N.eqb Pos.eqb].
    rewrite (lit_starts _ _ _ St). reflexivity. }
  destruct (N.eqb_spec c 102) as [->|N102].
  { destruct (starts _ r0) eqn:St; [|discriminate]. inversion Hv; subst.
    rewrite dec_S, Hadv, (sws_skipws _ _ _ Es eq_refl). cbn [bind tok]. cbv zeta. cbn [N.eqb Pos.eqb].
    rewrite (lit_starts _ _ _ St). reflexivity. }
  destruct (N.eqb_spec c 34) as [->|N34].
  { destruct (Verif.C09.Spec.unescape (34 :: r0)) as [[d r']|] eqn:Eu; [|discriminate]. inversion Hv; subst.
    cbn [N.eqb Pos.eqb forallb] in Hp. apply andb_prop in Hp as [Hp _].
    rewrite (dec_str D (S f'') dp key st r0 d r); [reflexivity|lia| |apply STR; assumption].
    rewrite Hadv. apply sws_skipws; [exact Es|reflexivity]. }
  destruct (N.eqb_spec c 91) as [->|N91].
  { cbn [N.eqb Pos.eqb] in Hp.
    destruct (sws r0) as [|c2 r2] eqn:E2; [discriminate|].
    rewrite dec_S, Hadv, (sws_skipws _ _ _ Es eq_refl). cbn [bind tok inp]. cbv zeta. cbn [N.eqb Pos.eqb].
    destruct (N.eqb_spec c2 93) as [->|N93].
    - inversion Hv; subst. destruct f'' as [|f3]; [lia|].
      rewrite jdec_arr. destruct (depth_enter D dp) as [d'|e|]; cbn [bind]; try reflexivity.
      rewrite dec_elems_S, adv0, (sws_skipws _ _ _ E2 eq_refl). reflexivity.
    - destruct (std_elems f r0) as [[vs r']|] eqn:Ee; [|discriminate]. inversion Hv; subst.
      rewrite jdec_arr. destruct (depth_enter D dp) as [d'|e|]; cbn [bind]; try reflexivity.
      rewrite (IHB _ _ _ Ee Hp D d' true (mkst 0 r0) f'' Hf'' eq_refl).
      cbn [jdec_list]. destruct (jdec_list D d' vs); reflexivity. }
  destruct (N.eqb_spec c 123) as [->|N123].
  { cbn [N.eqb Pos.eqb] in Hp.
    destruct (sws r0) as [|c2 r2] eqn:E2; [discriminate|].
    rewrite dec_S, Hadv, (sws_skipws _ _ _ Es eq_refl). cbn [bind tok inp]. cbv zeta. cbn [N.eqb Pos.eqb].
    destruct (N.eqb_spec c2 125) as [->|N125].
    - inversion Hv; subst. destruct f'' as [|f3]; [lia|].
      rewrite jdec_obj. destruct (depth_enter D dp) as [d'|e|]; cbn [bind]; try reflexivity.
      rewrite dec_pairs_S, adv0, (sws_skipws _ _ _ E2 eq_refl). reflexivity.
    - destruct (std_members f r0) as [[ms r']|] eqn:Ee; [|discriminate]. inversion Hv; subst.
      rewrite jdec_obj. destruct (depth_enter D dp) as [d'|e|]; cbn [bind]; try reflexivity.
      rewrite (IHC _ _ _ Ee Hp D d' true [] (mkst 0 r0) f'' Hf'' eq_refl).
      destruct (jdec_pairs D d' [] ms); reflexivity. }
  destruct (std_number (c :: r0)) as [[t r']|] eqn:En; [|discriminate]. inversion Hv; subst.
  destruct (std_number_sound _ _ _ En) as (Hs & Hn & c' & t' & ->). cbn [app] in Hs. inversion Hs; subst c' r0.
  cbn [forallb] in Hn. apply andb_prop in Hn as [Hc Ht'].
  pose proof (numc_cases c Hc) as (Hw & H110 & H102 & H116 & H123 & H91 & H34 & _).
  rewrite dec_S, Hadv, (sws_skipws _ _ _ Es Hw). cbn [bind tok inp]. cbv zeta.
  rewrite H110, H102, H116, H123, H91, H34. unfold read_num. cbn [tok inp]. rewrite Hc.
  rewrite (numspan_app t' r Ht' (Hd eq_refl)). cbn [isnil jdec isnumv].
  destruct (naked_num L D (c :: t')); cbn [bind]; try reflexivity.
Qed.

Lemma stepB : forall f, PA f -> PB f -> PB (S f).
Proof.
  intros f IHA IHB s vs r Hv Hp D dp first st f' Hf Hadv.
  destruct f' as [|f'']; [lia|]. assert (Hf'' : (f < f'')%nat) by lia.
  rewrite std_elems_S in Hv. rewrite strs_elems_S, forallb_app in Hp. apply andb_prop in Hp as [Hp1 Hp2].
  destruct (std_value f s) as [[v r1]|] eqn:Ev; [|discriminate].
  destruct (sws r1) as [|c r'] eqn:E1; [discriminate|].
  destruct (value_start _ _ _ _ Ev) as (c0 & s0 & Es & Hw & H125 & H93).
  destruct (entry first st s c0 s0 Hadv Es Hw H125 H93) as (s1 & s2 & A1 & A2 & A3 & A4).
  rewrite dec_elems_S, A1. cbn [bind]. rewrite A2, A3. cbn [bind].
  assert (Hd : delim_ok (isnumv v) r1).
  { destruct (N.eqb_spec c 44) as [->|]; [eapply sws_delim; eauto|].
    destruct (N.eqb_spec c 93) as [->|]; [eapply sws_delim; eauto|discriminate]. }
  rewrite (IHA _ _ _ Ev Hp1 Hd D dp false s2 f'' Hf'').
  2:{ rewrite A4. symmetry. apply sws_skipws; assumption. }
  destruct (N.eqb_spec c 44) as [->|N44].
  - destruct (std_elems f r') as [[vs' r'']|] eqn:Ee; [|discriminate]. inversion Hv; subst.
    rewrite jdec_list_cons. destruct (jdec D dp false v) as [i|e|]; cbn [bind]; try reflexivity.
    rewrite (IHB _ _ _ Ee Hp2 D dp false (after (isnumv v) r1) f'' Hf'').
    2:{ rewrite adv_after, adv0, (sws_skipws _ _ _ E1 eq_refl). reflexivity. }
    destruct (jdec_list D dp vs'); reflexivity.
  - destruct (N.eqb_spec c 93) as [->|]; [|discriminate]. inversion Hv; subst.
    rewrite jdec_list_cons. destruct (jdec D dp false v) as [i|e|]; cbn [bind]; try reflexivity.
    destruct f'' as [|f3]; [lia|].
    rewrite dec_elems_S, adv_after, adv0, (sws_skipws _ _ _ E1 eq_refl). reflexivity.
Qed.

Lemma stepC : forall f, PA f -> PC f -> PC (S f).
Proof.
  intros f IHA IHC s ms r Hv Hp D dp first seen st f' Hf Hadv.
  destruct f' as [|f'']; [lia|]. assert (Hf'' : (f < f'')%nat) by lia.
  rewrite std_members_S in Hv. rewrite strs_members_S in Hp.
  destruct (sws s) as [|c r0] eqn:Es; [discriminate|].
  destruct (N.eqb_spec c 34) as [->|]; [|discriminate].
  destruct (Verif.C09.Spec.unescape (34 :: r0)) as [[k r1]|] eqn:Eu; [|discriminate].
  destruct (sws r1) as [|c2 r2] eqn:E1; [discriminate|].
  destruct (N.eqb_spec c2 58) as [->|]; [|discriminate].
  destruct (std_value f r2) as [[v r3]|] eqn:Ev; [|discriminate].
  destruct (sws r3) as [|c3 r4] eqn:E3; [discriminate|].
  cbn [forallb] in Hp. apply andb_prop in Hp as [Hpk Hp]. rewrite forallb_app in Hp. apply andb_prop in Hp as [Hp1 Hp2].
  pose proof (STR r0 k r1 Eu Hpk) as Hu.
  destruct (entry first st s 34 r0 Hadv Es eq_refl eq_refl eq_refl) as (s1 & s2 & A1 & A2 & A3 & A4).
  rewrite dec_pairs_S, A1. cbn [bind]. rewrite A2, A3. cbn [bind].
  assert (Hd : delim_ok (isnumv v) r3).
  { destruct (N.eqb_spec c3 44) as [->|]; [eapply sws_delim; eauto|].
    destruct (N.eqb_spec c3 125) as [->|]; [eapply sws_delim; eauto|discriminate]. }
  destruct (value_start _ _ _ _ Ev) as (cv & xv & Esv & Hwv & _).
  (* what follows the value is the same in both map modes *)
  assert (TAIL : forall ki,
    (do (vi, s6) <- (do i <- jdec D dp false v ;; Ok (i, after (isnumv v) r3)) ;;
     do (kvs, s7) <- dec_pairs L D f'' dp false (ki :: seen) s6 ;; Ok ((ki, vi) :: kvs, s7)) =
    (do vi <- jdec D dp false v ;;
     do kvs <- jdec_pairs D dp (ki :: seen) (match (if c3 =? 44 then std_members f r4 else None) with Some (ms', _) => ms' | None => [] end) ;;
     Ok ((ki, vi) :: kvs, mkst 0 r))).
  { intros ki. destruct (jdec D dp false v) as [vi|e|]; cbn [bind]; try reflexivity.
    destruct (N.eqb_spec c3 44) as [->|N44].
    - destruct (std_members f r4) as [[ms' r5]|] eqn:Em; [|discriminate]. inversion Hv; subst.
      rewrite (IHC _ _ _ Em Hp2 D dp false (ki :: seen) (after (isnumv v) r3) f'' Hf'').
      2:{ rewrite adv_after, adv0, (sws_skipws _ _ _ E3 eq_refl). reflexivity. }
      destruct (jdec_pairs D dp (ki :: seen) ms'); reflexivity.
    - destruct (N.eqb_spec c3 125) as [->|]; [|discriminate]. inversion Hv; subst.
      destruct f'' as [|f3]; [lia|].
      rewrite dec_pairs_S, adv_after, adv0, (sws_skipws _ _ _ E3 eq_refl). reflexivity. }
  assert (MS : ms = (k, v) :: match (if c3 =? 44 then std_members f r4 else None) with Some (ms', _) => ms' | None => [] end).
  { destruct (N.eqb_spec c3 44) as [->|N44].
    - destruct (std_members f r4) as [[ms' r5]|]; [|discriminate]. inversion Hv; reflexivity.
    - destruct (N.eqb_spec c3 125) as [->|]; [|discriminate]. inversion Hv; reflexivity. }
  rewrite MS, jdec_pairs_cons. unfold jkey at 1 2 3.
  destruct (smap D) eqn:Sm.
  - unfold dec_strkey. rewrite A4. cbn [bind tok inp]. cbv zeta. cbn [N.eqb Pos.eqb]. rewrite Hu. cbn [bind].
    rewrite (check_sep_sws (mkst 0 r1) r1 58 r2 eq_refl E1 eq_refl). cbn [bind].
    destruct (seen_key seen (IStr k)); [reflexivity|].
    rewrite (IHA _ _ _ Ev Hp1 Hd D dp false (mkst 0 r2) f'' Hf'' eq_refl).
    rewrite TAIL. destruct (jdec D dp false v) as [vi|e|]; cbn [bind]; try reflexivity.
    destruct (jdec_pairs D dp (IStr k :: seen) _); reflexivity.
  - rewrite (dec_str D f'' dp true s2 r0 k r1 ltac:(lia) A4 Hu). cbn [bind].
    rewrite (check_sep_sws (mkst 0 r1) r1 58 r2 eq_refl E1 eq_refl). cbn [bind].
    rewrite adv0, (sws_skipws _ _ _ Esv Hwv). cbn [bind].
    rewrite rd_quoted_hashable.
    destruct (seen_key seen (rd_quoted L D true k)); [reflexivity|].
    rewrite (IHA _ _ _ Ev Hp1 Hd D dp false (mkst cv xv) f'' Hf'').
    2:{ rewrite (adv_self _ _ Hwv). symmetry. apply sws_skipws; assumption. }
    rewrite TAIL. destruct (jdec D dp false v) as [vi|e|]; cbn [bind]; try reflexivity.
    destruct (jdec_pairs D dp (rd_quoted L D true k :: seen) _); reflexivity.
Qed.

Lemma sim_all : forall f, PA f /\ PB f /\ PC f.
Proof.
  induction f as [|f (IA & IB & IC)].
  - repeat split; intros ? ? ? H; discriminate H.
  - split; [apply stepA; assumption|]. split; [apply stepB; assumption|apply stepC; assumption].
Qed.

(* ------------------------------------------------------------------ *)
(* exported                                                            *)

Hypothesis LT : leaf_total L.

(* one value in the middle of a text, from any tokenizer state that looks at [s] *)
Lemma dec_value_lemma : forall D fuel s v r dp key st f',
  std_value fuel s = Some (v, r) -> forallb pinfree (strs_value fuel s) = true -> delim_ok (isnumv v) r ->
  (fuel < f')%nat -> advance st = skipws s ->
  dec L D f' dp key st = (do i <- jdec D dp key v ;; Ok (i, after (isnumv v) r)).
Proof. intros D fuel s v r dp key st f' Hv Hp Hd Hf Ha. exact (proj1 (sim_all fuel) s v r Hv Hp Hd D dp key st f' Hf Ha). Qed.

Lemma doc_decodes_lemma : forall D s v rest,
  std_parse s = Some (v, rest) -> doc_pinfree s = true -> delim_ok (isnumv v) rest ->
  forall fuel, (dec_fuel (st0 s) <= fuel)%nat ->
  exists r, sws r = rest /\
    dec_naked L D fuel s = (do i <- jdec D 0%Z false v ;; Ok (i, unread v r)).
Proof.
  intros D s v rest Hp Hs Hd fuel Hf. unfold std_parse in Hp.
  destruct (std_value (2 * length s + 2) s) as [[v' r]|] eqn:Ev; [|discriminate]. inversion Hp; subst v' rest.
  exists r. split; [reflexivity|].
  assert (Hd' : delim_ok (isnumv v) r).
  { intros Hn. specialize (Hd Hn). destruct r as [|x q]; [exact I|]. cbn in Hd. destruct (stdws x) eqn:E.
    - apply stdws_nonum. exact E.
    - exact Hd. }
  assert (HF : dec_fuel (st0 s) = (2 * length s + 2)%nat) by reflexivity.
  pose proof (dec_value_lemma D _ s v r 0%Z false (st0 s) (S (2 * length s + 2)) Ev Hs Hd' ltac:(lia) eq_refl) as H1.
  assert (H0 : dec L D (dec_fuel (st0 s)) 0%Z false (st0 s) <> OutOfFuel).
  { apply dec_total_lemma; [exact LT|]. rewrite HF. cbn. lia. }
  assert (H2 : dec L D fuel 0%Z false (st0 s) = dec L D (S (2 * length s + 2)) 0%Z false (st0 s)).
  { rewrite (dec_mono D _ fuel 0%Z false (st0 s) Hf H0).
    assert (Hle : (dec_fuel (st0 s) <= S (2 * length s + 2))%nat) by (rewrite HF; lia).
    rewrite (dec_mono D _ (S (2 * length s + 2)) 0%Z false (st0 s) Hle H0). reflexivity. }
  unfold dec_naked. rewrite H2, H1. destruct (jdec D 0%Z false v); reflexivity.
Qed.

Lemma unread_ws : forall v r, forallb stdws r = true -> forallb stdws (unread v r) = true.
Proof.
  intros v r H. unfold unread, after. destruct (isnumv v); [|exact H].
  destruct r as [|x q]; [reflexivity|]. cbn in H |- *. apply andb_prop in H as [_ H]. exact H.
Qed.

(* a valid JSON document (one value, white space around it, nothing else) *)
Lemma doc_accepts_lemma : forall D s,
  valid_json s = true -> doc_pinfree s = true ->
  exists v, std_parse s = Some (v, []) /\
  forall fuel, (dec_fuel (st0 s) <= fuel)%nat ->
  exists ws, forallb stdws ws = true /\
    dec_naked L D fuel s = (do i <- jdec D 0%Z false v ;; Ok (i, ws)) /\
    (jsupp D v -> (Z.of_nat (jdepth v) < maxdepth D)%Z -> dec_naked L D fuel s = Ok (jitem D false v, ws)).
Proof.
  intros D s Hv Hp. unfold valid_json in Hv. destruct (std_parse s) as [[v rest]|] eqn:E; [|discriminate].
  destruct rest; [|discriminate]. exists v. split; [reflexivity|]. intros fuel Hf.
  destruct (doc_decodes_lemma D s v [] E Hp (fun _ => I) fuel Hf) as (r & Hr & Hd).
  exists (unread v r). split; [apply unread_ws, sws_ws; exact Hr|]. split; [exact Hd|].
  intros Hs Hdp. rewrite Hd. rewrite (jdec_ok v D 0%Z false Hs) by lia. reflexivity.
Qed.

End Acc.

(* ------------------------------------------------------------------ *)
(* the C09 string model satisfies the string law                        *)

Lemma c09_str_law : forall O, str_law (c09_leaf_of O).
Proof.
  intros O t d r Hu Hp. cbn [c09_leaf_of unquote].
  pose proof (PR.dec_string_unescape (34 :: t) d r Hu Hp) as H.
  unfold Verif.C09.Model.dec_string in H. rewrite N.eqb_refl in H. exact H.
Qed.

(* without the guard the statement is false of the faithful model: F09-2r at document level.
   The document is the one string literal  "\ud800\u0041"  (a lone high surrogate, then \u0041). *)
Definition pin_doc : list N := [34; 92; 117; 100; 56; 48; 48; 92; 117; 48; 48; 52; 49; 34].

Lemma doc_accepts_refuted_lemma : forall D,
  valid_json pin_doc = true /\ doc_pinfree pin_doc = false /\
  std_parse pin_doc = Some (JStr [239; 191; 189; 65], []) /\
  forall ws, dec_naked (c09_leaf_of toy_oracle) D (dec_fuel (st0 pin_doc)) pin_doc
             <> (do i <- jdec (c09_leaf_of toy_oracle) D 0%Z false (JStr [239; 191; 189; 65]) ;; Ok (i, ws)).
Proof.
  intros D. split; [vm_compute; reflexivity|]. split; [vm_compute; reflexivity|]. split; [vm_compute; reflexivity|].
  intros ws. cbn [jdec bind].
  assert (K : forall bs, rd_quoted (c09_leaf_of toy_oracle) D false bs = IStr bs).
  { intros bs. unfold rd_quoted. rewrite andb_false_r. reflexivity. }
  unfold dec_naked.
  rewrite (dec_str (c09_leaf_of toy_oracle) D (dec_fuel (st0 pin_doc)) 0%Z false (st0 pin_doc)
             (tl pin_doc) [239; 191; 189] []); [| cbn; lia | vm_compute; reflexivity | vm_compute; reflexivity].
  cbn [bind inp]. rewrite !K. intros H. inversion H.
Qed.

(* ------------------------------------------------------------------ *)
(* the number-kind rule of the naked decoder on the literals of the grammar: which Go type a JSON number
   becomes.  (Integer literals >= 2^64 also go to the float reader: parseUint64_simple reports overflow;
   that case is exercised by the harness, not proved here.) *)
Section Kind.
Variable L : leaf.

Definition as_float (t : list N) : res item :=
  match pfloat L t with Some b => Ok (IF64 b) | None => Err EOther end.

Lemma naked_num_int : forall D up n,
  CS.wf_numlit n = true -> CS.nfrac n = None -> CS.nexp n = None -> preferFloat D = false ->
  (CS.ival (CS.nint n) < 2 ^ 64)%Z ->
  naked_num L D (CS.render_num up n) =
    let u := CS.ival (CS.nint n) in
    if CS.nneg n then (if (2 ^ 63 <? u)%Z then as_float (CS.render_num up n) else Ok (IInt (- u)))
    else if signedInteger D then (if (2 ^ 63 <=? u)%Z then Err EOther else Ok (IInt u))
    else Ok (IUint (Z.to_N u)).
Proof.
  intros D up [ng ds fr ex] Hw Hfr Hex Hpf Hu. cbn [CS.nfrac CS.nexp CS.nint CS.nneg] in *. subst fr ex.
  unfold CS.wf_numlit in Hw. cbn [CS.nint CS.nfrac CS.nexp] in Hw. rewrite !andb_true_r in Hw.
  pose proof (PR.pus_wf_int ds Hw Hu) as Hp.
  unfold CS.render_num. cbn [CS.nneg CS.nint CS.nfrac CS.nexp]. rewrite !app_nil_r.
  unfold naked_num. rewrite Hpf. destruct ng; cbn [app].
  - rewrite N.eqb_refl. cbn [tl]. rewrite Hp. unfold uint2int_ovf, as_float. cbv zeta. reflexivity.
  - destruct ds as [|d q]; [discriminate|]. cbn [map].
    assert (Hd : CS.is_digit d = true).
    { destruct q; cbn in Hw; [exact Hw|]. apply andb_prop in Hw as [Hw _]. apply andb_prop in Hw as [Hw _]. exact Hw. }
    assert (E45 : (CS.dchar d =? 45) = false).
    { unfold CS.is_digit in Hd. apply N.ltb_lt in Hd. unfold CS.dchar. apply N.eqb_neq. lia. }
    rewrite E45. change (CS.dchar d :: map CS.dchar q) with (map CS.dchar (d :: q)). rewrite Hp.
    unfold uint2int_ovf. cbv zeta. reflexivity.
Qed.

Lemma naked_num_float : forall D up n,
  CS.wf_numlit n = true -> (preferFloat D = true \/ CS.nfrac n <> None \/ CS.nexp n <> None) ->
  naked_num L D (CS.render_num up n) = as_float (CS.render_num up n).
Proof.
  intros D up n Hw Hc. unfold naked_num. fold (as_float (CS.render_num up n)).
  destruct (preferFloat D) eqn:Hpf; [reflexivity|]. destruct Hc as [Hc|Hc]; [discriminate|].
  set (t := CS.render_num up n) in *.
  set (neg := match t with c :: _ => c =? 45 | [] => false end).
  destruct (Verif.C09.Model.parseUint64_simple (if neg then tl t else t)) as [f ok] eqn:Ep.
  destruct ok; [|reflexivity]. exfalso.
  apply PR.pus_ok_digits in Ep.
  (* the text behind the sign is digits, then a '.' or an exponent letter *)
  assert (Ht : exists a c b, (if neg then tl t else t) = a ++ c :: b /\ Verif.C09.Model.isdig c = false).
  { unfold neg, t. rewrite render_split. destruct n as [ng ds fr ex]. cbn [CS.nneg CS.nint CS.nfrac CS.nexp] in *.
    assert (Hds : exists d q, ds = d :: q /\ (CS.dchar d =? 45) = false).
    { unfold CS.wf_numlit in Hw. cbn [CS.nint] in Hw. apply andb_prop in Hw as [Hw _]. apply andb_prop in Hw as [Hw _].
      destruct ds as [|d q]; [discriminate|]. exists d, q. split; [reflexivity|].
      assert (Hd : CS.is_digit d = true).
      { destruct q; cbn in Hw; [exact Hw|]. apply andb_prop in Hw as [Hw _]. apply andb_prop in Hw as [Hw _]. exact Hw. }
      unfold CS.is_digit in Hd. apply N.ltb_lt in Hd. unfold CS.dchar. apply N.eqb_neq. lia. }
    destruct Hds as (d & q & -> & E45).
    assert (Hx : exists c b, frac_chars fr ++ exp_chars up ex = c :: b /\ Verif.C09.Model.isdig c = false).
    { destruct fr as [f0|].
      - cbn [frac_chars app]. eexists _, _. split; [reflexivity|reflexivity].
      - destruct ex as [[sg e]|]; [|destruct Hc; congruence].
        cbn [frac_chars exp_chars app]. eexists _, _. split; [reflexivity|destruct up; reflexivity]. }
    destruct Hx as (c & b & Hx & Hcd).
    destruct ng; cbn [app map]; [rewrite N.eqb_refl; cbn [tl]|rewrite E45];
      exists (CS.dchar d :: map CS.dchar q), c, b; (split; [|exact Hcd]); cbn [app]; rewrite Hx; reflexivity. }
  destruct Ht as (a & c & b & Ht & Hcd). rewrite Ht, forallb_app in Ep. cbn [forallb] in Ep. rewrite Hcd in Ep.
  rewrite andb_false_r in Ep. discriminate.
Qed.

End Kind.

(* ------------------------------------------------------------------ *)
(* the statements for the C09 leaves (any oracle for strconv / time), as Properties/C09_doc.v quotes them *)

Definition c09_doc_decodes_lemma (O : oracle) :=
  doc_decodes_lemma (c09_leaf_of O) (c09_str_law O) (c09_leaf_total O).

Definition c09_doc_accepts_lemma (O : oracle) :=
  doc_accepts_lemma (c09_leaf_of O) (c09_str_law O) (c09_leaf_total O).

Definition c09_doc_value_lemma (O : oracle) :=
  dec_value_lemma (c09_leaf_of O) (c09_str_law O).

(* the reading direction without the F09-2r guard *)
Definition doc_accepts_full_statement : Prop :=
  forall (O : oracle) (D : dopts) (s : list N), valid_json s = true ->
  exists v, std_parse s = Some (v, []) /\
  forall fuel, (dec_fuel (st0 s) <= fuel)%nat ->
  exists ws, forallb stdws ws = true /\
    dec_naked (c09_leaf_of O) D fuel s = (do i <- jdec (c09_leaf_of O) D 0%Z false v ;; Ok (i, ws)).

Lemma doc_accepts_refuted_ex :
  exists (O : oracle) (s : list N) (v : jvalue),
    valid_json s = true /\ doc_pinfree s = false /\ std_parse s = Some (v, []) /\
    forall D ws, dec_naked (c09_leaf_of O) D (dec_fuel (st0 s)) s
                 <> (do i <- jdec (c09_leaf_of O) D 0%Z false v ;; Ok (i, ws)).
Proof.
  exists toy_oracle, pin_doc, (JStr [239; 191; 189; 65]).
  destruct (doc_accepts_refuted_lemma (mkdopts false false false false 0)) as (H1 & H2 & H3 & _).
  repeat apply conj; auto. intros D ws. apply (doc_accepts_refuted_lemma D).
Qed.

Lemma doc_accepts_full_false : ~ doc_accepts_full_statement.
Proof.
  intros F. destruct doc_accepts_refuted_ex as (O & s & v & Hv & _ & Hp & Hne).
  destruct (F O (mkdopts false false false false 0) s Hv) as (v' & Hp' & H).
  rewrite Hp in Hp'. inversion Hp'; subst v'.
  destruct (H _ (le_n _)) as (ws & _ & E). exact (Hne _ ws E).
Qed.

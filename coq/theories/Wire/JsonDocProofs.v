(* Wire/JsonDocProofs — the json encoder writes valid JSON documents that the reference parser of
   Wire/JsonDoc.v reads back to [jv_of]. *)
From Coq Require Import List NArith ZArith Bool Lia.
From Verif Require Import Base.Outcome Wire.Item Gen.Consts Wire.Json Wire.JsonRT Wire.JsonLeaf Wire.JsonDoc.
From Verif Require C09.Spec C09.Model C09.ProofsStr C09.ProofsNum C09.ProofsQuote C09.ProofsUint C09.ProofsParse.
Import ListNotations.
Open Scope N_scope.

Module CS := Verif.C09.Spec.
Module CM := Verif.C09.Model.
Module PN := Verif.C09.ProofsNum.
Module PQ := Verif.C09.ProofsQuote.
Module PU := Verif.C09.ProofsUint.
Module PP := Verif.C09.ProofsParse.

(* ------------------------------------------------------------------ *)
(* white space                                                         *)

Lemma sws_app : forall ws l, forallb stdws ws = true -> sws (ws ++ l) = sws l.
Proof. induction ws as [|w r IH]; intros l H; cbn in *; [reflexivity|]. apply andb_prop in H as [H1 H2]. rewrite H1. auto. Qed.

Lemma sws_hd : forall c r, stdws c = false -> sws (c :: r) = c :: r.
Proof. intros c r H. cbn. rewrite H. reflexivity. Qed.

Lemma notws_std : forall c, isws c = false -> stdws c = false.
Proof.
  intros c H. unfold isws in H. apply N.ltb_ge in H. unfold stdws.
  repeat match goal with |- context [?a =? ?b] => destruct (N.eqb_spec a b); try lia end; try reflexivity.
Qed.

Lemma nl_stdws : forall o lvl, forallb stdws (nl o lvl) = true.
Proof.
  intros o lvl. unfold nl. destruct (indent o =? 0)%Z; [reflexivity|]. cbn.
  induction (N.to_nat _) as [|n IH]; cbn; [reflexivity|]. rewrite IH. destruct (indent o <? 0)%Z; reflexivity.
Qed.

Lemma sp_stdws : forall o, forallb stdws (sp o) = true.
Proof. intros o. unfold sp. destruct (indent o =? 0)%Z; reflexivity. Qed.

(* ------------------------------------------------------------------ *)
(* numbers: std_number reads every literal of Spec's number grammar     *)

Definition nodig (r : list N) : Prop := match r with c :: _ => isd c = false | [] => True end.

Lemma isd_dchar : forall d, CS.is_digit d = true -> isd (CS.dchar d) = true.
Proof.
  intros d H. unfold CS.is_digit in H. apply N.ltb_lt in H. unfold isd, CS.dchar.
  replace (48 <=? 48 + d) with true by (symmetry; apply N.leb_le; lia).
  replace (48 + d <=? 57) with true by (symmetry; apply N.leb_le; lia). reflexivity.
Qed.

Lemma dspan_map : forall ds r, forallb CS.is_digit ds = true -> nodig r ->
  dspan (map CS.dchar ds ++ r) = (map CS.dchar ds, r).
Proof.
  induction ds as [|d q IH]; intros r H Hr; cbn [map app].
  - destruct r as [|c r]; [reflexivity|]. cbn in Hr. cbn [dspan]. rewrite Hr. reflexivity.
  - cbn [forallb] in H. apply andb_prop in H as [H1 H2]. cbn [dspan]. rewrite (isd_dchar d H1).
    rewrite (IH r H2 Hr). reflexivity.
Qed.

Definition exp_chars (up : bool) (x : option (CS.esign * list N)) : list N :=
  match x with
  | None => []
  | Some (s, e) => (if up then 69 else 101)
                   :: match s with CS.ENone => [] | CS.EPlus => [43] | CS.EMinus => [45] end ++ map CS.dchar e
  end.
Definition frac_chars (f : option (list N)) : list N :=
  match f with None => [] | Some f => 46 :: map CS.dchar f end.

Lemma render_split : forall up n,
  CS.render_num up n = (if CS.nneg n then [45] else []) ++ map CS.dchar (CS.nint n) ++ frac_chars (CS.nfrac n) ++ exp_chars up (CS.nexp n).
Proof. intros up [ng it fr ex]. unfold CS.render_num. cbn. destruct fr; destruct ex as [[s e]|]; reflexivity. Qed.

Definition nd_ok (tl : list N) : Prop := match tl with c :: _ => isnumc c = false | [] => True end.

Lemma nd_ok_facts : forall c tl, nd_ok (c :: tl) ->
  isd c = false /\ (c =? 46) = false /\ (c =? 101) = false /\ (c =? 69) = false /\ (c =? 43) = false /\ (c =? 45) = false.
Proof.
  intros c tl H. cbn in H. unfold isnumc in H. unfold isd.
  repeat (apply orb_false_iff in H as [H ?]). repeat split; assumption.
Qed.

Lemma digits1_ne : forall e, CS.wf_digits1 e = true -> e <> [] /\ forallb CS.is_digit e = true.
Proof. intros [|d r] H; [discriminate|]. split; [discriminate|exact H]. Qed.

Lemma p_exp_ok : forall up x tl,
  match x with None => True | Some (_, e) => CS.wf_digits1 e = true end -> nd_ok tl ->
  p_exp (exp_chars up x ++ tl) = Some (exp_chars up x, tl).
Proof.
  intros up x tl Hx Hd. destruct x as [[s e]|]; cbn [exp_chars].
  - destruct (digits1_ne e Hx) as [Hne He].
    assert (Hnd : nodig tl) by (destruct tl as [|c q]; [exact I|]; apply (nd_ok_facts c q Hd)).
    assert (Hhd : exists d q, e = d :: q /\ CS.is_digit d = true).
    { destruct e as [|d q]; [congruence|]. cbn in He. apply andb_prop in He as [? _]. eauto. }
    destruct Hhd as (d & q & -> & Hdg).
    cbn [app p_exp]. replace (((if up then 69 else 101) =? 101) || ((if up then 69 else 101) =? 69)) with true by (destruct up; reflexivity).
    destruct s; cbn [app].
    + cbn [map app]. 
      assert (E1 : (CS.dchar d =? 43) || (CS.dchar d =? 45) = false).
      { unfold CS.is_digit in Hdg. apply N.ltb_lt in Hdg. unfold CS.dchar.
        destruct (N.eqb_spec (48 + d) 43); [lia|]. destruct (N.eqb_spec (48 + d) 45); [lia|]. reflexivity. }
      rewrite E1. change (CS.dchar d :: map CS.dchar q ++ tl) with (map CS.dchar (d :: q) ++ tl).
      rewrite (dspan_map (d :: q) tl He Hnd). cbn. reflexivity.
    + cbn [N.eqb Pos.eqb orb]. rewrite (dspan_map (d :: q) tl He Hnd). cbn. reflexivity.
    + cbn [N.eqb Pos.eqb orb]. rewrite (dspan_map (d :: q) tl He Hnd). cbn. reflexivity.
  - cbn [app]. destruct tl as [|c q]; [reflexivity|]. destruct (nd_ok_facts c q Hd) as (_ & _ & E1 & E2 & _).
    cbn [p_exp]. rewrite E1, E2. reflexivity.
Qed.

(* what may follow the int / frac part *)
Definition hx (X : list N) : Prop := match X with c :: _ => isd c = false /\ (c =? 46) = false | [] => True end.

Lemma p_frac_ok : forall f X,
  match f with None => True | Some f => CS.wf_digits1 f = true end -> hx X ->
  p_frac (frac_chars f ++ X) = Some (frac_chars f, X).
Proof.
  intros f X Hf HX. destruct f as [f|]; cbn [frac_chars].
  - destruct (digits1_ne f Hf) as [Hne Hd].
    assert (Hnd : nodig X) by (destruct X as [|c q]; [exact I|apply HX]).
    cbn [app p_frac]. cbn [N.eqb Pos.eqb]. rewrite (dspan_map f X Hd Hnd).
    destruct f; [congruence|reflexivity].
  - cbn [app]. destruct X as [|c q]; [reflexivity|]. destruct HX as [_ E]. cbn [p_frac]. rewrite E. reflexivity.
Qed.

Lemma p_int_ok : forall it Y, CS.wf_int it = true -> nodig Y ->
  p_int (map CS.dchar it ++ Y) = Some (map CS.dchar it, Y).
Proof.
  intros it Y Hw HY. destruct it as [|d q]; [discriminate|].
  assert (Hd : CS.is_digit d = true /\ forallb CS.is_digit q = true /\ (q = [] \/ (d =? 0) = false)).
  { destruct q as [|d2 q]; cbn in Hw.
    - auto.
    - apply andb_prop in Hw as [Hw H3]. apply andb_prop in Hw as [H1 H2]. apply negb_true_iff in H2. auto. }
  destruct Hd as (H1 & H2 & H3).
  cbn [map app p_int]. rewrite (isd_dchar d H1).
  assert (E48 : (CS.dchar d =? 48) = (d =? 0)).
  { unfold CS.dchar. destruct (N.eqb_spec d 0); [subst; reflexivity|]. apply N.eqb_neq. lia. }
  rewrite E48. destruct (d =? 0) eqn:E0.
  - destruct H3 as [->|H3]; [|discriminate]. apply N.eqb_eq in E0. subst. reflexivity.
  - rewrite (dspan_map q Y H2 HY). reflexivity.
Qed.

Lemma std_number_render : forall up n tl, CS.wf_numlit n = true -> nd_ok tl ->
  std_number (CS.render_num up n ++ tl) = Some (CS.render_num up n, tl).
Proof.
  intros up n tl Hw Hd. rewrite render_split. destruct n as [ng it fr ex]. cbn [CS.nneg CS.nint CS.nfrac CS.nexp].
  unfold CS.wf_numlit in Hw. cbn [CS.nint CS.nfrac CS.nexp] in Hw.
  apply andb_prop in Hw as [Hw Hex]. apply andb_prop in Hw as [Hit Hfr].
  set (E := exp_chars up ex). set (F := frac_chars fr).
  assert (HE : p_exp (E ++ tl) = Some (E, tl)).
  { apply p_exp_ok; [destruct ex as [[s e]|]; [exact Hex|exact I]|exact Hd]. }
  assert (HX : hx (E ++ tl)).
  { unfold E. destruct ex as [[s e]|]; cbn [exp_chars app].
    - destruct up; split; reflexivity.
    - destruct tl as [|c q]; [exact I|]. destruct (nd_ok_facts c q Hd) as (A & B & _). split; assumption. }
  assert (HF : p_frac (F ++ E ++ tl) = Some (F, E ++ tl)).
  { apply p_frac_ok; [destruct fr; [exact Hfr|exact I]|exact HX]. }
  assert (HY : nodig (F ++ E ++ tl)).
  { unfold F. destruct fr; cbn [frac_chars app]; [reflexivity|]. destruct (E ++ tl) as [|c q]; [exact I|apply HX]. }
  assert (HI : p_int (map CS.dchar it ++ F ++ E ++ tl) = Some (map CS.dchar it, F ++ E ++ tl)) by (apply p_int_ok; assumption).
  assert (Hhd : exists d q, map CS.dchar it = CS.dchar d :: q /\ CS.is_digit d = true).
  { destruct it as [|d q]; [discriminate|]. exists d, (map CS.dchar q). split; [reflexivity|].
    destruct q; cbn in Hit; [exact Hit|]. apply andb_prop in Hit as [Hit _]. apply andb_prop in Hit as [? _]. assumption. }
  unfold std_number. rewrite <- !app_assoc. destruct ng; cbn [app].
  - cbn [N.eqb Pos.eqb]. rewrite HI, HF, HE. reflexivity.
  - destruct Hhd as (d & q & Hq & Hdg). rewrite Hq in *. cbn [app].
    assert (E45 : (CS.dchar d =? 45) = false).
    { unfold CS.is_digit in Hdg. apply N.ltb_lt in Hdg. unfold CS.dchar. apply N.eqb_neq. lia. }
    rewrite E45. cbn [app] in HI. rewrite HI, HF, HE. reflexivity.
Qed.

(* ------------------------------------------------------------------ *)
(* strings                                                             *)

Definition aplain (c : N) : bool := (32 <=? c) && (c <? 128) && plain c.

Lemma aplain_item : forall c, aplain c = true ->
  CS.wf_item (CS.Ch c) = true /\ CS.utf8_encode c = [c].
Proof.
  intros c H. unfold aplain in H. apply andb_prop in H as [H Hp]. apply andb_prop in H as [H1 H2].
  apply N.leb_le in H1. apply N.ltb_lt in H2. unfold plain in Hp. apply andb_prop in Hp as [P1 P2]. split.
  - cbn [CS.wf_item]. unfold CS.scalar. replace (c <? 55296) with true by (symmetry; apply N.ltb_lt; lia).
    replace (32 <=? c) with true by (symmetry; apply N.leb_le; lia). rewrite P1, P2. reflexivity.
  - unfold CS.utf8_encode. replace (c <? 128) with true by (symmetry; apply N.ltb_lt; lia). reflexivity.
Qed.

Lemma std_ascii : forall p tl, forallb aplain p = true ->
  CS.unescape (34 :: p ++ 34 :: tl) = Some (p, tl).
Proof.
  intros p tl H.
  assert (G : forallb CS.wf_item (map CS.Ch p) = true /\ CS.render_items (map CS.Ch p) = p /\ CS.denote (map CS.Ch p) = p).
  { induction p as [|c q IH]; [repeat split; reflexivity|]. cbn [forallb] in H. apply andb_prop in H as [Hc Hq].
    destruct (IH Hq) as (I1 & I2 & I3). destruct (aplain_item c Hc) as [W U].
    cbn [map forallb]. rewrite W, I1. repeat split.
    - change (CS.render_items (CS.Ch c :: map CS.Ch q)) with (CS.utf8_encode c ++ CS.render_items (map CS.Ch q)). rewrite U, I2. reflexivity.
    - cbn [CS.denote]. rewrite U, I3. reflexivity. }
  destruct G as (G1 & G2 & G3). pose proof (PP.unescape_render (map CS.Ch p) tl G1) as R.
  unfold CS.render_lit in R. rewrite G2, G3 in R. cbn [app] in R. rewrite <- app_assoc in R. exact R.
Qed.

Lemma std_quote : forall h s tl,
  CS.unescape (34 :: c09_quote_body h s ++ 34 :: tl) = Some (CS.utf8_sanitise s, tl).
Proof.
  intros h s tl. destruct (PQ.quote_lemma h s) as (l & Hwf & Hq & Hd).
  pose proof (PP.unescape_render l tl Hwf) as R. rewrite <- Hq, Hd in R.
  unfold CM.quoteStr in R. cbn [app] in R. rewrite <- app_assoc in R. exact R.
Qed.

Lemma numc_aplain : forall c, isnumc c = true -> aplain c = true.
Proof.
  intros c H. unfold aplain. rewrite (numc_plain c H). unfold isnumc in H.
  repeat match type of H with _ || _ = true => apply orb_prop in H as [H|H] end;
  try (apply andb_prop in H as [A B]; apply N.leb_le in A; apply N.leb_le in B);
  try (apply N.eqb_eq in H);
  (replace (32 <=? c) with true by (symmetry; apply N.leb_le; lia));
  (replace (c <? 128) with true by (symmetry; apply N.ltb_lt; lia)); reflexivity.
Qed.

Lemma b64c_aplain : forall x, aplain (b64c x) = true.
Proof.
  intros x. unfold aplain. rewrite b64c_plain. unfold b64c.
  destruct (x <? 26) eqn:E1; [apply N.ltb_lt in E1|].
  { replace (32 <=? 65 + x) with true by (symmetry; apply N.leb_le; lia).
    replace (65 + x <? 128) with true by (symmetry; apply N.ltb_lt; lia). reflexivity. }
  destruct (x <? 52) eqn:E2; [apply N.ltb_lt in E2; apply N.ltb_ge in E1|].
  { replace (32 <=? 71 + x) with true by (symmetry; apply N.leb_le; lia).
    replace (71 + x <? 128) with true by (symmetry; apply N.ltb_lt; lia). reflexivity. }
  destruct (x <? 62) eqn:E3; [apply N.ltb_lt in E3; apply N.ltb_ge in E2|].
  { replace (32 <=? x - 4) with true by (symmetry; apply N.leb_le; lia).
    replace (x - 4 <? 128) with true by (symmetry; apply N.ltb_lt; lia). reflexivity. }
  destruct (x =? 62); reflexivity.
Qed.

Lemma b64_aplain : forall l, forallb aplain (b64 l) = true.
Proof.
  assert (H : forall n l, (length l <= n)%nat -> forallb aplain (b64 l) = true).
  { induction n as [|n IH]; intros l Hl.
    - destruct l; [reflexivity|cbn in Hl; lia].
    - destruct l as [|a [|b [|c r]]]; cbn [b64 forallb]; rewrite ?b64c_aplain; try reflexivity.
      cbn. apply IH. cbn in Hl. lia. }
  intros l. apply (H (length l)). lia.
Qed.

(* number literals consist of number characters *)
Lemma dchars_numc : forall ds, forallb CS.is_digit ds = true -> forallb isnumc (map CS.dchar ds) = true.
Proof.
  induction ds as [|d q IH]; intros H; [reflexivity|]. cbn [forallb map] in *. apply andb_prop in H as [H1 H2].
  rewrite (IH H2). pose proof (isd_dchar d H1) as E. unfold isd in E. unfold isnumc. rewrite E. reflexivity.
Qed.

Lemma numlit_numtext : forall up n, CS.wf_numlit n = true -> numtext (CS.render_num up n).
Proof.
  intros up n Hw. rewrite render_split. destruct n as [ng it fr ex]. cbn [CS.nneg CS.nint CS.nfrac CS.nexp].
  unfold CS.wf_numlit in Hw. cbn [CS.nint CS.nfrac CS.nexp] in Hw.
  apply andb_prop in Hw as [Hw Hex]. apply andb_prop in Hw as [Hit Hfr].
  destruct (PN.wf_int_digits it Hit) as [Hd Hne]. split.
  - destruct ng; [discriminate|]. destruct it; [congruence|discriminate].
  - rewrite !forallb_app. rewrite (dchars_numc it Hd).
    replace (forallb isnumc (if ng then [45] else [])) with true by (destruct ng; reflexivity).
    assert (F : forallb isnumc (frac_chars fr) = true).
    { destruct fr as [f|]; [|reflexivity]. cbn [frac_chars forallb]. rewrite (dchars_numc f); [reflexivity|]. apply digits1_ne, Hfr. }
    assert (E : forallb isnumc (exp_chars up ex) = true).
    { destruct ex as [[s e]|]; [|reflexivity]. cbn [exp_chars forallb]. rewrite forallb_app, (dchars_numc e) by (apply digits1_ne, Hex).
      destruct up, s; reflexivity. }
    rewrite F, E. reflexivity.
Qed.

(* ------------------------------------------------------------------ *)
(* the oracle part, document level: strconv writes literals of the JSON number grammar; the time layout
   writes printable ASCII without quote or backslash *)

Record doc_laws (L : leaf) : Prop := mkdoclaws {
  dl_f64 : forall b, f64special b = false -> exists up n, CS.wf_numlit n = true /\ fmt_f64 L b = CS.render_num up n;
  dl_f32 : forall b, f32special b = false -> exists up n, CS.wf_numlit n = true /\ fmt_f32 L b = CS.render_num up n;
  dl_time : forall s n, forallb aplain (fmt_time L s n) = true }.

Section Doc.
Variable O : oracle.
Let L := c09_leaf_of O.
Hypothesis DL : doc_laws L.

Definition islit (t : list N) : Prop := exists up n, CS.wf_numlit n = true /\ t = CS.render_num up n.

Definition shape_std (sh : shape) : Prop :=
  match sh with
  | SNull => True
  | SQ w d => forall tl, CS.unescape (34 :: w ++ 34 :: tl) = Some (d, tl)
  | SB t => t = t_true \/ t = t_false \/ islit t
  | SNone => False
  end.

Lemma udigits_lit : forall u, u < 2 ^ 64 -> islit (udigits u).
Proof.
  intros u Hu. rewrite udigits_eq. destruct (PU.uint_format (Z.of_N u)) as (ds & Hf & Hwf & _); [lia|].
  exists false, (CS.mknum false ds None None). split.
  - unfold CS.wf_numlit. cbn. rewrite Hwf. reflexivity.
  - rewrite Hf. unfold CS.render_num. cbn. rewrite app_nil_r. reflexivity.
Qed.

Lemma int_text_lit : forall z, (- 2 ^ 63 <= z < 2 ^ 63)%Z -> islit (int_text z).
Proof.
  intros z Hz. unfold int_text. destruct (z <? 0)%Z eqn:E.
  - apply Z.ltb_lt in E. rewrite udigits_eq.
    destruct (PU.uint_format (Z.of_N (Z.to_N (- z)))) as (ds & Hf & Hwf & _); [lia|].
    exists false, (CS.mknum true ds None None). split.
    + unfold CS.wf_numlit. cbn. rewrite Hwf. reflexivity.
    + rewrite Hf. unfold CS.render_num. cbn. rewrite app_nil_r. reflexivity.
  - apply Z.ltb_ge in E. apply udigits_lit. lia.
Qed.

Lemma lit_aplain : forall t, islit t -> forallb aplain t = true.
Proof.
  intros t (up & n & Hw & ->). destruct (numlit_numtext up n Hw) as [_ H].
  eapply forallb_impl; [|exact H]. apply numc_aplain.
Qed.

Lemma ascii_std : forall t, forallb aplain t = true -> shape_std (SQ t t).
Proof. intros t H tl. apply std_ascii. exact H. Qed.

Lemma qwrap_std : forall q t, forallb aplain t = true -> (t = t_true \/ t = t_false \/ islit t) -> shape_std (qwrap q t).
Proof. intros [|] t Ha Hs; [apply ascii_std; exact Ha|exact Hs]. Qed.

Lemma shape_of_std : forall o key i, jdoc L o key i -> scalar_item i = true -> shape_std (shape_of L o key i).
Proof.
  intros o key i Hw Hs. destruct i; try discriminate Hs; cbn [shape_of jdoc] in Hw |- *.
  - exact I.
  - apply qwrap_std; destruct b; try reflexivity; auto.
  - apply qwrap_std; [apply lit_aplain, int_text_lit, Hw|right; right; apply int_text_lit, Hw].
  - apply qwrap_std; [apply lit_aplain, udigits_lit, Hw|right; right; apply udigits_lit, Hw].
  - destruct (f32special bits) eqn:E; [exact I|]. destruct (dl_f32 L DL bits E) as (up & n & Hn & Ht).
    apply qwrap_std; [apply lit_aplain|right; right]; exists up, n; auto.
  - destruct (f64special bits) eqn:E; [exact I|]. destruct (dl_f64 L DL bits E) as (up & n & Hn & Ht).
    apply qwrap_std; [apply lit_aplain|right; right]; exists up, n; auto.
  - destruct (stringToRaw o) eqn:E1; cbn in Hw.
    + rewrite Hw. apply ascii_std, b64_aplain.
    + intros tl. unfold L. cbn [c09_leaf_of quote_body sanit]. rewrite c09_sanit_eq. apply std_quote.
  - rewrite Hw. apply ascii_std, b64_aplain.
  - destruct (time_zero sec nsec); [exact I|]. apply ascii_std, (dl_time L DL).
Qed.

(* the reference parser on one encoded scalar *)
Lemma std_shape : forall sh f ws tl, shape_std sh -> forallb stdws ws = true -> delim_ok (shape_num sh) tl ->
  std_value (S f) (ws ++ enc_shape sh ++ tl) = Some (jv_shape sh, tl).
Proof.
  intros sh f ws tl Hs Hws Hd. cbn [std_value]. rewrite sws_app by exact Hws.
  destruct sh as [|w d|t|]; cbn [enc_shape shape_std jv_shape shape_num] in *.
  - cbn. reflexivity.
  - cbn [app]. rewrite <- app_assoc. cbn [app]. rewrite sws_hd by reflexivity. cbn [N.eqb Pos.eqb].
    rewrite Hs. reflexivity.
  - destruct Hs as [->|[->|Hl]].
    + cbn. reflexivity.
    + cbn. reflexivity.
    + destruct Hl as (up & n & Hw & ->). pose proof (numlit_numtext up n Hw) as Hn.
      pose proof (numtext_not_lit _ Hn) as Hnl. rewrite Hnl in Hd.
      unfold sb_num in Hnl. apply negb_true_iff in Hnl. apply orb_false_iff in Hnl as [E1 E2]. rewrite E1, E2.
      pose proof (std_number_render up n tl Hw (Hd eq_refl)) as Hsn.
      destruct (numtext_hd _ Hn) as (c & r & Hr & Hc & _). rewrite Hr in *. cbn [app] in *.
      pose proof (numc_cases c Hc) as (Hw1 & H110 & H102 & H116 & H123 & H91 & H34 & _).
      rewrite sws_hd by (apply notws_std; exact Hw1).
      rewrite H110, H116, H102, H34, H91, H123. rewrite Hsn. reflexivity.
  - contradiction.
Qed.


Definition jdoc_list (o : eopts) (l : list item) : Prop :=
  (fix go l := match l with [] => True | x :: r => jdoc L o false x /\ go r end) l.
Definition jdoc_pairs (o : eopts) (l : list (item * item)) : Prop :=
  (fix go l := match l with
               | [] => True
               | kv :: r => (jdoc L o true (fst kv) /\ keyq L o (fst kv)) /\ jdoc L o false (snd kv) /\ go r
               end) l.

Lemma doc_scalar_enc : forall o key lvl i, jdoc L o key i -> scalar_item i = true ->
  enc_at L o key lvl i = enc_shape (shape_of L o key i) /\ jv_of L o key i = jv_shape (shape_of L o key i).
Proof.
  intros o key lvl i Hw Hs. destruct i; try discriminate; cbn [enc_at jv_of jdoc] in *; try (split; reflexivity).
  - rewrite Hw. split; reflexivity.
  - rewrite Hw. split; reflexivity.
Qed.

Definition dhd (c : N) : Prop := stdws c = false /\ (c =? 93) = false /\ (c =? 125) = false.

Lemma shape_dhd : forall sh, shape_std sh -> exists c r, enc_shape sh = c :: r /\ dhd c.
Proof.
  intros [|w d|t|] H; cbn [enc_shape shape_std] in *.
  - eexists _, _. split; [reflexivity|repeat split].
  - eexists _, _. split; [reflexivity|repeat split].
  - destruct H as [->|[->|(up & n & Hw & ->)]].
    + eexists _, _. split; [reflexivity|repeat split].
    + eexists _, _. split; [reflexivity|repeat split].
    + destruct (numtext_hd _ (numlit_numtext up n Hw)) as (c & r & -> & Hc & _). exists c, r. split; [reflexivity|].
      pose proof (numc_cases c Hc) as (Hw1 & _ & _ & _ & _ & _ & _ & H125 & H93 & _).
      repeat split; auto. apply notws_std. exact Hw1.
  - contradiction.
Qed.

Lemma doc_hd : forall o key lvl i, jdoc L o key i -> exists c e, enc_at L o key lvl i = c :: e /\ dhd c.
Proof.
  intros o key lvl i Hw. destruct (scalar_item i) eqn:Hs.
  - destruct (doc_scalar_enc o key lvl i Hw Hs) as [-> _]. apply shape_dhd. apply shape_of_std; assumption.
  - destruct i; try discriminate; cbn [jdoc] in Hw; try contradiction.
    + destruct l; eexists _, _; (split; [reflexivity|repeat split]).
    + destruct l; eexists _, _; (split; [reflexivity|repeat split]).
Qed.

Definition DOCP (i : item) : Prop :=
  forall o key lvl fuel ws tl, jdoc L o key i -> (need i <= fuel)%nat -> forallb stdws ws = true ->
    delim_ok (isnum L o key i) tl ->
    std_value fuel (ws ++ enc_at L o key lvl i ++ tl) = Some (jv_of L o key i, tl).

Lemma doc_scalar : forall i, scalar_item i = true -> DOCP i.
Proof.
  intros i Hs o key lvl fuel ws tl Hw Hf Hws Hd.
  destruct (doc_scalar_enc o key lvl i Hw Hs) as [-> ->].
  assert (need i = 1%nat) by (destruct i; try discriminate; reflexivity).
  destruct fuel as [|f]; [lia|]. apply std_shape; auto. apply shape_of_std; assumption.
Qed.

Lemma std_value_S : forall f s, std_value (S f) s =
    match sws s with
    | [] => None
    | c :: r =>
      if c =? 110 then (if starts [117; 108; 108] r then Some (JNull, skipn 3 r) else None)
      else if c =? 116 then (if starts [114; 117; 101] r then Some (JBool true, skipn 3 r) else None)
      else if c =? 102 then (if starts [97; 108; 115; 101] r then Some (JBool false, skipn 4 r) else None)
      else if c =? 34 then
        match CS.unescape (c :: r) with Some (d, r') => Some (JStr d, r') | None => None end
      else if c =? 91 then
        match sws r with
        | c2 :: r2 => if c2 =? 93 then Some (JArr [], r2)
                      else match std_elems f r with Some (vs, r') => Some (JArr vs, r') | None => None end
        | [] => None
        end
      else if c =? 123 then
        match sws r with
        | c2 :: r2 => if c2 =? 125 then Some (JObj [], r2)
                      else match std_members f r with Some (ms, r') => Some (JObj ms, r') | None => None end
        | [] => None
        end
      else match std_number (c :: r) with Some (t, r') => Some (JNum t, r') | None => None end
    end.
Proof. reflexivity. Qed.

Lemma std_elems_S : forall f s, std_elems (S f) s =
    match std_value f s with
    | None => None
    | Some (v, r) =>
      match sws r with
      | c :: r' =>
        if c =? 44 then match std_elems f r' with Some (vs, r'') => Some (v :: vs, r'') | None => None end
        else if c =? 93 then Some ([v], r')
        else None
      | [] => None
      end
    end.
Proof. reflexivity. Qed.

Lemma std_members_S : forall f s, std_members (S f) s =
    match sws s with
    | c :: r0 =>
      if c =? 34 then
        match CS.unescape (c :: r0) with
        | None => None
        | Some (k, r) =>
          match sws r with
          | c2 :: r2 =>
            if c2 =? 58 then
              match std_value f r2 with
              | None => None
              | Some (v, r3) =>
                match sws r3 with
                | c3 :: r4 =>
                  if c3 =? 44 then match std_members f r4 with Some (ms, r5) => Some ((k, v) :: ms, r5) | None => None end
                  else if c3 =? 125 then Some ([(k, v)], r4)
                  else None
                | [] => None
                end
              end
            else None
          | [] => None
          end
        end
      else None
    | [] => None
    end.
Proof. reflexivity. Qed.

Lemma doc_elems : forall r x, Forall DOCP (x :: r) -> forall o lvl fuel tl,
  jdoc L o false x -> jdoc_list o r -> (need_elems (x :: r) <= fuel)%nat ->
  std_elems fuel (nl o (lvl + 1) ++ enc_at L o false (lvl + 1) x ++ enc_elems L o lvl false r ++ nl o lvl ++ 93 :: tl)
    = Some (jv_of L o false x :: map (jv_of L o false) r, tl).
Proof.
  induction r as [|y q IH]; intros x HF o lvl fuel tl Hx Hr Hf; inversion HF as [|? ? Px Pr]; subst;
    rewrite need_elems_cons in Hf; (destruct fuel as [|f]; [lia|]); rewrite std_elems_S.
  - rewrite (Px o false (lvl + 1) f (nl o (lvl + 1)) (enc_elems L o lvl false [] ++ nl o lvl ++ 93 :: tl)); auto;
      [|lia|apply nl_stdws|apply elems_delim; reflexivity].
    cbn [enc_elems app]. rewrite sws_app by apply nl_stdws. rewrite sws_hd by reflexivity. reflexivity.
  - destruct Hr as [Hy Hq]. rewrite need_elems_cons in Hf.
    rewrite (Px o false (lvl + 1) f (nl o (lvl + 1)) (enc_elems L o lvl false (y :: q) ++ nl o lvl ++ 93 :: tl)); auto;
      [|lia|apply nl_stdws|apply elems_delim; reflexivity].
    cbn [enc_elems]. fold (enc_elems L o lvl). rewrite <- !app_assoc. cbn [app]. rewrite sws_hd by reflexivity.
    cbn [N.eqb Pos.eqb]. rewrite (IH y Pr o lvl f tl Hy Hq); [reflexivity|]. rewrite need_elems_cons. lia.
Qed.

Lemma doc_members : forall r kv, Forall (fun kv => DOCP (fst kv) /\ DOCP (snd kv)) (kv :: r) -> forall o lvl fuel tl,
  jdoc_pairs o (kv :: r) -> (need_pairs (kv :: r) <= fuel)%nat ->
  std_members fuel (nl o (lvl + 1) ++ enc_at L o true (lvl + 1) (fst kv) ++ colon o ++ enc_at L o false (lvl + 1) (snd kv)
                    ++ enc_pairs L o lvl false r ++ nl o lvl ++ 125 :: tl)
    = Some (map (fun kv => (keytext (shape_of L o true (fst kv)), jv_of L o false (snd kv))) (kv :: r), tl).
Proof.
  induction r as [|y q IH]; intros [k v] HF o lvl fuel tl Hw Hf; inversion HF as [|? ? [Pk Pv] Pr]; subst;
    cbn [fst snd] in *; destruct Hw as ((Hk & Hkq) & Hv & Hr); cbn [fst snd] in *;
    rewrite need_pairs_cons in Hf; cbn [fst snd] in Hf; (destruct fuel as [|f]; [lia|]); rewrite std_members_S;
    destruct Hkq as (w & d & Hsh);
    pose proof (shape_of_std o true k Hk) as Hstd;
    (assert (Hks : scalar_item k = true) by (destruct k; cbn in Hk |- *; try reflexivity; try contradiction; destruct Hk as [Hk _]; discriminate));
    specialize (Hstd Hks); rewrite Hsh in Hstd; cbn [shape_std] in Hstd;
    destruct (doc_scalar_enc o true (lvl + 1) k Hk Hks) as [Hek _]; rewrite Hek, Hsh; cbn [enc_shape keytext map fst snd];
    rewrite Hsh; cbn [keytext];
    rewrite sws_app by apply nl_stdws; cbn [app]; rewrite <- !app_assoc; cbn [app]; rewrite sws_hd by reflexivity;
    cbn [N.eqb Pos.eqb]; rewrite Hstd; rewrite colon_eq; cbn [app]; rewrite sws_hd by reflexivity; cbn [N.eqb Pos.eqb].
  - rewrite (Pv o false (lvl + 1) f (sp o) (enc_pairs L o lvl false [] ++ nl o lvl ++ 125 :: tl)); auto;
      [|lia|apply sp_stdws|apply pairs_delim; reflexivity].
    cbn [enc_pairs app]. rewrite sws_app by apply nl_stdws. rewrite sws_hd by reflexivity. reflexivity.
  - rewrite need_pairs_cons in Hf.
    rewrite (Pv o false (lvl + 1) f (sp o) (enc_pairs L o lvl false (y :: q) ++ nl o lvl ++ 125 :: tl)); auto;
      [|lia|apply sp_stdws|apply pairs_delim; reflexivity].
    cbn [enc_pairs]. fold (enc_pairs L o lvl). rewrite <- !app_assoc. cbn [app]. rewrite sws_hd by reflexivity.
    cbn [N.eqb Pos.eqb]. rewrite (IH y Pr o lvl f tl Hr); [reflexivity|]. rewrite need_pairs_cons. lia.
Qed.

Lemma doc_all : forall i, DOCP i.
Proof.
  induction i using item_ind'; try (apply doc_scalar; reflexivity).
  - intros o key lvl fuel ws tl Hw Hf Hws Hd. destruct Hw as [-> Hwl]. fold (jdoc_list o l) in Hwl.
    change (need (IArr l)) with (S (need_elems l)) in Hf. destruct fuel as [|f]; [lia|].
    rewrite std_value_S. rewrite sws_app by exact Hws.
    destruct l as [|x r].
    + cbn. reflexivity.
    + destruct Hwl as [Hx Hr]. rewrite enc_arr_eq. cbn [app]. rewrite sws_hd by reflexivity. cbn [N.eqb Pos.eqb].
      cbn [enc_elems]. fold (enc_elems L o lvl). cbn [app]. rewrite <- !app_assoc.
      destruct (doc_hd o false (lvl + 1) x Hx) as (c & e & He & Hc1 & Hc93 & _).
      match goal with |- context [sws ?X] =>
        assert (Hs : sws X = c :: e ++ enc_elems L o lvl false r ++ nl o lvl ++ 93 :: tl)
          by (rewrite sws_app by apply nl_stdws; rewrite He; cbn [app]; apply sws_hd; exact Hc1) end.
      rewrite Hs, Hc93. change ([93] ++ tl) with (93 :: tl).
      rewrite (doc_elems r x H o lvl f tl Hx Hr); [reflexivity|lia].
  - intros o key lvl fuel ws tl Hw Hf Hws Hd. destruct Hw as [-> Hwl]. fold (jdoc_pairs o l) in Hwl.
    change (need (IMap l)) with (S (need_pairs l)) in Hf. destruct fuel as [|f]; [lia|].
    rewrite std_value_S. rewrite sws_app by exact Hws.
    destruct l as [|x r].
    + cbn. reflexivity.
    + rewrite enc_map_eq. cbn [app]. rewrite sws_hd by reflexivity. cbn [N.eqb Pos.eqb].
      cbn [enc_pairs]. fold (enc_pairs L o lvl). cbn [app]. rewrite <- !app_assoc.
      pose proof Hwl as ((Hk & _) & _ & _).
      destruct (doc_hd o true (lvl + 1) (fst x) Hk) as (c & e & He & Hc1 & _ & Hc125).
      match goal with |- context [sws ?X] =>
        assert (Hs : exists Y, sws X = c :: Y)
          by (rewrite sws_app by apply nl_stdws; rewrite He; cbn [app]; eexists; apply sws_hd; exact Hc1) end.
      destruct Hs as [Y Hs]. rewrite Hs, Hc125. change ([125] ++ tl) with (125 :: tl).
      rewrite (doc_members r x H o lvl f tl Hwl); [reflexivity|lia].
  - intros o key lvl fuel ws tl Hw. contradiction.
  - intros o key lvl fuel ws tl Hw. contradiction.
Qed.

(* fuel: as in JsonRT.need_len, for jdoc *)
Lemma need_len_doc : forall i o key lvl, jdoc L o key i -> (need i <= 2 * length (enc_at L o key lvl i))%nat.
Proof.
  induction i using item_ind'; intros o key lvl Hw;
    try (destruct (doc_hd o key lvl _ Hw) as (c & e & -> & _); cbn [need length]; lia).
  - destruct Hw as [-> Hwl]. fold (jdoc_list o l) in Hwl. change (need (IArr l)) with (S (need_elems l)).
    destruct l as [|x r]; [cbn; lia|]. rewrite enc_arr_eq. cbn [length]. rewrite !app_length. cbn [length].
    assert (G : forall l first, Forall (fun i => forall o key lvl, jdoc L o key i -> (need i <= 2 * length (enc_at L o key lvl i))%nat) l ->
                jdoc_list o l -> (need_elems l <= 1 + 2 * length (enc_elems L o lvl first l) + (if first then 1 else 0))%nat).
    { induction l as [|y q IHq]; intros first HF Hq; [cbn; lia|].
      inversion HF as [|? ? Hy HFq]; subst. destruct Hq as [Hwy Hwq]. rewrite need_elems_cons.
      cbn [enc_elems]. fold (enc_elems L o lvl). rewrite !app_length.
      pose proof (Hy o false (lvl + 1)%N Hwy). pose proof (IHq false HFq Hwq) as G2. cbv iota in G2.
      destruct (doc_hd o false (lvl + 1)%N y Hwy) as (c & e & He & _). rewrite He in *. cbn [length] in *.
      destruct first; cbn [length]; lia. }
    pose proof (G (x :: r) true H Hwl) as G1. cbv iota in G1. lia.
  - destruct Hw as [-> Hwl]. fold (jdoc_pairs o l) in Hwl. change (need (IMap l)) with (S (need_pairs l)).
    destruct l as [|x r]; [cbn; lia|]. rewrite enc_map_eq. cbn [length]. rewrite !app_length. cbn [length].
    assert (G : forall l first, Forall (fun kv => (forall o key lvl, jdoc L o key (fst kv) -> (need (fst kv) <= 2 * length (enc_at L o key lvl (fst kv)))%nat)
                                               /\ (forall o key lvl, jdoc L o key (snd kv) -> (need (snd kv) <= 2 * length (enc_at L o key lvl (snd kv)))%nat)) l ->
                jdoc_pairs o l -> (need_pairs l <= 1 + 2 * length (enc_pairs L o lvl first l) + (if first then 1 else 0))%nat).
    { induction l as [|y q IHq]; intros first HF Hq; [cbn; lia|].
      inversion HF as [|? ? [Hyk Hyv] HFq]; subst. destruct Hq as ((Hwk & _) & Hwv & Hwq). rewrite need_pairs_cons.
      cbn [enc_pairs]. fold (enc_pairs L o lvl). rewrite !app_length.
      pose proof (Hyk o true (lvl + 1)%N Hwk). pose proof (Hyv o false (lvl + 1)%N Hwv). pose proof (IHq false HFq Hwq) as G2. cbv iota in G2.
      destruct (doc_hd o true (lvl + 1)%N (fst y) Hwk) as (c & e & He & _). rewrite He in *.
      destruct (doc_hd o false (lvl + 1)%N (snd y) Hwv) as (c' & e' & He' & _). rewrite He' in *. cbn [length] in *.
      rewrite colon_eq. cbn [length].
      destruct first; cbn [length]; lia. }
    pose proof (G (x :: r) true H Hwl) as G1. cbv iota in G1. lia.
Qed.

(* ---- exported *)
Lemma doc_parse_lemma : forall o i, jdoc L o false i ->
  std_parse (enc_top L o i) = Some (jv_of L o false i, []).
Proof.
  intros o i Hw. unfold std_parse, enc_top, enc, ctx0. cbn [ckey clvl].
  rewrite (doc_all i o false 0 _ [] (if termWs o then [32] else []) Hw); [|  |reflexivity|].
  - destruct (termWs o); reflexivity.
  - pose proof (need_len_doc i o false 0 Hw). rewrite app_length. lia.
  - intros _. destruct (termWs o); [reflexivity|exact I].
Qed.

Lemma doc_valid_lemma : forall o i, jdoc L o false i -> valid_json (enc_top L o i) = true.
Proof. intros o i Hw. unfold valid_json. rewrite (doc_parse_lemma o i Hw). reflexivity. Qed.

(* the same for a value in the middle of a document: any standard white space before it, anything a bare
   number may be followed by after it *)
Lemma doc_value_lemma : forall o key lvl i ws tl fuel, jdoc L o key i -> forallb stdws ws = true ->
  delim_ok (isnum L o key i) tl -> (2 * length (enc_at L o key lvl i) <= fuel)%nat ->
  std_value fuel (ws ++ enc_at L o key lvl i ++ tl) = Some (jv_of L o key i, tl).
Proof.
  intros o key lvl i ws tl fuel Hw Hws Hd Hf. apply doc_all; auto.
  pose proof (need_len_doc i o key lvl Hw). lia.
Qed.

End Doc.

(* the document-level oracle hypotheses are satisfiable (toy oracle of JsonLeaf.v: every float is written 1.5) *)
Lemma toy_doc_laws : doc_laws (c09_leaf_of toy_oracle).
Proof.
  constructor; cbn [c09_leaf_of toy_oracle fmt_time fmt_f64 fmt_f32 o_f64 o_f32 o_time].
  - intros b _. exists false, (CS.mknum false [1] (Some [5]) None). split; reflexivity.
  - intros b _. exists false, (CS.mknum false [1] (Some [5]) None). split; reflexivity.
  - reflexivity.
Qed.

(* both readers on the Encoder's output *)
Lemma doc_accepts_partial_lemma : forall (O : oracle), doc_laws (c09_leaf_of O) -> float_time_laws (c09_leaf_of O) ->
  forall (o : eopts) (D : dopts) (i : item),
  jdoc (c09_leaf_of O) o false i -> jwf (c09_leaf_of O) o D false i -> (Z.of_nat (depth i) < maxdepth D)%Z ->
  valid_json (enc_top (c09_leaf_of O) o i) = true /\
  std_parse (enc_top (c09_leaf_of O) o i) = Some (jv_of (c09_leaf_of O) o false i, []) /\
  dec_naked (c09_leaf_of O) D (dec_fuel (st0 (enc_top (c09_leaf_of O) o i))) (enc_top (c09_leaf_of O) o i)
    = Ok (norm (c09_leaf_of O) o D false i, inp (after (isnum (c09_leaf_of O) o false i) (term o))).
Proof.
  intros O DL FT o D i Hd Hw Hdp. split; [apply doc_valid_lemma; assumption|]. split; [apply doc_parse_lemma; assumption|].
  pose proof (dec_naked_enc_lemma (c09_leaf_of O) (c09_leaf_laws O FT) o D i [] Hw (or_intror (fun _ => I)) Hdp) as H.
  rewrite !app_nil_r in H. exact H.
Qed.

(* Wire/Cbor — executable model of the cbor driver (codec/cbor.go, cbor.base.go)
   together with the generic code it is driven by when the destination is an
   interface{} (decode.go kInterfaceNaked, fastpath DecSliceIntfY, kMap) and the
   bytes reader (reader.go bytesDecReader).  No proofs here.

   Mirrors the tree AFTER the repairs F02-1 (bytesDecReader.skip), F14-2 (tags
   decoded naked), F14-3 (decLen), F14-1/cbor (skip walker): see the comments at
   the places concerned.

   Reader: the state is the remaining suffix of the input; NumBytesRead is
   [length input - length rest].  This is exact for bytesDecReader: the cursor
   never exceeds len(b) and (after F02-1) never moves backwards; readx(n) panics
   (bounds -> io.ErrUnexpectedEOF) when n exceeds what is left, whether or not
   c+n wraps around in uint (low > high in the slice expression); skip(n)
   compares n with what is left.

   [Err EUnsupported] is reserved: "the model does not cover this input" (map
   with duplicate keys, tag 0 text that is not strict RFC 3339, decimal
   fractions / bigfloats nested under tag 1).  The correspondence check skips such cases
   and the theorems exclude them explicitly. *)
From Coq Require Import List NArith ZArith Lia Bool.
From Verif Require Import Base.Outcome Wire.Item Gen.Consts Wire.CborFloat.
Import ListNotations.
Open Scope N_scope.

(* ------------------------------------------------------------------ *)
(* constants (Gen/Consts.v is regenerated from the source on every run) *)
Definition bdFalse := Z.to_N cborBdFalse.
Definition bdTrue := Z.to_N cborBdTrue.
Definition bdNil := Z.to_N cborBdNil.
Definition bdUndefined := Z.to_N cborBdUndefined.
Definition bdFloat16 := Z.to_N cborBdFloat16.
Definition bdFloat32 := Z.to_N cborBdFloat32.
Definition bdFloat64 := Z.to_N cborBdFloat64.
Definition bdIndefBytes := Z.to_N cborBdIndefiniteBytes.
Definition bdIndefString := Z.to_N cborBdIndefiniteString.
Definition bdIndefArray := Z.to_N cborBdIndefiniteArray.
Definition bdIndefMap := Z.to_N cborBdIndefiniteMap.
Definition bdBreak := Z.to_N cborBdBreak.
Definition baseUint := Z.to_N cborBaseUint.
Definition baseNegInt := Z.to_N cborBaseNegInt.
Definition baseBytes := Z.to_N cborBaseBytes.
Definition baseString := Z.to_N cborBaseString.
Definition baseArray := Z.to_N cborBaseArray.
Definition baseMap := Z.to_N cborBaseMap.
Definition baseTag := Z.to_N cborBaseTag.
Definition majUint := Z.to_N cborMajorUint.
Definition majNegInt := Z.to_N cborMajorNegInt.
Definition majBytes := Z.to_N cborMajorBytes.
Definition majString := Z.to_N cborMajorString.
Definition majArray := Z.to_N cborMajorArray.
Definition majMap := Z.to_N cborMajorMap.
Definition majTag := Z.to_N cborMajorTag.
Definition majSimple := Z.to_N cborMajorSimpleOrFloat.

(* ------------------------------------------------------------------ *)
(* options *)
Record eopts := mkeo {
  eo_indef : bool;        (* CborHandle.IndefiniteLength *)
  eo_rfc3339 : bool;      (* CborHandle.TimeRFC3339 *)
  eo_str2raw : bool;      (* BasicHandle.StringToRaw *)
  eo_optsize : bool }.    (* BasicHandle.OptimumSize *)

Record dopts := mkdo {
  do_signed : bool;       (* SignedInteger *)
  do_raw2str : bool;      (* RawToString *)
  do_skiptags : bool;     (* CborHandle.SkipUnexpectedTags *)
  do_maxdepth : Z }.      (* BasicHandle.MaxDepth (int16); <= 0 means decDefMaxDepth *)

Definition maxdepth (D : dopts) : Z :=
  if (0 <? do_maxdepth D)%Z then do_maxdepth D else decDefMaxDepth.

(* ------------------------------------------------------------------ *)
(* big endian *)
Fixpoint be_put (k : nat) (v : N) : list N :=
  match k with O => [] | S k' => be_put k' (v / 256) ++ [v mod 256] end.
Definition be_get (l : list N) : N := fold_left (fun a x => a * 256 + x) l 0.

(* ------------------------------------------------------------------ *)
(* encoder: cborEncDriver *)

(* encUint(v, bd) *)
Definition enc_head (bd v : N) : list N :=
  if v <=? 23 then [(v + bd) mod 256]
  else if v <=? 255 then [(bd + 24) mod 256; v]
  else if v <=? 65535 then ((bd + 25) mod 256) :: be_put 2 v
  else if v <=? 4294967295 then ((bd + 26) mod 256) :: be_put 4 v
  else ((bd + 27) mod 256) :: be_put 8 v.

(* encStringBytesS: chunk length n = max(4, min(vlen/4, 1024)) *)
(* utf8.RuneStart: not a continuation byte 10xxxxxx *)
Definition rune_start (x : N) : bool := negb (N.land x 192 =? 128).

(* F10-4: the next chunk of a TEXT string starts at the nearest rune start at or before the cut
   (for i3 := i2; i3 > i; i3-- { if RuneStart(v[i3]) ... }); byte strings are cut at fixed offsets *)
Fixpoint cut_back (j : nat) (s : list N) : option nat :=
  match j with
  | O => None
  | S j' => if rune_start (nth j s 0) then Some j else cut_back j' s
  end.

Definition cut (text : bool) (n : nat) (s : list N) : nat :=
  if text && (n <? length s)%nat then match cut_back n s with Some k => k | None => n end else n.

Fixpoint chunks (text : bool) (fuel : nat) (n : nat) (s : list N) : list (list N) :=
  match fuel with
  | O => []
  | S f => match s with [] => [] | _ => firstn (cut text n s) s :: chunks text f n (skipn (cut text n s) s) end
  end.

Definition chunk_len (vlen : nat) : nat := Nat.max 4 (Nat.min (vlen / 4) 1024).

Definition enc_str (O : eopts) (bb : N) (s : list N) : list N :=
  if eo_indef O then
    [if bb =? baseBytes then bdIndefBytes else bdIndefString]
    ++ flat_map (fun c => enc_head bb (N.of_nat (length c)) ++ c) (chunks (negb (bb =? baseBytes)) (length s) (chunk_len (length s)) s)
    ++ [bdBreak]
  else enc_head bb (N.of_nat (length s)) ++ s.

Definition enc_f32 (O : eopts) (b : N) : list N :=
  if eo_optsize O && (half_to_f32 (f32_to_half b) =? b)
  then bdFloat16 :: be_put 2 (f32_to_half b)
  else bdFloat32 :: be_put 4 b.

Definition enc_f64 (O : eopts) (b : N) : list N :=
  if eo_optsize O && f64_eq (widen (narrow b)) b
  then enc_f32 O (narrow b)
  else bdFloat64 :: be_put 8 b.

Definition enc_int (z : Z) : list N :=
  if (z <? 0)%Z then enc_head baseNegInt (Z.to_N (-1 - z)) else enc_head baseUint (Z.to_N z).

(* ---- time ---- *)
Definition zero_time_sec : Z := (-62135596800)%Z.     (* 0001-01-01T00:00:00Z as Unix seconds *)

(* t.UTC().Round(time.Microsecond): halfway rounds up *)
Definition round_us (sec : Z) (nsec : N) : Z * N :=
  let r := nsec mod 1000 in
  let n1 := if r + r <? 1000 then nsec - r else nsec + 1000 - r in
  if n1 =? 1000000000 then ((sec + 1)%Z, 0) else (sec, n1).

Fixpoint digits (k : nat) (v : N) : list N :=      (* k decimal digits, zero padded *)
  match k with O => [] | S k' => digits k' (v / 10) ++ [48 + v mod 10] end.

Fixpoint trim0 (k : nat) (v : N) : nat * N :=      (* drop trailing decimal zeros of a k-digit number *)
  match k with
  | O => (O, v)
  | S k' => if v mod 10 =? 0 then trim0 k' (v / 10) else (k, v)
  end.

(* civil date from days since 1970-01-01 (proleptic Gregorian) *)
Definition civil (days : Z) : Z * Z * Z :=
  let z := (days + 719468)%Z in
  let era := (z / 146097)%Z in
  let doe := (z mod 146097)%Z in
  let yoe := ((doe - doe / 1460 + doe / 36524 - doe / 146096) / 365)%Z in
  let doy := (doe - (365 * yoe + yoe / 4 - yoe / 100))%Z in
  let mp := ((5 * doy + 2) / 153)%Z in
  let d := (doy - (153 * mp + 2) / 5 + 1)%Z in
  let m := (if mp <? 10 then mp + 3 else mp - 9)%Z in
  let y := (yoe + era * 400 + (if m <=? 2 then 1 else 0))%Z in
  (y, m, d).

(* t.AppendFormat(time.RFC3339Nano) for a UTC time with year in 0..9999 *)
Definition fmt_rfc3339 (sec : Z) (nsec : N) : list N :=
  let days := (sec / 86400)%Z in
  let rem := Z.to_N (sec mod 86400) in
  let '(y, m, d) := civil days in
  let frac := let '(k, v) := trim0 9 nsec in match k with O => [] | _ => 46 :: digits k v end in
  digits 4 (Z.to_N y) ++ [45] ++ digits 2 (Z.to_N m) ++ [45] ++ digits 2 (Z.to_N d) ++ [84]
  ++ digits 2 (rem / 3600) ++ [58] ++ digits 2 (rem / 60 mod 60) ++ [58] ++ digits 2 (rem mod 60)
  ++ frac ++ [90].

Definition enc_time (O : eopts) (sec : Z) (nsec : N) : list N :=
  if (sec =? zero_time_sec)%Z && (nsec =? 0) then [bdNil]
  else if eo_rfc3339 O then enc_head baseTag 0 ++ enc_str O baseString (fmt_rfc3339 sec nsec)
  else
    let '(s1, n1) := round_us sec nsec in
    enc_head baseTag 1 ++
    (if n1 =? 0 then enc_int s1
     else enc_f64 O (f64_add (f64_of_Z s1) (f64_div (f64_of_Z (Z.of_N n1)) f64_1e9))).

Fixpoint enc (O : eopts) (i : item) : list N :=
  match i with
  | INil => [bdNil]
  | IBool b => [if b then bdTrue else bdFalse]
  | IInt z => enc_int z
  | IUint n => enc_head baseUint n
  | IF32 b => enc_f32 O b
  | IF64 b => enc_f64 O b
  | IStr s => enc_str O (if eo_str2raw O then baseBytes else baseString) s
  | IBytes s => enc_str O baseBytes s
  | IArr l =>
      match l with
      | [] => if eo_indef O then [bdIndefArray; bdBreak] else [baseArray]
      | _ => (if eo_indef O then [bdIndefArray] else enc_head baseArray (N.of_nat (length l)))
             ++ flat_map (enc O) l ++ (if eo_indef O then [bdBreak] else [])
      end
  | IMap l =>
      match l with
      | [] => if eo_indef O then [bdIndefMap; bdBreak] else [baseMap]
      | _ => (if eo_indef O then [bdIndefMap] else enc_head baseMap (N.of_nat (length l)))
             ++ flat_map (fun kv => enc O (fst kv) ++ enc O (snd kv)) l
             ++ (if eo_indef O then [bdBreak] else [])
      end
  | ITag t v => enc_head baseTag t ++ enc O v          (* EncodeRawExt, re.Value *)
  | IExt t b => enc_head baseTag t ++ b                (* EncodeRawExt, re.Data written as is *)
  | ITime s n => enc_time O s n
  end.

(* ------------------------------------------------------------------ *)
(* reader primitives on the remaining suffix *)

Definition take (n : N) (b : list N) : res (list N * list N) :=      (* readx / readxb *)
  if N.of_nat (length b) <? n then Err EEof
  else Ok (firstn (N.to_nat n) b, skipn (N.to_nat n) b).

Definition rskip (n : N) (b : list N) : res (list N) :=              (* skip, after F02-1 *)
  if N.of_nat (length b) <? n then Err EEof else Ok (skipn (N.to_nat n) b).

(* decUint on the additional information [a] = bd & 0x1f *)
Definition read_uint (a : N) (b : list N) : res (N * list N) :=
  if a <=? 23 then Ok (a, b)
  else if a =? 24 then do (x, b') <- take 1 b ;; Ok (be_get x, b')
  else if a =? 25 then do (x, b') <- take 2 b ;; Ok (be_get x, b')
  else if a =? 26 then do (x, b') <- take 4 b ;; Ok (be_get x, b')
  else if a =? 27 then do (x, b') <- take 8 b ;; Ok (be_get x, b')
  else Err EBadDesc.

(* decLen, after F14-3: a length that does not fit a non-negative int is an error
   (before the repair int(uint64) went negative: "unknown length", or the
   containerLenNil sentinel for 0xffffffff80000000) *)
Definition dec_len (a : N) (b : list N) : res (N * list N) :=
  do (u, b') <- read_uint a b ;;
  if 9223372036854775808 <=? u then Err EOverflow else Ok (u, b').

Definition wrap_int64 (z : Z) : Z :=
  let m := (z mod 18446744073709551616)%Z in
  if (m <? 9223372036854775808)%Z then m else (m - 18446744073709551616)%Z.

(* decNegintPosintFloatNumberHelperInt64v(ui, neg, incrIfNeg=true), after the C07 repair of
   checkOverflow.SignedInt: ui++ (wraps for 2^64-1: -2^64 still reads as 0, F07-2), then
   chkOvf.Uint2Int(ui, neg): overflow iff (neg && ui > 1<<63) || (!neg && ui >= 1<<63);
   i = int64(ui); if neg { i = -i } *)
Definition int64v (u : N) (neg : bool) : res Z :=
  if neg && (u =? 18446744073709551615) then Err EOverflow        (* F07-2: -1 - (2^64-1) no longer wraps to 0 *)
  else
  let u1 := if neg then (u + 1) mod 18446744073709551616 else u in
  if (neg && (9223372036854775808 <? u1)) || (negb neg && (9223372036854775808 <=? u1)) then Err EOverflow
  else
    let i := if u1 <? 9223372036854775808 then Z.of_N u1 else (Z.of_N u1 - 18446744073709551616)%Z in
    Ok (if neg then wrap_int64 (- i) else i).

(* the chunk loop of DecodeBytes for 0x5f / 0x7f; bd of the next chunk is read by CheckBreak *)
Fixpoint dec_chunks (f : nat) (mt : N) (b : list N) : res (list N * list N) :=
  match f with
  | O => OutOfFuel
  | S f' =>
      match b with
      | [] => Err EEof
      | bd :: b1 =>
          if bd =? bdBreak then Ok ([], b1)
          else if negb (bd / 32 =? mt) then Err EBadDesc
          else
            do (n, b2) <- dec_len (bd mod 32) b1 ;;
            do (c, b3) <- take n b2 ;;
            do (cs, b4) <- dec_chunks f' mt b3 ;;
            Ok (c ++ cs, b4)
      end
  end.

(* DecodeBytes when bd (major 2 or 3) has been read *)
Definition dec_str_body (f : nat) (bd : N) (b1 : list N) : res (list N * list N) :=
  if (bd =? bdIndefBytes) || (bd =? bdIndefString) then dec_chunks f (bd / 32) b1
  else do (n, b2) <- dec_len (bd mod 32) b1 ;; take n b2.

(* ------------------------------------------------------------------ *)
(* results carrying the instrumentation counter: the deepest recursion level seen *)
Definition resI (A : Type) := (res A * nat)%type.
Definition liftI {A} (r : nat) (x : res A) : resI A := (x, r).
Definition bindI {A B} (m : resI A) (k : A -> resI B) : resI B :=
  match fst m with
  | Ok a => let m' := k a in (fst m', Nat.max (snd m) (snd m'))
  | Err e => (Err e, snd m)
  | OutOfFuel => (OutOfFuel, snd m)
  end.
Notation "'doI' x <- r ;; k" := (bindI r (fun x => k)) (at level 200, x pattern, r at level 100, k at level 200, right associativity).

(* d.depthIncr(): d.depth++; if d.depth >= d.maxdepth -> errMaxDepthExceeded *)
Definition depth_ok (D : dopts) (d : Z) : bool := (d + 1 <? maxdepth D)%Z.

(* map keys: a []byte key held in an interface{} is converted to string (kMap) *)
Definition keynorm (k : item) : item := match k with IBytes s => IStr s | _ => k end.

(* Go can hash the key: slices, maps and RawExt (has a []byte field) cannot be hashed *)
Definition hashable (k : item) : bool :=
  match k with IArr _ | IMap _ | ITag _ _ | IExt _ _ | IBytes _ => false | _ => true end.

Fixpoint eqbl (a b : list N) : bool :=
  match a, b with
  | [], [] => true
  | x :: a', y :: b' => (x =? y) && eqbl a' b'
  | _, _ => false
  end.

(* Go's == on two hashable interface{} keys *)
Definition key_eqb (a b : item) : bool :=
  match a, b with
  | INil, INil => true
  | IBool x, IBool y => Bool.eqb x y
  | IInt x, IInt y => (x =? y)%Z
  | IUint x, IUint y => x =? y
  | IF64 x, IF64 y => f64_eq x y
  | IStr x, IStr y => eqbl x y
  | ITime s n, ITime s' n' => (s =? s')%Z && (n =? n')
  | _, _ => false
  end.

(* ---- tag 1 / tag 0 times ---- *)

(* time.Unix(sec, nsec) for -1e9 < nsec < 1e9, then .UTC().Round(Microsecond).
   Seconds far outside what time.Time handles without wrapping are not modelled. *)
Definition time_of_unix (sec nsec : Z) : res item :=
  if ((sec <? -4611686018427387904) || (4611686018427387904 <? sec))%Z then Err EOverflow
  else
    let '(s1, n1) := if (nsec <? 0)%Z then ((sec - 1)%Z, (nsec + 1000000000)%Z) else (sec, nsec) in
    let '(s2, n2) := round_us s1 (Z.to_N n1) in
    Ok (ITime s2 n2).

(* f1, f2 := math.Modf(f); since F10-2: an error unless -2^62 <= f1 <= 2^62 (NaN, Inf included; before
   the repair int64(f1) was taken of whatever came: Unix(MinInt64, 0) with no error);
   time.Unix(int64(f1), int64(f2*1e9)) *)
Definition time_of_float (f : N) : res item :=
  if f64_exp f =? 2047 then Err EOverflow
  else
    let ip := f64_trunc f in
    let fr := f64_sub f ip in
    time_of_unix (f64_to_int64 ip) (f64_to_int64 (f64_mul fr f64_1e9)).

(* big.Int.SetBytes(bs) [negated: -1 - n] .Float64() *)
Definition f64_of_bigint (neg : bool) (n : N) : N :=
  let m := if neg then n + 1 else n in
  sign64 neg + round64 m 0.

(* tag 5, since F10-3: mant * 2^exp through big.Float (prec 64), the exponent clamped to +-2^20 first *)
Definition f64_bigfloat (mant exp : Z) : N :=
  let e := Z.max (-1048576) (Z.min 1048576 exp) in
  if (mant =? 0)%Z then 0
  else sign64 (mant <? 0)%Z +
       (if (2000 <? e)%Z then f64_inf else if (e <? -2000)%Z then 0 else round64 (Z.to_N (Z.abs mant)) e).

(* tag 4, since F10-3: strconv.ParseFloat of "<mant>e<exp>": correctly rounded, +-Inf / +-0 out of range *)
Definition f64_decimal (mant exp : Z) : N :=
  if (mant =? 0)%Z then 0
  else sign64 (mant <? 0)%Z +
       (if (400 <? exp)%Z then f64_inf
        else if (exp <? -400)%Z then 0
        else if (0 <=? exp)%Z then round64 (Z.to_N (Z.abs mant) * 10 ^ Z.to_N exp) 0
        else round64_ratio (Z.to_N (Z.abs mant)) (10 ^ Z.to_N (- exp)) 0).

(* strict RFC 3339 text as time.Parse(time.RFC3339) reads what AppendFormat writes in UTC:
   YYYY-MM-DDTHH:MM:SS[.d+]Z ; anything else is not modelled *)
Definition dig (x : N) : option N := if (48 <=? x) && (x <=? 57) then Some (x - 48) else None.
Fixpoint num (l : list N) (acc : N) : option N :=
  match l with [] => Some acc | x :: r => match dig x with Some d => num r (acc * 10 + d) | None => None end end.
Definition days_from_civil (y m d : Z) : Z :=
  let y1 := (if m <=? 2 then y - 1 else y)%Z in
  let era := (y1 / 400)%Z in
  let yoe := (y1 - era * 400)%Z in
  let mp := (if m >? 2 then m - 3 else m + 9)%Z in
  let doy := ((153 * mp + 2) / 5 + d - 1)%Z in
  let doe := (yoe * 365 + yoe / 4 - yoe / 100 + doy)%Z in
  (era * 146097 + doe - 719468)%Z.
Definition days_in_month (y m : Z) : Z :=
  if (m =? 2)%Z then (if ((y mod 4 =? 0) && (negb (y mod 100 =? 0) || (y mod 400 =? 0)))%Z then 29 else 28)%Z
  else if ((m =? 4) || (m =? 6) || (m =? 9) || (m =? 11))%Z then 30%Z else 31%Z.
Fixpoint pad9 (k : nat) (v : N) : N := match k with O => v | S k' => pad9 k' (v * 10) end.

Definition parse_core (s : list N) : option (Z * Z) :=          (* Unix seconds, nanoseconds *)
  match s with
  | y1 :: y2 :: y3 :: y4 :: 45 :: m1 :: m2 :: 45 :: d1 :: d2 :: 84 :: h1 :: h2 :: 58 :: i1 :: i2 :: 58 :: s1 :: s2 :: tl =>
      match num [y1; y2; y3; y4] 0, num [m1; m2] 0, num [d1; d2] 0, num [h1; h2] 0, num [i1; i2] 0, num [s1; s2] 0 with
      | Some y, Some m, Some d, Some h, Some mi, Some sc =>
          let fr := match tl with
                    | 46 :: r => let ds := removelast r in
                                 if (Nat.leb 1 (length ds)) && (Nat.leb (length ds) 9) && (last r 0 =? 90)
                                 then match num ds 0 with Some v => Some (pad9 (9 - length ds) v) | None => None end
                                 else None
                    | [90] => Some 0
                    | _ => None
                    end in
          match fr with
          | Some ns =>
              if (1 <=? m) && (m <=? 12) && (1 <=? d) && (Z.of_N d <=? days_in_month (Z.of_N y) (Z.of_N m))%Z
                 && (h <=? 23) && (mi <=? 59) && (sc <=? 59)
              then Some ((days_from_civil (Z.of_N y) (Z.of_N m) (Z.of_N d) * 86400 + Z.of_N (h * 3600 + mi * 60 + sc))%Z, Z.of_N ns)
              else None
          | None => None
          end
      | _, _, _, _, _, _ => None
      end
  | _ => None
  end.

Definition parse_rfc3339 (s : list N) : res item :=
  match parse_core s with
  | Some (sec, ns) => time_of_unix sec ns
  | None => Err EUnsupported
  end.

(* DecodeFloat64 as decodeTime(1) calls it (bdRead = false): nil -> 0, optional tag skipping,
   floats, integers via float64(int64); bignum tags inside are not modelled *)
Fixpoint skip_tags (f : nat) (bd : N) (b : list N) : res (N * list N) :=     (* skipTags *)
  match f with
  | O => OutOfFuel
  | S f' =>
      if bd / 32 =? majTag then
        do (_, b1) <- read_uint (bd mod 32) b ;;
        match b1 with [] => Err EEof | bd' :: b2 => skip_tags f' bd' b2 end
      else Ok (bd, b)
  end.

Definition dec_float64 (D : dopts) (f : nat) (b : list N) : res (N * list N) :=
  match b with
  | [] => Err EEof
  | bd0 :: b0 =>
      if (bd0 =? bdNil) || (bd0 =? bdUndefined) then Ok (0, b0)
      else
        do (bd, b1) <- (if do_skiptags D then skip_tags f bd0 b0 else Ok (bd0, b0)) ;;
        if bd =? bdFloat16 then do (x, b2) <- take 2 b1 ;; Ok (widen (half_to_f32 (be_get x)), b2)
        else if bd =? bdFloat32 then do (x, b2) <- take 4 b1 ;; Ok (widen (be_get x), b2)
        else if bd =? bdFloat64 then do (x, b2) <- take 8 b1 ;; Ok (be_get x, b2)
        else if bd / 32 =? majTag then
          (if (2 <=? bd mod 32) && (bd mod 32 <=? 5) then Err EUnsupported else Err EBadDesc)
        else if bd / 32 <=? majNegInt then
          do (u, b2) <- read_uint (bd mod 32) b1 ;;
          if bd / 32 =? majNegInt then do i <- int64v u true ;; Ok (f64_of_Z i, b2)
          else Ok (round64 u 0, b2)          (* float64(ui): an unsigned integer converts directly (C07, 8d0bb74) *)
        else Err EBadDesc
  end.

(* DecodeBytes as the bignum tags call it (bdRead = false); only byte/text strings are modelled *)
Definition dec_bytes_fresh (D : dopts) (f : nat) (b : list N) : res (list N * list N) :=
  match b with
  | [] => Err EEof
  | bd0 :: b0 =>
      if (bd0 =? bdNil) || (bd0 =? bdUndefined) then Ok ([], b0)
      else
        do (bd, b1) <- (if do_skiptags D then skip_tags f bd0 b0 else Ok (bd0, b0)) ;;
        if (bd / 32 =? majBytes) || (bd / 32 =? majString) then dec_str_body f bd b1
        else Err EUnsupported
  end.

(* ------------------------------------------------------------------ *)
(* decode into interface{}: decodeValue/TryNil + DecodeNaked + kInterfaceNaked.
   [d] is decoderBase.depth, [r] the recursion level of this call (instrumentation).
   The bodies are written against their recursive callees (open recursion) so that the
   lemmas can be stated per body; the fixpoints below tie the knot on the fuel. *)

(* a finite bignum / decimal fraction / bigfloat beyond the float64 range is an overflow error, not +-Inf
   (C07 repairs 2744cde, 1ee17b7) *)
Definition finite_or_err (x : N) : res N := if f64_is_inf x then Err EOverflow else Ok x.

(* decTagInteger (F02-5): the exponent / mantissa of a decimal fraction or bigfloat *)
Definition dec_tag_int (b : list N) : res (Z * list N) :=
  match b with
  | [] => Err EEof
  | bd :: b1 =>
      if bd / 32 <=? majNegInt then
        do (u, b2) <- read_uint (bd mod 32) b1 ;;
        do i <- int64v u (bd / 32 =? majNegInt) ;;
        Ok (i, b2)
      else Err EBadDesc
  end.

Inductive kind := KUint | KNint | KBytes | KText | KArr | KMap | KTag | KSimple.
Definition kind_of_mt (mt : N) : kind :=
  if mt =? majUint then KUint else if mt =? majNegInt then KNint else if mt =? majBytes then KBytes
  else if mt =? majString then KText else if mt =? majArray then KArr else if mt =? majMap then KMap
  else if mt =? majTag then KTag else KSimple.
Definition kind_of (bd : N) : kind := kind_of_mt (bd / 32).        (* d.bd >> 5 *)

Section Bodies.
  Variable D : dopts.
  Variable f' : nat.                                                 (* fuel for the leaf loops *)
  Variable self : Z -> nat -> list N -> resI (item * list N).
  Variable arrd : Z -> nat -> N -> list N -> resI (list item * list N).
  Variable arri : Z -> nat -> list N -> resI (list item * list N).
  Variable mapd : Z -> nat -> N -> list item -> list N -> resI (list (item * item) * list N).
  Variable mapi : Z -> nat -> list item -> list N -> resI (list (item * item) * list N).

  Definition dec_tag (d : Z) (r : nat) (t : N) (b2 : list N) : resI (item * list N) :=
    if t =? 0 then
      liftI r (do (s, b3) <- dec_bytes_fresh D f' b2 ;; do i <- parse_rfc3339 s ;; Ok (i, b3))
    else if t =? 1 then
      liftI r (do (x, b3) <- dec_float64 D f' b2 ;; do i <- time_of_float x ;; Ok (i, b3))
    else if (t =? 2) || (t =? 3) then
      liftI r (do (s, b3) <- dec_bytes_fresh D f' b2 ;; do x <- finite_or_err (f64_of_bigint (t =? 3) (be_get s)) ;; Ok (IF64 x, b3))
    else if (t =? 4) || (t =? 5) then
      liftI r (match b2 with
               | [] => Err EEof
               | nn :: b3 =>
                   if nn =? 130 then                     (* 0x82, since F10-1 (was 82) *)
                     do (e, b4) <- dec_tag_int b3 ;;
                     do (m, b5) <- dec_tag_int b4 ;;
                     do x <- finite_or_err (if t =? 4 then f64_decimal m e else f64_bigfloat m e) ;;
                     Ok (IF64 x, b5)
                   else Err EBadDesc
               end)
    else if (t =? 55799) || do_skiptags D then
      self d r b2                    (* F14-2: DecodeNaked loops instead of recursing *)
    else if depth_ok D d then        (* F14-2: kInterfaceNaked, valueTypeExt: depthIncr around decode(&re.Value) *)
      doI (v, b3) <- self (d + 1)%Z (S r) b2 ;; (Ok (ITag t v, b3), r)
    else (Err EDepth, r).

  Definition dec_simple (r : nat) (bd : N) (b1 : list N) : resI (item * list N) :=
    if (bd =? bdNil) || (bd =? bdUndefined) then (Ok (INil, b1), r)
    else if bd =? bdFalse then (Ok (IBool false, b1), r)
    else if bd =? bdTrue then (Ok (IBool true, b1), r)
    else if bd =? bdFloat16 then liftI r (do (x, b2) <- take 2 b1 ;; Ok (IF64 (widen (half_to_f32 (be_get x))), b2))
    else if bd =? bdFloat32 then liftI r (do (x, b2) <- take 4 b1 ;; Ok (IF64 (widen (be_get x)), b2))
    else if bd =? bdFloat64 then liftI r (do (x, b2) <- take 8 b1 ;; Ok (IF64 (be_get x), b2))
    else (Err EBadDesc, r).

  Definition dec_body (d : Z) (r : nat) (bd : N) (b1 : list N) : resI (item * list N) :=
    let a := bd mod 32 in
    match kind_of bd with
    | KUint =>
        liftI r (do (u, b2) <- read_uint a b1 ;;
                 if do_signed D then (do i <- int64v u false ;; Ok (IInt i, b2)) else Ok (IUint u, b2))
    | KNint =>
        liftI r (do (u, b2) <- read_uint a b1 ;; do i <- int64v u true ;; Ok (IInt i, b2))
    | KBytes =>
        liftI r (do (s, b2) <- dec_str_body f' bd b1 ;; Ok (if do_raw2str D then IStr s else IBytes s, b2))
    | KText =>
        liftI r (do (s, b2) <- dec_str_body f' bd b1 ;; Ok (IStr s, b2))
    | KArr =>
        if bd =? bdIndefArray then
          if depth_ok D d then doI (l, b2) <- arri (d + 1)%Z (S r) b1 ;; (Ok (IArr l, b2), r)
          else (Err EDepth, r)
        else
          doI (n, b2) <- liftI r (dec_len a b1) ;;
          if depth_ok D d then doI (l, b3) <- arrd (d + 1)%Z (S r) n b2 ;; (Ok (IArr l, b3), r)
          else (Err EDepth, r)
    | KMap =>
        if bd =? bdIndefMap then
          if depth_ok D d then doI (l, b2) <- mapi (d + 1)%Z (S r) [] b1 ;; (Ok (IMap l, b2), r)
          else (Err EDepth, r)
        else
          doI (n, b2) <- liftI r (dec_len a b1) ;;
          if depth_ok D d then doI (l, b3) <- mapd (d + 1)%Z (S r) n [] b2 ;; (Ok (IMap l, b3), r)
          else (Err EDepth, r)
    | KTag =>
        doI (t, b2) <- liftI r (read_uint a b1) ;; dec_tag d r t b2
    | KSimple => dec_simple r bd b1
    end.

  (* one map entry: key, the byte TryNil reads for the value, hashing, value *)
  Definition map_entry (d : Z) (r : nat) (seen : list item) (b : list N) : resI (item * item * list N) :=
    doI (k0, b1) <- self d r b ;;
    let k := keynorm k0 in
    match b1 with
    | [] => (Err EEof, r)                                  (* TryNil for the value reads a byte *)
    | _ =>
        if negb (hashable k) then (Err EOther, r)          (* mapGet / mapSet panic: unhashable *)
        else if existsb (key_eqb k) seen then (Err EUnsupported, r)
        else doI (v, b2) <- self d r b1 ;; (Ok (k, v, b2), r)
    end.
End Bodies.

Fixpoint dec (D : dopts) (f : nat) (d : Z) (r : nat) (b : list N) {struct f} : resI (item * list N) :=
  match f with
  | O => (OutOfFuel, r)
  | S f' =>
    match b with
    | [] => (Err EEof, r)
    | bd :: b1 =>
        dec_body D f' (dec D f') (arr_def D f') (arr_indef D f') (map_def D f') (map_indef D f') d r bd b1
    end
  end

(* DecSliceIntfY, hasLen: for j < n *)
with arr_def (D : dopts) (f : nat) (d : Z) (r : nat) (n : N) (b : list N) {struct f} : resI (list item * list N) :=
  match f with
  | O => (OutOfFuel, r)
  | S f' =>
      if n =? 0 then (Ok ([], b), r)
      else
        doI (x, b1) <- dec D f' d r b ;;
        doI (xs, b2) <- arr_def D f' d r (n - 1) b1 ;;
        (Ok (x :: xs, b2), r)
  end

(* DecSliceIntfY, !hasLen: for !CheckBreak() *)
with arr_indef (D : dopts) (f : nat) (d : Z) (r : nat) (b : list N) {struct f} : resI (list item * list N) :=
  match f with
  | O => (OutOfFuel, r)
  | S f' =>
      match b with
      | [] => (Err EEof, r)
      | bd :: b1 =>
          if bd =? bdBreak then (Ok ([], b1), r)
          else
            doI (x, b2) <- dec D f' d r b ;;
            doI (xs, b3) <- arr_indef D f' d r b2 ;;
            (Ok (x :: xs, b3), r)
      end
  end

(* kMap into map[interface{}]interface{}; [seen] = keys stored so far *)
with map_def (D : dopts) (f : nat) (d : Z) (r : nat) (n : N) (seen : list item) (b : list N) {struct f}
  : resI (list (item * item) * list N) :=
  match f with
  | O => (OutOfFuel, r)
  | S f' =>
      if n =? 0 then (Ok ([], b), r)
      else
        doI (kv, b2) <- map_entry (dec D f') d r seen b ;;
        doI (kvs, b3) <- map_def D f' d r (n - 1) (fst kv :: seen) b2 ;;
        (Ok (kv :: kvs, b3), r)
  end

with map_indef (D : dopts) (f : nat) (d : Z) (r : nat) (seen : list item) (b : list N) {struct f}
  : resI (list (item * item) * list N) :=
  match f with
  | O => (OutOfFuel, r)
  | S f' =>
      match b with
      | [] => (Err EEof, r)
      | bd :: b0 =>
          if bd =? bdBreak then (Ok ([], b0), r)
          else
            doI (kv, b2) <- map_entry (dec D f') d r seen b ;;
            doI (kvs, b3) <- map_indef D f' d r (fst kv :: seen) b2 ;;
            (Ok (kv :: kvs, b3), r)
      end
  end.

(* fuel that always suffices (CborProofs.dec_total) *)
Definition fuel_for (b : list N) : nat := 2 * length b + 2.

(* Decode(&v) with v a nil interface{}: depth 0 *)
Definition dec_naked (D : dopts) (f : nat) (b : list N) : res (item * list N) := fst (dec D f 0 0 b).
Definition dec_maxrec (D : dopts) (f : nat) (b : list N) : nat := snd (dec D f 0 0 b).

(* ------------------------------------------------------------------ *)
(* the second parser: nextValueBytes / nextValueBytesBdReadR (skip an unknown field, capture Raw) *)

(* uintBytes *)
Definition uint_bytes (a : N) (b : list N) : res (N * list N) :=
  if a =? 24 then do (x, b') <- take 1 b ;; Ok (be_get x, b')
  else if a =? 25 then do (x, b') <- take 2 b ;; Ok (be_get x, b')
  else if a =? 26 then do (x, b') <- take 4 b ;; Ok (be_get x, b')
  else if a =? 27 then do (x, b') <- take 8 b ;; Ok (be_get x, b')
  else if 27 <? a then Err EBadDesc
  else Ok (a, b).

(* chunks of an indefinite string: the walker does not look at the chunk's major type *)
Fixpoint skip_chunks (f : nat) (b : list N) : res (list N) :=
  match f with
  | O => OutOfFuel
  | S f' =>
      match b with
      | [] => Err EEof
      | bd :: b1 =>
          if bd =? bdBreak then Ok b1
          else
            do (u, b2) <- uint_bytes (bd mod 32) b1 ;;
            do b3 <- rskip u b2 ;;
            skip_chunks f' b3
      end
  end.

(* F14-1 (cbor): the walker now calls depthIncr / depthDecr around arrays, maps and tags *)
Section SkipBody.
  Variable D : dopts.
  Variable f' : nat.
  Variable self : Z -> nat -> list N -> resI (list N).
  Variable skn : Z -> nat -> N -> list N -> resI (list N).
  Variable ski : Z -> nat -> bool -> list N -> resI (list N).

  Definition skip_simple (r : nat) (bd : N) (b1 : list N) : resI (list N) :=
    if (bd =? bdNil) || (bd =? bdUndefined) || (bd =? bdFalse) || (bd =? bdTrue) then (Ok b1, r)
    else if bd =? bdFloat16 then liftI r (rskip 2 b1)
    else if bd =? bdFloat32 then liftI r (rskip 4 b1)
    else if bd =? bdFloat64 then liftI r (rskip 8 b1)
    else (Err EBadDesc, r).

  Definition skip_body (d : Z) (r : nat) (bd : N) (b1 : list N) : resI (list N) :=
    let a := bd mod 32 in
    match kind_of bd with
    | KUint | KNint => liftI r (do (_, b2) <- uint_bytes a b1 ;; Ok b2)
    | KBytes | KText =>
        if (bd =? bdIndefBytes) || (bd =? bdIndefString) then liftI r (skip_chunks f' b1)
        else liftI r (do (u, b2) <- uint_bytes a b1 ;; rskip u b2)
    | KArr =>
        if negb (depth_ok D d) then (Err EDepth, r)
        else if bd =? bdIndefArray then ski (d + 1)%Z (S r) false b1
        else doI (u, b2) <- liftI r (uint_bytes a b1) ;; skn (d + 1)%Z (S r) u b2
    | KMap =>
        if negb (depth_ok D d) then (Err EDepth, r)
        else if bd =? bdIndefMap then ski (d + 1)%Z (S r) true b1
        else doI (u, b2) <- liftI r (uint_bytes a b1) ;; skn (d + 1)%Z (S r) (2 * u) b2
    | KTag =>
        doI (_, b2) <- liftI r (uint_bytes a b1) ;;
        if negb (depth_ok D d) then (Err EDepth, r)
        else self (d + 1)%Z (S r) b2
    | KSimple => skip_simple r bd b1
    end.
End SkipBody.

Fixpoint skipw (D : dopts) (f : nat) (d : Z) (r : nat) (b : list N) {struct f} : resI (list N) :=
  match f with
  | O => (OutOfFuel, r)
  | S f' =>
    match b with
    | [] => (Err EEof, r)
    | bd :: b1 => skip_body D f' (skipw D f') (skip_n D f') (skip_indef D f') d r bd b1
    end
  end

(* for i < ui: readNextBd; recurse (a map of ui pairs walks 2*ui values) *)
with skip_n (D : dopts) (f : nat) (d : Z) (r : nat) (n : N) (b : list N) {struct f} : resI (list N) :=
  match f with
  | O => (OutOfFuel, r)
  | S f' =>
      if n =? 0 then (Ok b, r)
      else doI b1 <- skipw D f' d r b ;; skip_n D f' d r (n - 1) b1
  end

(* indefinite array (pairs = false) or map (pairs = true: the value is walked without a break check) *)
with skip_indef (D : dopts) (f : nat) (d : Z) (r : nat) (pairs : bool) (b : list N) {struct f} : resI (list N) :=
  match f with
  | O => (OutOfFuel, r)
  | S f' =>
      match b with
      | [] => (Err EEof, r)
      | bd :: b0 =>
          if bd =? bdBreak then (Ok b0, r)
          else
            doI b1 <- skipw D f' d r b ;;
            doI b2 <- (if pairs then skipw D f' d r b1 else (Ok b1, r)) ;;
            skip_indef D f' d r pairs b2
      end
  end.

(* swallow() of an unknown struct field happens at depth [d] (1 inside a top-level struct);
   capturing a top-level Raw at depth 0 *)
Definition skip (D : dopts) (f : nat) (d : Z) (b : list N) : res (list N) := fst (skipw D f d 0 b).
Definition skip_maxrec (D : dopts) (f : nat) (d : Z) (b : list N) : nat := snd (skipw D f d 0 b).

(* Wire/CborUtf8 — well-formed UTF-8 ([utf8_valid], C10/CborSpec.v) cut at a code point boundary:
   both halves are well-formed.  Consequence (F10-4, RFC 8949 3.2.3): every chunk the encoder cuts a
   well-formed text string into under IndefiniteLength is itself well-formed, for texts of ANY length
   (the exhaustive sweep of Wire/CborEnc.v covers texts of at most 8 characters). *)
From Coq Require Import List NArith ZArith Lia Bool Arith.
From Coq Require Import ZifyN ZifyNat ZifyBool.
From Verif Require Import Base.Outcome Wire.Item Gen.Consts Wire.CborFloat Wire.Cbor C10.CborSpec C10.CborConv.
Import ListNotations.
Open Scope N_scope.

(* the length of the well-formed character at the head of s *)
Definition uchar (s : list N) : option nat :=
  match s with
  | [] => None
  | a :: r =>
      if a <? 128 then Some 1%nat
      else if (194 <=? a) && (a <=? 223) then
        match r with b :: _ => if ucont b then Some 2%nat else None | _ => None end
      else if (224 <=? a) && (a <=? 239) then
        match r with
        | b :: c :: _ =>
            if (if a =? 224 then (160 <=? b) && (b <=? 191) else if a =? 237 then (128 <=? b) && (b <=? 159) else ucont b)
               && ucont c then Some 3%nat else None
        | _ => None
        end
      else if (240 <=? a) && (a <=? 244) then
        match r with
        | b :: c :: d :: _ =>
            if (if a =? 240 then (144 <=? b) && (b <=? 191) else if a =? 244 then (128 <=? b) && (b <=? 143) else ucont b)
               && ucont c && ucont d then Some 4%nat else None
        | _ => None
        end
      else None
  end.

Lemma valid_step : forall f s,
  utf8_valid_f (S f) s =
  match s with
  | [] => true
  | _ => match uchar s with Some n => utf8_valid_f f (skipn n s) | None => false end
  end.
Proof.
  intros f s. destruct s as [|a r]; [reflexivity|]. cbn [utf8_valid_f uchar].
  destruct (a <? 128); [reflexivity|].
  destruct ((194 <=? a) && (a <=? 223)).
  { destruct r as [|b r']; [reflexivity|]. destruct (ucont b); reflexivity. }
  destruct ((224 <=? a) && (a <=? 239)).
  { destruct r as [|b [|c r']]; try reflexivity.
    destruct (if a =? 224 then (160 <=? b) && (b <=? 191) else if a =? 237 then (128 <=? b) && (b <=? 159) else ucont b);
      destruct (ucont c); reflexivity. }
  destruct ((240 <=? a) && (a <=? 244)); [|reflexivity].
  destruct r as [|b [|c [|d r']]]; try reflexivity.
  destruct (if a =? 240 then (144 <=? b) && (b <=? 191) else if a =? 244 then (128 <=? b) && (b <=? 143) else ucont b);
    destruct (ucont c); destruct (ucont d); reflexivity.
Qed.

Definition lead (a : N) : Prop := a < 128 \/ 194 <= a <= 244.
Definition iscont (b : N) : Prop := 128 <= b <= 191.

Lemma ucont_iscont : forall b, ucont b = true -> iscont b.
Proof. intros b H. unfold ucont in H. unfold iscont. lia. Qed.

(* the shape of a well-formed character: a lead byte, then continuation bytes; what follows is irrelevant *)
Lemma uchar_inv : forall s m, uchar s = Some m ->
  exists c r, s = c ++ r /\ length c = m /\ (forall x, uchar (c ++ x) = Some m) /\
              lead (hd 0 c) /\ Forall iscont (tl c) /\ (1 <= m <= 4)%nat.
Proof.
  intros s m H. destruct s as [|a r]; [discriminate|]. unfold uchar in H.
  destruct (a <? 128) eqn:E1.
  { inversion H; subst. exists [a], r. repeat apply conj; try reflexivity; try lia.
    - intros x. cbn [app uchar]. rewrite E1. reflexivity.
    - left. cbn. lia.
    - constructor. }
  destruct ((194 <=? a) && (a <=? 223)) eqn:E2.
  { destruct r as [|b r']; [discriminate|]. destruct (ucont b) eqn:Eb; [|discriminate]. inversion H; subst.
    exists [a; b], r'. repeat apply conj; try reflexivity; try lia.
    - intros x. cbn [app uchar]. rewrite E1, E2, Eb. reflexivity.
    - right. cbn. lia.
    - constructor; [apply ucont_iscont; assumption|constructor]. }
  destruct ((224 <=? a) && (a <=? 239)) eqn:E3.
  { destruct r as [|b [|c r']]; try discriminate.
    destruct ((if a =? 224 then (160 <=? b) && (b <=? 191) else if a =? 237 then (128 <=? b) && (b <=? 159) else ucont b) && ucont c) eqn:Eb;
      [|discriminate].
    inversion H; subst. exists [a; b; c], r'. repeat apply conj; try reflexivity; try lia.
    - intros x. cbn [app uchar]. rewrite E1, E2, E3, Eb. reflexivity.
    - right. cbn. lia.
    - apply andb_true_iff in Eb. destruct Eb as [Eb Ec].
      constructor; [|constructor; [apply ucont_iscont; assumption|constructor]].
      unfold iscont. destruct (a =? 224); [lia|]. destruct (a =? 237); [lia|]. apply ucont_iscont in Eb. exact Eb. }
  destruct ((240 <=? a) && (a <=? 244)) eqn:E4; [|discriminate].
  destruct r as [|b [|c [|d r']]]; try discriminate.
  destruct ((if a =? 240 then (144 <=? b) && (b <=? 191) else if a =? 244 then (128 <=? b) && (b <=? 143) else ucont b) && ucont c && ucont d) eqn:Eb;
    [|discriminate].
  inversion H; subst. exists [a; b; c; d], r'. repeat apply conj; try reflexivity; try lia.
  - intros x. cbn [app uchar]. rewrite E1, E2, E3, E4, Eb. reflexivity.
  - right. cbn. lia.
  - apply andb_true_iff in Eb. destruct Eb as [Eb Ed]. apply andb_true_iff in Eb. destruct Eb as [Eb Ec].
    constructor; [|constructor; [apply ucont_iscont; assumption|constructor; [apply ucont_iscont; assumption|constructor]]].
    unfold iscont. destruct (a =? 240); [lia|]. destruct (a =? 244); [lia|]. apply ucont_iscont in Eb. exact Eb.
Qed.

Lemma valid_fuel : forall f g s, (length s <= f)%nat -> (length s <= g)%nat -> utf8_valid_f f s = utf8_valid_f g s.
Proof.
  induction f as [|f IH]; intros g s Hf Hg.
  - destruct s; [|cbn in Hf; lia]. destruct g; reflexivity.
  - destruct s as [|a r] eqn:Es; [destruct g; reflexivity|]. rewrite <- Es in *.
    destruct g as [|g]; [subst s; cbn in Hg; lia|].
    rewrite !valid_step. subst s. destruct (uchar (a :: r)) as [n|] eqn:Eu; [|reflexivity].
    destruct (uchar_inv _ _ Eu) as (c & r' & _ & _ & _ & _ & _ & Hn).
    apply IH; rewrite skipn_length; cbn [length] in *; lia.
Qed.

Lemma valid_unfold : forall s, s <> [] ->
  utf8_valid s = match uchar s with Some n => utf8_valid (skipn n s) | None => false end.
Proof.
  intros s Hs. unfold utf8_valid. destruct s as [|a r]; [contradiction|].
  change (length (a :: r)) with (S (length r)). rewrite valid_step.
  destruct (uchar (a :: r)) as [n|] eqn:Eu; [|reflexivity].
  destruct (uchar_inv _ _ Eu) as (c & r' & _ & _ & _ & _ & _ & Hn).
  apply valid_fuel; rewrite ?skipn_length; cbn [length]; lia.
Qed.

(* a well-formed character in front changes nothing *)
Lemma valid_prepend : forall c m x, length c = m -> uchar (c ++ x) = Some m -> utf8_valid (c ++ x) = utf8_valid x.
Proof.
  intros c m x Hl Hu. rewrite valid_unfold.
  - rewrite Hu. rewrite <- Hl. rewrite skipn_app, skipn_all, Nat.sub_diag. reflexivity.
  - intros E. rewrite E in Hu. discriminate.
Qed.

(* utf8.RuneStart on bytes *)
Lemma rune_sweep :
  forallb (fun k => Bool.eqb (rune_start (N.of_nat k)) (negb ((128 <=? N.of_nat k) && (N.of_nat k <=? 191)))) (seq 0 256) = true.
Proof. vm_compute. reflexivity. Qed.

Lemma rune_start_byte : forall x, x < 256 -> rune_start x = negb ((128 <=? x) && (x <=? 191)).
Proof.
  intros x Hx. pose proof rune_sweep as S. rewrite forallb_forall in S.
  specialize (S (N.to_nat x)). rewrite N2Nat.id in S. apply eqb_prop. apply S. apply in_seq. lia.
Qed.

Lemma rune_start_cont : forall b, iscont b -> rune_start b = false.
Proof. intros b H. unfold iscont in H. rewrite rune_start_byte by lia. destruct (N.leb_spec 128 b); destruct (N.leb_spec b 191); try lia; reflexivity. Qed.
Lemma rune_start_lead : forall a, lead a -> rune_start a = true.
Proof.
  intros a H. unfold lead in H. rewrite rune_start_byte by lia.
  destruct (N.leb_spec 128 a); destruct (N.leb_spec a 191); try lia; reflexivity.
Qed.

Lemma valid_lead : forall s, s <> [] -> utf8_valid s = true -> rune_start (nth 0 s 0) = true.
Proof.
  intros s Hs Hv. rewrite valid_unfold in Hv by assumption.
  destruct (uchar s) as [m|] eqn:Eu; [|discriminate].
  destruct (uchar_inv _ _ Eu) as (c & r & -> & Hl & _ & Hlead & _ & Hm).
  destruct c as [|a c']; [cbn in Hl; lia|]. cbn [app nth]. cbn [hd] in Hlead. apply rune_start_lead; assumption.
Qed.

Lemma firstn_add {A} : forall (m j : nat) (s : list A), firstn (m + j) s = firstn m s ++ firstn j (skipn m s).
Proof. induction m; intros j s; [reflexivity|]. destruct s; [cbn; rewrite firstn_nil; reflexivity|]. cbn [Nat.add firstn skipn app]. f_equal. apply IHm. Qed.
Lemma skipn_add {A} : forall (m j : nat) (s : list A), skipn (m + j) s = skipn j (skipn m s).
Proof. induction m; intros j s; [reflexivity|]. destruct s; [cbn; rewrite skipn_nil; reflexivity|]. cbn [Nat.add skipn]. apply IHm. Qed.
Lemma nth_skipn {A} : forall (m j : nat) (s : list A) d, nth j (skipn m s) d = nth (m + j) s d.
Proof. induction m; intros j s d; [reflexivity|]. destruct s; [cbn; destruct j; reflexivity|]. cbn [Nat.add skipn nth]. apply IHm. Qed.

(* cutting well-formed UTF-8 where a character starts leaves two well-formed halves *)
Lemma valid_split : forall n s, (length s <= n)%nat -> utf8_valid s = true ->
  forall k, (k <= length s)%nat -> (k = length s \/ rune_start (nth k s 0) = true) ->
  utf8_valid (firstn k s) = true /\ utf8_valid (skipn k s) = true.
Proof.
  induction n as [|n IH]; intros s Hn Hv k Hk Hb.
  - destruct s; [|cbn in Hn; lia]. destruct k; [split; reflexivity|cbn in Hk; lia].
  - destruct k as [|k']. { split; [reflexivity|exact Hv]. }
    assert (Hs : s <> []) by (intros ->; cbn in Hk; lia).
    pose proof Hv as Hv0. rewrite valid_unfold in Hv by assumption.
    destruct (uchar s) as [m|] eqn:Eu; [|discriminate].
    destruct (uchar_inv _ _ Eu) as (c & r & Es & Hl & Hpre & Hlead & Hcont & Hm).
    assert (Hsk : skipn m s = r) by (subst s; rewrite <- Hl; rewrite skipn_app, skipn_all, Nat.sub_diag; reflexivity).
    assert (Hfi : firstn m s = c) by (subst s; rewrite <- Hl; rewrite firstn_app, firstn_all, Nat.sub_diag; cbn; apply app_nil_r).
    rewrite Hsk in Hv.
    destruct (Nat.lt_ge_cases (S k') m) as [Hlt|Hge].
    + (* inside the first character: not a boundary *)
      exfalso. assert (Hks : (S k' < length s)%nat) by (subst s; rewrite app_length; lia).
      destruct Hb as [Hb|Hb]; [lia|].
      subst s. rewrite app_nth1 in Hb by lia.
      destruct c as [|a c']; [cbn in Hl; lia|]. cbn [nth tl] in *.
      rewrite Forall_forall in Hcont. rewrite (rune_start_cont (nth k' c' 0)) in Hb; [discriminate|].
      apply Hcont. apply nth_In. cbn [length] in Hl. lia.
    + replace (S k') with (m + (S k' - m))%nat by lia.
      rewrite firstn_add, skipn_add, Hsk, Hfi.
      assert (Hlen : length s = (m + length r)%nat) by (subst s; rewrite app_length; lia).
      destruct (IH r ltac:(lia) Hv (S k' - m)%nat ltac:(lia)) as [H1 H2].
      { destruct Hb as [Hb|Hb]; [left; lia|right]. rewrite <- Hsk. rewrite nth_skipn.
        replace (m + (S k' - m))%nat with (S k') by lia. exact Hb. }
      split; [|exact H2]. rewrite (valid_prepend c m _ Hl (Hpre _)). exact H1.
Qed.

(* cut_back scans j, j-1, .., 1 for a rune start *)
Lemma cut_back_some : forall j s k, cut_back j s = Some k -> (1 <= k <= j)%nat /\ rune_start (nth k s 0) = true.
Proof.
  induction j as [|j IH]; intros s k H; [discriminate|]. cbn [cut_back] in H.
  destruct (rune_start (nth (S j) s 0)) eqn:E.
  - inversion H; subst. split; [lia|exact E].
  - destruct (IH _ _ H) as [Hr Hs]. split; [lia|exact Hs].
Qed.
Lemma cut_back_none : forall j s, cut_back j s = None -> forall k, (1 <= k <= j)%nat -> rune_start (nth k s 0) = false.
Proof.
  induction j as [|j IH]; intros s H k Hk; [lia|]. cbn [cut_back] in H.
  destruct (rune_start (nth (S j) s 0)) eqn:E; [discriminate|].
  destruct (Nat.eq_dec k (S j)) as [->|Hne]; [exact E|]. apply IH; [exact H|lia].
Qed.

(* F10-4, general: the chunks of a well-formed text are well-formed, whatever its length *)
Lemma chunks_valid : forall f n s, (4 <= n)%nat -> utf8_valid s = true ->
  forallb utf8_valid (chunks true f n s) = true.
Proof.
  induction f as [|f IH]; intros n s Hn Hv; [reflexivity|].
  cbn [chunks]. destruct s as [|p q] eqn:Es; [reflexivity|]. rewrite <- Es in *.
  assert (Hs : s <> []) by (subst s; discriminate).
  cbn [forallb].
  assert (H : utf8_valid (firstn (cut true n s) s) = true /\ utf8_valid (skipn (cut true n s) s) = true).
  { unfold cut. cbn [andb]. destruct (Nat.ltb_spec n (length s)) as [Hlt|Hge].
    - destruct (cut_back n s) as [k|] eqn:Ec.
      + destruct (cut_back_some _ _ _ Ec) as [Hk Hr]. apply (valid_split (length s) s (le_n _) Hv k); [lia|right; exact Hr].
      + exfalso. pose proof Hv as Hv0. rewrite valid_unfold in Hv0 by assumption.
        destruct (uchar s) as [m|] eqn:Eu; [|discriminate].
        destruct (uchar_inv _ _ Eu) as (c & r & Es' & Hl & _ & _ & _ & Hm).
        assert (Hsk : skipn m s = r) by (rewrite Es'; rewrite <- Hl; rewrite skipn_app, skipn_all, Nat.sub_diag; reflexivity).
        rewrite Hsk in Hv0.
        assert (Hr : r <> []).
        { intros ->. rewrite Es' in Hlt. rewrite app_length in Hlt. cbn [length] in Hlt. lia. }
        pose proof (valid_lead r Hr Hv0) as Hlead. rewrite <- Hsk in Hlead. rewrite nth_skipn in Hlead.
        rewrite Nat.add_0_r in Hlead.
        rewrite (cut_back_none _ _ Ec m ltac:(lia)) in Hlead. discriminate.
    - rewrite firstn_all2 by lia. rewrite skipn_all2 by lia. split; [exact Hv|reflexivity]. }
  destruct H as [H1 H2]. rewrite H1. cbn [andb]. apply IH; assumption.
Qed.

Lemma chunk_len_ge4 : forall k, (4 <= chunk_len k)%nat.
Proof. intros k. unfold chunk_len. lia. Qed.

Lemma text_chunks_general : forall (O : eopts) (s : list N),
  eo_str2raw O = false -> utf8_valid s = true -> chunks_utf8 (tree_of O (IStr s)) = true.
Proof.
  intros O s Hr Hv. cbn [tree_of]. rewrite Hr. cbn [negb]. unfold str_tree.
  destruct (eo_indef O); [| reflexivity].
  cbn [chunks_utf8]. rewrite forallb_forall. intros c Hc. apply in_map_iff in Hc. destruct Hc as (x & <- & Hx). cbn [snd].
  pose proof (chunks_valid (length s) (chunk_len (length s)) s (chunk_len_ge4 _) Hv) as H.
  rewrite forallb_forall in H. apply H. exact Hx.
Qed.

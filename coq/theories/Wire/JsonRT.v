(* Wire/JsonRT — round trip: Decode(&interface{}) of what the json encoder wrote. *)
From Coq Require Import List NArith ZArith Bool Lia.
From Verif Require Import Base.Outcome Wire.Item Gen.Consts Wire.Json.
Import ListNotations.
Open Scope N_scope.

(* ------------------------------------------------------------------ *)
(* laws about the lexical leaves (property C09's domain)              *)

Definition plain (b : N) : bool := negb (b =? 34) && negb (b =? 92).
Definition numtext (t : list N) : Prop := t <> [] /\ forallb isnumc t = true.

(* jsonNakedNum (parseNumber, decimal.go:349-387) refuses exactly one class of the number texts the
   encoder writes: a bare decimal integer literal worth 2^63 or more, under SignedInteger without PreferFloat
   (chkOvf.Uint2Int -> ParseInt error).  The encoder writes such a literal not only for an unsigned integer
   but also for a FLOAT: jsonFloatStrconvFmtPrec64/32 (json.base.go:510-539) force one fractional digit only
   below 2^52 / 2^23 (noFrac64: exp < 52), so an integral float64 in [2^52, 1e21) is written with all its
   integer digits and nothing else; those in [2^63, 2^64) fall in the refused class (known finding F15-1:
   W_json_float_bareint_refuted).  [num_read_ok D t]: the text t is not in that class under D. *)
Definition num_read_ok (D : dopts) (t : list N) : bool :=
  negb (signedInteger D) || preferFloat D ||
  (let neg := match t with c :: _ => c =? 45 | [] => false end in
   let '(f, ok) := Verif.C09.Model.parseUint64_simple (if neg then tl t else t) in
   negb ok || neg || (f <? 2 ^ 63)%Z).

Record leaf_laws (L : leaf) : Prop := mklaws {
  (* a string literal without quote or backslash decodes to itself and ends at the quote *)
  ll_unq_plain : forall p rest, forallb plain p = true -> unquote L (p ++ 34 :: rest) = Ok (p, rest);
  (* what quoteStr wrote decodes to the (sanitised) string and ends at the closing quote *)
  ll_unq_quote : forall h s rest, unquote L (quote_body L h s ++ 34 :: rest) = Ok (sanit L s, rest);
  (* ... and contains no quote outside an escape: the skip scanner ends at the same place *)
  ll_cstr_quote : forall h s rest, cstr false (quote_body L h s ++ 34 :: rest) = Ok rest;
  ll_time_plain : forall s n, forallb plain (fmt_time L s n) = true;
  (* float texts consist of number characters *)
  ll_f64_num : forall b, f64special b = false -> numtext (fmt_f64 L b);
  ll_f32_num : forall b, f32special b = false -> numtext (fmt_f32 L b);
  (* ... and are accepted back by the number reader, under every option vector that does not refuse the text
     as an integer of 2^63 or more (the unguarded statement is false of strconv: full_float_law below) *)
  ll_f64_ok : forall D b, f64special b = false -> b < 2 ^ 64 -> num_read_ok D (fmt_f64 L b) = true ->
              exists i, naked_num L D (fmt_f64 L b) = Ok i;
  ll_f32_ok : forall D b, f32special b = false -> b < 2 ^ 32 -> num_read_ok D (fmt_f32 L b) = true ->
              exists i, naked_num L D (fmt_f32 L b) = Ok i;
  (* decimal integers: digits only; accepted back (an unsigned value >= 2^63 under SignedInteger is not) *)
  ll_udig_num : forall u, u < 2 ^ 64 -> udigits u <> [] /\ forallb (fun c => (48 <=? c) && (c <=? 57)) (udigits u) = true;
  ll_int_ok : forall D z, (- 2 ^ 63 <= z < 2 ^ 63)%Z -> exists i, naked_num L D (int_text z) = Ok i;
  ll_uint_ok : forall D u, u < 2 ^ 64 -> (signedInteger D = false \/ preferFloat D = true \/ u < 2 ^ 63) ->
               exists i, naked_num L D (udigits u) = Ok i }.

(* the statement one would like (every finite float the encoder wrote is read back by the number reader under
   EVERY decoder option vector): FALSE of the implementation, refuted on the model with the observed texts in
   Wire/JsonLeaf.v (float_bareint_refuted) *)
Definition full_float_law (L : leaf) : Prop :=
  forall D b, f64special b = false -> b < 2 ^ 64 -> exists i, naked_num L D (fmt_f64 L b) = Ok i.

(* ------------------------------------------------------------------ *)
(* tokenizer facts                                                     *)

Lemma skipws_app : forall ws l, forallb isws ws = true -> skipws (ws ++ l) = skipws l.
Proof. induction ws as [|w r IH]; intros l H; cbn in *; [reflexivity|]. apply andb_prop in H as [H1 H2]. rewrite H1. auto. Qed.

Lemma skipws_hd : forall c r, isws c = false -> skipws (c :: r) = Ok (mkst c r).
Proof. intros c r H. cbn. rewrite H. reflexivity. Qed.

Definition after (num : bool) (tl : list N) : st :=
  if num then match tl with [] => mkst 0 [] | b :: r => mkst b r end else mkst 0 tl.

Lemma adv0 : forall l, advance (mkst 0 l) = skipws l.
Proof. reflexivity. Qed.

Lemma adv_after : forall num tl, advance (after num tl) = advance (mkst 0 tl).
Proof.
  intros [|] tl; cbn; [|reflexivity]. destruct tl as [|b r]; [reflexivity|].
  unfold advance; cbn. destruct (isws b); reflexivity.
Qed.

Lemma nl_ws : forall o lvl, forallb isws (nl o lvl) = true.
Proof.
  intros o lvl. unfold nl. destruct (indent o =? 0)%Z; [reflexivity|]. cbn.
  induction (N.to_nat _) as [|n IH]; cbn; [reflexivity|]. rewrite IH. destruct (indent o <? 0)%Z; reflexivity.
Qed.

Lemma numspan_app : forall t tl, forallb isnumc t = true ->
  match tl with b :: _ => isnumc b = false | [] => True end -> numspan (t ++ tl) = (t, tl).
Proof.
  induction t as [|c r IH]; intros tl H Hd; cbn in *.
  - destruct tl as [|b q]; [reflexivity|]. cbn. rewrite Hd. reflexivity.
  - apply andb_prop in H as [H1 H2]. rewrite H1. rewrite (IH tl H2 Hd). reflexivity.
Qed.

(* unfolding equations of the mutual fixpoint *)
Lemma dec_S : forall L D f depth key s,
  dec L D (S f) depth key s =
    (do s1 <- advance s ;;
    let t := tok s1 in
    if t =? 110 then do s2 <- lit [117; 108; 108] s1 ;; Ok (INil, s2)
    else if t =? 102 then do s2 <- lit [97; 108; 115; 101] s1 ;; Ok (IBool false, s2)
    else if t =? 116 then do s2 <- lit [114; 117; 101] s1 ;; Ok (IBool true, s2)
    else if t =? 123 then
      do d' <- depth_enter D depth ;;
      do (kvs, s2) <- dec_pairs L D f d' true [] (mkst 0 (inp s1)) ;;
      Ok (IMap kvs, s2)
    else if t =? 91 then
      do d' <- depth_enter D depth ;;
      do (xs, s2) <- dec_elems L D f d' true (mkst 0 (inp s1)) ;;
      Ok (IArr xs, s2)
    else if t =? 34 then
      do (bs, r) <- unquote L (inp s1) ;;
      Ok (rd_quoted L D key bs, mkst 0 r)
    else
      let '(bs, s2) := read_num s1 in
      if isnil bs then Err EOther
      else do i <- naked_num L D bs ;; Ok (i, s2)).
Proof. reflexivity. Qed.

Lemma dec_elems_S : forall L D f depth first s,
  dec_elems L D (S f) depth first s =
    (do s1 <- advance s ;;
    if (tok s1 =? 125) || (tok s1 =? 93) then
      if tok s1 =? 93 then Ok ([], mkst 0 (inp s1)) else Err EOther
    else
      do s2 <- (if first then Ok s1 else check_sep 44 s1) ;;
      do (x, s3) <- dec L D f depth false s2 ;;
      do (xs, s4) <- dec_elems L D f depth false s3 ;;
      Ok (x :: xs, s4)).
Proof. reflexivity. Qed.

Lemma dec_pairs_S : forall L D f depth first seen s,
  dec_pairs L D (S f) depth first seen s =
    (do s1 <- advance s ;;
    if (tok s1 =? 125) || (tok s1 =? 93) then
      if tok s1 =? 125 then Ok ([], mkst 0 (inp s1)) else Err EOther
    else
      do s2 <- (if first then Ok s1 else check_sep 44 s1) ;;
      if smap D then
        do (k, s3) <- dec_strkey L s2 ;;
        do s4 <- check_sep 58 s3 ;;
        if seen_key seen k then Err EUnsupported else
        do (v, s5) <- dec L D f depth false s4 ;;
        do (kvs, s6) <- dec_pairs L D f depth false (k :: seen) s5 ;;
        Ok ((k, v) :: kvs, s6)
      else
        do (k, s3) <- dec L D f depth true s2 ;;
        do s4 <- check_sep 58 s3 ;;
        do s5 <- advance s4 ;;
        if unhashable k then Err EOther else
        if seen_key seen k then Err EUnsupported else
        do (v, s6) <- dec L D f depth false s5 ;;
        do (kvs, s7) <- dec_pairs L D f depth false (k :: seen) s6 ;;
        Ok ((k, v) :: kvs, s7)).
Proof. reflexivity. Qed.

(* ------------------------------------------------------------------ *)
(* shapes                                                              *)

Section RT.
Variable L : leaf.
Hypothesis LL : leaf_laws L.

Definition delim_ok (num : bool) (tl : list N) : Prop :=
  num = true -> match tl with b :: _ => isnumc b = false | [] => True end.

Definition sb_num (t : list N) : bool := negb (eqbl t t_true || eqbl t t_false).
Definition shape_num (sh : shape) : bool := match sh with SB t => sb_num t | _ => false end.
Definition isnum (o : eopts) (key : bool) (i : item) : bool := shape_num (shape_of L o key i).

Definition shape_ok (D : dopts) (sh : shape) : Prop :=
  match sh with
  | SNull => True
  | SQ w d => forall tl, unquote L (w ++ 34 :: tl) = Ok (d, tl)
  | SB t => t = t_true \/ t = t_false \/ (numtext t /\ exists i, naked_num L D t = Ok i)
  | SNone => False
  end.

Lemma eqbl_refl : forall a, eqbl a a = true.
Proof. induction a; cbn; [reflexivity|]. rewrite N.eqb_refl. auto. Qed.

Lemma numtext_hd : forall t, numtext t -> exists c r, t = c :: r /\ isnumc c = true /\ forallb isnumc r = true.
Proof. intros [|c r] [H1 H2]; [congruence|]. cbn in H2. apply andb_prop in H2 as [? ?]. eauto. Qed.

Lemma numc_cases : forall c, isnumc c = true ->
  isws c = false /\ (c =? 110) = false /\ (c =? 102) = false /\ (c =? 116) = false /\ (c =? 123) = false /\
  (c =? 91) = false /\ (c =? 34) = false /\ (c =? 125) = false /\ (c =? 93) = false /\ (c =? 44) = false /\ (c =? 58) = false.
Proof.
  intros c H. unfold isnumc, isws in *.
  repeat match goal with
  | H : _ || _ = true |- _ => apply orb_prop in H as [H|H]
  | H : _ && _ = true |- _ => apply andb_prop in H as [? ?]
  end;
  repeat match goal with
  | H : (_ <=? _) = true |- _ => apply N.leb_le in H
  | H : (_ =? _) = true |- _ => apply N.eqb_eq in H
  end;
  repeat apply conj; try (apply N.ltb_ge; lia); apply N.eqb_neq; lia.
Qed.

Lemma numtext_not_lit : forall t, numtext t -> sb_num t = true.
Proof.
  intros t H. destruct (numtext_hd t H) as (c & r & -> & Hc & _). apply numc_cases in Hc.
  unfold sb_num, t_true, t_false. cbn. destruct Hc as (_ & _ & H102 & H116 & _).
  rewrite H102, H116. reflexivity.
Qed.

(* first byte of an encoded shape: not whitespace, not a closing bracket / separator *)
Definition okhd (c : N) : Prop :=
  isws c = false /\ (c =? 125) = false /\ (c =? 93) = false.

Lemma shape_hd : forall D sh, shape_ok D sh -> exists c r, enc_shape sh = c :: r /\ okhd c.
Proof.
  intros D [|w d|t|] H; cbn in *.
  - exists 110, [117; 108; 108]. repeat split.
  - eexists _, _. split; [reflexivity|]. repeat split.
  - destruct H as [->|[->|[Hn _]]].
    + eexists _, _. split; [reflexivity|repeat split].
    + eexists _, _. split; [reflexivity|repeat split].
    + destruct (numtext_hd t Hn) as (c & r & -> & Hc & _). exists c, r. split; [reflexivity|].
      apply numc_cases in Hc. unfold okhd. tauto.
  - contradiction.
Qed.

(* the decoder on one encoded scalar, not a string-map key *)
Lemma dec_shape : forall D sh f dp key s tl,
  shape_ok D sh -> (key = true -> smap D = false) ->
  advance s = advance (mkst 0 (enc_shape sh ++ tl)) -> delim_ok (shape_num sh) tl ->
  dec L D (S f) dp key s = Ok (norm_shape L D key sh, after (shape_num sh) tl).
Proof.
  intros D sh f dp key s tl Hok Hk Hadv Hd.
  assert (Hks : key && smap D = false) by (destruct key; [rewrite Hk; reflexivity|reflexivity]).
  rewrite dec_S. rewrite Hadv, adv0. destruct sh as [|w d|t|]; cbn [enc_shape shape_ok norm_shape shape_num] in *.
  - cbn. rewrite Hks. reflexivity.
  - cbn [app]. rewrite <- app_assoc. cbn [app].
    rewrite skipws_hd by reflexivity. cbn. rewrite Hok. cbn. rewrite Hks. reflexivity.
  - destruct Hok as [->|[->|[Hn [i Hi]]]].
    + cbn. unfold rd_bare. rewrite Hks. reflexivity.
    + cbn. unfold rd_bare. rewrite Hks. reflexivity.
    + pose proof (numtext_not_lit t Hn) as Hnl. rewrite Hnl in *.
      destruct (numtext_hd t Hn) as (c & r & -> & Hc & Hr).
      pose proof (numc_cases c Hc) as (Hw & H1 & H2 & H3 & H4 & H5 & H6 & _).
      cbn [app]. rewrite skipws_hd by exact Hw. cbn [bind tok inp].
      rewrite H1, H2, H3, H4, H5, H6. unfold read_num. cbn [tok inp]. rewrite Hc.
      rewrite (numspan_app r tl Hr (Hd eq_refl)). cbn [isnil]. rewrite Hi. cbn [bind].
      unfold rd_bare. rewrite Hks. unfold sb_num in Hnl. apply negb_true_iff in Hnl. apply orb_false_iff in Hnl as [E1 E2].
      rewrite E1, E2. unfold nn_or_nil. rewrite Hi. unfold after. destruct tl; reflexivity.
  - contradiction.
Qed.

(* DecodeStringAsBytes on one encoded scalar: the key of a map[string]interface{} *)
Lemma strkey_shape : forall D sh s tl,
  shape_ok D sh -> smap D = true ->
  advance s = advance (mkst 0 (enc_shape sh ++ tl)) -> delim_ok (shape_num sh) tl ->
  dec_strkey L s = Ok (norm_shape L D true sh, after (shape_num sh) tl).
Proof.
  intros D sh s tl Hok Hs Hadv Hd. unfold dec_strkey. rewrite Hadv, adv0.
  destruct sh as [|w d|t|]; cbn [enc_shape shape_ok norm_shape shape_num] in *.
  - cbn. rewrite Hs. reflexivity.
  - cbn [app]. rewrite <- app_assoc. cbn [app].
    rewrite skipws_hd by reflexivity. cbn. rewrite Hok. cbn. rewrite Hs. reflexivity.
  - destruct Hok as [->|[->|[Hn [i Hi]]]].
    + cbn. unfold rd_bare. rewrite Hs. reflexivity.
    + cbn. unfold rd_bare. rewrite Hs. reflexivity.
    + pose proof (numtext_not_lit t Hn) as Hnl. rewrite Hnl in *.
      destruct (numtext_hd t Hn) as (c & r & -> & Hc & Hr).
      pose proof (numc_cases c Hc) as (Hw & H1 & H2 & H3 & H4 & H5 & H6 & _).
      cbn [app]. rewrite skipws_hd by exact Hw. cbn [bind tok inp].
      rewrite H1, H2, H3, H6. unfold read_num. cbn [tok inp]. rewrite Hc.
      rewrite (numspan_app r tl Hr (Hd eq_refl)).
      unfold rd_bare. rewrite Hs. cbn. unfold after. destruct tl; reflexivity.
  - contradiction.
Qed.


(* ------------------------------------------------------------------ *)
(* items json can carry                                                *)

Definition scalar_item (i : item) : bool :=
  match i with IArr _ | IMap _ | ITag _ _ | IExt _ _ => false | _ => true end.

Fixpoint keys_fresh (o : eopts) (D : dopts) (seen : list item) (l : list (item * item)) : Prop :=
  match l with
  | [] => True
  | kv :: r => seen_key seen (norm L o D true (fst kv)) = false /\ keys_fresh o D (norm L o D true (fst kv) :: seen) r
  end.

(* ranges the Encoder guarantees; no tags/extensions; bytes as base64 (the "array" layout is outside
   this theorem); containers are not map keys (Go cannot hash them); keys pairwise different once decoded
   (a repeated key takes the unmodelled decode-into-old-value path); an unsigned value >= 2^63 is not
   read back under SignedInteger (refused: overflow), and neither is a float whose text is a bare integer
   literal of that size ([num_read_ok]) *)
Fixpoint jwf (o : eopts) (D : dopts) (key : bool) (i : item) : Prop :=
  match i with
  | INil | IBool _ | ITime _ _ => True
  | IInt z => (- 2 ^ 63 <= z < 2 ^ 63)%Z
  | IUint n => n < 2 ^ 64 /\ (signedInteger D = false \/ preferFloat D = true \/ n < 2 ^ 63)
  | IF32 b => b < 2 ^ 32 /\ (f32special b = false -> num_read_ok D (fmt_f32 L b) = true)
  | IF64 b => b < 2 ^ 64 /\ (f64special b = false -> num_read_ok D (fmt_f64 L b) = true)
  | IStr _ => stringToRaw o && bytesArr o = false
  | IBytes _ => bytesArr o = false
  | IArr l => key = false /\ (fix go l := match l with [] => True | x :: r => jwf o D false x /\ go r end) l
  | IMap l => key = false /\ keys_fresh o D [] l /\
              (fix go l := match l with [] => True | kv :: r => jwf o D true (fst kv) /\ jwf o D false (snd kv) /\ go r end) l
  | ITag _ _ | IExt _ _ => False
  end.

Definition jwf_list (o : eopts) (D : dopts) (l : list item) : Prop :=
  (fix go l := match l with [] => True | x :: r => jwf o D false x /\ go r end) l.
Definition jwf_pairs (o : eopts) (D : dopts) (l : list (item * item)) : Prop :=
  (fix go l := match l with [] => True | kv :: r => jwf o D true (fst kv) /\ jwf o D false (snd kv) /\ go r end) l.

(* fuel the decoder needs *)
Fixpoint need (i : item) : nat :=
  match i with
  | IArr l => S ((fix go l := match l with [] => 1 | x :: r => S (Nat.max (need x) (go r)) end) l)
  | IMap l => S ((fix go l := match l with [] => 1 | kv :: r => S (Nat.max (need (fst kv)) (Nat.max (need (snd kv)) (go r))) end) l)
  | _ => 1
  end%nat.
Definition need_elems (l : list item) : nat :=
  (fix go l := match l with [] => 1 | x :: r => S (Nat.max (need x) (go r)) end)%nat l.
Definition need_pairs (l : list (item * item)) : nat :=
  (fix go l := match l with [] => 1 | kv :: r => S (Nat.max (need (fst kv)) (Nat.max (need (snd kv)) (go r))) end)%nat l.

Definition enc_elems (o : eopts) (lvl : N) : bool -> list item -> list N :=
  fix go (first : bool) (l : list item) : list N :=
    match l with
    | [] => []
    | x :: r => (if first then [] else [44]) ++ nl o (lvl + 1) ++ enc_at L o false (lvl + 1) x ++ go false r
    end.
Definition enc_pairs (o : eopts) (lvl : N) : bool -> list (item * item) -> list N :=
  fix go (first : bool) (l : list (item * item)) : list N :=
    match l with
    | [] => []
    | kv :: r => (if first then [] else [44]) ++ nl o (lvl + 1)
                 ++ enc_at L o true (lvl + 1) (fst kv) ++ colon o
                 ++ enc_at L o false (lvl + 1) (snd kv) ++ go false r
    end.

Lemma enc_arr_eq : forall o key lvl x r,
  enc_at L o key lvl (IArr (x :: r)) = 91 :: enc_elems o lvl true (x :: r) ++ nl o lvl ++ [93].
Proof. reflexivity. Qed.
Lemma enc_map_eq : forall o key lvl x r,
  enc_at L o key lvl (IMap (x :: r)) = 123 :: enc_pairs o lvl true (x :: r) ++ nl o lvl ++ [125].
Proof. reflexivity. Qed.

(* ---- plain texts *)
Lemma numc_plain : forall c, isnumc c = true -> plain c = true.
Proof.
  intros c H. pose proof (numc_cases c H) as (_ & _ & _ & _ & _ & _ & H34 & _). unfold plain. rewrite H34. cbn.
  destruct (c =? 92) eqn:E; [|reflexivity]. apply N.eqb_eq in E. subst c. cbv in H. discriminate H.
Qed.

Lemma forallb_impl : forall (p q : N -> bool) l, (forall x, p x = true -> q x = true) -> forallb p l = true -> forallb q l = true.
Proof. induction l; cbn; intros; [reflexivity|]. apply andb_prop in H0 as [? ?]. rewrite H, IHl; auto. Qed.

Lemma dig_numc : forall c, (48 <=? c) && (c <=? 57) = true -> isnumc c = true.
Proof. intros c H. unfold isnumc. rewrite H. reflexivity. Qed.

Lemma udig_numtext : forall u, u < 2 ^ 64 -> numtext (udigits u).
Proof. intros u H. destruct (ll_udig_num L LL u H) as [H1 H2]. split; [exact H1|]. eapply forallb_impl; [|exact H2]. apply dig_numc. Qed.

Lemma int_numtext : forall z, (- 2 ^ 63 <= z < 2 ^ 63)%Z -> numtext (int_text z).
Proof.
  intros z H. unfold int_text. destruct (z <? 0)%Z eqn:E.
  - apply Z.ltb_lt in E. assert (Hu : Z.to_N (- z) < 2 ^ 64) by lia.
    destruct (udig_numtext _ Hu) as [H1 H2]. split; [discriminate|]. cbn. exact H2.
  - apply Z.ltb_ge in E. apply udig_numtext. lia.
Qed.

Lemma numtext_plain : forall t, numtext t -> forallb plain t = true.
Proof. intros t [_ H]. eapply forallb_impl; [|exact H]. apply numc_plain. Qed.

Lemma b64c_plain : forall x, plain (b64c x) = true.
Proof.
  intros x. unfold b64c, plain.
  destruct (x <? 26) eqn:E1; [apply N.ltb_lt in E1|].
  { replace (65 + x =? 34) with false by (symmetry; apply N.eqb_neq; lia).
    replace (65 + x =? 92) with false by (symmetry; apply N.eqb_neq; lia). reflexivity. }
  destruct (x <? 52) eqn:E2; [apply N.ltb_lt in E2; apply N.ltb_ge in E1|].
  { replace (71 + x =? 34) with false by (symmetry; apply N.eqb_neq; lia).
    replace (71 + x =? 92) with false by (symmetry; apply N.eqb_neq; lia). reflexivity. }
  destruct (x <? 62) eqn:E3; [apply N.ltb_lt in E3; apply N.ltb_ge in E2|].
  { replace (x - 4 =? 34) with false by (symmetry; apply N.eqb_neq; lia).
    replace (x - 4 =? 92) with false by (symmetry; apply N.eqb_neq; lia). reflexivity. }
  destruct (x =? 62); reflexivity.
Qed.

Lemma b64_plain : forall l, forallb plain (b64 l) = true.
Proof.
  assert (H : forall n l, (length l <= n)%nat -> forallb plain (b64 l) = true).
  { induction n as [|n IH]; intros l Hl.
    - destruct l; [reflexivity|cbn in Hl; lia].
    - destruct l as [|a [|b [|c r]]]; cbn [b64 forallb]; rewrite ?b64c_plain; try reflexivity.
      cbn. apply IH. cbn in Hl. lia. }
  intros l. apply (H (length l)). lia.
Qed.

Lemma plain_ok : forall D t, forallb plain t = true -> shape_ok D (SQ t t).
Proof. intros D t H tl. apply (ll_unq_plain L LL). exact H. Qed.

Lemma qwrap_ok : forall D q t,
  forallb plain t = true -> (t = t_true \/ t = t_false \/ (numtext t /\ exists i, naked_num L D t = Ok i)) ->
  shape_ok D (qwrap q t).
Proof. intros D [|] t Hp Hs; [apply plain_ok; exact Hp|exact Hs]. Qed.

Lemma shape_of_ok : forall o D key i, jwf o D key i -> scalar_item i = true -> shape_ok D (shape_of L o key i).
Proof.
  intros o D key i Hw Hs. destruct i; try discriminate Hs; cbn [shape_of jwf] in Hw |- *.
  - exact I.
  - apply qwrap_ok; destruct b; try reflexivity; auto.
  - apply qwrap_ok; [apply numtext_plain, int_numtext, Hw|].
    right; right. split; [apply int_numtext, Hw|apply (ll_int_ok L LL), Hw].
  - destruct Hw as [Hn Hg]. apply qwrap_ok; [apply numtext_plain, udig_numtext, Hn|].
    right; right. split; [apply udig_numtext, Hn|apply (ll_uint_ok L LL); assumption].
  - destruct Hw as [Hb Hg]. destruct (f32special bits) eqn:E; [exact I|]. apply qwrap_ok; [apply numtext_plain, (ll_f32_num L LL), E|].
    right; right. split; [apply (ll_f32_num L LL), E|apply (ll_f32_ok L LL); [exact E|exact Hb|exact (Hg eq_refl)]].
  - destruct Hw as [Hb Hg]. destruct (f64special bits) eqn:E; [exact I|]. apply qwrap_ok; [apply numtext_plain, (ll_f64_num L LL), E|].
    right; right. split; [apply (ll_f64_num L LL), E|apply (ll_f64_ok L LL); [exact E|exact Hb|exact (Hg eq_refl)]].
  - destruct (stringToRaw o) eqn:E1; cbn in Hw.
    + rewrite Hw. apply plain_ok, b64_plain.
    + intros tl. apply (ll_unq_quote L LL).
  - rewrite Hw. apply plain_ok, b64_plain.
  - destruct (time_zero sec nsec); [exact I|]. apply plain_ok, (ll_time_plain L LL).
Qed.

Lemma scalar_enc_norm : forall o D key lvl i, jwf o D key i -> scalar_item i = true ->
  enc_at L o key lvl i = enc_shape (shape_of L o key i) /\ norm L o D key i = norm_shape L D key (shape_of L o key i).
Proof.
  intros o D key lvl i Hw Hs. destruct i; try discriminate; cbn [enc_at norm jwf] in *; try (split; reflexivity).
  - rewrite Hw. split; reflexivity.
  - rewrite Hw. split; reflexivity.
Qed.

Lemma enc_hd : forall o D key lvl i, jwf o D key i -> exists c e, enc_at L o key lvl i = c :: e /\ okhd c.
Proof.
  intros o D key lvl i Hw. destruct (scalar_item i) eqn:Hs.
  - destruct (scalar_enc_norm o D key lvl i Hw Hs) as [-> _]. eapply shape_hd. eapply shape_of_ok; eauto.
  - destruct i; try discriminate; cbn [jwf] in Hw; try contradiction.
    + destruct l; eexists _, _; (split; [reflexivity|repeat split]).
    + destruct l; eexists _, _; (split; [reflexivity|repeat split]).
Qed.


(* ---- results of the number reader are hashable scalars *)
Lemma naked_num_scalar : forall D t i, naked_num L D t = Ok i -> unhashable i = false.
Proof.
  intros D t i. unfold naked_num.
  destruct (preferFloat D).
  { destruct (pfloat L t); intros H; inversion H; reflexivity. }
  destruct (Verif.C09.Model.parseUint64_simple _) as [f ok]. destruct ok.
  - destruct (match t with [] => false | c :: _ => c =? 45 end).
    + destruct (uint2int_ovf f true); [destruct (pfloat L t)|]; intros H; inversion H; reflexivity.
    + destruct (signedInteger D); [destruct (uint2int_ovf f false)|]; intros H; inversion H; reflexivity.
  - destruct (pfloat L t); intros H; inversion H; reflexivity.
Qed.

Lemma norm_shape_hashable : forall D key sh, unhashable (norm_shape L D key sh) = false.
Proof.
  intros D key sh. destruct sh as [|w d|t|]; cbn.
  - destruct (key && smap D); reflexivity.
  - destruct (key && smap D); [reflexivity|]. unfold rd_quoted.
    destruct (_ && _ && _ && _); [|reflexivity]. unfold quoted_key.
    destruct (eqbl d t_true); [reflexivity|]. destruct (eqbl d t_false); [reflexivity|].
    destruct (Verif.C09.Model.jsonIsNumberLiteral d); [|reflexivity].
    destruct (naked_num L D d) eqn:E; try reflexivity. eapply naked_num_scalar; eauto.
  - unfold rd_bare. destruct (key && smap D); [reflexivity|].
    destruct (eqbl t t_true); [reflexivity|]. destruct (eqbl t t_false); [reflexivity|].
    unfold nn_or_nil. destruct (naked_num L D t) eqn:E; try reflexivity. eapply naked_num_scalar; eauto.
  - reflexivity.
Qed.

Lemma key_scalar : forall o D i, jwf o D true i -> scalar_item i = true.
Proof. intros o D i H. destruct i; cbn in *; try reflexivity; try contradiction; destruct H as [H _]; discriminate. Qed.

(* what follows an element never looks like the continuation of a number *)
Lemma delim_hd : forall b c r, isnumc c = false -> delim_ok b (c :: r).
Proof. intros b c r H _. exact H. Qed.

Lemma nl_then_delim : forall b o lvl c r, isnumc c = false -> delim_ok b (nl o lvl ++ c :: r).
Proof.
  intros b o lvl c r H _. unfold nl. destruct (indent o =? 0)%Z; cbn; [exact H|reflexivity].
Qed.

Lemma elems_delim : forall b o lvl r c tl, isnumc c = false -> delim_ok b (enc_elems o lvl false r ++ nl o lvl ++ c :: tl).
Proof. intros b o lvl r c tl H. destruct r as [|y r]; cbn [enc_elems app]; [apply nl_then_delim; exact H|intros _; reflexivity]. Qed.

Lemma pairs_delim : forall b o lvl r c tl, isnumc c = false -> delim_ok b (enc_pairs o lvl false r ++ nl o lvl ++ c :: tl).
Proof. intros b o lvl r c tl H. destruct r as [|y r]; cbn [enc_pairs app]; [apply nl_then_delim; exact H|intros _; reflexivity]. Qed.

Lemma depth_enter_ok : forall D dp, (dp + 1 < maxdepth D)%Z -> depth_enter D dp = Ok (dp + 1)%Z.
Proof. intros D dp H. unfold depth_enter. destruct (maxdepth D <=? dp + 1)%Z eqn:E; [apply Z.leb_le in E; lia|reflexivity]. Qed.

Lemma advance_hd : forall c r, isws c = false -> advance (mkst c r) = Ok (mkst c r).
Proof. intros c r H. unfold advance. cbn. rewrite H. reflexivity. Qed.

Lemma check_sep_hd : forall c r, isws c = false -> check_sep c (mkst c r) = Ok (mkst 0 r).
Proof. intros c r H. unfold check_sep. rewrite advance_hd by exact H. cbn. rewrite N.eqb_refl. reflexivity. Qed.

(* the property proved by induction on the item *)
Definition RTP (i : item) : Prop :=
  forall o D key lvl fuel dp s tl,
    jwf o D key i -> (need i <= fuel)%nat -> (dp + Z.of_nat (depth i) < maxdepth D)%Z ->
    (key = true -> smap D = false) ->
    advance s = advance (mkst 0 (enc_at L o key lvl i ++ tl)) -> delim_ok (isnum o key i) tl ->
    dec L D fuel dp key s = Ok (norm L o D key i, after (isnum o key i) tl).

Lemma rt_scalar : forall i, scalar_item i = true -> RTP i.
Proof.
  intros i Hs o D key lvl fuel dp s tl Hw Hf _ Hk Hadv Hd.
  destruct (scalar_enc_norm o D key lvl i Hw Hs) as [He Hn]. rewrite He in Hadv. rewrite Hn.
  assert (need i = 1%nat) by (destruct i; try discriminate; reflexivity).
  destruct fuel as [|f]; [lia|]. unfold isnum in *.
  apply dec_shape; auto. apply shape_of_ok; auto.
Qed.

Definition depth_list (l : list item) : nat := fold_right (fun x m => Nat.max (depth x) m) 0%nat l.
Definition depth_pairs (l : list (item * item)) : nat :=
  fold_right (fun kv m => Nat.max (Nat.max (depth (fst kv)) (depth (snd kv))) m) 0%nat l.

Lemma need_elems_cons : forall x r, need_elems (x :: r) = S (Nat.max (need x) (need_elems r)).
Proof. reflexivity. Qed.
Lemma need_pairs_cons : forall kv r, need_pairs (kv :: r) = S (Nat.max (need (fst kv)) (Nat.max (need (snd kv)) (need_pairs r))).
Proof. reflexivity. Qed.
Lemma depth_list_cons : forall x r, depth_list (x :: r) = Nat.max (depth x) (depth_list r).
Proof. reflexivity. Qed.
Lemma depth_pairs_cons : forall kv r, depth_pairs (kv :: r) = Nat.max (Nat.max (depth (fst kv)) (depth (snd kv))) (depth_pairs r).
Proof. reflexivity. Qed.

Lemma rt_elems : forall l, Forall RTP l -> forall o D lvl first fuel dp s tl,
  jwf_list o D l -> (need_elems l <= fuel)%nat -> (dp + Z.of_nat (depth_list l) < maxdepth D)%Z ->
  advance s = advance (mkst 0 (enc_elems o lvl first l ++ nl o lvl ++ 93 :: tl)) ->
  dec_elems L D fuel dp first s = Ok (map (norm L o D false) l, mkst 0 tl).
Proof.
  induction l as [|x r IH]; intros HP o D lvl first fuel dp s tl Hw Hf Hdp Hadv.
  - destruct fuel as [|f]; [cbn in Hf; lia|]. rewrite dec_elems_S, Hadv, adv0. cbn [enc_elems app].
    rewrite skipws_app by apply nl_ws. rewrite skipws_hd by reflexivity. reflexivity.
  - inversion HP as [|? ? HPx HPr]; subst. destruct Hw as [Hwx Hwr].
    rewrite need_elems_cons in Hf. destruct fuel as [|f]; [lia|].
    assert (Hfx : (need x <= f)%nat) by lia.
    assert (Hfr : (need_elems r <= f)%nat) by lia.
    rewrite depth_list_cons in Hdp.
    destruct (enc_hd o D false (lvl + 1) x Hwx) as (c & e & He & Hw1 & H125 & H93).
    set (rest := enc_elems o lvl false r ++ nl o lvl ++ 93 :: tl).
    rewrite dec_elems_S, Hadv, adv0. cbn [enc_elems]. fold (enc_elems o lvl). rewrite <- !app_assoc. fold rest.
    assert (Hx : forall s', advance s' = advance (mkst 0 (enc_at L o false (lvl + 1) x ++ rest)) ->
                 dec L D f dp false s' = Ok (norm L o D false x, after (isnum o false x) rest)).
    { intros s' Hs'. apply (HPx o D false (lvl + 1)%N f dp s' rest); auto; [lia|discriminate|]. apply elems_delim. reflexivity. }
    destruct first; cbn [app].
    + rewrite skipws_app by apply nl_ws. rewrite He. cbn [app]. rewrite skipws_hd by exact Hw1.
      cbn [bind tok inp]. rewrite H125, H93. cbn [orb bind].
      rewrite Hx; [|rewrite advance_hd by exact Hw1; rewrite adv0, He; cbn [app]; rewrite skipws_hd by exact Hw1; reflexivity].
      cbn [bind]. rewrite (IH HPr o D lvl false f dp _ tl Hwr Hfr); [reflexivity|lia|]. apply adv_after.
    + rewrite skipws_hd by reflexivity. cbn [bind tok inp]. cbn [N.eqb Pos.eqb orb].
      rewrite check_sep_hd by reflexivity. cbn [bind].
      rewrite Hx; [|rewrite !adv0; rewrite skipws_app by apply nl_ws; reflexivity].
      cbn [bind]. rewrite (IH HPr o D lvl false f dp _ tl Hwr Hfr); [reflexivity|lia|]. apply adv_after.
Qed.


Definition sp (o : eopts) : list N := if (indent o =? 0)%Z then [] else [32].
Lemma colon_eq : forall o, colon o = 58 :: sp o.
Proof. intros o. unfold colon, sp. destruct (indent o =? 0)%Z; reflexivity. Qed.
Lemma sp_ws : forall o, forallb isws (sp o) = true.
Proof. intros o. unfold sp. destruct (indent o =? 0)%Z; reflexivity. Qed.

Lemma check_sep_after : forall num c r, isws c = false -> check_sep c (after num (c :: r)) = Ok (mkst 0 r).
Proof.
  intros num c r H. unfold check_sep. rewrite adv_after, adv0, skipws_hd by exact H. cbn. rewrite N.eqb_refl. reflexivity.
Qed.

Lemma rt_pairs : forall l, Forall (fun kv => RTP (fst kv) /\ RTP (snd kv)) l -> forall o D lvl first seen fuel dp s tl,
  jwf_pairs o D l -> keys_fresh o D seen l -> (need_pairs l <= fuel)%nat -> (dp + Z.of_nat (depth_pairs l) < maxdepth D)%Z ->
  advance s = advance (mkst 0 (enc_pairs o lvl first l ++ nl o lvl ++ 125 :: tl)) ->
  dec_pairs L D fuel dp first seen s
    = Ok (map (fun kv => (norm L o D true (fst kv), norm L o D false (snd kv))) l, mkst 0 tl).
Proof.
  induction l as [|[k v] r IH]; intros HP o D lvl first seen fuel dp s tl Hw Hkf Hf Hdp Hadv.
  - destruct fuel as [|f]; [cbn in Hf; lia|]. rewrite dec_pairs_S, Hadv, adv0. cbn [enc_pairs app].
    rewrite skipws_app by apply nl_ws. rewrite skipws_hd by reflexivity. reflexivity.
  - inversion HP as [|? ? [HPk HPv] HPr]; subst. cbn [fst snd] in *. destruct Hw as (Hwk & Hwv & Hwr). destruct Hkf as [Hseen Hkf].
    cbn [fst] in Hseen, Hkf.
    rewrite need_pairs_cons in Hf. cbn [fst snd] in Hf. destruct fuel as [|f]; [lia|].
    assert (Hfk : (need k <= f)%nat) by lia.
    assert (Hfv : (need v <= f)%nat) by lia.
    assert (Hfr : (need_pairs r <= f)%nat) by lia.
    rewrite depth_pairs_cons in Hdp. cbn [fst snd] in Hdp.
    pose proof (key_scalar o D k Hwk) as Hks.
    destruct (scalar_enc_norm o D true (lvl + 1) k Hwk Hks) as [Hek Hnk].
    pose proof (shape_of_ok o D true k Hwk Hks) as Hsk.
    destruct (enc_hd o D true (lvl + 1) k Hwk) as (c & e & He & Hw1 & H125 & H93).
    destruct (enc_hd o D false (lvl + 1) v Hwv) as (c' & e' & He' & Hw1' & _ & _).
    set (rest := enc_pairs o lvl false r ++ nl o lvl ++ 125 :: tl).
    set (kvr := colon o ++ enc_at L o false (lvl + 1) v ++ rest).
    rewrite dec_pairs_S, Hadv, adv0. cbn [enc_pairs fst snd]. fold (enc_pairs o lvl). rewrite <- !app_assoc. fold rest. fold kvr.
    (* the tail of the entry, from a state that presents  enc k ++ kvr *)
    assert (Htail : forall s2, advance s2 = advance (mkst 0 (enc_at L o true (lvl + 1) k ++ kvr)) ->
      (if smap D
       then do (k0, s3) <- dec_strkey L s2 ;;
            do s4 <- check_sep 58 s3 ;;
            if seen_key seen k0 then Err EUnsupported else
            do (v0, s5) <- dec L D f dp false s4 ;;
            do (kvs, s6) <- dec_pairs L D f dp false (k0 :: seen) s5 ;;
            Ok ((k0, v0) :: kvs, s6)
       else do (k0, s3) <- dec L D f dp true s2 ;;
            do s4 <- check_sep 58 s3 ;;
            do s5 <- advance s4 ;;
            if unhashable k0 then Err EOther else
            if seen_key seen k0 then Err EUnsupported else
            do (v0, s6) <- dec L D f dp false s5 ;;
            do (kvs, s7) <- dec_pairs L D f dp false (k0 :: seen) s6 ;;
            Ok ((k0, v0) :: kvs, s7))
      = Ok ((norm L o D true k, norm L o D false v) :: map (fun kv => (norm L o D true (fst kv), norm L o D false (snd kv))) r, mkst 0 tl)).
    { intros s2 Hs2.
      assert (Hv : forall s', advance s' = advance (mkst 0 (enc_at L o false (lvl + 1) v ++ rest)) ->
                   dec L D f dp false s' = Ok (norm L o D false v, after (isnum o false v) rest)).
      { intros s' Hs'. apply (HPv o D false (lvl + 1)%N f dp s' rest); auto; [lia|discriminate|]. apply pairs_delim. reflexivity. }
      assert (Hr : forall s', advance s' = advance (mkst 0 rest) ->
                   dec_pairs L D f dp false (norm L o D true k :: seen) s'
                   = Ok (map (fun kv => (norm L o D true (fst kv), norm L o D false (snd kv))) r, mkst 0 tl)).
      { intros s' Hs'. apply (IH HPr o D lvl false _ f dp s' tl); auto. lia. }
      assert (Hkd : delim_ok (isnum o true k) kvr).
      { unfold kvr. rewrite colon_eq. cbn [app]. apply delim_hd. reflexivity. }
      destruct (smap D) eqn:Hsm.
      - rewrite (strkey_shape D (shape_of L o true k) s2 kvr Hsk Hsm); [|rewrite <- Hek; exact Hs2|exact Hkd].
        cbn [bind]. rewrite <- Hnk. unfold kvr at 1. rewrite colon_eq. cbn [app]. rewrite check_sep_after by reflexivity. cbn [bind].
        rewrite Hseen. rewrite Hv; [|rewrite !adv0; rewrite skipws_app by apply sp_ws; reflexivity].
        cbn [bind]. rewrite Hr by apply adv_after. reflexivity.
      - rewrite (HPk o D true (lvl + 1)%N f dp s2 kvr); auto; [|lia].
        cbn [bind]. unfold kvr at 1. rewrite colon_eq. cbn [app]. rewrite check_sep_after by reflexivity. cbn [bind].
        rewrite adv0. rewrite skipws_app by apply sp_ws. rewrite He'. cbn [app]. rewrite skipws_hd by exact Hw1'. cbn [bind].
        rewrite Hnk at 1. rewrite norm_shape_hashable. rewrite Hseen.
        rewrite Hv; [|rewrite advance_hd by exact Hw1'; rewrite adv0, He'; cbn [app]; rewrite skipws_hd by exact Hw1'; reflexivity].
        cbn [bind]. rewrite Hr by apply adv_after. reflexivity. }
    destruct first; cbn [app].
    + rewrite skipws_app by apply nl_ws. rewrite He. cbn [app]. rewrite skipws_hd by exact Hw1.
      cbn [bind tok inp]. rewrite H125, H93. cbn [orb bind].
      apply Htail. rewrite advance_hd by exact Hw1. rewrite adv0, He. cbn [app]. rewrite skipws_hd by exact Hw1. reflexivity.
    + rewrite skipws_hd by reflexivity. cbn [bind tok inp]. cbn [N.eqb Pos.eqb orb].
      rewrite check_sep_hd by reflexivity. cbn [bind].
      apply Htail. rewrite !adv0. rewrite skipws_app by apply nl_ws. reflexivity.
Qed.


Lemma rt_all : forall i, RTP i.
Proof.
  induction i using item_ind'; try (apply rt_scalar; reflexivity).
  - (* IArr *)
    intros o D key lvl fuel dp s tl Hw Hf Hdp Hk Hadv Hd. destruct Hw as [-> Hwl]. fold (jwf_list o D l) in Hwl.
    change (depth (IArr l)) with (S (depth_list l)) in Hdp.
    change (need (IArr l)) with (S (need_elems l)) in Hf.
    destruct fuel as [|f]; [lia|]. rewrite dec_S, Hadv, adv0.
    change (isnum o false (IArr l)) with false. cbn [after].
    destruct l as [|x r].
    + cbn [enc_at app]. rewrite skipws_hd by reflexivity. cbn [bind tok inp]. cbn [N.eqb Pos.eqb].
      rewrite depth_enter_ok by lia. cbn [bind].
      destruct f as [|f]; [cbn in Hf; lia|]. rewrite dec_elems_S. rewrite adv0, skipws_hd by reflexivity. reflexivity.
    + rewrite enc_arr_eq. cbn [app]. rewrite skipws_hd by reflexivity. cbn [bind tok inp]. cbn [N.eqb Pos.eqb].
      rewrite depth_enter_ok by lia. cbn [bind].
      rewrite (rt_elems (x :: r) H o D lvl true f (dp + 1)%Z _ tl Hwl); [reflexivity|lia|lia|].
      rewrite <- !app_assoc. reflexivity.
  - (* IMap *)
    intros o D key lvl fuel dp s tl Hw Hf Hdp Hk Hadv Hd. destruct Hw as (-> & Hkf & Hwl). fold (jwf_pairs o D l) in Hwl.
    change (depth (IMap l)) with (S (depth_pairs l)) in Hdp.
    change (need (IMap l)) with (S (need_pairs l)) in Hf.
    destruct fuel as [|f]; [lia|]. rewrite dec_S, Hadv, adv0.
    change (isnum o false (IMap l)) with false. cbn [after].
    destruct l as [|x r].
    + cbn [enc_at app]. rewrite skipws_hd by reflexivity. cbn [bind tok inp]. cbn [N.eqb Pos.eqb].
      rewrite depth_enter_ok by lia. cbn [bind].
      destruct f as [|f]; [cbn in Hf; lia|]. rewrite dec_pairs_S. rewrite adv0, skipws_hd by reflexivity. reflexivity.
    + rewrite enc_map_eq. cbn [app]. rewrite skipws_hd by reflexivity. cbn [bind tok inp]. cbn [N.eqb Pos.eqb].
      rewrite depth_enter_ok by lia. cbn [bind].
      rewrite (rt_pairs (x :: r) H o D lvl true [] f (dp + 1)%Z _ tl Hwl Hkf); [reflexivity|lia|lia|].
      rewrite <- !app_assoc. reflexivity.
  - intros o D key lvl fuel dp s tl Hw. contradiction.
  - intros o D key lvl fuel dp s tl Hw. contradiction.
Qed.

(* fuel in terms of the length of the encoding *)
Lemma need_len : forall i o D key lvl, jwf o D key i -> (need i <= 2 * length (enc_at L o key lvl i))%nat.
Proof.
  induction i using item_ind'; intros o D key lvl Hw;
    try (destruct (enc_hd o D key lvl _ Hw) as (c & e & -> & _); cbn [need length]; lia).
  - destruct Hw as [-> Hwl]. fold (jwf_list o D l) in Hwl. change (need (IArr l)) with (S (need_elems l)).
    destruct l as [|x r]; [cbn; lia|]. rewrite enc_arr_eq. cbn [length]. rewrite !app_length. cbn [length].
    assert (G : forall l first, Forall (fun i => forall o D key lvl, jwf o D key i -> (need i <= 2 * length (enc_at L o key lvl i))%nat) l ->
                jwf_list o D l -> (need_elems l <= 1 + 2 * length (enc_elems o lvl first l) + (if first then 1 else 0))%nat).
    { induction l as [|y q IHq]; intros first HF Hq; [cbn; lia|].
      inversion HF as [|? ? Hy HFq]; subst. destruct Hq as [Hwy Hwq]. rewrite need_elems_cons.
      cbn [enc_elems]. fold (enc_elems o lvl). rewrite !app_length.
      pose proof (Hy o D false (lvl + 1)%N Hwy). pose proof (IHq false HFq Hwq) as G2. cbv iota in G2.
      destruct (enc_hd o D false (lvl + 1)%N y Hwy) as (c & e & He & _). rewrite He in *. cbn [length] in *.
      destruct first; cbn [length]; lia. }
    pose proof (G (x :: r) true H Hwl) as G1. cbv iota in G1. lia.
  - destruct Hw as (-> & _ & Hwl). fold (jwf_pairs o D l) in Hwl. change (need (IMap l)) with (S (need_pairs l)).
    destruct l as [|x r]; [cbn; lia|]. rewrite enc_map_eq. cbn [length]. rewrite !app_length. cbn [length].
    assert (G : forall l first, Forall (fun kv => (forall o D key lvl, jwf o D key (fst kv) -> (need (fst kv) <= 2 * length (enc_at L o key lvl (fst kv)))%nat)
                                               /\ (forall o D key lvl, jwf o D key (snd kv) -> (need (snd kv) <= 2 * length (enc_at L o key lvl (snd kv)))%nat)) l ->
                jwf_pairs o D l -> (need_pairs l <= 1 + 2 * length (enc_pairs o lvl first l) + (if first then 1 else 0))%nat).
    { induction l as [|y q IHq]; intros first HF Hq; [cbn; lia|].
      inversion HF as [|? ? [Hyk Hyv] HFq]; subst. destruct Hq as (Hwk & Hwv & Hwq). rewrite need_pairs_cons.
      cbn [enc_pairs]. fold (enc_pairs o lvl). rewrite !app_length.
      pose proof (Hyk o D true (lvl + 1)%N Hwk). pose proof (Hyv o D false (lvl + 1)%N Hwv). pose proof (IHq false HFq Hwq) as G2. cbv iota in G2.
      destruct (enc_hd o D true (lvl + 1)%N (fst y) Hwk) as (c & e & He & _). rewrite He in *.
      destruct (enc_hd o D false (lvl + 1)%N (snd y) Hwv) as (c' & e' & He' & _). rewrite He' in *. cbn [length] in *.
      rewrite colon_eq. cbn [length].
      destruct first; cbn [length]; lia. }
    pose proof (G (x :: r) true H Hwl) as G1. cbv iota in G1. lia.
Qed.


(* ---- the statements exported to Properties/W_json.v *)

Lemma dec_enc_lemma : forall o D key lvl i ws tl fuel dp,
  jwf o D key i -> (key = true -> smap D = false) -> forallb isws ws = true ->
  delim_ok (isnum o key i) tl ->
  (2 * length (enc_at L o key lvl i) <= fuel)%nat -> (dp + Z.of_nat (depth i) < maxdepth D)%Z ->
  dec L D fuel dp key (st0 (ws ++ enc_at L o key lvl i ++ tl))
    = Ok (norm L o D key i, after (isnum o key i) tl).
Proof.
  intros o D key lvl i ws tl fuel dp Hw Hk Hws Hd Hf Hdp.
  apply (rt_all i o D key lvl fuel dp _ tl); auto.
  - pose proof (need_len i o D key lvl Hw). lia.
  - unfold st0. rewrite !adv0. apply skipws_app. exact Hws.
Qed.

Definition term (o : eopts) : list N := if termWs o then [32] else [].

Lemma term_delim : forall o b rest, (termWs o = true \/ delim_ok b rest) -> delim_ok b (term o ++ rest).
Proof. intros o b rest [H|H]; unfold term; [rewrite H; intros _; reflexivity|destruct (termWs o); [intros _; reflexivity|exact H]]. Qed.

(* one Encode call, then Decode(&interface{}) on a fresh Decoder over its output followed by anything *)
Lemma dec_naked_enc_lemma : forall o D i rest,
  jwf o D false i -> (termWs o = true \/ delim_ok (isnum o false i) rest) ->
  (Z.of_nat (depth i) < maxdepth D)%Z ->
  dec_naked L D (dec_fuel (st0 (enc_top L o i ++ rest))) (enc_top L o i ++ rest)
    = Ok (norm L o D false i, inp (after (isnum o false i) (term o ++ rest))).
Proof.
  intros o D i rest Hw Hd Hdp. unfold dec_naked, enc_top, enc, ctx0. cbn [ckey clvl]. fold (term o).
  rewrite <- app_assoc.
  rewrite (dec_enc_lemma o D false 0 i [] (term o ++ rest)); auto; try discriminate.
  - apply term_delim. exact Hd.
  - unfold dec_fuel, pending, st0. cbn [tok inp]. rewrite app_length. cbn. lia.
Qed.

(* ---- sequences on one Decoder *)
Definition enc_seq (o : eopts) (docs : list (item * list N)) : list N :=
  flat_map (fun d => enc_top L o (fst d) ++ snd d) docs.

(* a bare number must be followed by TermWhitespace or explicit white space *)
Definition doc_ok (o : eopts) (D : dopts) (d : item * list N) : Prop :=
  jwf o D false (fst d) /\ forallb isws (snd d) = true /\ (Z.of_nat (depth (fst d)) < maxdepth D)%Z /\
  (isnum o false (fst d) = true -> termWs o = true \/ snd d <> []).

(* value and number of bytes still unread after each call *)
Fixpoint seq_expect (o : eopts) (D : dopts) (docs : list (item * list N)) (rest : list N) : list (item * N) :=
  match docs with
  | [] => []
  | d :: r => (norm L o D false (fst d),
               llen (inp (after (isnum o false (fst d)) (term o ++ snd d ++ enc_seq o r ++ rest))))
              :: seq_expect o D r rest
  end.

Lemma pending_after : forall num pre E tl, forallb isws pre = true -> (forall c e, E = c :: e -> isws c = false) -> E <> [] ->
  (length E <= pending (after num (pre ++ E ++ tl)))%nat.
Proof.
  intros num pre E tl Hpre Hhd Hne. destruct num; cbn [after].
  - destruct pre as [|w pre'].
    + destruct E as [|c e]; [congruence|]. cbn [app]. unfold pending. cbn [tok inp]. rewrite (Hhd c e eq_refl).
      rewrite app_length. cbn. lia.
    + cbn [app]. cbn in Hpre. apply andb_prop in Hpre as [Hw _]. unfold pending. cbn [tok inp]. rewrite Hw.
      rewrite !app_length. lia.
  - unfold pending. cbn [tok inp]. rewrite !app_length. cbn. lia.
Qed.

Lemma seq_lemma : forall o D rest total docs num pre,
  Forall (doc_ok o D) docs -> forallb isws pre = true ->
  dec_seq L D (length docs) total (after num (pre ++ enc_seq o docs ++ rest))
    = Ok (map (fun vr => (fst vr, total - snd vr)) (seq_expect o D docs rest)).
Proof.
  intros o D rest total docs. induction docs as [|[i ws] r IH]; intros num pre HF Hpre; [reflexivity|].
  inversion HF as [|? ? (Hw & Hws & Hdp & Hsep) HFr]; subst. cbn [fst snd] in *.
  assert (Htop : enc_top L o i = enc_at L o false 0 i ++ term o) by reflexivity.
  cbn [length dec_seq enc_seq flat_map fst snd seq_expect map]. fold (enc_seq o r).
  unfold decode1. rewrite Htop. rewrite <- !app_assoc.
  set (tl := term o ++ ws ++ enc_seq o r ++ rest).
  assert (Hd : delim_ok (isnum o false i) tl).
  { intros Hn. unfold tl, term. destruct (Hsep Hn) as [Ht|Hne].
    - rewrite Ht. reflexivity.
    - destruct (termWs o); [reflexivity|]. destruct ws as [|w ws']; [congruence|]. cbn. cbn in Hws.
      apply andb_prop in Hws as [Hw1 _]. unfold isws in Hw1. unfold isnumc.
      apply N.ltb_lt in Hw1.
      repeat match goal with |- context [?a <=? ?b] => destruct (N.leb_spec a b); try lia end;
      repeat match goal with |- context [?a =? ?b] => destruct (N.eqb_spec a b); try lia end; reflexivity. }
  rewrite (rt_all i o D false 0 _ 0%Z _ tl Hw); auto; try discriminate.
  - cbn [bind].
    replace tl with ((term o ++ ws) ++ enc_seq o r ++ rest) at 1 by (unfold tl; rewrite <- app_assoc; reflexivity).
    rewrite (IH (isnum o false i) (term o ++ ws)); auto.
    rewrite forallb_app. rewrite Hws. unfold term. destruct (termWs o); reflexivity.
  - pose proof (need_len i o D false 0 Hw).
    destruct (enc_hd o D false 0 i Hw) as (c & e & He & Hc & _).
    pose proof (pending_after num pre (enc_at L o false 0 i) tl Hpre) as Hp.
    unfold dec_fuel. rewrite He in *. specialize (Hp ltac:(intros ? ? E; inversion E; subst; exact Hc) ltac:(discriminate)). lia.
  - rewrite adv_after, !adv0. apply skipws_app. exact Hpre.
Qed.

End RT.

(* Wire/Binc — executable model of the binc driver (codec/binc.go, binc.base.go,
   custom_time.go) together with the pieces of the generic layer that a
   schema-less decode goes through (decode.go kInterfaceNaked / fastpath
   DecSliceIntfY / kMap; decode.base.go arrayStart, mapStart, depthIncr) and the
   bytes reader (reader.go bytesDecReader).

   Hand written; tied to the code by harness/cmd/wirebinc (real Encoder /
   Decoder / nextValueBytes on the same inputs, Wire/BincCorr.v evaluates the
   model).  Descriptor constants come from Gen/Consts.v (regenerated from the
   working tree on every run).  No proofs in this file.

   The model mirrors the tree AFTER the repairs recorded in known_findings.json
   ("fixed": FWbinc-1 magnitude pruning, FWbinc-2 symbol ids exhausted, FWbinc-3
   timestamp components within len, F11-1 walker records symbols, F14-1(binc)
   walker depth, F14-3(binc) decLen fits int, F02-1 reader skip, F07-1n naked
   SignedInteger overflow).

   binc is stateful: [estate] is the encoder's symbol table (bincEncState.m and
   encoderBase.seq), [dstate] the decoder's (bincDecState.s); both live as long
   as the Encoder / Decoder and are threaded explicitly. *)
From Coq Require Import List NArith ZArith Lia Bool.
From Verif Require Import Base.Outcome Wire.Item Gen.Consts.
Import ListNotations.
Local Open Scope bool_scope.
Local Open Scope N_scope.

(* ---------- constants (Gen/Consts.v) ---------- *)
Definition vdSpecial := Z.to_N bincVdSpecial.
Definition vdPosInt := Z.to_N bincVdPosInt.
Definition vdNegInt := Z.to_N bincVdNegInt.
Definition vdFloat := Z.to_N bincVdFloat.
Definition vdString := Z.to_N bincVdString.
Definition vdByteArray := Z.to_N bincVdByteArray.
Definition vdArray := Z.to_N bincVdArray.
Definition vdMap := Z.to_N bincVdMap.
Definition vdTimestamp := Z.to_N bincVdTimestamp.
Definition vdSmallInt := Z.to_N bincVdSmallInt.
Definition vdSymbol := Z.to_N bincVdSymbol.
Definition vdCustomExt := Z.to_N bincVdCustomExt.
Definition spNil := Z.to_N bincSpNil.
Definition spFalse := Z.to_N bincSpFalse.
Definition spTrue := Z.to_N bincSpTrue.
Definition spNan := Z.to_N bincSpNan.
Definition spPosInf := Z.to_N bincSpPosInf.
Definition spNegInf := Z.to_N bincSpNegInf.
Definition spZeroFloat := Z.to_N bincSpZeroFloat.
Definition spZero := Z.to_N bincSpZero.
Definition spNegOne := Z.to_N bincSpNegOne.
Definition flBin32 := Z.to_N bincFlBin32.
Definition flBin64 := Z.to_N bincFlBin64.
Definition defMaxDepth := Z.to_N decDefMaxDepth.

(* bd = vd<<4 | vs *)
Definition mkbd (vd vs : N) : N := vd * 16 + vs.

(* ---------- big-endian ---------- *)
Fixpoint be_put (k : nat) (v : N) : list N :=
  match k with
  | O => []
  | S k' => be_put k' (v / 256) ++ [v mod 256]
  end.
Definition be_get (l : list N) : N := fold_left (fun a x => a * 256 + x) l 0.

(* two's complement views of a 64-bit word *)
Definition to_i64 (n : N) : Z := if n <? 2 ^ 63 then Z.of_N n else (Z.of_N n - 2 ^ 64)%Z.
Definition of_i64 (z : Z) : N := Z.to_N (z mod 2 ^ 64)%Z.

(* ---------- floats are bit patterns ---------- *)
Definition f64_is_zero (b : N) : bool := (b =? 0) || (b =? 2 ^ 63).
Definition f64_is_nan (b : N) : bool := ((b / 2 ^ 52) mod 2048 =? 2047) && negb (b mod 2 ^ 52 =? 0).
Definition f64_posinf : N := 2047 * 2 ^ 52.
Definition f64_neginf : N := 2 ^ 63 + 2047 * 2 ^ 52.
Definition f64_nan : N := 2047 * 2 ^ 52 + 2 ^ 51 + 1.     (* math.NaN() *)
(* all NaNs are one value for the comparison (payloads are not an API observable) *)
Definition f64_canon (b : N) : N := if f64_is_nan b then f64_nan else b.

(* float64(float32): exact widening *)
Definition f32_to_f64 (b : N) : N :=
  let s := b / 2 ^ 31 in
  let e := (b / 2 ^ 23) mod 256 in
  let m := b mod 2 ^ 23 in
  if e =? 0 then
    if m =? 0 then s * 2 ^ 63
    else let k := N.log2 m in s * 2 ^ 63 + (k + 874) * 2 ^ 52 + (m - 2 ^ k) * 2 ^ (52 - k)
  else if e =? 255 then
    if m =? 0 then s * 2 ^ 63 + 2047 * 2 ^ 52 else f64_nan
  else s * 2 ^ 63 + (e + 896) * 2 ^ 52 + m * 2 ^ 29.

(* ================= encoder ================= *)

Record eopts := { asSymbols : bool;      (* BincHandle.AsSymbols == 1 *)
                  stringToRaw : bool }.

(* symbol table of the Encoder: seq and m (string -> id), newest first *)
Record estate := { eseq : N; emap : list (list N * N) }.
Definition estate0 : estate := {| eseq := 0; emap := [] |}.

Fixpoint bytes_eqb (a b : list N) : bool :=
  match a, b with
  | [], [] => true
  | x :: a', y :: b' => (x =? y) && bytes_eqb a' b'
  | _, _ => false
  end.

Fixpoint emap_get (m : list (list N * N)) (s : list N) : option N :=
  match m with
  | [] => None
  | (k, v) :: r => if bytes_eqb k s then Some v else emap_get r s
  end.

Definition len (A : Type) (l : list A) : N := N.of_nat (length l).
Arguments len {A} l.

(* encLen / encLenNumber *)
Definition enc_len (vd l : N) : list N :=
  if l <? 12 then [mkbd vd (l + 4)]
  else if l <=? 255 then [mkbd vd 0; l]
  else if l <=? 65535 then mkbd vd 1 :: be_put 2 l
  else if l <=? 4294967295 then mkbd vd 2 :: be_put 4 l
  else mkbd vd 3 :: be_put 8 l.

(* number of bytes pruneSignExt(b, true) keeps of a magnitude: the shortest
   big-endian form whose top bit is clear, at least 3 (shorter ones are handled
   before), at most the width of the buffer it was put in (4 below 2^32, else 8) *)
Definition int_width (v : N) : nat :=
  if v <? 2 ^ 23 then 3 else if v <? 2 ^ 32 then 4
  else if v <? 2 ^ 39 then 5 else if v <? 2 ^ 47 then 6 else if v <? 2 ^ 55 then 7 else 8%nat.

(* encUint *)
Definition enc_uint (vd : N) (pos : bool) (v : N) : list N :=
  if v =? 0 then [mkbd vdSpecial spZero]
  else if pos && (v <=? 16) then [mkbd vdSmallInt (v - 1)]
  else if v <=? 255 then [mkbd vd 0; v]
  else if v <=? 65535 then mkbd vd 1 :: be_put 2 v
  else let k := int_width v in mkbd vd (N.of_nat k - 1) :: be_put k v.

Definition enc_int (z : Z) : list N :=
  if (0 <=? z)%Z then enc_uint vdPosInt true (Z.to_N z)
  else if (z =? -1)%Z then [mkbd vdSpecial spNegOne]
  else enc_uint vdNegInt false (Z.to_N (- z)).

(* encSpFloat on the float64 value *)
Definition enc_spfloat (b : N) : option (list N) :=
  if f64_is_zero b then Some [mkbd vdSpecial spZeroFloat]
  else if f64_is_nan b then Some [mkbd vdSpecial spNan]
  else if b =? f64_posinf then Some [mkbd vdSpecial spPosInf]
  else if b =? f64_neginf then Some [mkbd vdSpecial spNegInf]
  else None.

Definition enc_f32 (b : N) : list N :=
  match enc_spfloat (f32_to_f64 b) with
  | Some l => l
  | None => mkbd vdFloat flBin32 :: be_put 4 b
  end.

(* trailing zero bytes of the big-endian form are dropped (bincDoPrune) *)
Fixpoint strip0 (l : list N) : list N :=     (* drops leading zeros; used on the reversed list *)
  match l with
  | 0 :: r => strip0 r
  | _ => l
  end.
Definition enc_f64 (b : N) : list N :=
  match enc_spfloat b with
  | Some l => l
  | None =>
      let bs := be_put 8 b in
      let kept := rev (strip0 (rev bs)) in
      if (length kept <=? 6)%nat then mkbd vdFloat (8 + flBin64) :: len kept :: kept
      else mkbd vdFloat flBin64 :: bs
  end.

(* EncodeSymbol *)
Definition enc_symbol (s : list N) (st : estate) : list N * estate :=
  let l := len s in
  if l <? 2 then (enc_len vdString l ++ s, st)
  else match emap_get (emap st) s with
  | Some ui =>
      (if ui <=? 255 then [mkbd vdSymbol 0; ui] else mkbd vdSymbol 8 :: be_put 2 ui, st)
  | None =>
      if eseq st =? 65535 then (enc_len vdString l ++ s, st)
      else
        let ui := eseq st + 1 in
        let lenprec := if l <=? 255 then 0 else if l <=? 65535 then 1 else if l <=? 4294967295 then 2 else 3 in
        let lenbytes := if l <=? 255 then 1%nat else if l <=? 65535 then 2%nat else if l <=? 4294967295 then 4%nat else 8%nat in
        ((if ui <=? 255 then [mkbd vdSymbol (4 + lenprec); ui] else mkbd vdSymbol (8 + 4 + lenprec) :: be_put 2 ui)
           ++ be_put lenbytes l ++ s,
         {| eseq := ui; emap := (s, ui) :: emap st |})
  end.

(* EncodeString *)
Definition enc_str (o : eopts) (key : bool) (s : list N) (st : estate) : list N * estate :=
  if stringToRaw o then (enc_len vdByteArray (len s) ++ s, st)
  else if key && asSymbols o then enc_symbol s st
  else (enc_len vdString (len s) ++ s, st).

(* customEncodeTime for a UTC instant *)
Definition zero_time_sec : Z := (-62135596800)%Z.
Definition sint_width (z : Z) : nat :=     (* bytes kept by pruneSignExt on the 8-byte two's complement form *)
  if ((- 2 ^ 7 <=? z) && (z <? 2 ^ 7))%Z then 1%nat
  else if ((- 2 ^ 15 <=? z) && (z <? 2 ^ 15))%Z then 2%nat
  else if ((- 2 ^ 23 <=? z) && (z <? 2 ^ 23))%Z then 3%nat
  else if ((- 2 ^ 31 <=? z) && (z <? 2 ^ 31))%Z then 4%nat
  else if ((- 2 ^ 39 <=? z) && (z <? 2 ^ 39))%Z then 5%nat
  else if ((- 2 ^ 47 <=? z) && (z <? 2 ^ 47))%Z then 6%nat
  else if ((- 2 ^ 55 <=? z) && (z <? 2 ^ 55))%Z then 7%nat
  else 8%nat.
Definition nsec_width (n : N) : nat :=
  if n <? 2 ^ 7 then 1%nat else if n <? 2 ^ 15 then 2%nat else if n <? 2 ^ 23 then 3%nat else 4%nat.
Definition time_bytes (sec : Z) (nsec : N) : list N :=
  let ks := sint_width sec in
  let kn := nsec_width nsec in
  let bd := (if (sec =? 0)%Z then 0 else 128 + (N.of_nat ks - 1) * 4)
            + (if nsec =? 0 then 0 else 64 + (N.of_nat kn - 1)) in
  bd :: (if (sec =? 0)%Z then [] else be_put ks (of_i64 sec mod 256 ^ N.of_nat ks))
     ++ (if nsec =? 0 then [] else be_put kn nsec).
Definition enc_time (sec : Z) (nsec : N) : list N :=
  if (sec =? zero_time_sec)%Z && (nsec =? 0) then [mkbd vdSpecial spNil]
  else let bs := time_bytes sec nsec in mkbd vdTimestamp (len bs) :: bs.

(* the driver calls the generic encoder makes for an item; [key] = e.c == containerMapKey *)
Fixpoint enc (o : eopts) (key : bool) (i : item) (st : estate) {struct i} : list N * estate :=
  match i with
  | INil => ([mkbd vdSpecial spNil], st)
  | IBool b => ([mkbd vdSpecial (if b then spTrue else spFalse)], st)
  | IInt z => (enc_int z, st)
  | IUint n => (enc_uint vdPosInt true n, st)
  | IF32 b => (enc_f32 b, st)
  | IF64 b => (enc_f64 b, st)
  | IStr s => enc_str o key s st
  | IBytes b => (enc_len vdByteArray (len b) ++ b, st)
  | IArr l =>
      let '(bs, st') :=
        (fix go (l : list item) (st : estate) : list N * estate :=
           match l with
           | [] => ([], st)
           | x :: r => let '(b1, s1) := enc o false x st in
                       let '(b2, s2) := go r s1 in (b1 ++ b2, s2)
           end) l st in
      (enc_len vdArray (len l) ++ bs, st')
  | IMap l =>
      let '(bs, st') :=
        (fix go (l : list (item * item)) (st : estate) : list N * estate :=
           match l with
           | [] => ([], st)
           | (k, v) :: r => let '(b1, s1) := enc o true k st in
                            let '(b2, s2) := enc o false v s1 in
                            let '(b3, s3) := go r s2 in (b1 ++ b2 ++ b3, s3)
           end) l st in
      (enc_len vdMap (len l) ++ bs, st')
  | ITag _ _ => ([mkbd vdSpecial spNil], st)          (* binc has no tags: not produced (see wfb) *)
  | IExt t b => (enc_len vdCustomExt (len b) ++ [t] ++ b, st)
  | ITime s n => (enc_time s n, st)
  end.

(* successive Encode calls on one Encoder *)
Fixpoint enc_seq (o : eopts) (l : list item) (st : estate) : list N * estate :=
  match l with
  | [] => ([], st)
  | x :: r => let '(b1, s1) := enc o false x st in
              let '(b2, s2) := enc_seq o r s1 in (b1 ++ b2, s2)
  end.

(* ================= reader (bytesDecReader over the remaining input) ================= *)

(* readx / readxb / readb / skip: n is a uint; fails iff n exceeds what remains
   (readx: slice bounds panic incl. the wrapped z.c+n < z.c case; skip: the
   repaired comparison n > cap - c) *)
Definition take (n : N) (l : list N) : res (list N * list N) :=
  if n <=? len l then Ok (firstn (N.to_nat n) l, skipn (N.to_nat n) l) else Err EEof.

(* readn1/2/3/4/8 and bigen.UintK *)
Definition rd_be (k : nat) (l : list N) : res (N * list N) :=
  do (b, r) <- take (N.of_nat k) l ;; Ok (be_get b, r).

(* ================= decoder ================= *)

Record dopts := { maxdepth : N;          (* effective d.maxdepth (MaxDepth > 0 ? MaxDepth : decDefMaxDepth) *)
                  signedInt : bool;      (* SignedInteger *)
                  rawToString : bool }.  (* RawToString *)

(* bincDecState.s : map[uint16][]byte; a missing id reads as nil = "" *)
Definition dstate := list (N * list N).
Definition dstate0 : dstate := [].
Fixpoint sym_get (st : dstate) (id : N) : list N :=
  match st with
  | [] => []
  | (k, v) :: r => if k =? id then v else sym_get r id
  end.
Definition sym_put (st : dstate) (id : N) (v : list N) : dstate := (id, v) :: st.

(* decUint: vs+1 big-endian bytes, zero-extended *)
Definition dec_uint (vs : N) (inp : list N) : res (N * list N) :=
  if vs <=? 7 then rd_be (S (N.to_nat vs)) inp else Err EBadDesc.

(* width of a length field: 1, 2, 4, 8 bytes for precision 0..3 *)
Definition len_bytes (p : N) : nat :=
  if p =? 0 then 1%nat else if p =? 1 then 2%nat else if p =? 2 then 4%nat else 8%nat.
(* decLenNumber / the walker's fnLen *)
Definition fn_len (vs : N) (inp : list N) : res (N * list N) :=
  if 3 <? vs then Ok (vs - 4, inp)
  else rd_be (len_bytes vs) inp.
(* decLen: as an int; a value that does not fit is an error (F14-3 repair) *)
Definition dec_len (vs : N) (inp : list N) : res (N * list N) :=
  do (v, r) <- fn_len vs inp ;;
  if 2 ^ 63 <=? v then Err EOther else Ok (v, r).

Definition pad0 (k : nat) (l : list N) : list N := l ++ repeat 0 (k - length l).

(* decFloatPre32/64 + decFloatPruned *)
Definition dec_float_bytes (vs : N) (k : nat) (inp : list N) : res (list N * list N) :=
  if vs / 8 =? 0 then take (N.of_nat k) inp
  else match inp with
       | [] => Err EEof
       | l :: r => if N.of_nat k <? l then Err EOther
                   else do (b, r') <- take l r ;; Ok (pad0 k b, r')
       end.
(* decFloatVal: the float64 it yields, as bits *)
Definition dec_float (vs : N) (inp : list N) : res (N * list N) :=
  if vs mod 8 =? flBin32 then do (b, r) <- dec_float_bytes vs 4 inp ;; Ok (f32_to_f64 (be_get b), r)
  else if vs mod 8 =? flBin64 then do (b, r) <- dec_float_bytes vs 8 inp ;; Ok (be_get b, r)
  else Err EBadDesc.

(* bincVdSymbol in DecodeStringAsBytes, and (after F11-1) in the walker *)
Definition rd_symbol (vs : N) (st : dstate) (inp : list N) : res (list N * list N * dstate) :=
  do (id, r1) <- rd_be (if vs / 8 =? 0 then 1%nat else 2%nat) inp ;;
  if (vs / 4) mod 2 =? 0 then Ok (sym_get st id, r1, st)
  else
    do (l, r2) <- rd_be (len_bytes (vs mod 4)) r1 ;;
    do (s, r3) <- take l r2 ;;
    Ok (s, r3, sym_put st id s).

(* customDecodeTime (repaired: every component within len(bs)), then Unix()/Nanosecond() *)
Definition sext (k : nat) (v : N) : Z :=
  if v <? 2 ^ (8 * N.of_nat k - 1) then Z.of_N v else (Z.of_N v - 2 ^ (8 * Z.of_nat k))%Z.
Definition dec_time (bs : list N) : res (Z * N) :=
  match bs with
  | [] => Err EEof
  | bd :: r =>
      do (tsec, r1) <-
         (if (bd / 128) mod 2 =? 1 then
            let n := S (N.to_nat ((bd / 4) mod 8)) in
            do (b, r1) <- take (N.of_nat n) r ;; Ok (sext n (be_get b), r1)
          else Ok (0%Z, r)) ;;
      do (tnsec, r2) <-
         (if (bd / 64) mod 2 =? 1 then
            let n := S (N.to_nat (bd mod 4)) in
            do (b, r2) <- take (N.of_nat n) r1 ;; Ok (be_get b, r2)
          else Ok (0, r1)) ;;
      do (_, _) <- (if (bd / 32) mod 2 =? 1 then take 2 r2 else Ok ([], r2)) ;;
      (* time.Unix(tsec, tnsec): nsec normalised, sec wraps in int64 *)
      Ok (to_i64 (of_i64 (tsec + Z.of_N (tnsec / 1000000000))), tnsec mod 1000000000)
  end.

(* DecodeNaked on everything except arrays and maps; bd already split *)
(* the tail of DecodeNaked: an unsigned value under SignedInteger becomes an int64;
   one that does not fit (>= 2^63) halts there, after the value has been read
   (chkOvf.SignedIntV, F07-1n repair) *)
Definition uint_res (o : dopts) (u : N) (r : list N) (st : dstate) : res (item * list N * dstate) :=
  if signedInt o then (if 2 ^ 63 <=? u then Err EOverflow else Ok (IInt (to_i64 u), r, st))
  else Ok (IUint u, r, st).

Definition dec_scalar (o : dopts) (vd vs : N) (st : dstate) (r : list N) : res (item * list N * dstate) :=
  if vd =? vdSpecial then
    if vs =? spNil then Ok (INil, r, st)
    else if vs =? spFalse then Ok (IBool false, r, st)
    else if vs =? spTrue then Ok (IBool true, r, st)
    else if vs =? spNan then Ok (IF64 f64_nan, r, st)
    else if vs =? spPosInf then Ok (IF64 f64_posinf, r, st)
    else if vs =? spNegInf then Ok (IF64 f64_neginf, r, st)
    else if vs =? spZeroFloat then Ok (IF64 0, r, st)
    else if vs =? spZero then uint_res o 0 r st
    else if vs =? spNegOne then Ok (IInt (-1), r, st)
    else Err EBadDesc
  else if vd =? vdSmallInt then uint_res o (vs + 1) r st
  else if vd =? vdPosInt then do (u, r') <- dec_uint vs r ;; uint_res o u r' st
  else if vd =? vdNegInt then do (u, r') <- dec_uint vs r ;; Ok (IInt (to_i64 ((2 ^ 64 - u) mod 2 ^ 64)), r', st)
  else if vd =? vdFloat then do (f, r') <- dec_float vs r ;; Ok (IF64 (f64_canon f), r', st)
  else if vd =? vdString then
    do (l, r1) <- dec_len vs r ;; do (s, r2) <- take l r1 ;; Ok (IStr s, r2, st)
  else if vd =? vdByteArray then
    do (l, r1) <- dec_len vs r ;; do (s, r2) <- take l r1 ;;
    Ok (if rawToString o then IStr s else IBytes s, r2, st)
  else if vd =? vdSymbol then
    do (s, r', st') <- rd_symbol vs st r ;; Ok (IStr s, r', st')
  else if vd =? vdTimestamp then
    do (bs, r') <- take vs r ;; do (sec, nsec) <- dec_time bs ;; Ok (ITime sec nsec, r', st)
  else if vd =? vdCustomExt then
    do (l, r1) <- dec_len vs r ;;
    match r1 with
    | [] => Err EEof
    | t :: r2 => do (b, r3) <- take l r2 ;; Ok (IExt t b, r3, st)
    end
  else Err EBadDesc.

(* container loops: [m] elements still to read; [g] loop fuel (one unit per
   iteration; every iteration consumes input) *)
Section Loop.
  Context {A : Type} (f : nat -> dstate -> list N -> res (A * list N * dstate)).
  Fixpoint loopN (g : nat) (m : N) (st : dstate) (inp : list N) : res (list A * list N * dstate) :=
    if m =? 0 then Ok ([], inp, st)
    else match g with
         | O => OutOfFuel
         | S g' =>
             do (x, inp1, st1) <- f g' st inp ;;
             do (xs, inp2, st2) <- loopN g' (m - 1) st1 inp1 ;;
             Ok (x :: xs, inp2, st2)
         end.
End Loop.

(* a map[interface{}]interface{} key: []byte becomes string; slices, maps and
   RawExt cannot be hashed (runtime panic at mapGet/mapSet, recovered as an error) *)
Definition unhashable (k : item) : bool :=
  match k with IArr _ | IMap _ | IExt _ _ | ITag _ _ => true | _ => false end.
Definition key_norm (k : item) : item :=
  match k with IBytes b => IStr b | _ => k end.

(* key equality as a Go map[interface{}]interface{} sees it, over-approximated
   (times compare by instant; -0.0 == 0.0; NaN never equal) *)
Definition key_same (a b : item) : bool :=
  match a, b with
  | INil, INil => true
  | IBool x, IBool y => Bool.eqb x y
  | IInt x, IInt y => (x =? y)%Z
  | IUint x, IUint y => x =? y
  | IF64 x, IF64 y => (f64_is_zero x && f64_is_zero y) || ((x =? y) && negb (f64_is_nan x))
  | IStr x, IStr y => bytes_eqb x y
  | ITime s n, ITime s' n' => (s =? s')%Z && (n =? n')
  | _, _ => false
  end.

(* kMap's loop: key, mapElemValue + TryNil (reads the value's descriptor), value.
   A key that repeats an earlier key of the same map makes kMap decode INTO the
   value already stored (merging maps, re-using typed values); that generic-layer
   behaviour is outside the wire model: the model stops with [Err EUser] there, and
   theorems / correspondence treat EUser as "not covered". *)
Section LoopM.
  Context (d : nat -> dstate -> list N -> res (item * list N * dstate)).
  Fixpoint loopM (g : nat) (m : N) (seen : list item) (st : dstate) (inp : list N)
    : res (list (item * item) * list N * dstate) :=
    if m =? 0 then Ok ([], inp, st)
    else match g with
         | O => OutOfFuel
         | S g' =>
             do (k, r1, st1) <- d g' st inp ;;
             match r1 with
             | [] => Err EEof
             | _ =>
                 if unhashable k then Err EOther
                 else let k' := key_norm k in
                      if existsb (key_same k') seen then Err EUser
                      else do (v, r2, st2) <- d g' st1 r1 ;;
                           do (xs, r3, st3) <- loopM g' (m - 1) (k' :: seen) st2 r2 ;;
                           Ok ((k', v) :: xs, r3, st3)
             end
         end.
End LoopM.

(* Decode into a nil interface{}: decodeValue -> TryNil / kInterfaceNaked -> DecodeNaked,
   and for containers DecSliceIntfY / kMap, which come back here for every element.
   [rf]: recursion fuel, one unit per nested value = the model's recursion counter
   (the Go frames per level are a constant multiple); [lf]: loop fuel;
   [dep]: d.depth on entry. *)
Fixpoint dec (o : dopts) (rf lf : nat) (dep : N) (st : dstate) (inp : list N) {struct rf}
  : res (item * list N * dstate) :=
  match rf with
  | O => OutOfFuel
  | S rf' =>
      match inp with
      | [] => Err EEof
      | bd :: r =>
          let vd := bd / 16 in
          let vs := bd mod 16 in
          if vd =? vdArray then
            do (n, r1) <- dec_len vs r ;;
            if maxdepth o <=? dep + 1 then Err EDepth
            else do (xs, r2, st2) <- loopN (fun g' st inp => dec o rf' g' (dep + 1) st inp) lf n st r1 ;;
                 Ok (IArr xs, r2, st2)
          else if vd =? vdMap then
            do (n, r1) <- dec_len vs r ;;
            if maxdepth o <=? dep + 1 then Err EDepth
            else do (xs, r2, st2) <- loopM (fun g' st inp => dec o rf' g' (dep + 1) st inp) lf n [] st r1 ;;
                 Ok (IMap xs, r2, st2)
          else dec_scalar o vd vs st r
      end
  end.

(* the entry point used by the theorems: Decode(&interface{}) on a fresh call (depth 0) *)
Definition fuel_r (o : dopts) : nat := N.to_nat (maxdepth o).
Definition fuel_l (inp : list N) : nat := 2 * length inp + 1.
Definition dec_naked (o : dopts) (st : dstate) (inp : list N) : res (item * list N * dstate) :=
  dec o (fuel_r o) (fuel_l inp) 0 st inp.

(* successive Decode calls on one Decoder *)
Fixpoint dec_seq (o : dopts) (k : nat) (st : dstate) (inp : list N) : res (list item * list N * dstate) :=
  match k with
  | O => Ok ([], inp, st)
  | S k' => do (x, r1, s1) <- dec_naked o st inp ;;
            do (xs, r2, s2) <- dec_seq o k' s1 r1 ;; Ok (x :: xs, r2, s2)
  end.

(* ================= the second parser: nextValueBytes / nextValueBytesBdReadR ================= *)

Definition skip_scalar (vd vs : N) (st : dstate) (r : list N) : res (unit * list N * dstate) :=
  if vd =? vdSpecial then (if vs <=? spNegOne then Ok (tt, r, st) else Err EBadDesc)
  else if vd =? vdSmallInt then Ok (tt, r, st)
  else if (vd =? vdPosInt) || (vd =? vdNegInt) then
    do (_, r') <- dec_uint vs r ;; Ok (tt, r', st)
  else if vd =? vdFloat then
    if (vs mod 8 =? flBin32) || (vs mod 8 =? flBin64) then
      let k := if vs mod 8 =? flBin32 then 4 else 8 in
      if vs / 8 =? 0 then do (_, r') <- take k r ;; Ok (tt, r', st)
      else match r with
           | [] => Err EEof
           | l :: r1 => if 8 <? l then Err EOther else do (_, r') <- take l r1 ;; Ok (tt, r', st)
           end
    else Err EBadDesc
  else if (vd =? vdString) || (vd =? vdByteArray) then
    do (l, r1) <- fn_len vs r ;; do (_, r2) <- take l r1 ;; Ok (tt, r2, st)
  else if vd =? vdSymbol then
    do (_, r', st') <- rd_symbol vs st r ;; Ok (tt, r', st')
  else if vd =? vdTimestamp then do (_, r') <- take vs r ;; Ok (tt, r', st)
  else if vd =? vdCustomExt then
    do (l, r1) <- fn_len vs r ;;
    match r1 with
    | [] => Err EEof
    | _ :: r2 => do (_, r3) <- take l r2 ;; Ok (tt, r3, st)
    end
  else Err EBadDesc.

Definition skip_entry (d : dstate -> list N -> res (unit * list N * dstate))
           (st : dstate) (inp : list N) : res (unit * list N * dstate) :=
  do (_, r1, st1) <- d st inp ;; d st1 r1.

Fixpoint skip (o : dopts) (rf lf : nat) (dep : N) (st : dstate) (inp : list N) {struct rf}
  : res (unit * list N * dstate) :=
  match rf with
  | O => OutOfFuel
  | S rf' =>
      match inp with
      | [] => Err EEof
      | bd :: r =>
          let vd := bd / 16 in
          let vs := bd mod 16 in
          if vd =? vdArray then
            do (n, r1) <- fn_len vs r ;;
            if maxdepth o <=? dep + 1 then Err EDepth
            else do (_, r2, st2) <- loopN (fun g' st inp => skip o rf' g' (dep + 1) st inp) lf n st r1 ;;
                 Ok (tt, r2, st2)
          else if vd =? vdMap then
            do (n, r1) <- fn_len vs r ;;
            if maxdepth o <=? dep + 1 then Err EDepth
            else do (_, r2, st2) <- loopN (fun g' st inp => skip_entry (skip o rf' g' (dep + 1)) st inp) lf n st r1 ;;
                 Ok (tt, r2, st2)
          else skip_scalar vd vs st r
      end
  end.

Definition skip_value (o : dopts) (st : dstate) (inp : list N) : res (unit * list N * dstate) :=
  skip o (fuel_r o) (fuel_l inp) 0 st inp.

(* successive calls on one Decoder, each either Decode(&Raw) / an unknown struct field
   ([true]: the walker) or Decode(&interface{}) ([false]) *)
Fixpoint read_seq (o : dopts) (modes : list bool) (st : dstate) (inp : list N)
  : res (list (option item) * list N * dstate) :=
  match modes with
  | [] => Ok ([], inp, st)
  | m :: ms =>
      do (x, r1, s1) <- (if m then do (_, r, s) <- skip_value o st inp ;; Ok (None, r, s)
                         else do (x, r, s) <- dec_naked o st inp ;; Ok (Some x, r, s)) ;;
      do (xs, r2, s2) <- read_seq o ms s1 r1 ;;
      Ok (x :: xs, r2, s2)
  end.

(* ================= what a round trip yields ================= *)

Definition norm_uint (d : dopts) (n : N) : item := if signedInt d then IInt (to_i64 n) else IUint n.
Definition norm_f64 (b : N) : item :=
  if f64_is_zero b then IF64 0 else IF64 (f64_canon b).

Fixpoint norm (e : eopts) (d : dopts) (i : item) {struct i} : item :=
  match i with
  | INil => INil
  | IBool b => IBool b
  | IInt z => if (0 <=? z)%Z then norm_uint d (Z.to_N z) else IInt z
  | IUint n => norm_uint d n
  | IF32 b => norm_f64 (f32_to_f64 b)
  | IF64 b => norm_f64 b
  | IStr s => if stringToRaw e then (if rawToString d then IStr s else IBytes s) else IStr s
  | IBytes b => if rawToString d then IStr b else IBytes b
  | IArr l => IArr (map (norm e d) l)
  | IMap l => IMap (map (fun kv => (key_norm (norm e d (fst kv)), norm e d (snd kv))) l)
  | ITag t v => INil
  | IExt t b => IExt t b
  | ITime s n => if (s =? zero_time_sec)%Z && (n =? 0) then INil else ITime s n
  end.

(* what the encoder is ever asked to write for binc, beyond Item.wf: lengths are
   Go ints, ext tags are bytes, seconds are int64, no tags, and map keys are
   values a Go map[interface{}]interface{} can hold, pairwise distinct *)
Definition lenok (A : Type) (l : list A) : Prop := (len l < 2 ^ 63)%N.
Arguments lenok {A} l.
(* pairwise distinct, in the order kMap meets them ([seen] = earlier keys, latest first) *)
Fixpoint nodup_seen (seen : list item) (l : list item) : bool :=
  match l with
  | [] => true
  | k :: r => negb (existsb (key_same k) seen) && nodup_seen (k :: seen) r
  end.
Fixpoint wfb (e : eopts) (d : dopts) (i : item) : Prop :=
  match i with
  | IInt z => (- 2 ^ 63 <= z < 2 ^ 63)%Z
  | IUint n => n < 2 ^ 64 /\ (signedInt d = true -> n < 2 ^ 63)   (* else Decode reports an overflow *)
  | IF32 b => b < 2 ^ 32
  | IF64 b => b < 2 ^ 64
  | IStr s => lenok s
  | IBytes s => lenok s
  | IExt t s => lenok s /\ t < 256
  | IArr l => lenok l /\ (fix go l := match l with [] => True | x :: r => wfb e d x /\ go r end) l
  | IMap l => lenok l
              /\ nodup_seen [] (map (fun kv => key_norm (norm e d (fst kv))) l) = true
              /\ (fix go l := match l with
                              | [] => True
                              | (k, v) :: r => wfb e d k /\ unhashable k = false /\ wfb e d v /\ go r
                              end) l
  | ITag _ _ => False
  | ITime s n => (- 2 ^ 63 <= s < 2 ^ 63)%Z /\ n < 1000000000
  | _ => True
  end.

(* Wire/JsonSkip — the skip scanner (nextValueBytes) on what the json encoder wrote: it hands back
   exactly the encoding and leaves the tokenizer where Decode(&interface{}) leaves it. *)
From Coq Require Import List NArith ZArith Bool Lia.
From Verif Require Import Base.Outcome Wire.Item Gen.Consts Wire.Json Wire.JsonRT.
Import ListNotations.
Open Scope N_scope.

Definition inert (b : N) : bool :=
  negb ((b =? 34) || (b =? 123) || (b =? 91) || (b =? 125) || (b =? 93)).

Lemma scan_inert : forall p n r, forallb inert p = true -> scan n false false (p ++ r) = scan n false false r.
Proof.
  induction p as [|b p IH]; intros n r H; [reflexivity|]. cbn in H. apply andb_prop in H as [Hb Hp].
  cbn [app scan]. unfold inert in Hb. apply negb_true_iff in Hb.
  repeat (apply orb_false_iff in Hb as [Hb ?]).
  rewrite Hb. replace ((b =? 123) || (b =? 91)) with false by (symmetry; apply orb_false_iff; auto).
  replace ((b =? 125) || (b =? 93)) with false by (symmetry; apply orb_false_iff; auto). apply IH. exact Hp.
Qed.

Lemma scan_cstr : forall l n esc r, cstr esc l = Ok r -> scan n true esc l = scan n false false r.
Proof.
  induction l as [|b l IH]; intros n esc r H; cbn in H; [discriminate|]. cbn [scan].
  destruct esc; [apply IH; exact H|].
  destruct (b =? 34); [inversion H; reflexivity|]. destruct (b =? 92); apply IH; exact H.
Qed.

Lemma cstr_plain : forall p rest, forallb plain p = true -> cstr false (p ++ 34 :: rest) = Ok rest.
Proof.
  induction p as [|b p IH]; intros rest H; [reflexivity|]. cbn in H. apply andb_prop in H as [Hb Hp].
  cbn [app cstr]. unfold plain in Hb. apply andb_prop in Hb as [H1 H2].
  apply negb_true_iff in H1. apply negb_true_iff in H2. rewrite H1, H2. apply IH. exact Hp.
Qed.

Lemma firstn_len : forall (a tl : list N), firstn (length (a ++ tl) - length tl) (a ++ tl) = a.
Proof.
  intros a tl. rewrite app_length. replace (length a + length tl - length tl)%nat with (length a + 0)%nat by lia.
  rewrite firstn_app_2. cbn. apply app_nil_r.
Qed.

Definition l_ull : list N := [117; 108; 108].
Definition l_rue : list N := [114; 117; 101].
Definition l_alse : list N := [97; 108; 115; 101].

Section Skip.
Variable L : leaf.
Hypothesis LL : leaf_laws L.

Definition shape_ok2 (sh : shape) : Prop :=
  match sh with SQ w _ => forall tl, cstr false (w ++ 34 :: tl) = Ok tl | _ => True end.

Lemma qwrap_ok2 : forall q t, forallb plain t = true -> shape_ok2 (qwrap q t).
Proof. intros [|] t H; cbn; [intros tl; apply cstr_plain; exact H|exact I]. Qed.

Lemma shape_of_ok2 : forall o D key i, jwf L o D key i -> scalar_item i = true -> shape_ok2 (shape_of L o key i).
Proof.
  intros o D key i Hw Hs. destruct i; try discriminate Hs; cbn [shape_of jwf] in Hw |- *.
  - exact I.
  - apply qwrap_ok2; destruct b; reflexivity.
  - apply qwrap_ok2, numtext_plain, (int_numtext L LL), Hw.
  - destruct Hw as [Hn _]. apply qwrap_ok2, numtext_plain, (udig_numtext L LL), Hn.
  - destruct (f32special bits) eqn:E; [exact I|]. apply qwrap_ok2, numtext_plain, (ll_f32_num L LL), E.
  - destruct (f64special bits) eqn:E; [exact I|]. apply qwrap_ok2, numtext_plain, (ll_f64_num L LL), E.
  - destruct (stringToRaw o) eqn:E1; cbn in Hw.
    + rewrite Hw. intros tl. apply cstr_plain, b64_plain.
    + intros tl. apply (ll_cstr_quote L LL).
  - rewrite Hw. intros tl. apply cstr_plain, b64_plain.
  - destruct (time_zero sec nsec); [exact I|]. intros tl. apply cstr_plain, (ll_time_plain L LL).
Qed.

Lemma numc_inert : forall c, isnumc c = true -> inert c = true.
Proof.
  intros c H. pose proof (numc_cases c H) as (_ & _ & _ & _ & H123 & H91 & H34 & H125 & H93 & _).
  unfold inert. rewrite H34, H123, H91, H125, H93. reflexivity.
Qed.

Lemma ws_inert : forall c, isws c = true -> inert c = true.
Proof.
  intros c H. unfold isws in H. apply N.ltb_lt in H. unfold inert.
  repeat match goal with |- context [?a =? ?b] => destruct (N.eqb_spec a b); try lia end; try reflexivity.
Qed.

Lemma nl_inert : forall o lvl, forallb inert (nl o lvl) = true.
Proof. intros o lvl. eapply forallb_impl; [|apply nl_ws]. apply ws_inert. Qed.

Lemma scan_shape : forall D sh n r, shape_ok L D sh -> shape_ok2 sh ->
  scan (S n) false false (enc_shape sh ++ r) = scan (S n) false false r.
Proof.
  intros D sh n r H1 H2. destruct sh as [|w d|t|]; cbn [enc_shape shape_ok shape_ok2] in *.
  - apply scan_inert. reflexivity.
  - cbn [app]. rewrite <- app_assoc. cbn [app scan]. cbn [N.eqb Pos.eqb].
    rewrite (scan_cstr (w ++ 34 :: r) (S n) false r); [reflexivity|apply H2].
  - destruct H1 as [->|[->|[[_ Hn] _]]]; apply scan_inert; try reflexivity.
    eapply forallb_impl; [|exact Hn]. apply numc_inert.
  - contradiction.
Qed.

Definition SKP (i : item) : Prop :=
  forall o D key lvl n r, jwf L o D key i ->
    scan (S n) false false (enc_at L o key lvl i ++ r) = scan (S n) false false r.

Lemma skp_scalar : forall i, scalar_item i = true -> SKP i.
Proof.
  intros i Hs o D key lvl n r Hw. destruct (scalar_enc_norm L o D key lvl i Hw Hs) as [-> _].
  apply (scan_shape D); [apply shape_of_ok|eapply shape_of_ok2]; eauto.
Qed.

Lemma skp_elems : forall l, Forall SKP l -> forall o D lvl first n r, jwf_list L o D l ->
  scan (S n) false false (enc_elems L o lvl first l ++ r) = scan (S n) false false r.
Proof.
  induction l as [|x q IH]; intros HF o D lvl first n r Hw; [reflexivity|].
  inversion HF as [|? ? Hx Hq]; subst. destruct Hw as [Hwx Hwq].
  cbn [enc_elems]. fold (enc_elems L o lvl). rewrite <- !app_assoc.
  rewrite scan_inert by (destruct first; reflexivity).
  rewrite scan_inert by apply nl_inert.
  rewrite (Hx o D false (lvl + 1) n _ Hwx). apply (IH Hq o D lvl false n r Hwq).
Qed.

Lemma skp_pairs : forall l, Forall (fun kv => SKP (fst kv) /\ SKP (snd kv)) l -> forall o D lvl first n r, jwf_pairs L o D l ->
  scan (S n) false false (enc_pairs L o lvl first l ++ r) = scan (S n) false false r.
Proof.
  induction l as [|x q IH]; intros HF o D lvl first n r Hw; [reflexivity|].
  inversion HF as [|? ? [Hk Hv] Hq]; subst. destruct Hw as (Hwk & Hwv & Hwq).
  cbn [enc_pairs]. fold (enc_pairs L o lvl). rewrite <- !app_assoc.
  rewrite scan_inert by (destruct first; reflexivity).
  rewrite scan_inert by apply nl_inert.
  rewrite (Hk o D true (lvl + 1) n _ Hwk).
  rewrite scan_inert by (unfold colon; destruct (indent o =? 0)%Z; reflexivity).
  rewrite (Hv o D false (lvl + 1) n _ Hwv). apply (IH Hq o D lvl false n r Hwq).
Qed.

Lemma skp_all : forall i, SKP i.
Proof.
  induction i using item_ind'; try (apply skp_scalar; reflexivity).
  - intros o D key lvl n r Hw. destruct Hw as [_ Hwl]. fold (jwf_list L o D l) in Hwl.
    destruct l as [|x q]; [reflexivity|]. rewrite enc_arr_eq. cbn [app scan]. cbn [N.eqb Pos.eqb orb].
    rewrite <- !app_assoc. rewrite (skp_elems (x :: q) H o D lvl true (S n) _ Hwl).
    rewrite scan_inert by apply nl_inert. reflexivity.
  - intros o D key lvl n r Hw. destruct Hw as (_ & _ & Hwl). fold (jwf_pairs L o D l) in Hwl.
    destruct l as [|x q]; [reflexivity|]. rewrite enc_map_eq. cbn [app scan]. cbn [N.eqb Pos.eqb orb].
    rewrite <- !app_assoc. rewrite (skp_pairs (x :: q) H o D lvl true (S n) _ Hwl).
    rewrite scan_inert by apply nl_inert. reflexivity.
  - intros o D key lvl n r Hw. contradiction.
  - intros o D key lvl n r Hw. contradiction.
Qed.


(* nvb on a container: the token is the opening bracket, [body] everything up to and including the closer *)
Lemma nvb_container : forall s open body tl,
  (open = 91 \/ open = 123) -> advance s = Ok (mkst open (body ++ tl)) ->
  scan 1 false false (body ++ tl) = Ok tl ->
  nvb s = Ok (open :: body, mkst 0 tl).
Proof.
  intros s open body tl Ho Ha Hs. unfold nvb. rewrite Ha. cbn [bind tok inp].
  destruct Ho as [-> | ->]; cbn [N.eqb Pos.eqb orb]; rewrite Hs; cbn [bind]; rewrite firstn_len; reflexivity.
Qed.

Lemma nvb_shape : forall D sh s tl,
  shape_ok L D sh -> shape_ok2 sh ->
  advance s = advance (mkst 0 (enc_shape sh ++ tl)) -> delim_ok (shape_num sh) tl ->
  nvb s = Ok (enc_shape sh, after (shape_num sh) tl).
Proof.
  intros D sh s tl H1 H2 Hadv Hd. unfold nvb. rewrite Hadv, adv0.
  destruct sh as [|w d|t|]; cbn [enc_shape shape_ok shape_ok2 shape_num] in *.
  - change (t_null ++ tl) with (110 :: (l_ull ++ tl)). rewrite skipws_hd by reflexivity.
    cbn [bind tok inp]. cbn [N.eqb Pos.eqb]. unfold lit. cbn [inp length].
    replace (length (l_ull ++ tl) <? 3)%nat with false by (symmetry; apply Nat.ltb_ge; rewrite app_length; cbn; lia).
    cbn [firstn app eqbl N.eqb Pos.eqb andb skipn bind inp]. unfold l_ull at 1 2. cbn [firstn app eqbl N.eqb Pos.eqb andb skipn bind inp]. fold l_ull. rewrite (firstn_len l_ull tl). reflexivity.
  - cbn [app]. rewrite <- app_assoc. cbn [app]. rewrite skipws_hd by reflexivity.
    cbn [bind tok inp]. cbn [N.eqb Pos.eqb]. rewrite H2. cbn [bind].
    replace (w ++ 34 :: tl) with ((w ++ [34]) ++ tl) by (rewrite <- app_assoc; reflexivity).
    rewrite firstn_len. reflexivity.
  - destruct H1 as [->|[->|[Hn _]]].
    + change (t_true ++ tl) with (116 :: (l_rue ++ tl)). rewrite skipws_hd by reflexivity.
      cbn [bind tok inp]. cbn [N.eqb Pos.eqb]. unfold lit. cbn [inp length].
      replace (length (l_rue ++ tl) <? 3)%nat with false by (symmetry; apply Nat.ltb_ge; rewrite app_length; cbn; lia).
      cbn [firstn app eqbl N.eqb Pos.eqb andb skipn bind inp]. unfold l_rue at 1 2. cbn [firstn app eqbl N.eqb Pos.eqb andb skipn bind inp]. fold l_rue. rewrite (firstn_len l_rue tl). reflexivity.
    + change (t_false ++ tl) with (102 :: (l_alse ++ tl)). rewrite skipws_hd by reflexivity.
      cbn [bind tok inp]. cbn [N.eqb Pos.eqb]. unfold lit. cbn [inp length].
      replace (length (l_alse ++ tl) <? 4)%nat with false by (symmetry; apply Nat.ltb_ge; rewrite app_length; cbn; lia).
      cbn [firstn app eqbl N.eqb Pos.eqb andb skipn bind inp]. unfold l_alse at 1 2. cbn [firstn app eqbl N.eqb Pos.eqb andb skipn bind inp]. fold l_alse. rewrite (firstn_len l_alse tl). reflexivity.
    + pose proof (numtext_not_lit t Hn) as Hnl. rewrite Hnl in *.
      destruct (numtext_hd t Hn) as (c & r & -> & Hc & Hr).
      pose proof (numc_cases c Hc) as (Hw & E1 & E2 & E3 & E4 & E5 & E6 & _).
      cbn [app]. rewrite skipws_hd by exact Hw. cbn [bind tok inp].
      rewrite E1, E2, E3, E4, E5, E6. cbn [orb]. unfold read_num. cbn [tok inp]. rewrite Hc.
      rewrite (numspan_app r tl Hr (Hd eq_refl)). unfold after. destruct tl; reflexivity.
  - contradiction.
Qed.

(* C11 at the wire level *)
Lemma nvb_enc_lemma : forall o D key lvl i s tl,
  jwf L o D key i -> advance s = advance (mkst 0 (enc_at L o key lvl i ++ tl)) ->
  delim_ok (isnum L o key i) tl ->
  nvb s = Ok (enc_at L o key lvl i, after (isnum L o key i) tl).
Proof.
  intros o D key lvl i s tl Hw Hadv Hd. destruct (scalar_item i) eqn:Hs.
  - destruct (scalar_enc_norm L o D key lvl i Hw Hs) as [He _]. rewrite He in *. unfold isnum in *.
    apply (nvb_shape D); auto; [apply shape_of_ok|eapply shape_of_ok2]; eauto.
  - destruct i; try discriminate Hs; cbn [jwf] in Hw; try contradiction.
    + destruct Hw as [_ Hwl]. fold (jwf_list L o D l) in Hwl. change (isnum L o key (IArr l)) with false. cbn [after].
      destruct l as [|x q].
      * apply (nvb_container s 91 [93] tl); auto; rewrite Hadv, adv0; reflexivity.
      * rewrite enc_arr_eq in *. apply (nvb_container s 91 _ tl); auto;
          try (rewrite Hadv, adv0; cbn [app]; rewrite skipws_hd by reflexivity; reflexivity).
        rewrite <- !app_assoc. rewrite (skp_elems (x :: q)) with (D := D); auto.
        { rewrite scan_inert by apply nl_inert. reflexivity. }
        apply Forall_forall. intros y _. apply skp_all.
    + destruct Hw as (_ & _ & Hwl). fold (jwf_pairs L o D l) in Hwl. change (isnum L o key (IMap l)) with false. cbn [after].
      destruct l as [|x q].
      * apply (nvb_container s 123 [125] tl); auto; rewrite Hadv, adv0; reflexivity.
      * rewrite enc_map_eq in *. apply (nvb_container s 123 _ tl); auto;
          try (rewrite Hadv, adv0; cbn [app]; rewrite skipws_hd by reflexivity; reflexivity).
        rewrite <- !app_assoc. rewrite (skp_pairs (x :: q)) with (D := D); auto.
        { rewrite scan_inert by apply nl_inert. reflexivity. }
        apply Forall_forall. intros y _. split; apply skp_all.
Qed.

(* the API forms: skip / raw on a fresh decoder over one Encode call's output followed by anything *)
Lemma skip_enc_top_lemma : forall o D i rest,
  jwf L o D false i -> (termWs o = true \/ delim_ok (isnum L o false i) rest) ->
  raw (enc_top L o i ++ rest) = Ok (enc L o ctx0 i, inp (after (isnum L o false i) (term o ++ rest))) /\
  skip 0 (enc_top L o i ++ rest) = Ok (inp (after (isnum L o false i) (term o ++ rest))).
Proof.
  intros o D i rest Hw Hd.
  assert (H : nvb (st0 (enc_top L o i ++ rest)) = Ok (enc L o ctx0 i, after (isnum L o false i) (term o ++ rest))).
  { unfold enc_top, enc, ctx0. cbn [ckey clvl]. fold (term o). rewrite <- app_assoc.
    apply (nvb_enc_lemma o D false 0 i); auto. apply term_delim. exact Hd. }
  unfold raw, skip. rewrite H. split; reflexivity.
Qed.

End Skip.

(* Wire/SimpleDepthFull — every value the decode-into-interface{} model of the simple format
   returns is nested less than MaxDepth, for EVERY input, option vector and fuel.

   Invariant (induction on the fuel over dec / dec_elems / dec_pairs, entry depth generalised):
   a call entered at decoderBase.depth = dp < MaxDepth that returns Ok i has
   dp + depth i < MaxDepth.  The only way past depthIncr is the containerLenNil sentinel of
   depth_enter; decLen never yields it (dec_len_nonneg, after F14-3/simple). *)
From Coq Require Import List NArith ZArith Bool Lia Arith.
From Verif Require Import Base.Outcome Wire.Item Gen.Consts Wire.Simple Wire.SimpleDepth.
Import ListNotations.

Lemma bind_inv {A B} : forall (m : res A) (k : A -> res B) x,
  bind m k = Ok x -> exists a, m = Ok a /\ k a = Ok x.
Proof. intros m k x H. destruct m; cbn [bind] in H; try discriminate. eauto. Qed.

Lemma key_conv_depth : forall k, depth (key_conv k) = depth k.
Proof. destruct k; reflexivity. Qed.

Lemma dec_time_payload_depth : forall p i, dec_time_payload p = Ok i -> depth i = 0%nat.
Proof.
  intros p i H. unfold dec_time_payload in H. destruct p as [| v q]; [discriminate |].
  destruct (negb _); [discriminate |]. destruct (negb _); [discriminate |].
  inversion H. reflexivity.
Qed.

Lemma dec_scalar_depth : forall D k l i r, dec_scalar D k l = Ok (i, r) -> depth i = 0%nat.
Proof.
  intros D k l i r H. unfold dec_scalar in H. destruct k; try discriminate;
    try (inversion H; subst; reflexivity).
  - apply bind_inv in H as ([ui r0] & _ & H). destruct (signedInteger D).
    + apply bind_inv in H as (x & _ & H). inversion H; reflexivity.
    + inversion H; reflexivity.
  - apply bind_inv in H as ([ui r0] & _ & H). apply bind_inv in H as (x & _ & H). inversion H; reflexivity.
  - apply bind_inv in H as ([v r0] & _ & H). inversion H; reflexivity.
  - apply bind_inv in H as ([v r0] & _ & H). inversion H; reflexivity.
  - apply bind_inv in H as ([n r0] & _ & H). apply bind_inv in H as ([p r1] & _ & H).
    apply bind_inv in H as (t & E & H). inversion H; subst. eapply dec_time_payload_depth; eassumption.
  - apply bind_inv in H as ([n r0] & _ & H). apply bind_inv in H as ([p r1] & _ & H). inversion H; reflexivity.
  - apply bind_inv in H as ([n r0] & _ & H). apply bind_inv in H as ([p r1] & _ & H). inversion H; subst.
    unfold bytes_item. destruct (rawToString D); reflexivity.
  - apply bind_inv in H as ([n r0] & _ & H). apply bind_inv in H as ([t r1] & _ & H).
    apply bind_inv in H as ([p r2] & _ & H). inversion H; reflexivity.
Qed.

(* depthIncr was passed: the sentinel branch is dead because decLen is never negative *)
Lemma depth_enter_lt : forall D dp n d', (0 <= n)%Z -> depth_enter D dp n = Ok d' ->
  d' = (dp + 1)%Z /\ (dp + 1 < maxdepth D)%Z.
Proof.
  intros D dp n d' Hn H. unfold depth_enter in H.
  destruct (Z.eqb_spec n containerLenNil); [unfold containerLenNil in *; lia |].
  destruct (Z.leb_spec (maxdepth D) (dp + 1)); [discriminate |]. inversion H. lia.
Qed.

Lemma dec_S : forall D f dp l, dec D (S f) dp l =
  (do (b, r) <- readn1 l ;;
    match classify b with
    | KArr lw =>
        do (n, r1) <- dec_len lw r ;;
        do d' <- depth_enter D dp n ;;
        do (xs, r2) <- dec_elems D f d' (loop_count n 1) r1 ;;
        Ok (IArr xs, r2)
    | KMap lw =>
        do (n, r1) <- dec_len lw r ;;
        do d' <- depth_enter D dp n ;;
        do (kvs, r2) <- dec_pairs D f d' [] (loop_count n 1) r1 ;;
        Ok (IMap kvs, r2)
    | k => dec_scalar D k r
    end).
Proof. reflexivity. Qed.

Lemma dec_elems_S : forall D f dp cnt l, dec_elems D (S f) dp cnt l =
  if cnt_done cnt then Ok ([], l) else
    do (x, r) <- dec D f dp l ;;
    do (xs, r') <- dec_elems D f dp (cnt_pred cnt) r ;;
    Ok (x :: xs, r').
Proof. reflexivity. Qed.

Lemma dec_pairs_S : forall D f dp seen cnt l, dec_pairs D (S f) dp seen cnt l =
  if cnt_done cnt then Ok ([], l) else
    do (k, r) <- dec D f dp l ;;
    if seen_key seen (key_conv k) then Err EUnsupported else
    do (_, _) <- readn1 r ;;
    if unhashable k then Err EOther else
    do (v, r1) <- dec D f dp r ;;
    do (kvs, r') <- dec_pairs D f dp (key_conv k :: seen) (cnt_pred cnt) r1 ;;
    Ok ((key_conv k, v) :: kvs, r').
Proof. reflexivity. Qed.

Theorem dec_val : forall D f,
  (forall dp l i rest, (dp < maxdepth D)%Z ->
     dec D f dp l = Ok (i, rest) -> (dp + Z.of_nat (depth i) < maxdepth D)%Z) /\
  (forall dp cnt l xs rest, (dp < maxdepth D)%Z ->
     dec_elems D f dp cnt l = Ok (xs, rest) -> (dp + Z.of_nat (fmax xs) < maxdepth D)%Z) /\
  (forall dp seen cnt l kvs rest, (dp < maxdepth D)%Z ->
     dec_pairs D f dp seen cnt l = Ok (kvs, rest) -> (dp + Z.of_nat (fmaxkv kvs) < maxdepth D)%Z).
Proof.
  intros D. induction f as [| f (IH1 & IH2 & IH3)].
  - repeat apply conj.
    + intros dp l i rest Hd H. cbn [dec] in H. discriminate.
    + intros dp cnt l xs rest Hd H. cbn [dec_elems] in H. destruct (cnt_done cnt); [| discriminate].
      inversion H; subst. cbn [fmax fold_right]. lia.
    + intros dp seen cnt l kvs rest Hd H. cbn [dec_pairs] in H. destruct (cnt_done cnt); [| discriminate].
      inversion H; subst. cbn [fmaxkv fold_right]. lia.
  - repeat apply conj.
    + intros dp l i rest Hd H. rewrite dec_S in H.
      apply bind_inv in H as ([b r] & _ & H). cbv beta iota in H.
      destruct (classify b) eqn:Ek;
        try (apply dec_scalar_depth in H; rewrite H; lia).
      * apply bind_inv in H as ([n r1] & En & H). apply dec_len_nonneg in En.
        apply bind_inv in H as (d' & Ed & H). apply (depth_enter_lt _ _ _ _ En) in Ed as [-> Hlt].
        apply bind_inv in H as ([xs r2] & Ex & H). inversion H; subst.
        apply IH2 in Ex; [| assumption]. change (depth (IArr xs)) with (S (fmax xs)). lia.
      * apply bind_inv in H as ([n r1] & En & H). apply dec_len_nonneg in En.
        apply bind_inv in H as (d' & Ed & H). apply (depth_enter_lt _ _ _ _ En) in Ed as [-> Hlt].
        apply bind_inv in H as ([kvs r2] & Ex & H). inversion H; subst.
        apply IH3 in Ex; [| assumption]. change (depth (IMap kvs)) with (S (fmaxkv kvs)). lia.
    + intros dp cnt l xs rest Hd H. rewrite dec_elems_S in H. destruct (cnt_done cnt).
      * inversion H; subst. cbn [fmax fold_right]. lia.
      * apply bind_inv in H as ([x r] & E1 & H). apply bind_inv in H as ([ys r'] & E2 & H).
        inversion H; subst. apply IH1 in E1; [| assumption]. apply IH2 in E2; [| assumption].
        cbn [fmax fold_right]. fold (fmax ys). lia.
    + intros dp seen cnt l kvs rest Hd H. rewrite dec_pairs_S in H. destruct (cnt_done cnt).
      * inversion H; subst. cbn [fmaxkv fold_right]. lia.
      * apply bind_inv in H as ([k r] & E1 & H). cbv beta iota in H.
        destruct (seen_key seen (key_conv k)); [discriminate |].
        apply bind_inv in H as ([b0 r0] & _ & H). cbv beta iota in H.
        destruct (unhashable k); [discriminate |].
        apply bind_inv in H as ([v r1] & E2 & H). apply bind_inv in H as ([ys r'] & E3 & H).
        inversion H; subst. apply IH1 in E1; [| assumption]. apply IH1 in E2; [| assumption].
        apply IH3 in E3; [| assumption].
        cbn [fmaxkv fold_right fst snd]. fold (fmaxkv ys). rewrite key_conv_depth. lia.
Qed.

(* for EVERY input, option vector and fuel: a value nested MaxDepth levels or more is never returned *)
Lemma dec_depth_val : forall (D : dopts) (fuel : nat) (l : list N) (i : item) (rest : list N),
  dec_naked D fuel l = Ok (i, rest) -> (Z.of_nat (depth i) < maxdepth D)%Z.
Proof.
  intros D fuel l i rest H. unfold dec_naked in H. pose proof (maxdepth_pos D) as Hp.
  pose proof (proj1 (dec_val D fuel) 0%Z l i rest Hp H). lia.
Qed.

Lemma dec_depth_error : forall (D : dopts) (fuel : nat) (l : list N) (i : item) (rest : list N),
  (maxdepth D <= Z.of_nat (depth i))%Z -> dec_naked D fuel l <> Ok (i, rest).
Proof. intros D fuel l i rest Hd H. apply dec_depth_val in H. lia. Qed.

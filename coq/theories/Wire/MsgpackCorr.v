(* Wire/MsgpackCorr — correspondence: evaluate the msgpack model on the cases
   harness/cmd/wiremsgpack ran against the real Encoder/Decoder and report the ids
   that differ. *)
From Coq Require Import List NArith ZArith Arith Bool.
From Verif Require Import Base.Outcome Wire.Item Gen.Consts Wire.Msgpack Wire.MsgpackVU.
Import ListNotations.
Local Open Scope N_scope.

(* run-length helpers the harness uses to print long values compactly *)
Definition bcat (blk : list N) (n : N) : list N := concat (repeat blk (N.to_nat n)).
Definition irep (x : item) (n : N) : list item := repeat x (N.to_nat n).

Record case := mkcase {
  cid : N;
  ckind : N;            (* 0 encode, 1 decode into interface{}, 2 nextValueBytes via Decode(&Raw), 3 via an unknown struct field,
                           4 decode into interface{} with ValidateUnicode = true (Wire/MsgpackVU.v) *)
  ceo : eopts;
  cdo : dopts;
  citem : item;         (* encode: the item handed to the Encoder; decode: dump of the decoded value *)
  cbytes : list N;      (* encode: what the Encoder wrote; decode/skip: the input *)
  o_class : N;          (* 0 = no error, else Outcome.eclass_code *)
  o_read : N }.         (* decode/skip without error: NumBytesRead *)

Fixpoint eqbl (a b : list N) : bool :=
  match a, b with
  | [], [] => true
  | x :: a', y :: b' => N.eqb x y && eqbl a' b'
  | _, _ => false
  end.

(* ---- Go's view of a decoded map[interface{}]interface{} ---- *)

(* == on float64 bit patterns: NaN differs from everything, +0 == -0 *)
Definition f64_is_nan (b : N) : bool := ((b / 2 ^ 52) mod 2048 =? 2047) && negb (b mod 2 ^ 52 =? 0).
Definition f64_eq (a b : N) : bool :=
  if f64_is_nan a || f64_is_nan b then false
  else (a =? b) || ((a mod 2 ^ 63 =? 0) && (b mod 2 ^ 63 =? 0)).

(* == on interface{} keys (dynamic type and value) *)
Definition key_eqb (a b : item) : bool :=
  match a, b with
  | INil, INil => true
  | IBool x, IBool y => Bool.eqb x y
  | IInt x, IInt y => Z.eqb x y
  | IUint x, IUint y => N.eqb x y
  | IF64 x, IF64 y => f64_eq x y
  | IStr x, IStr y => eqbl x y
  | ITime s n, ITime s' n' => Z.eqb s s' && N.eqb n n'
  | _, _ => false
  end.

(* entries assigned in stream order: an equal key replaces key and value *)
Definition map_assign (acc : list (item * item)) (kv : item * item) : list (item * item) :=
  kv :: filter (fun e => negb (key_eqb (fst e) (fst kv))) acc.

Fixpoint go_map_view (i : item) : item :=
  match i with
  | IArr l => IArr (map go_map_view l)
  | IMap l => IMap (fold_left map_assign (map (fun kv => (fst kv, go_map_view (snd kv))) l) [])
  | _ => i
  end.

(* ---- equality of item trees with maps compared as multisets ---- *)

Section Eqv.
  Variable eqv : item -> item -> bool.
  Fixpoint list_eqv (a b : list item) : bool :=
    match a, b with
    | [], [] => true
    | x :: a', y :: b' => eqv x y && list_eqv a' b'
    | _, _ => false
    end.
  (* remove the first entry of [l] equal to (k, v) *)
  Fixpoint remove1 (k v : item) (l : list (item * item)) : option (list (item * item)) :=
    match l with
    | [] => None
    | e :: r =>
        if eqv k (fst e) && eqv v (snd e) then Some r
        else match remove1 k v r with Some r' => Some (e :: r') | None => None end
    end.
  Fixpoint mset_eqv (a b : list (item * item)) : bool :=
    match a with
    | [] => match b with [] => true | _ => false end
    | e :: a' => match remove1 (fst e) (snd e) b with Some b' => mset_eqv a' b' | None => false end
    end.
End Eqv.

Fixpoint item_eqv (fuel : nat) (a b : item) : bool :=
  match fuel with
  | O => false
  | S f =>
    match a, b with
    | INil, INil => true
    | IBool x, IBool y => Bool.eqb x y
    | IInt x, IInt y => Z.eqb x y
    | IUint x, IUint y => N.eqb x y
    | IF32 x, IF32 y => N.eqb x y
    | IF64 x, IF64 y => N.eqb x y
    | IStr x, IStr y => eqbl x y
    | IBytes x, IBytes y => eqbl x y
    | IArr x, IArr y => list_eqv (item_eqv f) x y
    | IMap x, IMap y => mset_eqv (item_eqv f) x y
    | ITag t v, ITag t' v' => N.eqb t t' && item_eqv f v v'
    | IExt t x, IExt t' y => N.eqb t t' && eqbl x y
    | ITime s n, ITime s' n' => Z.eqb s s' && N.eqb n n'
    | _, _ => false
    end
  end.

Definition check_case (c : case) : bool :=
  if ckind c =? 0 then
    eqbl (enc (ceo c) (citem c)) (cbytes c)
  else if (ckind c =? 1) || (ckind c =? 4) then
    match (if ckind c =? 4 then dec_naked_vu true (cdo c) else dec_naked (cdo c)) (dec_fuel (cbytes c)) (cbytes c) with
    | Ok (i, rest) =>
        (o_class c =? 0) && (numread (cbytes c) rest =? o_read c)
        && item_eqv (S (size i)) (go_map_view i) (citem c)
    | Err e => eclass_code e =? o_class c
    | OutOfFuel => false
    end
  else
    match (if ckind c =? 2 then skip else skip_in_struct) (cdo c) (dec_fuel (cbytes c)) (cbytes c) with
    | Ok rest => (o_class c =? 0) && (numread (cbytes c) rest =? o_read c)
    | Err e => eclass_code e =? o_class c
    | OutOfFuel => false
    end.

Definition mismatches (cs : list case) : list N :=
  map cid (filter (fun c => negb (check_case c)) cs).

(* The format-independent data model the wire-level models encode and decode:
   what an Encoder driver is asked to write (EncodeInt, EncodeUint, EncodeFloat64,
   EncodeString, WriteArrayStart ... ) and what DecodeNaked hands back. *)
From Coq Require Import List NArith ZArith Lia.
Import ListNotations.

Inductive item :=
| INil
| IBool (b : bool)
| IInt (z : Z)                 (* EncodeInt v   : -2^63 <= z < 2^63 *)
| IUint (n : N)                (* EncodeUint v  : n < 2^64 *)
| IF32 (bits : N)              (* EncodeFloat32 : IEEE-754 bit pattern < 2^32 *)
| IF64 (bits : N)              (* EncodeFloat64 : bit pattern < 2^64 *)
| IStr (s : list N)            (* EncodeString  : bytes of the (UTF-8) string *)
| IBytes (b : list N)          (* EncodeStringBytesRaw *)
| IArr (l : list item)
| IMap (l : list (item * item))
| ITag (t : N) (v : item)      (* cbor tag / extension carrying a nested value *)
| IExt (t : N) (b : list N)    (* extension carrying opaque bytes (msgpack, binc, simple) *)
| ITime (sec : Z) (nsec : N).  (* EncodeTime: UTC instant *)

(* induction principle that reaches inside the nested lists *)
Section ItemInd.
  Variable P : item -> Prop.
  Hypothesis Hnil : P INil.
  Hypothesis Hbool : forall b, P (IBool b).
  Hypothesis Hint : forall z, P (IInt z).
  Hypothesis Huint : forall n, P (IUint n).
  Hypothesis Hf32 : forall b, P (IF32 b).
  Hypothesis Hf64 : forall b, P (IF64 b).
  Hypothesis Hstr : forall s, P (IStr s).
  Hypothesis Hbytes : forall b, P (IBytes b).
  Hypothesis Harr : forall l, Forall P l -> P (IArr l).
  Hypothesis Hmap : forall l, Forall (fun kv => P (fst kv) /\ P (snd kv)) l -> P (IMap l).
  Hypothesis Htag : forall t v, P v -> P (ITag t v).
  Hypothesis Hext : forall t b, P (IExt t b).
  Hypothesis Htime : forall s n, P (ITime s n).

  Fixpoint item_ind' (i : item) : P i :=
    match i with
    | INil => Hnil
    | IBool b => Hbool b
    | IInt z => Hint z
    | IUint n => Huint n
    | IF32 b => Hf32 b
    | IF64 b => Hf64 b
    | IStr s => Hstr s
    | IBytes b => Hbytes b
    | IArr l => Harr l ((fix go (l : list item) : Forall P l :=
                           match l with [] => Forall_nil _ | x :: r => Forall_cons _ (item_ind' x) (go r) end) l)
    | IMap l => Hmap l ((fix go (l : list (item * item)) : Forall (fun kv => P (fst kv) /\ P (snd kv)) l :=
                           match l with
                           | [] => Forall_nil _
                           | kv :: r => Forall_cons kv (conj (item_ind' (fst kv)) (item_ind' (snd kv))) (go r)
                           end) l)
    | ITag t v => Htag t v (item_ind' v)
    | IExt t b => Hext t b
    | ITime s n => Htime s n
    end.
End ItemInd.

(* nesting depth: containers and tags each add one level *)
Fixpoint depth (i : item) : nat :=
  match i with
  | IArr l => S (fold_right (fun x m => Nat.max (depth x) m) 0 l)
  | IMap l => S (fold_right (fun kv m => Nat.max (Nat.max (depth (fst kv)) (depth (snd kv))) m) 0 l)
  | ITag _ v => S (depth v)
  | _ => 0
  end.

(* number of nodes *)
Fixpoint size (i : item) : nat :=
  match i with
  | IArr l => S (fold_right (fun x m => size x + m) 0 l)
  | IMap l => S (fold_right (fun kv m => size (fst kv) + size (snd kv) + m) 0 l)
  | ITag _ v => S (size v)
  | _ => 1
  end.

(* ranges the encoder guarantees *)
Fixpoint wf (i : item) : Prop :=
  match i with
  | IInt z => (- 2 ^ 63 <= z < 2 ^ 63)%Z
  | IUint n => (n < 2 ^ 64)%N
  | IF32 b => (b < 2 ^ 32)%N
  | IF64 b => (b < 2 ^ 64)%N
  | IStr s => Forall (fun x => (x < 256)%N) s
  | IBytes s => Forall (fun x => (x < 256)%N) s
  | IExt t s => Forall (fun x => (x < 256)%N) s
  | IArr l => (fix go l := match l with [] => True | x :: r => wf x /\ go r end) l
  | IMap l => (fix go l := match l with [] => True | (k, v) :: r => wf k /\ wf v /\ go r end) l
  | ITag _ v => wf v
  | ITime s n => (n < 1000000000)%N
  | _ => True
  end.

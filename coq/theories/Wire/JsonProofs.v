(* Wire/JsonProofs — totality of the json tokenizer, of the skip scanner and of the naked decoder. *)
From Coq Require Import List NArith ZArith Bool Lia.
From Verif Require Import Base.Outcome Wire.Item Gen.Consts Wire.Json.
Import ListNotations.
Open Scope N_scope.

Lemma skipws_nofuel : forall l, skipws l <> OutOfFuel.
Proof. induction l as [|b r IH]; cbn; [discriminate|]. destruct (isws b); [exact IH|discriminate]. Qed.

Lemma advance_nofuel : forall s, advance s <> OutOfFuel.
Proof. intros s. unfold advance. destruct (isws (tok s)); [apply skipws_nofuel|discriminate]. Qed.

Lemma lit_nofuel : forall e s, lit e s <> OutOfFuel.
Proof. intros e s. unfold lit. destruct (_ <? _)%nat; [discriminate|]. destruct (eqbl _ _); discriminate. Qed.

Lemma cstr_nofuel : forall l esc, cstr esc l <> OutOfFuel.
Proof.
  induction l as [|b r IH]; intros esc; cbn; [discriminate|].
  destruct esc; [apply IH|]. destruct (b =? 34); [discriminate|]. destruct (b =? 92); apply IH.
Qed.

Lemma scan_nofuel : forall l n i e, scan n i e l <> OutOfFuel.
Proof.
  induction l as [|b r IH]; intros n i e; cbn; [discriminate|].
  destruct i.
  - destruct e; [apply IH|]. destruct (b =? 34); [apply IH|]. destruct (b =? 92); apply IH.
  - destruct (b =? 34); [apply IH|]. destruct ((b =? 123) || (b =? 91)); [apply IH|].
    destruct ((b =? 125) || (b =? 93)); [|apply IH].
    destruct n as [|[|m]]; try discriminate. apply IH.
Qed.

Lemma nvb_nofuel : forall s, nvb s <> OutOfFuel.
Proof.
  intros s. unfold nvb.
  destruct (advance s) as [s1| |] eqn:Ha; cbn; [|discriminate|exfalso; eapply advance_nofuel; eauto].
  repeat match goal with
  | |- context [if ?c then _ else _] => destruct c
  end;
  try (match goal with |- context [lit ?e ?x] => destruct (lit e x) eqn:Hl; cbn; [discriminate|discriminate|exfalso; eapply lit_nofuel; eauto] end).
  - destruct (cstr false (inp s1)) eqn:Hc; cbn; [discriminate|discriminate|exfalso; eapply cstr_nofuel; eauto].
  - destruct (scan 1 false false (inp s1)) eqn:Hc; cbn; [discriminate|discriminate|exfalso; eapply scan_nofuel; eauto].
  - destruct (read_num s1). discriminate.
Qed.

Lemma skip_total_lemma : forall (fuel : nat) (l : list N), skip fuel l <> OutOfFuel.
Proof.
  intros fuel l. unfold skip. destruct (nvb (st0 l)) as [[v s]| |] eqn:H; cbn; try discriminate.
  exfalso; eapply nvb_nofuel; eauto.
Qed.

(* Wire/MsgpackVUProofs — lemmas about Wire/MsgpackVU.v (ValidateUnicode and msgpack's DecodeNaked) *)
From Coq Require Import List NArith ZArith Lia Bool.
From Verif Require Import Base.Outcome Wire.Item Gen.Consts Wire.Msgpack Wire.MsgpackProofs Wire.MsgpackRT C10.CborSpec Wire.MsgpackVU.
Import ListNotations.
Local Open Scope N_scope.

Lemma vu_accepts : forall O D i rest,
  supported i -> sint_ok D i -> (Z.of_nat (depth i) < maxdepth D)%Z ->
  goslice (len (enc O i ++ rest)) ->
  dec_naked_vu true D (dec_fuel (enc O i ++ rest)) (enc O i ++ rest) = Ok (norm O D i, rest).
Proof. intros. unfold dec_naked_vu. apply dec_enc; assumption. Qed.

Lemma vu_noeffect : forall vu D f b, dec_naked_vu vu D f b = dec_naked D f b.
Proof. reflexivity. Qed.

Lemma vu_sound_refuted :
  exists D b i rest, dec_naked_vu true D (dec_fuel b) b = Ok (i, rest) /\ text_ok i = false.
Proof.
  exists (mkdopts true false false 0), [0xa1; 0xff], (IStr [0xff]), []. split; vm_compute; reflexivity.
Qed.

Lemma vu_sound_full_statement_false : ~ vu_sound_full_statement.
Proof.
  intros H. destruct vu_sound_refuted as (D & b & i & rest & E & T).
  rewrite (H _ _ _ _ _ E) in T. discriminate.
Qed.

(* Wire/BincProofs — lemmas about the binc model (Wire/Binc.v). *)
From Coq Require Import List NArith ZArith Lia Bool Arith.
From Coq Require Import ZifyN ZifyNat ZifyBool.
From Verif Require Import Base.Outcome Wire.Item Gen.Consts Wire.Binc.
Import ListNotations.
Local Open Scope bool_scope.
Local Open Scope N_scope.

Ltac Zify.zify_post_hook ::= Z.div_mod_to_equations.

(* ---------- constants ---------- *)
Lemma vdSpecial_v : vdSpecial = 0. Proof. reflexivity. Qed.
Lemma vdPosInt_v : vdPosInt = 1. Proof. reflexivity. Qed.
Lemma vdNegInt_v : vdNegInt = 2. Proof. reflexivity. Qed.
Lemma vdFloat_v : vdFloat = 3. Proof. reflexivity. Qed.
Lemma vdString_v : vdString = 4. Proof. reflexivity. Qed.
Lemma vdByteArray_v : vdByteArray = 5. Proof. reflexivity. Qed.
Lemma vdArray_v : vdArray = 6. Proof. reflexivity. Qed.
Lemma vdMap_v : vdMap = 7. Proof. reflexivity. Qed.
Lemma vdTimestamp_v : vdTimestamp = 8. Proof. reflexivity. Qed.
Lemma vdSmallInt_v : vdSmallInt = 9. Proof. reflexivity. Qed.
Lemma vdSymbol_v : vdSymbol = 11. Proof. reflexivity. Qed.
Lemma vdCustomExt_v : vdCustomExt = 15. Proof. reflexivity. Qed.
Lemma spNil_v : spNil = 0. Proof. reflexivity. Qed.
Lemma spFalse_v : spFalse = 1. Proof. reflexivity. Qed.
Lemma spTrue_v : spTrue = 2. Proof. reflexivity. Qed.
Lemma spNan_v : spNan = 3. Proof. reflexivity. Qed.
Lemma spPosInf_v : spPosInf = 4. Proof. reflexivity. Qed.
Lemma spNegInf_v : spNegInf = 5. Proof. reflexivity. Qed.
Lemma spZeroFloat_v : spZeroFloat = 6. Proof. reflexivity. Qed.
Lemma spZero_v : spZero = 7. Proof. reflexivity. Qed.
Lemma spNegOne_v : spNegOne = 8. Proof. reflexivity. Qed.
Lemma flBin32_v : flBin32 = 1. Proof. reflexivity. Qed.
Lemma flBin64_v : flBin64 = 3. Proof. reflexivity. Qed.

Ltac consts :=
  rewrite ?vdSpecial_v, ?vdPosInt_v, ?vdNegInt_v, ?vdFloat_v, ?vdString_v, ?vdByteArray_v, ?vdArray_v,
    ?vdMap_v, ?vdTimestamp_v, ?vdSmallInt_v, ?vdSymbol_v, ?vdCustomExt_v, ?spNil_v, ?spFalse_v, ?spTrue_v,
    ?spNan_v, ?spPosInf_v, ?spNegInf_v, ?spZeroFloat_v, ?spZero_v, ?spNegOne_v, ?flBin32_v, ?flBin64_v in *.

Global Opaque vdSpecial vdPosInt vdNegInt vdFloat vdString vdByteArray vdArray vdMap vdTimestamp vdSmallInt
  vdSymbol vdCustomExt spNil spFalse spTrue spNan spPosInf spNegInf spZeroFloat spZero spNegOne flBin32 flBin64.

(* ---------- descriptor ---------- *)
Lemma mkbd_div : forall vd vs, vs < 16 -> mkbd vd vs / 16 = vd.
Proof. intros. unfold mkbd. lia. Qed.
Lemma mkbd_mod : forall vd vs, vs < 16 -> mkbd vd vs mod 16 = vs.
Proof. intros. unfold mkbd. lia. Qed.

(* ---------- lists / reader ---------- *)
Lemma len_app : forall (A : Type) (a b : list A), len (a ++ b) = len a + len b.
Proof. intros. unfold len. rewrite app_length. lia. Qed.
Lemma len_cons : forall (A : Type) (x : A) l, len (x :: l) = len l + 1.
Proof. intros. unfold len. cbn [length]. lia. Qed.
Lemma len_nil : forall (A : Type), len (@nil A) = 0.
Proof. reflexivity. Qed.

Lemma take_app : forall n a r, n = len a -> take n (a ++ r) = Ok (a, r).
Proof.
  intros n a r ->. unfold take. rewrite len_app.
  replace (len a <=? len a + len r) with true by lia.
  unfold len. rewrite Nat2N.id. rewrite firstn_app, skipn_app.
  rewrite Nat.sub_diag. cbn [firstn skipn]. rewrite firstn_all, skipn_all, app_nil_r. reflexivity.
Qed.

Lemma take_some : forall n l a r, take n l = Ok (a, r) -> l = a ++ r /\ len a = n.
Proof.
  intros n l a r. unfold take. destruct (n <=? len l) eqn:E; [|discriminate].
  intros H. inversion H; subst. split.
  - symmetry. apply firstn_skipn.
  - unfold len in *. rewrite firstn_length. lia.
Qed.

Lemma take_not_oof : forall n l, take n l <> OutOfFuel.
Proof. intros. unfold take. destruct (n <=? len l); discriminate. Qed.

Lemma be_put_length : forall k v, length (be_put k v) = k.
Proof. induction k; intros; cbn [be_put]; [reflexivity|]. rewrite app_length, IHk. cbn. lia. Qed.

Lemma be_get_app1 : forall l x, be_get (l ++ [x]) = be_get l * 256 + x.
Proof. intros. unfold be_get. rewrite fold_left_app. reflexivity. Qed.

Lemma be_get_put : forall k v, v < 256 ^ N.of_nat k -> be_get (be_put k v) = v.
Proof.
  induction k; intros v H.
  - cbn in *. lia.
  - cbn [be_put]. rewrite be_get_app1. rewrite IHk.
    + pose proof (N.div_mod v 256). lia.
    + rewrite Nat2N.inj_succ, N.pow_succ_r' in H.
      apply N.div_lt_upper_bound; lia.
Qed.

Lemma rd_be_put : forall k v r, v < 256 ^ N.of_nat k -> rd_be k (be_put k v ++ r) = Ok (v, r).
Proof.
  intros. unfold rd_be. rewrite take_app.
  - cbn [bind]. rewrite be_get_put by assumption. reflexivity.
  - unfold len. rewrite be_put_length. reflexivity.
Qed.

Lemma rd_be_one : forall v r, rd_be 1 (v :: r) = Ok (v, r).
Proof.
  intros. unfold rd_be. change (v :: r) with ([v] ++ r). rewrite take_app by reflexivity.
  cbn [bind]. unfold be_get. cbn [fold_left]. replace (0 * 256 + v) with v by lia. reflexivity.
Qed.

Lemma rd_be_not_oof : forall k l, rd_be k l <> OutOfFuel.
Proof.
  intros. unfold rd_be. destruct (take (N.of_nat k) l) as [[a b]| |] eqn:E; cbn [bind]; try discriminate.
  exfalso. eapply take_not_oof; eauto.
Qed.

Lemma rd_be_shorter : forall k l v r, rd_be k l = Ok (v, r) -> (length r + k = length l)%nat.
Proof.
  intros k l v r. unfold rd_be. destruct (take (N.of_nat k) l) as [[a b]| |] eqn:E; cbn [bind]; try discriminate.
  intros H. inversion H; subst. apply take_some in E. destruct E as [-> E]. unfold len in E.
  rewrite app_length. lia.
Qed.

Lemma take_shorter : forall n l a r, take n l = Ok (a, r) -> (length r + N.to_nat n = length l)%nat.
Proof.
  intros n l a r H. apply take_some in H. destruct H as [-> H]. unfold len in H. rewrite app_length. lia.
Qed.

(* ---------- lengths ---------- *)
Lemma pow256_1 : 256 ^ N.of_nat 1 = 256. Proof. reflexivity. Qed.
Lemma pow256_2 : 256 ^ N.of_nat 2 = 65536. Proof. reflexivity. Qed.
Lemma pow256_4 : 256 ^ N.of_nat 4 = 4294967296. Proof. reflexivity. Qed.
Lemma pow256_8 : 256 ^ N.of_nat 8 = 18446744073709551616. Proof. reflexivity. Qed.

(* the head byte of a length and how both parsers read it back *)
Lemma enc_len_spec : forall vd l, l < 2 ^ 63 ->
  exists vs tl, enc_len vd l = mkbd vd vs :: tl /\ vs < 16 /\
    forall r, fn_len vs (tl ++ r) = Ok (l, r).
Proof.
  intros vd l Hl. unfold enc_len.
  destruct (l <? 12) eqn:E1.
  { exists (l + 4), []. repeat apply conj; [reflexivity|lia|]. intros r. unfold fn_len.
    replace (3 <? l + 4) with true by lia. cbn [app]. f_equal. f_equal. lia. }
  destruct (l <=? 255) eqn:E2.
  { exists 0, [l]. repeat apply conj; [reflexivity|lia|]. intros r. unfold fn_len.
    cbn [N.ltb N.compare]. cbn [app len_bytes N.eqb]. apply rd_be_one. }
  destruct (l <=? 65535) eqn:E3.
  { exists 1, (be_put 2 l). repeat apply conj; [reflexivity|lia|]. intros r. unfold fn_len.
    cbn [N.ltb N.compare Pos.compare Pos.compare_cont len_bytes N.eqb Pos.eqb]. apply rd_be_put. rewrite pow256_2. lia. }
  destruct (l <=? 4294967295) eqn:E4.
  { exists 2, (be_put 4 l). repeat apply conj; [reflexivity|lia|]. intros r. unfold fn_len.
    cbn [N.ltb N.compare Pos.compare Pos.compare_cont len_bytes N.eqb Pos.eqb]. apply rd_be_put. rewrite pow256_4. lia. }
  exists 3, (be_put 8 l). repeat apply conj; [reflexivity|lia|]. intros r. unfold fn_len.
  cbn [N.ltb N.compare Pos.compare Pos.compare_cont len_bytes N.eqb Pos.eqb]. apply rd_be_put. rewrite pow256_8.
  change (2 ^ 63) with 9223372036854775808 in Hl. lia.
Qed.

Lemma dec_len_fn : forall vs inp l r, fn_len vs inp = Ok (l, r) -> l < 2 ^ 63 -> dec_len vs inp = Ok (l, r).
Proof.
  intros. unfold dec_len. rewrite H. cbn [bind]. replace (2 ^ 63 <=? l) with false by lia. reflexivity.
Qed.

(* ---------- dec on a descriptor ---------- *)
Lemma dec_scalar_bd : forall o rf lf dep st vd vs r,
  vs < 16 -> vd <> 6 -> vd <> 7 ->
  dec o (S rf) lf dep st (mkbd vd vs :: r) = dec_scalar o vd vs st r.
Proof.
  intros. cbn [dec]. rewrite mkbd_div, mkbd_mod by assumption. consts.
  replace (vd =? 6) with false by lia. replace (vd =? 7) with false by lia. reflexivity.
Qed.

Lemma skip_scalar_bd : forall o rf lf dep st vd vs r,
  vs < 16 -> vd <> 6 -> vd <> 7 ->
  skip o (S rf) lf dep st (mkbd vd vs :: r) = skip_scalar vd vs st r.
Proof.
  intros. cbn [skip]. rewrite mkbd_div, mkbd_mod by assumption. consts.
  replace (vd =? 6) with false by lia. replace (vd =? 7) with false by lia. reflexivity.
Qed.

Ltac scal := unfold dec_scalar, skip_scalar; consts; cbn [N.eqb Pos.eqb orb andb].

(* ---------- integers ---------- *)
Lemma int_width_bound : forall v, v < 2 ^ 64 ->
  v < 256 ^ N.of_nat (int_width v) /\ (3 <= int_width v <= 8)%nat.
Proof.
  intros v H. unfold int_width.
  repeat match goal with |- context [?a <? ?b] => destruct (a <? b) eqn:? end; split; lia.
Qed.

Definition uint_result (d : dopts) (pos : bool) (v : N) : item :=
  if pos then norm_uint d v else IInt (- Z.of_N v).

Lemma to_i64_neg : forall u, 0 < u -> u <= 2 ^ 63 -> to_i64 ((2 ^ 64 - u) mod 2 ^ 64) = (- Z.of_N u)%Z.
Proof.
  intros u H1 H2. unfold to_i64.
  replace ((2 ^ 64 - u) mod 2 ^ 64) with (2 ^ 64 - u) by (symmetry; apply N.mod_small; lia).
  replace (2 ^ 64 - u <? 2 ^ 63) with false by lia. lia.
Qed.

Lemma uint_res_ok : forall d u r st, (signedInt d = true -> u < 2 ^ 63) ->
  uint_res d u r st = Ok (norm_uint d u, r, st).
Proof.
  intros d u r st H. unfold uint_res, norm_uint. destruct (signedInt d); [|reflexivity].
  replace (2 ^ 63 <=? u) with false by (specialize (H eq_refl); lia). reflexivity.
Qed.

Lemma uint_res_inv : forall o u r st x r' st',
  uint_res o u r st = Ok (x, r', st') -> r' = r /\ st' = st /\ depth x = 0%nat.
Proof.
  intros o u r st x r' st'. unfold uint_res. destruct (signedInt o); [destruct (2 ^ 63 <=? u); [discriminate|]|];
    intros H; inversion H; subst; auto.
Qed.

Lemma uint_res_not_oof : forall o u r st, uint_res o u r st <> OutOfFuel.
Proof. intros. unfold uint_res. destruct (signedInt o); [destruct (2 ^ 63 <=? u)|]; discriminate. Qed.

Lemma uint_res_overflow : forall o u r st, signedInt o = true -> 2 ^ 63 <= u -> uint_res o u r st = Err EOverflow.
Proof. intros o u r st H1 H2. unfold uint_res. rewrite H1. replace (2 ^ 63 <=? u) with true by lia. reflexivity. Qed.

Lemma enc_uint_dec : forall d rf lf dep st rest vd pos v,
  v < 2 ^ 64 -> (pos = true -> signedInt d = true -> v < 2 ^ 63) ->
  (vd = 1 /\ pos = true) \/ (vd = 2 /\ pos = false /\ 2 <= v <= 2 ^ 63) ->
  dec d (S rf) lf dep st (enc_uint (if pos then vdPosInt else vdNegInt) pos v ++ rest)
  = Ok (uint_result d pos v, rest, st).
Proof.
  intros d rf lf dep st rest vd pos v Hv Hsg Hc. unfold enc_uint.
  destruct (v =? 0) eqn:E0.
  { cbn [app]. rewrite dec_scalar_bd by (consts; lia). scal.
    destruct Hc as [[_ ->]|[_ [_ ?]]]; [|lia]. replace v with 0 by lia. rewrite uint_res_ok by (intros; lia). reflexivity. }
  destruct (pos && (v <=? 16)) eqn:E1.
  { cbn [app]. rewrite dec_scalar_bd by (consts; lia). scal.
    destruct pos; [|discriminate]. cbn [uint_result].
    replace (v - 1 + 1) with v by lia. rewrite uint_res_ok by auto. reflexivity. }
  assert (Hres : forall vs r',
     dec_uint vs r' = Ok (v, rest) -> vs < 16 ->
     dec d (S rf) lf dep st (mkbd (if pos then vdPosInt else vdNegInt) vs :: r') = Ok (uint_result d pos v, rest, st)).
  { intros vs r' Hu Hvs. rewrite dec_scalar_bd by (destruct pos; consts; lia).
    destruct pos; scal; rewrite Hu; cbn [bind uint_result]; [rewrite uint_res_ok by auto; reflexivity|].
    destruct Hc as [[_ ?]|[_ [_ ?]]]; [discriminate|]. rewrite to_i64_neg by lia. reflexivity. }
  destruct (v <=? 255) eqn:E2.
  { cbn [app]. apply Hres; [|lia]. unfold dec_uint. cbn [N.leb N.compare N.to_nat]. apply rd_be_one. }
  destruct (v <=? 65535) eqn:E3.
  { cbn [app]. apply Hres; [|lia]. unfold dec_uint. cbn [N.leb N.compare Pos.compare Pos.compare_cont N.to_nat Pos.to_nat Pos.iter_op Nat.add].
    apply rd_be_put. lia. }
  destruct (int_width_bound v Hv) as [Hb Hw].
  cbn [app]. apply Hres; [|lia]. unfold dec_uint.
  replace (N.of_nat (int_width v) - 1 <=? 7) with true by lia.
  replace (S (N.to_nat (N.of_nat (int_width v) - 1))) with (int_width v) by lia.
  apply rd_be_put. assumption.
Qed.

Lemma enc_int_dec : forall d rf lf dep st rest z,
  (- 2 ^ 63 <= z < 2 ^ 63)%Z ->
  dec d (S rf) lf dep st (enc_int z ++ rest)
  = Ok ((if (0 <=? z)%Z then norm_uint d (Z.to_N z) else IInt z), rest, st).
Proof.
  intros d rf lf dep st rest z Hz. unfold enc_int.
  destruct (0 <=? z)%Z eqn:E0.
  { change vdPosInt with (if true then vdPosInt else vdNegInt).
    rewrite (enc_uint_dec d rf lf dep st rest 1 true) by (try lia; try (left; auto); intros; lia). reflexivity. }
  destruct (z =? -1)%Z eqn:E1.
  { cbn [app]. rewrite dec_scalar_bd by (consts; lia). scal. replace z with (-1)%Z by lia. reflexivity. }
  change vdNegInt with (if false then vdPosInt else vdNegInt).
  rewrite (enc_uint_dec d rf lf dep st rest 2 false) by (try lia; try discriminate; right; repeat apply conj; auto; lia).
  cbn [uint_result]. repeat f_equal. lia.
Qed.

(* ---------- floats ---------- *)
Lemma f64_nan_not_zero : forall b, f64_is_nan b = true -> f64_is_zero b = false.
Proof.
  intros b H. unfold f64_is_nan in H. unfold f64_is_zero.
  apply andb_true_iff in H. destruct H as [H _].
  destruct (b =? 0) eqn:E0; [replace b with 0 in H by lia; vm_compute in H; discriminate|].
  destruct (b =? 2 ^ 63) eqn:E1; [replace b with (2 ^ 63) in H by lia; vm_compute in H; discriminate|].
  reflexivity.
Qed.

Lemma enc_spfloat_dec : forall d rf lf dep st rest x l,
  enc_spfloat x = Some l ->
  dec d (S rf) lf dep st (l ++ rest) = Ok (norm_f64 x, rest, st).
Proof.
  intros d rf lf dep st rest x l. unfold enc_spfloat, norm_f64.
  destruct (f64_is_zero x) eqn:Ez.
  { intros H; inversion H; subst. cbn [app]. rewrite dec_scalar_bd by (consts; lia). scal. reflexivity. }
  destruct (f64_is_nan x) eqn:En.
  { intros H; inversion H; subst. cbn [app]. rewrite dec_scalar_bd by (consts; lia). scal.
    unfold f64_canon. rewrite En. reflexivity. }
  destruct (x =? f64_posinf) eqn:Ep.
  { intros H; inversion H; subst. cbn [app]. rewrite dec_scalar_bd by (consts; lia). scal.
    unfold f64_canon. rewrite En. repeat f_equal. lia. }
  destruct (x =? f64_neginf) eqn:Eq.
  { intros H; inversion H; subst. cbn [app]. rewrite dec_scalar_bd by (consts; lia). scal.
    unfold f64_canon. rewrite En. repeat f_equal. lia. }
  discriminate.
Qed.

Lemma enc_spfloat_none : forall x, enc_spfloat x = None -> norm_f64 x = IF64 (f64_canon x).
Proof.
  intros x. unfold enc_spfloat, norm_f64. destruct (f64_is_zero x); [discriminate|]. reflexivity.
Qed.

Lemma enc_f32_dec : forall d rf lf dep st rest b,
  b < 2 ^ 32 ->
  dec d (S rf) lf dep st (enc_f32 b ++ rest) = Ok (norm_f64 (f32_to_f64 b), rest, st).
Proof.
  intros. unfold enc_f32. destruct (enc_spfloat (f32_to_f64 b)) eqn:E.
  { eapply enc_spfloat_dec; eauto. }
  cbn [app]. rewrite dec_scalar_bd by (consts; lia). scal.
  unfold dec_float. consts. cbn [N.modulo N.div_eucl N.eqb Pos.eqb N.pos_div_eucl N.leb N.compare N.sub N.double N.succ_double Pos.compare Pos.compare_cont].
  unfold dec_float_bytes. cbn [N.div N.div_eucl N.pos_div_eucl N.eqb fst N.leb N.compare N.sub N.double N.succ_double Pos.compare Pos.compare_cont].
  rewrite take_app by (unfold len; rewrite be_put_length; reflexivity).
  cbn [bind]. rewrite be_get_put by lia. rewrite (enc_spfloat_none _ E). reflexivity.
Qed.

Lemma strip0_len : forall l, (length (strip0 l) <= length l)%nat.
Proof. induction l as [|x r IH]; cbn [strip0]; [lia|]. destruct x; cbn [length] in *; lia. Qed.

Lemma strip0_repeat : forall l, l = repeat 0 (length l - length (strip0 l)) ++ strip0 l.
Proof.
  induction l as [|x r IH]; [reflexivity|]. destruct x as [|p].
  - cbn [strip0 length]. pose proof (strip0_len r).
    replace (S (length r) - length (strip0 r))%nat with (S (length r - length (strip0 r))) by lia.
    cbn [repeat app]. f_equal. exact IH.
  - cbn [strip0]. rewrite Nat.sub_diag. reflexivity.
Qed.

Lemma rev_repeat0 : forall n, rev (repeat 0 n) = repeat 0 n.
Proof.
  induction n; [reflexivity|]. cbn [repeat rev]. rewrite IHn. symmetry. apply repeat_cons.
Qed.

Lemma pad0_strip : forall bs, pad0 (length bs) (rev (strip0 (rev bs))) = bs.
Proof.
  intros bs. unfold pad0. rewrite rev_length.
  pose proof (strip0_repeat (rev bs)) as H. rewrite rev_length in H.
  apply (f_equal (@rev N)) in H. rewrite rev_involutive, rev_app_distr, rev_repeat0 in H.
  symmetry. exact H.
Qed.

Lemma enc_f64_dec : forall d rf lf dep st rest b,
  b < 2 ^ 64 ->
  dec d (S rf) lf dep st (enc_f64 b ++ rest) = Ok (norm_f64 b, rest, st).
Proof.
  intros. unfold enc_f64. destruct (enc_spfloat b) eqn:E.
  { eapply enc_spfloat_dec; eauto. }
  rewrite (enc_spfloat_none _ E).
  destruct (length (rev (strip0 (rev (be_put 8 b)))) <=? 6)%nat eqn:E6.
  - cbn [app]. rewrite dec_scalar_bd by (consts; lia). scal.
    unfold dec_float. consts.
    change ((8 + 3) mod 8 =? 1) with false. change ((8 + 3) mod 8 =? 3) with true. cbn iota.
    unfold dec_float_bytes. change ((8 + 3) / 8 =? 0) with false. cbn iota.
    apply Nat.leb_le in E6.
    replace (N.of_nat 8 <? len (rev (strip0 (rev (be_put 8 b))))) with false by (unfold len; lia).
    rewrite take_app by reflexivity. cbn [bind].
    replace 8%nat with (length (be_put 8 b)) at 1 by apply be_put_length.
    rewrite pad0_strip. rewrite be_get_put by lia. reflexivity.
  - cbn [app]. rewrite dec_scalar_bd by (consts; lia). scal.
    unfold dec_float. consts.
    change (3 mod 8 =? 1) with false. change (3 mod 8 =? 3) with true. cbn iota.
    unfold dec_float_bytes. change (3 / 8 =? 0) with true. cbn iota.
    rewrite take_app by (unfold len; rewrite be_put_length; reflexivity).
    cbn [bind]. rewrite be_get_put by lia. reflexivity.
Qed.

(* ---------- strings, bytes, ext ---------- *)
Lemma enc_lenstr_dec : forall d rf lf dep st rest vd s,
  lenok s -> vd = 4 \/ vd = 5 ->
  dec d (S rf) lf dep st ((enc_len vd (len s) ++ s) ++ rest)
  = Ok ((if vd =? 4 then IStr s else if rawToString d then IStr s else IBytes s), rest, st).
Proof.
  intros d rf lf dep st rest vd s Hs Hvd. unfold lenok in Hs.
  destruct (enc_len_spec vd (len s) Hs) as (vs & tl & -> & Hvs & Hfn).
  cbn [app]. rewrite dec_scalar_bd by (assumption || lia).
  rewrite <- app_assoc.
  destruct Hvd as [-> | ->]; scal; rewrite (dec_len_fn _ _ _ _ (Hfn _) Hs); cbn [bind];
    rewrite take_app by reflexivity; reflexivity.
Qed.

Lemma enc_ext_dec : forall d rf lf dep st rest t b,
  lenok b ->
  dec d (S rf) lf dep st ((enc_len vdCustomExt (len b) ++ [t] ++ b) ++ rest) = Ok (IExt t b, rest, st).
Proof.
  intros d rf lf dep st rest t b Hs. unfold lenok in Hs.
  destruct (enc_len_spec vdCustomExt (len b) Hs) as (vs & tl & -> & Hvs & Hfn).
  cbn [app]. rewrite dec_scalar_bd by (consts; assumption || lia). consts.
  rewrite <- app_assoc. scal. rewrite (dec_len_fn _ _ _ _ (Hfn _) Hs). cbn [bind app].
  rewrite take_app by reflexivity. reflexivity.
Qed.

(* ---------- symbols: the relation between the two tables ---------- *)
Definition R (est : estate) (dst : dstate) : Prop :=
  eseq est <= 65535 /\
  forall s id, emap_get (emap est) s = Some id -> 1 <= id <= eseq est /\ sym_get dst id = s.

Lemma R_init : R estate0 dstate0.
Proof. split; [cbn; lia|]. intros s id H. discriminate. Qed.

Lemma bytes_eqb_eq : forall a b, bytes_eqb a b = true -> a = b.
Proof.
  induction a as [|x a IH]; destruct b as [|y b]; cbn [bytes_eqb]; intros H; try discriminate; [reflexivity|].
  apply andb_true_iff in H. destruct H as [H1 H2]. f_equal; [lia|auto].
Qed.

Lemma enc_symbol_dec : forall d rf lf dep est dst rest s,
  lenok s -> R est dst ->
  exists dst',
    dec d (S rf) lf dep dst (fst (enc_symbol s est) ++ rest) = Ok (IStr s, rest, dst')
    /\ R (snd (enc_symbol s est)) dst'.
Proof.
  intros d rf lf dep est dst rest s Hs HR. unfold enc_symbol.
  assert (Hplain : dec d (S rf) lf dep dst ((enc_len vdString (len s) ++ s) ++ rest) = Ok (IStr s, rest, dst)).
  { consts. rewrite (enc_lenstr_dec d rf lf dep dst rest 4 s Hs) by auto. reflexivity. }
  destruct (len s <? 2) eqn:E2.
  { exists dst. cbn [fst snd]. auto. }
  destruct HR as [Hseq Hmap].
  destruct (emap_get (emap est) s) as [ui|] eqn:Eg.
  { exists dst. cbn [fst snd]. split; [|split; assumption].
    destruct (Hmap s ui Eg) as [Hid Hget].
    destruct (ui <=? 255) eqn:E255.
    - cbn [app]. rewrite dec_scalar_bd by (consts; lia). scal. unfold rd_symbol.
      change (0 / 8 =? 0) with true. cbn iota. rewrite rd_be_one. cbn [bind].
      change (0 / 4 mod 2 =? 0) with true. cbn iota. rewrite Hget. reflexivity.
    - cbn [app]. rewrite dec_scalar_bd by (consts; lia). scal. unfold rd_symbol.
      change (8 / 8 =? 0) with false. cbn iota. rewrite rd_be_put by lia. cbn [bind].
      change (8 / 4 mod 2 =? 0) with true. cbn iota. rewrite Hget. reflexivity. }
  destruct (eseq est =? 65535) eqn:E65.
  { exists dst. cbn [fst snd]. split; [assumption|split; assumption]. }
  cbn [fst snd].
  set (l := len s) in *. unfold lenok in Hs. fold l in Hs.
  set (ui := eseq est + 1).
  set (lenprec := if l <=? 255 then 0 else if l <=? 65535 then 1 else if l <=? 4294967295 then 2 else 3).
  set (lenbytes := if l <=? 255 then 1%nat else if l <=? 65535 then 2%nat else if l <=? 4294967295 then 4%nat else 8%nat).
  assert (Hlp : lenprec < 4) by (unfold lenprec; repeat match goal with |- context [?a <=? ?b] => destruct (a <=? b) end; lia).
  assert (Hlb : len_bytes lenprec = lenbytes).
  { unfold lenprec, lenbytes, len_bytes. repeat match goal with |- context [?a <=? ?b] => destruct (a <=? b) end; reflexivity. }
  assert (Hll : l < 256 ^ N.of_nat lenbytes).
  { unfold lenbytes. change (2 ^ 63) with 9223372036854775808 in Hs.
    repeat match goal with |- context [?a <=? ?b] => destruct (a <=? b) eqn:? end; lia. }
  exists (sym_put dst ui s). split.
  - assert (Hbody : forall vs r0, vs < 16 -> vs / 4 mod 2 = 1 -> vs mod 4 = lenprec ->
        rd_be (if vs / 8 =? 0 then 1%nat else 2%nat) r0 = Ok (ui, be_put lenbytes l ++ s ++ rest) ->
        dec d (S rf) lf dep dst (mkbd vdSymbol vs :: r0) = Ok (IStr s, rest, sym_put dst ui s)).
    { intros vs r0 Hvs H4 Hm Hrd. rewrite dec_scalar_bd by (consts; lia). scal. unfold rd_symbol.
      rewrite Hrd. cbn [bind]. rewrite H4. cbn [N.eqb Pos.eqb]. rewrite Hm, Hlb.
      rewrite rd_be_put by assumption. cbn [bind]. rewrite take_app by reflexivity. reflexivity. }
    destruct (ui <=? 255) eqn:E255.
    + cbn [app]. apply Hbody; try lia.
      replace ((4 + lenprec) / 8 =? 0) with true by lia. rewrite <- !app_assoc. apply rd_be_one.
    + cbn [app]. apply Hbody; try lia.
      replace ((8 + 4 + lenprec) / 8 =? 0) with false by lia. rewrite <- !app_assoc.
      apply rd_be_put. unfold ui. lia.
  - split; [cbn [eseq]; unfold ui; lia|]. cbn [eseq emap]. intros s' id. cbn [emap_get].
    destruct (bytes_eqb s s') eqn:Eb.
    + intros H; inversion H; subst id. apply bytes_eqb_eq in Eb. subst s'.
      split; [unfold ui; lia|]. unfold sym_put. cbn [sym_get]. rewrite N.eqb_refl. reflexivity.
    + intros H. destruct (Hmap s' id H) as [Hid Hget]. split; [unfold ui; lia|].
      unfold sym_put. cbn [sym_get]. replace (ui =? id) with false by (unfold ui; lia). exact Hget.
Qed.

Lemma enc_str_dec : forall e d rf lf dep est dst rest key s,
  lenok s -> R est dst ->
  exists dst',
    dec d (S rf) lf dep dst (fst (enc_str e key s est) ++ rest) = Ok (norm e d (IStr s), rest, dst')
    /\ R (snd (enc_str e key s est)) dst'.
Proof.
  intros e d rf lf dep est dst rest key s Hs HR. unfold enc_str. cbn [norm].
  destruct (stringToRaw e).
  { exists dst. cbn [fst snd]. split; [|assumption]. consts.
    rewrite (enc_lenstr_dec d rf lf dep dst rest 5 s Hs) by auto. reflexivity. }
  destruct (key && asSymbols e).
  { apply enc_symbol_dec; assumption. }
  exists dst. cbn [fst snd]. split; [|assumption]. consts.
  rewrite (enc_lenstr_dec d rf lf dep dst rest 4 s Hs) by auto. reflexivity.
Qed.

(* ---------- time ---------- *)
Lemma sext_k : forall (k : nat) (sec : Z) (P : N),
  P = 256 ^ N.of_nat k -> (1 <= k <= 8)%nat ->
  (- Z.of_N P <= 2 * sec < Z.of_N P)%Z ->
  sext k (of_i64 sec mod P) = sec.
Proof.
  intros k sec P HP Hk Hr. unfold sext, of_i64.
  destruct k as [|[|[|[|[|[|[|[|[|k]]]]]]]]]; try lia;
  match goal with |- context [2 ^ (8 * N.of_nat ?n - 1)] =>
    let v := eval vm_compute in (2 ^ (8 * N.of_nat n - 1)) in change (2 ^ (8 * N.of_nat n - 1)) with v;
    let w := eval vm_compute in (2 ^ (8 * Z.of_nat n))%Z in change (2 ^ (8 * Z.of_nat n))%Z with w;
    let p := eval vm_compute in (256 ^ N.of_nat n) in change (256 ^ N.of_nat n) with p in HP
  end; subst P;
  match goal with |- context [if ?c then _ else _] => destruct c eqn:E end; lia.
Qed.

Lemma sint_width_range : forall sec, (- 2 ^ 63 <= sec < 2 ^ 63)%Z ->
  (1 <= sint_width sec <= 8)%nat /\
  (- Z.of_N (256 ^ N.of_nat (sint_width sec)) <= 2 * sec < Z.of_N (256 ^ N.of_nat (sint_width sec)))%Z.
Proof.
  intros sec H. unfold sint_width.
  repeat match goal with |- context [if ?c then _ else _] => destruct c eqn:? end; split; lia.
Qed.

Lemma nsec_width_range : forall n, n < 1000000000 ->
  (1 <= nsec_width n <= 4)%nat /\ n < 256 ^ N.of_nat (nsec_width n).
Proof.
  intros n H. unfold nsec_width.
  repeat match goal with |- context [if ?c then _ else _] => destruct c eqn:? end; split; lia.
Qed.

Lemma time_bd : forall a b (sa sb : bool), a < 8 -> b < 4 ->
  let bd := (if sa then 128 + a * 4 else 0) + (if sb then 64 + b else 0) in
  (bd / 128) mod 2 = (if sa then 1 else 0) /\ (sa = true -> (bd / 4) mod 8 = a) /\
  (bd / 64) mod 2 = (if sb then 1 else 0) /\ (sb = true -> bd mod 4 = b) /\ (bd / 32) mod 2 = 0.
Proof.
  intros a b sa sb Ha Hb. cbv zeta. destruct sa, sb; repeat apply conj; intros; try discriminate; lia.
Qed.

Lemma take_all : forall a, take (len a) a = Ok (a, []).
Proof. intros. rewrite <- (app_nil_r a) at 2. apply take_app. reflexivity. Qed.

Lemma to_of_i64 : forall z, (- 2 ^ 63 <= z < 2 ^ 63)%Z -> to_i64 (of_i64 z) = z.
Proof.
  intros z H. unfold to_i64, of_i64.
  destruct (Z.to_N (z mod 2 ^ 64) <? 2 ^ 63) eqn:E; lia.
Qed.

Lemma dec_time_bytes : forall sec nsec,
  (- 2 ^ 63 <= sec < 2 ^ 63)%Z -> nsec < 1000000000 ->
  dec_time (time_bytes sec nsec) = Ok (sec, nsec).
Proof.
  intros sec nsec Hs Hn.
  destruct (sint_width_range sec Hs) as [Hks Hsr].
  destruct (nsec_width_range nsec Hn) as [Hkn Hnr].
  unfold time_bytes.
  set (ks := sint_width sec) in *. set (kn := nsec_width nsec) in *.
  set (a := N.of_nat ks - 1). set (b := N.of_nat kn - 1).
  assert (Ha : a < 8) by (unfold a; lia). assert (Hb : b < 4) by (unfold b; lia).
  pose proof (time_bd a b (negb (sec =? 0)%Z) (negb (nsec =? 0)) Ha Hb) as Hbd. cbv zeta in Hbd.
  replace (if (sec =? 0)%Z then 0 else 128 + a * 4) with (if negb (sec =? 0)%Z then 128 + a * 4 else 0)
    by (destruct (sec =? 0)%Z; reflexivity).
  replace (if nsec =? 0 then 0 else 64 + b) with (if negb (nsec =? 0) then 64 + b else 0)
    by (destruct (nsec =? 0); reflexivity).
  set (bd := (if negb (sec =? 0)%Z then 128 + a * 4 else 0) + (if negb (nsec =? 0) then 64 + b else 0)) in *.
  destruct Hbd as (H1 & H2 & H3 & H4 & H5).
  unfold dec_time. rewrite H1, H3, H5. cbn [N.eqb].
  assert (Hfin : forall ts tn, ts = sec -> tn = nsec ->
     Ok (to_i64 (of_i64 (ts + Z.of_N (tn / 1000000000))), tn mod 1000000000) = Ok (sec, nsec)).
  { intros ts tn -> ->. replace (nsec / 1000000000) with 0 by lia.
    rewrite Z.add_0_r, to_of_i64 by assumption. rewrite N.mod_small by assumption. reflexivity. }
  destruct (sec =? 0)%Z eqn:Es; destruct (nsec =? 0) eqn:En; cbn [negb N.eqb Pos.eqb bind app].
  - apply Hfin; lia.
  - rewrite (H4 eq_refl). replace (S (N.to_nat b)) with kn by (unfold b; lia).
    replace (N.of_nat kn) with (len (be_put kn nsec)) by (unfold len; rewrite be_put_length; reflexivity).
    rewrite take_all. cbn [bind]. rewrite be_get_put by assumption. apply Hfin; lia.
  - rewrite (H2 eq_refl). replace (S (N.to_nat a)) with ks by (unfold a; lia).
    rewrite app_nil_r.
    replace (N.of_nat ks) with (len (be_put ks (of_i64 sec mod 256 ^ N.of_nat ks))) at 1
      by (unfold len; rewrite be_put_length; reflexivity).
    rewrite take_all. cbn [bind]. rewrite be_get_put by (apply N.mod_lt; lia).
    rewrite (sext_k ks sec _ eq_refl Hks Hsr). apply Hfin; lia.
  - rewrite (H2 eq_refl). replace (S (N.to_nat a)) with ks by (unfold a; lia).
    rewrite take_app by (unfold len; rewrite be_put_length; reflexivity). cbn [bind].
    rewrite be_get_put by (apply N.mod_lt; lia).
    rewrite (sext_k ks sec _ eq_refl Hks Hsr).
    rewrite (H4 eq_refl). replace (S (N.to_nat b)) with kn by (unfold b; lia).
    replace (N.of_nat kn) with (len (be_put kn nsec)) by (unfold len; rewrite be_put_length; reflexivity).
    rewrite take_all. cbn [bind]. rewrite be_get_put by assumption. apply Hfin; lia.
Qed.

Lemma time_bytes_len : forall sec nsec, len (time_bytes sec nsec) < 16.
Proof.
  intros. unfold time_bytes. rewrite len_cons, len_app.
  assert (len (if (sec =? 0)%Z then [] else be_put (sint_width sec) (of_i64 sec mod 256 ^ N.of_nat (sint_width sec))) <= 8).
  { destruct (sec =? 0)%Z; [cbn; lia|]. unfold len. rewrite be_put_length. unfold sint_width.
    repeat match goal with |- context [if ?c then _ else _] => destruct c end; lia. }
  assert (len (if nsec =? 0 then [] else be_put (nsec_width nsec) nsec) <= 4).
  { destruct (nsec =? 0); [cbn; lia|]. unfold len. rewrite be_put_length. unfold nsec_width.
    repeat match goal with |- context [if ?c then _ else _] => destruct c end; lia. }
  lia.
Qed.

Lemma enc_time_dec : forall d rf lf dep st rest sec nsec,
  (- 2 ^ 63 <= sec < 2 ^ 63)%Z -> nsec < 1000000000 ->
  dec d (S rf) lf dep st (enc_time sec nsec ++ rest)
  = Ok ((if (sec =? zero_time_sec)%Z && (nsec =? 0) then INil else ITime sec nsec), rest, st).
Proof.
  intros d rf lf dep st rest sec nsec Hs Hn. unfold enc_time.
  destruct ((sec =? zero_time_sec)%Z && (nsec =? 0)).
  { cbn [app]. rewrite dec_scalar_bd by (consts; lia). scal. reflexivity. }
  pose proof (time_bytes_len sec nsec) as Hl.
  cbn [app]. rewrite dec_scalar_bd by (consts; lia). scal.
  rewrite take_app by reflexivity. cbn [bind]. rewrite dec_time_bytes by assumption. reflexivity.
Qed.


(* ================= general facts about the two parsers ================= *)

Lemma fn_len_shorter : forall vs inp l r, fn_len vs inp = Ok (l, r) -> (length r <= length inp)%nat.
Proof.
  intros vs inp l r. unfold fn_len. destruct (3 <? vs).
  - intros H; inversion H; subst; lia.
  - intros H. apply rd_be_shorter in H. lia.
Qed.
Lemma fn_len_not_oof : forall vs inp, fn_len vs inp <> OutOfFuel.
Proof. intros. unfold fn_len. destruct (3 <? vs); [discriminate|apply rd_be_not_oof]. Qed.

Lemma dec_len_shorter : forall vs inp l r, dec_len vs inp = Ok (l, r) -> (length r <= length inp)%nat.
Proof.
  intros vs inp l r. unfold dec_len. destruct (fn_len vs inp) as [[a b]| |] eqn:E; cbn [bind]; try discriminate.
  destruct (2 ^ 63 <=? a); [discriminate|]. intros H; inversion H; subst. eapply fn_len_shorter; eauto.
Qed.
Lemma dec_len_not_oof : forall vs inp, dec_len vs inp <> OutOfFuel.
Proof.
  intros. unfold dec_len. destruct (fn_len vs inp) as [[a b]| |] eqn:E; cbn [bind]; try discriminate.
  - destruct (2 ^ 63 <=? a); discriminate.
  - exfalso. eapply fn_len_not_oof; eauto.
Qed.

Lemma dec_uint_shorter : forall vs inp l r, dec_uint vs inp = Ok (l, r) -> (length r <= length inp)%nat.
Proof.
  intros vs inp l r. unfold dec_uint. destruct (vs <=? 7); [|discriminate]. intros H. apply rd_be_shorter in H. lia.
Qed.
Lemma dec_uint_not_oof : forall vs inp, dec_uint vs inp <> OutOfFuel.
Proof. intros. unfold dec_uint. destruct (vs <=? 7); [apply rd_be_not_oof|discriminate]. Qed.

(* one step through a bind in a hypothesis of the form  (do .. <- x ;; ..) = Ok _  *)
Ltac bind_in H :=
  match type of H with
  | context [bind ?x _] =>
      let E := fresh "E" in
      destruct x as [? | ? | ] eqn:E; cbn [bind] in H; try discriminate H
  end.
Ltac split_pairs :=
  repeat match goal with
         | p : (_ * _)%type |- _ => destruct p
         end.

Lemma dec_float_bytes_shorter : forall vs k inp b r, dec_float_bytes vs k inp = Ok (b, r) -> (length r <= length inp)%nat.
Proof.
  intros vs k inp b r. unfold dec_float_bytes. destruct (vs / 8 =? 0).
  - intros H. apply take_shorter in H. lia.
  - destruct inp as [|l t]; [discriminate|]. destruct (N.of_nat k <? l); [discriminate|].
    intros H. bind_in H. split_pairs. apply take_shorter in E. inversion H; subst. cbn [length]. lia.
Qed.
Lemma dec_float_bytes_not_oof : forall vs k inp, dec_float_bytes vs k inp <> OutOfFuel.
Proof.
  intros. unfold dec_float_bytes. destruct (vs / 8 =? 0); [apply take_not_oof|].
  destruct inp as [|l t]; [discriminate|]. destruct (N.of_nat k <? l); [discriminate|].
  destruct (take l t) as [[a b]| |] eqn:E; cbn [bind]; try discriminate. exfalso; eapply take_not_oof; eauto.
Qed.

Lemma dec_float_shorter : forall vs inp f r, dec_float vs inp = Ok (f, r) -> (length r <= length inp)%nat.
Proof.
  intros vs inp f r. unfold dec_float.
  destruct (vs mod 8 =? flBin32); [|destruct (vs mod 8 =? flBin64); [|discriminate]];
    intros H; bind_in H; split_pairs; inversion H; subst; eapply dec_float_bytes_shorter; eauto.
Qed.
Lemma dec_float_not_oof : forall vs inp, dec_float vs inp <> OutOfFuel.
Proof.
  intros. unfold dec_float.
  destruct (vs mod 8 =? flBin32); [|destruct (vs mod 8 =? flBin64); [|discriminate]];
  match goal with |- context [dec_float_bytes ?a ?b ?c] =>
    destruct (dec_float_bytes a b c) as [[x y]| |] eqn:E; cbn [bind]; try discriminate;
    exfalso; eapply dec_float_bytes_not_oof; eauto end.
Qed.

Lemma rd_symbol_shorter : forall vs st inp s r st', rd_symbol vs st inp = Ok (s, r, st') -> (length r < length inp)%nat.
Proof.
  intros vs st inp s r st'. unfold rd_symbol. intros H. bind_in H. split_pairs.
  apply rd_be_shorter in E.
  destruct (vs / 4 mod 2 =? 0).
  - inversion H; subst. destruct (vs / 8 =? 0); lia.
  - bind_in H. split_pairs. bind_in H. split_pairs. inversion H; subst.
    apply rd_be_shorter in E0. apply take_shorter in E1. destruct (vs / 8 =? 0); lia.
Qed.
Lemma rd_symbol_not_oof : forall vs st inp, rd_symbol vs st inp <> OutOfFuel.
Proof.
  intros. unfold rd_symbol.
  destruct (rd_be _ inp) as [[a b]| |] eqn:E; cbn [bind]; try discriminate.
  2:{ exfalso; eapply rd_be_not_oof; eauto. }
  destruct (vs / 4 mod 2 =? 0); [discriminate|].
  destruct (rd_be _ b) as [[a' b']| |] eqn:E'; cbn [bind]; try discriminate.
  2:{ exfalso; eapply rd_be_not_oof; eauto. }
  destruct (take a' b') as [[a'' b'']| |] eqn:E''; cbn [bind]; try discriminate.
  exfalso; eapply take_not_oof; eauto.
Qed.

Lemma dec_time_not_oof : forall bs, dec_time bs <> OutOfFuel.
Proof.
  intros bs. unfold dec_time. destruct bs as [|bd r]; [discriminate|].
  destruct (bd / 128 mod 2 =? 1).
  - destruct (take _ r) as [[a b]| |] eqn:E; cbn [bind]; try discriminate.
    2:{ exfalso; eapply take_not_oof; eauto. }
    destruct (bd / 64 mod 2 =? 1).
    + destruct (take _ b) as [[a' b']| |] eqn:E'; cbn [bind]; try discriminate.
      2:{ exfalso; eapply take_not_oof; eauto. }
      destruct (bd / 32 mod 2 =? 1); cbn [bind]; try discriminate.
      destruct (take 2 b') as [[a'' b'']| |] eqn:E''; cbn [bind]; try discriminate.
      exfalso; eapply take_not_oof; eauto.
    + cbn [bind]. destruct (bd / 32 mod 2 =? 1); cbn [bind]; try discriminate.
      destruct (take 2 b) as [[a'' b'']| |] eqn:E''; cbn [bind]; try discriminate.
      exfalso; eapply take_not_oof; eauto.
  - cbn [bind]. destruct (bd / 64 mod 2 =? 1).
    + destruct (take _ r) as [[a' b']| |] eqn:E'; cbn [bind]; try discriminate.
      2:{ exfalso; eapply take_not_oof; eauto. }
      destruct (bd / 32 mod 2 =? 1); cbn [bind]; try discriminate.
      destruct (take 2 b') as [[a'' b'']| |] eqn:E''; cbn [bind]; try discriminate.
      exfalso; eapply take_not_oof; eauto.
    + cbn [bind]. destruct (bd / 32 mod 2 =? 1); cbn [bind]; try discriminate.
      destruct (take 2 r) as [[a'' b'']| |] eqn:E''; cbn [bind]; try discriminate.
      exfalso; eapply take_not_oof; eauto.
Qed.

Lemma dec_scalar_shorter : forall o vd vs st r x r' st',
  dec_scalar o vd vs st r = Ok (x, r', st') -> (length r' <= length r)%nat.
Proof.
  intros o vd vs st r x r' st'. unfold dec_scalar.
  repeat match goal with
         | |- context [if ?c then _ else _] =>
             match c with
             | (_ =? _) => destruct c
             end
         end; intros H; try discriminate H; try (inversion H; subst; lia);
    try (apply uint_res_inv in H; destruct H as (-> & _ & _); lia).
  - bind_in H. split_pairs. apply uint_res_inv in H. destruct H as (-> & _ & _). eapply dec_uint_shorter; eauto.
  - bind_in H. split_pairs. inversion H; subst. eapply dec_uint_shorter; eauto.
  - bind_in H. split_pairs. inversion H; subst. eapply dec_float_shorter; eauto.
  - bind_in H. split_pairs. bind_in H. split_pairs. inversion H; subst.
    apply dec_len_shorter in E. apply take_shorter in E0. lia.
  - bind_in H. split_pairs. bind_in H. split_pairs. inversion H; subst.
    apply dec_len_shorter in E. apply take_shorter in E0. lia.
  - bind_in H. split_pairs. inversion H; subst. apply rd_symbol_shorter in E. lia.
  - bind_in H. split_pairs. bind_in H. split_pairs. inversion H; subst. apply take_shorter in E. lia.
  - bind_in H. split_pairs. apply dec_len_shorter in E. destruct l as [|t r2]; [discriminate|].
    bind_in H. split_pairs. inversion H; subst. apply take_shorter in E0. cbn [length] in *. lia.
Qed.

Lemma dec_scalar_not_oof : forall o vd vs st r, dec_scalar o vd vs st r <> OutOfFuel.
Proof.
  intros o vd vs st r. unfold dec_scalar.
  repeat match goal with
         | |- context [if ?c then _ else _] =>
             match c with
             | (_ =? _) => destruct c
             end
         end; try discriminate; try apply uint_res_not_oof.
  - destruct (dec_uint vs r) as [[a b]| |] eqn:E; cbn [bind]; try discriminate; try apply uint_res_not_oof. exfalso; eapply dec_uint_not_oof; eauto.
  - destruct (dec_uint vs r) as [[a b]| |] eqn:E; cbn [bind]; try discriminate. exfalso; eapply dec_uint_not_oof; eauto.
  - destruct (dec_float vs r) as [[a b]| |] eqn:E; cbn [bind]; try discriminate. exfalso; eapply dec_float_not_oof; eauto.
  - destruct (dec_len vs r) as [[a b]| |] eqn:E; cbn [bind]; try discriminate.
    2:{ exfalso; eapply dec_len_not_oof; eauto. }
    destruct (take a b) as [[a' b']| |] eqn:E'; cbn [bind]; try discriminate. exfalso; eapply take_not_oof; eauto.
  - destruct (dec_len vs r) as [[a b]| |] eqn:E; cbn [bind]; try discriminate.
    2:{ exfalso; eapply dec_len_not_oof; eauto. }
    destruct (take a b) as [[a' b']| |] eqn:E'; cbn [bind]; try discriminate. exfalso; eapply take_not_oof; eauto.
  - destruct (rd_symbol vs st r) as [[[a b] c]| |] eqn:E; cbn [bind]; try discriminate. exfalso; eapply rd_symbol_not_oof; eauto.
  - destruct (take vs r) as [[a b]| |] eqn:E; cbn [bind]; try discriminate.
    2:{ exfalso; eapply take_not_oof; eauto. }
    destruct (dec_time a) as [[a' b']| |] eqn:E'; cbn [bind]; try discriminate. exfalso; eapply dec_time_not_oof; eauto.
  - destruct (dec_len vs r) as [[a b]| |] eqn:E; cbn [bind]; try discriminate.
    2:{ exfalso; eapply dec_len_not_oof; eauto. }
    destruct b as [|t b]; [discriminate|].
    destruct (take a b) as [[a' b']| |] eqn:E'; cbn [bind]; try discriminate. exfalso; eapply take_not_oof; eauto.
Qed.

Lemma skip_scalar_shorter : forall vd vs st r x r' st',
  skip_scalar vd vs st r = Ok (x, r', st') -> (length r' <= length r)%nat.
Proof.
  intros vd vs st r x r' st'. unfold skip_scalar.
  destruct (vd =? vdSpecial). { destruct (vs <=? spNegOne); intros H; inversion H; subst; lia. }
  destruct (vd =? vdSmallInt). { intros H; inversion H; subst; lia. }
  destruct ((vd =? vdPosInt) || (vd =? vdNegInt)).
  { intros H. bind_in H. split_pairs. inversion H; subst. eapply dec_uint_shorter; eauto. }
  destruct (vd =? vdFloat).
  { destruct ((vs mod 8 =? flBin32) || (vs mod 8 =? flBin64)); [|discriminate].
    destruct (vs / 8 =? 0).
    - intros H. bind_in H. split_pairs. inversion H; subst. apply take_shorter in E. lia.
    - destruct r as [|l r1]; [discriminate|]. destruct (8 <? l); [discriminate|].
      intros H. bind_in H. split_pairs. inversion H; subst. apply take_shorter in E. cbn [length]. lia. }
  destruct ((vd =? vdString) || (vd =? vdByteArray)).
  { intros H. bind_in H. split_pairs. bind_in H. split_pairs. inversion H; subst.
    apply fn_len_shorter in E. apply take_shorter in E0. lia. }
  destruct (vd =? vdSymbol).
  { intros H. bind_in H. split_pairs. inversion H; subst. apply rd_symbol_shorter in E. lia. }
  destruct (vd =? vdTimestamp).
  { intros H. bind_in H. split_pairs. inversion H; subst. apply take_shorter in E. lia. }
  destruct (vd =? vdCustomExt); [|discriminate].
  intros H. bind_in H. split_pairs. apply fn_len_shorter in E. destruct l as [|t r2]; [discriminate|].
  bind_in H. split_pairs. inversion H; subst. apply take_shorter in E0. cbn [length] in *. lia.
Qed.

Lemma skip_scalar_not_oof : forall vd vs st r, skip_scalar vd vs st r <> OutOfFuel.
Proof.
  intros vd vs st r. unfold skip_scalar.
  destruct (vd =? vdSpecial). { destruct (vs <=? spNegOne); discriminate. }
  destruct (vd =? vdSmallInt); [discriminate|].
  destruct ((vd =? vdPosInt) || (vd =? vdNegInt)).
  { destruct (dec_uint vs r) as [[a b]| |] eqn:E; cbn [bind]; try discriminate. exfalso; eapply dec_uint_not_oof; eauto. }
  destruct (vd =? vdFloat).
  { destruct ((vs mod 8 =? flBin32) || (vs mod 8 =? flBin64)); [|discriminate].
    destruct (vs / 8 =? 0).
    - destruct (take _ r) as [[a b]| |] eqn:E; cbn [bind]; try discriminate. exfalso; eapply take_not_oof; eauto.
    - destruct r as [|l r1]; [discriminate|]. destruct (8 <? l); [discriminate|].
      destruct (take l r1) as [[a b]| |] eqn:E; cbn [bind]; try discriminate. exfalso; eapply take_not_oof; eauto. }
  destruct ((vd =? vdString) || (vd =? vdByteArray)).
  { destruct (fn_len vs r) as [[a b]| |] eqn:E; cbn [bind]; try discriminate.
    2:{ exfalso; eapply fn_len_not_oof; eauto. }
    destruct (take a b) as [[a' b']| |] eqn:E'; cbn [bind]; try discriminate. exfalso; eapply take_not_oof; eauto. }
  destruct (vd =? vdSymbol).
  { destruct (rd_symbol vs st r) as [[[a b] c]| |] eqn:E; cbn [bind]; try discriminate. exfalso; eapply rd_symbol_not_oof; eauto. }
  destruct (vd =? vdTimestamp).
  { destruct (take vs r) as [[a b]| |] eqn:E; cbn [bind]; try discriminate. exfalso; eapply take_not_oof; eauto. }
  destruct (vd =? vdCustomExt); [|discriminate].
  destruct (fn_len vs r) as [[a b]| |] eqn:E; cbn [bind]; try discriminate.
  2:{ exfalso; eapply fn_len_not_oof; eauto. }
  destruct b as [|t b]; [discriminate|].
  destruct (take a b) as [[a' b']| |] eqn:E'; cbn [bind]; try discriminate. exfalso; eapply take_not_oof; eauto.
Qed.

(* ---------- loops ---------- *)
Lemma loopN_0 : forall A (f : nat -> dstate -> list N -> res (A * list N * dstate)) g st inp,
  loopN f g 0 st inp = Ok ([], inp, st).
Proof. intros. destruct g; reflexivity. Qed.

Lemma loopN_S : forall A (f : nat -> dstate -> list N -> res (A * list N * dstate)) g m st inp,
  m <> 0 ->
  loopN f (S g) m st inp =
    (do (x, inp1, st1) <- f g st inp ;;
     do (xs, inp2, st2) <- loopN f g (m - 1) st1 inp1 ;;
     Ok (x :: xs, inp2, st2)).
Proof. intros. cbn [loopN]. replace (m =? 0) with false by lia. reflexivity. Qed.

Lemma loopN_shorter : forall A (f : nat -> dstate -> list N -> res (A * list N * dstate)),
  (forall g st inp x r st', f g st inp = Ok (x, r, st') -> (length r < length inp)%nat) ->
  forall g m st inp xs r st', loopN f g m st inp = Ok (xs, r, st') -> (length r <= length inp)%nat.
Proof.
  intros A f Hf. induction g as [|g IH]; intros m st inp xs r st' H.
  - cbn [loopN] in H. destruct (m =? 0); [|discriminate]. inversion H; subst; lia.
  - cbn [loopN] in H. destruct (m =? 0). { inversion H; subst; lia. }
    bind_in H. split_pairs. bind_in H. split_pairs. inversion H; subst.
    apply Hf in E. apply IH in E0. lia.
Qed.

Lemma loopN_not_oof : forall A (f : nat -> dstate -> list N -> res (A * list N * dstate)),
  (forall g st inp x r st', f g st inp = Ok (x, r, st') -> (length r < length inp)%nat) ->
  (forall g st inp, (2 * length inp + 1 <= g)%nat -> f g st inp <> OutOfFuel) ->
  forall g m st inp, (2 * length inp + 2 <= g)%nat -> loopN f g m st inp <> OutOfFuel.
Proof.
  intros A f Hf Hn. induction g as [|g IH]; intros m st inp Hg.
  - lia.
  - cbn [loopN]. destruct (m =? 0); [discriminate|].
    destruct (f g st inp) as [[[x r1] st1]| |] eqn:E; cbn [bind]; try discriminate.
    2:{ exfalso. eapply Hn; [|exact E]. lia. }
    apply Hf in E.
    destruct (loopN f g (m - 1) st1 r1) as [[[xs r2] st2]| |] eqn:E2; cbn [bind]; try discriminate.
    exfalso. eapply IH; [|exact E2]. lia.
Qed.

Lemma loopM_shorter : forall (d : nat -> dstate -> list N -> res (item * list N * dstate)),
  (forall g st inp x r st', d g st inp = Ok (x, r, st') -> (length r < length inp)%nat) ->
  forall g m seen st inp xs r st', loopM d g m seen st inp = Ok (xs, r, st') -> (length r <= length inp)%nat.
Proof.
  intros d Hf. induction g as [|g IH]; intros m seen st inp xs r st' H.
  - cbn [loopM] in H. destruct (m =? 0); [|discriminate]. inversion H; subst; lia.
  - cbn [loopM] in H. destruct (m =? 0). { inversion H; subst; lia. }
    bind_in H. split_pairs. destruct l as [|b0 l]; [discriminate|].
    destruct (unhashable i); [discriminate|].
    destruct (existsb _ seen); [discriminate|].
    bind_in H. split_pairs. bind_in H. split_pairs. inversion H; subst.
    apply Hf in E. apply Hf in E0. apply IH in E1. lia.
Qed.

Lemma loopM_not_oof : forall (d : nat -> dstate -> list N -> res (item * list N * dstate)),
  (forall g st inp x r st', d g st inp = Ok (x, r, st') -> (length r < length inp)%nat) ->
  (forall g st inp, (2 * length inp + 1 <= g)%nat -> d g st inp <> OutOfFuel) ->
  forall g m seen st inp, (2 * length inp + 2 <= g)%nat -> loopM d g m seen st inp <> OutOfFuel.
Proof.
  intros d Hf Hn. induction g as [|g IH]; intros m seen st inp Hg.
  - lia.
  - cbn [loopM]. destruct (m =? 0); [discriminate|].
    destruct (d g st inp) as [[[x r1] st1]| |] eqn:E; cbn [bind]; try discriminate.
    2:{ exfalso. eapply Hn; [|exact E]. lia. }
    apply Hf in E. destruct r1 as [|b0 r1]; [discriminate|].
    destruct (unhashable x); [discriminate|].
    destruct (existsb _ seen); [discriminate|].
    destruct (d g st1 (b0 :: r1)) as [[[v r2] st2]| |] eqn:E1; cbn [bind]; try discriminate.
    2:{ exfalso. eapply Hn; [|exact E1]. lia. }
    apply Hf in E1.
    destruct (loopM d g (m - 1) _ st2 r2) as [[[xs r3] st3]| |] eqn:E2; cbn [bind]; try discriminate.
    exfalso. eapply IH; [|exact E2]. lia.
Qed.

(* ---------- progress and totality of dec / skip ---------- *)
Lemma dec_progress : forall rf o lf dep st inp x r st',
  dec o rf lf dep st inp = Ok (x, r, st') -> (length r < length inp)%nat.
Proof.
  induction rf as [|rf IH]; intros o lf dep st inp x r st' H; [discriminate|].
  cbn [dec] in H. destruct inp as [|bd t]; [discriminate|]. cbv zeta in H.
  destruct (bd / 16 =? vdArray).
  { bind_in H. split_pairs. apply dec_len_shorter in E.
    destruct (maxdepth o <=? dep + 1); [discriminate|].
    bind_in H. split_pairs. inversion H; subst.
    apply loopN_shorter in E0; [cbn [length]; lia|]. intros. eapply IH; eauto. }
  destruct (bd / 16 =? vdMap).
  { bind_in H. split_pairs. apply dec_len_shorter in E.
    destruct (maxdepth o <=? dep + 1); [discriminate|].
    bind_in H. split_pairs. inversion H; subst.
    apply loopM_shorter in E0; [cbn [length]; lia|]. intros. eapply IH; eauto. }
  apply dec_scalar_shorter in H. cbn [length]. lia.
Qed.

Lemma dec_not_oof : forall rf o lf dep st inp,
  (1 <= rf)%nat -> maxdepth o <= N.of_nat rf + dep -> (2 * length inp + 1 <= lf)%nat ->
  dec o rf lf dep st inp <> OutOfFuel.
Proof.
  induction rf as [|rf IH]; intros o lf dep st inp H1 Hm Hl; [lia|].
  cbn [dec]. destruct inp as [|bd t]; [discriminate|]. cbv zeta. cbn [length] in Hl.
  destruct (bd / 16 =? vdArray).
  { destruct (dec_len (bd mod 16) t) as [[n r1]| |] eqn:E; cbn [bind]; try discriminate.
    2:{ exfalso; eapply dec_len_not_oof; eauto. }
    apply dec_len_shorter in E.
    destruct (maxdepth o <=? dep + 1) eqn:Ed; [discriminate|].
    match goal with |- context [loopN ?f ?g ?m ?s ?i] => destruct (loopN f g m s i) as [[[xs r2] st2]| |] eqn:E2 end;
      cbn [bind]; try discriminate.
    exfalso. eapply loopN_not_oof; [| | |exact E2].
    - intros g st0 inp0 x r st' H0. cbv beta in H0. eapply dec_progress; exact H0.
    - intros g st0 inp0 Hg. cbv beta. apply IH; lia.
    - lia. }
  destruct (bd / 16 =? vdMap).
  { destruct (dec_len (bd mod 16) t) as [[n r1]| |] eqn:E; cbn [bind]; try discriminate.
    2:{ exfalso; eapply dec_len_not_oof; eauto. }
    apply dec_len_shorter in E.
    destruct (maxdepth o <=? dep + 1) eqn:Ed; [discriminate|].
    match goal with |- context [loopM ?f ?g ?m ?sn ?s ?i] => destruct (loopM f g m sn s i) as [[[xs r2] st2]| |] eqn:E2 end;
      cbn [bind]; try discriminate.
    exfalso. eapply loopM_not_oof; [| | |exact E2].
    - intros g st0 inp0 x r st' H0. cbv beta in H0. eapply dec_progress; exact H0.
    - intros g st0 inp0 Hg. cbv beta. apply IH; lia.
    - lia. }
  apply dec_scalar_not_oof.
Qed.

Lemma skip_entry_progress : forall (d : dstate -> list N -> res (unit * list N * dstate)),
  (forall st inp x r st', d st inp = Ok (x, r, st') -> (length r < length inp)%nat) ->
  forall st inp x r st', skip_entry d st inp = Ok (x, r, st') -> (length r < length inp)%nat.
Proof.
  intros d Hd st inp x r st' H. unfold skip_entry in H. bind_in H. split_pairs.
  apply Hd in E. apply Hd in H. lia.
Qed.

Lemma skip_progress : forall rf o lf dep st inp x r st',
  skip o rf lf dep st inp = Ok (x, r, st') -> (length r < length inp)%nat.
Proof.
  induction rf as [|rf IH]; intros o lf dep st inp x r st' H; [discriminate|].
  cbn [skip] in H. destruct inp as [|bd t]; [discriminate|]. cbv zeta in H.
  destruct (bd / 16 =? vdArray).
  { bind_in H. split_pairs. apply fn_len_shorter in E.
    destruct (maxdepth o <=? dep + 1); [discriminate|].
    bind_in H. split_pairs. inversion H; subst.
    apply loopN_shorter in E0; [cbn [length]; lia|]. intros. eapply IH; eauto. }
  destruct (bd / 16 =? vdMap).
  { bind_in H. split_pairs. apply fn_len_shorter in E.
    destruct (maxdepth o <=? dep + 1); [discriminate|].
    bind_in H. split_pairs. inversion H; subst.
    apply loopN_shorter in E0; [cbn [length]; lia|].
    intros g st0 inp0 x0 r0 st0' H0. eapply skip_entry_progress; [|exact H0]. intros. eapply IH; eauto. }
  apply skip_scalar_shorter in H. cbn [length]. lia.
Qed.

Lemma skip_not_oof : forall rf o lf dep st inp,
  (1 <= rf)%nat -> maxdepth o <= N.of_nat rf + dep -> (2 * length inp + 1 <= lf)%nat ->
  skip o rf lf dep st inp <> OutOfFuel.
Proof.
  induction rf as [|rf IH]; intros o lf dep st inp H1 Hm Hl; [lia|].
  cbn [skip]. destruct inp as [|bd t]; [discriminate|]. cbv zeta. cbn [length] in Hl.
  destruct (bd / 16 =? vdArray).
  { destruct (fn_len (bd mod 16) t) as [[n r1]| |] eqn:E; cbn [bind]; try discriminate.
    2:{ exfalso; eapply fn_len_not_oof; eauto. }
    apply fn_len_shorter in E.
    destruct (maxdepth o <=? dep + 1) eqn:Ed; [discriminate|].
    match goal with |- context [loopN ?f ?g ?m ?s ?i] => destruct (loopN f g m s i) as [[[xs r2] st2]| |] eqn:E2 end;
      cbn [bind]; try discriminate.
    exfalso. eapply loopN_not_oof; [| | |exact E2].
    - intros g st0 inp0 x r st' H0. cbv beta in H0. eapply skip_progress; exact H0.
    - intros g st0 inp0 Hg. cbv beta. apply IH; lia.
    - lia. }
  destruct (bd / 16 =? vdMap).
  { destruct (fn_len (bd mod 16) t) as [[n r1]| |] eqn:E; cbn [bind]; try discriminate.
    2:{ exfalso; eapply fn_len_not_oof; eauto. }
    apply fn_len_shorter in E.
    destruct (maxdepth o <=? dep + 1) eqn:Ed; [discriminate|].
    match goal with |- context [loopN ?f ?g ?m ?s ?i] => destruct (loopN f g m s i) as [[[xs r2] st2]| |] eqn:E2 end;
      cbn [bind]; try discriminate.
    exfalso. eapply loopN_not_oof; [| | |exact E2].
    - intros g st0 inp0 x r st' H0. cbv beta in H0. eapply skip_entry_progress; [|exact H0]. intros. eapply skip_progress; eauto.
    - intros g st0 inp0 Hg. cbv beta. unfold skip_entry.
      destruct (skip o rf g (dep + 1) st0 inp0) as [[[u r3] st3]| |] eqn:E3; cbn [bind]; try discriminate.
      + apply skip_progress in E3. apply IH; lia.
      + exfalso. eapply IH; [| | |exact E3]; lia.
    - lia. }
  apply skip_scalar_not_oof.
Qed.

(* the entry points: fuel linear in the input, recursion fuel = MaxDepth *)
Lemma dec_naked_total : forall o st inp, 1 <= maxdepth o -> dec_naked o st inp <> OutOfFuel.
Proof.
  intros. unfold dec_naked, fuel_r, fuel_l. apply dec_not_oof; lia.
Qed.
Lemma skip_value_total : forall o st inp, 1 <= maxdepth o -> skip_value o st inp <> OutOfFuel.
Proof.
  intros. unfold skip_value, fuel_r, fuel_l. apply skip_not_oof; lia.
Qed.

(* ================= round trip ================= *)

(* the nested loops of enc / wfb as named functions (convertible with the inner fixes) *)
Definition enc_list (o : eopts) := fix go (l : list item) (st : estate) : list N * estate :=
  match l with
  | [] => ([], st)
  | x :: r => let '(b1, s1) := enc o false x st in
              let '(b2, s2) := go r s1 in (b1 ++ b2, s2)
  end.
Definition enc_pairs (o : eopts) := fix go (l : list (item * item)) (st : estate) : list N * estate :=
  match l with
  | [] => ([], st)
  | (k, v) :: r => let '(b1, s1) := enc o true k st in
                   let '(b2, s2) := enc o false v s1 in
                   let '(b3, s3) := go r s2 in (b1 ++ b2 ++ b3, s3)
  end.
Definition wfb_list (e : eopts) (d : dopts) := fix go (l : list item) : Prop :=
  match l with [] => True | x :: r => wfb e d x /\ go r end.
Definition wfb_pairs (e : eopts) (d : dopts) := fix go (l : list (item * item)) : Prop :=
  match l with
  | [] => True
  | (k, v) :: r => wfb e d k /\ unhashable k = false /\ wfb e d v /\ go r
  end.

Lemma enc_arr_eq : forall o key l st,
  enc o key (IArr l) st = let '(bs, st') := enc_list o l st in (enc_len vdArray (len l) ++ bs, st').
Proof. reflexivity. Qed.
Lemma enc_map_eq : forall o key l st,
  enc o key (IMap l) st = let '(bs, st') := enc_pairs o l st in (enc_len vdMap (len l) ++ bs, st').
Proof. reflexivity. Qed.
Lemma wfb_arr_eq : forall e d l, wfb e d (IArr l) = (lenok l /\ wfb_list e d l).
Proof. reflexivity. Qed.
Lemma wfb_map_eq : forall e d l,
  wfb e d (IMap l) = (lenok l /\ nodup_seen [] (map (fun kv => key_norm (norm e d (fst kv))) l) = true /\ wfb_pairs e d l).
Proof. reflexivity. Qed.

Definition dec_enc_P (i : item) : Prop :=
  forall e d key est dst rest dep rf lf,
    wfb e d i -> R est dst ->
    N.of_nat (depth i) + dep < maxdepth d ->
    (depth i < rf)%nat ->
    (2 * length (fst (enc e key i est) ++ rest) + 1 <= lf)%nat ->
    exists dst',
      dec d rf lf dep dst (fst (enc e key i est) ++ rest) = Ok (norm e d i, rest, dst')
      /\ R (snd (enc e key i est)) dst'.

Lemma scalar_case : forall (i : item) e d key est dst rest dep rf lf,
  (depth i < rf)%nat -> R est dst ->
  snd (enc e key i est) = est ->
  (forall rf', dec d (S rf') lf dep dst (fst (enc e key i est) ++ rest) = Ok (norm e d i, rest, dst)) ->
  exists dst',
    dec d rf lf dep dst (fst (enc e key i est) ++ rest) = Ok (norm e d i, rest, dst')
    /\ R (snd (enc e key i est)) dst'.
Proof.
  intros i e d key est dst rest dep rf lf Hrf HR Hs Hd. destruct rf as [|rf']; [lia|].
  exists dst. rewrite Hs. split; [apply Hd|assumption].
Qed.

Lemma norm_unhashable : forall e d k, unhashable k = false -> unhashable (norm e d k) = false.
Proof.
  intros e d k H. destruct k; cbn [norm unhashable] in *; try discriminate; try reflexivity.
  - destruct (0 <=? z)%Z; [unfold norm_uint; destruct (signedInt d)|]; reflexivity.
  - unfold norm_uint; destruct (signedInt d); reflexivity.
  - unfold norm_f64. destruct (f64_is_zero _); reflexivity.
  - unfold norm_f64. destruct (f64_is_zero _); reflexivity.
  - destruct (stringToRaw e); [destruct (rawToString d)|]; reflexivity.
  - destruct (rawToString d); reflexivity.
  - match goal with |- context [if ?c then _ else _] => destruct c end; reflexivity.
Qed.

Lemma depth_arr_in : forall l x, In x l -> (depth x < depth (IArr l))%nat.
Proof.
  intros l x Hin. cbn [depth]. induction l as [|y r IH]; [contradiction|].
  cbn [fold_right]. destruct Hin as [->|Hin]; [lia|]. specialize (IH Hin). lia.
Qed.

Lemma depth_arr_cons : forall x r, (depth (IArr r) <= depth (IArr (x :: r)))%nat /\ (depth x < depth (IArr (x :: r)))%nat.
Proof. intros. cbn [depth fold_right]. lia. Qed.

Lemma depth_map_cons : forall k v r,
  (depth (IMap r) <= depth (IMap ((k, v) :: r)))%nat /\ (depth k < depth (IMap ((k, v) :: r)))%nat
  /\ (depth v < depth (IMap ((k, v) :: r)))%nat.
Proof. intros. cbn [depth fold_right fst snd]. lia. Qed.

(* the array loop over an encoded list *)
Lemma loop_arr : forall l, Forall dec_enc_P l ->
  forall e d est dst rest dep rf g,
    wfb_list e d l -> R est dst ->
    (forall x, In x l -> N.of_nat (depth x) + dep < maxdepth d /\ (depth x < rf)%nat) ->
    (2 * length (fst (enc_list e l est) ++ rest) + 2 <= g)%nat ->
    exists dst',
      loopN (fun g' st inp => dec d rf g' dep st inp) g (len l) dst (fst (enc_list e l est) ++ rest)
      = Ok (map (norm e d) l, rest, dst')
      /\ R (snd (enc_list e l est)) dst'.
Proof.
  induction l as [|x r IHl]; intros HP e d est dst rest dep rf g Hwf HR Hdep Hg.
  - exists dst. cbn [enc_list fst snd app map]. rewrite len_nil, loopN_0. auto.
  - inversion HP as [|? ? Px Pr]; subst. destruct Hwf as [Hwx Hwr].
    cbn [enc_list] in *.
    destruct (enc e false x est) as [b1 s1] eqn:Ex.
    destruct (enc_list e r s1) as [b2 s2] eqn:Er. cbn [fst snd] in *.
    destruct g as [|g]; [lia|].
    rewrite loopN_S by (rewrite len_cons; lia).
    destruct (Hdep x (or_introl eq_refl)) as [Hdx Hrx].
    rewrite <- app_assoc in *.
    destruct (Px e d false est dst (b2 ++ rest) dep rf g Hwx HR Hdx Hrx) as (dst1 & Hd1 & HR1).
    { rewrite Ex. cbn [fst]. lia. }
    rewrite Ex in Hd1, HR1. cbn [fst snd] in Hd1, HR1.
    rewrite Hd1. cbn [bind].
    assert (Hne : (length (b2 ++ rest) < length (b1 ++ b2 ++ rest))%nat) by (eapply dec_progress; exact Hd1).
    replace (len (x :: r) - 1) with (len r) by (rewrite len_cons; lia).
    destruct (IHl Pr e d s1 dst1 rest dep rf g Hwr HR1) as (dst2 & Hd2 & HR2).
    { intros y Hy. apply Hdep. right. assumption. }
    { rewrite Er. cbn [fst]. lia. }
    rewrite Er in Hd2, HR2. cbn [fst snd] in Hd2, HR2.
    rewrite Hd2. cbn [bind map]. exists dst2. auto.
Qed.

Lemma loop_map : forall l, Forall (fun kv => dec_enc_P (fst kv) /\ dec_enc_P (snd kv)) l ->
  forall e d est dst rest dep rf g seen,
    wfb_pairs e d l -> R est dst ->
    nodup_seen seen (map (fun kv => key_norm (norm e d (fst kv))) l) = true ->
    (forall kv, In kv l -> N.of_nat (depth (fst kv)) + dep < maxdepth d /\ (depth (fst kv) < rf)%nat
                           /\ N.of_nat (depth (snd kv)) + dep < maxdepth d /\ (depth (snd kv) < rf)%nat) ->
    (2 * length (fst (enc_pairs e l est) ++ rest) + 2 <= g)%nat ->
    exists dst',
      loopM (fun g' st inp => dec d rf g' dep st inp) g (len l) seen dst (fst (enc_pairs e l est) ++ rest)
      = Ok (map (fun kv => (key_norm (norm e d (fst kv)), norm e d (snd kv))) l, rest, dst')
      /\ R (snd (enc_pairs e l est)) dst'.
Proof.
  induction l as [|[k v] r IHl]; intros HP e d est dst rest dep rf g seen Hwf HR Hnd Hdep Hg.
  - exists dst. cbn [enc_pairs fst snd app map]. rewrite len_nil. destruct g; cbn [loopM N.eqb]; auto.
  - inversion HP as [|? ? [Pk Pv] Pr]; subst. cbn [fst snd] in Pk, Pv.
    destruct Hwf as (Hwk & Huk & Hwv & Hwr).
    cbn [enc_pairs] in *.
    destruct (enc e true k est) as [b1 s1] eqn:Ek.
    destruct (enc e false v s1) as [b2 s2] eqn:Ev.
    destruct (enc_pairs e r s2) as [b3 s3] eqn:Er. cbn [fst snd] in *.
    destruct g as [|g]; [lia|].
    cbn [loopM]. replace (len ((k, v) :: r) =? 0) with false by (rewrite len_cons; lia).
    destruct (Hdep (k, v) (or_introl eq_refl)) as (Hdk & Hrk & Hdv & Hrv). cbn [fst snd] in *.
    rewrite <- !app_assoc in *.
    destruct (Pk e d true est dst (b2 ++ b3 ++ rest) dep rf g Hwk HR Hdk Hrk) as (dst1 & Hd1 & HR1).
    { rewrite Ek. cbn [fst]. lia. }
    rewrite Ek in Hd1, HR1. cbn [fst snd] in Hd1, HR1.
    rewrite Hd1. cbn [bind].
    assert (Hne1 : (length (b2 ++ b3 ++ rest) < length (b1 ++ b2 ++ b3 ++ rest))%nat) by (eapply dec_progress; exact Hd1).
    destruct (Pv e d false s1 dst1 (b3 ++ rest) dep rf g Hwv HR1 Hdv Hrv) as (dst2 & Hd2 & HR2).
    { rewrite Ev. cbn [fst]. lia. }
    rewrite Ev in Hd2, HR2. cbn [fst snd] in Hd2, HR2.
    assert (Hne2 : (length (b3 ++ rest) < length (b2 ++ b3 ++ rest))%nat) by (eapply dec_progress; exact Hd2).
    destruct (b2 ++ b3 ++ rest) as [|c0 t0] eqn:Eb; [cbn [length] in Hne2; lia|].
    rewrite (norm_unhashable e d k Huk).
    cbn [map nodup_seen fst] in Hnd. apply andb_true_iff in Hnd. destruct Hnd as [Hn1 Hn2].
    apply negb_true_iff in Hn1. rewrite Hn1.
    rewrite Hd2. cbn [bind].
    replace (len ((k, v) :: r) - 1) with (len r) by (rewrite len_cons; lia).
    destruct (IHl Pr e d s2 dst2 rest dep rf g (key_norm (norm e d k) :: seen) Hwr HR2 Hn2) as (dst3 & Hd3 & HR3).
    { intros kv Hkv. apply Hdep. right. assumption. }
    { rewrite Er. cbn [fst]. cbn [length] in *. lia. }
    rewrite Er in Hd3, HR3. cbn [fst snd] in Hd3, HR3.
    rewrite Hd3. cbn [bind map fst snd]. exists dst3. auto.
Qed.

Lemma dec_enc_all : forall i, dec_enc_P i.
Proof.
  induction i using item_ind'; unfold dec_enc_P;
    intros e d key est dst rest dep rf lf Hwf HR Hdep Hrf Hlf.
  - (* INil *) apply scalar_case; [exact Hrf|exact HR|reflexivity|intros rf']. cbn [enc fst app].
    rewrite dec_scalar_bd by (consts; lia). scal. reflexivity.
  - (* IBool *) apply scalar_case; [exact Hrf|exact HR|reflexivity|intros rf']. cbn [enc fst app norm].
    destruct b; rewrite dec_scalar_bd by (consts; lia); scal; reflexivity.
  - (* IInt *) apply scalar_case; [exact Hrf|exact HR|reflexivity|intros rf']. cbn [enc fst norm]. apply enc_int_dec. exact Hwf.
  - (* IUint *) apply scalar_case; [exact Hrf|exact HR|reflexivity|intros rf']. cbn [enc fst norm].
    change vdPosInt with (if true then vdPosInt else vdNegInt).
    destruct Hwf as [Hw1 Hw2].
    rewrite (enc_uint_dec d rf' lf dep dst rest 1 true) by auto. reflexivity.
  - (* IF32 *) apply scalar_case; [exact Hrf|exact HR|reflexivity|intros rf']. cbn [enc fst norm]. apply enc_f32_dec. exact Hwf.
  - (* IF64 *) apply scalar_case; [exact Hrf|exact HR|reflexivity|intros rf']. cbn [enc fst norm]. apply enc_f64_dec. exact Hwf.
  - (* IStr *) destruct rf as [|rf']; [cbn [depth] in Hrf; lia|]. cbn [enc]. apply enc_str_dec; auto.
  - (* IBytes *) apply scalar_case; [exact Hrf|exact HR|reflexivity|intros rf']. cbn [enc fst norm]. consts.
    rewrite (enc_lenstr_dec d rf' lf dep dst rest 5 b) by (auto; exact Hwf). reflexivity.
  - (* IArr *)
    rewrite wfb_arr_eq in Hwf. destruct Hwf as [Hlen Hwl].
    rewrite enc_arr_eq in *. destruct (enc_list e l est) as [bs st'] eqn:El. cbn [fst snd] in *.
    destruct rf as [|rf']; [lia|].
    unfold lenok in Hlen.
    destruct (enc_len_spec vdArray (len l) Hlen) as (vs & tl & Htl & Hvs & Hfn).
    rewrite Htl in *. cbn [app] in *. cbn [dec]. rewrite mkbd_div, mkbd_mod by assumption.
    consts. cbn [N.eqb Pos.eqb]. rewrite <- app_assoc in *.
    rewrite (dec_len_fn _ _ _ _ (Hfn _) Hlen). cbn [bind].
    assert (Hd1 : (1 <= depth (IArr l))%nat) by (cbn [depth]; lia).
    replace (maxdepth d <=? dep + 1) with false by lia.
    destruct (loop_arr l H e d est dst rest (dep + 1) rf' lf) as (dst' & Hl & HR').
    + exact Hwl.
    + exact HR.
    + intros x Hx. pose proof (depth_arr_in l x Hx). lia.
    + rewrite El. cbn [fst]. cbn [length] in Hlf. rewrite !app_length in *. lia.
    + rewrite El in Hl, HR'. cbn [fst snd] in Hl, HR'. rewrite Hl. cbn [bind norm]. exists dst'. auto.
  - (* IMap *)
    rewrite wfb_map_eq in Hwf. destruct Hwf as (Hlen & Hnd & Hwl).
    rewrite enc_map_eq in *. destruct (enc_pairs e l est) as [bs st'] eqn:El. cbn [fst snd] in *.
    destruct rf as [|rf']; [lia|].
    unfold lenok in Hlen.
    destruct (enc_len_spec vdMap (len l) Hlen) as (vs & tl & Htl & Hvs & Hfn).
    rewrite Htl in *. cbn [app] in *. cbn [dec]. rewrite mkbd_div, mkbd_mod by assumption.
    consts. cbn [N.eqb Pos.eqb]. rewrite <- app_assoc in *.
    rewrite (dec_len_fn _ _ _ _ (Hfn _) Hlen). cbn [bind].
    assert (Hd1 : (1 <= depth (IMap l))%nat) by (cbn [depth]; lia).
    replace (maxdepth d <=? dep + 1) with false by lia.
    destruct (loop_map l H e d est dst rest (dep + 1) rf' lf []) as (dst' & Hl & HR').
    + exact Hwl.
    + exact HR.
    + exact Hnd.
    + intros kv Hkv.
      assert (Hk : (depth (fst kv) < depth (IMap l))%nat /\ (depth (snd kv) < depth (IMap l))%nat).
      { clear - Hkv. cbn [depth]. induction l as [|y r IH]; [contradiction|]. cbn [fold_right].
        destruct Hkv as [->|Hkv]; [lia|]. specialize (IH Hkv). lia. }
      lia.
    + rewrite El. cbn [fst]. cbn [length] in Hlf. rewrite !app_length in *. lia.
    + rewrite El in Hl, HR'. cbn [fst snd] in Hl, HR'. rewrite Hl. cbn [bind norm]. exists dst'. auto.
  - (* ITag *) cbn [wfb] in Hwf. contradiction.
  - (* IExt *) apply scalar_case; [exact Hrf|exact HR|reflexivity|intros rf']. cbn [enc fst norm]. apply enc_ext_dec. apply Hwf.
  - (* ITime *) apply scalar_case; [exact Hrf|exact HR|reflexivity|intros rf']. cbn [enc fst norm]. apply enc_time_dec; apply Hwf.
Qed.

(* ================= skip agrees with decode ================= *)

Lemma dec_len_fn_inv : forall vs inp l r, dec_len vs inp = Ok (l, r) -> fn_len vs inp = Ok (l, r).
Proof.
  intros vs inp l r. unfold dec_len. destruct (fn_len vs inp) as [[a b]| |]; cbn [bind]; try discriminate.
  destruct (2 ^ 63 <=? a); [discriminate|]. auto.
Qed.

Lemma skip_scalar_agrees : forall o vd vs st r x r' st',
  dec_scalar o vd vs st r = Ok (x, r', st') -> skip_scalar vd vs st r = Ok (tt, r', st').
Proof.
  intros o vd vs st r x r' st'. unfold dec_scalar, skip_scalar. consts.
  destruct (vd =? 0) eqn:E0.
  { destruct (vs =? 0) eqn:?; [intros H; inversion H; subst; replace (vs <=? 8) with true by lia; reflexivity|].
    destruct (vs =? 1) eqn:?; [intros H; inversion H; subst; replace (vs <=? 8) with true by lia; reflexivity|].
    destruct (vs =? 2) eqn:?; [intros H; inversion H; subst; replace (vs <=? 8) with true by lia; reflexivity|].
    destruct (vs =? 3) eqn:?; [intros H; inversion H; subst; replace (vs <=? 8) with true by lia; reflexivity|].
    destruct (vs =? 4) eqn:?; [intros H; inversion H; subst; replace (vs <=? 8) with true by lia; reflexivity|].
    destruct (vs =? 5) eqn:?; [intros H; inversion H; subst; replace (vs <=? 8) with true by lia; reflexivity|].
    destruct (vs =? 6) eqn:?; [intros H; inversion H; subst; replace (vs <=? 8) with true by lia; reflexivity|].
    destruct (vs =? 7) eqn:?; [intros H; apply uint_res_inv in H; destruct H as (-> & -> & _); replace (vs <=? 8) with true by lia; reflexivity|].
    destruct (vs =? 8) eqn:?; [intros H; inversion H; subst; replace (vs <=? 8) with true by lia; reflexivity|].
    discriminate. }
  destruct (vd =? 9) eqn:E9. { intros H; apply uint_res_inv in H; destruct H as (-> & -> & _); reflexivity. }
  destruct (vd =? 1) eqn:E1.
  { cbn [orb]. intros H. bind_in H. split_pairs. apply uint_res_inv in H; destruct H as (-> & -> & _). reflexivity. }
  destruct (vd =? 2) eqn:E2.
  { cbn [orb]. intros H. bind_in H. split_pairs. inversion H; subst. reflexivity. }
  cbn [orb].
  destruct (vd =? 3) eqn:E3.
  { intros H. bind_in H. split_pairs. inversion H; subst. clear H.
    unfold dec_float in E. consts.
    destruct (vs mod 8 =? 1) eqn:Ea.
    - cbn [orb]. bind_in E. split_pairs. inversion E; subst. clear E. unfold dec_float_bytes in E4.
      destruct (vs / 8 =? 0).
      + change (N.of_nat 4) with 4 in E4. rewrite E4. reflexivity.
      + destruct r as [|l0 t0]; [discriminate|]. destruct (N.of_nat 4 <? l0) eqn:El; [discriminate|].
        bind_in E4. split_pairs. inversion E4; subst. replace (8 <? l0) with false by lia. reflexivity.
    - destruct (vs mod 8 =? 3) eqn:Eb; [|discriminate]. cbn [orb].
      bind_in E. split_pairs. inversion E; subst. clear E. unfold dec_float_bytes in E4.
      destruct (vs / 8 =? 0).
      + change (N.of_nat 8) with 8 in E4. rewrite E4. reflexivity.
      + destruct r as [|l0 t0]; [discriminate|]. destruct (N.of_nat 8 <? l0) eqn:El; [discriminate|].
        bind_in E4. split_pairs. inversion E4; subst. replace (8 <? l0) with false by lia. reflexivity. }
  destruct (vd =? 4) eqn:E4.
  { cbn [orb]. intros H. bind_in H. split_pairs. bind_in H. split_pairs. inversion H; subst.
    rewrite (dec_len_fn_inv _ _ _ _ E). cbn [bind]. rewrite E5. reflexivity. }
  destruct (vd =? 5) eqn:E5.
  { cbn [orb]. intros H. bind_in H. split_pairs. bind_in H. split_pairs. inversion H; subst.
    rewrite (dec_len_fn_inv _ _ _ _ E). cbn [bind]. rewrite E6. reflexivity. }
  cbn [orb].
  destruct (vd =? 11) eqn:E11.
  { intros H. bind_in H. split_pairs. inversion H; subst. reflexivity. }
  destruct (vd =? 8) eqn:E8.
  { intros H. bind_in H. split_pairs. bind_in H. split_pairs. inversion H; subst. reflexivity. }
  destruct (vd =? 15) eqn:E15; [|discriminate].
  intros H. bind_in H. split_pairs. rewrite (dec_len_fn_inv _ _ _ _ E). cbn [bind].
  destruct l as [|t0 r2]; [discriminate|]. bind_in H. split_pairs. inversion H; subst. reflexivity.
Qed.

Lemma loopN_agrees : forall A (f : nat -> dstate -> list N -> res (A * list N * dstate))
    (f' : nat -> dstate -> list N -> res (unit * list N * dstate)),
  (forall g st inp x r st', f g st inp = Ok (x, r, st') -> f' g st inp = Ok (tt, r, st')) ->
  forall g m st inp xs r st', loopN f g m st inp = Ok (xs, r, st') ->
    exists us, loopN f' g m st inp = Ok (us, r, st').
Proof.
  intros A f f' Hf. induction g as [|g IH]; intros m st inp xs r st' H.
  - cbn [loopN] in *. destruct (m =? 0); [|discriminate]. inversion H; subst. eauto.
  - cbn [loopN] in *. destruct (m =? 0). { inversion H; subst. eauto. }
    bind_in H. split_pairs. bind_in H. split_pairs. inversion H; subst.
    rewrite (Hf _ _ _ _ _ _ E). cbn [bind]. destruct (IH _ _ _ _ _ _ E0) as [us Hus]. rewrite Hus. cbn [bind]. eauto.
Qed.

Lemma loopM_agrees : forall (d : nat -> dstate -> list N -> res (item * list N * dstate))
    (d' : nat -> dstate -> list N -> res (unit * list N * dstate)),
  (forall g st inp x r st', d g st inp = Ok (x, r, st') -> d' g st inp = Ok (tt, r, st')) ->
  forall g m seen st inp xs r st', loopM d g m seen st inp = Ok (xs, r, st') ->
    exists us, loopN (fun g' st inp => skip_entry (d' g') st inp) g m st inp = Ok (us, r, st').
Proof.
  intros d d' Hf. induction g as [|g IH]; intros m seen st inp xs r st' H.
  - cbn [loopM loopN] in *. destruct (m =? 0); [|discriminate]. inversion H; subst. eauto.
  - cbn [loopM loopN] in *. destruct (m =? 0). { inversion H; subst. eauto. }
    bind_in H. split_pairs. destruct l as [|b0 l]; [discriminate|].
    destruct (unhashable i); [discriminate|]. destruct (existsb _ seen); [discriminate|].
    bind_in H. split_pairs. bind_in H. split_pairs. inversion H; subst.
    unfold skip_entry at 1. rewrite (Hf _ _ _ _ _ _ E). cbn [bind]. rewrite (Hf _ _ _ _ _ _ E0). cbn [bind].
    destruct (IH _ _ _ _ _ _ _ E1) as [us Hus]. rewrite Hus. cbn [bind]. eauto.
Qed.

(* for EVERY input: where Decode succeeds, the walker succeeds, stops at the same
   offset and leaves the same symbol table *)
Lemma skip_agrees : forall rf o lf dep st inp x r st',
  dec o rf lf dep st inp = Ok (x, r, st') -> skip o rf lf dep st inp = Ok (tt, r, st').
Proof.
  induction rf as [|rf IH]; intros o lf dep st inp x r st' H; [discriminate|].
  cbn [dec skip] in *. destruct inp as [|bd t]; [discriminate|]. cbv zeta in *.
  destruct (bd / 16 =? vdArray).
  { bind_in H. split_pairs. rewrite (dec_len_fn_inv _ _ _ _ E). cbn [bind].
    destruct (maxdepth o <=? dep + 1); [discriminate|].
    bind_in H. split_pairs. inversion H; subst.
    destruct (loopN_agrees _ _ (fun g' st inp => skip o rf g' (dep + 1) st inp) (fun g st0 inp0 x0 r0 st0' H0 => IH o g (dep + 1) st0 inp0 x0 r0 st0' H0) _ _ _ _ _ _ _ E0) as [us Hus].
    rewrite Hus. reflexivity. }
  destruct (bd / 16 =? vdMap).
  { bind_in H. split_pairs. rewrite (dec_len_fn_inv _ _ _ _ E). cbn [bind].
    destruct (maxdepth o <=? dep + 1); [discriminate|].
    bind_in H. split_pairs. inversion H; subst.
    destruct (loopM_agrees _ (fun g' st inp => skip o rf g' (dep + 1) st inp) (fun g st0 inp0 x0 r0 st0' H0 => IH o g (dep + 1) st0 inp0 x0 r0 st0' H0) _ _ _ _ _ _ _ _ E0) as [us Hus].
    match goal with |- context [loopN ?f ?g ?m ?s ?i] =>
      assert (Hg : loopN f g m s i = Ok (us, r, st')) by exact Hus end.
    rewrite Hg. reflexivity. }
  eapply skip_scalar_agrees; eauto.
Qed.

(* ================= entry points ================= *)

Lemma dec_naked_enc : forall e d i est dst rest,
  wfb e d i -> R est dst -> N.of_nat (depth i) < maxdepth d ->
  exists dst',
    dec_naked d dst (fst (enc e false i est) ++ rest) = Ok (norm e d i, rest, dst')
    /\ skip_value d dst (fst (enc e false i est) ++ rest) = Ok (tt, rest, dst')
    /\ R (snd (enc e false i est)) dst'.
Proof.
  intros e d i est dst rest Hwf HR Hd. unfold dec_naked, skip_value, fuel_r, fuel_l.
  destruct (dec_enc_all i e d false est dst rest 0 (N.to_nat (maxdepth d))
              (2 * length (fst (enc e false i est) ++ rest) + 1)%nat Hwf HR) as (dst' & H1 & H2); try lia.
  exists dst'. split; [exact H1|]. split; [eapply skip_agrees; exact H1|exact H2].
Qed.

Lemma dec_seq_enc : forall e d l est dst rest,
  Forall (fun i => wfb e d i /\ N.of_nat (depth i) < maxdepth d) l -> R est dst ->
  exists dst',
    dec_seq d (length l) dst (fst (enc_seq e l est) ++ rest) = Ok (map (norm e d) l, rest, dst')
    /\ R (snd (enc_seq e l est)) dst'.
Proof.
  induction l as [|x r IH]; intros est dst rest HF HR.
  - exists dst. cbn. auto.
  - inversion HF as [|? ? [Hw Hd] HF']; subst. cbn [enc_seq length dec_seq].
    destruct (enc e false x est) as [b1 s1] eqn:E1. destruct (enc_seq e r s1) as [b2 s2] eqn:E2.
    cbn [fst snd]. rewrite <- app_assoc.
    destruct (dec_naked_enc e d x est dst (b2 ++ rest) Hw HR Hd) as (dst1 & H1 & _ & HR1).
    rewrite E1 in H1, HR1. cbn [fst snd] in H1, HR1. rewrite H1. cbn [bind].
    destruct (IH s1 dst1 rest HF' HR1) as (dst2 & H2 & HR2).
    rewrite E2 in H2, HR2. cbn [fst snd] in H2, HR2. rewrite H2. cbn [bind map]. exists dst2. auto.
Qed.

(* any mix of skipping and decoding reads a sequence back: skipped values do not
   disturb the values after them (F11-1 repaired) *)
Lemma read_seq_enc : forall e d l modes est dst rest,
  length modes = length l ->
  Forall (fun i => wfb e d i /\ N.of_nat (depth i) < maxdepth d) l -> R est dst ->
  exists dst',
    read_seq d modes dst (fst (enc_seq e l est) ++ rest)
    = Ok (map (fun mi : bool * item => if fst mi then None else Some (norm e d (snd mi))) (combine modes l), rest, dst')
    /\ R (snd (enc_seq e l est)) dst'.
Proof.
  induction l as [|x r IH]; intros modes est dst rest Hlen HF HR.
  - destruct modes; [|discriminate]. exists dst. cbn. auto.
  - destruct modes as [|m ms]; [discriminate|]. cbn [length] in Hlen.
    inversion HF as [|? ? [Hw Hd] HF']; subst. cbn [enc_seq read_seq combine map fst snd].
    destruct (enc e false x est) as [b1 s1] eqn:E1. destruct (enc_seq e r s1) as [b2 s2] eqn:E2.
    cbn [fst snd]. rewrite <- app_assoc.
    destruct (dec_naked_enc e d x est dst (b2 ++ rest) Hw HR Hd) as (dst1 & H1 & H1' & HR1).
    rewrite E1 in H1, H1', HR1. cbn [fst snd] in H1, H1', HR1.
    destruct (IH ms s1 dst1 rest ltac:(lia) HF' HR1) as (dst2 & H2 & HR2).
    rewrite E2 in H2, HR2. cbn [fst snd] in H2, HR2.
    destruct m; [rewrite H1'|rewrite H1]; cbn [bind]; rewrite H2; cbn [bind]; exists dst2; auto.
Qed.

(* ================= depth ================= *)

Fixpoint nest (n : nat) : item := match n with O => INil | S n' => IArr [nest n'] end.

Lemma nest_enc : forall o n st,
  fst (enc o false (nest (S n)) st) = mkbd vdArray 5 :: fst (enc o false (nest n) st).
Proof.
  intros. cbn [nest]. rewrite enc_arr_eq. cbn [enc_list].
  destruct (enc o false (nest n) st) as [b1 s1]. cbn [fst]. rewrite app_nil_r. reflexivity.
Qed.

Lemma nest_deep : forall n d dep rf lf dst rest,
  (1 <= n)%nat -> maxdepth d <= N.of_nat n + dep -> (1 <= rf)%nat -> maxdepth d <= N.of_nat rf + dep ->
  (2 * (n + length rest) + 2 <= lf)%nat ->
  dec d rf lf dep dst (fst (enc {| asSymbols := false; stringToRaw := false |} false (nest n) estate0) ++ rest) = Err EDepth.
Proof.
  induction n as [|n IH]; intros d dep rf lf dst rest Hn Hm Hr1 Hr Hl; [lia|].
  destruct rf as [|rf]; [lia|].
  rewrite nest_enc.
  cbn [app dec]. rewrite mkbd_div, mkbd_mod by lia. consts. cbn [N.eqb Pos.eqb].
  assert (Hdl : forall r, dec_len 5 r = Ok (1, r)) by (intros; reflexivity).
  rewrite Hdl. cbn [bind].
  destruct (maxdepth d <=? dep + 1) eqn:Ed; [reflexivity|].
  destruct lf as [|lf]; [lia|]. rewrite loopN_S by lia.
  rewrite IH; try lia. reflexivity.
Qed.

Lemma total_fuel : forall (rf : nat) (o : dopts) (lf : nat) (dep : N) (st : dstate) (inp : list N),
  (1 <= rf)%nat -> maxdepth o <= N.of_nat rf + dep -> (2 * length inp + 1 <= lf)%nat ->
  dec o rf lf dep st inp <> OutOfFuel /\ skip o rf lf dep st inp <> OutOfFuel.
Proof. intros. split; [apply dec_not_oof|apply skip_not_oof]; assumption. Qed.

(* ================= every decoded value is shallower than MaxDepth ================= *)

Lemma dec_scalar_depth0 : forall o vd vs st r x r' st',
  dec_scalar o vd vs st r = Ok (x, r', st') -> depth x = 0%nat.
Proof.
  intros o vd vs st r x r' st'. unfold dec_scalar.
  repeat match goal with
         | |- context [if ?c then _ else _] =>
             match c with
             | (_ =? _) => destruct c
             end
         end; intros H; try discriminate H;
    try (apply uint_res_inv in H; destruct H as (_ & _ & H); exact H);
    try (inversion H; subst; reflexivity).
  - bind_in H. split_pairs. apply uint_res_inv in H. destruct H as (_ & _ & H). exact H.
  - bind_in H. split_pairs. inversion H; subst. reflexivity.
  - bind_in H. split_pairs. inversion H; subst. reflexivity.
  - bind_in H. split_pairs. bind_in H. split_pairs. inversion H; subst. reflexivity.
  - bind_in H. split_pairs. bind_in H. split_pairs. inversion H; subst. destruct (rawToString o); reflexivity.
  - bind_in H. split_pairs. inversion H; subst. reflexivity.
  - bind_in H. split_pairs. bind_in H. split_pairs. inversion H; subst. reflexivity.
  - bind_in H. split_pairs. destruct l as [|t r2]; [discriminate|].
    bind_in H. split_pairs. inversion H; subst. reflexivity.
Qed.

Lemma loopN_Forall : forall A (f : nat -> dstate -> list N -> res (A * list N * dstate)) (P : A -> Prop),
  (forall g st inp x r st', f g st inp = Ok (x, r, st') -> P x) ->
  forall g m st inp xs r st', loopN f g m st inp = Ok (xs, r, st') -> Forall P xs.
Proof.
  intros A f P Hf. induction g as [|g IH]; intros m st inp xs r st' H.
  - cbn [loopN] in H. destruct (m =? 0); [|discriminate]. inversion H; subst. constructor.
  - cbn [loopN] in H. destruct (m =? 0). { inversion H; subst. constructor. }
    bind_in H. split_pairs. bind_in H. split_pairs. inversion H; subst.
    constructor; [eapply Hf; eauto|eapply IH; eauto].
Qed.

Lemma key_norm_depth : forall k, depth (key_norm k) = depth k.
Proof. destruct k; reflexivity. Qed.

Lemma loopM_Forall : forall (d : nat -> dstate -> list N -> res (item * list N * dstate)) (P : item -> Prop),
  (forall k, P k -> P (key_norm k)) ->
  (forall g st inp x r st', d g st inp = Ok (x, r, st') -> P x) ->
  forall g m seen st inp xs r st', loopM d g m seen st inp = Ok (xs, r, st') ->
    Forall (fun kv => P (fst kv) /\ P (snd kv)) xs.
Proof.
  intros d P Hk Hf. induction g as [|g IH]; intros m seen st inp xs r st' H.
  - cbn [loopM] in H. destruct (m =? 0); [|discriminate]. inversion H; subst. constructor.
  - cbn [loopM] in H. destruct (m =? 0). { inversion H; subst. constructor. }
    bind_in H. split_pairs. destruct l as [|b0 l]; [discriminate|].
    destruct (unhashable i); [discriminate|]. destruct (existsb _ seen); [discriminate|].
    bind_in H. split_pairs. bind_in H. split_pairs. inversion H; subst.
    constructor; [cbn [fst snd]; split; [apply Hk|]; eapply Hf; eauto|eapply IH; eauto].
Qed.

Lemma fold_max_arr : forall (b : nat) l, Forall (fun x => (depth x <= b)%nat) l ->
  (fold_right (fun x m => Nat.max (depth x) m) 0 l <= b)%nat.
Proof. intros b l H. induction H; cbn [fold_right]; lia. Qed.

Lemma fold_max_map : forall (b : nat) (l : list (item * item)),
  Forall (fun kv => (depth (fst kv) <= b)%nat /\ (depth (snd kv) <= b)%nat) l ->
  (fold_right (fun kv m => Nat.max (Nat.max (depth (fst kv)) (depth (snd kv))) m) 0 l <= b)%nat.
Proof. intros b l H. induction H as [|kv r [H1 H2] Hr IH]; cbn [fold_right]; lia. Qed.

Lemma dec_depth_ok : forall rf o lf dep st inp x r st',
  dep < maxdepth o -> dec o rf lf dep st inp = Ok (x, r, st') -> N.of_nat (depth x) + dep < maxdepth o.
Proof.
  induction rf as [|rf IH]; intros o lf dep st inp x r st' Hdep H; [discriminate|].
  cbn [dec] in H. destruct inp as [|bd t]; [discriminate|]. cbv zeta in H.
  destruct (bd / 16 =? vdArray).
  { bind_in H. split_pairs. destruct (maxdepth o <=? dep + 1) eqn:Ed; [discriminate|].
    bind_in H. split_pairs. inversion H; subst.
    apply (loopN_Forall _ _ (fun x => N.of_nat (depth x) + (dep + 1) < maxdepth o)) in E0.
    2:{ intros g st0 inp0 x0 r0 st0' H0. cbv beta in H0. eapply IH; [|exact H0]. lia. }
    cbn [depth].
    assert (Hb : (fold_right (fun x m => Nat.max (depth x) m) 0 l0 <= N.to_nat (maxdepth o - dep - 2))%nat).
    { apply fold_max_arr. eapply Forall_impl; [|exact E0]. cbv beta. intros; lia. }
    lia. }
  destruct (bd / 16 =? vdMap).
  { bind_in H. split_pairs. destruct (maxdepth o <=? dep + 1) eqn:Ed; [discriminate|].
    bind_in H. split_pairs. inversion H; subst.
    apply (loopM_Forall _ (fun x => N.of_nat (depth x) + (dep + 1) < maxdepth o)) in E0.
    2:{ intros k Hk. rewrite key_norm_depth. exact Hk. }
    2:{ intros g st0 inp0 x0 r0 st0' H0. cbv beta in H0. eapply IH; [|exact H0]. lia. }
    cbn [depth].
    assert (Hb : (fold_right (fun kv m => Nat.max (Nat.max (depth (fst kv)) (depth (snd kv))) m) 0 l0 <= N.to_nat (maxdepth o - dep - 2))%nat).
    { apply fold_max_map. eapply Forall_impl; [|exact E0]. cbv beta. intros a [? ?]; split; lia. }
    lia. }
  apply dec_scalar_depth0 in H. rewrite H. cbn. lia.
Qed.

(* ================= nesting to MaxDepth or beyond: Err EDepth, for every encodable item ================= *)

Definition deep_P (i : item) : Prop :=
  forall e d key est dst rest dep rf lf,
    wfb e d i -> R est dst ->
    dep < maxdepth d -> maxdepth d <= N.of_nat (depth i) + dep ->
    (1 <= rf)%nat -> maxdepth d <= N.of_nat rf + dep ->
    (2 * length (fst (enc e key i est) ++ rest) + 1 <= lf)%nat ->
    dec d rf lf dep dst (fst (enc e key i est) ++ rest) = Err EDepth.

Lemma unhashable_depth0 : forall k, unhashable k = false -> depth k = 0%nat.
Proof. destruct k; cbn; intros; try reflexivity; discriminate. Qed.


Lemma enc_len_ne : forall vd l, enc_len vd l <> [].
Proof. intros. unfold enc_len. repeat match goal with |- context [if ?c then _ else _] => destruct c end; discriminate. Qed.

Lemma app_ne : forall (a b : list N), a <> [] -> a ++ b <> [].
Proof. intros a b H. destruct a; [congruence|discriminate]. Qed.

Lemma enc_nonempty : forall e key i st, fst (enc e key i st) <> [].
Proof.
  intros e key i st. destruct i.
  - cbn. discriminate.
  - cbn. discriminate.
  - cbn [enc fst]. unfold enc_int, enc_uint.
    repeat match goal with |- context [if ?c then _ else _] => destruct c end; discriminate.
  - cbn [enc fst]. unfold enc_uint.
    repeat match goal with |- context [if ?c then _ else _] => destruct c end; discriminate.
  - cbn [enc fst]. unfold enc_f32, enc_spfloat.
    repeat match goal with |- context [if ?c then _ else _] => destruct c end; discriminate.
  - cbn [enc fst]. unfold enc_f64, enc_spfloat.
    repeat match goal with |- context [if ?c then _ else _] => destruct c end; discriminate.
  - cbn [enc]. unfold enc_str, enc_symbol.
    repeat match goal with
           | |- context [if ?c then _ else _] => destruct c
           | |- context [match ?c with Some _ => _ | None => _ end] => destruct c
           end; cbn [fst]; try discriminate; try (apply app_ne; apply enc_len_ne).
  - cbn [enc fst]. apply app_ne, enc_len_ne.
  - rewrite enc_arr_eq. destruct (enc_list e l st). cbn [fst]. apply app_ne, enc_len_ne.
  - rewrite enc_map_eq. destruct (enc_pairs e l st). cbn [fst]. apply app_ne, enc_len_ne.
  - cbn. discriminate.
  - cbn [enc fst]. apply app_ne, enc_len_ne.
  - cbn [enc fst]. unfold enc_time. destruct (_ && _); discriminate.
Qed.

Lemma loop_arr_deep : forall l, Forall deep_P l ->
  forall e d est dst rest dep rf g,
    wfb_list e d l -> R est dst ->
    dep < maxdepth d ->
    maxdepth d <= N.of_nat (fold_right (fun x m => Nat.max (depth x) m) 0%nat l) + dep ->
    (1 <= rf)%nat -> maxdepth d <= N.of_nat rf + dep ->
    (2 * length (fst (enc_list e l est) ++ rest) + 2 <= g)%nat ->
    loopN (fun g' st inp => dec d rf g' dep st inp) g (len l) dst (fst (enc_list e l est) ++ rest) = Err EDepth.
Proof.
  induction l as [|x r IHl]; intros HP e d est dst rest dep rf g Hwf HR Hdep Hmax Hrf1 Hrf Hg.
  - cbn [fold_right] in Hmax. lia.
  - inversion HP as [|? ? Px Pr]; subst. destruct Hwf as [Hwx Hwr].
    cbn [enc_list] in *.
    destruct (enc e false x est) as [b1 s1] eqn:Ex.
    destruct (enc_list e r s1) as [b2 s2] eqn:Er. cbn [fst snd] in *.
    destruct g as [|g]; [lia|].
    rewrite loopN_S by (rewrite len_cons; lia).
    rewrite <- app_assoc in *.
    destruct (N.le_gt_cases (maxdepth d) (N.of_nat (depth x) + dep)) as [Hx|Hx].
    + pose proof (Px e d false est dst (b2 ++ rest) dep rf g Hwx HR Hdep Hx Hrf1 Hrf) as Hd.
      rewrite Ex in Hd. cbn [fst] in Hd. rewrite Hd by lia. reflexivity.
    + destruct (dec_enc_all x e d false est dst (b2 ++ rest) dep rf g Hwx HR) as (dst1 & Hd1 & HR1); try lia.
      { rewrite Ex. cbn [fst]. lia. }
      rewrite Ex in Hd1, HR1. cbn [fst snd] in Hd1, HR1. rewrite Hd1. cbn [bind].
      assert (Hne : (length (b2 ++ rest) < length (b1 ++ b2 ++ rest))%nat) by (eapply dec_progress; exact Hd1).
      replace (len (x :: r) - 1) with (len r) by (rewrite len_cons; lia).
      cbn [fold_right] in Hmax.
      pose proof (IHl Pr e d s1 dst1 rest dep rf g Hwr HR1 Hdep) as Hl.
      rewrite Er in Hl. cbn [fst] in Hl. rewrite Hl; try lia. reflexivity.
Qed.

Lemma loop_map_deep : forall l, Forall (fun kv => deep_P (fst kv) /\ deep_P (snd kv)) l ->
  forall e d est dst rest dep rf g seen,
    wfb_pairs e d l -> R est dst ->
    nodup_seen seen (map (fun kv => key_norm (norm e d (fst kv))) l) = true ->
    dep < maxdepth d ->
    maxdepth d <= N.of_nat (fold_right (fun kv m => Nat.max (Nat.max (depth (fst kv)) (depth (snd kv))) m) 0%nat l) + dep ->
    (1 <= rf)%nat -> maxdepth d <= N.of_nat rf + dep ->
    (2 * length (fst (enc_pairs e l est) ++ rest) + 2 <= g)%nat ->
    loopM (fun g' st inp => dec d rf g' dep st inp) g (len l) seen dst (fst (enc_pairs e l est) ++ rest) = Err EDepth.
Proof.
  induction l as [|[k v] r IHl]; intros HP e d est dst rest dep rf g seen Hwf HR Hnd Hdep Hmax Hrf1 Hrf Hg.
  - cbn [fold_right] in Hmax. lia.
  - inversion HP as [|? ? [Pk Pv] Pr]; subst. cbn [fst snd] in Pk, Pv.
    destruct Hwf as (Hwk & Huk & Hwv & Hwr).
    cbn [enc_pairs] in *.
    destruct (enc e true k est) as [b1 s1] eqn:Ek.
    destruct (enc e false v s1) as [b2 s2] eqn:Ev.
    destruct (enc_pairs e r s2) as [b3 s3] eqn:Er. cbn [fst snd] in *.
    destruct g as [|g]; [lia|].
    cbn [loopM]. replace (len ((k, v) :: r) =? 0) with false by (rewrite len_cons; lia).
    rewrite <- !app_assoc in *.
    pose proof (unhashable_depth0 k Huk) as Hk0.
    destruct (dec_enc_all k e d true est dst (b2 ++ b3 ++ rest) dep rf g Hwk HR) as (dst1 & Hd1 & HR1); try lia.
    { rewrite Ek. cbn [fst]. lia. }
    rewrite Ek in Hd1, HR1. cbn [fst snd] in Hd1, HR1. rewrite Hd1. cbn [bind].
    assert (Hne1 : (length (b2 ++ b3 ++ rest) < length (b1 ++ b2 ++ b3 ++ rest))%nat) by (eapply dec_progress; exact Hd1).
    cbn [map nodup_seen fst] in Hnd. apply andb_true_iff in Hnd. destruct Hnd as [Hn1 Hn2].
    apply negb_true_iff in Hn1.
    cbn [fold_right fst snd] in Hmax.
    destruct (N.le_gt_cases (maxdepth d) (N.of_nat (depth v) + dep)) as [Hx|Hx].
    + pose proof (Pv e d false s1 dst1 (b3 ++ rest) dep rf g Hwv HR1 Hdep Hx Hrf1 Hrf) as Hd.
      rewrite Ev in Hd. cbn [fst] in Hd.
      assert (Hne2 : (1 <= length b2)%nat).
      { pose proof (enc_nonempty e false v s1) as Hv. rewrite Ev in Hv. cbn [fst] in Hv. destruct b2; [congruence|cbn; lia]. }
      destruct (b2 ++ b3 ++ rest) as [|c0 t0] eqn:Eb.
      { apply (f_equal (@length N)) in Eb. rewrite app_length in Eb. cbn [length] in Eb. lia. }
      rewrite (norm_unhashable e d k Huk). rewrite Hn1. rewrite Hd by (cbn [length] in *; lia). reflexivity.
    + destruct (dec_enc_all v e d false s1 dst1 (b3 ++ rest) dep rf g Hwv HR1) as (dst2 & Hd2 & HR2); try lia.
      { rewrite Ev. cbn [fst]. lia. }
      rewrite Ev in Hd2, HR2. cbn [fst snd] in Hd2, HR2.
      assert (Hne2 : (length (b3 ++ rest) < length (b2 ++ b3 ++ rest))%nat) by (eapply dec_progress; exact Hd2).
      destruct (b2 ++ b3 ++ rest) as [|c0 t0] eqn:Eb; [cbn [length] in Hne2; lia|].
      rewrite (norm_unhashable e d k Huk). rewrite Hn1. rewrite Hd2. cbn [bind].
      replace (len ((k, v) :: r) - 1) with (len r) by (rewrite len_cons; lia).
      pose proof (IHl Pr e d s2 dst2 rest dep rf g (key_norm (norm e d k) :: seen) Hwr HR2 Hn2 Hdep) as Hl.
      rewrite Er in Hl. cbn [fst] in Hl. rewrite Hl; try (cbn [length] in *; lia). reflexivity.
Qed.

Lemma deep_all : forall i, deep_P i.
Proof.
  induction i using item_ind'; unfold deep_P;
    intros e d key est dst rest dep rf lf Hwf HR Hdep Hmax Hrf1 Hrf Hlf;
    try (cbn [depth] in Hmax; lia).
  - (* IArr *)
    rewrite wfb_arr_eq in Hwf. destruct Hwf as [Hlen Hwl].
    rewrite enc_arr_eq in *. destruct (enc_list e l est) as [bs st'] eqn:El. cbn [fst snd] in *.
    destruct rf as [|rf']; [lia|]. unfold lenok in Hlen.
    destruct (enc_len_spec vdArray (len l) Hlen) as (vs & tl & Htl & Hvs & Hfn).
    rewrite Htl in *. cbn [app] in *. cbn [dec]. rewrite mkbd_div, mkbd_mod by assumption.
    consts. cbn [N.eqb Pos.eqb]. rewrite <- app_assoc in *.
    rewrite (dec_len_fn _ _ _ _ (Hfn _) Hlen). cbn [bind].
    destruct (maxdepth d <=? dep + 1) eqn:Ed; [reflexivity|].
    cbn [depth] in Hmax.
    pose proof (loop_arr_deep l H e d est dst rest (dep + 1) rf' lf Hwl HR) as Hl.
    rewrite El in Hl. cbn [fst] in Hl. rewrite Hl; try lia; [reflexivity|].
    cbn [length] in Hlf. rewrite !app_length in *. lia.
  - (* IMap *)
    rewrite wfb_map_eq in Hwf. destruct Hwf as (Hlen & Hnd & Hwl).
    rewrite enc_map_eq in *. destruct (enc_pairs e l est) as [bs st'] eqn:El. cbn [fst snd] in *.
    destruct rf as [|rf']; [lia|]. unfold lenok in Hlen.
    destruct (enc_len_spec vdMap (len l) Hlen) as (vs & tl & Htl & Hvs & Hfn).
    rewrite Htl in *. cbn [app] in *. cbn [dec]. rewrite mkbd_div, mkbd_mod by assumption.
    consts. cbn [N.eqb Pos.eqb]. rewrite <- app_assoc in *.
    rewrite (dec_len_fn _ _ _ _ (Hfn _) Hlen). cbn [bind].
    destruct (maxdepth d <=? dep + 1) eqn:Ed; [reflexivity|].
    cbn [depth] in Hmax.
    pose proof (loop_map_deep l H e d est dst rest (dep + 1) rf' lf [] Hwl HR Hnd) as Hl.
    rewrite El in Hl. cbn [fst] in Hl. rewrite Hl; try lia; [reflexivity|].
    cbn [length] in Hlf. rewrite !app_length in *. lia.
  - (* ITag *) cbn [wfb] in Hwf. contradiction.
Qed.

Lemma dec_naked_deep : forall e d i est dst rest,
  wfb e d i -> R est dst -> 1 <= maxdepth d -> maxdepth d <= N.of_nat (depth i) ->
  dec_naked d dst (fst (enc e false i est) ++ rest) = Err EDepth.
Proof.
  intros e d i est dst rest Hwf HR H1 Hd. unfold dec_naked, fuel_r, fuel_l.
  apply deep_all; auto; lia.
Qed.

(* ================= SignedInteger: an unsigned value >= 2^63 is an overflow error (F07-1n) ================= *)
Lemma dec_naked_signed_overflow : forall e d n est dst rest,
  signedInt d = true -> 2 ^ 63 <= n -> n < 2 ^ 64 -> 1 <= maxdepth d ->
  dec_naked d dst (fst (enc e false (IUint n) est) ++ rest) = Err EOverflow.
Proof.
  intros e d n est dst rest Hs Hlo Hhi Hm. unfold dec_naked, fuel_r.
  destruct (N.to_nat (maxdepth d)) as [|rf] eqn:Erf; [lia|].
  cbn [enc fst]. unfold enc_uint.
  replace (n =? 0) with false by lia. replace (true && (n <=? 16)) with false by (cbn [andb]; lia).
  replace (n <=? 255) with false by lia. replace (n <=? 65535) with false by lia.
  assert (Hw : int_width n = 8%nat).
  { unfold int_width. repeat match goal with |- context [?a <? ?b] => replace (a <? b) with false by lia end. reflexivity. }
  rewrite Hw. cbn [app]. rewrite dec_scalar_bd by (consts; cbn; lia). scal.
  unfold dec_uint. change (N.of_nat 8 - 1 <=? 7) with true. cbn iota.
  change (S (N.to_nat (N.of_nat 8 - 1))) with 8%nat.
  rewrite rd_be_put by lia. cbn [bind]. apply uint_res_overflow; assumption.
Qed.

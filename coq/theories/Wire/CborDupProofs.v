(* Wire/CborDupProofs — lemmas about Wire/CborDup.v (repeated map keys):
     dup_rel        the extended decoder reads exactly what the decoder of Wire/Cbor.v reads, except where that
                    one answers "unsupported" (the repeated key)
     dup_agrees     where the original answers Ok, so does the extension, with the same value ([map_view] is the
                    identity on values without repeated keys, and the original never returns one)
     view laws      the keys of [assign_all l] are pairwise different, every key of l is there, its value is the
                    value of the LAST entry of l with that key, the order is that of first occurrences
     dup_in         every well-formed serialisation of a supported item -- maps with repeated keys included --
                    decodes to [map_view] of the data RFC 8949 assigns *)
From Coq Require Import List NArith ZArith Lia Bool Arith.
From Verif Require Import Base.Outcome Wire.Item Gen.Consts Wire.CborFloat Wire.Cbor C10.CborSpec C10.CborConv.
From Verif Require Import Wire.CborProofs Wire.CborTotal Wire.CborDup.
Import ListNotations.
Open Scope N_scope.

(* ================================================================== *)
(* the extension against the original *)

(* x: the extended run, y: the original *)
Definition relU {A} (x y : resI A) : Prop := fst x = fst y \/ fst y = Err EUnsupported.

Lemma relU_refl {A} : forall (x : resI A), relU x x.
Proof. intros. left. reflexivity. Qed.

Lemma bindI_relU {A B} : forall (m m' : resI A) (k k' : A -> resI B),
  relU m m' -> (forall a, relU (k a) (k' a)) -> relU (bindI m k) (bindI m' k').
Proof.
  intros m m' k k' H Hk. unfold relU, bindI in *. destruct H as [H|H].
  - rewrite H. destruct (fst m') as [a|e|]; cbn [fst]; [apply Hk|left; reflexivity|left; reflexivity].
  - rewrite H. cbn [fst]. right. reflexivity.
Qed.

Section RelBody.
  Variable D : dopts.
  Variable f' : nat.
  Variable self self' : Z -> nat -> list N -> resI (item * list N).
  Variable arrd arrd' : Z -> nat -> N -> list N -> resI (list item * list N).
  Variable arri arri' : Z -> nat -> list N -> resI (list item * list N).
  Variable mapd mapd' : Z -> nat -> N -> list item -> list N -> resI (list (item * item) * list N).
  Variable mapi mapi' : Z -> nat -> list item -> list N -> resI (list (item * item) * list N).
  Hypothesis Hself : forall d r b, relU (self d r b) (self' d r b).
  Hypothesis Harrd : forall d r n b, relU (arrd d r n b) (arrd' d r n b).
  Hypothesis Harri : forall d r b, relU (arri d r b) (arri' d r b).
  Hypothesis Hmapd : forall d r n b, relU (mapd d r n [] b) (mapd' d r n [] b).
  Hypothesis Hmapi : forall d r b, relU (mapi d r [] b) (mapi' d r [] b).

  Lemma dec_tag_relU : forall d r t b2, relU (dec_tag D f' self d r t b2) (dec_tag D f' self' d r t b2).
  Proof.
    intros. unfold dec_tag.
    destruct (t =? 0); [apply relU_refl|]. destruct (t =? 1); [apply relU_refl|].
    destruct ((t =? 2) || (t =? 3)); [apply relU_refl|]. destruct ((t =? 4) || (t =? 5)); [apply relU_refl|].
    destruct ((t =? 55799) || do_skiptags D); [apply Hself|].
    destruct (depth_ok D d); [|apply relU_refl].
    apply bindI_relU; [apply Hself|]. intros [v b3]. apply relU_refl.
  Qed.

  Lemma dec_body_relU : forall d r bd b1,
    relU (dec_body D f' self arrd arri mapd mapi d r bd b1) (dec_body D f' self' arrd' arri' mapd' mapi' d r bd b1).
  Proof.
    intros. unfold dec_body. destruct (kind_of bd); try apply relU_refl.
    - destruct (bd =? bdIndefArray).
      + destruct (depth_ok D d); [|apply relU_refl]. apply bindI_relU; [apply Harri|]. intros [l b2]. apply relU_refl.
      + apply bindI_relU; [apply relU_refl|]. intros [n b2].
        destruct (depth_ok D d); [|apply relU_refl]. apply bindI_relU; [apply Harrd|]. intros [l b3]. apply relU_refl.
    - destruct (bd =? bdIndefMap).
      + destruct (depth_ok D d); [|apply relU_refl]. apply bindI_relU; [apply Hmapi|]. intros [l b2]. apply relU_refl.
      + apply bindI_relU; [apply relU_refl|]. intros [n b2].
        destruct (depth_ok D d); [|apply relU_refl]. apply bindI_relU; [apply Hmapd|]. intros [l b3]. apply relU_refl.
    - apply bindI_relU; [apply relU_refl|]. intros [t b2]. apply dec_tag_relU.
  Qed.

  Lemma map_entry_relU : forall d r seen b, relU (map_entry_d self d r b) (map_entry self' d r seen b).
  Proof.
    intros. unfold map_entry_d, map_entry. apply bindI_relU; [apply Hself|]. intros [k0 b1].
    destruct b1; [apply relU_refl|]. destruct (negb (hashable (keynorm k0))); [apply relU_refl|].
    destruct (existsb (key_eqb (keynorm k0)) seen); [right; reflexivity|].
    apply bindI_relU; [apply Hself|]. intros [v b2]. apply relU_refl.
  Qed.
End RelBody.

Lemma decd_rel : forall D f,
  (forall d r b, relU (decd D f d r b) (dec D f d r b)) /\
  (forall d r n b, relU (arr_def_d D f d r n b) (arr_def D f d r n b)) /\
  (forall d r b, relU (arr_indef_d D f d r b) (arr_indef D f d r b)) /\
  (forall d r n s s' b, relU (map_def_d D f d r n s b) (map_def D f d r n s' b)) /\
  (forall d r s s' b, relU (map_indef_d D f d r s b) (map_indef D f d r s' b)).
Proof.
  intros D. induction f as [|f (I1 & I2 & I3 & I4 & I5)].
  - repeat apply conj; intros; apply relU_refl.
  - repeat apply conj.
    + intros d r b. cbn [decd dec]. destruct b as [|bd b1]; [apply relU_refl|].
      apply dec_body_relU; try assumption; intros; [apply I4|apply I5].
    + intros d r n b. cbn [arr_def_d arr_def]. destruct (n =? 0); [apply relU_refl|].
      apply bindI_relU; [apply I1|]. intros [x b1]. apply bindI_relU; [apply I2|]. intros [xs b2]. apply relU_refl.
    + intros d r b. cbn [arr_indef_d arr_indef]. destruct b as [|bd b1]; [apply relU_refl|].
      destruct (bd =? bdBreak); [apply relU_refl|].
      apply bindI_relU; [apply I1|]. intros [x b2]. apply bindI_relU; [apply I3|]. intros [xs b3]. apply relU_refl.
    + intros d r n s s' b. cbn [map_def_d map_def]. destruct (n =? 0); [apply relU_refl|].
      apply bindI_relU; [apply map_entry_relU; assumption|]. intros [kv b2].
      apply bindI_relU; [apply I4|]. intros [kvs b3]. apply relU_refl.
    + intros d r s s' b. cbn [map_indef_d map_indef]. destruct b as [|bd b0]; [apply relU_refl|].
      destruct (bd =? bdBreak); [apply relU_refl|].
      apply bindI_relU; [apply map_entry_relU; assumption|]. intros [kv b2].
      apply bindI_relU; [apply I5|]. intros [kvs b3]. apply relU_refl.
Qed.

Lemma dup_rel : forall D f b,
  dec_naked_dup_raw D f b = dec_naked D f b \/ dec_naked D f b = Err EUnsupported.
Proof. intros. exact (proj1 (decd_rel D f) 0%Z 0%nat b). Qed.

(* ================================================================== *)
(* the original never returns repeated keys; on such values the view is the identity *)

Fixpoint fresh_keys (seen : list item) (l : list (item * item)) : Prop :=
  match l with
  | [] => True
  | kv :: r => existsb (key_eqb (fst kv)) seen = false /\ fresh_keys (fst kv :: seen) r
  end.

Fixpoint nodup_item (i : item) : Prop :=
  match i with
  | IArr l => (fix go l := match l with [] => True | x :: r => nodup_item x /\ go r end) l
  | IMap l => fresh_keys [] l /\ (fix go l := match l with [] => True | kv :: r => nodup_item (snd kv) /\ go r end) l
  | ITag _ v => nodup_item v
  | _ => True
  end.

Definition nodup_list := fix go (l : list item) : Prop := match l with [] => True | x :: r => nodup_item x /\ go r end.
Definition nodup_vals := fix go (l : list (item * item)) : Prop := match l with [] => True | kv :: r => nodup_item (snd kv) /\ go r end.

Lemma time_of_unix_nodup : forall s n i, time_of_unix s n = Ok i -> nodup_item i.
Proof.
  intros s n i H. unfold time_of_unix in H.
  match type of H with (if ?c then _ else _) = _ => destruct c end; [discriminate|].
  destruct (n <? 0)%Z; destruct (round_us _ _); inversion H; exact I.
Qed.

Section NodupBody.
  Variable D : dopts.
  Variable f' : nat.
  Variable self : Z -> nat -> list N -> resI (item * list N).
  Variable arrd : Z -> nat -> N -> list N -> resI (list item * list N).
  Variable arri : Z -> nat -> list N -> resI (list item * list N).
  Variable mapd : Z -> nat -> N -> list item -> list N -> resI (list (item * item) * list N).
  Variable mapi : Z -> nat -> list item -> list N -> resI (list (item * item) * list N).
  Hypothesis Pself : forall d r b x b', fst (self d r b) = Ok (x, b') -> nodup_item x.
  Hypothesis Parrd : forall d r n b l b', fst (arrd d r n b) = Ok (l, b') -> nodup_list l.
  Hypothesis Parri : forall d r b l b', fst (arri d r b) = Ok (l, b') -> nodup_list l.
  Hypothesis Pmapd : forall d r n s b l b', fst (mapd d r n s b) = Ok (l, b') -> fresh_keys s l /\ nodup_vals l.
  Hypothesis Pmapi : forall d r s b l b', fst (mapi d r s b) = Ok (l, b') -> fresh_keys s l /\ nodup_vals l.

  Lemma dec_tag_nodup : forall d r t b2 x b', fst (dec_tag D f' self d r t b2) = Ok (x, b') -> nodup_item x.
  Proof.
    intros d r t b2 x b' H. unfold dec_tag in H.
    destruct (t =? 0).
    { cbn [fst liftI] in H. apply bind_ok in H. destruct H as ([s b3] & _ & H).
      apply bind_ok in H. destruct H as (i & Ei & H). inversion H; subst.
      unfold parse_rfc3339 in Ei. destruct (parse_core s) as [[sec ns]|]; [|discriminate]. eapply time_of_unix_nodup; eassumption. }
    destruct (t =? 1).
    { cbn [fst liftI] in H. apply bind_ok in H. destruct H as ([y b3] & _ & H).
      apply bind_ok in H. destruct H as (i & Ei & H). inversion H; subst.
      unfold time_of_float in Ei. destruct (f64_exp y =? 2047); [discriminate|]. eapply time_of_unix_nodup; eassumption. }
    destruct ((t =? 2) || (t =? 3)).
    { cbn [fst liftI] in H. apply bind_ok in H. destruct H as ([s b3] & _ & H).
      apply bind_ok in H. destruct H as (y & _ & H). inversion H; subst. exact I. }
    destruct ((t =? 4) || (t =? 5)).
    { cbn [fst liftI] in H. destruct b2 as [|nn b3]; [discriminate|]. destruct (nn =? 130); [|discriminate].
      apply bind_ok in H. destruct H as ([e b4] & _ & H). apply bind_ok in H. destruct H as ([m b5] & _ & H).
      apply bind_ok in H. destruct H as (y & _ & H). inversion H; subst. exact I. }
    destruct ((t =? 55799) || do_skiptags D); [eapply Pself; eassumption|].
    destruct (depth_ok D d); [|discriminate].
    apply bindI_ok in H. destruct H as ([v b3] & E & H). cbn [fst] in H. inversion H; subst.
    cbn [nodup_item]. eapply Pself; eassumption.
  Qed.

  Lemma dec_body_nodup : forall d r bd b1 x b',
    fst (dec_body D f' self arrd arri mapd mapi d r bd b1) = Ok (x, b') -> nodup_item x.
  Proof.
    intros d r bd b1 x b' H. unfold dec_body in H. destruct (kind_of bd).
    - cbn [fst liftI] in H. apply bind_ok in H. destruct H as ([u b2] & _ & H).
      destruct (do_signed D); [apply bind_ok in H; destruct H as (i & _ & H)|]; inversion H; exact I.
    - cbn [fst liftI] in H. apply bind_ok in H. destruct H as ([u b2] & _ & H).
      apply bind_ok in H; destruct H as (i & _ & H); inversion H; exact I.
    - cbn [fst liftI] in H. apply bind_ok in H. destruct H as ([s b2] & _ & H). destruct (do_raw2str D); inversion H; exact I.
    - cbn [fst liftI] in H. apply bind_ok in H. destruct H as ([s b2] & _ & H). inversion H; exact I.
    - destruct (bd =? bdIndefArray).
      + destruct (depth_ok D d); [|discriminate]. apply bindI_ok in H. destruct H as ([l b2] & E & H).
        cbn [fst] in H. inversion H; subst. eapply Parri; eassumption.
      + apply bindI_ok in H. destruct H as ([n b2] & _ & H).
        destruct (depth_ok D d); [|discriminate]. apply bindI_ok in H. destruct H as ([l b3] & E & H).
        cbn [fst] in H. inversion H; subst. eapply Parrd; eassumption.
    - destruct (bd =? bdIndefMap).
      + destruct (depth_ok D d); [|discriminate]. apply bindI_ok in H. destruct H as ([l b2] & E & H).
        cbn [fst] in H. inversion H; subst. eapply Pmapi; eassumption.
      + apply bindI_ok in H. destruct H as ([n b2] & _ & H).
        destruct (depth_ok D d); [|discriminate]. apply bindI_ok in H. destruct H as ([l b3] & E & H).
        cbn [fst] in H. inversion H; subst. eapply Pmapd; eassumption.
    - apply bindI_ok in H. destruct H as ([t b2] & _ & H). eapply dec_tag_nodup; eassumption.
    - unfold dec_simple in H.
      repeat match type of H with fst (if ?c then _ else _) = _ => destruct c end;
        cbn [fst liftI] in H; try discriminate; try (inversion H; exact I);
        apply bind_ok in H; destruct H as ([y b2] & _ & H); inversion H; exact I.
  Qed.

  Lemma map_entry_nodup : forall d r seen b k v b',
    fst (map_entry self d r seen b) = Ok (k, v, b') -> existsb (key_eqb k) seen = false /\ nodup_item v.
  Proof.
    intros d r seen b k v b' H. unfold map_entry in H.
    apply bindI_ok in H. destruct H as ([k0 b1] & _ & H).
    destruct b1; [discriminate|]. destruct (negb (hashable (keynorm k0))); [discriminate|].
    destruct (existsb (key_eqb (keynorm k0)) seen) eqn:Es; [discriminate|].
    apply bindI_ok in H. destruct H as ([v0 b2] & E & H). cbn [fst] in H. inversion H; subst.
    split; [exact Es|eapply Pself; eassumption].
  Qed.
End NodupBody.

Lemma dec_nodup : forall D f,
  (forall d r b x b', fst (dec D f d r b) = Ok (x, b') -> nodup_item x) /\
  (forall d r n b l b', fst (arr_def D f d r n b) = Ok (l, b') -> nodup_list l) /\
  (forall d r b l b', fst (arr_indef D f d r b) = Ok (l, b') -> nodup_list l) /\
  (forall d r n s b l b', fst (map_def D f d r n s b) = Ok (l, b') -> fresh_keys s l /\ nodup_vals l) /\
  (forall d r s b l b', fst (map_indef D f d r s b) = Ok (l, b') -> fresh_keys s l /\ nodup_vals l).
Proof.
  intros D. induction f as [|f (I1 & I2 & I3 & I4 & I5)].
  - repeat apply conj; intros; discriminate.
  - repeat apply conj.
    + intros d r b x b' H. cbn [dec] in H. destruct b as [|bd b1]; [discriminate|].
      eapply dec_body_nodup; try eassumption.
    + intros d r n b l b' H. cbn [arr_def] in H. destruct (n =? 0). { inversion H; exact I. }
      apply bindI_ok in H. destruct H as ([x b1] & E1 & H). apply I1 in E1.
      apply bindI_ok in H. destruct H as ([xs b2] & E2 & H). apply I2 in E2. cbn [fst] in H. inversion H; subst.
      split; assumption.
    + intros d r b l b' H. cbn [arr_indef] in H. destruct b as [|bd b1]; [discriminate|].
      destruct (bd =? bdBreak). { inversion H; exact I. }
      apply bindI_ok in H. destruct H as ([x b2] & E1 & H). apply I1 in E1.
      apply bindI_ok in H. destruct H as ([xs b3] & E2 & H). apply I3 in E2. cbn [fst] in H. inversion H; subst.
      split; assumption.
    + intros d r n s b l b' H. cbn [map_def] in H. destruct (n =? 0). { inversion H; split; exact I. }
      apply bindI_ok in H. destruct H as ([[k v] b2] & E1 & H). apply (map_entry_nodup (dec D f) I1) in E1.
      apply bindI_ok in H. destruct H as ([kvs b3] & E2 & H). apply I4 in E2. cbn [fst] in H. inversion H; subst.
      cbn [fst] in E2. destruct E1 as [E1a E1b]. destruct E2 as [E2a E2b].
      split; [split; assumption|split; assumption].
    + intros d r s b l b' H. cbn [map_indef] in H. destruct b as [|bd b0]; [discriminate|].
      destruct (bd =? bdBreak). { inversion H; split; exact I. }
      apply bindI_ok in H. destruct H as ([[k v] b2] & E1 & H). apply (map_entry_nodup (dec D f) I1) in E1.
      apply bindI_ok in H. destruct H as ([kvs b3] & E2 & H). apply I5 in E2. cbn [fst] in H. inversion H; subst.
      cbn [fst] in E2. destruct E1 as [E1a E1b]. destruct E2 as [E2a E2b].
      split; [split; assumption|split; assumption].
Qed.

(* assigning a key that is not there appends it *)
Lemma assoc_set_fresh : forall k v acc, existsb (key_eqb k) (map fst acc) = false -> assoc_set k v acc = acc ++ [(k, v)].
Proof.
  induction acc as [|e acc IH]; intros H; [reflexivity|]. cbn [map existsb] in H. apply orb_false_iff in H. destruct H as [H1 H2].
  cbn [assoc_set]. rewrite H1. cbn [app]. f_equal. apply IH. exact H2.
Qed.

Lemma existsb_app_false {A} (p : A -> bool) : forall l l', existsb p (l ++ l') = false <-> existsb p l = false /\ existsb p l' = false.
Proof. intros. rewrite existsb_app. apply orb_false_iff. Qed.

Lemma existsb_perm_rev {A} (p : A -> bool) : forall l x, existsb p (x :: l) = existsb p (l ++ [x]).
Proof. intros. rewrite existsb_app. cbn [existsb]. rewrite orb_false_r. apply orb_comm. Qed.

Lemma assign_fresh : forall l acc, fresh_keys (rev (map fst acc)) l ->
  fold_left (fun a kv => assoc_set (fst kv) (snd kv) a) l acc = acc ++ l.
Proof.
  induction l as [|kv l IH]; intros acc H; [rewrite app_nil_r; reflexivity|].
  cbn [fresh_keys] in H. destruct H as [H1 H2]. cbn [fold_left].
  assert (E : existsb (key_eqb (fst kv)) (map fst acc) = false).
  { rewrite <- H1. clear. induction (map fst acc) as [|x m IHm]; [reflexivity|].
    cbn [rev]. rewrite existsb_app. cbn [existsb]. rewrite orb_false_r. rewrite <- IHm. apply orb_comm. }
  rewrite (assoc_set_fresh _ _ _ E). rewrite IH.
  - rewrite <- app_assoc. destruct kv; reflexivity.
  - rewrite map_app, rev_app_distr. cbn [map rev app]. exact H2.
Qed.

Lemma map_view_id : forall i, nodup_item i -> map_view i = i.
Proof.
  induction i using item_ind'; intros Hn; try reflexivity.
  - cbn [map_view]. f_equal. cbn [nodup_item] in Hn. induction l as [|x l IHl]; [reflexivity|].
    inversion H as [|? ? Hx Hl]; subst. destruct Hn as [Nx Nl]. cbn [map]. rewrite (Hx Nx), (IHl Hl Nl). reflexivity.
  - cbn [map_view]. f_equal. cbn [nodup_item] in Hn. destruct Hn as [Hf Hv].
    assert (E : map (fun kv => (fst kv, map_view (snd kv))) l = l).
    { clear Hf. induction l as [|x l IHl]; [reflexivity|]. inversion H as [|? ? [_ Hx] Hl]; subst. destruct Hv as [Nx Nl].
      cbn [map]. rewrite (Hx Nx), (IHl Hl Nl). destruct x; reflexivity. }
    rewrite E. unfold assign_all. rewrite assign_fresh; [reflexivity|exact Hf].
  - cbn [map_view nodup_item] in *. rewrite (IHi Hn). reflexivity.
Qed.

(* where the original answers Ok, the extension answers the same *)
Lemma dup_agrees : forall D f b i rest, dec_naked D f b = Ok (i, rest) -> dec_naked_dup D f b = Ok (i, rest).
Proof.
  intros D f b i rest H. unfold dec_naked_dup. destruct (dup_rel D f b) as [E|E]; [|rewrite E in H; discriminate].
  rewrite E, H. rewrite map_view_id; [reflexivity|].
  exact (proj1 (dec_nodup D f) _ _ _ _ _ H).
Qed.

(* ... and every other answer of the original but "unsupported" is the extension's answer too *)
Lemma dup_agrees_err : forall D f b e, dec_naked D f b = Err e -> e <> EUnsupported -> dec_naked_dup D f b = Err e.
Proof.
  intros D f b e H Hne. unfold dec_naked_dup. destruct (dup_rel D f b) as [E|E].
  - rewrite E, H. reflexivity.
  - rewrite E in H. inversion H; subst. contradiction.
Qed.

(* ================================================================== *)
(* IN with repeated keys: the structural proof of Wire/CborProofs.v (dec_ser) for the extended decoder; the only
   change is in the map lemmas, which no longer ask the keys to be pairwise different *)

Definition keys_hash (D : dopts) (l : list (wtree * wtree)) : Prop :=
  Forall (fun kv => hashable (keynorm (go_of_t D (data_of (fst kv)))) = true) l.

(* lib_supports_t without "the keys of a map are pairwise different" *)
Fixpoint lib_supports_dup (D : dopts) (t : wtree) : Prop :=
  match t with
  | TUint _ n => do_signed D = true -> n < 9223372036854775808
  | TNint _ n => n < 9223372036854775808
  | TBytes _ s | TText _ s => N.of_nat (length s) < 9223372036854775808
  | TBytesI cs | TTextI cs => Forall (fun c => N.of_nat (length (snd c)) < 9223372036854775808) cs
  | TArr _ l | TArrI l => (fix go l := match l with [] => True | x :: r => lib_supports_dup D x /\ go r end) l
                          /\ N.of_nat (length l) < 9223372036854775808
  | TMap _ l | TMapI l =>
      (fix go l := match l with [] => True | kv :: r => lib_supports_dup D (fst kv) /\ lib_supports_dup D (snd kv) /\ go r end) l
      /\ keys_hash D l /\ N.of_nat (length l) < 9223372036854775808
  | TTag _ t v =>
      (5 < t /\ lib_supports_dup D v)
      \/ (t = 0 /\ lib_supports_dup D v /\
          match text_of v with Some s => exists i, parse_rfc3339 s = Ok i | None => False end)
  | TSimple v => 20 <= v
  | TSimple1 _ => False
  | _ => True
  end.

Lemma sup_dup_str : forall D t s, text_of t = Some s -> lib_supports_dup D t -> lib_supports_t D t.
Proof. intros D t s H Hs. destruct t; cbn [text_of] in H; try discriminate; exact Hs. Qed.

Lemma decd_S : forall D f' d r bd b1,
  decd D (S f') d r (bd :: b1) =
  dec_body D f' (decd D f') (arr_def_d D f') (arr_indef_d D f') (map_def_d D f') (map_indef_d D f') d r bd b1.
Proof. reflexivity. Qed.

Definition decd_ok (D : dopts) (t : wtree) : Prop :=
  forall f d r rest, (2 * length (ser t) + 1 <= f)%nat -> (d + tdepth_t D t < maxdepth D)%Z ->
  fst (decd D f d r (ser t ++ rest)) = Ok (go_of_t D (data_of t), rest).

Lemma arr_def_d_S : forall D f' d r n b,
  arr_def_d D (S f') d r n b =
  if n =? 0 then (Ok ([], b), r)
  else doI (x, b1) <- decd D f' d r b ;; doI (xs, b2) <- arr_def_d D f' d r (n - 1) b1 ;; (Ok (x :: xs, b2), r).
Proof. reflexivity. Qed.

Lemma arr_indef_d_S : forall D f' d r bd b1,
  arr_indef_d D (S f') d r (bd :: b1) =
  if bd =? bdBreak then (Ok ([], b1), r)
  else doI (x, b2) <- decd D f' d r (bd :: b1) ;; doI (xs, b3) <- arr_indef_d D f' d r b2 ;; (Ok (x :: xs, b3), r).
Proof. reflexivity. Qed.

Lemma arr_def_d_ser : forall D l, Forall (decd_ok D) l ->
  forall f d r rest, (2 * length (flat_map ser l) + 2 <= f)%nat ->
  (d + fold_right (fun x m => Z.max (tdepth_t D x) m) 0 l < maxdepth D)%Z ->
  fst (arr_def_d D f d r (N.of_nat (length l)) (flat_map ser l ++ rest))
  = Ok (map (fun t => go_of_t D (data_of t)) l, rest).
Proof.
  intros D l H. induction H as [| x l Hx Hl IH]; intros f d r rest Hf Hd.
  - destruct f; [simpl in Hf; lia |]. rewrite arr_def_d_S. reflexivity.
  - destruct f; [simpl in Hf; lia |]. rewrite arr_def_d_S.
    replace (N.of_nat (length (x :: l)) =? 0) with false by (symmetry; apply N.eqb_neq; cbn [length]; lia).
    cbn [flat_map] in *. rewrite app_length in Hf. rewrite <- app_assoc. cbn [fold_right] in Hd.
    pose proof (ser_len_pos x) as Hp.
    erewrite fst_bindI by (apply Hx; lia). cbv beta iota.
    replace (N.of_nat (length (x :: l)) - 1) with (N.of_nat (length l)) by (cbn [length]; lia).
    erewrite fst_bindI by (apply IH; lia). reflexivity.
Qed.

Lemma arr_indef_d_ser : forall D l, Forall (decd_ok D) l -> Forall twf l ->
  forall f d r rest, (2 * length (flat_map ser l) + 2 <= f)%nat ->
  (d + fold_right (fun x m => Z.max (tdepth_t D x) m) 0 l < maxdepth D)%Z ->
  fst (arr_indef_d D f d r (flat_map ser l ++ 255 :: rest))
  = Ok (map (fun t => go_of_t D (data_of t)) l, rest).
Proof.
  intros D l H. induction H as [| x l Hx Hl IH]; intros Hw f d r rest Hf Hd.
  - destruct f; [simpl in Hf; lia |]. cbn [flat_map app]. rewrite arr_indef_d_S. reflexivity.
  - inversion Hw as [| ? ? Hwx Hwl]; subst.
    destruct f; [simpl in Hf; lia |].
    cbn [flat_map] in *. rewrite app_length in Hf. rewrite <- app_assoc. cbn [fold_right] in Hd.
    destruct (ser_hd x Hwx) as (bd & tl & E & Hne).
    assert (E2 : ser x ++ flat_map ser l ++ 255 :: rest = bd :: (tl ++ flat_map ser l ++ 255 :: rest)) by (rewrite E; reflexivity).
    pose proof (ser_len_pos x) as Hp.
    rewrite E2. rewrite arr_indef_d_S.
    replace (bd =? bdBreak) with false by (symmetry; apply N.eqb_neq; exact Hne).
    rewrite <- E2.
    erewrite fst_bindI by (apply Hx; lia). cbv beta iota.
    erewrite fst_bindI by (apply IH; [assumption | lia | lia]). reflexivity.
Qed.

Lemma map_def_d_S : forall D f' d r n seen b,
  map_def_d D (S f') d r n seen b =
  if n =? 0 then (Ok ([], b), r)
  else doI (kv, b2) <- map_entry_d (decd D f') d r b ;;
       doI (kvs, b3) <- map_def_d D f' d r (n - 1) seen b2 ;; (Ok (kv :: kvs, b3), r).
Proof. reflexivity. Qed.

Lemma map_indef_d_S : forall D f' d r seen bd b0,
  map_indef_d D (S f') d r seen (bd :: b0) =
  if bd =? bdBreak then (Ok ([], b0), r)
  else doI (kv, b2) <- map_entry_d (decd D f') d r (bd :: b0) ;;
       doI (kvs, b3) <- map_indef_d D f' d r seen b2 ;; (Ok (kv :: kvs, b3), r).
Proof. reflexivity. Qed.

Lemma map_entry_d_ser : forall D k v, decd_ok D k -> decd_ok D v -> twf v ->
  forall f' d r rest,
  (2 * length (ser k) + 1 <= f')%nat -> (2 * length (ser v) + 1 <= f')%nat ->
  (d + tdepth_t D k < maxdepth D)%Z -> (d + tdepth_t D v < maxdepth D)%Z ->
  hashable (keynorm (go_of_t D (data_of k))) = true ->
  fst (map_entry_d (decd D f') d r (ser k ++ ser v ++ rest))
  = Ok (keynorm (go_of_t D (data_of k)), go_of_t D (data_of v), rest).
Proof.
  intros D k v Hk Hv Hwv f' d r rest Hfk Hfv Hdk Hdv Hh.
  unfold map_entry_d.
  erewrite fst_bindI by (apply Hk; assumption). cbv beta iota.
  destruct (ser_hd v Hwv) as (bd & tl & E & _).
  assert (E2 : ser v ++ rest = bd :: (tl ++ rest)) by (rewrite E; reflexivity).
  rewrite E2. rewrite Hh. cbn [negb]. rewrite <- E2.
  erewrite fst_bindI by (apply Hv; assumption). reflexivity.
Qed.

Lemma map_def_d_ser : forall D l,
  Forall (fun kv => decd_ok D (fst kv) /\ decd_ok D (snd kv)) l ->
  Forall (fun kv => twf (fst kv) /\ twf (snd kv)) l ->
  forall f d r seen rest, (2 * length (flat_map pair_ser l) + 2 <= f)%nat ->
  (d + fold_right (pair_depth D) 0 l < maxdepth D)%Z ->
  keys_hash D l ->
  fst (map_def_d D f d r (N.of_nat (length l)) seen (flat_map pair_ser l ++ rest))
  = Ok (map (pair_go D) l, rest).
Proof.
  intros D l H. induction H as [| kv l [Hk Hv] Hl IH]; intros Hw f d r seen rest Hf Hd Hkeys.
  - destruct f; [simpl in Hf; lia |]. rewrite map_def_d_S. reflexivity.
  - inversion Hw as [| ? ? [Hwk Hwv] Hwl]; subst.
    destruct f; [simpl in Hf; lia |]. rewrite map_def_d_S.
    replace (N.of_nat (length (kv :: l)) =? 0) with false by (symmetry; apply N.eqb_neq; cbn [length]; lia).
    cbn [flat_map] in *. unfold pair_ser at 1 in Hf. unfold pair_ser at 1.
    rewrite !app_length in Hf. rewrite <- !app_assoc. cbn [fold_right] in Hd. unfold pair_depth at 1 in Hd.
    pose proof (ser_len_pos (fst kv)) as Hp1. pose proof (ser_len_pos (snd kv)) as Hp2.
    inversion Hkeys as [| ? ? Hh Hkeys']; subst. clear Hkeys. rename Hkeys' into Hkeys.
    erewrite fst_bindI by (apply map_entry_d_ser; try assumption; lia). cbv beta iota. cbn [fst].
    replace (N.of_nat (length (kv :: l)) - 1) with (N.of_nat (length l)) by (cbn [length]; lia).
    erewrite fst_bindI by (apply IH; [assumption | lia | lia | exact Hkeys]). reflexivity.
Qed.

Lemma map_indef_d_ser : forall D l,
  Forall (fun kv => decd_ok D (fst kv) /\ decd_ok D (snd kv)) l ->
  Forall (fun kv => twf (fst kv) /\ twf (snd kv)) l ->
  forall f d r seen rest, (2 * length (flat_map pair_ser l) + 2 <= f)%nat ->
  (d + fold_right (pair_depth D) 0 l < maxdepth D)%Z ->
  keys_hash D l ->
  fst (map_indef_d D f d r seen (flat_map pair_ser l ++ 255 :: rest))
  = Ok (map (pair_go D) l, rest).
Proof.
  intros D l H. induction H as [| kv l [Hk Hv] Hl IH]; intros Hw f d r seen rest Hf Hd Hkeys.
  - destruct f; [simpl in Hf; lia |]. cbn [flat_map app]. rewrite map_indef_d_S. reflexivity.
  - inversion Hw as [| ? ? [Hwk Hwv] Hwl]; subst.
    destruct f; [simpl in Hf; lia |].
    cbn [flat_map] in *. unfold pair_ser at 1 in Hf. unfold pair_ser at 1.
    rewrite !app_length in Hf. rewrite <- !app_assoc. cbn [fold_right] in Hd. unfold pair_depth at 1 in Hd.
    pose proof (ser_len_pos (fst kv)) as Hp1. pose proof (ser_len_pos (snd kv)) as Hp2.
    inversion Hkeys as [| ? ? Hh Hkeys']; subst. clear Hkeys. rename Hkeys' into Hkeys.
    destruct (ser_hd (fst kv) Hwk) as (bd & tl & E & Hne).
    assert (E2 : ser (fst kv) ++ ser (snd kv) ++ flat_map pair_ser l ++ 255 :: rest
                 = bd :: (tl ++ ser (snd kv) ++ flat_map pair_ser l ++ 255 :: rest)) by (rewrite E; reflexivity).
    rewrite E2. rewrite map_indef_d_S.
    replace (bd =? bdBreak) with false by (symmetry; apply N.eqb_neq; exact Hne).
    rewrite <- E2.
    erewrite fst_bindI by (apply map_entry_d_ser; try assumption; lia). cbv beta iota. cbn [fst].
    erewrite fst_bindI by (apply IH; [assumption | lia | lia | exact Hkeys]). reflexivity.
Qed.

Theorem decd_ser : forall D t, twf t -> lib_supports_dup D t -> decd_ok D t.
Proof.
  intros D t. induction t using wtree_ind'; intros Hw Hs f d r rest Hf Hd;
    (destruct f as [| f']; [exfalso; lia |]).
  - (* TUint *)
    cbn [ser twf lib_supports_dup data_of go_of_t] in *. rewrite shead_cons. cbn [app]. rewrite decd_S. unfold dec_body.
    pose proof (ai_of_le _ _ Hw). rewrite kind_head, hd_mod by lia. rewrite (proj1 kind_vals). cbv iota.
    rewrite fst_liftI, read_uint_head by assumption. cbn [bind].
    destruct (do_signed D); [| reflexivity].
    rewrite int64v_pos by (apply Hs; reflexivity). reflexivity.
  - (* TNint *)
    cbn [ser twf lib_supports_dup data_of go_of_t] in *. rewrite shead_cons. cbn [app]. rewrite decd_S. unfold dec_body.
    pose proof (ai_of_le _ _ Hw). rewrite kind_head, hd_mod by lia. rewrite (proj1 (proj2 kind_vals)). cbv iota.
    rewrite fst_liftI, read_uint_head by assumption. cbn [bind].
    rewrite int64v_neg by assumption. reflexivity.
  - (* TBytes *)
    cbn [ser twf lib_supports_dup data_of go_of_t] in *. destruct Hw as [Hw _]. rewrite shead_cons. rewrite <- app_assoc. cbn [app].
    rewrite decd_S. unfold dec_body.
    pose proof (ai_of_le _ _ Hw). rewrite kind_head by lia. rewrite (proj1 (proj2 (proj2 kind_vals))). cbv iota.
    rewrite fst_liftI. unfold dec_str_body.
    rewrite (head_neq 2 _ bdIndefBytes), (head_neq 2 _ bdIndefString) by (assumption || reflexivity). cbn [orb].
    rewrite hd_mod by lia. rewrite dec_len_head by assumption. cbn [bind]. rewrite take_app. reflexivity.
  - (* TBytesI *)
    cbn [ser twf lib_supports_dup data_of go_of_t] in *. cbn [app]. rewrite decd_S. unfold dec_body.
    change (kind_of 95) with KBytes. cbv iota. rewrite fst_liftI. unfold dec_str_body.
    change ((95 =? bdIndefBytes) || (95 =? bdIndefString)) with true. cbv iota. change (95 / 32) with 2.
    change (flat_map (fun c => shead 2 (fst c) (N.of_nat (length (snd c))) ++ snd c) cs) with (flat_map (chunk_ser 2) cs).
    rewrite <- app_assoc. cbn [app].
    rewrite dec_chunks_ser; [reflexivity | assumption | assumption |].
    rewrite !app_length in Hf. cbn [length] in Hf.
    assert (length cs <= length (flat_map (fun c => shead 2 (fst c) (N.of_nat (length (snd c))) ++ snd c) cs))%nat
      by (apply flat_len_ge; intros; rewrite shead_cons; cbn [app length]; lia).
    lia.
  - (* TText *)
    cbn [ser twf lib_supports_dup data_of go_of_t] in *. destruct Hw as [Hw _]. rewrite shead_cons. rewrite <- app_assoc. cbn [app].
    rewrite decd_S. unfold dec_body.
    pose proof (ai_of_le _ _ Hw). rewrite kind_head by lia. rewrite (proj1 (proj2 (proj2 (proj2 kind_vals)))). cbv iota.
    rewrite fst_liftI. unfold dec_str_body.
    rewrite (head_neq 3 _ bdIndefBytes), (head_neq 3 _ bdIndefString) by (assumption || reflexivity). cbn [orb].
    rewrite hd_mod by lia. rewrite dec_len_head by assumption. cbn [bind]. rewrite take_app. reflexivity.
  - (* TTextI *)
    cbn [ser twf lib_supports_dup data_of go_of_t] in *. cbn [app]. rewrite decd_S. unfold dec_body.
    change (kind_of 127) with KText. cbv iota. rewrite fst_liftI. unfold dec_str_body.
    change ((127 =? bdIndefBytes) || (127 =? bdIndefString)) with true. cbv iota. change (127 / 32) with 3.
    change (flat_map (fun c => shead 3 (fst c) (N.of_nat (length (snd c))) ++ snd c) cs) with (flat_map (chunk_ser 3) cs).
    rewrite <- app_assoc. cbn [app].
    rewrite dec_chunks_ser; [reflexivity | assumption | assumption |].
    rewrite !app_length in Hf. cbn [length] in Hf.
    assert (length cs <= length (flat_map (fun c => shead 3 (fst c) (N.of_nat (length (snd c))) ++ snd c) cs))%nat
      by (apply flat_len_ge; intros; rewrite shead_cons; cbn [app length]; lia).
    lia.
  - (* TArr *)
    cbn [ser twf lib_supports_dup data_of go_of_t tdepth_t] in *. destruct Hw as [Hw Hwl]. destruct Hs as [Hsl Hlen].
    apply fix_Forall in Hwl. apply fix_Forall in Hsl.
    assert (Hok : Forall (decd_ok D) l).
    { rewrite Forall_forall in *. intros x Hx. apply H; auto. }
    rewrite shead_cons. rewrite <- app_assoc. cbn [app]. rewrite decd_S. unfold dec_body.
    pose proof (ai_of_le _ _ Hw). rewrite kind_head by lia. rewrite (proj1 (proj2 (proj2 (proj2 (proj2 kind_vals))))). cbv iota.
    rewrite (head_neq 4 _ bdIndefArray) by (assumption || reflexivity).
    rewrite hd_mod by lia.
    erewrite fst_bindI by (rewrite fst_liftI; apply dec_len_head; assumption). cbv beta iota.
    pose proof (fold_max_nonneg (tdepth_t D) l) as Hnn.
    replace (depth_ok D d) with true by (symmetry; unfold depth_ok; apply Z.ltb_lt; lia).
    rewrite app_length, shead_cons in Hf. cbn [length] in Hf.
    erewrite fst_bindI by (apply arr_def_d_ser; [assumption | lia | lia]). cbv beta iota.
    rewrite map_map. reflexivity.
  - (* TArrI *)
    cbn [ser twf lib_supports_dup data_of go_of_t tdepth_t] in *. destruct Hs as [Hsl Hlen].
    apply fix_Forall in Hw. apply fix_Forall in Hsl.
    assert (Hok : Forall (decd_ok D) l).
    { rewrite Forall_forall in *. intros x Hx. apply H; auto. }
    cbn [app]. rewrite decd_S. unfold dec_body.
    change (kind_of 159) with KArr. cbv iota. change (159 =? bdIndefArray) with true. cbv iota.
    pose proof (fold_max_nonneg (tdepth_t D) l) as Hnn.
    replace (depth_ok D d) with true by (symmetry; unfold depth_ok; apply Z.ltb_lt; lia).
    rewrite !app_length in Hf. cbn [length] in Hf. rewrite <- app_assoc. cbn [app].
    erewrite fst_bindI by (apply arr_indef_d_ser; [assumption | assumption | lia | lia]). cbv beta iota.
    rewrite map_map. reflexivity.
  - (* TMap *)
    cbn [ser twf lib_supports_dup data_of go_of_t tdepth_t] in *. destruct Hw as [Hw Hwl]. destruct Hs as (Hsl & Hkeys & Hlen).
    apply fix_Forall2 in Hwl. apply fix_Forall2 in Hsl.
    assert (Hok : Forall (fun kv => decd_ok D (fst kv) /\ decd_ok D (snd kv)) l).
    { rewrite Forall_forall in *. intros x Hx. specialize (H x Hx). specialize (Hwl x Hx). specialize (Hsl x Hx). split; [apply (proj1 H) | apply (proj2 H)]; tauto. }
    rewrite shead_cons. rewrite <- app_assoc. cbn [app]. rewrite decd_S. unfold dec_body.
    pose proof (ai_of_le _ _ Hw). rewrite kind_head by lia. rewrite (proj1 (proj2 (proj2 (proj2 (proj2 (proj2 kind_vals)))))). cbv iota.
    rewrite (head_neq 5 _ bdIndefMap) by (assumption || reflexivity).
    rewrite hd_mod by lia.
    erewrite fst_bindI by (rewrite fst_liftI; apply dec_len_head; assumption). cbv beta iota.
    pose proof (fold_max_nonneg (fun kv => Z.max (tdepth_t D (fst kv)) (tdepth_t D (snd kv))) l) as Hnn.
    replace (depth_ok D d) with true by (symmetry; unfold depth_ok; apply Z.ltb_lt; lia).
    rewrite app_length, shead_cons in Hf. cbn [length] in Hf.
    change (flat_map (fun kv => ser (fst kv) ++ ser (snd kv)) l) with (flat_map pair_ser l) in *.
    erewrite fst_bindI by (apply map_def_d_ser; [assumption | assumption | lia | exact ltac:(unfold pair_depth; lia) | assumption]).
    cbv beta iota. rewrite map_map. reflexivity.
  - (* TMapI *)
    cbn [ser twf lib_supports_dup data_of go_of_t tdepth_t] in *. destruct Hs as (Hsl & Hkeys & Hlen).
    apply fix_Forall2 in Hw. apply fix_Forall2 in Hsl.
    assert (Hok : Forall (fun kv => decd_ok D (fst kv) /\ decd_ok D (snd kv)) l).
    { rewrite Forall_forall in *. intros x Hx. specialize (H x Hx). specialize (Hw x Hx). specialize (Hsl x Hx). split; [apply (proj1 H) | apply (proj2 H)]; tauto. }
    cbn [app]. rewrite decd_S. unfold dec_body.
    change (kind_of 191) with KMap. cbv iota. change (191 =? bdIndefMap) with true. cbv iota.
    pose proof (fold_max_nonneg (fun kv => Z.max (tdepth_t D (fst kv)) (tdepth_t D (snd kv))) l) as Hnn.
    replace (depth_ok D d) with true by (symmetry; unfold depth_ok; apply Z.ltb_lt; lia).
    rewrite !app_length in Hf. cbn [length] in Hf. rewrite <- app_assoc. cbn [app].
    change (flat_map (fun kv => ser (fst kv) ++ ser (snd kv)) l) with (flat_map pair_ser l) in *.
    erewrite fst_bindI by (apply map_indef_d_ser; [assumption | assumption | lia | exact ltac:(unfold pair_depth; lia) | assumption]).
    cbv beta iota. rewrite map_map. reflexivity.
  - (* TTag *)
    cbn [ser twf lib_supports_dup data_of go_of_t tdepth_t] in *. destruct Hw as [Hw Hwv].
    rewrite shead_cons. rewrite <- app_assoc. cbn [app]. rewrite decd_S. unfold dec_body.
    pose proof (ai_of_le _ _ Hw). rewrite kind_head by lia.
    rewrite (proj1 (proj2 (proj2 (proj2 (proj2 (proj2 (proj2 kind_vals))))))). cbv iota.
    rewrite hd_mod by lia.
    erewrite fst_bindI by (rewrite fst_liftI; apply read_uint_head; assumption). cbv beta iota.
    rewrite app_length, shead_cons in Hf. cbn [length] in Hf.
    destruct Hs as [[Ht Hsv] | (Ht & Hsv & Htx)].
    + replace (t =? 0) with false in * by (symmetry; apply N.eqb_neq; lia).
      rewrite dec_tag_plain by assumption.
      pose proof (tdepth_nonneg D t0) as Hnn.
      destruct ((t =? 55799) || do_skiptags D).
      * apply IHt; [assumption | assumption | lia | lia].
      * replace (depth_ok D d) with true by (symmetry; unfold depth_ok; apply Z.ltb_lt; lia).
        erewrite fst_bindI by (apply IHt; [assumption | assumption | lia | lia]). reflexivity.
    + subst t. unfold dec_tag. cbn [N.eqb]. rewrite fst_liftI.
      destruct (text_of t0) as [s |] eqn:Etx; [| contradiction]. destruct Htx as [i Hi].
      rewrite (dec_bytes_fresh_str D t0 s f' rest Hwv (sup_dup_str D t0 s Etx Hsv) Etx) by lia. cbn [bind].
      rewrite Hi. cbn [bind].
      rewrite (text_of_data t0 s Etx). unfold time_item. rewrite Hi. reflexivity.
  - (* TSimple *)
    cbn [ser twf lib_supports_dup data_of go_of_t] in *. cbn [app]. rewrite decd_S. unfold dec_body.
    assert (C : v = 20 \/ v = 21 \/ v = 22 \/ v = 23) by lia.
    destruct C as [C | [C | [C | C]]]; subst v; reflexivity.
  - (* TSimple1 *)
    cbn [lib_supports_dup] in Hs. contradiction.
  - (* THalf *)
    cbn [ser twf lib_supports_dup data_of go_of_t] in *. cbn [app]. rewrite decd_S. unfold dec_body.
    change (kind_of 249) with KSimple. cbv iota. unfold dec_simple.
    change ((249 =? bdNil) || (249 =? bdUndefined)) with false. change (249 =? bdFalse) with false.
    change (249 =? bdTrue) with false. change (249 =? bdFloat16) with true. cbv iota.
    rewrite fst_liftI. rewrite (take_sbe 2). cbn [bind]. rewrite be_get_put by (simpl; lia).
    rewrite half_all by assumption. reflexivity.
  - (* TSingle *)
    cbn [ser twf lib_supports_dup data_of go_of_t] in *. cbn [app]. rewrite decd_S. unfold dec_body.
    change (kind_of 250) with KSimple. cbv iota. unfold dec_simple.
    change ((250 =? bdNil) || (250 =? bdUndefined)) with false. change (250 =? bdFalse) with false.
    change (250 =? bdTrue) with false. change (250 =? bdFloat16) with false. change (250 =? bdFloat32) with true. cbv iota.
    rewrite fst_liftI. rewrite (take_sbe 4). cbn [bind]. rewrite be_get_put by (simpl; lia). reflexivity.
  - (* TDouble *)
    cbn [ser twf lib_supports_dup data_of go_of_t] in *. cbn [app]. rewrite decd_S. unfold dec_body.
    change (kind_of 251) with KSimple. cbv iota. unfold dec_simple.
    change ((251 =? bdNil) || (251 =? bdUndefined)) with false. change (251 =? bdFalse) with false.
    change (251 =? bdTrue) with false. change (251 =? bdFloat16) with false. change (251 =? bdFloat32) with false.
    change (251 =? bdFloat64) with true. cbv iota.
    rewrite fst_liftI. rewrite (take_sbe 8). cbn [bind]. rewrite be_get_put by (simpl; lia). reflexivity.
Qed.

(* IN, repeated keys included: the entries as read, then the Go map *)
Lemma dup_in : forall (D : dopts) (t : wtree) (rest : list N),
  twf t -> lib_supports_dup D t -> (tdepth_t D t < maxdepth D)%Z ->
  dec_naked_dup D (fuel_for (ser t ++ rest)) (ser t ++ rest) = Ok (map_view (go_of_t D (data_of t)), rest).
Proof.
  intros D t rest Hw Hs Hd. unfold dec_naked_dup, dec_naked_dup_raw.
  rewrite (decd_ser D t Hw Hs); [reflexivity| |lia]. unfold fuel_for. rewrite app_length. lia.
Qed.

(* ================================================================== *)
(* the laws of the view: Go's == on hashable keys is a partial equivalence, and assign_all is
   "one entry per key, the value of the last occurrence, at the place of the first" *)

Lemma eqbl_eq : forall a b, eqbl a b = true <-> a = b.
Proof.
  induction a as [|x a IH]; intros [|y b]; cbn [eqbl]; split; intros H; try discriminate; try reflexivity.
  - apply andb_true_iff in H. destruct H as [H1 H2]. apply N.eqb_eq in H1. apply IH in H2. subst. reflexivity.
  - inversion H; subst. rewrite N.eqb_refl. cbn [andb]. apply IH. reflexivity.
Qed.

Lemma f64_eq_sym : forall a b, f64_eq a b = f64_eq b a.
Proof.
  intros a b. unfold f64_eq. rewrite (N.eqb_sym a b).
  destruct (f64_is_nan a), (f64_is_nan b), (b =? a), (f64_sig a =? 0), (f64_sig b =? 0), (f64_exp a =? 0), (f64_exp b =? 0); reflexivity.
Qed.

Lemma f64_eq_trans : forall a b c, f64_eq a b = true -> f64_eq b c = true -> f64_eq a c = true.
Proof.
  intros a b c H1 H2. unfold f64_eq in *.
  destruct (N.eqb_spec a b) as [->|Nab].
  - destruct (N.eqb_spec b c) as [->|Nbc]; [exact H1|exact H2].
  - destruct (N.eqb_spec b c) as [<-|Nbc]; [rewrite (proj2 (N.eqb_neq a b) Nab); exact H1|].
    destruct (f64_is_nan a), (f64_is_nan b), (f64_is_nan c), (f64_sig a =? 0), (f64_sig b =? 0), (f64_sig c =? 0),
      (f64_exp a =? 0), (f64_exp b =? 0), (f64_exp c =? 0); cbn in *; try discriminate; rewrite ?orb_true_r; reflexivity.
Qed.

Lemma key_eqb_sym : forall a b, key_eqb a b = key_eqb b a.
Proof.
  intros a b. destruct a, b; cbn [key_eqb]; try reflexivity.
  - destruct b0, b; reflexivity.
  - apply Z.eqb_sym.
  - apply N.eqb_sym.
  - apply f64_eq_sym.
  - destruct (eqbl s s0) eqn:E1, (eqbl s0 s) eqn:E2; try reflexivity.
    + apply eqbl_eq in E1. subst. rewrite (proj2 (eqbl_eq s0 s0) eq_refl) in E2. discriminate.
    + apply eqbl_eq in E2. subst. rewrite (proj2 (eqbl_eq s s) eq_refl) in E1. discriminate.
  - rewrite (Z.eqb_sym sec sec0), (N.eqb_sym nsec nsec0). reflexivity.
Qed.

Lemma key_eqb_trans : forall a b c, key_eqb a b = true -> key_eqb b c = true -> key_eqb a c = true.
Proof.
  intros a b c H1 H2. destruct a, b; cbn [key_eqb] in H1; try discriminate; destruct c; cbn [key_eqb] in *; try discriminate.
  - reflexivity.
  - destruct b0, b, b1; cbn in *; try discriminate; reflexivity.
  - apply Z.eqb_eq in H1, H2. subst. apply Z.eqb_refl.
  - apply N.eqb_eq in H1, H2. subst. apply N.eqb_refl.
  - eapply f64_eq_trans; eassumption.
  - apply eqbl_eq in H1, H2. subst. apply eqbl_eq. reflexivity.
  - apply andb_true_iff in H1, H2. destruct H1 as [A1 B1]. destruct H2 as [A2 B2].
    apply Z.eqb_eq in A1, A2. apply N.eqb_eq in B1, B2. subst. rewrite Z.eqb_refl, N.eqb_refl. reflexivity.
Qed.

(* what a Go map lookup m[k] finds *)
Fixpoint lookup (k : item) (acc : list (item * item)) : option item :=
  match acc with
  | [] => None
  | e :: r => if key_eqb k (fst e) then Some (snd e) else lookup k r
  end.

(* the value of the last entry of the stream whose key equals k *)
Fixpoint last_value (k : item) (l : list (item * item)) : option item :=
  match l with
  | [] => None
  | e :: r => match last_value k r with Some v => Some v | None => if key_eqb k (fst e) then Some (snd e) else None end
  end.

Lemma lookup_assoc_set : forall k k1 v1 acc,
  lookup k (assoc_set k1 v1 acc) = if key_eqb k k1 then Some v1 else lookup k acc.
Proof.
  intros k k1 v1. induction acc as [|e acc IH].
  - cbn [assoc_set lookup fst snd]. destruct (key_eqb k k1); reflexivity.
  - cbn [assoc_set]. destruct (key_eqb k1 (fst e)) eqn:E1.
    + cbn [lookup fst snd]. destruct (key_eqb k k1) eqn:E3; [reflexivity|].
      destruct (key_eqb k (fst e)) eqn:E2; [|reflexivity]. exfalso.
      assert (key_eqb k k1 = true).
      { apply (key_eqb_trans k (fst e) k1 E2). rewrite key_eqb_sym. exact E1. }
      congruence.
    + cbn [lookup]. destruct (key_eqb k (fst e)) eqn:E2.
      * destruct (key_eqb k k1) eqn:E3; [|reflexivity]. exfalso.
        assert (key_eqb k1 (fst e) = true).
        { apply (key_eqb_trans k1 k (fst e)); [rewrite key_eqb_sym; exact E3|exact E2]. }
        congruence.
      * apply IH.
Qed.

(* LAST WINS: looking a key up in the Go map gives the value of the last stream entry with that key *)
Lemma lookup_fold : forall l acc k,
  lookup k (fold_left (fun a kv => assoc_set (fst kv) (snd kv) a) l acc) =
  match last_value k l with Some v => Some v | None => lookup k acc end.
Proof.
  induction l as [|e l IH]; intros acc k; [reflexivity|]. cbn [fold_left last_value]. rewrite IH.
  destruct (last_value k l); [reflexivity|]. rewrite lookup_assoc_set. destruct (key_eqb k (fst e)); reflexivity.
Qed.

Lemma view_last_wins : forall l k, lookup k (assign_all l) = last_value k l.
Proof. intros. unfold assign_all. rewrite lookup_fold. destruct (last_value k l); reflexivity. Qed.

(* ... and the key object found there is the last one too (observable for +0 / -0) *)
Fixpoint lookup_key (k : item) (acc : list (item * item)) : option item :=
  match acc with
  | [] => None
  | e :: r => if key_eqb k (fst e) then Some (fst e) else lookup_key k r
  end.
Fixpoint last_key (k : item) (l : list (item * item)) : option item :=
  match l with
  | [] => None
  | e :: r => match last_key k r with Some v => Some v | None => if key_eqb k (fst e) then Some (fst e) else None end
  end.

Lemma lookup_key_assoc_set : forall k k1 v1 acc,
  lookup_key k (assoc_set k1 v1 acc) = if key_eqb k k1 then Some k1 else lookup_key k acc.
Proof.
  intros k k1 v1. induction acc as [|e acc IH].
  - cbn [assoc_set lookup_key fst]. destruct (key_eqb k k1); reflexivity.
  - cbn [assoc_set]. destruct (key_eqb k1 (fst e)) eqn:E1.
    + cbn [lookup_key fst]. destruct (key_eqb k k1) eqn:E3; [reflexivity|].
      destruct (key_eqb k (fst e)) eqn:E2; [|reflexivity]. exfalso.
      assert (key_eqb k k1 = true).
      { apply (key_eqb_trans k (fst e) k1 E2). rewrite key_eqb_sym. exact E1. }
      congruence.
    + cbn [lookup_key]. destruct (key_eqb k (fst e)) eqn:E2.
      * destruct (key_eqb k k1) eqn:E3; [|reflexivity]. exfalso.
        assert (key_eqb k1 (fst e) = true).
        { apply (key_eqb_trans k1 k (fst e)); [rewrite key_eqb_sym; exact E3|exact E2]. }
        congruence.
      * apply IH.
Qed.

Lemma view_last_key : forall l k, lookup_key k (assign_all l) = last_key k l.
Proof.
  intros l k. unfold assign_all.
  assert (G : forall acc, lookup_key k (fold_left (fun a kv => assoc_set (fst kv) (snd kv) a) l acc) =
                          match last_key k l with Some v => Some v | None => lookup_key k acc end).
  { induction l as [|e l IH]; intros acc; [reflexivity|]. cbn [fold_left last_key]. rewrite IH.
    destruct (last_key k l); [reflexivity|]. rewrite lookup_key_assoc_set. destruct (key_eqb k (fst e)); reflexivity. }
  rewrite G. destruct (last_key k l); reflexivity.
Qed.

(* ONE ENTRY PER KEY: later keys differ from earlier ones *)
Fixpoint distinct_keys (acc : list (item * item)) : Prop :=
  match acc with
  | [] => True
  | e :: r => Forall (fun e' => key_eqb (fst e') (fst e) = false) r /\ distinct_keys r
  end.

Lemma assoc_set_keys : forall (P : item -> Prop) k v acc,
  Forall (fun e => P (fst e)) acc -> P k -> Forall (fun e => P (fst e)) (assoc_set k v acc).
Proof.
  intros P k v. induction acc as [|e acc IH]; intros Ha Hk; cbn [assoc_set].
  - constructor; [exact Hk|constructor].
  - inversion Ha as [|? ? He Hr]; subst. destruct (key_eqb k (fst e)).
    + constructor; [exact Hk|exact Hr].
    + constructor; [exact He|apply IH; assumption].
Qed.

Lemma assoc_set_distinct : forall k v acc, distinct_keys acc -> distinct_keys (assoc_set k v acc).
Proof.
  intros k v. induction acc as [|e acc IH]; intros H; cbn [assoc_set].
  - split; [constructor|exact I].
  - destruct H as [H1 H2]. destruct (key_eqb k (fst e)) eqn:E.
    + split; [|exact H2]. cbn [fst]. rewrite Forall_forall in *. intros x Hx. specialize (H1 x Hx).
      destruct (key_eqb (fst x) k) eqn:E2; [|reflexivity].
      rewrite (key_eqb_trans (fst x) k (fst e) E2 E) in H1. discriminate.
    + split; [|apply IH; exact H2].
      apply (assoc_set_keys (fun x => key_eqb x (fst e) = false)); assumption.
Qed.

Lemma view_distinct : forall l, distinct_keys (assign_all l).
Proof.
  intros l. unfold assign_all. assert (G : forall acc, distinct_keys acc ->
    distinct_keys (fold_left (fun a kv => assoc_set (fst kv) (snd kv) a) l acc)).
  { induction l as [|e l IH]; intros acc H; [exact H|]. cbn [fold_left]. apply IH. apply assoc_set_distinct. exact H. }
  apply G. exact I.
Qed.

(* the view of a view is itself *)
Lemma fresh_of_distinct : forall acc seen, distinct_keys acc ->
  Forall (fun e => existsb (key_eqb (fst e)) seen = false) acc -> fresh_keys seen acc.
Proof.
  induction acc as [|e acc IH]; intros seen Hd Hs; [exact I|]. destruct Hd as [H1 H2]. inversion Hs as [|? ? He Hr]; subst.
  split; [exact He|]. apply IH; [exact H2|].
  rewrite Forall_forall in *. intros x Hx. cbn [existsb]. rewrite (H1 x Hx). cbn [orb]. apply Hr. exact Hx.
Qed.

Lemma view_idem : forall l, assign_all (assign_all l) = assign_all l.
Proof.
  intros l. unfold assign_all at 1. rewrite assign_fresh; [reflexivity|]. cbn [map rev].
  apply fresh_of_distinct; [apply view_distinct|]. apply Forall_forall. intros; reflexivity.
Qed.

(* Wire/Json — executable model of the STRUCTURAL level of the json driver
   (/repo/codec/json.go + json.base.go; the default build compiles the identical
   json.mono.generated.go), of the json helpers of bytesDecReader (reader.go:
   skipWhitespace, jsonReadNum, jsonReadAsisChars, readn1/3/4) and of the generic code that
   drives the driver when a value is decoded into interface{} (decodeValue/TryNil,
   kInterfaceNaked, fastpath DecSliceIntfY / DecMapStringIntfL, kMap, arrayStart/mapStart
   depth accounting) or skipped (nextValueBytes).

   The LEXICAL leaves are not modelled here: they are the fields of the record [leaf]
   (string quoting / unquoting, float formatting / parsing, time layout).  The instance
   [c09_leaf] takes quoting and unquoting from the C09 model (C09/Model.v: quote_body,
   dq_scan/dq_loop) and the float / time texts from tables the harness observed.
   Integers (jsonEncodeUint, parseUint64_simple) are C09's executable definitions.

   No proofs here.  Everything mirrors what the code does:
     - every byte below 33 is whitespace (isWhitespaceChar: v < 33), NUL included;
     - a number is read up to the first byte that is not one of 0-9 . + - e E and THAT BYTE
       IS CONSUMED as the pending token d.tok (one byte of look-ahead kept across values
       and across Decode calls on the same Decoder);
     - CheckBreak accepts '}' for ']' and vice versa, Read{Array,Map}End then insist on
       the right one; the skip scanner does not tell them apart at all;
     - the skip scanner (nextValueBytes) only balances brackets outside strings, takes
       ANY other token for a number (possibly empty), and does no depth accounting. *)
From Coq Require Import List NArith ZArith Bool.
From Verif Require Import Base.Outcome Wire.Item Gen.Consts.
From Verif Require C09.Spec C09.Model.
Import ListNotations.
Open Scope bool_scope.
Open Scope N_scope.

(* ------------------------------------------------------------------ *)
(* bytes                                                               *)

Fixpoint eqbl (a b : list N) : bool :=
  match a, b with
  | [], [] => true
  | x :: a', y :: b' => N.eqb x y && eqbl a' b'
  | _, _ => false
  end.

Definition isnil {A} (l : list A) : bool := match l with [] => true | _ => false end.
Definition llen {A} (l : list A) : N := N.of_nat (length l).

(* helper.go: isWhitespaceChar(v) = v < 33 ; numCharBitset = 0-9 . + - e E *)
Definition isws (b : N) : bool := b <? 33.
Definition isnumc (b : N) : bool :=
  ((48 <=? b) && (b <=? 57)) || (b =? 46) || (b =? 43) || (b =? 45) || (b =? 101) || (b =? 69).

Definition t_null : list N := [110; 117; 108; 108].
Definition t_true : list N := [116; 114; 117; 101].
Definition t_false : list N := [102; 97; 108; 115; 101].

(* ------------------------------------------------------------------ *)
(* the lexical leaves                                                  *)

Record leaf := mkleaf {
  quote_body : bool -> list N -> list N;       (* quoteStr under HTMLCharsAsIs, WITHOUT the two quotes *)
  unquote : list N -> res (list N * list N);   (* dblQuoteStringAsBytes on the input AFTER the opening quote:
                                                  (decoded string, input after the closing quote) *)
  sanit : list N -> list N;                    (* what a Go string reads back as (invalid UTF-8 -> U+FFFD) *)
  fmt_f64 : N -> list N;                       (* strconv.AppendFloat(f, fmt, prec, 64) with jsonFloatStrconvFmtPrec64 *)
  fmt_f32 : N -> list N;                       (* ... 32 *)
  pfloat : list N -> option N;                 (* parseFloat64: bits, None = error *)
  fmt_time : Z -> N -> list N }.               (* t.AppendFormat(time.RFC3339Nano), UTC, without quotes *)

(* ------------------------------------------------------------------ *)
(* options                                                             *)

Record eopts := mkeopts {
  indent : Z;             (* JsonHandle.Indent (int8): > 0 spaces, < 0 tabs per level *)
  intAsStr : N;           (* JsonHandle.IntegerAsString: 65 'A', 76 'L', anything else: off *)
  htmlAsIs : bool;        (* JsonHandle.HTMLCharsAsIs *)
  termWs : bool;          (* JsonHandle.TermWhitespace *)
  keyAsStr : bool;        (* JsonHandle.MapKeyAsString (encoder's handle) *)
  bytesArr : bool;        (* JsonHandle.BytesFormat[0] = "array" (else base64) *)
  stringToRaw : bool }.   (* BasicHandle.StringToRaw *)

Record dopts := mkdopts {
  preferFloat : bool;     (* JsonHandle.PreferFloat *)
  signedInteger : bool;   (* DecodeOptions.SignedInteger *)
  dkeyAsStr : bool;       (* JsonHandle.MapKeyAsString (decoder's handle): d.jsms and DecodeNaked *)
  mapIntf : bool;         (* DecodeOptions.MapType = map[interface{}]interface{} set explicitly *)
  maxDepthOpt : Z }.      (* DecodeOptions.MaxDepth (int16); <= 0 means decDefMaxDepth *)

Definition maxdepth (D : dopts) : Z :=
  if (0 <? maxDepthOpt D)%Z then maxDepthOpt D else decDefMaxDepth.

(* kInterfaceNaked: mtid == 0 && d.jsms -> map[string]interface{} ; else map[interface{}]interface{} *)
Definition smap (D : dopts) : bool := dkeyAsStr D && negb (mapIntf D).

(* ------------------------------------------------------------------ *)
(* encoder: jsonEncDriver.  [key] = (e.e.c == containerMapKey), [lvl] = e.dl *)

Record ctx := mkctx { ckey : bool; clvl : N }.
Definition ctx0 : ctx := mkctx false 0.

(* writeIndent: '\n' then |di| * dl tabs or spaces *)
Definition nl (o : eopts) (lvl : N) : list N :=
  if (indent o =? 0)%Z then []
  else 10 :: repeat (if (indent o <? 0)%Z then 9 else 32) (N.to_nat (Z.to_N (Z.abs (indent o)) * lvl)).

Definition colon (o : eopts) : list N := if (indent o =? 0)%Z then [58] else [58; 32].

(* base64.StdEncoding *)
Definition b64c (x : N) : N :=
  if x <? 26 then 65 + x else if x <? 52 then 71 + x else if x <? 62 then x - 4
  else if x =? 62 then 43 else 47.
Fixpoint b64 (l : list N) : list N :=
  match l with
  | a :: b :: c :: r =>
      b64c (a / 4) :: b64c ((a mod 4) * 16 + b / 16) :: b64c ((b mod 16) * 4 + c / 64) :: b64c (c mod 64) :: b64 r
  | [a; b] => [b64c (a / 4); b64c ((a mod 4) * 16 + b / 16); b64c ((b mod 16) * 4); 61]
  | [a] => [b64c (a / 4); b64c ((a mod 4) * 16); 61; 61]
  | [] => []
  end.

(* decimal digits of u (jsonEncodeUint without sign and quotes) *)
Definition udigits (u : N) : list N := Verif.C09.Model.enc_uint_loop 11 (Z.of_N u) [].

Definition f64special (b : N) : bool := N.land (N.shiftr b 52) 2047 =? 2047.   (* NaN, +-Inf *)
Definition f32special (b : N) : bool := N.land (N.shiftr b 23) 255 =? 255.
Definition unixToInternal : Z := 62135596800%Z.
Definition time_zero (sec : Z) (nsec : N) : bool := ((sec + unixToInternal =? 0)%Z) && (nsec =? 0).

(* what a scalar is written as *)
Inductive shape :=
| SNull                                   (* null, never quoted *)
| SQ (wire : list N) (decoded : list N)   (* quote wire quote; [decoded] is what the string decoder makes of it *)
| SB (txt : list N)                       (* bare token: true, false or a number *)
| SNone.                                  (* not a scalar *)

(* EncodeInt / EncodeUint: quotes := is == 'A' || is == 'L' && |v| > 2^53 || (ks && key) *)
Definition int_quotes (o : eopts) (q : bool) (v : Z) : bool :=
  (intAsStr o =? 65) || ((intAsStr o =? 76) && ((2 ^ 53 <? v)%Z || (v <? - 2 ^ 53)%Z)) || q.

Definition int_text (v : Z) : list N :=
  if (v <? 0)%Z then 45 :: udigits (Z.to_N (- v)) else udigits (Z.to_N v).

Definition qwrap (q : bool) (t : list N) : shape := if q then SQ t t else SB t.

Section WithLeaf.
Variable L : leaf.

Definition shape_of (o : eopts) (key : bool) (i : item) : shape :=
  let q := keyAsStr o && key in
  match i with
  | INil => SNull
  | IBool b => qwrap q (if b then t_true else t_false)
  | IInt z => qwrap (int_quotes o q z) (int_text z)
  | IUint n => qwrap (int_quotes o q (Z.of_N n)) (udigits n)
  | IF64 b => if f64special b then SNull else qwrap q (fmt_f64 L b)
  | IF32 b => if f32special b then SNull else qwrap q (fmt_f32 L b)
  | IStr s => if stringToRaw o then (if bytesArr o then SNone else SQ (b64 s) (b64 s))
              else SQ (quote_body L (htmlAsIs o) s) (sanit L s)
  | IBytes b => if bytesArr o then SNone else SQ (b64 b) (b64 b)
  | ITime s n => if time_zero s n then SNull else SQ (fmt_time L s n) (fmt_time L s n)
  | _ => SNone
  end.

Definition enc_shape (s : shape) : list N :=
  match s with
  | SNull => t_null
  | SQ w _ => 34 :: w ++ [34]
  | SB t => t
  | SNone => []
  end.

(* EncodeStringBytesRaw under BytesFormat "array": WriteArrayStart, then WriteArrayElem + encodeUint per byte, then WriteArrayEnd.
   An empty []byte still goes through WriteArrayStart/End: with indentation that is "[\n<indent>]". *)
Definition enc_bytes_arr (o : eopts) (lvl : N) (b : list N) : list N :=
  91 :: (fix go (first : bool) (l : list N) : list N :=
           match l with
           | [] => []
           | x :: r => (if first then [] else [44]) ++ nl o (lvl + 1) ++ udigits x ++ go false r
           end) true b
     ++ nl o lvl ++ [93].

Fixpoint enc_at (o : eopts) (key : bool) (lvl : N) (i : item) : list N :=
  match i with
  | IArr l =>
      match l with
      | [] => [91; 93]                                             (* WriteArrayEmpty *)
      | _ => 91 :: (fix go (first : bool) (l : list item) : list N :=
                      match l with
                      | [] => []
                      | x :: r => (if first then [] else [44]) ++ nl o (lvl + 1) ++ enc_at o false (lvl + 1) x ++ go false r
                      end) true l
                ++ nl o lvl ++ [93]
      end
  | IMap l =>
      match l with
      | [] => [123; 125]                                           (* WriteMapEmpty *)
      | _ => 123 :: (fix go (first : bool) (l : list (item * item)) : list N :=
                       match l with
                       | [] => []
                       | kv :: r => (if first then [] else [44]) ++ nl o (lvl + 1)
                                    ++ enc_at o true (lvl + 1) (fst kv) ++ colon o
                                    ++ enc_at o false (lvl + 1) (snd kv) ++ go false r
                       end) true l
                 ++ nl o lvl ++ [125]
      end
  | IBytes b => if bytesArr o then enc_bytes_arr o lvl b else enc_shape (shape_of o key i)
  | IStr s => if stringToRaw o && bytesArr o then enc_bytes_arr o lvl s else enc_shape (shape_of o key i)
  | ITag _ _ | IExt _ _ => []                                      (* not produced for json; excluded by [jwf] *)
  | _ => enc_shape (shape_of o key i)
  end.

Definition enc (o : eopts) (c : ctx) (i : item) : list N := enc_at o (ckey c) (clvl c) i.

(* one Encode call: the value, then atEndOfEncode.  e.e.c is 0 whenever a top-level value is complete
   (kMap/kSlice/fast paths set it to 0 before Write{Map,Array}End), so the terminator is always ' '. *)
Definition enc_top (o : eopts) (i : item) : list N :=
  enc o ctx0 i ++ (if termWs o then [32] else []).

(* ------------------------------------------------------------------ *)
(* the tokenizer: d.tok (0 = none pending) and the unread input.  Invariant of the code:
   a pending token >= 33 is the last byte that was read. *)

Record st := mkst { tok : N; inp : list N }.
Definition st0 (l : list N) : st := mkst 0 l.

(* bytesDecReader.skipWhitespace: z.b[i] panics at the end of the input *)
Fixpoint skipws (l : list N) : res st :=
  match l with
  | [] => Err EEof
  | b :: r => if isws b then skipws r else Ok (mkst b r)
  end.

Definition advance (s : st) : res st := if isws (tok s) then skipws (inp s) else Ok s.

(* readn3/readn4 + checkLit3/checkLit4: [K]byte(z.b[z.c:]) panics when fewer than K bytes are left *)
Definition lit (exp : list N) (s : st) : res st :=
  if (length (inp s) <? length exp)%nat then Err EEof
  else if eqbl (firstn (length exp) (inp s)) exp then Ok (mkst 0 (skipn (length exp) (inp s)))
  else Err EOther.

Fixpoint numspan (l : list N) : list N * list N :=
  match l with
  | b :: r => if isnumc b then let '(a, t) := numspan r in (b :: a, t) else ([], l)
  | [] => ([], [])
  end.

(* bytesDecReader.jsonReadNum, entered with d.tok >= 33 = z.b[z.c-1]: the number starts AT the token.
   Returns (bs, new state); the byte that ends the number is consumed as the new token; at the end of
   the input there is none (token 0) and the cursor stays at the end (since repair FWjson-1). *)
Definition read_num (s : st) : list N * st :=
  if isnumc (tok s) then
    let '(a, t) := numspan (inp s) in
    (tok s :: a, match t with [] => mkst 0 [] | b :: r => mkst b r end)
  else ([], s).

(* checkSep(xc): advance; d.tok must be xc; d.tok = 0 *)
Definition check_sep (xc : N) (s : st) : res st :=
  do s1 <- advance s ;;
  if tok s1 =? xc then Ok (mkst 0 (inp s1)) else Err EOther.

(* chkOvf.Uint2Int(v, neg) *)
Definition uint2int_ovf (v : Z) (neg : bool) : bool :=
  if neg then (2 ^ 63 <? v)%Z else (2 ^ 63 <=? v)%Z.

(* jsonNakedNum(z, bs, PreferFloat, SignedInteger) on a non-empty bs: parseFloat64 or decimal.go parseNumber *)
Definition naked_num (D : dopts) (bs : list N) : res item :=
  let fl := match pfloat L bs with Some v => Ok (IF64 v) | None => Err EOther end in
  if preferFloat D then fl
  else
    let neg := match bs with c :: _ => c =? 45 | [] => false end in
    let '(f, ok) := Verif.C09.Model.parseUint64_simple (if neg then tl bs else bs) in
    if ok then
      if neg then (if uint2int_ovf f true then fl else Ok (IInt (- f)))      (* below MinInt64: a float64 (repair F09-3) *)
      else if signedInteger D then (if uint2int_ovf f false then Err EOther else Ok (IInt f))
      else Ok (IUint (Z.to_N f))
    else fl.

(* DecodeNaked on a quoted string where a map key is expected, MapKeyAsString on the decoder's handle.
   Since repair F09-4 only a string that IS a JSON number literal (jsonIsNumberLiteral, modelled in
   C09/Model.v) is handed to the lenient number reader: ".5", "1.", "-", "e5", "+5", "007" stay strings. *)
Definition quoted_key (D : dopts) (bs : list N) : item :=
  if eqbl bs t_true then IBool true
  else if eqbl bs t_false then IBool false
  else if Verif.C09.Model.jsonIsNumberLiteral bs
       then match naked_num D bs with Ok i => i | _ => IStr bs end
       else IStr bs.

Definition rd_quoted (D : dopts) (key : bool) (bs : list N) : item :=
  if jsonNakedBoolNumInQuotedStr && dkeyAsStr D && negb (isnil bs) && key then quoted_key D bs else IStr bs.

(* kMap: mapGet/mapSet hash the key; a slice or map inside an interface{} key panics *)
Definition unhashable (k : item) : bool :=
  match k with IArr _ | IMap _ | IExt _ _ | ITag _ _ => true | _ => false end.

(* Go's == on the interface{} keys the decoder produces *)
Definition f64zero (b : N) : bool := (b =? 0) || (b =? 2 ^ 63).
Definition keyeq (a b : item) : bool :=
  match a, b with
  | INil, INil => true
  | IBool x, IBool y => Bool.eqb x y
  | IInt x, IInt y => Z.eqb x y
  | IUint x, IUint y => N.eqb x y
  | IStr x, IStr y => eqbl x y
  | IF64 x, IF64 y => if f64zero x && f64zero y then true else N.eqb x y
  | _, _ => false
  end.
(* A key that is already in the map makes kMap / DecMapStringIntfL decode the value INTO the value
   stored there (typed decoding driven by the old dynamic type).  Not modelled: Err EUnsupported,
   "no prediction" for the correspondence, excluded by [jwf] in the theorems. *)
Definition seen_key (seen : list item) (k : item) : bool := existsb (keyeq k) seen.

(* arrayStart/mapStart after Read{Array,Map}Start returned containerLenUnknown: depthIncr *)
Definition depth_enter (D : dopts) (depth : Z) : res Z :=
  if (maxdepth D <=? depth + 1)%Z then Err EDepth else Ok (depth + 1)%Z.

(* DecodeStringAsBytes, as DecMapStringIntfL uses it for the key of a map[string]interface{} *)
Definition dec_strkey (s : st) : res (item * st) :=
  do s1 <- advance s ;;
  let t := tok s1 in
  if t =? 34 then do (bs, r) <- unquote L (inp s1) ;; Ok (IStr bs, mkst 0 r)
  else if t =? 110 then do s2 <- lit [117; 108; 108] s1 ;; Ok (IStr [], s2)
  else if t =? 102 then do s2 <- lit [97; 108; 115; 101] s1 ;; Ok (IStr t_false, s2)
  else if t =? 116 then do s2 <- lit [114; 117; 101] s1 ;; Ok (IStr t_true, s2)
  else let '(bs, s2) := read_num s1 in Ok (IStr bs, s2).

(* decode into interface{}: decodeValue (TryNil) -> kInterface -> kInterfaceNaked -> DecodeNaked ->
   []interface{} via DecSliceIntfY | map[string]interface{} via DecMapStringIntfL |
   map[interface{}]interface{} via kMap.   [depth] = decoderBase.depth, [key] = (d.c == containerMapKey). *)
Fixpoint dec (D : dopts) (fuel : nat) (depth : Z) (key : bool) (s : st) {struct fuel} : res (item * st) :=
  match fuel with
  | O => OutOfFuel
  | S f =>
    do s1 <- advance s ;;
    let t := tok s1 in
    if t =? 110 then do s2 <- lit [117; 108; 108] s1 ;; Ok (INil, s2)
    else if t =? 102 then do s2 <- lit [97; 108; 115; 101] s1 ;; Ok (IBool false, s2)
    else if t =? 116 then do s2 <- lit [114; 117; 101] s1 ;; Ok (IBool true, s2)
    else if t =? 123 then                                   (* ReadMapStart: d.tok = 0 *)
      do d' <- depth_enter D depth ;;
      do (kvs, s2) <- dec_pairs D f d' true [] (mkst 0 (inp s1)) ;;
      Ok (IMap kvs, s2)
    else if t =? 91 then                                    (* ReadArrayStart *)
      do d' <- depth_enter D depth ;;
      do (xs, s2) <- dec_elems D f d' true (mkst 0 (inp s1)) ;;
      Ok (IArr xs, s2)
    else if t =? 34 then
      do (bs, r) <- unquote L (inp s1) ;;
      Ok (rd_quoted D key bs, mkst 0 r)
    else
      let '(bs, s2) := read_num s1 in
      if isnil bs then Err EOther                           (* "decode number from empty string" *)
      else do i <- naked_num D bs ;; Ok (i, s2)
  end
with dec_elems (D : dopts) (fuel : nat) (depth : Z) (first : bool) (s : st) {struct fuel} : res (list item * st) :=
  match fuel with
  | O => OutOfFuel
  | S f =>
    do s1 <- advance s ;;                                   (* containerNext -> CheckBreak *)
    if (tok s1 =? 125) || (tok s1 =? 93) then
      (* arrayEnd -> ReadArrayEnd -> checkSep(']') *)
      if tok s1 =? 93 then Ok ([], mkst 0 (inp s1)) else Err EOther
    else
      do s2 <- (if first then Ok s1 else check_sep 44 s1) ;;  (* arrayElem -> ReadArrayElem *)
      do (x, s3) <- dec D f depth false s2 ;;
      do (xs, s4) <- dec_elems D f depth false s3 ;;
      Ok (x :: xs, s4)
  end
with dec_pairs (D : dopts) (fuel : nat) (depth : Z) (first : bool) (seen : list item) (s : st) {struct fuel}
  : res (list (item * item) * st) :=
  match fuel with
  | O => OutOfFuel
  | S f =>
    do s1 <- advance s ;;
    if (tok s1 =? 125) || (tok s1 =? 93) then
      if tok s1 =? 125 then Ok ([], mkst 0 (inp s1)) else Err EOther    (* mapEnd -> checkSep('}') *)
    else
      do s2 <- (if first then Ok s1 else check_sep 44 s1) ;;  (* mapElemKey *)
      if smap D then
        do (k, s3) <- dec_strkey s2 ;;
        do s4 <- check_sep 58 s3 ;;                           (* mapElemValue *)
        if seen_key seen k then Err EUnsupported else
        do (v, s5) <- dec D f depth false s4 ;;
        do (kvs, s6) <- dec_pairs D f depth false (k :: seen) s5 ;;
        Ok ((k, v) :: kvs, s6)
      else
        do (k, s3) <- dec D f depth true s2 ;;                (* TryNil | decode(&interface{}) *)
        do s4 <- check_sep 58 s3 ;;
        do s5 <- advance s4 ;;                                (* TryNil on the value *)
        if unhashable k then Err EOther else                  (* mapGet / mapSet hash the key *)
        if seen_key seen k then Err EUnsupported else
        do (v, s6) <- dec D f depth false s5 ;;
        do (kvs, s7) <- dec_pairs D f depth false (k :: seen) s6 ;;
        Ok ((k, v) :: kvs, s7)
  end.

(* unconsumed bytes of a state: a pending token >= 33 still has to be interpreted *)
Definition pending (s : st) : nat := (if isws (tok s) then 0 else 1) + length (inp s).
Definition dec_fuel (s : st) : nat := 2 * pending s + 2.

(* one Decode(&interface{}) call on a Decoder whose tokenizer is in state [s] *)
Definition decode1 (D : dopts) (s : st) : res (item * st) := dec D (dec_fuel s) 0%Z false s.

(* Decode(&interface{}) on a fresh decoder over [l]: value and what was not read.
   NumBytesRead = length l - length (inp s'). *)
Definition dec_naked (D : dopts) (fuel : nat) (l : list N) : res (item * list N) :=
  do (i, s) <- dec D fuel 0%Z false (st0 l) ;; Ok (i, inp s).

(* successive Decode calls on one Decoder: values and NumBytesRead after each call *)
Fixpoint dec_seq (D : dopts) (n : nat) (total : N) (s : st) : res (list (item * N)) :=
  match n with
  | O => Ok []
  | S n' =>
    do (i, s') <- decode1 D s ;;
    do r <- dec_seq D n' total s' ;;
    Ok ((i, total - llen (inp s')) :: r)
  end.

(* ---- the same decoder instrumented with its recursion level: one level per nested
   decode(&interface{}) call; the result carries the deepest level reached *)
Definition ibind {A B} (x : res A * nat) (f : A -> res B * nat) : res B * nat :=
  match fst x with
  | Ok a => let y := f a in (fst y, Nat.max (snd x) (snd y))
  | Err e => (Err e, snd x)
  | OutOfFuel => (OutOfFuel, snd x)
  end.
Definition ilift {A} (lvl : nat) (x : res A) : res A * nat := (x, lvl).

Fixpoint deci (D : dopts) (fuel : nat) (depth : Z) (lvl : nat) (key : bool) (s : st) {struct fuel} : res (item * st) * nat :=
  match fuel with
  | O => (OutOfFuel, lvl)
  | S f =>
    ibind (ilift lvl (advance s)) (fun s1 =>
    let t := tok s1 in
    if t =? 110 then ilift lvl (do s2 <- lit [117; 108; 108] s1 ;; Ok (INil, s2))
    else if t =? 102 then ilift lvl (do s2 <- lit [97; 108; 115; 101] s1 ;; Ok (IBool false, s2))
    else if t =? 116 then ilift lvl (do s2 <- lit [114; 117; 101] s1 ;; Ok (IBool true, s2))
    else if t =? 123 then
      ibind (ilift lvl (depth_enter D depth)) (fun d' =>
      ibind (deci_pairs D f d' (S lvl) true [] (mkst 0 (inp s1))) (fun xr => let '(kvs, s2) := xr in
      ilift lvl (Ok (IMap kvs, s2))))
    else if t =? 91 then
      ibind (ilift lvl (depth_enter D depth)) (fun d' =>
      ibind (deci_elems D f d' (S lvl) true (mkst 0 (inp s1))) (fun xr => let '(xs, s2) := xr in
      ilift lvl (Ok (IArr xs, s2))))
    else if t =? 34 then
      ilift lvl (do (bs, r) <- unquote L (inp s1) ;; Ok (rd_quoted D key bs, mkst 0 r))
    else
      ilift lvl (let '(bs, s2) := read_num s1 in
                 if isnil bs then Err EOther else do i <- naked_num D bs ;; Ok (i, s2)))
  end
with deci_elems (D : dopts) (fuel : nat) (depth : Z) (lvl : nat) (first : bool) (s : st) {struct fuel} : res (list item * st) * nat :=
  match fuel with
  | O => (OutOfFuel, lvl)
  | S f =>
    ibind (ilift lvl (advance s)) (fun s1 =>
    if (tok s1 =? 125) || (tok s1 =? 93) then
      ilift lvl (if tok s1 =? 93 then Ok ([], mkst 0 (inp s1)) else Err EOther)
    else
      ibind (ilift lvl (if first then Ok s1 else check_sep 44 s1)) (fun s2 =>
      ibind (deci D f depth lvl false s2) (fun xr => let '(x, s3) := xr in
      ibind (deci_elems D f depth lvl false s3) (fun yr => let '(xs, s4) := yr in
      ilift lvl (Ok (x :: xs, s4))))))
  end
with deci_pairs (D : dopts) (fuel : nat) (depth : Z) (lvl : nat) (first : bool) (seen : list item) (s : st) {struct fuel}
  : res (list (item * item) * st) * nat :=
  match fuel with
  | O => (OutOfFuel, lvl)
  | S f =>
    ibind (ilift lvl (advance s)) (fun s1 =>
    if (tok s1 =? 125) || (tok s1 =? 93) then
      ilift lvl (if tok s1 =? 125 then Ok ([], mkst 0 (inp s1)) else Err EOther)
    else
      ibind (ilift lvl (if first then Ok s1 else check_sep 44 s1)) (fun s2 =>
      if smap D then
        ibind (ilift lvl (dec_strkey s2)) (fun kr => let '(k, s3) := kr in
        ibind (ilift lvl (check_sep 58 s3)) (fun s4 =>
        if seen_key seen k then ilift lvl (Err EUnsupported) else
        ibind (deci D f depth lvl false s4) (fun vr => let '(v, s5) := vr in
        ibind (deci_pairs D f depth lvl false (k :: seen) s5) (fun yr => let '(kvs, s6) := yr in
        ilift lvl (Ok ((k, v) :: kvs, s6))))))
      else
        ibind (deci D f depth lvl true s2) (fun kr => let '(k, s3) := kr in
        ibind (ilift lvl (check_sep 58 s3)) (fun s4 =>
        ibind (ilift lvl (advance s4)) (fun s5 =>
        if unhashable k then ilift lvl (Err EOther) else
        if seen_key seen k then ilift lvl (Err EUnsupported) else
        ibind (deci D f depth lvl false s5) (fun vr => let '(v, s6) := vr in
        ibind (deci_pairs D f depth lvl false (k :: seen) s6) (fun yr => let '(kvs, s7) := yr in
        ilift lvl (Ok ((k, v) :: kvs, s7)))))))))
  end.

(* ------------------------------------------------------------------ *)
(* the second parser: jsonDecDriver.nextValueBytes.  It is a loop over bytes (no recursion):
   [scan n esc instr l] is the state of that loop: n open brackets (len(stack)), inside a string or
   not, after a backslash or not.  Structural recursion on the input: no fuel. *)

(* consumeString: jsonReadAsisChars up to a quote or a backslash; after a backslash readn1 and again.
   [esc]: the next byte is the one after a backslash.  Result: input after the closing quote. *)
Fixpoint cstr (esc : bool) (l : list N) : res (list N) :=
  match l with
  | [] => Err EEof
  | b :: r => if esc then cstr false r
              else if b =? 34 then Ok r
              else if b =? 92 then cstr true r
              else cstr false r
  end.

(* for len(stack) != 0 { c := readn1(); switch c { quote: consumeString; '{','[': push; '}',']': pop } } *)
Fixpoint scan (n : nat) (instr esc : bool) (l : list N) : res (list N) :=
  match l with
  | [] => Err EEof
  | b :: r =>
    if instr then
      if esc then scan n true false r
      else if b =? 34 then scan n false false r
      else if b =? 92 then scan n true true r
      else scan n true false r
    else if b =? 34 then scan n true false r
    else if (b =? 123) || (b =? 91) then scan (S n) false false r
    else if (b =? 125) || (b =? 93) then
      match n with
      | S (S m) => scan (S m) false false r
      | _ => Ok r                                           (* len(stack) == 0: the loop ends *)
      end
    else scan n false false r
  end.

(* nextValueBytes from tokenizer state [s]: (bytes handed back, new state).  The recording starts at
   the token (startRecording: z.c-1).  A number's bytes are what jsonReadNum returned: the byte that
   ended it is consumed as the next token but is not part of the value (since repair FWjson-1). *)
Definition nvb (s : st) : res (list N * st) :=
  do s1 <- advance s ;;
  let t := tok s1 in
  let fin (r : list N) := Ok (t :: firstn (length (inp s1) - length r) (inp s1), mkst 0 r) in
  if t =? 110 then do s2 <- lit [117; 108; 108] s1 ;; fin (inp s2)
  else if t =? 102 then do s2 <- lit [97; 108; 115; 101] s1 ;; fin (inp s2)
  else if t =? 116 then do s2 <- lit [114; 117; 101] s1 ;; fin (inp s2)
  else if t =? 34 then do r <- cstr false (inp s1) ;; fin r
  else if (t =? 123) || (t =? 91) then do r <- scan 1 false false (inp s1) ;; fin r
  else let '(bs, s2) := read_num s1 in Ok (bs, s2).

(* the spec'd signatures: skip on a fresh decoder; [fuel] is unused (the scanner is a structural
   loop), kept so that skip and dec_naked are called alike *)
Definition skip (fuel : nat) (l : list N) : res (list N) :=
  do (_, s) <- nvb (st0 l) ;; Ok (inp s).
Definition raw (l : list N) : res (list N * list N) :=
  do (v, s) <- nvb (st0 l) ;; Ok (v, inp s).

(* recursion level of the skip scanner: it never calls itself *)
Definition skip_maxrec : nat := 1.

(* ------------------------------------------------------------------ *)
(* what an encoded item reads back as (Decode into interface{})        *)

Definition nn_or_nil (D : dopts) (t : list N) : item :=
  match naked_num D t with Ok i => i | _ => INil end.

Definition rd_bare (D : dopts) (key : bool) (t : list N) : item :=
  if key && smap D then IStr t
  else if eqbl t t_true then IBool true
  else if eqbl t t_false then IBool false
  else nn_or_nil D t.

Definition norm_shape (D : dopts) (key : bool) (sh : shape) : item :=
  match sh with
  | SNull => if key && smap D then IStr [] else INil
  | SQ _ d => if key && smap D then IStr d else rd_quoted D key d
  | SB t => rd_bare D key t
  | SNone => INil
  end.

Fixpoint norm (o : eopts) (D : dopts) (key : bool) (i : item) : item :=
  match i with
  | IArr l => IArr (map (norm o D false) l)
  | IMap l => IMap (map (fun kv => (norm o D true (fst kv), norm o D false (snd kv))) l)
  | IBytes b => if bytesArr o then IArr (map (fun x => nn_or_nil D (udigits x)) b) else norm_shape D key (shape_of o key i)
  | IStr s => if stringToRaw o && bytesArr o then IArr (map (fun x => nn_or_nil D (udigits x)) s)
              else norm_shape D key (shape_of o key i)
  | ITag _ _ | IExt _ _ => i
  | _ => norm_shape D key (shape_of o key i)
  end.

End WithLeaf.

(* ------------------------------------------------------------------ *)
(* the instance the correspondence evaluates: C09's string code, tables for the rest *)

Fixpoint lookupN (t : list (N * list N)) (k : N) : list N :=
  match t with [] => [] | (a, v) :: r => if a =? k then v else lookupN r k end.
Fixpoint lookupL (t : list (list N * N)) (k : list N) : option N :=
  match t with [] => None | (a, v) :: r => if eqbl a k then Some v else lookupL r k end.
Fixpoint lookupT (t : list (Z * N * list N)) (s : Z) (n : N) : list N :=
  match t with [] => [] | (a, b, v) :: r => if (a =? s)%Z && (b =? n) then v else lookupT r s n end.

Record tables := mktables {
  t_f64 : list (N * list N);       (* float64 bits -> text the real encoder wrote *)
  t_f32 : list (N * list N);
  t_pf : list (list N * N);        (* number text -> bits the real parseFloat64 returned (absent = error) *)
  t_time : list (Z * N * list N) }.  (* (sec, nsec) -> RFC3339Nano text *)

Definition c09_unquote (t : list N) : res (list N * list N) :=
  Verif.C09.Model.dq_scan (Verif.C09.Model.dq_loop (length t)) [] 0 t.

Definition c09_quote_body (h : bool) (s : list N) : list N :=
  Verif.C09.Model.quote_body (length s) h s.

(* what quoting then unquoting makes of a string: computed, not a table *)
Definition c09_sanit (s : list N) : list N :=
  match c09_unquote (c09_quote_body true s ++ [34]) with Ok (d, _) => d | _ => s end.

Definition c09_leaf (T : tables) : leaf :=
  mkleaf c09_quote_body c09_unquote c09_sanit
         (lookupN (t_f64 T)) (lookupN (t_f32 T)) (lookupL (t_pf T)) (lookupT (t_time T)).

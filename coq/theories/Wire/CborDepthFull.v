(* Wire/CborDepthFull — every value the decode-into-interface{} model of cbor returns is nested
   less than MaxDepth, for EVERY input, option vector and fuel.

   Invariant (by induction on the fuel over the five mutually recursive functions, with the entry
   depth generalised): a call entered at decoderBase.depth = d < MaxDepth that returns Ok i has
   d + depth i < MaxDepth.  [Item.depth] counts arrays, maps AND tags, which is exactly where the
   model (and the code, after F14-2) calls depthIncr: a tag the decoder KEEPS (ITag in the result)
   costs one level; a tag it skips (SkipUnexpectedTags, the self-describe tag 55799) or consumes
   (0..5: time, bignum, decimal fraction, bigfloat) leaves no ITag node in the result and costs
   none.  So no cbor-specific depth measure is needed: the result tree's own depth is the count. *)
From Coq Require Import List NArith ZArith Lia Bool Arith.
From Verif Require Import Base.Outcome Wire.Item Gen.Consts Wire.CborFloat Wire.Cbor.
Import ListNotations.
Open Scope N_scope.

Definition ldepth (l : list item) : nat := fold_right (fun x m => Nat.max (depth x) m) 0%nat l.
Definition pdepth (l : list (item * item)) : nat :=
  fold_right (fun kv m => Nat.max (Nat.max (depth (fst kv)) (depth (snd kv))) m) 0%nat l.

Lemma depth_arr : forall l, depth (IArr l) = S (ldepth l).
Proof. reflexivity. Qed.
Lemma depth_map : forall l, depth (IMap l) = S (pdepth l).
Proof. reflexivity. Qed.

Lemma fst_bindI_inv {A B} : forall (m : resI A) (k : A -> resI B) x,
  fst (bindI m k) = Ok x -> exists a, fst m = Ok a /\ fst (k a) = Ok x.
Proof.
  intros m k x H. unfold bindI in H. destruct (fst m) eqn:E; cbn [fst] in H; try discriminate. eauto.
Qed.

Lemma bind_inv {A B} : forall (m : res A) (k : A -> res B) x,
  bind m k = Ok x -> exists a, m = Ok a /\ k a = Ok x.
Proof. intros m k x H. destruct m; cbn [bind] in H; try discriminate. eauto. Qed.

Lemma keynorm_depth : forall k, depth (keynorm k) = depth k.
Proof. destruct k; reflexivity. Qed.

(* the values the consumed tags produce are leaves *)
Lemma time_of_unix_depth : forall s n i, time_of_unix s n = Ok i -> depth i = 0%nat.
Proof.
  intros s n i H. unfold time_of_unix in H.
  destruct ((s <? -4611686018427387904) || (4611686018427387904 <? s))%Z; [discriminate |].
  destruct (n <? 0)%Z.
  - destruct (round_us (s - 1) (Z.to_N (n + 1000000000))). inversion H. reflexivity.
  - destruct (round_us s (Z.to_N n)). inversion H. reflexivity.
Qed.

Lemma parse_rfc3339_depth : forall s i, parse_rfc3339 s = Ok i -> depth i = 0%nat.
Proof.
  intros s i H. unfold parse_rfc3339 in H. destruct (parse_core s) as [[sec ns] |]; [| discriminate].
  eapply time_of_unix_depth; eassumption.
Qed.

Lemma time_of_float_depth : forall x i, time_of_float x = Ok i -> depth i = 0%nat.
Proof.
  intros x i H. unfold time_of_float in H. destruct (f64_exp x =? 2047); [discriminate |].
  eapply time_of_unix_depth; eassumption.
Qed.

Section Body.
  Variable D : dopts.
  Variable f' : nat.
  Variable self : Z -> nat -> list N -> resI (item * list N).
  Variable arrd : Z -> nat -> N -> list N -> resI (list item * list N).
  Variable arri : Z -> nat -> list N -> resI (list item * list N).
  Variable mapd : Z -> nat -> N -> list item -> list N -> resI (list (item * item) * list N).
  Variable mapi : Z -> nat -> list item -> list N -> resI (list (item * item) * list N).
  Hypothesis Hself : forall d r b i rest, (d < maxdepth D)%Z ->
    fst (self d r b) = Ok (i, rest) -> (d + Z.of_nat (depth i) < maxdepth D)%Z.
  Hypothesis Harrd : forall d r n b l rest, (d < maxdepth D)%Z ->
    fst (arrd d r n b) = Ok (l, rest) -> (d + Z.of_nat (ldepth l) < maxdepth D)%Z.
  Hypothesis Harri : forall d r b l rest, (d < maxdepth D)%Z ->
    fst (arri d r b) = Ok (l, rest) -> (d + Z.of_nat (ldepth l) < maxdepth D)%Z.
  Hypothesis Hmapd : forall d r n s b l rest, (d < maxdepth D)%Z ->
    fst (mapd d r n s b) = Ok (l, rest) -> (d + Z.of_nat (pdepth l) < maxdepth D)%Z.
  Hypothesis Hmapi : forall d r s b l rest, (d < maxdepth D)%Z ->
    fst (mapi d r s b) = Ok (l, rest) -> (d + Z.of_nat (pdepth l) < maxdepth D)%Z.

  Lemma depth_ok_lt : forall d, depth_ok D d = true -> (d + 1 < maxdepth D)%Z.
  Proof. intros d H. unfold depth_ok in H. apply Z.ltb_lt in H. exact H. Qed.

  Lemma dec_tag_val : forall d r t b2 i rest, (d < maxdepth D)%Z ->
    fst (dec_tag D f' self d r t b2) = Ok (i, rest) -> (d + Z.of_nat (depth i) < maxdepth D)%Z.
  Proof.
    intros d r t b2 i rest Hd H. unfold dec_tag in H.
    destruct (t =? 0).
    { cbn [fst liftI] in H. apply bind_inv in H as ([s b3] & _ & H).
      apply bind_inv in H as (x & E & H). inversion H; subst.
      rewrite (parse_rfc3339_depth _ _ E). lia. }
    destruct (t =? 1).
    { cbn [fst liftI] in H. apply bind_inv in H as ([s b3] & _ & H).
      apply bind_inv in H as (x & E & H). inversion H; subst.
      rewrite (time_of_float_depth _ _ E). lia. }
    destruct ((t =? 2) || (t =? 3)).
    { cbn [fst liftI] in H. apply bind_inv in H as ([s b3] & _ & H).
      apply bind_inv in H as (x & E & H). inversion H; subst. cbn [depth]. lia. }
    destruct ((t =? 4) || (t =? 5)).
    { cbn [fst liftI] in H. destruct b2 as [| nn b3]; [discriminate |].
      destruct (nn =? 130); [| discriminate].
      apply bind_inv in H as ([e b4] & _ & H). apply bind_inv in H as ([m b5] & _ & H).
      apply bind_inv in H as (x & _ & H). inversion H; subst. cbn [depth]. lia. }
    destruct ((t =? 55799) || do_skiptags D).
    { eapply Hself; eassumption. }
    destruct (depth_ok D d) eqn:Hok; [| discriminate].
    apply depth_ok_lt in Hok.
    apply fst_bindI_inv in H as ([v b3] & E & H). cbn [fst] in H. inversion H; subst.
    apply Hself in E; [| lia]. cbn [depth]. lia.
  Qed.

  Lemma dec_body_val : forall d r bd b1 i rest, (d < maxdepth D)%Z ->
    fst (dec_body D f' self arrd arri mapd mapi d r bd b1) = Ok (i, rest) ->
    (d + Z.of_nat (depth i) < maxdepth D)%Z.
  Proof.
    intros d r bd b1 i rest Hd H. unfold dec_body in H.
    destruct (kind_of bd).
    - cbn [fst liftI] in H. apply bind_inv in H as ([u b2] & _ & H).
      destruct (do_signed D).
      + apply bind_inv in H as (x & _ & H). inversion H; subst. cbn [depth]. lia.
      + inversion H; subst. cbn [depth]. lia.
    - cbn [fst liftI] in H. apply bind_inv in H as ([u b2] & _ & H).
      apply bind_inv in H as (x & _ & H). inversion H; subst. cbn [depth]. lia.
    - cbn [fst liftI] in H. apply bind_inv in H as ([s b2] & _ & H).
      inversion H; subst. destruct (do_raw2str D); cbn [depth]; lia.
    - cbn [fst liftI] in H. apply bind_inv in H as ([s b2] & _ & H).
      inversion H; subst. cbn [depth]. lia.
    - destruct (bd =? bdIndefArray).
      + destruct (depth_ok D d) eqn:Hok; [| discriminate]. apply depth_ok_lt in Hok.
        apply fst_bindI_inv in H as ([l b2] & E & H). cbn [fst] in H. inversion H; subst.
        apply Harri in E; [| lia]. rewrite depth_arr. lia.
      + apply fst_bindI_inv in H as ([n b2] & _ & H).
        destruct (depth_ok D d) eqn:Hok; [| discriminate]. apply depth_ok_lt in Hok.
        apply fst_bindI_inv in H as ([l b3] & E & H). cbn [fst] in H. inversion H; subst.
        apply Harrd in E; [| lia]. rewrite depth_arr. lia.
    - destruct (bd =? bdIndefMap).
      + destruct (depth_ok D d) eqn:Hok; [| discriminate]. apply depth_ok_lt in Hok.
        apply fst_bindI_inv in H as ([l b2] & E & H). cbn [fst] in H. inversion H; subst.
        apply Hmapi in E; [| lia]. rewrite depth_map. lia.
      + apply fst_bindI_inv in H as ([n b2] & _ & H).
        destruct (depth_ok D d) eqn:Hok; [| discriminate]. apply depth_ok_lt in Hok.
        apply fst_bindI_inv in H as ([l b3] & E & H). cbn [fst] in H. inversion H; subst.
        apply Hmapd in E; [| lia]. rewrite depth_map. lia.
    - apply fst_bindI_inv in H as ([t b2] & _ & H). eapply dec_tag_val; eassumption.
    - unfold dec_simple in H.
      repeat match type of H with
             | context [if ?c then _ else _] => destruct c
             end; cbn [fst liftI] in H;
        try (apply bind_inv in H as ([x b2] & _ & H)); try discriminate;
        inversion H; subst; cbn [depth]; lia.
  Qed.

  Lemma map_entry_val : forall d r seen b k v rest, (d < maxdepth D)%Z ->
    fst (map_entry self d r seen b) = Ok (k, v, rest) ->
    (d + Z.of_nat (depth k) < maxdepth D)%Z /\ (d + Z.of_nat (depth v) < maxdepth D)%Z.
  Proof.
    intros d r seen b k v rest Hd H. unfold map_entry in H.
    apply fst_bindI_inv in H as ([k0 b1] & Ek & H).
    destruct b1 as [| x xs]; [discriminate |].
    destruct (negb (hashable (keynorm k0))); [discriminate |].
    destruct (existsb (key_eqb (keynorm k0)) seen); [discriminate |].
    apply fst_bindI_inv in H as ([v0 b2] & Ev & H). cbn [fst] in H. inversion H; subst.
    apply Hself in Ek; [| assumption]. apply Hself in Ev; [| assumption].
    rewrite keynorm_depth. split; assumption.
  Qed.
End Body.

Theorem dec_val : forall D f,
  (forall d r b i rest, (d < maxdepth D)%Z ->
     fst (dec D f d r b) = Ok (i, rest) -> (d + Z.of_nat (depth i) < maxdepth D)%Z) /\
  (forall d r n b l rest, (d < maxdepth D)%Z ->
     fst (arr_def D f d r n b) = Ok (l, rest) -> (d + Z.of_nat (ldepth l) < maxdepth D)%Z) /\
  (forall d r b l rest, (d < maxdepth D)%Z ->
     fst (arr_indef D f d r b) = Ok (l, rest) -> (d + Z.of_nat (ldepth l) < maxdepth D)%Z) /\
  (forall d r n s b l rest, (d < maxdepth D)%Z ->
     fst (map_def D f d r n s b) = Ok (l, rest) -> (d + Z.of_nat (pdepth l) < maxdepth D)%Z) /\
  (forall d r s b l rest, (d < maxdepth D)%Z ->
     fst (map_indef D f d r s b) = Ok (l, rest) -> (d + Z.of_nat (pdepth l) < maxdepth D)%Z).
Proof.
  intros D. induction f as [| f' (IH1 & IH2 & IH3 & IH4 & IH5)].
  - repeat apply conj; intros; cbn [dec arr_def arr_indef map_def map_indef fst] in *; discriminate.
  - repeat apply conj.
    + intros d r b i rest Hd H. cbn [dec] in H. destruct b as [| bd b1]; [discriminate |].
      eapply dec_body_val; eassumption.
    + intros d r n b l rest Hd H. cbn [arr_def] in H. destruct (n =? 0).
      * inversion H; subst. cbn [ldepth fold_right]. lia.
      * apply fst_bindI_inv in H as ([x b1] & E1 & H). apply fst_bindI_inv in H as ([xs b2] & E2 & H).
        cbn [fst] in H. inversion H; subst. apply IH1 in E1; [| assumption]. apply IH2 in E2; [| assumption].
        cbn [ldepth fold_right]. fold (ldepth xs). lia.
    + intros d r b l rest Hd H. cbn [arr_indef] in H. destruct b as [| bd b1]; [discriminate |].
      destruct (bd =? bdBreak).
      * inversion H; subst. cbn [ldepth fold_right]. lia.
      * apply fst_bindI_inv in H as ([x b2] & E1 & H). apply fst_bindI_inv in H as ([xs b3] & E2 & H).
        cbn [fst] in H. inversion H; subst. apply IH1 in E1; [| assumption]. apply IH3 in E2; [| assumption].
        cbn [ldepth fold_right]. fold (ldepth xs). lia.
    + intros d r n s b l rest Hd H. cbn [map_def] in H. destruct (n =? 0).
      * inversion H; subst. cbn [pdepth fold_right]. lia.
      * apply fst_bindI_inv in H as ([[k v] b2] & E1 & H). apply fst_bindI_inv in H as ([kvs b3] & E2 & H).
        cbn [fst] in H. inversion H; subst.
        apply (map_entry_val D (dec D f') IH1) in E1; [| assumption]. destruct E1 as [Ek Ev].
        apply IH4 in E2; [| assumption].
        cbn [pdepth fold_right fst snd]. fold (pdepth kvs). lia.
    + intros d r s b l rest Hd H. cbn [map_indef] in H. destruct b as [| bd b0]; [discriminate |].
      destruct (bd =? bdBreak).
      * inversion H; subst. cbn [pdepth fold_right]. lia.
      * apply fst_bindI_inv in H as ([[k v] b2] & E1 & H). apply fst_bindI_inv in H as ([kvs b3] & E2 & H).
        cbn [fst] in H. inversion H; subst.
        apply (map_entry_val D (dec D f') IH1) in E1; [| assumption]. destruct E1 as [Ek Ev].
        apply IH5 in E2; [| assumption].
        cbn [pdepth fold_right fst snd]. fold (pdepth kvs). lia.
Qed.

Lemma maxdepth_pos : forall D, (1 <= maxdepth D)%Z.
Proof.
  intros D. unfold maxdepth. destruct (0 <? do_maxdepth D)%Z eqn:E.
  - apply Z.ltb_lt in E. lia.
  - vm_compute. discriminate.
Qed.

(* for EVERY input, option vector and fuel: a value nested MaxDepth levels or more (arrays, maps
   and kept tags each count one) is never returned *)
Lemma dec_depth_val : forall (D : dopts) (f : nat) (b : list N) (i : item) (rest : list N),
  dec_naked D f b = Ok (i, rest) -> (Z.of_nat (depth i) < maxdepth D)%Z.
Proof.
  intros D f b i rest H. unfold dec_naked in H.
  pose proof (maxdepth_pos D) as Hp.
  pose proof (proj1 (dec_val D f) 0%Z 0%nat b i rest ltac:(lia) H). lia.
Qed.

Lemma dec_depth_error : forall (D : dopts) (f : nat) (b : list N) (i : item) (rest : list N),
  (maxdepth D <= Z.of_nat (depth i))%Z -> dec_naked D f b <> Ok (i, rest).
Proof. intros D f b i rest Hd H. apply dec_depth_val in H. lia. Qed.
